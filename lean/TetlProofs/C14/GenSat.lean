/-
C14, tie T — saturate_cast<To>(From) for all 64 pairs
WRITTEN by gen/c14_genprops.py (statements and proofs are uniform per family); re-checked against the regenerated
Tetl/C14/Gen.lean on every run of the C14 check.
-/
import TetlProofs.C14.GenCmpD2
set_option linter.unusedSimpArgs false
set_option linter.unusedVariables false
namespace Tetl.C14.GenProps
open Tetl Tetl.C14 Tetl.CSem

theorem gen_saturate_cast_u8_u8 (x : Int) (hx : 0 ≤ x ∧ x < 256) :
    Gen.saturate_cast_u8_u8_ub x = true ∧ Gen.saturate_cast_u8_u8 x = Spec.clampTo 0 255 x ∧
    Tetl.C14.saturateCast ⟨8, false⟩ ⟨8, false⟩ x = .ok (Gen.saturate_cast_u8_u8 x) := by
  have ha := gen_cmp_less_u8_u8 x 0 hx (by decide)
  have hb := gen_cmp_greater_u8_u8 x 255 hx (by decide)
  have h2 : Gen.saturate_cast_u8_u8 x = Spec.clampTo 0 255 x := by
    simp only [Gen.saturate_cast_u8_u8, ha.2.1, hb.2.1]; c_arith
  refine ⟨by simp only [Gen.saturate_cast_u8_u8_ub, ha.1, hb.1] <;> simp, h2, ?_⟩
  rw [h2, Props.saturateCast_eq _ _ (by decide) (by decide) x (inR_u8 x hx)]; rfl

theorem gen_saturate_cast_u8_u16 (x : Int) (hx : 0 ≤ x ∧ x < 65536) :
    Gen.saturate_cast_u8_u16_ub x = true ∧ Gen.saturate_cast_u8_u16 x = Spec.clampTo 0 255 x ∧
    Tetl.C14.saturateCast ⟨8, false⟩ ⟨16, false⟩ x = .ok (Gen.saturate_cast_u8_u16 x) := by
  have ha := gen_cmp_less_u16_u8 x 0 hx (by decide)
  have hb := gen_cmp_greater_u16_u8 x 255 hx (by decide)
  have h2 : Gen.saturate_cast_u8_u16 x = Spec.clampTo 0 255 x := by
    simp only [Gen.saturate_cast_u8_u16, ha.2.1, hb.2.1]; c_arith
  refine ⟨by simp only [Gen.saturate_cast_u8_u16_ub, ha.1, hb.1] <;> simp, h2, ?_⟩
  rw [h2, Props.saturateCast_eq _ _ (by decide) (by decide) x (inR_u16 x hx)]; rfl

theorem gen_saturate_cast_u8_u32 (x : Int) (hx : 0 ≤ x ∧ x < 4294967296) :
    Gen.saturate_cast_u8_u32_ub x = true ∧ Gen.saturate_cast_u8_u32 x = Spec.clampTo 0 255 x ∧
    Tetl.C14.saturateCast ⟨8, false⟩ ⟨32, false⟩ x = .ok (Gen.saturate_cast_u8_u32 x) := by
  have ha := gen_cmp_less_u32_u8 x 0 hx (by decide)
  have hb := gen_cmp_greater_u32_u8 x 255 hx (by decide)
  have h2 : Gen.saturate_cast_u8_u32 x = Spec.clampTo 0 255 x := by
    simp only [Gen.saturate_cast_u8_u32, ha.2.1, hb.2.1]; c_arith
  refine ⟨by simp only [Gen.saturate_cast_u8_u32_ub, ha.1, hb.1] <;> simp, h2, ?_⟩
  rw [h2, Props.saturateCast_eq _ _ (by decide) (by decide) x (inR_u32 x hx)]; rfl

theorem gen_saturate_cast_u8_u64 (x : Int) (hx : 0 ≤ x ∧ x < 18446744073709551616) :
    Gen.saturate_cast_u8_u64_ub x = true ∧ Gen.saturate_cast_u8_u64 x = Spec.clampTo 0 255 x ∧
    Tetl.C14.saturateCast ⟨8, false⟩ ⟨64, false⟩ x = .ok (Gen.saturate_cast_u8_u64 x) := by
  have ha := gen_cmp_less_u64_u8 x 0 hx (by decide)
  have hb := gen_cmp_greater_u64_u8 x 255 hx (by decide)
  have h2 : Gen.saturate_cast_u8_u64 x = Spec.clampTo 0 255 x := by
    simp only [Gen.saturate_cast_u8_u64, ha.2.1, hb.2.1]; c_arith
  refine ⟨by simp only [Gen.saturate_cast_u8_u64_ub, ha.1, hb.1] <;> simp, h2, ?_⟩
  rw [h2, Props.saturateCast_eq _ _ (by decide) (by decide) x (inR_u64 x hx)]; rfl

theorem gen_saturate_cast_u8_i8 (x : Int) (hx : -128 ≤ x ∧ x < 128) :
    Gen.saturate_cast_u8_i8_ub x = true ∧ Gen.saturate_cast_u8_i8 x = Spec.clampTo 0 255 x ∧
    Tetl.C14.saturateCast ⟨8, false⟩ ⟨8, true⟩ x = .ok (Gen.saturate_cast_u8_i8 x) := by
  have ha := gen_cmp_less_i8_u8 x 0 hx (by decide)
  have hb := gen_cmp_greater_i8_u8 x 255 hx (by decide)
  have h2 : Gen.saturate_cast_u8_i8 x = Spec.clampTo 0 255 x := by
    simp only [Gen.saturate_cast_u8_i8, ha.2.1, hb.2.1]; c_arith
  refine ⟨by simp only [Gen.saturate_cast_u8_i8_ub, ha.1, hb.1] <;> simp, h2, ?_⟩
  rw [h2, Props.saturateCast_eq _ _ (by decide) (by decide) x (inR_i8 x hx)]; rfl

theorem gen_saturate_cast_u8_i16 (x : Int) (hx : -32768 ≤ x ∧ x < 32768) :
    Gen.saturate_cast_u8_i16_ub x = true ∧ Gen.saturate_cast_u8_i16 x = Spec.clampTo 0 255 x ∧
    Tetl.C14.saturateCast ⟨8, false⟩ ⟨16, true⟩ x = .ok (Gen.saturate_cast_u8_i16 x) := by
  have ha := gen_cmp_less_i16_u8 x 0 hx (by decide)
  have hb := gen_cmp_greater_i16_u8 x 255 hx (by decide)
  have h2 : Gen.saturate_cast_u8_i16 x = Spec.clampTo 0 255 x := by
    simp only [Gen.saturate_cast_u8_i16, ha.2.1, hb.2.1]; c_arith
  refine ⟨by simp only [Gen.saturate_cast_u8_i16_ub, ha.1, hb.1] <;> simp, h2, ?_⟩
  rw [h2, Props.saturateCast_eq _ _ (by decide) (by decide) x (inR_i16 x hx)]; rfl

theorem gen_saturate_cast_u8_i32 (x : Int) (hx : -2147483648 ≤ x ∧ x < 2147483648) :
    Gen.saturate_cast_u8_i32_ub x = true ∧ Gen.saturate_cast_u8_i32 x = Spec.clampTo 0 255 x ∧
    Tetl.C14.saturateCast ⟨8, false⟩ ⟨32, true⟩ x = .ok (Gen.saturate_cast_u8_i32 x) := by
  have ha := gen_cmp_less_i32_u8 x 0 hx (by decide)
  have hb := gen_cmp_greater_i32_u8 x 255 hx (by decide)
  have h2 : Gen.saturate_cast_u8_i32 x = Spec.clampTo 0 255 x := by
    simp only [Gen.saturate_cast_u8_i32, ha.2.1, hb.2.1]; c_arith
  refine ⟨by simp only [Gen.saturate_cast_u8_i32_ub, ha.1, hb.1] <;> simp, h2, ?_⟩
  rw [h2, Props.saturateCast_eq _ _ (by decide) (by decide) x (inR_i32 x hx)]; rfl

theorem gen_saturate_cast_u8_i64 (x : Int) (hx : -9223372036854775808 ≤ x ∧ x < 9223372036854775808) :
    Gen.saturate_cast_u8_i64_ub x = true ∧ Gen.saturate_cast_u8_i64 x = Spec.clampTo 0 255 x ∧
    Tetl.C14.saturateCast ⟨8, false⟩ ⟨64, true⟩ x = .ok (Gen.saturate_cast_u8_i64 x) := by
  have ha := gen_cmp_less_i64_u8 x 0 hx (by decide)
  have hb := gen_cmp_greater_i64_u8 x 255 hx (by decide)
  have h2 : Gen.saturate_cast_u8_i64 x = Spec.clampTo 0 255 x := by
    simp only [Gen.saturate_cast_u8_i64, ha.2.1, hb.2.1]; c_arith
  refine ⟨by simp only [Gen.saturate_cast_u8_i64_ub, ha.1, hb.1] <;> simp, h2, ?_⟩
  rw [h2, Props.saturateCast_eq _ _ (by decide) (by decide) x (inR_i64 x hx)]; rfl

theorem gen_saturate_cast_u16_u8 (x : Int) (hx : 0 ≤ x ∧ x < 256) :
    Gen.saturate_cast_u16_u8_ub x = true ∧ Gen.saturate_cast_u16_u8 x = Spec.clampTo 0 65535 x ∧
    Tetl.C14.saturateCast ⟨16, false⟩ ⟨8, false⟩ x = .ok (Gen.saturate_cast_u16_u8 x) := by
  have ha := gen_cmp_less_u8_u16 x 0 hx (by decide)
  have hb := gen_cmp_greater_u8_u16 x 65535 hx (by decide)
  have h2 : Gen.saturate_cast_u16_u8 x = Spec.clampTo 0 65535 x := by
    simp only [Gen.saturate_cast_u16_u8, ha.2.1, hb.2.1]; c_arith
  refine ⟨by simp only [Gen.saturate_cast_u16_u8_ub, ha.1, hb.1] <;> simp, h2, ?_⟩
  rw [h2, Props.saturateCast_eq _ _ (by decide) (by decide) x (inR_u8 x hx)]; rfl

theorem gen_saturate_cast_u16_u16 (x : Int) (hx : 0 ≤ x ∧ x < 65536) :
    Gen.saturate_cast_u16_u16_ub x = true ∧ Gen.saturate_cast_u16_u16 x = Spec.clampTo 0 65535 x ∧
    Tetl.C14.saturateCast ⟨16, false⟩ ⟨16, false⟩ x = .ok (Gen.saturate_cast_u16_u16 x) := by
  have ha := gen_cmp_less_u16_u16 x 0 hx (by decide)
  have hb := gen_cmp_greater_u16_u16 x 65535 hx (by decide)
  have h2 : Gen.saturate_cast_u16_u16 x = Spec.clampTo 0 65535 x := by
    simp only [Gen.saturate_cast_u16_u16, ha.2.1, hb.2.1]; c_arith
  refine ⟨by simp only [Gen.saturate_cast_u16_u16_ub, ha.1, hb.1] <;> simp, h2, ?_⟩
  rw [h2, Props.saturateCast_eq _ _ (by decide) (by decide) x (inR_u16 x hx)]; rfl

theorem gen_saturate_cast_u16_u32 (x : Int) (hx : 0 ≤ x ∧ x < 4294967296) :
    Gen.saturate_cast_u16_u32_ub x = true ∧ Gen.saturate_cast_u16_u32 x = Spec.clampTo 0 65535 x ∧
    Tetl.C14.saturateCast ⟨16, false⟩ ⟨32, false⟩ x = .ok (Gen.saturate_cast_u16_u32 x) := by
  have ha := gen_cmp_less_u32_u16 x 0 hx (by decide)
  have hb := gen_cmp_greater_u32_u16 x 65535 hx (by decide)
  have h2 : Gen.saturate_cast_u16_u32 x = Spec.clampTo 0 65535 x := by
    simp only [Gen.saturate_cast_u16_u32, ha.2.1, hb.2.1]; c_arith
  refine ⟨by simp only [Gen.saturate_cast_u16_u32_ub, ha.1, hb.1] <;> simp, h2, ?_⟩
  rw [h2, Props.saturateCast_eq _ _ (by decide) (by decide) x (inR_u32 x hx)]; rfl

theorem gen_saturate_cast_u16_u64 (x : Int) (hx : 0 ≤ x ∧ x < 18446744073709551616) :
    Gen.saturate_cast_u16_u64_ub x = true ∧ Gen.saturate_cast_u16_u64 x = Spec.clampTo 0 65535 x ∧
    Tetl.C14.saturateCast ⟨16, false⟩ ⟨64, false⟩ x = .ok (Gen.saturate_cast_u16_u64 x) := by
  have ha := gen_cmp_less_u64_u16 x 0 hx (by decide)
  have hb := gen_cmp_greater_u64_u16 x 65535 hx (by decide)
  have h2 : Gen.saturate_cast_u16_u64 x = Spec.clampTo 0 65535 x := by
    simp only [Gen.saturate_cast_u16_u64, ha.2.1, hb.2.1]; c_arith
  refine ⟨by simp only [Gen.saturate_cast_u16_u64_ub, ha.1, hb.1] <;> simp, h2, ?_⟩
  rw [h2, Props.saturateCast_eq _ _ (by decide) (by decide) x (inR_u64 x hx)]; rfl

theorem gen_saturate_cast_u16_i8 (x : Int) (hx : -128 ≤ x ∧ x < 128) :
    Gen.saturate_cast_u16_i8_ub x = true ∧ Gen.saturate_cast_u16_i8 x = Spec.clampTo 0 65535 x ∧
    Tetl.C14.saturateCast ⟨16, false⟩ ⟨8, true⟩ x = .ok (Gen.saturate_cast_u16_i8 x) := by
  have ha := gen_cmp_less_i8_u16 x 0 hx (by decide)
  have hb := gen_cmp_greater_i8_u16 x 65535 hx (by decide)
  have h2 : Gen.saturate_cast_u16_i8 x = Spec.clampTo 0 65535 x := by
    simp only [Gen.saturate_cast_u16_i8, ha.2.1, hb.2.1]; c_arith
  refine ⟨by simp only [Gen.saturate_cast_u16_i8_ub, ha.1, hb.1] <;> simp, h2, ?_⟩
  rw [h2, Props.saturateCast_eq _ _ (by decide) (by decide) x (inR_i8 x hx)]; rfl

theorem gen_saturate_cast_u16_i16 (x : Int) (hx : -32768 ≤ x ∧ x < 32768) :
    Gen.saturate_cast_u16_i16_ub x = true ∧ Gen.saturate_cast_u16_i16 x = Spec.clampTo 0 65535 x ∧
    Tetl.C14.saturateCast ⟨16, false⟩ ⟨16, true⟩ x = .ok (Gen.saturate_cast_u16_i16 x) := by
  have ha := gen_cmp_less_i16_u16 x 0 hx (by decide)
  have hb := gen_cmp_greater_i16_u16 x 65535 hx (by decide)
  have h2 : Gen.saturate_cast_u16_i16 x = Spec.clampTo 0 65535 x := by
    simp only [Gen.saturate_cast_u16_i16, ha.2.1, hb.2.1]; c_arith
  refine ⟨by simp only [Gen.saturate_cast_u16_i16_ub, ha.1, hb.1] <;> simp, h2, ?_⟩
  rw [h2, Props.saturateCast_eq _ _ (by decide) (by decide) x (inR_i16 x hx)]; rfl

theorem gen_saturate_cast_u16_i32 (x : Int) (hx : -2147483648 ≤ x ∧ x < 2147483648) :
    Gen.saturate_cast_u16_i32_ub x = true ∧ Gen.saturate_cast_u16_i32 x = Spec.clampTo 0 65535 x ∧
    Tetl.C14.saturateCast ⟨16, false⟩ ⟨32, true⟩ x = .ok (Gen.saturate_cast_u16_i32 x) := by
  have ha := gen_cmp_less_i32_u16 x 0 hx (by decide)
  have hb := gen_cmp_greater_i32_u16 x 65535 hx (by decide)
  have h2 : Gen.saturate_cast_u16_i32 x = Spec.clampTo 0 65535 x := by
    simp only [Gen.saturate_cast_u16_i32, ha.2.1, hb.2.1]; c_arith
  refine ⟨by simp only [Gen.saturate_cast_u16_i32_ub, ha.1, hb.1] <;> simp, h2, ?_⟩
  rw [h2, Props.saturateCast_eq _ _ (by decide) (by decide) x (inR_i32 x hx)]; rfl

theorem gen_saturate_cast_u16_i64 (x : Int) (hx : -9223372036854775808 ≤ x ∧ x < 9223372036854775808) :
    Gen.saturate_cast_u16_i64_ub x = true ∧ Gen.saturate_cast_u16_i64 x = Spec.clampTo 0 65535 x ∧
    Tetl.C14.saturateCast ⟨16, false⟩ ⟨64, true⟩ x = .ok (Gen.saturate_cast_u16_i64 x) := by
  have ha := gen_cmp_less_i64_u16 x 0 hx (by decide)
  have hb := gen_cmp_greater_i64_u16 x 65535 hx (by decide)
  have h2 : Gen.saturate_cast_u16_i64 x = Spec.clampTo 0 65535 x := by
    simp only [Gen.saturate_cast_u16_i64, ha.2.1, hb.2.1]; c_arith
  refine ⟨by simp only [Gen.saturate_cast_u16_i64_ub, ha.1, hb.1] <;> simp, h2, ?_⟩
  rw [h2, Props.saturateCast_eq _ _ (by decide) (by decide) x (inR_i64 x hx)]; rfl

theorem gen_saturate_cast_u32_u8 (x : Int) (hx : 0 ≤ x ∧ x < 256) :
    Gen.saturate_cast_u32_u8_ub x = true ∧ Gen.saturate_cast_u32_u8 x = Spec.clampTo 0 4294967295 x ∧
    Tetl.C14.saturateCast ⟨32, false⟩ ⟨8, false⟩ x = .ok (Gen.saturate_cast_u32_u8 x) := by
  have ha := gen_cmp_less_u8_u32 x 0 hx (by decide)
  have hb := gen_cmp_greater_u8_u32 x 4294967295 hx (by decide)
  have h2 : Gen.saturate_cast_u32_u8 x = Spec.clampTo 0 4294967295 x := by
    simp only [Gen.saturate_cast_u32_u8, ha.2.1, hb.2.1]; c_arith
  refine ⟨by simp only [Gen.saturate_cast_u32_u8_ub, ha.1, hb.1] <;> simp, h2, ?_⟩
  rw [h2, Props.saturateCast_eq _ _ (by decide) (by decide) x (inR_u8 x hx)]; rfl

theorem gen_saturate_cast_u32_u16 (x : Int) (hx : 0 ≤ x ∧ x < 65536) :
    Gen.saturate_cast_u32_u16_ub x = true ∧ Gen.saturate_cast_u32_u16 x = Spec.clampTo 0 4294967295 x ∧
    Tetl.C14.saturateCast ⟨32, false⟩ ⟨16, false⟩ x = .ok (Gen.saturate_cast_u32_u16 x) := by
  have ha := gen_cmp_less_u16_u32 x 0 hx (by decide)
  have hb := gen_cmp_greater_u16_u32 x 4294967295 hx (by decide)
  have h2 : Gen.saturate_cast_u32_u16 x = Spec.clampTo 0 4294967295 x := by
    simp only [Gen.saturate_cast_u32_u16, ha.2.1, hb.2.1]; c_arith
  refine ⟨by simp only [Gen.saturate_cast_u32_u16_ub, ha.1, hb.1] <;> simp, h2, ?_⟩
  rw [h2, Props.saturateCast_eq _ _ (by decide) (by decide) x (inR_u16 x hx)]; rfl

theorem gen_saturate_cast_u32_u32 (x : Int) (hx : 0 ≤ x ∧ x < 4294967296) :
    Gen.saturate_cast_u32_u32_ub x = true ∧ Gen.saturate_cast_u32_u32 x = Spec.clampTo 0 4294967295 x ∧
    Tetl.C14.saturateCast ⟨32, false⟩ ⟨32, false⟩ x = .ok (Gen.saturate_cast_u32_u32 x) := by
  have ha := gen_cmp_less_u32_u32 x 0 hx (by decide)
  have hb := gen_cmp_greater_u32_u32 x 4294967295 hx (by decide)
  have h2 : Gen.saturate_cast_u32_u32 x = Spec.clampTo 0 4294967295 x := by
    simp only [Gen.saturate_cast_u32_u32, ha.2.1, hb.2.1]; c_arith
  refine ⟨by simp only [Gen.saturate_cast_u32_u32_ub, ha.1, hb.1] <;> simp, h2, ?_⟩
  rw [h2, Props.saturateCast_eq _ _ (by decide) (by decide) x (inR_u32 x hx)]; rfl

theorem gen_saturate_cast_u32_u64 (x : Int) (hx : 0 ≤ x ∧ x < 18446744073709551616) :
    Gen.saturate_cast_u32_u64_ub x = true ∧ Gen.saturate_cast_u32_u64 x = Spec.clampTo 0 4294967295 x ∧
    Tetl.C14.saturateCast ⟨32, false⟩ ⟨64, false⟩ x = .ok (Gen.saturate_cast_u32_u64 x) := by
  have ha := gen_cmp_less_u64_u32 x 0 hx (by decide)
  have hb := gen_cmp_greater_u64_u32 x 4294967295 hx (by decide)
  have h2 : Gen.saturate_cast_u32_u64 x = Spec.clampTo 0 4294967295 x := by
    simp only [Gen.saturate_cast_u32_u64, ha.2.1, hb.2.1]; c_arith
  refine ⟨by simp only [Gen.saturate_cast_u32_u64_ub, ha.1, hb.1] <;> simp, h2, ?_⟩
  rw [h2, Props.saturateCast_eq _ _ (by decide) (by decide) x (inR_u64 x hx)]; rfl

theorem gen_saturate_cast_u32_i8 (x : Int) (hx : -128 ≤ x ∧ x < 128) :
    Gen.saturate_cast_u32_i8_ub x = true ∧ Gen.saturate_cast_u32_i8 x = Spec.clampTo 0 4294967295 x ∧
    Tetl.C14.saturateCast ⟨32, false⟩ ⟨8, true⟩ x = .ok (Gen.saturate_cast_u32_i8 x) := by
  have ha := gen_cmp_less_i8_u32 x 0 hx (by decide)
  have hb := gen_cmp_greater_i8_u32 x 4294967295 hx (by decide)
  have h2 : Gen.saturate_cast_u32_i8 x = Spec.clampTo 0 4294967295 x := by
    simp only [Gen.saturate_cast_u32_i8, ha.2.1, hb.2.1]; c_arith
  refine ⟨by simp only [Gen.saturate_cast_u32_i8_ub, ha.1, hb.1] <;> simp, h2, ?_⟩
  rw [h2, Props.saturateCast_eq _ _ (by decide) (by decide) x (inR_i8 x hx)]; rfl

theorem gen_saturate_cast_u32_i16 (x : Int) (hx : -32768 ≤ x ∧ x < 32768) :
    Gen.saturate_cast_u32_i16_ub x = true ∧ Gen.saturate_cast_u32_i16 x = Spec.clampTo 0 4294967295 x ∧
    Tetl.C14.saturateCast ⟨32, false⟩ ⟨16, true⟩ x = .ok (Gen.saturate_cast_u32_i16 x) := by
  have ha := gen_cmp_less_i16_u32 x 0 hx (by decide)
  have hb := gen_cmp_greater_i16_u32 x 4294967295 hx (by decide)
  have h2 : Gen.saturate_cast_u32_i16 x = Spec.clampTo 0 4294967295 x := by
    simp only [Gen.saturate_cast_u32_i16, ha.2.1, hb.2.1]; c_arith
  refine ⟨by simp only [Gen.saturate_cast_u32_i16_ub, ha.1, hb.1] <;> simp, h2, ?_⟩
  rw [h2, Props.saturateCast_eq _ _ (by decide) (by decide) x (inR_i16 x hx)]; rfl

theorem gen_saturate_cast_u32_i32 (x : Int) (hx : -2147483648 ≤ x ∧ x < 2147483648) :
    Gen.saturate_cast_u32_i32_ub x = true ∧ Gen.saturate_cast_u32_i32 x = Spec.clampTo 0 4294967295 x ∧
    Tetl.C14.saturateCast ⟨32, false⟩ ⟨32, true⟩ x = .ok (Gen.saturate_cast_u32_i32 x) := by
  have ha := gen_cmp_less_i32_u32 x 0 hx (by decide)
  have hb := gen_cmp_greater_i32_u32 x 4294967295 hx (by decide)
  have h2 : Gen.saturate_cast_u32_i32 x = Spec.clampTo 0 4294967295 x := by
    simp only [Gen.saturate_cast_u32_i32, ha.2.1, hb.2.1]; c_arith
  refine ⟨by simp only [Gen.saturate_cast_u32_i32_ub, ha.1, hb.1] <;> simp, h2, ?_⟩
  rw [h2, Props.saturateCast_eq _ _ (by decide) (by decide) x (inR_i32 x hx)]; rfl

theorem gen_saturate_cast_u32_i64 (x : Int) (hx : -9223372036854775808 ≤ x ∧ x < 9223372036854775808) :
    Gen.saturate_cast_u32_i64_ub x = true ∧ Gen.saturate_cast_u32_i64 x = Spec.clampTo 0 4294967295 x ∧
    Tetl.C14.saturateCast ⟨32, false⟩ ⟨64, true⟩ x = .ok (Gen.saturate_cast_u32_i64 x) := by
  have ha := gen_cmp_less_i64_u32 x 0 hx (by decide)
  have hb := gen_cmp_greater_i64_u32 x 4294967295 hx (by decide)
  have h2 : Gen.saturate_cast_u32_i64 x = Spec.clampTo 0 4294967295 x := by
    simp only [Gen.saturate_cast_u32_i64, ha.2.1, hb.2.1]; c_arith
  refine ⟨by simp only [Gen.saturate_cast_u32_i64_ub, ha.1, hb.1] <;> simp, h2, ?_⟩
  rw [h2, Props.saturateCast_eq _ _ (by decide) (by decide) x (inR_i64 x hx)]; rfl

theorem gen_saturate_cast_u64_u8 (x : Int) (hx : 0 ≤ x ∧ x < 256) :
    Gen.saturate_cast_u64_u8_ub x = true ∧ Gen.saturate_cast_u64_u8 x = Spec.clampTo 0 18446744073709551615 x ∧
    Tetl.C14.saturateCast ⟨64, false⟩ ⟨8, false⟩ x = .ok (Gen.saturate_cast_u64_u8 x) := by
  have ha := gen_cmp_less_u8_u64 x 0 hx (by decide)
  have hb := gen_cmp_greater_u8_u64 x 18446744073709551615 hx (by decide)
  have h2 : Gen.saturate_cast_u64_u8 x = Spec.clampTo 0 18446744073709551615 x := by
    simp only [Gen.saturate_cast_u64_u8, ha.2.1, hb.2.1]; c_arith
  refine ⟨by simp only [Gen.saturate_cast_u64_u8_ub, ha.1, hb.1] <;> simp, h2, ?_⟩
  rw [h2, Props.saturateCast_eq _ _ (by decide) (by decide) x (inR_u8 x hx)]; rfl

theorem gen_saturate_cast_u64_u16 (x : Int) (hx : 0 ≤ x ∧ x < 65536) :
    Gen.saturate_cast_u64_u16_ub x = true ∧ Gen.saturate_cast_u64_u16 x = Spec.clampTo 0 18446744073709551615 x ∧
    Tetl.C14.saturateCast ⟨64, false⟩ ⟨16, false⟩ x = .ok (Gen.saturate_cast_u64_u16 x) := by
  have ha := gen_cmp_less_u16_u64 x 0 hx (by decide)
  have hb := gen_cmp_greater_u16_u64 x 18446744073709551615 hx (by decide)
  have h2 : Gen.saturate_cast_u64_u16 x = Spec.clampTo 0 18446744073709551615 x := by
    simp only [Gen.saturate_cast_u64_u16, ha.2.1, hb.2.1]; c_arith
  refine ⟨by simp only [Gen.saturate_cast_u64_u16_ub, ha.1, hb.1] <;> simp, h2, ?_⟩
  rw [h2, Props.saturateCast_eq _ _ (by decide) (by decide) x (inR_u16 x hx)]; rfl

theorem gen_saturate_cast_u64_u32 (x : Int) (hx : 0 ≤ x ∧ x < 4294967296) :
    Gen.saturate_cast_u64_u32_ub x = true ∧ Gen.saturate_cast_u64_u32 x = Spec.clampTo 0 18446744073709551615 x ∧
    Tetl.C14.saturateCast ⟨64, false⟩ ⟨32, false⟩ x = .ok (Gen.saturate_cast_u64_u32 x) := by
  have ha := gen_cmp_less_u32_u64 x 0 hx (by decide)
  have hb := gen_cmp_greater_u32_u64 x 18446744073709551615 hx (by decide)
  have h2 : Gen.saturate_cast_u64_u32 x = Spec.clampTo 0 18446744073709551615 x := by
    simp only [Gen.saturate_cast_u64_u32, ha.2.1, hb.2.1]; c_arith
  refine ⟨by simp only [Gen.saturate_cast_u64_u32_ub, ha.1, hb.1] <;> simp, h2, ?_⟩
  rw [h2, Props.saturateCast_eq _ _ (by decide) (by decide) x (inR_u32 x hx)]; rfl

theorem gen_saturate_cast_u64_u64 (x : Int) (hx : 0 ≤ x ∧ x < 18446744073709551616) :
    Gen.saturate_cast_u64_u64_ub x = true ∧ Gen.saturate_cast_u64_u64 x = Spec.clampTo 0 18446744073709551615 x ∧
    Tetl.C14.saturateCast ⟨64, false⟩ ⟨64, false⟩ x = .ok (Gen.saturate_cast_u64_u64 x) := by
  have ha := gen_cmp_less_u64_u64 x 0 hx (by decide)
  have hb := gen_cmp_greater_u64_u64 x 18446744073709551615 hx (by decide)
  have h2 : Gen.saturate_cast_u64_u64 x = Spec.clampTo 0 18446744073709551615 x := by
    simp only [Gen.saturate_cast_u64_u64, ha.2.1, hb.2.1]; c_arith
  refine ⟨by simp only [Gen.saturate_cast_u64_u64_ub, ha.1, hb.1] <;> simp, h2, ?_⟩
  rw [h2, Props.saturateCast_eq _ _ (by decide) (by decide) x (inR_u64 x hx)]; rfl

theorem gen_saturate_cast_u64_i8 (x : Int) (hx : -128 ≤ x ∧ x < 128) :
    Gen.saturate_cast_u64_i8_ub x = true ∧ Gen.saturate_cast_u64_i8 x = Spec.clampTo 0 18446744073709551615 x ∧
    Tetl.C14.saturateCast ⟨64, false⟩ ⟨8, true⟩ x = .ok (Gen.saturate_cast_u64_i8 x) := by
  have ha := gen_cmp_less_i8_u64 x 0 hx (by decide)
  have hb := gen_cmp_greater_i8_u64 x 18446744073709551615 hx (by decide)
  have h2 : Gen.saturate_cast_u64_i8 x = Spec.clampTo 0 18446744073709551615 x := by
    simp only [Gen.saturate_cast_u64_i8, ha.2.1, hb.2.1]; c_arith
  refine ⟨by simp only [Gen.saturate_cast_u64_i8_ub, ha.1, hb.1] <;> simp, h2, ?_⟩
  rw [h2, Props.saturateCast_eq _ _ (by decide) (by decide) x (inR_i8 x hx)]; rfl

theorem gen_saturate_cast_u64_i16 (x : Int) (hx : -32768 ≤ x ∧ x < 32768) :
    Gen.saturate_cast_u64_i16_ub x = true ∧ Gen.saturate_cast_u64_i16 x = Spec.clampTo 0 18446744073709551615 x ∧
    Tetl.C14.saturateCast ⟨64, false⟩ ⟨16, true⟩ x = .ok (Gen.saturate_cast_u64_i16 x) := by
  have ha := gen_cmp_less_i16_u64 x 0 hx (by decide)
  have hb := gen_cmp_greater_i16_u64 x 18446744073709551615 hx (by decide)
  have h2 : Gen.saturate_cast_u64_i16 x = Spec.clampTo 0 18446744073709551615 x := by
    simp only [Gen.saturate_cast_u64_i16, ha.2.1, hb.2.1]; c_arith
  refine ⟨by simp only [Gen.saturate_cast_u64_i16_ub, ha.1, hb.1] <;> simp, h2, ?_⟩
  rw [h2, Props.saturateCast_eq _ _ (by decide) (by decide) x (inR_i16 x hx)]; rfl

theorem gen_saturate_cast_u64_i32 (x : Int) (hx : -2147483648 ≤ x ∧ x < 2147483648) :
    Gen.saturate_cast_u64_i32_ub x = true ∧ Gen.saturate_cast_u64_i32 x = Spec.clampTo 0 18446744073709551615 x ∧
    Tetl.C14.saturateCast ⟨64, false⟩ ⟨32, true⟩ x = .ok (Gen.saturate_cast_u64_i32 x) := by
  have ha := gen_cmp_less_i32_u64 x 0 hx (by decide)
  have hb := gen_cmp_greater_i32_u64 x 18446744073709551615 hx (by decide)
  have h2 : Gen.saturate_cast_u64_i32 x = Spec.clampTo 0 18446744073709551615 x := by
    simp only [Gen.saturate_cast_u64_i32, ha.2.1, hb.2.1]; c_arith
  refine ⟨by simp only [Gen.saturate_cast_u64_i32_ub, ha.1, hb.1] <;> simp, h2, ?_⟩
  rw [h2, Props.saturateCast_eq _ _ (by decide) (by decide) x (inR_i32 x hx)]; rfl

theorem gen_saturate_cast_u64_i64 (x : Int) (hx : -9223372036854775808 ≤ x ∧ x < 9223372036854775808) :
    Gen.saturate_cast_u64_i64_ub x = true ∧ Gen.saturate_cast_u64_i64 x = Spec.clampTo 0 18446744073709551615 x ∧
    Tetl.C14.saturateCast ⟨64, false⟩ ⟨64, true⟩ x = .ok (Gen.saturate_cast_u64_i64 x) := by
  have ha := gen_cmp_less_i64_u64 x 0 hx (by decide)
  have hb := gen_cmp_greater_i64_u64 x 18446744073709551615 hx (by decide)
  have h2 : Gen.saturate_cast_u64_i64 x = Spec.clampTo 0 18446744073709551615 x := by
    simp only [Gen.saturate_cast_u64_i64, ha.2.1, hb.2.1]; c_arith
  refine ⟨by simp only [Gen.saturate_cast_u64_i64_ub, ha.1, hb.1] <;> simp, h2, ?_⟩
  rw [h2, Props.saturateCast_eq _ _ (by decide) (by decide) x (inR_i64 x hx)]; rfl

theorem gen_saturate_cast_i8_u8 (x : Int) (hx : 0 ≤ x ∧ x < 256) :
    Gen.saturate_cast_i8_u8_ub x = true ∧ Gen.saturate_cast_i8_u8 x = Spec.clampTo (-128) 127 x ∧
    Tetl.C14.saturateCast ⟨8, true⟩ ⟨8, false⟩ x = .ok (Gen.saturate_cast_i8_u8 x) := by
  have ha := gen_cmp_less_u8_i8 x (-128) hx (by decide)
  have hb := gen_cmp_greater_u8_i8 x 127 hx (by decide)
  have h2 : Gen.saturate_cast_i8_u8 x = Spec.clampTo (-128) 127 x := by
    simp only [Gen.saturate_cast_i8_u8, ha.2.1, hb.2.1]; c_arith
  refine ⟨by simp only [Gen.saturate_cast_i8_u8_ub, ha.1, hb.1] <;> simp, h2, ?_⟩
  rw [h2, Props.saturateCast_eq _ _ (by decide) (by decide) x (inR_u8 x hx)]; rfl

theorem gen_saturate_cast_i8_u16 (x : Int) (hx : 0 ≤ x ∧ x < 65536) :
    Gen.saturate_cast_i8_u16_ub x = true ∧ Gen.saturate_cast_i8_u16 x = Spec.clampTo (-128) 127 x ∧
    Tetl.C14.saturateCast ⟨8, true⟩ ⟨16, false⟩ x = .ok (Gen.saturate_cast_i8_u16 x) := by
  have ha := gen_cmp_less_u16_i8 x (-128) hx (by decide)
  have hb := gen_cmp_greater_u16_i8 x 127 hx (by decide)
  have h2 : Gen.saturate_cast_i8_u16 x = Spec.clampTo (-128) 127 x := by
    simp only [Gen.saturate_cast_i8_u16, ha.2.1, hb.2.1]; c_arith
  refine ⟨by simp only [Gen.saturate_cast_i8_u16_ub, ha.1, hb.1] <;> simp, h2, ?_⟩
  rw [h2, Props.saturateCast_eq _ _ (by decide) (by decide) x (inR_u16 x hx)]; rfl

theorem gen_saturate_cast_i8_u32 (x : Int) (hx : 0 ≤ x ∧ x < 4294967296) :
    Gen.saturate_cast_i8_u32_ub x = true ∧ Gen.saturate_cast_i8_u32 x = Spec.clampTo (-128) 127 x ∧
    Tetl.C14.saturateCast ⟨8, true⟩ ⟨32, false⟩ x = .ok (Gen.saturate_cast_i8_u32 x) := by
  have ha := gen_cmp_less_u32_i8 x (-128) hx (by decide)
  have hb := gen_cmp_greater_u32_i8 x 127 hx (by decide)
  have h2 : Gen.saturate_cast_i8_u32 x = Spec.clampTo (-128) 127 x := by
    simp only [Gen.saturate_cast_i8_u32, ha.2.1, hb.2.1]; c_arith
  refine ⟨by simp only [Gen.saturate_cast_i8_u32_ub, ha.1, hb.1] <;> simp, h2, ?_⟩
  rw [h2, Props.saturateCast_eq _ _ (by decide) (by decide) x (inR_u32 x hx)]; rfl

theorem gen_saturate_cast_i8_u64 (x : Int) (hx : 0 ≤ x ∧ x < 18446744073709551616) :
    Gen.saturate_cast_i8_u64_ub x = true ∧ Gen.saturate_cast_i8_u64 x = Spec.clampTo (-128) 127 x ∧
    Tetl.C14.saturateCast ⟨8, true⟩ ⟨64, false⟩ x = .ok (Gen.saturate_cast_i8_u64 x) := by
  have ha := gen_cmp_less_u64_i8 x (-128) hx (by decide)
  have hb := gen_cmp_greater_u64_i8 x 127 hx (by decide)
  have h2 : Gen.saturate_cast_i8_u64 x = Spec.clampTo (-128) 127 x := by
    simp only [Gen.saturate_cast_i8_u64, ha.2.1, hb.2.1]; c_arith
  refine ⟨by simp only [Gen.saturate_cast_i8_u64_ub, ha.1, hb.1] <;> simp, h2, ?_⟩
  rw [h2, Props.saturateCast_eq _ _ (by decide) (by decide) x (inR_u64 x hx)]; rfl

theorem gen_saturate_cast_i8_i8 (x : Int) (hx : -128 ≤ x ∧ x < 128) :
    Gen.saturate_cast_i8_i8_ub x = true ∧ Gen.saturate_cast_i8_i8 x = Spec.clampTo (-128) 127 x ∧
    Tetl.C14.saturateCast ⟨8, true⟩ ⟨8, true⟩ x = .ok (Gen.saturate_cast_i8_i8 x) := by
  have ha := gen_cmp_less_i8_i8 x (-128) hx (by decide)
  have hb := gen_cmp_greater_i8_i8 x 127 hx (by decide)
  have h2 : Gen.saturate_cast_i8_i8 x = Spec.clampTo (-128) 127 x := by
    simp only [Gen.saturate_cast_i8_i8, ha.2.1, hb.2.1]; c_arith
  refine ⟨by simp only [Gen.saturate_cast_i8_i8_ub, ha.1, hb.1] <;> simp, h2, ?_⟩
  rw [h2, Props.saturateCast_eq _ _ (by decide) (by decide) x (inR_i8 x hx)]; rfl

theorem gen_saturate_cast_i8_i16 (x : Int) (hx : -32768 ≤ x ∧ x < 32768) :
    Gen.saturate_cast_i8_i16_ub x = true ∧ Gen.saturate_cast_i8_i16 x = Spec.clampTo (-128) 127 x ∧
    Tetl.C14.saturateCast ⟨8, true⟩ ⟨16, true⟩ x = .ok (Gen.saturate_cast_i8_i16 x) := by
  have ha := gen_cmp_less_i16_i8 x (-128) hx (by decide)
  have hb := gen_cmp_greater_i16_i8 x 127 hx (by decide)
  have h2 : Gen.saturate_cast_i8_i16 x = Spec.clampTo (-128) 127 x := by
    simp only [Gen.saturate_cast_i8_i16, ha.2.1, hb.2.1]; c_arith
  refine ⟨by simp only [Gen.saturate_cast_i8_i16_ub, ha.1, hb.1] <;> simp, h2, ?_⟩
  rw [h2, Props.saturateCast_eq _ _ (by decide) (by decide) x (inR_i16 x hx)]; rfl

theorem gen_saturate_cast_i8_i32 (x : Int) (hx : -2147483648 ≤ x ∧ x < 2147483648) :
    Gen.saturate_cast_i8_i32_ub x = true ∧ Gen.saturate_cast_i8_i32 x = Spec.clampTo (-128) 127 x ∧
    Tetl.C14.saturateCast ⟨8, true⟩ ⟨32, true⟩ x = .ok (Gen.saturate_cast_i8_i32 x) := by
  have ha := gen_cmp_less_i32_i8 x (-128) hx (by decide)
  have hb := gen_cmp_greater_i32_i8 x 127 hx (by decide)
  have h2 : Gen.saturate_cast_i8_i32 x = Spec.clampTo (-128) 127 x := by
    simp only [Gen.saturate_cast_i8_i32, ha.2.1, hb.2.1]; c_arith
  refine ⟨by simp only [Gen.saturate_cast_i8_i32_ub, ha.1, hb.1] <;> simp, h2, ?_⟩
  rw [h2, Props.saturateCast_eq _ _ (by decide) (by decide) x (inR_i32 x hx)]; rfl

theorem gen_saturate_cast_i8_i64 (x : Int) (hx : -9223372036854775808 ≤ x ∧ x < 9223372036854775808) :
    Gen.saturate_cast_i8_i64_ub x = true ∧ Gen.saturate_cast_i8_i64 x = Spec.clampTo (-128) 127 x ∧
    Tetl.C14.saturateCast ⟨8, true⟩ ⟨64, true⟩ x = .ok (Gen.saturate_cast_i8_i64 x) := by
  have ha := gen_cmp_less_i64_i8 x (-128) hx (by decide)
  have hb := gen_cmp_greater_i64_i8 x 127 hx (by decide)
  have h2 : Gen.saturate_cast_i8_i64 x = Spec.clampTo (-128) 127 x := by
    simp only [Gen.saturate_cast_i8_i64, ha.2.1, hb.2.1]; c_arith
  refine ⟨by simp only [Gen.saturate_cast_i8_i64_ub, ha.1, hb.1] <;> simp, h2, ?_⟩
  rw [h2, Props.saturateCast_eq _ _ (by decide) (by decide) x (inR_i64 x hx)]; rfl

theorem gen_saturate_cast_i16_u8 (x : Int) (hx : 0 ≤ x ∧ x < 256) :
    Gen.saturate_cast_i16_u8_ub x = true ∧ Gen.saturate_cast_i16_u8 x = Spec.clampTo (-32768) 32767 x ∧
    Tetl.C14.saturateCast ⟨16, true⟩ ⟨8, false⟩ x = .ok (Gen.saturate_cast_i16_u8 x) := by
  have ha := gen_cmp_less_u8_i16 x (-32768) hx (by decide)
  have hb := gen_cmp_greater_u8_i16 x 32767 hx (by decide)
  have h2 : Gen.saturate_cast_i16_u8 x = Spec.clampTo (-32768) 32767 x := by
    simp only [Gen.saturate_cast_i16_u8, ha.2.1, hb.2.1]; c_arith
  refine ⟨by simp only [Gen.saturate_cast_i16_u8_ub, ha.1, hb.1] <;> simp, h2, ?_⟩
  rw [h2, Props.saturateCast_eq _ _ (by decide) (by decide) x (inR_u8 x hx)]; rfl

theorem gen_saturate_cast_i16_u16 (x : Int) (hx : 0 ≤ x ∧ x < 65536) :
    Gen.saturate_cast_i16_u16_ub x = true ∧ Gen.saturate_cast_i16_u16 x = Spec.clampTo (-32768) 32767 x ∧
    Tetl.C14.saturateCast ⟨16, true⟩ ⟨16, false⟩ x = .ok (Gen.saturate_cast_i16_u16 x) := by
  have ha := gen_cmp_less_u16_i16 x (-32768) hx (by decide)
  have hb := gen_cmp_greater_u16_i16 x 32767 hx (by decide)
  have h2 : Gen.saturate_cast_i16_u16 x = Spec.clampTo (-32768) 32767 x := by
    simp only [Gen.saturate_cast_i16_u16, ha.2.1, hb.2.1]; c_arith
  refine ⟨by simp only [Gen.saturate_cast_i16_u16_ub, ha.1, hb.1] <;> simp, h2, ?_⟩
  rw [h2, Props.saturateCast_eq _ _ (by decide) (by decide) x (inR_u16 x hx)]; rfl

theorem gen_saturate_cast_i16_u32 (x : Int) (hx : 0 ≤ x ∧ x < 4294967296) :
    Gen.saturate_cast_i16_u32_ub x = true ∧ Gen.saturate_cast_i16_u32 x = Spec.clampTo (-32768) 32767 x ∧
    Tetl.C14.saturateCast ⟨16, true⟩ ⟨32, false⟩ x = .ok (Gen.saturate_cast_i16_u32 x) := by
  have ha := gen_cmp_less_u32_i16 x (-32768) hx (by decide)
  have hb := gen_cmp_greater_u32_i16 x 32767 hx (by decide)
  have h2 : Gen.saturate_cast_i16_u32 x = Spec.clampTo (-32768) 32767 x := by
    simp only [Gen.saturate_cast_i16_u32, ha.2.1, hb.2.1]; c_arith
  refine ⟨by simp only [Gen.saturate_cast_i16_u32_ub, ha.1, hb.1] <;> simp, h2, ?_⟩
  rw [h2, Props.saturateCast_eq _ _ (by decide) (by decide) x (inR_u32 x hx)]; rfl

theorem gen_saturate_cast_i16_u64 (x : Int) (hx : 0 ≤ x ∧ x < 18446744073709551616) :
    Gen.saturate_cast_i16_u64_ub x = true ∧ Gen.saturate_cast_i16_u64 x = Spec.clampTo (-32768) 32767 x ∧
    Tetl.C14.saturateCast ⟨16, true⟩ ⟨64, false⟩ x = .ok (Gen.saturate_cast_i16_u64 x) := by
  have ha := gen_cmp_less_u64_i16 x (-32768) hx (by decide)
  have hb := gen_cmp_greater_u64_i16 x 32767 hx (by decide)
  have h2 : Gen.saturate_cast_i16_u64 x = Spec.clampTo (-32768) 32767 x := by
    simp only [Gen.saturate_cast_i16_u64, ha.2.1, hb.2.1]; c_arith
  refine ⟨by simp only [Gen.saturate_cast_i16_u64_ub, ha.1, hb.1] <;> simp, h2, ?_⟩
  rw [h2, Props.saturateCast_eq _ _ (by decide) (by decide) x (inR_u64 x hx)]; rfl

theorem gen_saturate_cast_i16_i8 (x : Int) (hx : -128 ≤ x ∧ x < 128) :
    Gen.saturate_cast_i16_i8_ub x = true ∧ Gen.saturate_cast_i16_i8 x = Spec.clampTo (-32768) 32767 x ∧
    Tetl.C14.saturateCast ⟨16, true⟩ ⟨8, true⟩ x = .ok (Gen.saturate_cast_i16_i8 x) := by
  have ha := gen_cmp_less_i8_i16 x (-32768) hx (by decide)
  have hb := gen_cmp_greater_i8_i16 x 32767 hx (by decide)
  have h2 : Gen.saturate_cast_i16_i8 x = Spec.clampTo (-32768) 32767 x := by
    simp only [Gen.saturate_cast_i16_i8, ha.2.1, hb.2.1]; c_arith
  refine ⟨by simp only [Gen.saturate_cast_i16_i8_ub, ha.1, hb.1] <;> simp, h2, ?_⟩
  rw [h2, Props.saturateCast_eq _ _ (by decide) (by decide) x (inR_i8 x hx)]; rfl

theorem gen_saturate_cast_i16_i16 (x : Int) (hx : -32768 ≤ x ∧ x < 32768) :
    Gen.saturate_cast_i16_i16_ub x = true ∧ Gen.saturate_cast_i16_i16 x = Spec.clampTo (-32768) 32767 x ∧
    Tetl.C14.saturateCast ⟨16, true⟩ ⟨16, true⟩ x = .ok (Gen.saturate_cast_i16_i16 x) := by
  have ha := gen_cmp_less_i16_i16 x (-32768) hx (by decide)
  have hb := gen_cmp_greater_i16_i16 x 32767 hx (by decide)
  have h2 : Gen.saturate_cast_i16_i16 x = Spec.clampTo (-32768) 32767 x := by
    simp only [Gen.saturate_cast_i16_i16, ha.2.1, hb.2.1]; c_arith
  refine ⟨by simp only [Gen.saturate_cast_i16_i16_ub, ha.1, hb.1] <;> simp, h2, ?_⟩
  rw [h2, Props.saturateCast_eq _ _ (by decide) (by decide) x (inR_i16 x hx)]; rfl

theorem gen_saturate_cast_i16_i32 (x : Int) (hx : -2147483648 ≤ x ∧ x < 2147483648) :
    Gen.saturate_cast_i16_i32_ub x = true ∧ Gen.saturate_cast_i16_i32 x = Spec.clampTo (-32768) 32767 x ∧
    Tetl.C14.saturateCast ⟨16, true⟩ ⟨32, true⟩ x = .ok (Gen.saturate_cast_i16_i32 x) := by
  have ha := gen_cmp_less_i32_i16 x (-32768) hx (by decide)
  have hb := gen_cmp_greater_i32_i16 x 32767 hx (by decide)
  have h2 : Gen.saturate_cast_i16_i32 x = Spec.clampTo (-32768) 32767 x := by
    simp only [Gen.saturate_cast_i16_i32, ha.2.1, hb.2.1]; c_arith
  refine ⟨by simp only [Gen.saturate_cast_i16_i32_ub, ha.1, hb.1] <;> simp, h2, ?_⟩
  rw [h2, Props.saturateCast_eq _ _ (by decide) (by decide) x (inR_i32 x hx)]; rfl

theorem gen_saturate_cast_i16_i64 (x : Int) (hx : -9223372036854775808 ≤ x ∧ x < 9223372036854775808) :
    Gen.saturate_cast_i16_i64_ub x = true ∧ Gen.saturate_cast_i16_i64 x = Spec.clampTo (-32768) 32767 x ∧
    Tetl.C14.saturateCast ⟨16, true⟩ ⟨64, true⟩ x = .ok (Gen.saturate_cast_i16_i64 x) := by
  have ha := gen_cmp_less_i64_i16 x (-32768) hx (by decide)
  have hb := gen_cmp_greater_i64_i16 x 32767 hx (by decide)
  have h2 : Gen.saturate_cast_i16_i64 x = Spec.clampTo (-32768) 32767 x := by
    simp only [Gen.saturate_cast_i16_i64, ha.2.1, hb.2.1]; c_arith
  refine ⟨by simp only [Gen.saturate_cast_i16_i64_ub, ha.1, hb.1] <;> simp, h2, ?_⟩
  rw [h2, Props.saturateCast_eq _ _ (by decide) (by decide) x (inR_i64 x hx)]; rfl

theorem gen_saturate_cast_i32_u8 (x : Int) (hx : 0 ≤ x ∧ x < 256) :
    Gen.saturate_cast_i32_u8_ub x = true ∧ Gen.saturate_cast_i32_u8 x = Spec.clampTo (-2147483648) 2147483647 x ∧
    Tetl.C14.saturateCast ⟨32, true⟩ ⟨8, false⟩ x = .ok (Gen.saturate_cast_i32_u8 x) := by
  have ha := gen_cmp_less_u8_i32 x (-2147483648) hx (by decide)
  have hb := gen_cmp_greater_u8_i32 x 2147483647 hx (by decide)
  have h2 : Gen.saturate_cast_i32_u8 x = Spec.clampTo (-2147483648) 2147483647 x := by
    simp only [Gen.saturate_cast_i32_u8, ha.2.1, hb.2.1]; c_arith
  refine ⟨by simp only [Gen.saturate_cast_i32_u8_ub, ha.1, hb.1] <;> simp, h2, ?_⟩
  rw [h2, Props.saturateCast_eq _ _ (by decide) (by decide) x (inR_u8 x hx)]; rfl

theorem gen_saturate_cast_i32_u16 (x : Int) (hx : 0 ≤ x ∧ x < 65536) :
    Gen.saturate_cast_i32_u16_ub x = true ∧ Gen.saturate_cast_i32_u16 x = Spec.clampTo (-2147483648) 2147483647 x ∧
    Tetl.C14.saturateCast ⟨32, true⟩ ⟨16, false⟩ x = .ok (Gen.saturate_cast_i32_u16 x) := by
  have ha := gen_cmp_less_u16_i32 x (-2147483648) hx (by decide)
  have hb := gen_cmp_greater_u16_i32 x 2147483647 hx (by decide)
  have h2 : Gen.saturate_cast_i32_u16 x = Spec.clampTo (-2147483648) 2147483647 x := by
    simp only [Gen.saturate_cast_i32_u16, ha.2.1, hb.2.1]; c_arith
  refine ⟨by simp only [Gen.saturate_cast_i32_u16_ub, ha.1, hb.1] <;> simp, h2, ?_⟩
  rw [h2, Props.saturateCast_eq _ _ (by decide) (by decide) x (inR_u16 x hx)]; rfl

theorem gen_saturate_cast_i32_u32 (x : Int) (hx : 0 ≤ x ∧ x < 4294967296) :
    Gen.saturate_cast_i32_u32_ub x = true ∧ Gen.saturate_cast_i32_u32 x = Spec.clampTo (-2147483648) 2147483647 x ∧
    Tetl.C14.saturateCast ⟨32, true⟩ ⟨32, false⟩ x = .ok (Gen.saturate_cast_i32_u32 x) := by
  have ha := gen_cmp_less_u32_i32 x (-2147483648) hx (by decide)
  have hb := gen_cmp_greater_u32_i32 x 2147483647 hx (by decide)
  have h2 : Gen.saturate_cast_i32_u32 x = Spec.clampTo (-2147483648) 2147483647 x := by
    simp only [Gen.saturate_cast_i32_u32, ha.2.1, hb.2.1]; c_arith
  refine ⟨by simp only [Gen.saturate_cast_i32_u32_ub, ha.1, hb.1] <;> simp, h2, ?_⟩
  rw [h2, Props.saturateCast_eq _ _ (by decide) (by decide) x (inR_u32 x hx)]; rfl

theorem gen_saturate_cast_i32_u64 (x : Int) (hx : 0 ≤ x ∧ x < 18446744073709551616) :
    Gen.saturate_cast_i32_u64_ub x = true ∧ Gen.saturate_cast_i32_u64 x = Spec.clampTo (-2147483648) 2147483647 x ∧
    Tetl.C14.saturateCast ⟨32, true⟩ ⟨64, false⟩ x = .ok (Gen.saturate_cast_i32_u64 x) := by
  have ha := gen_cmp_less_u64_i32 x (-2147483648) hx (by decide)
  have hb := gen_cmp_greater_u64_i32 x 2147483647 hx (by decide)
  have h2 : Gen.saturate_cast_i32_u64 x = Spec.clampTo (-2147483648) 2147483647 x := by
    simp only [Gen.saturate_cast_i32_u64, ha.2.1, hb.2.1]; c_arith
  refine ⟨by simp only [Gen.saturate_cast_i32_u64_ub, ha.1, hb.1] <;> simp, h2, ?_⟩
  rw [h2, Props.saturateCast_eq _ _ (by decide) (by decide) x (inR_u64 x hx)]; rfl

theorem gen_saturate_cast_i32_i8 (x : Int) (hx : -128 ≤ x ∧ x < 128) :
    Gen.saturate_cast_i32_i8_ub x = true ∧ Gen.saturate_cast_i32_i8 x = Spec.clampTo (-2147483648) 2147483647 x ∧
    Tetl.C14.saturateCast ⟨32, true⟩ ⟨8, true⟩ x = .ok (Gen.saturate_cast_i32_i8 x) := by
  have ha := gen_cmp_less_i8_i32 x (-2147483648) hx (by decide)
  have hb := gen_cmp_greater_i8_i32 x 2147483647 hx (by decide)
  have h2 : Gen.saturate_cast_i32_i8 x = Spec.clampTo (-2147483648) 2147483647 x := by
    simp only [Gen.saturate_cast_i32_i8, ha.2.1, hb.2.1]; c_arith
  refine ⟨by simp only [Gen.saturate_cast_i32_i8_ub, ha.1, hb.1] <;> simp, h2, ?_⟩
  rw [h2, Props.saturateCast_eq _ _ (by decide) (by decide) x (inR_i8 x hx)]; rfl

theorem gen_saturate_cast_i32_i16 (x : Int) (hx : -32768 ≤ x ∧ x < 32768) :
    Gen.saturate_cast_i32_i16_ub x = true ∧ Gen.saturate_cast_i32_i16 x = Spec.clampTo (-2147483648) 2147483647 x ∧
    Tetl.C14.saturateCast ⟨32, true⟩ ⟨16, true⟩ x = .ok (Gen.saturate_cast_i32_i16 x) := by
  have ha := gen_cmp_less_i16_i32 x (-2147483648) hx (by decide)
  have hb := gen_cmp_greater_i16_i32 x 2147483647 hx (by decide)
  have h2 : Gen.saturate_cast_i32_i16 x = Spec.clampTo (-2147483648) 2147483647 x := by
    simp only [Gen.saturate_cast_i32_i16, ha.2.1, hb.2.1]; c_arith
  refine ⟨by simp only [Gen.saturate_cast_i32_i16_ub, ha.1, hb.1] <;> simp, h2, ?_⟩
  rw [h2, Props.saturateCast_eq _ _ (by decide) (by decide) x (inR_i16 x hx)]; rfl

theorem gen_saturate_cast_i32_i32 (x : Int) (hx : -2147483648 ≤ x ∧ x < 2147483648) :
    Gen.saturate_cast_i32_i32_ub x = true ∧ Gen.saturate_cast_i32_i32 x = Spec.clampTo (-2147483648) 2147483647 x ∧
    Tetl.C14.saturateCast ⟨32, true⟩ ⟨32, true⟩ x = .ok (Gen.saturate_cast_i32_i32 x) := by
  have ha := gen_cmp_less_i32_i32 x (-2147483648) hx (by decide)
  have hb := gen_cmp_greater_i32_i32 x 2147483647 hx (by decide)
  have h2 : Gen.saturate_cast_i32_i32 x = Spec.clampTo (-2147483648) 2147483647 x := by
    simp only [Gen.saturate_cast_i32_i32, ha.2.1, hb.2.1]; c_arith
  refine ⟨by simp only [Gen.saturate_cast_i32_i32_ub, ha.1, hb.1] <;> simp, h2, ?_⟩
  rw [h2, Props.saturateCast_eq _ _ (by decide) (by decide) x (inR_i32 x hx)]; rfl

theorem gen_saturate_cast_i32_i64 (x : Int) (hx : -9223372036854775808 ≤ x ∧ x < 9223372036854775808) :
    Gen.saturate_cast_i32_i64_ub x = true ∧ Gen.saturate_cast_i32_i64 x = Spec.clampTo (-2147483648) 2147483647 x ∧
    Tetl.C14.saturateCast ⟨32, true⟩ ⟨64, true⟩ x = .ok (Gen.saturate_cast_i32_i64 x) := by
  have ha := gen_cmp_less_i64_i32 x (-2147483648) hx (by decide)
  have hb := gen_cmp_greater_i64_i32 x 2147483647 hx (by decide)
  have h2 : Gen.saturate_cast_i32_i64 x = Spec.clampTo (-2147483648) 2147483647 x := by
    simp only [Gen.saturate_cast_i32_i64, ha.2.1, hb.2.1]; c_arith
  refine ⟨by simp only [Gen.saturate_cast_i32_i64_ub, ha.1, hb.1] <;> simp, h2, ?_⟩
  rw [h2, Props.saturateCast_eq _ _ (by decide) (by decide) x (inR_i64 x hx)]; rfl

theorem gen_saturate_cast_i64_u8 (x : Int) (hx : 0 ≤ x ∧ x < 256) :
    Gen.saturate_cast_i64_u8_ub x = true ∧ Gen.saturate_cast_i64_u8 x = Spec.clampTo (-9223372036854775808) 9223372036854775807 x ∧
    Tetl.C14.saturateCast ⟨64, true⟩ ⟨8, false⟩ x = .ok (Gen.saturate_cast_i64_u8 x) := by
  have ha := gen_cmp_less_u8_i64 x (-9223372036854775808) hx (by decide)
  have hb := gen_cmp_greater_u8_i64 x 9223372036854775807 hx (by decide)
  have h2 : Gen.saturate_cast_i64_u8 x = Spec.clampTo (-9223372036854775808) 9223372036854775807 x := by
    simp only [Gen.saturate_cast_i64_u8, ha.2.1, hb.2.1]; c_arith
  refine ⟨by simp only [Gen.saturate_cast_i64_u8_ub, ha.1, hb.1] <;> simp, h2, ?_⟩
  rw [h2, Props.saturateCast_eq _ _ (by decide) (by decide) x (inR_u8 x hx)]; rfl

theorem gen_saturate_cast_i64_u16 (x : Int) (hx : 0 ≤ x ∧ x < 65536) :
    Gen.saturate_cast_i64_u16_ub x = true ∧ Gen.saturate_cast_i64_u16 x = Spec.clampTo (-9223372036854775808) 9223372036854775807 x ∧
    Tetl.C14.saturateCast ⟨64, true⟩ ⟨16, false⟩ x = .ok (Gen.saturate_cast_i64_u16 x) := by
  have ha := gen_cmp_less_u16_i64 x (-9223372036854775808) hx (by decide)
  have hb := gen_cmp_greater_u16_i64 x 9223372036854775807 hx (by decide)
  have h2 : Gen.saturate_cast_i64_u16 x = Spec.clampTo (-9223372036854775808) 9223372036854775807 x := by
    simp only [Gen.saturate_cast_i64_u16, ha.2.1, hb.2.1]; c_arith
  refine ⟨by simp only [Gen.saturate_cast_i64_u16_ub, ha.1, hb.1] <;> simp, h2, ?_⟩
  rw [h2, Props.saturateCast_eq _ _ (by decide) (by decide) x (inR_u16 x hx)]; rfl

theorem gen_saturate_cast_i64_u32 (x : Int) (hx : 0 ≤ x ∧ x < 4294967296) :
    Gen.saturate_cast_i64_u32_ub x = true ∧ Gen.saturate_cast_i64_u32 x = Spec.clampTo (-9223372036854775808) 9223372036854775807 x ∧
    Tetl.C14.saturateCast ⟨64, true⟩ ⟨32, false⟩ x = .ok (Gen.saturate_cast_i64_u32 x) := by
  have ha := gen_cmp_less_u32_i64 x (-9223372036854775808) hx (by decide)
  have hb := gen_cmp_greater_u32_i64 x 9223372036854775807 hx (by decide)
  have h2 : Gen.saturate_cast_i64_u32 x = Spec.clampTo (-9223372036854775808) 9223372036854775807 x := by
    simp only [Gen.saturate_cast_i64_u32, ha.2.1, hb.2.1]; c_arith
  refine ⟨by simp only [Gen.saturate_cast_i64_u32_ub, ha.1, hb.1] <;> simp, h2, ?_⟩
  rw [h2, Props.saturateCast_eq _ _ (by decide) (by decide) x (inR_u32 x hx)]; rfl

theorem gen_saturate_cast_i64_u64 (x : Int) (hx : 0 ≤ x ∧ x < 18446744073709551616) :
    Gen.saturate_cast_i64_u64_ub x = true ∧ Gen.saturate_cast_i64_u64 x = Spec.clampTo (-9223372036854775808) 9223372036854775807 x ∧
    Tetl.C14.saturateCast ⟨64, true⟩ ⟨64, false⟩ x = .ok (Gen.saturate_cast_i64_u64 x) := by
  have ha := gen_cmp_less_u64_i64 x (-9223372036854775808) hx (by decide)
  have hb := gen_cmp_greater_u64_i64 x 9223372036854775807 hx (by decide)
  have h2 : Gen.saturate_cast_i64_u64 x = Spec.clampTo (-9223372036854775808) 9223372036854775807 x := by
    simp only [Gen.saturate_cast_i64_u64, ha.2.1, hb.2.1]; c_arith
  refine ⟨by simp only [Gen.saturate_cast_i64_u64_ub, ha.1, hb.1] <;> simp, h2, ?_⟩
  rw [h2, Props.saturateCast_eq _ _ (by decide) (by decide) x (inR_u64 x hx)]; rfl

theorem gen_saturate_cast_i64_i8 (x : Int) (hx : -128 ≤ x ∧ x < 128) :
    Gen.saturate_cast_i64_i8_ub x = true ∧ Gen.saturate_cast_i64_i8 x = Spec.clampTo (-9223372036854775808) 9223372036854775807 x ∧
    Tetl.C14.saturateCast ⟨64, true⟩ ⟨8, true⟩ x = .ok (Gen.saturate_cast_i64_i8 x) := by
  have ha := gen_cmp_less_i8_i64 x (-9223372036854775808) hx (by decide)
  have hb := gen_cmp_greater_i8_i64 x 9223372036854775807 hx (by decide)
  have h2 : Gen.saturate_cast_i64_i8 x = Spec.clampTo (-9223372036854775808) 9223372036854775807 x := by
    simp only [Gen.saturate_cast_i64_i8, ha.2.1, hb.2.1]; c_arith
  refine ⟨by simp only [Gen.saturate_cast_i64_i8_ub, ha.1, hb.1] <;> simp, h2, ?_⟩
  rw [h2, Props.saturateCast_eq _ _ (by decide) (by decide) x (inR_i8 x hx)]; rfl

theorem gen_saturate_cast_i64_i16 (x : Int) (hx : -32768 ≤ x ∧ x < 32768) :
    Gen.saturate_cast_i64_i16_ub x = true ∧ Gen.saturate_cast_i64_i16 x = Spec.clampTo (-9223372036854775808) 9223372036854775807 x ∧
    Tetl.C14.saturateCast ⟨64, true⟩ ⟨16, true⟩ x = .ok (Gen.saturate_cast_i64_i16 x) := by
  have ha := gen_cmp_less_i16_i64 x (-9223372036854775808) hx (by decide)
  have hb := gen_cmp_greater_i16_i64 x 9223372036854775807 hx (by decide)
  have h2 : Gen.saturate_cast_i64_i16 x = Spec.clampTo (-9223372036854775808) 9223372036854775807 x := by
    simp only [Gen.saturate_cast_i64_i16, ha.2.1, hb.2.1]; c_arith
  refine ⟨by simp only [Gen.saturate_cast_i64_i16_ub, ha.1, hb.1] <;> simp, h2, ?_⟩
  rw [h2, Props.saturateCast_eq _ _ (by decide) (by decide) x (inR_i16 x hx)]; rfl

theorem gen_saturate_cast_i64_i32 (x : Int) (hx : -2147483648 ≤ x ∧ x < 2147483648) :
    Gen.saturate_cast_i64_i32_ub x = true ∧ Gen.saturate_cast_i64_i32 x = Spec.clampTo (-9223372036854775808) 9223372036854775807 x ∧
    Tetl.C14.saturateCast ⟨64, true⟩ ⟨32, true⟩ x = .ok (Gen.saturate_cast_i64_i32 x) := by
  have ha := gen_cmp_less_i32_i64 x (-9223372036854775808) hx (by decide)
  have hb := gen_cmp_greater_i32_i64 x 9223372036854775807 hx (by decide)
  have h2 : Gen.saturate_cast_i64_i32 x = Spec.clampTo (-9223372036854775808) 9223372036854775807 x := by
    simp only [Gen.saturate_cast_i64_i32, ha.2.1, hb.2.1]; c_arith
  refine ⟨by simp only [Gen.saturate_cast_i64_i32_ub, ha.1, hb.1] <;> simp, h2, ?_⟩
  rw [h2, Props.saturateCast_eq _ _ (by decide) (by decide) x (inR_i32 x hx)]; rfl

theorem gen_saturate_cast_i64_i64 (x : Int) (hx : -9223372036854775808 ≤ x ∧ x < 9223372036854775808) :
    Gen.saturate_cast_i64_i64_ub x = true ∧ Gen.saturate_cast_i64_i64 x = Spec.clampTo (-9223372036854775808) 9223372036854775807 x ∧
    Tetl.C14.saturateCast ⟨64, true⟩ ⟨64, true⟩ x = .ok (Gen.saturate_cast_i64_i64 x) := by
  have ha := gen_cmp_less_i64_i64 x (-9223372036854775808) hx (by decide)
  have hb := gen_cmp_greater_i64_i64 x 9223372036854775807 hx (by decide)
  have h2 : Gen.saturate_cast_i64_i64 x = Spec.clampTo (-9223372036854775808) 9223372036854775807 x := by
    simp only [Gen.saturate_cast_i64_i64, ha.2.1, hb.2.1]; c_arith
  refine ⟨by simp only [Gen.saturate_cast_i64_i64_ub, ha.1, hb.1] <;> simp, h2, ?_⟩
  rw [h2, Props.saturateCast_eq _ _ (by decide) (by decide) x (inR_i64 x hx)]; rfl

end Tetl.C14.GenProps
