/-
C14 — the generated <bit> kernels (Tetl/C14/Gen.lean, translated from the C++ headers) agree with the hand model
(Tetl/C14/Model.lean) on the documented domain and have no undefined behaviour there (`…_ub = true`); the results are
non-negative (values of the unsigned type).  Every theorem instantiates a width-generic lemma of GenBitLemmas.lean.
-/
import TetlProofs.C14.GenBitLemmas
set_option linter.unusedSimpArgs false
set_option linter.unusedVariables false
namespace Tetl.C14.GenProps
open Tetl Tetl.C14 Tetl.CSem
open Tetl.C14.GenBitLemmas

/-! ## u8 -/
theorem gen_bit_width_u8 (x : Int) (hx : 0 ≤ x ∧ x < 256) :
    Gen.bit_width_u8_ub x = true ∧ Tetl.C14.bitWidth 8 x.toNat = .ok (Gen.bit_width_u8 x).toNat ∧ 0 ≤ Gen.bit_width_u8 x := by
  obtain ⟨n, rfl⟩ := Int.eq_ofNat_of_zero_le hx.1
  have hn : n < 2 ^ 8 := by omega
  obtain ⟨h1, h2⟩ := bitWidthG_eq 8 n (by decide) (by decide) hn
  exact assemble _ h2 h1 (by simpa using Props.bitWidth_eq 8 n (by decide) hn)
theorem gen_bit_floor_u8 (x : Int) (hx : 0 ≤ x ∧ x < 256) :
    Gen.bit_floor_u8_ub x = true ∧ Tetl.C14.bitFloor 8 x.toNat = .ok (Gen.bit_floor_u8 x).toNat ∧ 0 ≤ Gen.bit_floor_u8 x :=
  bit_floor_narrow 8 (by decide) (by decide) x hx
theorem gen_bit_ceil_u8 (x : Int) (hx : 0 ≤ x ∧ x ≤ 128) :
    Gen.bit_ceil_u8_ub x = true ∧ Tetl.C14.bitCeil 8 x.toNat = .ok (Gen.bit_ceil_u8 x).toNat ∧ 0 ≤ Gen.bit_ceil_u8 x :=
  bit_ceil_narrow 8 (by decide) (by decide) x hx
theorem gen_has_single_bit_u8 (x : Int) (hx : 0 ≤ x ∧ x < 256) :
    Gen.has_single_bit_u8_ub x = true ∧ Tetl.C14.hasSingleBit 8 x.toNat = .ok (Gen.has_single_bit_u8 x) :=
  has_single_bit_gen 8 x hx
theorem gen_rotl_u8 (t s : Int) (ht : 0 ≤ t ∧ t < 256) (hs : -2147483648 ≤ s ∧ s < 2147483648) :
    Gen.rotl_u8_ub t s = true ∧ Tetl.C14.rotl 8 t.toNat s = .ok (Gen.rotl_u8 t s).toNat ∧ 0 ≤ Gen.rotl_u8 t s :=
  rotl_narrow 8 (by decide) (by decide) t s ht
theorem gen_rotr_u8 (t s : Int) (ht : 0 ≤ t ∧ t < 256) (hs : -2147483648 ≤ s ∧ s < 2147483648) :
    Gen.rotr_u8_ub t s = true ∧ Tetl.C14.rotr 8 t.toNat s = .ok (Gen.rotr_u8 t s).toNat ∧ 0 ≤ Gen.rotr_u8 t s :=
  rotr_narrow 8 (by decide) (by decide) t s ht
theorem gen_test_bit_u8 (word pos : Int) (hw : 0 ≤ word ∧ word < 256) (hp : 0 ≤ pos ∧ pos < 8) :
    Gen.test_bit_u8_ub word pos = true ∧ Tetl.C14.testBit 8 word.toNat pos.toNat = .ok (Gen.test_bit_u8 word pos) :=
  test_bit_narrow 8 (by decide) word pos hw hp
theorem gen_set_bit_u8 (word pos : Int) (hw : 0 ≤ word ∧ word < 256) (hp : 0 ≤ pos ∧ pos < 8) :
    Gen.set_bit_u8_ub word pos = true ∧ Tetl.C14.setBit 8 word.toNat pos.toNat = .ok (Gen.set_bit_u8 word pos).toNat ∧ 0 ≤ Gen.set_bit_u8 word pos :=
  set_bit_narrow 8 (by decide) word pos hw hp
theorem gen_reset_bit_u8 (word pos : Int) (hw : 0 ≤ word ∧ word < 256) (hp : 0 ≤ pos ∧ pos < 8) :
    Gen.reset_bit_u8_ub word pos = true ∧ Tetl.C14.resetBit 8 word.toNat pos.toNat = .ok (Gen.reset_bit_u8 word pos).toNat ∧ 0 ≤ Gen.reset_bit_u8 word pos :=
  reset_bit_narrow 8 (by decide) word pos hw hp
theorem gen_flip_bit_u8 (word pos : Int) (hw : 0 ≤ word ∧ word < 256) (hp : 0 ≤ pos ∧ pos < 8) :
    Gen.flip_bit_u8_ub word pos = true ∧ Tetl.C14.flipBit 8 word.toNat pos.toNat = .ok (Gen.flip_bit_u8 word pos).toNat ∧ 0 ≤ Gen.flip_bit_u8 word pos :=
  flip_bit_narrow 8 (by decide) word pos hw hp
theorem gen_set_bit_to_u8 (word pos : Int) (value : Bool) (hw : 0 ≤ word ∧ word < 256) (hp : 0 ≤ pos ∧ pos < 8) :
    Gen.set_bit_to_u8_ub word pos value = true ∧ Tetl.C14.setBitTo 8 word.toNat pos.toNat value = .ok (Gen.set_bit_to_u8 word pos value).toNat ∧ 0 ≤ Gen.set_bit_to_u8 word pos value :=
  set_bit_to_narrow 8 (by decide) word pos value hw hp

/-! ## u16 -/
theorem gen_bit_width_u16 (x : Int) (hx : 0 ≤ x ∧ x < 65536) :
    Gen.bit_width_u16_ub x = true ∧ Tetl.C14.bitWidth 16 x.toNat = .ok (Gen.bit_width_u16 x).toNat ∧ 0 ≤ Gen.bit_width_u16 x := by
  obtain ⟨n, rfl⟩ := Int.eq_ofNat_of_zero_le hx.1
  have hn : n < 2 ^ 16 := by omega
  obtain ⟨h1, h2⟩ := bitWidthG_eq 16 n (by decide) (by decide) hn
  exact assemble _ h2 h1 (by simpa using Props.bitWidth_eq 16 n (by decide) hn)
theorem gen_bit_floor_u16 (x : Int) (hx : 0 ≤ x ∧ x < 65536) :
    Gen.bit_floor_u16_ub x = true ∧ Tetl.C14.bitFloor 16 x.toNat = .ok (Gen.bit_floor_u16 x).toNat ∧ 0 ≤ Gen.bit_floor_u16 x :=
  bit_floor_narrow 16 (by decide) (by decide) x hx
theorem gen_bit_ceil_u16 (x : Int) (hx : 0 ≤ x ∧ x ≤ 32768) :
    Gen.bit_ceil_u16_ub x = true ∧ Tetl.C14.bitCeil 16 x.toNat = .ok (Gen.bit_ceil_u16 x).toNat ∧ 0 ≤ Gen.bit_ceil_u16 x :=
  bit_ceil_narrow 16 (by decide) (by decide) x hx
theorem gen_has_single_bit_u16 (x : Int) (hx : 0 ≤ x ∧ x < 65536) :
    Gen.has_single_bit_u16_ub x = true ∧ Tetl.C14.hasSingleBit 16 x.toNat = .ok (Gen.has_single_bit_u16 x) :=
  has_single_bit_gen 16 x hx
theorem gen_rotl_u16 (t s : Int) (ht : 0 ≤ t ∧ t < 65536) (hs : -2147483648 ≤ s ∧ s < 2147483648) :
    Gen.rotl_u16_ub t s = true ∧ Tetl.C14.rotl 16 t.toNat s = .ok (Gen.rotl_u16 t s).toNat ∧ 0 ≤ Gen.rotl_u16 t s :=
  rotl_narrow 16 (by decide) (by decide) t s ht
theorem gen_rotr_u16 (t s : Int) (ht : 0 ≤ t ∧ t < 65536) (hs : -2147483648 ≤ s ∧ s < 2147483648) :
    Gen.rotr_u16_ub t s = true ∧ Tetl.C14.rotr 16 t.toNat s = .ok (Gen.rotr_u16 t s).toNat ∧ 0 ≤ Gen.rotr_u16 t s :=
  rotr_narrow 16 (by decide) (by decide) t s ht
theorem gen_test_bit_u16 (word pos : Int) (hw : 0 ≤ word ∧ word < 65536) (hp : 0 ≤ pos ∧ pos < 16) :
    Gen.test_bit_u16_ub word pos = true ∧ Tetl.C14.testBit 16 word.toNat pos.toNat = .ok (Gen.test_bit_u16 word pos) :=
  test_bit_narrow 16 (by decide) word pos hw hp
theorem gen_set_bit_u16 (word pos : Int) (hw : 0 ≤ word ∧ word < 65536) (hp : 0 ≤ pos ∧ pos < 16) :
    Gen.set_bit_u16_ub word pos = true ∧ Tetl.C14.setBit 16 word.toNat pos.toNat = .ok (Gen.set_bit_u16 word pos).toNat ∧ 0 ≤ Gen.set_bit_u16 word pos :=
  set_bit_narrow 16 (by decide) word pos hw hp
theorem gen_reset_bit_u16 (word pos : Int) (hw : 0 ≤ word ∧ word < 65536) (hp : 0 ≤ pos ∧ pos < 16) :
    Gen.reset_bit_u16_ub word pos = true ∧ Tetl.C14.resetBit 16 word.toNat pos.toNat = .ok (Gen.reset_bit_u16 word pos).toNat ∧ 0 ≤ Gen.reset_bit_u16 word pos :=
  reset_bit_narrow 16 (by decide) word pos hw hp
theorem gen_flip_bit_u16 (word pos : Int) (hw : 0 ≤ word ∧ word < 65536) (hp : 0 ≤ pos ∧ pos < 16) :
    Gen.flip_bit_u16_ub word pos = true ∧ Tetl.C14.flipBit 16 word.toNat pos.toNat = .ok (Gen.flip_bit_u16 word pos).toNat ∧ 0 ≤ Gen.flip_bit_u16 word pos :=
  flip_bit_narrow 16 (by decide) word pos hw hp
theorem gen_set_bit_to_u16 (word pos : Int) (value : Bool) (hw : 0 ≤ word ∧ word < 65536) (hp : 0 ≤ pos ∧ pos < 16) :
    Gen.set_bit_to_u16_ub word pos value = true ∧ Tetl.C14.setBitTo 16 word.toNat pos.toNat value = .ok (Gen.set_bit_to_u16 word pos value).toNat ∧ 0 ≤ Gen.set_bit_to_u16 word pos value :=
  set_bit_to_narrow 16 (by decide) word pos value hw hp
theorem gen_byteswap_fallback_u16 (val : Int) (hv : 0 ≤ val ∧ val < 65536) :
    Gen.byteswap_fallback_u16_ub val = true ∧ Tetl.C14.byteswapFallback 16 val.toNat = .ok (Gen.byteswap_fallback_u16 val).toNat ∧ 0 ≤ Gen.byteswap_fallback_u16 val :=
  byteswap16_gen val hv

/-! ## u32 -/
theorem gen_bit_width_u32 (x : Int) (hx : 0 ≤ x ∧ x < 4294967296) :
    Gen.bit_width_u32_ub x = true ∧ Tetl.C14.bitWidth 32 x.toNat = .ok (Gen.bit_width_u32 x).toNat ∧ 0 ≤ Gen.bit_width_u32 x := by
  obtain ⟨n, rfl⟩ := Int.eq_ofNat_of_zero_le hx.1
  have hn : n < 2 ^ 32 := by omega
  obtain ⟨h1, h2⟩ := bitWidthG_eq 32 n (by decide) (by decide) hn
  exact assemble _ h2 h1 (by simpa using Props.bitWidth_eq 32 n (by decide) hn)
theorem gen_bit_floor_u32 (x : Int) (hx : 0 ≤ x ∧ x < 4294967296) :
    Gen.bit_floor_u32_ub x = true ∧ Tetl.C14.bitFloor 32 x.toNat = .ok (Gen.bit_floor_u32 x).toNat ∧ 0 ≤ Gen.bit_floor_u32 x :=
  bit_floor_wide 32 (by decide) x hx (by decide)
theorem gen_bit_ceil_u32 (x : Int) (hx : 0 ≤ x ∧ x ≤ 2147483648) :
    Gen.bit_ceil_u32_ub x = true ∧ Tetl.C14.bitCeil 32 x.toNat = .ok (Gen.bit_ceil_u32 x).toNat ∧ 0 ≤ Gen.bit_ceil_u32 x :=
  bit_ceil_wide 32 (by decide) (by decide) x hx
theorem gen_has_single_bit_u32 (x : Int) (hx : 0 ≤ x ∧ x < 4294967296) :
    Gen.has_single_bit_u32_ub x = true ∧ Tetl.C14.hasSingleBit 32 x.toNat = .ok (Gen.has_single_bit_u32 x) :=
  has_single_bit_gen 32 x hx
theorem gen_rotl_u32 (t s : Int) (ht : 0 ≤ t ∧ t < 4294967296) (hs : -2147483648 ≤ s ∧ s < 2147483648) :
    Gen.rotl_u32_ub t s = true ∧ Tetl.C14.rotl 32 t.toNat s = .ok (Gen.rotl_u32 t s).toNat ∧ 0 ≤ Gen.rotl_u32 t s :=
  rotl_wide 32 (by decide) (by decide) t s ht
theorem gen_rotr_u32 (t s : Int) (ht : 0 ≤ t ∧ t < 4294967296) (hs : -2147483648 ≤ s ∧ s < 2147483648) :
    Gen.rotr_u32_ub t s = true ∧ Tetl.C14.rotr 32 t.toNat s = .ok (Gen.rotr_u32 t s).toNat ∧ 0 ≤ Gen.rotr_u32 t s :=
  rotr_wide 32 (by decide) (by decide) t s ht
theorem gen_test_bit_u32 (word pos : Int) (hw : 0 ≤ word ∧ word < 4294967296) (hp : 0 ≤ pos ∧ pos < 32) :
    Gen.test_bit_u32_ub word pos = true ∧ Tetl.C14.testBit 32 word.toNat pos.toNat = .ok (Gen.test_bit_u32 word pos) :=
  test_bit_wide 32 word pos hw hp
theorem gen_set_bit_u32 (word pos : Int) (hw : 0 ≤ word ∧ word < 4294967296) (hp : 0 ≤ pos ∧ pos < 32) :
    Gen.set_bit_u32_ub word pos = true ∧ Tetl.C14.setBit 32 word.toNat pos.toNat = .ok (Gen.set_bit_u32 word pos).toNat ∧ 0 ≤ Gen.set_bit_u32 word pos :=
  set_bit_wide 32 word pos hw hp
theorem gen_reset_bit_u32 (word pos : Int) (hw : 0 ≤ word ∧ word < 4294967296) (hp : 0 ≤ pos ∧ pos < 32) :
    Gen.reset_bit_u32_ub word pos = true ∧ Tetl.C14.resetBit 32 word.toNat pos.toNat = .ok (Gen.reset_bit_u32 word pos).toNat ∧ 0 ≤ Gen.reset_bit_u32 word pos :=
  reset_bit_wide 32 word pos hw hp
theorem gen_flip_bit_u32 (word pos : Int) (hw : 0 ≤ word ∧ word < 4294967296) (hp : 0 ≤ pos ∧ pos < 32) :
    Gen.flip_bit_u32_ub word pos = true ∧ Tetl.C14.flipBit 32 word.toNat pos.toNat = .ok (Gen.flip_bit_u32 word pos).toNat ∧ 0 ≤ Gen.flip_bit_u32 word pos :=
  flip_bit_wide 32 word pos hw hp
theorem gen_set_bit_to_u32 (word pos : Int) (value : Bool) (hw : 0 ≤ word ∧ word < 4294967296) (hp : 0 ≤ pos ∧ pos < 32) :
    Gen.set_bit_to_u32_ub word pos value = true ∧ Tetl.C14.setBitTo 32 word.toNat pos.toNat value = .ok (Gen.set_bit_to_u32 word pos value).toNat ∧ 0 ≤ Gen.set_bit_to_u32 word pos value :=
  set_bit_to_wide 32 word pos value hw hp
theorem gen_byteswap_fallback_u32 (val : Int) (hv : 0 ≤ val ∧ val < 4294967296) :
    Gen.byteswap_fallback_u32_ub val = true ∧ Tetl.C14.byteswapFallback 32 val.toNat = .ok (Gen.byteswap_fallback_u32 val).toNat ∧ 0 ≤ Gen.byteswap_fallback_u32 val :=
  byteswap32_gen val hv

/-! ## u64 -/
theorem gen_bit_width_u64 (x : Int) (hx : 0 ≤ x ∧ x < 18446744073709551616) :
    Gen.bit_width_u64_ub x = true ∧ Tetl.C14.bitWidth 64 x.toNat = .ok (Gen.bit_width_u64 x).toNat ∧ 0 ≤ Gen.bit_width_u64 x := by
  obtain ⟨n, rfl⟩ := Int.eq_ofNat_of_zero_le hx.1
  have hn : n < 2 ^ 64 := by omega
  obtain ⟨h1, h2⟩ := bitWidthG_eq 64 n (by decide) (by decide) hn
  exact assemble _ h2 h1 (by simpa using Props.bitWidth_eq 64 n (by decide) hn)
theorem gen_bit_floor_u64 (x : Int) (hx : 0 ≤ x ∧ x < 18446744073709551616) :
    Gen.bit_floor_u64_ub x = true ∧ Tetl.C14.bitFloor 64 x.toNat = .ok (Gen.bit_floor_u64 x).toNat ∧ 0 ≤ Gen.bit_floor_u64 x :=
  bit_floor_wide 64 (by decide) x hx (by decide)
theorem gen_bit_ceil_u64 (x : Int) (hx : 0 ≤ x ∧ x ≤ 9223372036854775808) :
    Gen.bit_ceil_u64_ub x = true ∧ Tetl.C14.bitCeil 64 x.toNat = .ok (Gen.bit_ceil_u64 x).toNat ∧ 0 ≤ Gen.bit_ceil_u64 x :=
  bit_ceil_wide 64 (by decide) (by decide) x hx
theorem gen_has_single_bit_u64 (x : Int) (hx : 0 ≤ x ∧ x < 18446744073709551616) :
    Gen.has_single_bit_u64_ub x = true ∧ Tetl.C14.hasSingleBit 64 x.toNat = .ok (Gen.has_single_bit_u64 x) :=
  has_single_bit_gen 64 x hx
theorem gen_rotl_u64 (t s : Int) (ht : 0 ≤ t ∧ t < 18446744073709551616) (hs : -2147483648 ≤ s ∧ s < 2147483648) :
    Gen.rotl_u64_ub t s = true ∧ Tetl.C14.rotl 64 t.toNat s = .ok (Gen.rotl_u64 t s).toNat ∧ 0 ≤ Gen.rotl_u64 t s :=
  rotl_wide 64 (by decide) (by decide) t s ht
theorem gen_rotr_u64 (t s : Int) (ht : 0 ≤ t ∧ t < 18446744073709551616) (hs : -2147483648 ≤ s ∧ s < 2147483648) :
    Gen.rotr_u64_ub t s = true ∧ Tetl.C14.rotr 64 t.toNat s = .ok (Gen.rotr_u64 t s).toNat ∧ 0 ≤ Gen.rotr_u64 t s :=
  rotr_wide 64 (by decide) (by decide) t s ht
theorem gen_test_bit_u64 (word pos : Int) (hw : 0 ≤ word ∧ word < 18446744073709551616) (hp : 0 ≤ pos ∧ pos < 64) :
    Gen.test_bit_u64_ub word pos = true ∧ Tetl.C14.testBit 64 word.toNat pos.toNat = .ok (Gen.test_bit_u64 word pos) :=
  test_bit_wide 64 word pos hw hp
theorem gen_set_bit_u64 (word pos : Int) (hw : 0 ≤ word ∧ word < 18446744073709551616) (hp : 0 ≤ pos ∧ pos < 64) :
    Gen.set_bit_u64_ub word pos = true ∧ Tetl.C14.setBit 64 word.toNat pos.toNat = .ok (Gen.set_bit_u64 word pos).toNat ∧ 0 ≤ Gen.set_bit_u64 word pos :=
  set_bit_wide 64 word pos hw hp
theorem gen_reset_bit_u64 (word pos : Int) (hw : 0 ≤ word ∧ word < 18446744073709551616) (hp : 0 ≤ pos ∧ pos < 64) :
    Gen.reset_bit_u64_ub word pos = true ∧ Tetl.C14.resetBit 64 word.toNat pos.toNat = .ok (Gen.reset_bit_u64 word pos).toNat ∧ 0 ≤ Gen.reset_bit_u64 word pos :=
  reset_bit_wide 64 word pos hw hp
theorem gen_flip_bit_u64 (word pos : Int) (hw : 0 ≤ word ∧ word < 18446744073709551616) (hp : 0 ≤ pos ∧ pos < 64) :
    Gen.flip_bit_u64_ub word pos = true ∧ Tetl.C14.flipBit 64 word.toNat pos.toNat = .ok (Gen.flip_bit_u64 word pos).toNat ∧ 0 ≤ Gen.flip_bit_u64 word pos :=
  flip_bit_wide 64 word pos hw hp
theorem gen_set_bit_to_u64 (word pos : Int) (value : Bool) (hw : 0 ≤ word ∧ word < 18446744073709551616) (hp : 0 ≤ pos ∧ pos < 64) :
    Gen.set_bit_to_u64_ub word pos value = true ∧ Tetl.C14.setBitTo 64 word.toNat pos.toNat value = .ok (Gen.set_bit_to_u64 word pos value).toNat ∧ 0 ≤ Gen.set_bit_to_u64 word pos value :=
  set_bit_to_wide 64 word pos value hw hp
theorem gen_byteswap_fallback_u64 (val : Int) (hv : 0 ≤ val ∧ val < 18446744073709551616) :
    Gen.byteswap_fallback_u64_ub val = true ∧ Tetl.C14.byteswapFallback 64 val.toNat = .ok (Gen.byteswap_fallback_u64 val).toNat ∧ 0 ≤ Gen.byteswap_fallback_u64 val :=
  byteswap64_gen val hv

end Tetl.C14.GenProps
