/-
C14, tie T — tactics and small lemmas for the theorems over the GENERATED arithmetic kernels (GenArith, GenCmp*, GenRange,
GenSat): Bool-to-Prop normalisation that must run BEFORE `wrapU`/`wrapS` are unfolded (a `decide` keeps the Decidable
instance of the folded term), membership of a value in a concrete type, the quotient facts `div_sat` needs.
-/
import TetlProofs.C14.Props
import Tetl.C14.Gen
set_option linter.unusedSimpArgs false
namespace Tetl.C14.GenProps
open Tetl Tetl.C14 Tetl.CSem

/-- Bool connectives / `decide` / `if` over Bool to propositions -/
macro "b2p" : tactic => `(tactic| simp only [Bool.if_true_left, Bool.if_false_left, Bool.if_true_right,
  Bool.if_false_right, Bool.or_eq_true, decide_eq_true_eq, Bool.and_eq_true, Bool.not_eq_true', decide_eq_false_iff_not,
  beq_iff_eq, bne_iff_ne, ne_eq, Bool.not_eq_true, Bool.ite_eq_true_distrib, if_true_left, if_false_left, if_true_right,
  if_false_right, Bool.true_eq_false, Bool.false_eq_true, Bool.not_eq_eq_eq_not, Bool.not_true, Bool.not_false,
  Bool.decide_eq_true, Bool.decide_eq_false, true_and, and_true, if_true, if_false, Bool.and_true, Bool.true_and,
  Bool.or_false, Bool.false_or, Bool.not_not, Bool.decide_and, Bool.decide_or, decide_not])

/-- finish: unfold the C semantics to `%` by numerals, then linear arithmetic -/
macro "c_arith" : tactic => `(tactic| (
  try simp only [inRangeS, shiftOk, addOverflowFlag, addOverflowVal, cdiv, cmod]
  try b2p
  try simp [wrapU, wrapS, Spec.clampTo, Spec.abs]
  try omega))

/-- close a `Bool = Bool` goal (or nothing, when the unfolding already closed it) -/
macro "bool_fin" : tactic => `(tactic| first | done | rfl | (rw [Bool.eq_iff_iff]; c_arith))

theorem inR_u8 (x : Int) (h : 0 ≤ x ∧ x < 256) : (⟨8, false⟩ : ITy).inR x = true := by
  simp [ITy.inR, ITy.min, ITy.max]; omega
theorem inR_u16 (x : Int) (h : 0 ≤ x ∧ x < 65536) : (⟨16, false⟩ : ITy).inR x = true := by
  simp [ITy.inR, ITy.min, ITy.max]; omega
theorem inR_u32 (x : Int) (h : 0 ≤ x ∧ x < 4294967296) : (⟨32, false⟩ : ITy).inR x = true := by
  simp [ITy.inR, ITy.min, ITy.max]; omega
theorem inR_u64 (x : Int) (h : 0 ≤ x ∧ x < 18446744073709551616) : (⟨64, false⟩ : ITy).inR x = true := by
  simp [ITy.inR, ITy.min, ITy.max]; omega
theorem inR_i8 (x : Int) (h : -128 ≤ x ∧ x < 128) : (⟨8, true⟩ : ITy).inR x = true := by
  simp [ITy.inR, ITy.min, ITy.max]; omega
theorem inR_i16 (x : Int) (h : -32768 ≤ x ∧ x < 32768) : (⟨16, true⟩ : ITy).inR x = true := by
  simp [ITy.inR, ITy.min, ITy.max]; omega
theorem inR_i32 (x : Int) (h : -2147483648 ≤ x ∧ x < 2147483648) : (⟨32, true⟩ : ITy).inR x = true := by
  simp [ITy.inR, ITy.min, ITy.max]; omega
theorem inR_i64 (x : Int) (h : -9223372036854775808 ≤ x ∧ x < 9223372036854775808) : (⟨64, true⟩ : ITy).inR x = true := by
  simp [ITy.inR, ITy.min, ITy.max]; omega

/-- truncated quotient of non-negative values: between 0 and the dividend -/
theorem tdiv_nonneg_le (x y : Int) (hx : 0 ≤ x) (hy : 0 ≤ y) : 0 ≤ Int.tdiv x y ∧ Int.tdiv x y ≤ x :=
  ⟨Int.tdiv_nonneg hx hy, Int.tdiv_le_self y hx⟩

/-- truncated quotient of two values of a signed range `[-m, m)`: inside the range unless `-m / -1` -/
theorem tdiv_signed_range (m x y : Int) (hx : -m ≤ x ∧ x < m) (hy0 : y ≠ 0) (hex : ¬ (x = -m ∧ y = -1)) :
    -m ≤ Int.tdiv x y ∧ Int.tdiv x y < m := by
  have hq : (Int.tdiv x y).natAbs = x.natAbs / y.natAbs := Int.natAbs_tdiv x y
  have hle : x.natAbs / y.natAbs ≤ x.natAbs := Nat.div_le_self _ _
  by_cases hy1 : y.natAbs = 1
  · have : y = 1 ∨ y = -1 := by omega
    rcases this with h | h
    · subst h; rw [Int.tdiv_one]; omega
    · subst h
      have : Int.tdiv x (-1) = -x := by rw [Int.tdiv_neg, Int.tdiv_one]
      rw [this]; omega
  · have h2 : 2 ≤ y.natAbs := by omega
    have : x.natAbs / y.natAbs ≤ x.natAbs / 2 := Nat.div_le_div_left h2 (by decide)
    omega

end Tetl.C14.GenProps
