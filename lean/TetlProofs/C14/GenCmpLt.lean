/-
C14, tie T — cmp_less<T, U> for all 64 ordered pairs
WRITTEN by gen/c14_genprops.py (statements and proofs are uniform per family); re-checked against the regenerated
Tetl/C14/Gen.lean on every run of the C14 check.
-/
import TetlProofs.C14.GenArithLemmas
set_option linter.unusedSimpArgs false
set_option linter.unusedVariables false
namespace Tetl.C14.GenProps
open Tetl Tetl.C14 Tetl.CSem

theorem gen_cmp_less_u8_u8 (t u : Int) (ht : 0 ≤ t ∧ t < 256) (hu : 0 ≤ u ∧ u < 256) :
    Gen.cmp_less_u8_u8_ub t u = true ∧ Gen.cmp_less_u8_u8 t u = decide (t < u) ∧
    Gen.cmp_less_u8_u8 t u = Tetl.C14.cmpLess ⟨8, false⟩ ⟨8, false⟩ t u := by
  have h2 : Gen.cmp_less_u8_u8 t u = decide (t < u) := by
    simp only [Gen.cmp_less_u8_u8]; bool_fin
  exact ⟨rfl, h2, by rw [h2, Props.cmpLess_eq _ _ (by decide) (by decide) t u (inR_u8 t ht) (inR_u8 u hu)]⟩

theorem gen_cmp_less_u8_u16 (t u : Int) (ht : 0 ≤ t ∧ t < 256) (hu : 0 ≤ u ∧ u < 65536) :
    Gen.cmp_less_u8_u16_ub t u = true ∧ Gen.cmp_less_u8_u16 t u = decide (t < u) ∧
    Gen.cmp_less_u8_u16 t u = Tetl.C14.cmpLess ⟨8, false⟩ ⟨16, false⟩ t u := by
  have h2 : Gen.cmp_less_u8_u16 t u = decide (t < u) := by
    simp only [Gen.cmp_less_u8_u16]; bool_fin
  exact ⟨rfl, h2, by rw [h2, Props.cmpLess_eq _ _ (by decide) (by decide) t u (inR_u8 t ht) (inR_u16 u hu)]⟩

theorem gen_cmp_less_u8_u32 (t u : Int) (ht : 0 ≤ t ∧ t < 256) (hu : 0 ≤ u ∧ u < 4294967296) :
    Gen.cmp_less_u8_u32_ub t u = true ∧ Gen.cmp_less_u8_u32 t u = decide (t < u) ∧
    Gen.cmp_less_u8_u32 t u = Tetl.C14.cmpLess ⟨8, false⟩ ⟨32, false⟩ t u := by
  have h2 : Gen.cmp_less_u8_u32 t u = decide (t < u) := by
    simp only [Gen.cmp_less_u8_u32]; bool_fin
  exact ⟨rfl, h2, by rw [h2, Props.cmpLess_eq _ _ (by decide) (by decide) t u (inR_u8 t ht) (inR_u32 u hu)]⟩

theorem gen_cmp_less_u8_u64 (t u : Int) (ht : 0 ≤ t ∧ t < 256) (hu : 0 ≤ u ∧ u < 18446744073709551616) :
    Gen.cmp_less_u8_u64_ub t u = true ∧ Gen.cmp_less_u8_u64 t u = decide (t < u) ∧
    Gen.cmp_less_u8_u64 t u = Tetl.C14.cmpLess ⟨8, false⟩ ⟨64, false⟩ t u := by
  have h2 : Gen.cmp_less_u8_u64 t u = decide (t < u) := by
    simp only [Gen.cmp_less_u8_u64]; bool_fin
  exact ⟨rfl, h2, by rw [h2, Props.cmpLess_eq _ _ (by decide) (by decide) t u (inR_u8 t ht) (inR_u64 u hu)]⟩

theorem gen_cmp_less_u8_i8 (t u : Int) (ht : 0 ≤ t ∧ t < 256) (hu : -128 ≤ u ∧ u < 128) :
    Gen.cmp_less_u8_i8_ub t u = true ∧ Gen.cmp_less_u8_i8 t u = decide (t < u) ∧
    Gen.cmp_less_u8_i8 t u = Tetl.C14.cmpLess ⟨8, false⟩ ⟨8, true⟩ t u := by
  have h2 : Gen.cmp_less_u8_i8 t u = decide (t < u) := by
    simp only [Gen.cmp_less_u8_i8]; bool_fin
  exact ⟨rfl, h2, by rw [h2, Props.cmpLess_eq _ _ (by decide) (by decide) t u (inR_u8 t ht) (inR_i8 u hu)]⟩

theorem gen_cmp_less_u8_i16 (t u : Int) (ht : 0 ≤ t ∧ t < 256) (hu : -32768 ≤ u ∧ u < 32768) :
    Gen.cmp_less_u8_i16_ub t u = true ∧ Gen.cmp_less_u8_i16 t u = decide (t < u) ∧
    Gen.cmp_less_u8_i16 t u = Tetl.C14.cmpLess ⟨8, false⟩ ⟨16, true⟩ t u := by
  have h2 : Gen.cmp_less_u8_i16 t u = decide (t < u) := by
    simp only [Gen.cmp_less_u8_i16]; bool_fin
  exact ⟨rfl, h2, by rw [h2, Props.cmpLess_eq _ _ (by decide) (by decide) t u (inR_u8 t ht) (inR_i16 u hu)]⟩

theorem gen_cmp_less_u8_i32 (t u : Int) (ht : 0 ≤ t ∧ t < 256) (hu : -2147483648 ≤ u ∧ u < 2147483648) :
    Gen.cmp_less_u8_i32_ub t u = true ∧ Gen.cmp_less_u8_i32 t u = decide (t < u) ∧
    Gen.cmp_less_u8_i32 t u = Tetl.C14.cmpLess ⟨8, false⟩ ⟨32, true⟩ t u := by
  have h2 : Gen.cmp_less_u8_i32 t u = decide (t < u) := by
    simp only [Gen.cmp_less_u8_i32]; bool_fin
  exact ⟨rfl, h2, by rw [h2, Props.cmpLess_eq _ _ (by decide) (by decide) t u (inR_u8 t ht) (inR_i32 u hu)]⟩

theorem gen_cmp_less_u8_i64 (t u : Int) (ht : 0 ≤ t ∧ t < 256) (hu : -9223372036854775808 ≤ u ∧ u < 9223372036854775808) :
    Gen.cmp_less_u8_i64_ub t u = true ∧ Gen.cmp_less_u8_i64 t u = decide (t < u) ∧
    Gen.cmp_less_u8_i64 t u = Tetl.C14.cmpLess ⟨8, false⟩ ⟨64, true⟩ t u := by
  have h2 : Gen.cmp_less_u8_i64 t u = decide (t < u) := by
    simp only [Gen.cmp_less_u8_i64]; bool_fin
  exact ⟨rfl, h2, by rw [h2, Props.cmpLess_eq _ _ (by decide) (by decide) t u (inR_u8 t ht) (inR_i64 u hu)]⟩

theorem gen_cmp_less_u16_u8 (t u : Int) (ht : 0 ≤ t ∧ t < 65536) (hu : 0 ≤ u ∧ u < 256) :
    Gen.cmp_less_u16_u8_ub t u = true ∧ Gen.cmp_less_u16_u8 t u = decide (t < u) ∧
    Gen.cmp_less_u16_u8 t u = Tetl.C14.cmpLess ⟨16, false⟩ ⟨8, false⟩ t u := by
  have h2 : Gen.cmp_less_u16_u8 t u = decide (t < u) := by
    simp only [Gen.cmp_less_u16_u8]; bool_fin
  exact ⟨rfl, h2, by rw [h2, Props.cmpLess_eq _ _ (by decide) (by decide) t u (inR_u16 t ht) (inR_u8 u hu)]⟩

theorem gen_cmp_less_u16_u16 (t u : Int) (ht : 0 ≤ t ∧ t < 65536) (hu : 0 ≤ u ∧ u < 65536) :
    Gen.cmp_less_u16_u16_ub t u = true ∧ Gen.cmp_less_u16_u16 t u = decide (t < u) ∧
    Gen.cmp_less_u16_u16 t u = Tetl.C14.cmpLess ⟨16, false⟩ ⟨16, false⟩ t u := by
  have h2 : Gen.cmp_less_u16_u16 t u = decide (t < u) := by
    simp only [Gen.cmp_less_u16_u16]; bool_fin
  exact ⟨rfl, h2, by rw [h2, Props.cmpLess_eq _ _ (by decide) (by decide) t u (inR_u16 t ht) (inR_u16 u hu)]⟩

theorem gen_cmp_less_u16_u32 (t u : Int) (ht : 0 ≤ t ∧ t < 65536) (hu : 0 ≤ u ∧ u < 4294967296) :
    Gen.cmp_less_u16_u32_ub t u = true ∧ Gen.cmp_less_u16_u32 t u = decide (t < u) ∧
    Gen.cmp_less_u16_u32 t u = Tetl.C14.cmpLess ⟨16, false⟩ ⟨32, false⟩ t u := by
  have h2 : Gen.cmp_less_u16_u32 t u = decide (t < u) := by
    simp only [Gen.cmp_less_u16_u32]; bool_fin
  exact ⟨rfl, h2, by rw [h2, Props.cmpLess_eq _ _ (by decide) (by decide) t u (inR_u16 t ht) (inR_u32 u hu)]⟩

theorem gen_cmp_less_u16_u64 (t u : Int) (ht : 0 ≤ t ∧ t < 65536) (hu : 0 ≤ u ∧ u < 18446744073709551616) :
    Gen.cmp_less_u16_u64_ub t u = true ∧ Gen.cmp_less_u16_u64 t u = decide (t < u) ∧
    Gen.cmp_less_u16_u64 t u = Tetl.C14.cmpLess ⟨16, false⟩ ⟨64, false⟩ t u := by
  have h2 : Gen.cmp_less_u16_u64 t u = decide (t < u) := by
    simp only [Gen.cmp_less_u16_u64]; bool_fin
  exact ⟨rfl, h2, by rw [h2, Props.cmpLess_eq _ _ (by decide) (by decide) t u (inR_u16 t ht) (inR_u64 u hu)]⟩

theorem gen_cmp_less_u16_i8 (t u : Int) (ht : 0 ≤ t ∧ t < 65536) (hu : -128 ≤ u ∧ u < 128) :
    Gen.cmp_less_u16_i8_ub t u = true ∧ Gen.cmp_less_u16_i8 t u = decide (t < u) ∧
    Gen.cmp_less_u16_i8 t u = Tetl.C14.cmpLess ⟨16, false⟩ ⟨8, true⟩ t u := by
  have h2 : Gen.cmp_less_u16_i8 t u = decide (t < u) := by
    simp only [Gen.cmp_less_u16_i8]; bool_fin
  exact ⟨rfl, h2, by rw [h2, Props.cmpLess_eq _ _ (by decide) (by decide) t u (inR_u16 t ht) (inR_i8 u hu)]⟩

theorem gen_cmp_less_u16_i16 (t u : Int) (ht : 0 ≤ t ∧ t < 65536) (hu : -32768 ≤ u ∧ u < 32768) :
    Gen.cmp_less_u16_i16_ub t u = true ∧ Gen.cmp_less_u16_i16 t u = decide (t < u) ∧
    Gen.cmp_less_u16_i16 t u = Tetl.C14.cmpLess ⟨16, false⟩ ⟨16, true⟩ t u := by
  have h2 : Gen.cmp_less_u16_i16 t u = decide (t < u) := by
    simp only [Gen.cmp_less_u16_i16]; bool_fin
  exact ⟨rfl, h2, by rw [h2, Props.cmpLess_eq _ _ (by decide) (by decide) t u (inR_u16 t ht) (inR_i16 u hu)]⟩

theorem gen_cmp_less_u16_i32 (t u : Int) (ht : 0 ≤ t ∧ t < 65536) (hu : -2147483648 ≤ u ∧ u < 2147483648) :
    Gen.cmp_less_u16_i32_ub t u = true ∧ Gen.cmp_less_u16_i32 t u = decide (t < u) ∧
    Gen.cmp_less_u16_i32 t u = Tetl.C14.cmpLess ⟨16, false⟩ ⟨32, true⟩ t u := by
  have h2 : Gen.cmp_less_u16_i32 t u = decide (t < u) := by
    simp only [Gen.cmp_less_u16_i32]; bool_fin
  exact ⟨rfl, h2, by rw [h2, Props.cmpLess_eq _ _ (by decide) (by decide) t u (inR_u16 t ht) (inR_i32 u hu)]⟩

theorem gen_cmp_less_u16_i64 (t u : Int) (ht : 0 ≤ t ∧ t < 65536) (hu : -9223372036854775808 ≤ u ∧ u < 9223372036854775808) :
    Gen.cmp_less_u16_i64_ub t u = true ∧ Gen.cmp_less_u16_i64 t u = decide (t < u) ∧
    Gen.cmp_less_u16_i64 t u = Tetl.C14.cmpLess ⟨16, false⟩ ⟨64, true⟩ t u := by
  have h2 : Gen.cmp_less_u16_i64 t u = decide (t < u) := by
    simp only [Gen.cmp_less_u16_i64]; bool_fin
  exact ⟨rfl, h2, by rw [h2, Props.cmpLess_eq _ _ (by decide) (by decide) t u (inR_u16 t ht) (inR_i64 u hu)]⟩

theorem gen_cmp_less_u32_u8 (t u : Int) (ht : 0 ≤ t ∧ t < 4294967296) (hu : 0 ≤ u ∧ u < 256) :
    Gen.cmp_less_u32_u8_ub t u = true ∧ Gen.cmp_less_u32_u8 t u = decide (t < u) ∧
    Gen.cmp_less_u32_u8 t u = Tetl.C14.cmpLess ⟨32, false⟩ ⟨8, false⟩ t u := by
  have h2 : Gen.cmp_less_u32_u8 t u = decide (t < u) := by
    simp only [Gen.cmp_less_u32_u8]; bool_fin
  exact ⟨rfl, h2, by rw [h2, Props.cmpLess_eq _ _ (by decide) (by decide) t u (inR_u32 t ht) (inR_u8 u hu)]⟩

theorem gen_cmp_less_u32_u16 (t u : Int) (ht : 0 ≤ t ∧ t < 4294967296) (hu : 0 ≤ u ∧ u < 65536) :
    Gen.cmp_less_u32_u16_ub t u = true ∧ Gen.cmp_less_u32_u16 t u = decide (t < u) ∧
    Gen.cmp_less_u32_u16 t u = Tetl.C14.cmpLess ⟨32, false⟩ ⟨16, false⟩ t u := by
  have h2 : Gen.cmp_less_u32_u16 t u = decide (t < u) := by
    simp only [Gen.cmp_less_u32_u16]; bool_fin
  exact ⟨rfl, h2, by rw [h2, Props.cmpLess_eq _ _ (by decide) (by decide) t u (inR_u32 t ht) (inR_u16 u hu)]⟩

theorem gen_cmp_less_u32_u32 (t u : Int) (ht : 0 ≤ t ∧ t < 4294967296) (hu : 0 ≤ u ∧ u < 4294967296) :
    Gen.cmp_less_u32_u32_ub t u = true ∧ Gen.cmp_less_u32_u32 t u = decide (t < u) ∧
    Gen.cmp_less_u32_u32 t u = Tetl.C14.cmpLess ⟨32, false⟩ ⟨32, false⟩ t u := by
  have h2 : Gen.cmp_less_u32_u32 t u = decide (t < u) := by
    simp only [Gen.cmp_less_u32_u32]; bool_fin
  exact ⟨rfl, h2, by rw [h2, Props.cmpLess_eq _ _ (by decide) (by decide) t u (inR_u32 t ht) (inR_u32 u hu)]⟩

theorem gen_cmp_less_u32_u64 (t u : Int) (ht : 0 ≤ t ∧ t < 4294967296) (hu : 0 ≤ u ∧ u < 18446744073709551616) :
    Gen.cmp_less_u32_u64_ub t u = true ∧ Gen.cmp_less_u32_u64 t u = decide (t < u) ∧
    Gen.cmp_less_u32_u64 t u = Tetl.C14.cmpLess ⟨32, false⟩ ⟨64, false⟩ t u := by
  have h2 : Gen.cmp_less_u32_u64 t u = decide (t < u) := by
    simp only [Gen.cmp_less_u32_u64]; bool_fin
  exact ⟨rfl, h2, by rw [h2, Props.cmpLess_eq _ _ (by decide) (by decide) t u (inR_u32 t ht) (inR_u64 u hu)]⟩

theorem gen_cmp_less_u32_i8 (t u : Int) (ht : 0 ≤ t ∧ t < 4294967296) (hu : -128 ≤ u ∧ u < 128) :
    Gen.cmp_less_u32_i8_ub t u = true ∧ Gen.cmp_less_u32_i8 t u = decide (t < u) ∧
    Gen.cmp_less_u32_i8 t u = Tetl.C14.cmpLess ⟨32, false⟩ ⟨8, true⟩ t u := by
  have h2 : Gen.cmp_less_u32_i8 t u = decide (t < u) := by
    simp only [Gen.cmp_less_u32_i8]; bool_fin
  exact ⟨rfl, h2, by rw [h2, Props.cmpLess_eq _ _ (by decide) (by decide) t u (inR_u32 t ht) (inR_i8 u hu)]⟩

theorem gen_cmp_less_u32_i16 (t u : Int) (ht : 0 ≤ t ∧ t < 4294967296) (hu : -32768 ≤ u ∧ u < 32768) :
    Gen.cmp_less_u32_i16_ub t u = true ∧ Gen.cmp_less_u32_i16 t u = decide (t < u) ∧
    Gen.cmp_less_u32_i16 t u = Tetl.C14.cmpLess ⟨32, false⟩ ⟨16, true⟩ t u := by
  have h2 : Gen.cmp_less_u32_i16 t u = decide (t < u) := by
    simp only [Gen.cmp_less_u32_i16]; bool_fin
  exact ⟨rfl, h2, by rw [h2, Props.cmpLess_eq _ _ (by decide) (by decide) t u (inR_u32 t ht) (inR_i16 u hu)]⟩

theorem gen_cmp_less_u32_i32 (t u : Int) (ht : 0 ≤ t ∧ t < 4294967296) (hu : -2147483648 ≤ u ∧ u < 2147483648) :
    Gen.cmp_less_u32_i32_ub t u = true ∧ Gen.cmp_less_u32_i32 t u = decide (t < u) ∧
    Gen.cmp_less_u32_i32 t u = Tetl.C14.cmpLess ⟨32, false⟩ ⟨32, true⟩ t u := by
  have h2 : Gen.cmp_less_u32_i32 t u = decide (t < u) := by
    simp only [Gen.cmp_less_u32_i32]; bool_fin
  exact ⟨rfl, h2, by rw [h2, Props.cmpLess_eq _ _ (by decide) (by decide) t u (inR_u32 t ht) (inR_i32 u hu)]⟩

theorem gen_cmp_less_u32_i64 (t u : Int) (ht : 0 ≤ t ∧ t < 4294967296) (hu : -9223372036854775808 ≤ u ∧ u < 9223372036854775808) :
    Gen.cmp_less_u32_i64_ub t u = true ∧ Gen.cmp_less_u32_i64 t u = decide (t < u) ∧
    Gen.cmp_less_u32_i64 t u = Tetl.C14.cmpLess ⟨32, false⟩ ⟨64, true⟩ t u := by
  have h2 : Gen.cmp_less_u32_i64 t u = decide (t < u) := by
    simp only [Gen.cmp_less_u32_i64]; bool_fin
  exact ⟨rfl, h2, by rw [h2, Props.cmpLess_eq _ _ (by decide) (by decide) t u (inR_u32 t ht) (inR_i64 u hu)]⟩

theorem gen_cmp_less_u64_u8 (t u : Int) (ht : 0 ≤ t ∧ t < 18446744073709551616) (hu : 0 ≤ u ∧ u < 256) :
    Gen.cmp_less_u64_u8_ub t u = true ∧ Gen.cmp_less_u64_u8 t u = decide (t < u) ∧
    Gen.cmp_less_u64_u8 t u = Tetl.C14.cmpLess ⟨64, false⟩ ⟨8, false⟩ t u := by
  have h2 : Gen.cmp_less_u64_u8 t u = decide (t < u) := by
    simp only [Gen.cmp_less_u64_u8]; bool_fin
  exact ⟨rfl, h2, by rw [h2, Props.cmpLess_eq _ _ (by decide) (by decide) t u (inR_u64 t ht) (inR_u8 u hu)]⟩

theorem gen_cmp_less_u64_u16 (t u : Int) (ht : 0 ≤ t ∧ t < 18446744073709551616) (hu : 0 ≤ u ∧ u < 65536) :
    Gen.cmp_less_u64_u16_ub t u = true ∧ Gen.cmp_less_u64_u16 t u = decide (t < u) ∧
    Gen.cmp_less_u64_u16 t u = Tetl.C14.cmpLess ⟨64, false⟩ ⟨16, false⟩ t u := by
  have h2 : Gen.cmp_less_u64_u16 t u = decide (t < u) := by
    simp only [Gen.cmp_less_u64_u16]; bool_fin
  exact ⟨rfl, h2, by rw [h2, Props.cmpLess_eq _ _ (by decide) (by decide) t u (inR_u64 t ht) (inR_u16 u hu)]⟩

theorem gen_cmp_less_u64_u32 (t u : Int) (ht : 0 ≤ t ∧ t < 18446744073709551616) (hu : 0 ≤ u ∧ u < 4294967296) :
    Gen.cmp_less_u64_u32_ub t u = true ∧ Gen.cmp_less_u64_u32 t u = decide (t < u) ∧
    Gen.cmp_less_u64_u32 t u = Tetl.C14.cmpLess ⟨64, false⟩ ⟨32, false⟩ t u := by
  have h2 : Gen.cmp_less_u64_u32 t u = decide (t < u) := by
    simp only [Gen.cmp_less_u64_u32]; bool_fin
  exact ⟨rfl, h2, by rw [h2, Props.cmpLess_eq _ _ (by decide) (by decide) t u (inR_u64 t ht) (inR_u32 u hu)]⟩

theorem gen_cmp_less_u64_u64 (t u : Int) (ht : 0 ≤ t ∧ t < 18446744073709551616) (hu : 0 ≤ u ∧ u < 18446744073709551616) :
    Gen.cmp_less_u64_u64_ub t u = true ∧ Gen.cmp_less_u64_u64 t u = decide (t < u) ∧
    Gen.cmp_less_u64_u64 t u = Tetl.C14.cmpLess ⟨64, false⟩ ⟨64, false⟩ t u := by
  have h2 : Gen.cmp_less_u64_u64 t u = decide (t < u) := by
    simp only [Gen.cmp_less_u64_u64]; bool_fin
  exact ⟨rfl, h2, by rw [h2, Props.cmpLess_eq _ _ (by decide) (by decide) t u (inR_u64 t ht) (inR_u64 u hu)]⟩

theorem gen_cmp_less_u64_i8 (t u : Int) (ht : 0 ≤ t ∧ t < 18446744073709551616) (hu : -128 ≤ u ∧ u < 128) :
    Gen.cmp_less_u64_i8_ub t u = true ∧ Gen.cmp_less_u64_i8 t u = decide (t < u) ∧
    Gen.cmp_less_u64_i8 t u = Tetl.C14.cmpLess ⟨64, false⟩ ⟨8, true⟩ t u := by
  have h2 : Gen.cmp_less_u64_i8 t u = decide (t < u) := by
    simp only [Gen.cmp_less_u64_i8]; bool_fin
  exact ⟨rfl, h2, by rw [h2, Props.cmpLess_eq _ _ (by decide) (by decide) t u (inR_u64 t ht) (inR_i8 u hu)]⟩

theorem gen_cmp_less_u64_i16 (t u : Int) (ht : 0 ≤ t ∧ t < 18446744073709551616) (hu : -32768 ≤ u ∧ u < 32768) :
    Gen.cmp_less_u64_i16_ub t u = true ∧ Gen.cmp_less_u64_i16 t u = decide (t < u) ∧
    Gen.cmp_less_u64_i16 t u = Tetl.C14.cmpLess ⟨64, false⟩ ⟨16, true⟩ t u := by
  have h2 : Gen.cmp_less_u64_i16 t u = decide (t < u) := by
    simp only [Gen.cmp_less_u64_i16]; bool_fin
  exact ⟨rfl, h2, by rw [h2, Props.cmpLess_eq _ _ (by decide) (by decide) t u (inR_u64 t ht) (inR_i16 u hu)]⟩

theorem gen_cmp_less_u64_i32 (t u : Int) (ht : 0 ≤ t ∧ t < 18446744073709551616) (hu : -2147483648 ≤ u ∧ u < 2147483648) :
    Gen.cmp_less_u64_i32_ub t u = true ∧ Gen.cmp_less_u64_i32 t u = decide (t < u) ∧
    Gen.cmp_less_u64_i32 t u = Tetl.C14.cmpLess ⟨64, false⟩ ⟨32, true⟩ t u := by
  have h2 : Gen.cmp_less_u64_i32 t u = decide (t < u) := by
    simp only [Gen.cmp_less_u64_i32]; bool_fin
  exact ⟨rfl, h2, by rw [h2, Props.cmpLess_eq _ _ (by decide) (by decide) t u (inR_u64 t ht) (inR_i32 u hu)]⟩

theorem gen_cmp_less_u64_i64 (t u : Int) (ht : 0 ≤ t ∧ t < 18446744073709551616) (hu : -9223372036854775808 ≤ u ∧ u < 9223372036854775808) :
    Gen.cmp_less_u64_i64_ub t u = true ∧ Gen.cmp_less_u64_i64 t u = decide (t < u) ∧
    Gen.cmp_less_u64_i64 t u = Tetl.C14.cmpLess ⟨64, false⟩ ⟨64, true⟩ t u := by
  have h2 : Gen.cmp_less_u64_i64 t u = decide (t < u) := by
    simp only [Gen.cmp_less_u64_i64]; bool_fin
  exact ⟨rfl, h2, by rw [h2, Props.cmpLess_eq _ _ (by decide) (by decide) t u (inR_u64 t ht) (inR_i64 u hu)]⟩

theorem gen_cmp_less_i8_u8 (t u : Int) (ht : -128 ≤ t ∧ t < 128) (hu : 0 ≤ u ∧ u < 256) :
    Gen.cmp_less_i8_u8_ub t u = true ∧ Gen.cmp_less_i8_u8 t u = decide (t < u) ∧
    Gen.cmp_less_i8_u8 t u = Tetl.C14.cmpLess ⟨8, true⟩ ⟨8, false⟩ t u := by
  have h2 : Gen.cmp_less_i8_u8 t u = decide (t < u) := by
    simp only [Gen.cmp_less_i8_u8]; bool_fin
  exact ⟨rfl, h2, by rw [h2, Props.cmpLess_eq _ _ (by decide) (by decide) t u (inR_i8 t ht) (inR_u8 u hu)]⟩

theorem gen_cmp_less_i8_u16 (t u : Int) (ht : -128 ≤ t ∧ t < 128) (hu : 0 ≤ u ∧ u < 65536) :
    Gen.cmp_less_i8_u16_ub t u = true ∧ Gen.cmp_less_i8_u16 t u = decide (t < u) ∧
    Gen.cmp_less_i8_u16 t u = Tetl.C14.cmpLess ⟨8, true⟩ ⟨16, false⟩ t u := by
  have h2 : Gen.cmp_less_i8_u16 t u = decide (t < u) := by
    simp only [Gen.cmp_less_i8_u16]; bool_fin
  exact ⟨rfl, h2, by rw [h2, Props.cmpLess_eq _ _ (by decide) (by decide) t u (inR_i8 t ht) (inR_u16 u hu)]⟩

theorem gen_cmp_less_i8_u32 (t u : Int) (ht : -128 ≤ t ∧ t < 128) (hu : 0 ≤ u ∧ u < 4294967296) :
    Gen.cmp_less_i8_u32_ub t u = true ∧ Gen.cmp_less_i8_u32 t u = decide (t < u) ∧
    Gen.cmp_less_i8_u32 t u = Tetl.C14.cmpLess ⟨8, true⟩ ⟨32, false⟩ t u := by
  have h2 : Gen.cmp_less_i8_u32 t u = decide (t < u) := by
    simp only [Gen.cmp_less_i8_u32]; bool_fin
  exact ⟨rfl, h2, by rw [h2, Props.cmpLess_eq _ _ (by decide) (by decide) t u (inR_i8 t ht) (inR_u32 u hu)]⟩

theorem gen_cmp_less_i8_u64 (t u : Int) (ht : -128 ≤ t ∧ t < 128) (hu : 0 ≤ u ∧ u < 18446744073709551616) :
    Gen.cmp_less_i8_u64_ub t u = true ∧ Gen.cmp_less_i8_u64 t u = decide (t < u) ∧
    Gen.cmp_less_i8_u64 t u = Tetl.C14.cmpLess ⟨8, true⟩ ⟨64, false⟩ t u := by
  have h2 : Gen.cmp_less_i8_u64 t u = decide (t < u) := by
    simp only [Gen.cmp_less_i8_u64]; bool_fin
  exact ⟨rfl, h2, by rw [h2, Props.cmpLess_eq _ _ (by decide) (by decide) t u (inR_i8 t ht) (inR_u64 u hu)]⟩

theorem gen_cmp_less_i8_i8 (t u : Int) (ht : -128 ≤ t ∧ t < 128) (hu : -128 ≤ u ∧ u < 128) :
    Gen.cmp_less_i8_i8_ub t u = true ∧ Gen.cmp_less_i8_i8 t u = decide (t < u) ∧
    Gen.cmp_less_i8_i8 t u = Tetl.C14.cmpLess ⟨8, true⟩ ⟨8, true⟩ t u := by
  have h2 : Gen.cmp_less_i8_i8 t u = decide (t < u) := by
    simp only [Gen.cmp_less_i8_i8]; bool_fin
  exact ⟨rfl, h2, by rw [h2, Props.cmpLess_eq _ _ (by decide) (by decide) t u (inR_i8 t ht) (inR_i8 u hu)]⟩

theorem gen_cmp_less_i8_i16 (t u : Int) (ht : -128 ≤ t ∧ t < 128) (hu : -32768 ≤ u ∧ u < 32768) :
    Gen.cmp_less_i8_i16_ub t u = true ∧ Gen.cmp_less_i8_i16 t u = decide (t < u) ∧
    Gen.cmp_less_i8_i16 t u = Tetl.C14.cmpLess ⟨8, true⟩ ⟨16, true⟩ t u := by
  have h2 : Gen.cmp_less_i8_i16 t u = decide (t < u) := by
    simp only [Gen.cmp_less_i8_i16]; bool_fin
  exact ⟨rfl, h2, by rw [h2, Props.cmpLess_eq _ _ (by decide) (by decide) t u (inR_i8 t ht) (inR_i16 u hu)]⟩

theorem gen_cmp_less_i8_i32 (t u : Int) (ht : -128 ≤ t ∧ t < 128) (hu : -2147483648 ≤ u ∧ u < 2147483648) :
    Gen.cmp_less_i8_i32_ub t u = true ∧ Gen.cmp_less_i8_i32 t u = decide (t < u) ∧
    Gen.cmp_less_i8_i32 t u = Tetl.C14.cmpLess ⟨8, true⟩ ⟨32, true⟩ t u := by
  have h2 : Gen.cmp_less_i8_i32 t u = decide (t < u) := by
    simp only [Gen.cmp_less_i8_i32]; bool_fin
  exact ⟨rfl, h2, by rw [h2, Props.cmpLess_eq _ _ (by decide) (by decide) t u (inR_i8 t ht) (inR_i32 u hu)]⟩

theorem gen_cmp_less_i8_i64 (t u : Int) (ht : -128 ≤ t ∧ t < 128) (hu : -9223372036854775808 ≤ u ∧ u < 9223372036854775808) :
    Gen.cmp_less_i8_i64_ub t u = true ∧ Gen.cmp_less_i8_i64 t u = decide (t < u) ∧
    Gen.cmp_less_i8_i64 t u = Tetl.C14.cmpLess ⟨8, true⟩ ⟨64, true⟩ t u := by
  have h2 : Gen.cmp_less_i8_i64 t u = decide (t < u) := by
    simp only [Gen.cmp_less_i8_i64]; bool_fin
  exact ⟨rfl, h2, by rw [h2, Props.cmpLess_eq _ _ (by decide) (by decide) t u (inR_i8 t ht) (inR_i64 u hu)]⟩

theorem gen_cmp_less_i16_u8 (t u : Int) (ht : -32768 ≤ t ∧ t < 32768) (hu : 0 ≤ u ∧ u < 256) :
    Gen.cmp_less_i16_u8_ub t u = true ∧ Gen.cmp_less_i16_u8 t u = decide (t < u) ∧
    Gen.cmp_less_i16_u8 t u = Tetl.C14.cmpLess ⟨16, true⟩ ⟨8, false⟩ t u := by
  have h2 : Gen.cmp_less_i16_u8 t u = decide (t < u) := by
    simp only [Gen.cmp_less_i16_u8]; bool_fin
  exact ⟨rfl, h2, by rw [h2, Props.cmpLess_eq _ _ (by decide) (by decide) t u (inR_i16 t ht) (inR_u8 u hu)]⟩

theorem gen_cmp_less_i16_u16 (t u : Int) (ht : -32768 ≤ t ∧ t < 32768) (hu : 0 ≤ u ∧ u < 65536) :
    Gen.cmp_less_i16_u16_ub t u = true ∧ Gen.cmp_less_i16_u16 t u = decide (t < u) ∧
    Gen.cmp_less_i16_u16 t u = Tetl.C14.cmpLess ⟨16, true⟩ ⟨16, false⟩ t u := by
  have h2 : Gen.cmp_less_i16_u16 t u = decide (t < u) := by
    simp only [Gen.cmp_less_i16_u16]; bool_fin
  exact ⟨rfl, h2, by rw [h2, Props.cmpLess_eq _ _ (by decide) (by decide) t u (inR_i16 t ht) (inR_u16 u hu)]⟩

theorem gen_cmp_less_i16_u32 (t u : Int) (ht : -32768 ≤ t ∧ t < 32768) (hu : 0 ≤ u ∧ u < 4294967296) :
    Gen.cmp_less_i16_u32_ub t u = true ∧ Gen.cmp_less_i16_u32 t u = decide (t < u) ∧
    Gen.cmp_less_i16_u32 t u = Tetl.C14.cmpLess ⟨16, true⟩ ⟨32, false⟩ t u := by
  have h2 : Gen.cmp_less_i16_u32 t u = decide (t < u) := by
    simp only [Gen.cmp_less_i16_u32]; bool_fin
  exact ⟨rfl, h2, by rw [h2, Props.cmpLess_eq _ _ (by decide) (by decide) t u (inR_i16 t ht) (inR_u32 u hu)]⟩

theorem gen_cmp_less_i16_u64 (t u : Int) (ht : -32768 ≤ t ∧ t < 32768) (hu : 0 ≤ u ∧ u < 18446744073709551616) :
    Gen.cmp_less_i16_u64_ub t u = true ∧ Gen.cmp_less_i16_u64 t u = decide (t < u) ∧
    Gen.cmp_less_i16_u64 t u = Tetl.C14.cmpLess ⟨16, true⟩ ⟨64, false⟩ t u := by
  have h2 : Gen.cmp_less_i16_u64 t u = decide (t < u) := by
    simp only [Gen.cmp_less_i16_u64]; bool_fin
  exact ⟨rfl, h2, by rw [h2, Props.cmpLess_eq _ _ (by decide) (by decide) t u (inR_i16 t ht) (inR_u64 u hu)]⟩

theorem gen_cmp_less_i16_i8 (t u : Int) (ht : -32768 ≤ t ∧ t < 32768) (hu : -128 ≤ u ∧ u < 128) :
    Gen.cmp_less_i16_i8_ub t u = true ∧ Gen.cmp_less_i16_i8 t u = decide (t < u) ∧
    Gen.cmp_less_i16_i8 t u = Tetl.C14.cmpLess ⟨16, true⟩ ⟨8, true⟩ t u := by
  have h2 : Gen.cmp_less_i16_i8 t u = decide (t < u) := by
    simp only [Gen.cmp_less_i16_i8]; bool_fin
  exact ⟨rfl, h2, by rw [h2, Props.cmpLess_eq _ _ (by decide) (by decide) t u (inR_i16 t ht) (inR_i8 u hu)]⟩

theorem gen_cmp_less_i16_i16 (t u : Int) (ht : -32768 ≤ t ∧ t < 32768) (hu : -32768 ≤ u ∧ u < 32768) :
    Gen.cmp_less_i16_i16_ub t u = true ∧ Gen.cmp_less_i16_i16 t u = decide (t < u) ∧
    Gen.cmp_less_i16_i16 t u = Tetl.C14.cmpLess ⟨16, true⟩ ⟨16, true⟩ t u := by
  have h2 : Gen.cmp_less_i16_i16 t u = decide (t < u) := by
    simp only [Gen.cmp_less_i16_i16]; bool_fin
  exact ⟨rfl, h2, by rw [h2, Props.cmpLess_eq _ _ (by decide) (by decide) t u (inR_i16 t ht) (inR_i16 u hu)]⟩

theorem gen_cmp_less_i16_i32 (t u : Int) (ht : -32768 ≤ t ∧ t < 32768) (hu : -2147483648 ≤ u ∧ u < 2147483648) :
    Gen.cmp_less_i16_i32_ub t u = true ∧ Gen.cmp_less_i16_i32 t u = decide (t < u) ∧
    Gen.cmp_less_i16_i32 t u = Tetl.C14.cmpLess ⟨16, true⟩ ⟨32, true⟩ t u := by
  have h2 : Gen.cmp_less_i16_i32 t u = decide (t < u) := by
    simp only [Gen.cmp_less_i16_i32]; bool_fin
  exact ⟨rfl, h2, by rw [h2, Props.cmpLess_eq _ _ (by decide) (by decide) t u (inR_i16 t ht) (inR_i32 u hu)]⟩

theorem gen_cmp_less_i16_i64 (t u : Int) (ht : -32768 ≤ t ∧ t < 32768) (hu : -9223372036854775808 ≤ u ∧ u < 9223372036854775808) :
    Gen.cmp_less_i16_i64_ub t u = true ∧ Gen.cmp_less_i16_i64 t u = decide (t < u) ∧
    Gen.cmp_less_i16_i64 t u = Tetl.C14.cmpLess ⟨16, true⟩ ⟨64, true⟩ t u := by
  have h2 : Gen.cmp_less_i16_i64 t u = decide (t < u) := by
    simp only [Gen.cmp_less_i16_i64]; bool_fin
  exact ⟨rfl, h2, by rw [h2, Props.cmpLess_eq _ _ (by decide) (by decide) t u (inR_i16 t ht) (inR_i64 u hu)]⟩

theorem gen_cmp_less_i32_u8 (t u : Int) (ht : -2147483648 ≤ t ∧ t < 2147483648) (hu : 0 ≤ u ∧ u < 256) :
    Gen.cmp_less_i32_u8_ub t u = true ∧ Gen.cmp_less_i32_u8 t u = decide (t < u) ∧
    Gen.cmp_less_i32_u8 t u = Tetl.C14.cmpLess ⟨32, true⟩ ⟨8, false⟩ t u := by
  have h2 : Gen.cmp_less_i32_u8 t u = decide (t < u) := by
    simp only [Gen.cmp_less_i32_u8]; bool_fin
  exact ⟨rfl, h2, by rw [h2, Props.cmpLess_eq _ _ (by decide) (by decide) t u (inR_i32 t ht) (inR_u8 u hu)]⟩

theorem gen_cmp_less_i32_u16 (t u : Int) (ht : -2147483648 ≤ t ∧ t < 2147483648) (hu : 0 ≤ u ∧ u < 65536) :
    Gen.cmp_less_i32_u16_ub t u = true ∧ Gen.cmp_less_i32_u16 t u = decide (t < u) ∧
    Gen.cmp_less_i32_u16 t u = Tetl.C14.cmpLess ⟨32, true⟩ ⟨16, false⟩ t u := by
  have h2 : Gen.cmp_less_i32_u16 t u = decide (t < u) := by
    simp only [Gen.cmp_less_i32_u16]; bool_fin
  exact ⟨rfl, h2, by rw [h2, Props.cmpLess_eq _ _ (by decide) (by decide) t u (inR_i32 t ht) (inR_u16 u hu)]⟩

theorem gen_cmp_less_i32_u32 (t u : Int) (ht : -2147483648 ≤ t ∧ t < 2147483648) (hu : 0 ≤ u ∧ u < 4294967296) :
    Gen.cmp_less_i32_u32_ub t u = true ∧ Gen.cmp_less_i32_u32 t u = decide (t < u) ∧
    Gen.cmp_less_i32_u32 t u = Tetl.C14.cmpLess ⟨32, true⟩ ⟨32, false⟩ t u := by
  have h2 : Gen.cmp_less_i32_u32 t u = decide (t < u) := by
    simp only [Gen.cmp_less_i32_u32]; bool_fin
  exact ⟨rfl, h2, by rw [h2, Props.cmpLess_eq _ _ (by decide) (by decide) t u (inR_i32 t ht) (inR_u32 u hu)]⟩

theorem gen_cmp_less_i32_u64 (t u : Int) (ht : -2147483648 ≤ t ∧ t < 2147483648) (hu : 0 ≤ u ∧ u < 18446744073709551616) :
    Gen.cmp_less_i32_u64_ub t u = true ∧ Gen.cmp_less_i32_u64 t u = decide (t < u) ∧
    Gen.cmp_less_i32_u64 t u = Tetl.C14.cmpLess ⟨32, true⟩ ⟨64, false⟩ t u := by
  have h2 : Gen.cmp_less_i32_u64 t u = decide (t < u) := by
    simp only [Gen.cmp_less_i32_u64]; bool_fin
  exact ⟨rfl, h2, by rw [h2, Props.cmpLess_eq _ _ (by decide) (by decide) t u (inR_i32 t ht) (inR_u64 u hu)]⟩

theorem gen_cmp_less_i32_i8 (t u : Int) (ht : -2147483648 ≤ t ∧ t < 2147483648) (hu : -128 ≤ u ∧ u < 128) :
    Gen.cmp_less_i32_i8_ub t u = true ∧ Gen.cmp_less_i32_i8 t u = decide (t < u) ∧
    Gen.cmp_less_i32_i8 t u = Tetl.C14.cmpLess ⟨32, true⟩ ⟨8, true⟩ t u := by
  have h2 : Gen.cmp_less_i32_i8 t u = decide (t < u) := by
    simp only [Gen.cmp_less_i32_i8]; bool_fin
  exact ⟨rfl, h2, by rw [h2, Props.cmpLess_eq _ _ (by decide) (by decide) t u (inR_i32 t ht) (inR_i8 u hu)]⟩

theorem gen_cmp_less_i32_i16 (t u : Int) (ht : -2147483648 ≤ t ∧ t < 2147483648) (hu : -32768 ≤ u ∧ u < 32768) :
    Gen.cmp_less_i32_i16_ub t u = true ∧ Gen.cmp_less_i32_i16 t u = decide (t < u) ∧
    Gen.cmp_less_i32_i16 t u = Tetl.C14.cmpLess ⟨32, true⟩ ⟨16, true⟩ t u := by
  have h2 : Gen.cmp_less_i32_i16 t u = decide (t < u) := by
    simp only [Gen.cmp_less_i32_i16]; bool_fin
  exact ⟨rfl, h2, by rw [h2, Props.cmpLess_eq _ _ (by decide) (by decide) t u (inR_i32 t ht) (inR_i16 u hu)]⟩

theorem gen_cmp_less_i32_i32 (t u : Int) (ht : -2147483648 ≤ t ∧ t < 2147483648) (hu : -2147483648 ≤ u ∧ u < 2147483648) :
    Gen.cmp_less_i32_i32_ub t u = true ∧ Gen.cmp_less_i32_i32 t u = decide (t < u) ∧
    Gen.cmp_less_i32_i32 t u = Tetl.C14.cmpLess ⟨32, true⟩ ⟨32, true⟩ t u := by
  have h2 : Gen.cmp_less_i32_i32 t u = decide (t < u) := by
    simp only [Gen.cmp_less_i32_i32]; bool_fin
  exact ⟨rfl, h2, by rw [h2, Props.cmpLess_eq _ _ (by decide) (by decide) t u (inR_i32 t ht) (inR_i32 u hu)]⟩

theorem gen_cmp_less_i32_i64 (t u : Int) (ht : -2147483648 ≤ t ∧ t < 2147483648) (hu : -9223372036854775808 ≤ u ∧ u < 9223372036854775808) :
    Gen.cmp_less_i32_i64_ub t u = true ∧ Gen.cmp_less_i32_i64 t u = decide (t < u) ∧
    Gen.cmp_less_i32_i64 t u = Tetl.C14.cmpLess ⟨32, true⟩ ⟨64, true⟩ t u := by
  have h2 : Gen.cmp_less_i32_i64 t u = decide (t < u) := by
    simp only [Gen.cmp_less_i32_i64]; bool_fin
  exact ⟨rfl, h2, by rw [h2, Props.cmpLess_eq _ _ (by decide) (by decide) t u (inR_i32 t ht) (inR_i64 u hu)]⟩

theorem gen_cmp_less_i64_u8 (t u : Int) (ht : -9223372036854775808 ≤ t ∧ t < 9223372036854775808) (hu : 0 ≤ u ∧ u < 256) :
    Gen.cmp_less_i64_u8_ub t u = true ∧ Gen.cmp_less_i64_u8 t u = decide (t < u) ∧
    Gen.cmp_less_i64_u8 t u = Tetl.C14.cmpLess ⟨64, true⟩ ⟨8, false⟩ t u := by
  have h2 : Gen.cmp_less_i64_u8 t u = decide (t < u) := by
    simp only [Gen.cmp_less_i64_u8]; bool_fin
  exact ⟨rfl, h2, by rw [h2, Props.cmpLess_eq _ _ (by decide) (by decide) t u (inR_i64 t ht) (inR_u8 u hu)]⟩

theorem gen_cmp_less_i64_u16 (t u : Int) (ht : -9223372036854775808 ≤ t ∧ t < 9223372036854775808) (hu : 0 ≤ u ∧ u < 65536) :
    Gen.cmp_less_i64_u16_ub t u = true ∧ Gen.cmp_less_i64_u16 t u = decide (t < u) ∧
    Gen.cmp_less_i64_u16 t u = Tetl.C14.cmpLess ⟨64, true⟩ ⟨16, false⟩ t u := by
  have h2 : Gen.cmp_less_i64_u16 t u = decide (t < u) := by
    simp only [Gen.cmp_less_i64_u16]; bool_fin
  exact ⟨rfl, h2, by rw [h2, Props.cmpLess_eq _ _ (by decide) (by decide) t u (inR_i64 t ht) (inR_u16 u hu)]⟩

theorem gen_cmp_less_i64_u32 (t u : Int) (ht : -9223372036854775808 ≤ t ∧ t < 9223372036854775808) (hu : 0 ≤ u ∧ u < 4294967296) :
    Gen.cmp_less_i64_u32_ub t u = true ∧ Gen.cmp_less_i64_u32 t u = decide (t < u) ∧
    Gen.cmp_less_i64_u32 t u = Tetl.C14.cmpLess ⟨64, true⟩ ⟨32, false⟩ t u := by
  have h2 : Gen.cmp_less_i64_u32 t u = decide (t < u) := by
    simp only [Gen.cmp_less_i64_u32]; bool_fin
  exact ⟨rfl, h2, by rw [h2, Props.cmpLess_eq _ _ (by decide) (by decide) t u (inR_i64 t ht) (inR_u32 u hu)]⟩

theorem gen_cmp_less_i64_u64 (t u : Int) (ht : -9223372036854775808 ≤ t ∧ t < 9223372036854775808) (hu : 0 ≤ u ∧ u < 18446744073709551616) :
    Gen.cmp_less_i64_u64_ub t u = true ∧ Gen.cmp_less_i64_u64 t u = decide (t < u) ∧
    Gen.cmp_less_i64_u64 t u = Tetl.C14.cmpLess ⟨64, true⟩ ⟨64, false⟩ t u := by
  have h2 : Gen.cmp_less_i64_u64 t u = decide (t < u) := by
    simp only [Gen.cmp_less_i64_u64]; bool_fin
  exact ⟨rfl, h2, by rw [h2, Props.cmpLess_eq _ _ (by decide) (by decide) t u (inR_i64 t ht) (inR_u64 u hu)]⟩

theorem gen_cmp_less_i64_i8 (t u : Int) (ht : -9223372036854775808 ≤ t ∧ t < 9223372036854775808) (hu : -128 ≤ u ∧ u < 128) :
    Gen.cmp_less_i64_i8_ub t u = true ∧ Gen.cmp_less_i64_i8 t u = decide (t < u) ∧
    Gen.cmp_less_i64_i8 t u = Tetl.C14.cmpLess ⟨64, true⟩ ⟨8, true⟩ t u := by
  have h2 : Gen.cmp_less_i64_i8 t u = decide (t < u) := by
    simp only [Gen.cmp_less_i64_i8]; bool_fin
  exact ⟨rfl, h2, by rw [h2, Props.cmpLess_eq _ _ (by decide) (by decide) t u (inR_i64 t ht) (inR_i8 u hu)]⟩

theorem gen_cmp_less_i64_i16 (t u : Int) (ht : -9223372036854775808 ≤ t ∧ t < 9223372036854775808) (hu : -32768 ≤ u ∧ u < 32768) :
    Gen.cmp_less_i64_i16_ub t u = true ∧ Gen.cmp_less_i64_i16 t u = decide (t < u) ∧
    Gen.cmp_less_i64_i16 t u = Tetl.C14.cmpLess ⟨64, true⟩ ⟨16, true⟩ t u := by
  have h2 : Gen.cmp_less_i64_i16 t u = decide (t < u) := by
    simp only [Gen.cmp_less_i64_i16]; bool_fin
  exact ⟨rfl, h2, by rw [h2, Props.cmpLess_eq _ _ (by decide) (by decide) t u (inR_i64 t ht) (inR_i16 u hu)]⟩

theorem gen_cmp_less_i64_i32 (t u : Int) (ht : -9223372036854775808 ≤ t ∧ t < 9223372036854775808) (hu : -2147483648 ≤ u ∧ u < 2147483648) :
    Gen.cmp_less_i64_i32_ub t u = true ∧ Gen.cmp_less_i64_i32 t u = decide (t < u) ∧
    Gen.cmp_less_i64_i32 t u = Tetl.C14.cmpLess ⟨64, true⟩ ⟨32, true⟩ t u := by
  have h2 : Gen.cmp_less_i64_i32 t u = decide (t < u) := by
    simp only [Gen.cmp_less_i64_i32]; bool_fin
  exact ⟨rfl, h2, by rw [h2, Props.cmpLess_eq _ _ (by decide) (by decide) t u (inR_i64 t ht) (inR_i32 u hu)]⟩

theorem gen_cmp_less_i64_i64 (t u : Int) (ht : -9223372036854775808 ≤ t ∧ t < 9223372036854775808) (hu : -9223372036854775808 ≤ u ∧ u < 9223372036854775808) :
    Gen.cmp_less_i64_i64_ub t u = true ∧ Gen.cmp_less_i64_i64 t u = decide (t < u) ∧
    Gen.cmp_less_i64_i64 t u = Tetl.C14.cmpLess ⟨64, true⟩ ⟨64, true⟩ t u := by
  have h2 : Gen.cmp_less_i64_i64 t u = decide (t < u) := by
    simp only [Gen.cmp_less_i64_i64]; bool_fin
  exact ⟨rfl, h2, by rw [h2, Props.cmpLess_eq _ _ (by decide) (by decide) t u (inR_i64 t ht) (inR_i64 u hu)]⟩

end Tetl.C14.GenProps
