import TetlProofs.C14.Lemmas
namespace Tetl.C14.Props
open Tetl Tetl.C14

/-- Euclid's loop computes the greatest common divisor. -/
theorem gcdLoop_eq_gcd (a b : Nat) : gcdLoop a b = Nat.gcd a b := Tetl.C14.gcdLoop_eq a b

end Tetl.C14.Props
