/-
C14 — property theorems.  Every statement is for an arbitrary bit width `w` (an arbitrary type
`⟨w, signed⟩`) and for all arguments of the documented domain; `= .ok v` says at once that the
model — which carries every C++ conversion, promotion, shift-count and signed-overflow condition
explicitly — never reaches undefined behaviour / an overflow-dependent result (`.error`) and that
it returns exactly the mathematical value `v` of `Tetl.C14.Spec`.

Hypotheses are the documented preconditions only:
  `1 ≤ w`            the type has at least one bit;
  `t.inR x`          the argument is a value of its type;
  `x < 2^w`          the same for the unsigned-only <bit> functions (values are `Nat`);
  `(w:Int) ∣ 2^32`   rotl/rotr: the width divides 2^32 (true for 8/16/32/64; the `unsigned(s) % digits`
                     reduction of the source is only correct then — see `rotl_needs_dvd_counterexample`);
  `w ≤ 16 ∨ 32 ≤ w`  midpoint: a type narrower than `int` has at most 16 bits (so `a + half` is exact in `int`);
  `pos < w`          test/set/reset/flip_bit: the bit position is smaller than the width — exactly the
                     `TETL_PRECONDITION(pos < static_cast<UInt>(digits))` of the source (`bitPos_pre_iff`; for
                     `pos ≥ w` the model reports the failed precondition: `bitPos_pre_fails`); no restriction on `w`;
  `w = 16 ∨ 32 ∨ 64` byteswap (plus 8) / `w = 8 ∨ 16 ∨ 32` ntoh, hton: the overloads that exist;
  ipow `t.inR (base ^ e)`: the result is representable (and `t.inR 1`: so is the literal `Int(1)`);
  bit_ceil `x ≤ 2^(w-1)`, gcd/lcm `|m|,|n|` (and the lcm) representable in the common type, abs `x ≠ min`:
                     the preconditions of the C++ standard.
Each theorem with hypotheses is followed by an `example` instantiating it on a non-trivial value.
-/
import TetlProofs.C14.Lemmas
import TetlProofs.C14.Count
import TetlProofs.C14.BitOps
import TetlProofs.C14.Bswap
import TetlProofs.C14.Ipow
namespace Tetl.C14.Props
open Tetl Tetl.C14

/-! ## builtin vs portable fallback: popcount, countl_zero, add_sat -/

/-- `detail::popcount_fallback` (Kernighan's loop) returns the number of 1 bits; `popcount`'s
    constant-evaluated path is this function, its run-time path a compiler builtin. -/
theorem popcountFallback_eq (w val : Nat) (hv : val < 2^w) :
    popcountFallback w val = .ok (Spec.popcount w val) := by
  unfold popcountFallback; rw [popLoop_eq w val 0 hv]; simp

theorem popcount_eq (w val : Nat) (hv : val < 2^w) : popcount w val = .ok (Spec.popcount w val) :=
  popcountFallback_eq w val hv

example : popcount 8 0xB5 = .ok (Spec.popcount 8 0xB5) := popcount_eq 8 0xB5 (by decide)


/-- `countl_zero`: the shift loop stops within `w` rounds and returns `w - bit_width(x)`. -/
theorem countlZero_eq (w x : Nat) (hw : 1 ≤ w) (hx : x < 2^w) :
    countlZero w x = .ok (Spec.countlZero w x) := by
  unfold countlZero Spec.countlZero
  by_cases h : x = 0
  · subst h; simp [Spec.bitWidth]
  · simp only [beq_iff_eq, h, if_false]
    rw [clzLoop_eq w hw w x 0 (by omega) hx]
    · simp
    · have : 1 ≤ Spec.bitWidth x := by unfold Spec.bitWidth; simp [h]
      omega

example : countlZero 16 0x01F0 = .ok (Spec.countlZero 16 0x01F0) := countlZero_eq 16 0x01F0 (by decide) (by decide)

/-- `bit_width(x) = 0` for 0, else `1 + floor(log2 x)`. -/
theorem bitWidth_eq (w x : Nat) (hw : 1 ≤ w) (hx : x < 2^w) : bitWidth w x = .ok (Spec.bitWidth x) := by
  unfold bitWidth
  rw [countlZero_eq w x hw hx]
  have := (bw_le x w).2 hx
  simp only [ok_bind, Spec.countlZero]
  congr 1; omega

example : bitWidth 32 0x00012345 = .ok (Spec.bitWidth 0x00012345) := bitWidth_eq 32 _ (by decide) (by decide)

/-- `bit_floor`: largest power of two `≤ x` (0 for 0); the shift count is in range. -/
theorem bitFloor_eq (w x : Nat) (hw : 1 ≤ w) (hx : x < 2^w) : bitFloor w x = .ok (Spec.bitFloor x) := by
  unfold bitFloor Spec.bitFloor
  by_cases h : x = 0
  · simp [h]
  · simp only [bne_iff_ne, ne_eq, h, not_false_eq_true, if_true, if_false]
    rw [bitWidth_eq w x hw hx]
    simp only [ok_bind]
    have hbw := (bw_le x w).2 hx
    have hb1 : Spec.bitWidth x = Nat.log2 x + 1 := by unfold Spec.bitWidth; simp [h]
    have hlt : Spec.bitWidth x < 2^w := Nat.lt_of_le_of_lt hbw Nat.lt_two_pow_self
    have hsh : (ITy.conv ⟨w, false⟩ (((Spec.bitWidth x % 2^w : Nat) : Int) - 1)).toNat = Nat.log2 x := by
      rw [convU, Nat.mod_eq_of_lt hlt]
      have hc : ((2:Nat)^w : Int) = (2:Int)^w := by simp
      rw [Int.emod_eq_of_lt (by omega) (by rw [← hc]; omega)]; omega
    rw [hsh]
    have hpw := pw_ge w
    have hl : Nat.log2 x < w := by omega
    simp only [show Nat.log2 x < pw w by omega, if_true]
    rw [Nat.shiftLeft_eq, Nat.one_mul, Nat.mod_eq_of_lt (Nat.pow_lt_pow_right (by decide) hl)]

example : bitFloor 8 0xB5 = .ok (Spec.bitFloor 0xB5) := bitFloor_eq 8 _ (by decide) (by decide)

/-- documented domain of `bit_ceil`: the result `2^k >= x` must be representable -/
theorem bitCeil_eq (w x : Nat) (hw : 1 ≤ w) (hx : x ≤ 2^(w-1)) : bitCeil w x = .ok (Spec.bitCeil x) := by
  have hsplit : 2^w = 2 * 2^(w-1) := by
    obtain ⟨k, rfl⟩ : ∃ k, w = k+1 := ⟨w-1, by omega⟩
    rw [Nat.pow_succ]; simp; omega
  have hpos : 0 < 2^(w-1) := Nat.pow_pos (by decide)
  unfold bitCeil Spec.bitCeil
  by_cases h : x ≤ 1
  · simp [h]
  · simp only [h, if_false]
    have hx1 : x - 1 < 2^w := by omega
    rw [Nat.mod_eq_of_lt hx1, bitWidth_eq w (x - 1) hw hx1]
    simp only [ok_bind]
    have hne : x - 1 ≠ 0 := by omega
    have hb1 : Spec.bitWidth (x - 1) = Nat.log2 (x - 1) + 1 := by unfold Spec.bitWidth; simp [hne]
    have hb : Spec.bitWidth (x - 1) ≤ w - 1 := (bw_le (x - 1) (w - 1)).2 (by omega)
    rw [← hb1]
    generalize Spec.bitWidth (x - 1) = b at *
    have hbw : b < w := by omega
    by_cases hwide : w ≥ 32
    · simp only [hwide, if_true, hbw]
      rw [Nat.shiftLeft_eq, Nat.one_mul, Nat.mod_eq_of_lt (Nat.pow_lt_pow_right (by decide) hbw)]
    · simp only [hwide, if_false]
      have ho : b + (32 - w) < 32 := by omega
      simp only [ho, if_true]
      rw [Nat.shiftLeft_eq, Nat.one_mul, Nat.mod_eq_of_lt (Nat.pow_lt_pow_right (by decide) ho),
        Nat.shiftRight_eq_div_pow, Nat.pow_add, Nat.mul_div_cancel _ (Nat.pow_pos (by decide)),
        Nat.mod_eq_of_lt (Nat.pow_lt_pow_right (by decide) hbw)]

example : bitCeil 8 128 = .ok (Spec.bitCeil 128) := bitCeil_eq 8 128 (by decide) (by decide)
example : bitCeil 64 (2^62 + 1) = .ok (Spec.bitCeil (2^62 + 1)) := bitCeil_eq 64 _ (by decide) (by decide)

/-- outside the documented domain `bit_ceil` is undefined behaviour (a shift by the full width) in
    both `if constexpr` branches: the hypothesis of `bitCeil_eq` is sharp -/
theorem bitCeil_above_domain_counterexample :
    (∃ e, bitCeil 8 129 = .error e) ∧ (∃ e, bitCeil 32 (2^31 + 1) = .error e) :=
  ⟨⟨_, rfl⟩, ⟨_, rfl⟩⟩

/-- add_sat (builtin path) = clamp of the exact sum -/
theorem addSat_eq (t : ITy) (hw : 1 ≤ t.w) (x y : Int) (hx : t.inR x = true) (hy : t.inR y = true) :
    addSat t x y = .ok (Spec.clampTo t.min t.max (x + y)) := by
  obtain ⟨w, sg⟩ := t
  have h2 := two_pow_split w hw
  have hp : (0:Int) < 2^(w-1) := Int.pow_pos (by decide)
  rw [inR_iff] at hx hy
  unfold addSat Spec.clampTo
  cases sg <;> simp only [ITy.min, ITy.max, inR_iff] at * <;> simp at * <;>
    generalize (2:Int)^(w-1) = P at * <;> generalize (2:Int)^w = Q at *
  · split <;> split <;> (try split) <;> first | rfl | (congr 1; omega) | omega
  · split <;> split <;> (try split) <;> first | rfl | (congr 1; omega) | omega

example : addSat ⟨8, true⟩ (-100) (-100) = .ok (Spec.clampTo (-128) 127 (-200)) := addSat_eq ⟨8, true⟩ (by decide) _ _ (by decide) (by decide)

/-- `detail::add_sat_fallback` (every `if constexpr` branch): same value, and the 64-bit branch's `max - x` / `min - x` never overflow. -/
theorem addSatFallback_eq (t : ITy) (hw : 1 ≤ t.w) (x y : Int) (hx : t.inR x = true) (hy : t.inR y = true) :
    addSatFallback t x y = .ok (Spec.clampTo t.min t.max (x + y)) := by
  have hclamp : t.inR (clamp (x + y) t.min t.max) = true := by
    rw [inR_iff] at *; unfold clamp; split <;> (try split) <;> omega
  have hceq : clamp (x + y) t.min t.max = Spec.clampTo t.min t.max (x + y) := by
    unfold clamp Spec.clampTo; split <;> (try split) <;> (try split) <;> omega
  unfold addSatFallback
  split
  · rw [conv_of_inR t hw _ hclamp, hceq]
  · split
    · rw [conv_of_inR t hw _ hclamp, hceq]
    · rw [inR_iff] at hx hy
      have hmm := min_max_zero t
      split
      · rw [arith_ok t hw (t.max - x) (by rw [inR_iff]; omega)]
        simp only [ok_bind]
        split
        · unfold Spec.clampTo; congr 1; split <;> (try split) <;> omega
        · rw [arith_ok t hw (x + y) (by rw [inR_iff]; omega)]
          unfold Spec.clampTo; congr 1; split <;> (try split) <;> omega
      · rw [arith_ok t hw (t.min - x) (by rw [inR_iff]; omega)]
        simp only [ok_bind]
        split
        · unfold Spec.clampTo; congr 1; split <;> (try split) <;> omega
        · rw [arith_ok t hw (x + y) (by rw [inR_iff]; omega)]
          unfold Spec.clampTo; congr 1; split <;> (try split) <;> omega

example : addSatFallback ⟨64, true⟩ (2^63 - 1) 1 = .ok (Spec.clampTo (-(2^63)) (2^63 - 1) (2^63)) :=
  addSatFallback_eq ⟨64, true⟩ (by decide) _ _ (by decide) (by decide)

/-! ## rotations: count modulo the width, negative counts -/

/-- `rotl(t, s)` for every `int` count, negative included: rotation by `s mod w`. -/
theorem rotl_eq (w t : Nat) (s : Int) (hw : 0 < w) (hdvd : (w : Int) ∣ 2^32) (ht : t < 2^w) :
    rotl w t s = .ok (Spec.rotl w t s) := by
  unfold rotl Spec.rotl
  simp only [rot_count w hdvd s]
  have hrlt : (s % (w : Int)).toNat < w := by
    have := Int.emod_lt_of_pos s (by omega : (0:Int) < w)
    have := Int.emod_nonneg s (by omega : (w:Int) ≠ 0)
    omega
  generalize (s % (w : Int)).toNat = r at *
  by_cases hr : r = 0
  · subst hr
    simp [Nat.mod_eq_of_lt ht, Nat.div_eq_of_lt ht]
  · simp only [beq_iff_eq, hr, if_false]
    rw [rot_core w t r ht hrlt]

example : rotl 8 0x81 (-130) = .ok (Spec.rotl 8 0x81 (-130)) := rotl_eq 8 0x81 (-130) (by decide) ⟨2^29, by decide⟩ (by decide)

theorem rotr_eq (w t : Nat) (s : Int) (hw : 0 < w) (hdvd : (w : Int) ∣ 2^32) (ht : t < 2^w) :
    rotr w t s = .ok (Spec.rotr w t s) := by
  unfold rotr Spec.rotr
  simp only [rot_count w hdvd s]
  have hrlt : (s % (w : Int)).toNat < w := by
    have := Int.emod_lt_of_pos s (by omega : (0:Int) < w)
    have := Int.emod_nonneg s (by omega : (w:Int) ≠ 0)
    omega
  generalize (s % (w : Int)).toNat = r at *
  by_cases hr : r = 0
  · subst hr
    simp
  · simp only [beq_iff_eq, hr, if_false]
    have h := rot_core w t (w - r) ht (by omega)
    have hwr : w - (w - r) = r := by omega
    rw [hwr] at h
    rw [Nat.or_comm, h, Nat.add_comm]

example : rotr 64 (2^63 + 1) (-1) = .ok (Spec.rotr 64 (2^63 + 1) (-1)) := rotr_eq 64 _ (-1) (by decide) ⟨2^26, by decide⟩ (by decide)

/-- the `unsigned(s) % digits` reduction is wrong for a width that does not divide 2^32
    (hypothetical 24-bit type, count -1): the divisibility hypothesis is needed -/
theorem rotl_needs_dvd_counterexample : rotl 24 1 (-1) = .ok 32768 ∧ Spec.rotl 24 1 (-1) = 8388608 :=
  ⟨rfl, rfl⟩

/-! ## midpoint via unsigned difference halving -/

/-- `midpoint(a, b) = a + (b - a) /ₜ 2` (half the sum, rounded towards `a`), with no intermediate overflow, and the result is a value of the type. -/
theorem midpoint_eq (t : ITy) (hw : 1 ≤ t.w) (hstd : t.w ≤ 16 ∨ 32 ≤ t.w) (a b : Int)
    (ha : t.inR a = true) (hb : t.inR b = true) :
    midpoint t a b = .ok (Spec.midpoint a b) ∧ t.inR (Spec.midpoint a b) = true := by
  have h2 := two_pow_split t.w hw
  have hp : (0:Int) < 2^(t.w-1) := Int.pow_pos (by decide)
  have hwlt := lt_two_pow_int t.w
  have hb2 := tdiv2_bounds (b - a)
  have hmm := min_max_zero t
  rw [inR_iff] at ha hb
  -- the result lies between a and b
  have hm : t.inR (Spec.midpoint a b) = true := by
    rw [inR_iff]; unfold Spec.midpoint
    by_cases h : 0 ≤ b - a
    · have := hb2.1 h; omega
    · have := hb2.2 (by omega); omega
  refine ⟨?_, hm⟩
  have hrange : -(2:Int)^t.w < b - a ∧ b - a < 2^t.w := by
    obtain ⟨w, sg⟩ := t
    cases sg <;> simp only [ITy.min, ITy.max] at ha hb <;> simp at ha hb <;> simp only [] at h2 ⊢ <;> omega
  have hhalf := midpoint_half t.w hw a b hrange
  unfold midpoint
  have hshift : (t.uns.conv ((t.w : Int) - 1)).toNat = t.w - 1 := by
    show (ITy.conv ⟨t.w, false⟩ ((t.w : Int) - 1)).toNat = t.w - 1
    rw [convU, Int.emod_eq_of_lt (by omega) (by omega)]; omega
  have hdiff : t.uns.conv (t.uns.conv b - t.uns.conv a) = (b - a) % 2^t.w := by
    show ITy.conv ⟨t.w, false⟩ (ITy.conv ⟨t.w, false⟩ b - ITy.conv ⟨t.w, false⟩ a) = _
    rw [convU, convU, convU, ← Int.sub_emod]
  simp only [hshift, hdiff]
  have hpw : t.w - 1 < pw t.w := by unfold pw; split <;> omega
  simp only [hpw, decide_true, Bool.not_true, Bool.false_eq_true, if_false]
  have hconvhalf : ∀ N : Int, N % 2^t.w = (Int.tdiv (b - a) 2) % 2^t.w →
      t.conv (t.uns.conv N) = t.conv (Int.tdiv (b - a) 2) := by
    intro N hN
    show t.conv (ITy.conv ⟨t.w, false⟩ N) = _
    rw [convU, hN, conv_emod]
  rw [hconvhalf _ hhalf]
  obtain ⟨hcr, k, hck⟩ := conv_spec t hw (Int.tdiv (b - a) 2)
  have hfinal : t.conv (a + t.conv (Int.tdiv (b - a) 2)) = Spec.midpoint a b := by
    rw [hck]
    have : a + (Int.tdiv (b - a) 2 - k * 2^t.w) = Spec.midpoint a b - k * 2^t.w := by
      unfold Spec.midpoint; omega
    rw [this, conv_sub_mul, conv_of_inR t hw _ hm]
  rcases hstd with hn | hwide
  · -- narrower than int: the addition is exact in `int`
    have hprom : t.promote = ⟨32, true⟩ := by unfold ITy.promote; simp; omega
    rw [hprom]
    have h16 := pow_mono t.w 16 hn
    have h15 := pow_mono (t.w - 1) 16 (by omega)
    have hin : ITy.inR ⟨32, true⟩ (a + t.conv (Int.tdiv (b - a) 2)) = true := by
      rw [inR_iff]
      obtain ⟨w, sg⟩ := t
      cases sg <;> simp only [ITy.min, ITy.max] at ha hb hcr ⊢ <;> simp at ha hb hcr ⊢ <;> simp only [] at h16 h15 <;> omega
    rw [arith_ok _ (by simp) _ hin]
    simp only [ok_bind, hfinal]
  · have hprom : t.promote = t := by unfold ITy.promote; simp; omega
    rw [hprom]
    unfold arith
    cases hs : t.sg
    · simp only [Bool.false_eq_true, if_false, ok_bind]
      rw [conv_of_inR t hw (t.conv _) (by rw [inR_iff]; exact (conv_spec t hw _).1), hfinal]
    · have hh : t.inR (Int.tdiv (b - a) 2) = true := by
        rw [inR_iff]
        obtain ⟨w, sg⟩ := t
        simp only [] at hs; subst hs
        simp only [ITy.min, ITy.max] at ha hb ⊢; simp at ha hb ⊢; simp only [] at h2
        by_cases h : 0 ≤ b - a
        · have := hb2.1 h; omega
        · have := hb2.2 (by omega); omega
      rw [conv_of_inR t hw _ hh] at hfinal ⊢
      have : a + Int.tdiv (b - a) 2 = Spec.midpoint a b := rfl
      rw [this] at hfinal ⊢
      simp only [if_true, hm, ok_bind, hfinal]

example : midpoint ⟨8, true⟩ 127 (-128) = .ok (Spec.midpoint 127 (-128)) :=
  (midpoint_eq ⟨8, true⟩ (by decide) (by decide) 127 (-128) (by decide) (by decide)).1
example : midpoint ⟨64, false⟩ (2^64 - 1) 0 = .ok (Spec.midpoint (2^64 - 1) 0) :=
  (midpoint_eq ⟨64, false⟩ (by decide) (by decide) _ 0 (by decide) (by decide)).1

/-- `midpoint(Ptr a, Ptr b)` (forwards to `midpoint<ptrdiff_t>(0, b - a)`): for two pointers into one
    array of `len ≤ PTRDIFF_MAX` elements (indices `0 … len`, one past the end included) the pointer
    difference, the integer midpoint and the final pointer addition are all defined, and the result is
    the element at the midpoint of the two indices, rounded towards `a`. -/
theorem midpointPtr_eq (len ia ib : Int) (hlen : len ≤ ptrdiffT.max)
    (ha0 : 0 ≤ ia) (ha : ia ≤ len) (hb0 : 0 ≤ ib) (hb : ib ≤ len) :
    midpointPtr len ia ib = .ok (Spec.midpoint ia ib) := by
  have hmax : ptrdiffT.max = 2^63 - 1 := by decide
  have hmin : ptrdiffT.min = -2^63 := by decide
  have hd : ptrdiffT.inR (ib - ia) = true := by rw [inR_iff]; omega
  have h0 : ptrdiffT.inR 0 = true := by decide
  unfold midpointPtr
  simp only [ha0, ha, hb0, hb, decide_true, Bool.and_self, Bool.not_true, Bool.false_eq_true, if_false]
  rw [arith_ok ptrdiffT (by decide) _ hd]
  simp only [ok_bind]
  rw [(midpoint_eq ptrdiffT (by decide) (by decide) 0 (ib - ia) h0 hd).1]
  simp only [ok_bind]
  have he : ia + Spec.midpoint 0 (ib - ia) = Spec.midpoint ia ib := by unfold Spec.midpoint; simp
  rw [he]
  have hb2 := tdiv2_bounds (ib - ia)
  have hr : 0 ≤ Spec.midpoint ia ib ∧ Spec.midpoint ia ib ≤ len := by
    unfold Spec.midpoint
    by_cases h : 0 ≤ ib - ia
    · have := hb2.1 h; omega
    · have := hb2.2 (by omega); omega
  simp [hr.1, hr.2]

example : midpointPtr 10 8 1 = .ok (Spec.midpoint 8 1) :=
  midpointPtr_eq 10 8 1 (by decide) (by decide) (by decide) (by decide) (by decide)
example : midpointPtr (2^63 - 1) 0 (2^63 - 1) = .ok (Spec.midpoint 0 (2^63 - 1)) :=
  midpointPtr_eq _ 0 _ (by decide) (by decide) (by decide) (by decide) (by decide)

/-! ## sign-aware comparisons, in_range, saturate_cast: every pair of types -/

theorem cmpLess_eq (T U : ITy) (hT : 1 ≤ T.w) (hU : 1 ≤ U.w) (t u : Int)
    (ht : T.inR t = true) (hu : U.inR u = true) : cmpLess T U t u = decide (t < u) := by
  unfold cmpLess
  by_cases hs : T.sg = U.sg
  · simp only [hs, beq_self_eq_true, if_true]
    exact builtinLt_eq T U hs t u ht hu
  · have hne : (T.sg == U.sg) = false := by simp [hs]
    simp only [hne, Bool.false_eq_true, if_false]
    cases hTs : T.sg
    · -- T unsigned, U signed
      have hUs : U.sg = true := by cases h : U.sg <;> simp_all
      have ht0 := nonneg_of_unsigned T hTs t ht
      simp only [Bool.false_eq_true, if_false]
      by_cases hu0 : u < 0
      · simp only [hu0, if_true]; symm; simp; omega
      · simp only [hu0, if_false]
        have huu := uns_inR U hU u hu (by omega)
        rw [conv_of_inR U.uns hU u huu]
        exact builtinLt_eq T U.uns (by simp [ITy.uns, hTs]) t u ht huu
    · have hUs : U.sg = false := by cases h : U.sg <;> simp_all
      have hu0 := nonneg_of_unsigned U hUs u hu
      simp only [if_true]
      by_cases ht0 : t < 0
      · simp only [ht0, if_true]; symm; simp; omega
      · simp only [ht0, if_false]
        have htu := uns_inR T hT t ht (by omega)
        rw [conv_of_inR T.uns hT t htu]
        exact builtinLt_eq T.uns U (by simp [ITy.uns, hUs]) t u htu hu

example : cmpLess ⟨8, true⟩ ⟨64, false⟩ (-1) (2^64 - 1) = decide ((-1 : Int) < 2^64 - 1) :=
  cmpLess_eq ⟨8, true⟩ ⟨64, false⟩ (by decide) (by decide) _ _ (by decide) (by decide)

theorem cmpEqual_eq (T U : ITy) (hT : 1 ≤ T.w) (hU : 1 ≤ U.w) (t u : Int)
    (ht : T.inR t = true) (hu : U.inR u = true) : cmpEqual T U t u = decide (t = u) := by
  unfold cmpEqual
  by_cases hs : T.sg = U.sg
  · simp only [hs, beq_self_eq_true, if_true]
    exact builtinEq_eq T U hs t u ht hu
  · have hne : (T.sg == U.sg) = false := by simp [hs]
    simp only [hne, Bool.false_eq_true, if_false]
    cases hTs : T.sg
    · have hUs : U.sg = true := by cases h : U.sg <;> simp_all
      have ht0 := nonneg_of_unsigned T hTs t ht
      simp only [Bool.false_eq_true, if_false]
      by_cases hu0 : u < 0
      · simp only [hu0, if_true]; symm; simp; omega
      · simp only [hu0, if_false]
        have huu := uns_inR U hU u hu (by omega)
        rw [conv_of_inR U.uns hU u huu]
        exact builtinEq_eq T U.uns (by simp [ITy.uns, hTs]) t u ht huu
    · have hUs : U.sg = false := by cases h : U.sg <;> simp_all
      have hu0 := nonneg_of_unsigned U hUs u hu
      simp only [if_true]
      by_cases ht0 : t < 0
      · simp only [ht0, if_true]; symm; simp; omega
      · simp only [ht0, if_false]
        have htu := uns_inR T hT t ht (by omega)
        rw [conv_of_inR T.uns hT t htu]
        exact builtinEq_eq T.uns U (by simp [ITy.uns, hUs]) t u htu hu

example : cmpEqual ⟨8, true⟩ ⟨64, false⟩ (-1) (2^64 - 1) = decide ((-1 : Int) = 2^64 - 1) :=
  cmpEqual_eq ⟨8, true⟩ ⟨64, false⟩ (by decide) (by decide) _ _ (by decide) (by decide)

theorem cmpNotEqual_eq (T U : ITy) (hT : 1 ≤ T.w) (hU : 1 ≤ U.w) (t u : Int)
    (ht : T.inR t = true) (hu : U.inR u = true) : cmpNotEqual T U t u = decide (t ≠ u) := by
  unfold cmpNotEqual; rw [cmpEqual_eq T U hT hU t u ht hu]; simp

example : cmpNotEqual ⟨8, true⟩ ⟨64, false⟩ (-1) (2^64 - 1) = decide ((-1 : Int) ≠ 2^64 - 1) :=
  cmpNotEqual_eq ⟨8, true⟩ ⟨64, false⟩ (by decide) (by decide) _ _ (by decide) (by decide)

theorem cmpGreater_eq (T U : ITy) (hT : 1 ≤ T.w) (hU : 1 ≤ U.w) (t u : Int)
    (ht : T.inR t = true) (hu : U.inR u = true) : cmpGreater T U t u = decide (t > u) := by
  unfold cmpGreater; rw [cmpLess_eq U T hU hT u t hu ht]

example : cmpGreater ⟨8, true⟩ ⟨64, false⟩ (-1) (2^64 - 1) = decide ((-1 : Int) > 2^64 - 1) :=
  cmpGreater_eq ⟨8, true⟩ ⟨64, false⟩ (by decide) (by decide) _ _ (by decide) (by decide)

theorem cmpLessEqual_eq (T U : ITy) (hT : 1 ≤ T.w) (hU : 1 ≤ U.w) (t u : Int)
    (ht : T.inR t = true) (hu : U.inR u = true) : cmpLessEqual T U t u = decide (t ≤ u) := by
  unfold cmpLessEqual; rw [cmpGreater_eq T U hT hU t u ht hu]
  by_cases h : t ≤ u <;> simp [h] <;> omega

example : cmpLessEqual ⟨8, true⟩ ⟨64, false⟩ (-1) (2^64 - 1) = decide ((-1 : Int) ≤ 2^64 - 1) :=
  cmpLessEqual_eq ⟨8, true⟩ ⟨64, false⟩ (by decide) (by decide) _ _ (by decide) (by decide)

theorem cmpGreaterEqual_eq (T U : ITy) (hT : 1 ≤ T.w) (hU : 1 ≤ U.w) (t u : Int)
    (ht : T.inR t = true) (hu : U.inR u = true) : cmpGreaterEqual T U t u = decide (t ≥ u) := by
  unfold cmpGreaterEqual; rw [cmpLess_eq T U hT hU t u ht hu]
  by_cases h : t ≥ u <;> simp [h] <;> omega

example : cmpGreaterEqual ⟨8, true⟩ ⟨64, false⟩ (-1) (2^64 - 1) = decide ((-1 : Int) ≥ 2^64 - 1) :=
  cmpGreaterEqual_eq ⟨8, true⟩ ⟨64, false⟩ (by decide) (by decide) _ _ (by decide) (by decide)

theorem inRange_eq (R T : ITy) (hR : 1 ≤ R.w) (hT : 1 ≤ T.w) (t : Int) (ht : T.inR t = true) :
    inRange R T t = R.inR t := by
  unfold inRange
  rw [cmpGreaterEqual_eq T R hT hR t R.min ht (inR_min R), cmpLessEqual_eq T R hT hR t R.max ht (inR_max R)]
  unfold ITy.inR
  by_cases h1 : R.min ≤ t <;> by_cases h2 : t ≤ R.max <;> simp [h1, h2] <;> omega

example : inRange ⟨8, false⟩ ⟨32, true⟩ (-1) = false := by
  rw [inRange_eq ⟨8, false⟩ ⟨32, true⟩ (by decide) (by decide) (-1) (by decide)]; decide

theorem saturateCast_eq (To From : ITy) (hTo : 1 ≤ To.w) (hFrom : 1 ≤ From.w) (x : Int) (hx : From.inR x = true) :
    saturateCast To From x = .ok (Spec.clampTo To.min To.max x) := by
  unfold saturateCast Spec.clampTo
  rw [cmpLess_eq From To hFrom hTo x To.min hx (inR_min To), cmpGreater_eq From To hFrom hTo x To.max hx (inR_max To)]
  by_cases h1 : x < To.min
  · simp [h1]
  · by_cases h2 : x > To.max
    · simp [h1, h2]
    · simp only [h1, h2, decide_false, Bool.false_eq_true, if_false]
      rw [conv_of_inR To hTo x (by rw [inR_iff]; omega)]

example : saturateCast ⟨8, true⟩ ⟨64, false⟩ (2^64 - 1) = .ok (Spec.clampTo (-128) 127 (2^64 - 1)) :=
  saturateCast_eq ⟨8, true⟩ ⟨64, false⟩ (by decide) (by decide) _ (by decide)

/-! ## test_bit, ipow<2> -/

/-- `test_bit(word, pos)` for `pos < digits`: bit `pos` of `word` -/
theorem testBit_eq_anyw (w word pos : Nat) (hpos : pos < w) :
    testBit w word pos = .ok (Spec.testBit word pos) := by
  unfold testBit Spec.testBit
  rw [bitPosPre_ok w pos hpos, oneShl_ok w pos hpos]
  simp only [Bool.not_true, Bool.false_eq_true, if_false, ok_bind]
  have hlt : word &&& 2^pos < 2^w :=
    Nat.lt_of_le_of_lt Nat.and_le_right (Nat.pow_lt_pow_right (by decide) hpos)
  rw [Nat.mod_eq_of_lt hlt]
  congr 1
  have h := and_two_pow_eq_zero word pos
  rw [Nat.testBit_eq_decide_div_mod_eq] at h
  by_cases hb : word / 2^pos % 2 = 1
  · have : ¬ (word &&& 2^pos = 0) := by rw [h]; simp [hb]
    simp [hb, this]
  · have : word &&& 2^pos = 0 := by rw [h]; simp [hb]
    simp [hb, this]

example : testBit 64 (2^63 + 5) 63 = .ok (Spec.testBit (2^63 + 5) 63) := testBit_eq_anyw 64 _ 63 (by decide)

/-- the precondition check of the single-bit functions, as written in the source
    (`pos < static_cast<UInt>(digits)`), holds exactly for `pos < w` — for every width -/
theorem bitPos_pre_iff (w pos : Nat) : bitPosPre w pos = true ↔ pos < w := bitPosPre_iff w pos

/-- outside the domain (`pos ≥ w`, in particular `pos ≥ 2^31` for the 32/64-bit types) every
    single-bit function stops at its `TETL_PRECONDITION`; the shift is never reached -/
theorem bitPos_pre_fails (w word pos : Nat) (value : Bool) (hpos : w ≤ pos) :
    testBit w word pos = .error (.pre "test_bit: pos < digits") ∧
    setBit w word pos = .error (.pre "set_bit: pos < digits") ∧
    resetBit w word pos = .error (.pre "reset_bit: pos < digits") ∧
    flipBit w word pos = .error (.pre "flip_bit: pos < digits") ∧
    setBitTo w word pos value = .error (.pre "set_bit: pos < digits") := by
  have h : bitPosPre w pos = false := by
    cases hb : bitPosPre w pos
    · rfl
    · have := (bitPosPre_iff w pos).1 hb; omega
  unfold testBit setBit resetBit flipBit setBitTo
  simp [h]

example : testBit 32 1 (2^31) = .error (.pre "test_bit: pos < digits") := (bitPos_pre_fails 32 1 (2^31) false (by decide)).1
example : flipBit 64 1 (2^64 - 1) = .error (.pre "flip_bit: pos < digits") := (bitPos_pre_fails 64 1 _ false (by decide)).2.2.2.1

/-- `ipow<2>(e)`: `1 << e`, for every exponent whose power is representable -/
theorem ipow2_eq (t : ITy) (hw : 1 ≤ t.w) (e : Int) (he : 0 ≤ e) (hr : t.inR ((2:Int)^e.toNat) = true) :
    ipow2 t e = .ok (Spec.ipow 2 e.toNat) := by
  unfold ipow2 Spec.ipow
  have hP := promote_inR t hw _ hr
  have hPw := promote_w t hw
  -- 2^e <= max < 2^w' gives e < w'
  have hlt : e < t.promote.w := by
    have hmax := max_lt_pow t.promote hPw
    rw [inR_iff] at hP
    have h1 : (2:Int)^e.toNat < 2^t.promote.w := by omega
    have h2 : (2:Nat)^e.toNat < 2^t.promote.w := by exact_mod_cast h1
    have := (Nat.pow_lt_pow_iff_right (by decide : 1 < 2)).1 h2
    omega
  have hc : (decide (e < 0) || decide (e ≥ (t.promote.w : Int))) = false := by
    simp; omega
  simp only [hc, Bool.false_eq_true, if_false]
  rw [conv_of_inR t.promote hPw _ hP, conv_of_inR t hw _ hr]


example : ipow2 ⟨32, true⟩ 30 = .ok (Spec.ipow 2 30) := ipow2_eq ⟨32, true⟩ (by decide) 30 (by decide) (by decide)

/-! ## div_sat, idiv -/

/-- `div_sat`: the truncated quotient clamped to the type; the only quotient that is not representable,
    `min / -1`, is answered `max` before any division is evaluated. -/
theorem divSat_eq (t : ITy) (hw : 1 ≤ t.w) (x y : Int) (hx : t.inR x = true) (hy : t.inR y = true) (hy0 : y ≠ 0) :
    divSat t x y = .ok (Spec.clampTo t.min t.max (Int.tdiv x y)) := by
  have h2 := two_pow_split t.w hw
  have hp : (0:Int) < 2^(t.w-1) := Int.pow_pos (by decide)
  unfold divSat
  have hy0' : (y == 0) = false := by simp [hy0]
  simp only [hy0', Bool.false_eq_true, if_false]
  by_cases hex : t.sg = true ∧ x = t.min ∧ y = -1
  · obtain ⟨hs, hxm, hym⟩ := hex
    have : (t.sg && x == t.min && y == -1) = true := by simp [hs, hxm, hym]
    rw [this]; simp only [if_true]
    subst hym
    have : Int.tdiv x (-1) = -x := by rw [Int.tdiv_neg, Int.tdiv_one]
    rw [this, hxm]
    unfold Spec.clampTo ITy.min ITy.max; simp only [hs, if_true]
    congr 1
    split
    · omega
    · split <;> omega
  · have : (t.sg && x == t.min && y == -1) = false := by
      cases hs : t.sg
      · simp
      · by_cases h1 : x = t.min <;> by_cases h3 : y = -1 <;> simp [h1, h3]
        exact hex ⟨hs, h1, h3⟩
    rw [this]; simp only [Bool.false_eq_true, if_false]
    have hq := tdiv_inR t hw x y hx hy hy0 hex
    rw [arith_ok _ (promote_w t hw) _ (promote_inR t hw _ hq)]
    simp only [ok_bind, conv_of_inR t hw _ hq]
    rw [inR_iff] at hq
    unfold Spec.clampTo; congr 1
    split
    · omega
    · split <;> omega

example : divSat ⟨8, true⟩ (-128) (-1) = .ok (Spec.clampTo (-128) 127 (Int.tdiv (-128) (-1))) :=
  divSat_eq ⟨8, true⟩ (by decide) _ _ (by decide) (by decide) (by decide)

/-- `idiv`: truncated quotient and remainder, defined whenever the quotient is representable -/
theorem idiv_eq (t : ITy) (hw : 1 ≤ t.w) (x y : Int) (hx : t.inR x = true) (hy : t.inR y = true) (hy0 : y ≠ 0)
    (hex : ¬ (t.sg = true ∧ x = t.min ∧ y = -1)) : idiv t x y = .ok (Spec.idiv x y) := by
  have h2 := two_pow_split t.w hw
  have hp : (0:Int) < 2^(t.w-1) := Int.pow_pos (by decide)
  unfold idiv Spec.idiv
  have hy0' : (y == 0) = false := by simp [hy0]
  simp only [hy0', Bool.false_eq_true, if_false]
  have hq := tdiv_inR t hw x y hx hy hy0 hex
  rw [arith_ok _ (promote_w t hw) _ (promote_inR t hw _ hq)]
  simp only [ok_bind, conv_of_inR t hw _ hq]
  have hr : t.inR (Int.tmod x y) = true := by
    have hn : (Int.tmod x y).natAbs = x.natAbs % y.natAbs := Int.natAbs_tmod x y
    have hlt : x.natAbs % y.natAbs < y.natAbs := Nat.mod_lt _ (by omega)
    cases hs : t.sg
    · have hx0 := nonneg_of_unsigned t hs x hx
      have hy0'' := nonneg_of_unsigned t hs y hy
      have := Int.tmod_nonneg y hx0
      rw [inR_iff] at hy ⊢
      unfold ITy.min ITy.max at *; simp only [hs, Bool.false_eq_true, if_false] at hy ⊢; omega
    · rw [inR_iff] at *
      unfold ITy.min ITy.max at *; simp only [hs, if_true] at *; omega
  rw [conv_of_inR t hw _ hr]


example : idiv ⟨8, true⟩ (-128) 3 = .ok (Spec.idiv (-128) 3) :=
  idiv_eq ⟨8, true⟩ (by decide) _ _ (by decide) (by decide) (by decide) (by decide)

/-! ## gcd, lcm (after the two `fix:` commits), abs, ilog2 -/

/-- gcd: for arguments whose absolute values are representable in the common type, the result is
    the (non-negative) greatest common divisor -/
theorem gcd_eq (M N : ITy) (hM : 1 ≤ M.w) (hN : 1 ≤ N.w) (m n : Int)
    (hm : (m.natAbs : Int) ≤ (ITy.common M N).max) (hn : (n.natAbs : Int) ≤ (ITy.common M N).max) :
    gcd M N m n = .ok (Spec.gcd m n) := by
  have hR := common_w M N hM hN
  have hmax := max_lt_pow _ hR
  unfold gcd Spec.gcd
  generalize ITy.common M N = R at *
  dsimp only
  rw [absAs_eq R.uns hR rfl m (by show _ < (2:Int)^R.w; omega), absAs_eq R.uns hR rfl n (by show _ < (2:Int)^R.w; omega), gcdLoop_eq]
  have hg : Nat.gcd m.natAbs n.natAbs = Int.gcd m n := rfl
  rw [hg]
  have hle : ((Int.gcd m n : Nat) : Int) ≤ R.max := by
    by_cases h0 : m.natAbs = 0
    · have : Int.gcd m n = n.natAbs := by unfold Int.gcd; rw [h0, Nat.gcd_zero_left]
      omega
    · have : Int.gcd m n ≤ m.natAbs := Nat.gcd_le_left _ (by omega)
      omega
  rw [conv_of_inR R hR _ (by rw [inR_iff]; have := min_max_zero R; omega)]

example : gcd ⟨32, true⟩ ⟨32, true⟩ 4 (-6) = .ok (Spec.gcd 4 (-6)) := gcd_eq _ _ (by decide) (by decide) 4 (-6) (by decide) (by decide)
example : gcd ⟨8, false⟩ ⟨32, true⟩ 3 259 = .ok (Spec.gcd 3 259) := gcd_eq _ _ (by decide) (by decide) 3 259 (by decide) (by decide)

/-- the hypothesis of `gcd_eq` is sharp: for `m = INT_MIN` (`|m|` not representable in the common
    type — outside the precondition of [numeric.ops.gcd]) the unsigned Euclid loop yields `2^31`, whose
    conversion to the signed return type is `INT_MIN`: a *negative* "gcd", not `Spec.gcd = 2^31` -/
theorem gcd_int_min_counterexample :
    gcd i32 i32 (-2^31) 0 = .ok (-2^31) ∧ Spec.gcd (-2^31) 0 = 2^31 ∧
    gcd ⟨8, true⟩ ⟨8, true⟩ (-128) (-128) = .ok (-128) ∧ Spec.gcd (-128) (-128) = 128 := by
  refine ⟨?_, ?_, ?_, ?_⟩
  · unfold gcd; dsimp only; rw [gcdLoop_eq]; congr 1
  · decide
  · unfold gcd; dsimp only; rw [gcdLoop_eq]; congr 1
  · decide

/-- `lcm`: 0 if an argument is 0, otherwise `|m| / gcd * |n|` computed without overflow whenever the result is representable. -/
theorem lcm_eq (M N : ITy) (hM : 1 ≤ M.w) (hN : 1 ≤ N.w) (m n : Int)
    (hm : (m.natAbs : Int) ≤ (ITy.common M N).max) (hn : (n.natAbs : Int) ≤ (ITy.common M N).max)
    (hl : ((Int.lcm m n : Nat) : Int) ≤ (ITy.common M N).max) :
    lcm M N m n = .ok (Spec.lcm m n) := by
  have hR := common_w M N hM hN
  have hmax := max_lt_pow _ hR
  unfold lcm Spec.lcm
  generalize ITy.common M N = R at *
  dsimp only
  by_cases hz : m = 0 ∨ n = 0
  · have : (m == 0 || n == 0) = true := by rcases hz with h | h <;> simp [h]
    rw [this]; simp only [if_true]
    rcases hz with h | h <;> simp [h]
  · have hz' : (m == 0 || n == 0) = false := by
      simp only [not_or] at hz; simp [hz.1, hz.2]
    rw [hz']; simp only [Bool.false_eq_true, if_false]
    simp only [not_or] at hz
    rw [absAs_eq R.uns hR rfl m (by show _ < (2:Int)^R.w; omega), absAs_eq R.uns hR rfl n (by show _ < (2:Int)^R.w; omega), gcdLoop_eq]
    have ha : 0 < m.natAbs := by omega
    have hg : 0 < Nat.gcd m.natAbs n.natAbs := Nat.gcd_pos_of_pos_left _ ha
    have hgne : (Nat.gcd m.natAbs n.natAbs == 0) = false := by simp; omega
    rw [hgne]; simp only [Bool.false_eq_true, if_false]
    have hlcm : m.natAbs / Nat.gcd m.natAbs n.natAbs * n.natAbs = Int.lcm m n := by
      show _ = Nat.lcm m.natAbs n.natAbs
      unfold Nat.lcm
      rw [Nat.mul_comm m.natAbs n.natAbs, Nat.mul_div_assoc _ (Nat.gcd_dvd_left _ _), Nat.mul_comm]
    rw [hlcm]
    have hmm := min_max_zero R
    have hinU : R.uns.inR ((Int.lcm m n : Nat) : Int) = true := by
      rw [inR_iff]; show (0:Int) ≤ _ ∧ _ ≤ (2:Int)^R.w - 1
      constructor <;> omega
    have hinP := promote_inR R.uns hR _ hinU
    rw [arith_ok _ (promote_w R.uns hR) _ hinP]
    simp only [ok_bind]
    rw [conv_of_inR R.uns hR _ hinU, conv_of_inR R hR _ (by rw [inR_iff]; omega)]

example : lcm ⟨8, true⟩ ⟨32, true⟩ 3 2147483646 = .ok (Spec.lcm 3 2147483646) :=
  lcm_eq _ _ (by decide) (by decide) 3 2147483646 (by decide) (by decide) (by decide)

/-- `etl::abs<T>` (numeric): `|x|` for every value except the most negative one. -/
theorem absT_eq (t : ITy) (hw : 1 ≤ t.w) (x : Int) (hx : t.inR x = true) (hmin : t.sg = true → x ≠ t.min) :
    absT t x = .ok (Spec.abs x) := by
  unfold absT Spec.abs
  cases hs : t.sg
  · have := nonneg_of_unsigned t hs x hx
    simp only [Bool.false_eq_true, if_false]; congr 1; omega
  · simp only [if_true]
    by_cases h : x < 0
    · simp only [h, if_true]
      have hn := neg_inR t hs hw x hx (hmin hs) h
      rw [arith_ok _ (promote_w t hw) _ (promote_inR t hw _ hn)]
      simp only [ok_bind, conv_of_inR t hw _ hn]; congr 1; omega
    · simp only [h, if_false]; congr 1; omega

example : absT ⟨8, true⟩ (-127) = .ok (Spec.abs (-127)) := absT_eq ⟨8, true⟩ (by decide) _ (by decide) (by decide)

/-- `etl::abs(int|long|long long)` (cmath): `n * -1` does not overflow for `n ≠ min`. -/
theorem absM_eq (t : ITy) (hw : 1 ≤ t.w) (hs : t.sg = true) (x : Int) (hx : t.inR x = true) (hmin : x ≠ t.min) :
    absM t x = .ok (Spec.abs x) := by
  unfold absM Spec.abs
  by_cases h : x ≥ 0
  · simp only [h, if_true]; congr 1; omega
  · simp only [h, if_false]
    have hn := neg_inR t hs hw x hx hmin (by omega)
    have : x * -1 = -x := by omega
    rw [this, arith_ok _ (promote_w t hw) _ (promote_inR t hw _ hn)]; congr 1; omega

example : absM ⟨32, true⟩ (-2147483647) = .ok (Spec.abs (-2147483647)) := absM_eq ⟨32, true⟩ (by decide) rfl _ (by decide) (by decide)

/-- `ilog2`: the halving loop returns `floor(log2 x)` (0 for `x ≤ 1`); no hypothesis. -/
theorem ilog2_eq (t : ITy) (x : Int) : ilog2 t x = .ok ((Spec.ilog2 x.toNat : Nat) : Int) := by
  unfold ilog2 Spec.ilog2; rw [ilog2Loop_eq]; simp

/-! ## countl_one, countr_zero, countr_one, has_single_bit -/

/-- `countl_one`: the shift loop stops within `w` rounds and returns the number of leading zeros of
    the `w`-bit complement. -/
theorem countlOne_eq (w x : Nat) (hw : 1 ≤ w) (hx : x < 2^w) :
    countlOne w x = .ok (Spec.countlOne w x) := by
  unfold countlOne Spec.countlOne
  by_cases h : x = 2^w - 1
  · subst h; simp [Spec.bitWidth]
  · simp only [beq_iff_eq, h, if_false]
    have hc : 2^w - 1 - x ≠ 0 := by omega
    have hb : 1 ≤ Spec.bitWidth (2^w - 1 - x) := by unfold Spec.bitWidth; simp [hc]
    rw [cloLoop_eq w hw w x 0 hx (by omega)]
    simp

example : countlOne 16 0xFE0F = .ok (Spec.countlOne 16 0xFE0F) := countlOne_eq 16 0xFE0F (by decide) (by decide)

/-- `countr_zero`: index of the lowest 1 bit among the low `w` bits, `w` if there is none; every
    `test_bit` precondition and shift count on the way is satisfied. -/
theorem countrZero_eq_anyw (w x : Nat) : countrZero w x = .ok (Spec.countrZero w x) := by
  unfold countrZero Spec.countrZero
  rw [ctzLoop_eq w x (w + 1) w 0 (by omega) (by omega), List.range_eq_range']

example : countrZero 64 (2^63) = .ok (Spec.countrZero 64 (2^63)) := countrZero_eq_anyw 64 _

/-- `countr_one`: index of the lowest 0 bit among the low `w` bits, `w` if there is none. -/
theorem countrOne_eq_anyw (w x : Nat) : countrOne w x = .ok (Spec.countrOne w x) := by
  unfold countrOne Spec.countrOne
  rw [ctoLoop_eq w x (w + 1) w 0 (by omega) (by omega), List.range_eq_range']

example : countrOne 8 0xFF = .ok (Spec.countrOne 8 0xFF) := countrOne_eq_anyw 8 _

/-- `has_single_bit` (`popcount(x) == 1`): `x` is a power of two. -/
theorem hasSingleBit_eq (w x : Nat) (hx : x < 2^w) : hasSingleBit w x = .ok (Spec.hasSingleBit x) := by
  unfold hasSingleBit
  rw [popcount_eq w x hx]
  simp only [ok_bind]
  congr 1
  rw [Bool.eq_iff_iff, beq_iff_eq, pc_eq_one w x hx, hasSingleBit_iff]

example : hasSingleBit 32 (2^31) = .ok (Spec.hasSingleBit (2^31)) := hasSingleBit_eq 32 _ (by decide)

/-! ## set_bit, reset_bit, flip_bit -/

/-- `set_bit(word, pos)`: `word` with bit `pos` set. -/
theorem setBit_eq_anyw (w word pos : Nat) (hword : word < 2^w) (hpos : pos < w) :
    setBit w word pos = .ok (Spec.setBit word pos) := by
  unfold setBit Spec.setBit
  rw [bitPosPre_ok w pos hpos, oneShl_ok w pos hpos, specTestBit_eq]
  simp only [Bool.not_true, Bool.false_eq_true, if_false, ok_bind]
  rw [Nat.mod_eq_of_lt (or_lt w word pos hword hpos)]
  cases hb : word.testBit pos
  · simp [or_two_pow_of_clear word pos hb]
  · simp [or_two_pow_of_set word pos hb]

example : setBit 64 5 63 = .ok (Spec.setBit 5 63) := setBit_eq_anyw 64 5 63 (by decide) (by decide)

/-- `reset_bit(word, pos)`: `word` with bit `pos` cleared. -/
theorem resetBit_eq_anyw (w word pos : Nat) (hword : word < 2^w) (hpos : pos < w) :
    resetBit w word pos = .ok (Spec.resetBit word pos) := by
  unfold resetBit Spec.resetBit
  rw [bitPosPre_ok w pos hpos, oneShl_ok w pos hpos, specTestBit_eq]
  simp only [Bool.not_true, Bool.false_eq_true, if_false, ok_bind]
  rw [Nat.mod_eq_of_lt (and_lt w word _ hword)]
  cases hb : word.testBit pos
  · simp [and_notU_of_clear w word pos hword hpos hb]
  · simp [and_notU_of_set w word pos hword hpos hb]

example : resetBit 8 0xFF 7 = .ok (Spec.resetBit 0xFF 7) := resetBit_eq_anyw 8 0xFF 7 (by decide) (by decide)

/-- `flip_bit(word, pos)`: `word` with bit `pos` inverted. -/
theorem flipBit_eq_anyw (w word pos : Nat) (hword : word < 2^w) (hpos : pos < w) :
    flipBit w word pos = .ok (Spec.flipBit word pos) := by
  unfold flipBit Spec.flipBit
  rw [bitPosPre_ok w pos hpos, oneShl_ok w pos hpos, specTestBit_eq]
  simp only [Bool.not_true, Bool.false_eq_true, if_false, ok_bind]
  rw [Nat.mod_eq_of_lt (xor_lt w word pos hword hpos)]
  cases hb : word.testBit pos
  · simp [xor_two_pow_of_clear word pos hb]
  · simp [xor_two_pow_of_set word pos hb]

example : flipBit 16 0x8001 15 = .ok (Spec.flipBit 0x8001 15) := flipBit_eq_anyw 16 _ 15 (by decide) (by decide)

/-- `set_bit(word, pos, value)`: bit `pos` set or cleared according to `value`. -/
theorem setBitTo_eq_anyw (w word pos : Nat) (value : Bool) (hword : word < 2^w) (hpos : pos < w) :
    setBitTo w word pos value = .ok (if value then Spec.setBit word pos else Spec.resetBit word pos) := by
  unfold setBitTo Spec.setBit Spec.resetBit
  rw [bitPosPre_ok w pos hpos, oneShl_ok w pos hpos, specTestBit_eq]
  have hpw : pos < pw w := Nat.lt_of_lt_of_le hpos (pw_ge w)
  simp only [Bool.not_true, Bool.false_eq_true, if_false, ok_bind, hpw, decide_true]
  rw [boolShl]
  have hy : word &&& notU w (2^pos) < 2^w := and_lt w word _ hword
  cases value
  · simp only [Bool.false_eq_true, if_false, Nat.or_zero]
    rw [Nat.mod_eq_of_lt hy]
    cases hb : word.testBit pos
    · simp [and_notU_of_clear w word pos hword hpos hb]
    · simp [and_notU_of_set w word pos hword hpos hb]
  · simp only [if_true]
    rw [Nat.mod_eq_of_lt (or_lt w _ pos hy hpos)]
    cases hb : word.testBit pos
    · simp [and_notU_of_clear w word pos hword hpos hb, or_two_pow_of_clear word pos hb]
    · obtain ⟨hge, hclr⟩ := split_of_set word pos hb
      rw [and_notU_of_set w word pos hword hpos hb, or_two_pow_of_clear _ pos hclr]
      simp; omega

example : setBitTo 32 0xFFFF0000 31 false = .ok (Spec.resetBit 0xFFFF0000 31) :=
  setBitTo_eq_anyw 32 _ 31 false (by decide) (by decide)
example : setBitTo 32 0x0000FFFF 31 true = .ok (Spec.setBit 0x0000FFFF 31) :=
  setBitTo_eq_anyw 32 _ 31 true (by decide) (by decide)

/-! ## byteswap, ntoh, hton: byte reversal -/

/-- `detail::byteswap_fallback` (the three overloads): the `w/8` bytes of `v` in reverse order. -/
theorem byteswapFallback_eq (w v : Nat) (hw : w = 16 ∨ w = 32 ∨ w = 64) (hv : v < 2^w) :
    byteswapFallback w v = .ok (Spec.bswap (w / 8) v) := by
  unfold byteswapFallback
  rcases hw with rfl | rfl | rfl
  · simp [bswap16_eq v hv]
  · simp [bswap32_eq v hv]
  · simp [bswap64_eq v hv]

example : byteswapFallback 64 0x0102030405060708 = .ok (Spec.bswap 8 0x0102030405060708) :=
  byteswapFallback_eq 64 _ (by decide) (by decide)

/-- `byteswap(val)` for every integer type of 1, 2, 4 or 8 bytes, signed included: the object
    representation (the value modulo `2^w`) byte-reversed and read back in the type. -/
theorem byteswap_eq (t : ITy) (hw : t.w = 8 ∨ t.w = 16 ∨ t.w = 32 ∨ t.w = 64) (val : Int) (hval : t.inR val = true) :
    byteswap t val = .ok (t.conv (Spec.bswap (t.w / 8) (t.uns.conv val).toNat)) := by
  have hw1 : 1 ≤ t.w := by omega
  have hu : t.uns.conv val = val % 2^t.w := convU t.w val
  have h0 : 0 ≤ val % 2^t.w := Int.emod_nonneg _ (Int.ne_of_gt (Int.pow_pos (by decide)))
  have hlt : val % 2^t.w < 2^t.w := Int.emod_lt_of_pos _ (Int.pow_pos (by decide))
  have hnat : (t.uns.conv val).toNat < 2^t.w := by
    rw [hu]
    have hc : ((2:Nat)^t.w : Int) = (2:Int)^t.w := by simp
    omega
  unfold byteswap
  by_cases h8 : t.w = 8
  · simp only [h8, beq_self_eq_true, if_true]
    congr 1
    have hb : Spec.bswap (8 / 8) (t.uns.conv val).toNat = (t.uns.conv val).toNat := by
      have : (t.uns.conv val).toNat < 256 := by rw [h8] at hnat; exact hnat
      show Spec.bswap 1 _ = _
      simp only [Spec.bswap]; omega
    rw [hb, Int.toNat_of_nonneg (by rw [hu]; exact h0), hu, conv_emod, conv_of_inR t hw1 val hval]
  · have h8' : (t.w == 8) = false := by simp [h8]
    simp only [h8', Bool.false_eq_true, if_false]
    rw [byteswapFallback_eq t.w _ (by omega) hnat]
    simp

example : byteswap ⟨32, true⟩ (-2) = .ok (ITy.conv ⟨32, true⟩ (Spec.bswap 4 (ITy.conv ⟨32, false⟩ (-2)).toNat)) :=
  byteswap_eq ⟨32, true⟩ (by decide) (-2) (by decide)

/-- `ntoh` (8/16/32-bit overloads; the 64-bit one is deleted): byte reversal. -/
theorem ntoh_eq (w v : Nat) (hw : w = 8 ∨ w = 16 ∨ w = 32) (hv : v < 2^w) :
    ntoh w v = .ok (Spec.bswap (w / 8) v) := by
  unfold ntoh
  rcases hw with rfl | rfl | rfl
  · have : Spec.bswap (8 / 8) v = v := by
      show Spec.bswap 1 v = v
      simp only [Spec.bswap]; omega
    simp [this]
  · simp [ntoh16_eq v hv]
  · simp [ntoh32_eq v hv]

example : ntoh 32 0x01020304 = .ok (Spec.bswap 4 0x01020304) := ntoh_eq 32 _ (by decide) (by decide)

/-- `hton` forwards to `ntoh`. -/
theorem hton_eq (w v : Nat) (hw : w = 8 ∨ w = 16 ∨ w = 32) (hv : v < 2^w) :
    hton w v = .ok (Spec.bswap (w / 8) v) := ntoh_eq w v hw hv

example : hton 16 0x0102 = .ok (Spec.bswap 2 0x0102) := hton_eq 16 _ (by decide) (by decide)

/-! ## ipow: the multiplication loop -/

/-- `ipow(base, exponent)`: the exact integer power whenever it is a value of the type (a negative
    exponent runs the loop zero times: 1); no intermediate product overflows the promoted type or
    is changed by the conversion back to `Int`.  `t.inR 1`: the literal `Int(1)` is a value of the type. -/
theorem ipow_eq (t : ITy) (base e : Int) (h1 : t.inR 1 = true) (hb : t.inR base = true)
    (hr : t.inR (base ^ e.toNat) = true) : ipow t base e = .ok (Spec.ipow base e.toNat) := by
  have hw : 1 ≤ t.w := by
    cases hw0 : t.w with
    | zero =>
      rw [inR_iff] at h1; unfold ITy.max at h1; rw [hw0] at h1
      cases t.sg <;> simp at h1
    | succ n => omega
  unfold ipow Spec.ipow
  rw [ipowLoop_eq t hw base e.toNat 1]
  · simp
  · intro k hk1 hkn
    rw [Int.one_mul]
    exact pow_inR t hw base e.toNat h1 hb hr k hk1 hkn

example : ipow ⟨8, true⟩ (-2) 7 = .ok (Spec.ipow (-2) 7) := ipow_eq ⟨8, true⟩ (-2) 7 (by decide) (by decide) (by decide)
example : ipow ⟨64, false⟩ 3 40 = .ok (Spec.ipow 3 40) := ipow_eq ⟨64, false⟩ 3 40 (by decide) (by decide) (by decide)

/-! ## the bit-position theorems with the width hypothesis of the first version

`testBit_eq … countrOne_eq` were first proved for `w < 2^31` (the model then followed a source that compared
`static_cast<int>(pos) < digits`).  The source and the model now compare in `UInt`, and the `…_anyw` theorems above hold for
every width.  The original statements are kept under their names for the modules that cite them with the width argument
(TetlProofs/C02): each is the `…_anyw` theorem with the hypothesis dropped. -/

theorem testBit_eq (w word pos : Nat) (_hw31 : w < 2^31) (hpos : pos < w) :
    testBit w word pos = .ok (Spec.testBit word pos) := testBit_eq_anyw w word pos hpos
theorem countrZero_eq (w x : Nat) (_hw31 : w < 2^31) : countrZero w x = .ok (Spec.countrZero w x) := countrZero_eq_anyw w x
theorem countrOne_eq (w x : Nat) (_hw31 : w < 2^31) : countrOne w x = .ok (Spec.countrOne w x) := countrOne_eq_anyw w x
theorem setBit_eq (w word pos : Nat) (_hw31 : w < 2^31) (hword : word < 2^w) (hpos : pos < w) :
    setBit w word pos = .ok (Spec.setBit word pos) := setBit_eq_anyw w word pos hword hpos
theorem resetBit_eq (w word pos : Nat) (_hw31 : w < 2^31) (hword : word < 2^w) (hpos : pos < w) :
    resetBit w word pos = .ok (Spec.resetBit word pos) := resetBit_eq_anyw w word pos hword hpos
theorem flipBit_eq (w word pos : Nat) (_hw31 : w < 2^31) (hword : word < 2^w) (hpos : pos < w) :
    flipBit w word pos = .ok (Spec.flipBit word pos) := flipBit_eq_anyw w word pos hword hpos
theorem setBitTo_eq (w word pos : Nat) (value : Bool) (_hw31 : w < 2^31) (hword : word < 2^w) (hpos : pos < w) :
    setBitTo w word pos value = .ok (if value then Spec.setBit word pos else Spec.resetBit word pos) :=
  setBitTo_eq_anyw w word pos value hword hpos

end Tetl.C14.Props
