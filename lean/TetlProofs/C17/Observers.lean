/-
C17 — helper lemmas for the whole-set observers (`none/any`, `==`, `count`, `all`).
-/
import TetlProofs.C17.BitOps
namespace Tetl.C17
open Tetl

theorem all_iff_getElem {α} (l : List α) (p : α → Bool) :
    l.all p = true ↔ ∀ q (h : q < l.length), p l[q] = true := by
  rw [List.all_eq_true]
  constructor
  · intro h q hq; exact h _ (List.getElem_mem hq)
  · intro h x hx
    obtain ⟨q, hq, e⟩ := List.mem_iff_getElem.mp hx
    rw [← e]; exact h q hq

theorem rangeAll_iff (N : Nat) (p : Nat → Bool) : (List.range N).all p = true ↔ ∀ i, i < N → p i = true := by
  rw [List.all_eq_true]
  constructor
  · intro h i hi; exact h i (List.mem_range.mpr hi)
  · intro h i hi; exact h i (List.mem_range.mp hi)

/-- a position inside word `q < num_words - 1` is `< N` -/
theorem head_pos_lt {N k q j : Nat} (hN : 0 < N) (hq : q < numWords N k - 1) (_hj : j < 2 ^ k) :
    q * 2 ^ k + j < N := by
  have h5 : (q + 1) * 2 ^ k ≤ (numWords N k - 1) * 2 ^ k := Nat.mul_le_mul_right _ (by omega)
  have h6 := numWords_pred_mul_lt N k hN
  rw [Nat.add_mul, Nat.one_mul] at h5
  omega

/-- a position inside the last word is `< N` iff its offset is below `w - padding` -/
theorem last_pos_lt {N k j : Nat} (hN : 0 < N) (hj : j < 2 ^ k) :
    ((numWords N k - 1) * 2 ^ k + j < N) = (j < 2 ^ k - padding N k) := by
  have hnw := numWords_pos N k hN
  have hpadd := padding_add N k
  have h4 : 2 ^ k ≤ numWords N k * 2 ^ k := Nat.le_mul_of_pos_left _ hnw
  rw [Nat.sub_mul, Nat.one_mul]
  apply propext; omega

/-! ### none -/

theorem none_iff {N k : Nat} {ws : Words k} {f : Spec.Bits} (h : Rep N k ws f) :
    none ws = true ↔ ∀ i, i < N → f i = false := by
  unfold none
  rw [all_iff_getElem]
  constructor
  · intro hz i hi
    have hq : i / 2 ^ k < ws.length := by rw [h.len]; exact wordIndex_lt hi
    have hb := h.bit i
    rw [bitAt_eq_getLsbD ws i hq] at hb
    have := hz _ hq
    simp only [beq_iff_eq] at this
    rw [this] at hb
    simpa [hi] using hb.symm
  · intro hf q hq
    simp only [beq_iff_eq]
    apply BitVec.eq_of_getLsbD_eq
    intro j hj
    rw [h.word q hq j hj]
    by_cases hlt : q * 2 ^ k + j < N
    · simp [hlt, hf _ hlt]
    · simp [hlt]

/-! ### operator== -/

theorem eq_iff {N k : Nat} {a b : Words k} {fa fb : Spec.Bits} (ha : Rep N k a fa) (hb : Rep N k b fb) :
    a = b ↔ ∀ i, i < N → fa i = fb i := by
  constructor
  · intro e i hi
    have h1 := ha.bit i
    have h2 := hb.bit i
    rw [e] at h1
    rw [h1] at h2
    simpa [hi] using h2
  · intro hf
    apply List.ext_getElem (by rw [ha.len, hb.len])
    intro q h1 h2
    apply BitVec.eq_of_getLsbD_eq
    intro j hj
    rw [ha.word q h1 j hj, hb.word q h2 j hj]
    by_cases hlt : q * 2 ^ k + j < N
    · simp [hlt, hf _ hlt]
    · simp [hlt]

/-! ### count -/

theorem bitAt_cons_lt {k : Nat} (x : Word k) (xs : Words k) (i : Nat) (hi : i < 2 ^ k) :
    bitAt (x :: xs) i = x.getLsbD i := by
  simp [bitAt, Nat.div_eq_of_lt hi, Nat.mod_eq_of_lt hi]

theorem bitAt_cons_add {k : Nat} (x : Word k) (xs : Words k) (i : Nat) :
    bitAt (x :: xs) (2 ^ k + i) = bitAt xs i := by
  have hw := two_pow_pos' k
  have h1 : (2 ^ k + i) / 2 ^ k = i / 2 ^ k + 1 := by
    rw [Nat.add_comm, Nat.add_div_right _ hw]
  have h2 : (2 ^ k + i) % 2 ^ k = i % 2 ^ k := by
    rw [Nat.add_comm, Nat.add_mod_right]
  simp [bitAt, h1, h2]

theorem foldl_count {k : Nat} : ∀ (ws : Words k) (a : Nat),
    ws.foldl (fun acc word => acc + popcount word) a = a + (List.range (ws.length * 2 ^ k)).countP (bitAt ws)
  | [], a => by simp
  | x :: xs, a => by
    rw [List.foldl_cons, foldl_count xs]
    have e : (x :: xs).length * 2 ^ k = 2 ^ k + xs.length * 2 ^ k := by
      simp [Nat.add_mul, Nat.add_comm]
    rw [e, List.range_add, List.countP_append, List.countP_map]
    have h1 : (List.range (2 ^ k)).countP (bitAt (x :: xs)) = popcount x := by
      unfold popcount
      apply List.countP_congr
      intro i hi
      rw [bitAt_cons_lt x xs i (List.mem_range.mp hi)]
    have h2 : (List.range (xs.length * 2 ^ k)).countP (bitAt (x :: xs) ∘ fun i => 2 ^ k + i)
        = (List.range (xs.length * 2 ^ k)).countP (bitAt xs) := by
      apply List.countP_congr
      intro i _
      simp [bitAt_cons_add]
    rw [h1, h2]
    omega

theorem count_eq {N k : Nat} {ws : Words k} {f : Spec.Bits} (h : Rep N k ws f) : count ws = Spec.count N f := by
  unfold count Spec.count
  rw [foldl_count, Nat.zero_add, h.len, ← padding_add N k, List.range_add, List.countP_append, List.countP_map]
  have h1 : (List.range N).countP (bitAt ws) = (List.range N).countP f := by
    apply List.countP_congr
    intro i hi
    have := List.mem_range.mp hi
    rw [h.bit]; simp [this]
  have h2 : (List.range (padding N k)).countP (bitAt ws ∘ fun x => N + x) = 0 := by
    rw [List.countP_eq_zero]
    intro i _
    have : ¬ N + i < N := by omega
    simp [h.bit, this]
  rw [h1, h2, Nat.add_zero]

/-! ### all -/

theorem all_words_iff {N k : Nat} {ws : Words k} {f : Spec.Bits} (hN : 0 < N) (h : Rep N k ws f)
    (m : Word k) (hm : ∀ j, j < 2 ^ k → m.getLsbD j = decide (j < 2 ^ k - padding N k)) :
    ((∀ q (hq : q < ws.length), q < numWords N k - 1 → ws[q] = ones k) ∧
      (∀ (hq : numWords N k - 1 < ws.length), ws[numWords N k - 1] = m)) ↔ ∀ i, i < N → f i = true := by
  have hnw := numWords_pos N k hN
  constructor
  · rintro ⟨hhead, htail⟩ i hi
    have hq : i / 2 ^ k < ws.length := by rw [h.len]; exact wordIndex_lt hi
    have hqn : i / 2 ^ k < numWords N k := wordIndex_lt hi
    have hmod : i % 2 ^ k < 2 ^ k := Nat.mod_lt _ (two_pow_pos' k)
    have hb := h.bit i
    rw [bitAt_eq_getLsbD ws i hq] at hb
    simp only [hi, decide_true, Bool.true_and] at hb
    rw [← hb]
    by_cases hl : i / 2 ^ k < numWords N k - 1
    · rw [hhead _ hq hl]; simp [ones, hmod]
    · have e : i / 2 ^ k = numWords N k - 1 := by omega
      have hq' : numWords N k - 1 < ws.length := by rw [← e]; exact hq
      have : ws[i / 2 ^ k] = m := by
        have := htail hq'
        simp only [e]; exact this
      rw [this, hm _ hmod]
      have hdm := Nat.div_add_mod i (2 ^ k)
      rw [e, Nat.mul_comm] at hdm
      have := last_pos_lt (N := N) (k := k) hN hmod
      rw [hdm] at this
      simpa [← this] using hi
  · intro hf
    constructor
    · intro q hq hl
      apply BitVec.eq_of_getLsbD_eq
      intro j hj
      have := head_pos_lt hN hl hj
      rw [h.word q hq j hj]
      simp [ones, hj, this, hf _ this]
    · intro hq
      apply BitVec.eq_of_getLsbD_eq
      intro j hj
      rw [h.word _ hq j hj, hm j hj]
      by_cases hlt : j < 2 ^ k - padding N k
      · have : (numWords N k - 1) * 2 ^ k + j < N := by rw [last_pos_lt hN hj]; exact hlt
        simp [hlt, this, hf _ this]
      · have : ¬ (numWords N k - 1) * 2 ^ k + j < N := by rw [last_pos_lt hN hj]; exact hlt
        simp [hlt, this]

end Tetl.C17
