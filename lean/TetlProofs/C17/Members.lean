/-
C17 — the proofs of the property theorems (restated one by one in Props.lean) and the loop lemmas
between them.  `Rep N k ws f` (Lemmas.lean): the word array `ws` of a
`basic_bitset<N, 2^k-bit word>` has `num_words` words, shows the abstract bitset `f` at the positions
`< N` and has every padding bit zero.  Each theorem says: on a represented state and arguments that
satisfy the documented precondition, the member returns `.ok` (no out-of-range word access, no
over-wide shift, no failed contract), re-establishes `Rep` (padding included) and computes what
`std::bitset` specifies.  All of them hold for every `N` (`bitset<0>` included) and every `k` (word width `2^k`).
-/
import TetlProofs.C17.Observers
namespace Tetl.C17.Members
open Tetl Tetl.C17

/-! ## construction -/

/-- default construction: all bits zero -/
theorem init_rep (N k : Nat) : Rep N k (init N k) Spec.zero := by
  refine ⟨by simp [init], fun i => ?_⟩
  simp only [bitAt, init, List.getElem?_replicate, Spec.zero, Bool.and_false]
  split <;> rename_i h
  · split at h
    · cases h; simp
    · cases h
  · rfl

/-! ## single-bit members -/

theorem uncheckedSet_rep {N k : Nat} {ws : Words k} {f : Spec.Bits} (h : Rep N k ws f) (pos : Nat) (hp : pos < N)
    (v : Bool) : ∃ ws', uncheckedSet N ws pos v = .ok ws' ∧ Rep N k ws' (Spec.set1 f pos v) := by
  simp only [uncheckedSet, hp, if_true]
  exact transformBit_spec N ws f h pos hp _ (fun _ => v) (hop_setBitTo pos v)

theorem uncheckedReset_rep {N k : Nat} {ws : Words k} {f : Spec.Bits} (h : Rep N k ws f) (pos : Nat) (hp : pos < N) :
    ∃ ws', uncheckedReset N ws pos = .ok ws' ∧ Rep N k ws' (Spec.set1 f pos false) := by
  simp only [uncheckedReset, hp, if_true]
  exact transformBit_spec N ws f h pos hp _ (fun _ => false) (hop_resetBit pos)

theorem uncheckedFlip_rep {N k : Nat} {ws : Words k} {f : Spec.Bits} (h : Rep N k ws f) (pos : Nat) (hp : pos < N) :
    ∃ ws', uncheckedFlip N ws pos = .ok ws' ∧ Rep N k ws' (Spec.flip1 f pos) := by
  simp only [uncheckedFlip, hp, if_true]
  obtain ⟨ws', h1, h2⟩ := transformBit_spec N ws f h pos hp _ (fun b => !b) (hop_flipBit pos)
  exact ⟨ws', h1, h2.congr (fun i _ => by by_cases e : i = pos <;> simp [Spec.flip1, e])⟩

/-- `bitset::set(pos, value)` -/
theorem set_rep {N k : Nat} {ws : Words k} {f : Spec.Bits} (h : Rep N k ws f) (pos : Nat) (hp : pos < N) (v : Bool) :
    ∃ ws', set N ws pos v = .ok ws' ∧ Rep N k ws' (Spec.set1 f pos v) := by
  simp only [set, hp, if_true]; exact uncheckedSet_rep h pos hp v

/-- `bitset::reset(pos)` -/
theorem reset_rep {N k : Nat} {ws : Words k} {f : Spec.Bits} (h : Rep N k ws f) (pos : Nat) (hp : pos < N) :
    ∃ ws', reset N ws pos = .ok ws' ∧ Rep N k ws' (Spec.set1 f pos false) := by
  simp only [reset, hp, if_true]; exact uncheckedReset_rep h pos hp

/-- `bitset::flip(pos)` -/
theorem flip_rep {N k : Nat} {ws : Words k} {f : Spec.Bits} (h : Rep N k ws f) (pos : Nat) (hp : pos < N) :
    ∃ ws', flip N ws pos = .ok ws' ∧ Rep N k ws' (Spec.flip1 f pos) := by
  simp only [flip, hp, if_true]; exact uncheckedFlip_rep h pos hp

/-- `b[pos] = x` through the proxy reference -/
theorem refAssign_rep {N k : Nat} {ws : Words k} {f : Spec.Bits} (h : Rep N k ws f) (pos : Nat) (hp : pos < N)
    (x : Bool) : ∃ ws', refAssign N ws pos x = .ok ws' ∧ Rep N k ws' (Spec.set1 f pos x) := by
  simp only [refAssign, hp, if_true]
  exact rmw_spec N ws f h pos hp (fun w b => setBitTo w b x) (fun _ => x) (hop_setBitTo pos x)

/-- `b[pos].flip()` through the proxy reference -/
theorem refFlip_rep {N k : Nat} {ws : Words k} {f : Spec.Bits} (h : Rep N k ws f) (pos : Nat) (hp : pos < N) :
    ∃ ws', refFlip N ws pos = .ok ws' ∧ Rep N k ws' (Spec.flip1 f pos) := by
  simp only [refFlip, hp, if_true]
  obtain ⟨ws', h1, h2⟩ := rmw_spec N ws f h pos hp flipBit (fun b => !b) (hop_flipBit pos)
  exact ⟨ws', h1, h2.congr (fun i _ => by by_cases e : i = pos <;> simp [Spec.flip1, e])⟩

/-! ## single-bit observers -/

theorem uncheckedTest_eq {N k : Nat} {ws : Words k} {f : Spec.Bits} (h : Rep N k ws f) (pos : Nat) (hp : pos < N) :
    uncheckedTest N ws pos = .ok (Spec.test f pos) := by
  simp only [uncheckedTest, hp, if_true]; exact readBit_spec N ws f h pos hp

/-- `bitset::test(pos)` -/
theorem test_eq {N k : Nat} {ws : Words k} {f : Spec.Bits} (h : Rep N k ws f) (pos : Nat) (hp : pos < N) :
    test N ws pos = .ok (Spec.test f pos) := by
  simp only [test, hp, if_true]; exact uncheckedTest_eq h pos hp

/-- `operator[](pos) const` -/
theorem getConst_eq {N k : Nat} {ws : Words k} {f : Spec.Bits} (h : Rep N k ws f) (pos : Nat) (hp : pos < N) :
    getConst N ws pos = .ok (Spec.test f pos) := by
  simp only [getConst, hp, if_true]; exact uncheckedTest_eq h pos hp

/-- `bool(b[pos])` through the proxy reference -/
theorem refGet_eq {N k : Nat} {ws : Words k} {f : Spec.Bits} (h : Rep N k ws f) (pos : Nat) (hp : pos < N) :
    refGet N ws pos = .ok (Spec.test f pos) := by
  simp only [refGet, hp, if_true]; exact readBit_spec N ws f h pos hp

/-- `~b[pos]` through the proxy reference -/
theorem refNot_eq {N k : Nat} {ws : Words k} {f : Spec.Bits} (h : Rep N k ws f) (pos : Nat) (hp : pos < N) :
    refNot N ws pos = .ok (!Spec.test f pos) := by
  simp [refNot, refGet_eq h pos hp]

/-! ## whole-set members -/

/-- `reset()` -/
theorem resetAll_rep {N k : Nat} {ws : Words k} {f : Spec.Bits} (h : Rep N k ws f) :
    Rep N k (resetAll ws) (Spec.resetAll f) := by
  refine rep_of_words _ _ (by simp [resetAll, h.len]) (fun q x hx j _ => ?_)
  simp only [resetAll, List.getElem?_map] at hx
  cases hq : ws[q]? with
  | none => simp [hq] at hx
  | some y =>
    simp [hq] at hx
    subst hx
    simp [Spec.resetAll]

/-- `set()`: the padding bits of the last word stay zero -/
theorem setAll_rep {N k : Nat} {ws : Words k} {f : Spec.Bits} (h : Rep N k ws f) :
    ∃ ws', setAll N ws = .ok ws' ∧ Rep N k ws' (Spec.setAll f) := by
  have hlen := h.len
  have hpadd := padding_add N k
  by_cases hp : hasPadding N k = true
  · have hN := pos_of_hasPadding hp
    have hnw := numWords_pos N k hN
    obtain ⟨m, hm, hmb⟩ := paddingMaskInv_spec N k hN
    have hne : ws.length ≠ 0 := by omega
    have hlt : numWords N k - 1 <
        ((ws.take (ws.length - 1)).map (fun _ => ones k) ++ ws.drop (ws.length - 1)).length := by
      simp; omega
    simp only [setAll, hp, if_true, hne, if_false, hm, ok_bind, wr_ok m hlt]
    refine ⟨_, rfl, rep_of_words _ _ (by simp; omega) (fun q x hx j hj => ?_)⟩
    rw [List.getElem?_set] at hx
    by_cases hq : numWords N k - 1 = q
    · -- the last word: the inverse padding mask
      rw [if_pos hq, if_pos hlt] at hx
      cases hx
      rw [hmb j hj, ← hq, Nat.sub_mul, Nat.one_mul]
      have h4 : 2 ^ k ≤ numWords N k * 2 ^ k := Nat.le_mul_of_pos_left _ hnw
      simp only [Spec.setAll, Bool.and_true]
      congr 1; apply propext; omega
    · -- a head word: all ones
      rw [if_neg hq] at hx
      have hq' : q < ws.length - 1 := by
        have : q < ws.length := by
          have := (List.getElem?_eq_some_iff.mp hx).1
          simp at this; omega
        omega
      rw [List.getElem?_append_left (by simp; omega)] at hx
      simp only [List.getElem?_map, List.getElem?_take, hq', if_true] at hx
      have hqs : ws[q]? = some ws[q] := by simp
      rw [hqs] at hx
      cases hx
      have h5 : (q + 1) * 2 ^ k ≤ (numWords N k - 1) * 2 ^ k := Nat.mul_le_mul_right _ (by omega)
      have h6 := numWords_pred_mul_lt N k hN
      rw [Nat.add_mul, Nat.one_mul] at h5
      have : q * 2 ^ k + j < N := by omega
      simp [ones, Spec.setAll, hj, this]
  · have hp0 : padding N k = 0 := by simpa [hasPadding] using hp
    simp only [setAll, hp]
    refine ⟨_, rfl, rep_of_words _ _ (by simp [hlen]) (fun q x hx j hj => ?_)⟩
    simp only [List.getElem?_map] at hx
    cases hq : ws[q]? with
    | none => simp [hq] at hx
    | some y =>
      simp [hq] at hx
      subst hx
      have hql : q < numWords N k := by
        rw [← hlen]; exact (List.getElem?_eq_some_iff.mp hq).1
      have h5 : (q + 1) * 2 ^ k ≤ numWords N k * 2 ^ k := Nat.mul_le_mul_right _ (by omega)
      rw [Nat.add_mul, Nat.one_mul] at h5
      have : q * 2 ^ k + j < N := by omega
      simp [ones, Spec.setAll, hj, this]

/-- `flip()`: the padding bits of the last word are masked off again -/
theorem flipAll_rep {N k : Nat} {ws : Words k} {f : Spec.Bits} (h : Rep N k ws f) :
    ∃ ws', flipAll N ws = .ok ws' ∧ Rep N k ws' (Spec.flipAll f) := by
  have hlen := h.len
  have hpadd := padding_add N k
  by_cases hp : hasPadding N k = true
  · have hN := pos_of_hasPadding hp
    have hnw := numWords_pos N k hN
    obtain ⟨m, hm, hmb⟩ := paddingMaskInv_spec N k hN
    have hlt : numWords N k - 1 < (ws.map (fun word => ~~~word)).length := by simp; omega
    simp only [flipAll, hp, if_true, rd_ok hlt, hm, ok_bind, wr_ok _ hlt]
    refine ⟨_, rfl, rep_of_words _ _ (by simp [hlen]) (fun q x hx j hj => ?_)⟩
    rw [List.getElem?_set] at hx
    have hlt' : numWords N k - 1 < ws.length := by omega
    by_cases hq : numWords N k - 1 = q
    · rw [if_pos hq, if_pos hlt] at hx
      cases hx
      rw [BitVec.getLsbD_and, hmb j hj, List.getElem_map, BitVec.getLsbD_not, h.word _ hlt' j hj, ← hq,
        Nat.sub_mul, Nat.one_mul]
      have h4 : 2 ^ k ≤ numWords N k * 2 ^ k := Nat.le_mul_of_pos_left _ hnw
      have e : (numWords N k * 2 ^ k - 2 ^ k + j < N) = (j < 2 ^ k - padding N k) := by apply propext; omega
      simp only [e, Spec.flipAll, hj, decide_true, Bool.true_and]
      cases decide (j < 2 ^ k - padding N k) <;> simp
    · rw [if_neg hq] at hx
      simp only [List.getElem?_map] at hx
      cases hqs : ws[q]? with
      | none => simp [hqs] at hx
      | some y =>
        simp [hqs] at hx
        subst hx
        obtain ⟨hql, hqe⟩ := List.getElem?_eq_some_iff.mp hqs
        subst hqe
        have h5 : (q + 1) * 2 ^ k ≤ (numWords N k - 1) * 2 ^ k := Nat.mul_le_mul_right _ (by omega)
        have h6 := numWords_pred_mul_lt N k hN
        rw [Nat.add_mul, Nat.one_mul] at h5
        have : q * 2 ^ k + j < N := by omega
        rw [BitVec.getLsbD_not, h.word _ hql j hj]
        simp [Spec.flipAll, hj, this]
  · have hp0 : padding N k = 0 := by simpa [hasPadding] using hp
    simp only [flipAll, hp]
    refine ⟨_, rfl, rep_of_words _ _ (by simp [hlen]) (fun q x hx j hj => ?_)⟩
    simp only [List.getElem?_map] at hx
    cases hqs : ws[q]? with
    | none => simp [hqs] at hx
    | some y =>
      simp [hqs] at hx
      subst hx
      obtain ⟨hql, hqe⟩ := List.getElem?_eq_some_iff.mp hqs
      subst hqe
      have h5 : (q + 1) * 2 ^ k ≤ numWords N k * 2 ^ k := Nat.mul_le_mul_right _ (by omega)
      rw [Nat.add_mul, Nat.one_mul] at h5
      have : q * 2 ^ k + j < N := by omega
      rw [BitVec.getLsbD_not, h.word _ hql j hj]
      simp [Spec.flipAll, hj, this]

/-- `operator~` -/
theorem not_rep {N k : Nat} {ws : Words k} {f : Spec.Bits} (h : Rep N k ws f) :
    ∃ ws', C17.not N ws = .ok ws' ∧ Rep N k ws' (Spec.flipAll f) := by
  exact flipAll_rep h

/-! ## `&=`, `|=`, `^=` -/

theorem transform2_rep {N k : Nat} {a b : Words k} {fa fb : Spec.Bits} (ha : Rep N k a fa) (hb : Rep N k b fb)
    (g : Word k → Word k → Word k) (g' : Bool → Bool → Bool) (hff : g' false false = false)
    (hg : ∀ x y j, (g x y).getLsbD j = g' (x.getLsbD j) (y.getLsbD j)) :
    ∃ ws', transform2 g a b = .ok ws' ∧ Rep N k ws' (fun i => g' (fa i) (fb i)) := by
  have hl : ¬ b.length < a.length := by rw [ha.len, hb.len]; omega
  simp only [transform2, hl, if_false]
  refine ⟨_, rfl, rep_of_words _ _ (by simp [ha.len, hb.len]) (fun q x hx j hj => ?_)⟩
  rw [List.getElem?_zipWith] at hx
  cases hqa : a[q]? with
  | none => simp [hqa] at hx
  | some xa =>
    cases hqb : b[q]? with
    | none => simp [hqa, hqb] at hx
    | some xb =>
      simp [hqa, hqb] at hx
      subst hx
      obtain ⟨hla, hea⟩ := List.getElem?_eq_some_iff.mp hqa
      obtain ⟨hlb, heb⟩ := List.getElem?_eq_some_iff.mp hqb
      subst hea; subst heb
      rw [hg, ha.word _ hla j hj, hb.word _ hlb j hj]
      cases decide (q * 2 ^ k + j < N) <;> simp [hff]

/-- `operator&=` (and `operator&`) -/
theorem andAssign_rep {N k : Nat} {a b : Words k} {fa fb : Spec.Bits} (ha : Rep N k a fa) (hb : Rep N k b fb) :
    ∃ ws', andAssign a b = .ok ws' ∧ Rep N k ws' (Spec.and fa fb) :=
  transform2_rep ha hb _ (fun x y => x && y) rfl (fun _ _ _ => BitVec.getLsbD_and)

/-- `operator|=` (and `operator|`) -/
theorem orAssign_rep {N k : Nat} {a b : Words k} {fa fb : Spec.Bits} (ha : Rep N k a fa) (hb : Rep N k b fb) :
    ∃ ws', orAssign a b = .ok ws' ∧ Rep N k ws' (Spec.or fa fb) :=
  transform2_rep ha hb _ (fun x y => x || y) rfl (fun _ _ _ => BitVec.getLsbD_or)

/-- `operator^=` (and `operator^`) -/
theorem xorAssign_rep {N k : Nat} {a b : Words k} {fa fb : Spec.Bits} (ha : Rep N k a fa) (hb : Rep N k b fb) :
    ∃ ws', xorAssign a b = .ok ws' ∧ Rep N k ws' (Spec.xor fa fb) :=
  transform2_rep ha hb _ (fun x y => x != y) rfl (fun _ _ _ => by rw [BitVec.getLsbD_xor])

/-! ## construction from `unsigned long long` -/

theorem fromUllLoop_rep {N k : Nat} (val : Word 6) : ∀ (n i : Nat) (ws : Words k) (g : Spec.Bits), Rep N k ws g →
    i + n ≤ N → i + n ≤ 64 →
    ∃ ws', fromUllLoop N val n i ws = .ok ws' ∧
      Rep N k ws' (fun j => if i ≤ j ∧ j < i + n then val.getLsbD j else g j)
  | 0, i, ws, g, h, _, _ => ⟨ws, rfl, h.congr (fun j _ => by simp; omega)⟩
  | n + 1, i, ws, g, h, h1, h2 => by
    have hi : i < 2 ^ 6 := by omega
    have ht := testBit_spec val (BitVec.ofNat (2 ^ 6) i) (by rw [ofNat_toNat_of_lt hi]; exact hi)
    rw [ofNat_toNat_of_lt hi] at ht
    obtain ⟨ws1, hs1, hr1⟩ := uncheckedSet_rep h i (by omega) (val.getLsbD i)
    obtain ⟨ws', hs', hr'⟩ := fromUllLoop_rep val n (i + 1) ws1 _ hr1 (by omega) (by omega)
    refine ⟨ws', by simp [fromUllLoop, ht, hs1, hs'], hr'.congr (fun j _ => ?_)⟩
    by_cases hji : j = i
    · subst hji; simp [Spec.set1]
    · have e1 : (i + 1 ≤ j ∧ j < i + 1 + n) = (i ≤ j ∧ j < i + (n + 1)) := by apply propext; omega
      simp only [e1, Spec.set1, hji, if_false]

/-- `bitset(unsigned long long val)` / `basic_bitset(unsigned long long val)` -/
theorem fromUll_rep (N k v : Nat) (hv : v < 2 ^ 64) :
    ∃ ws', fromUll N k v = .ok ws' ∧ Rep N k ws' (Spec.ofNat v) := by
  obtain ⟨ws', hs, hr⟩ := fromUllLoop_rep (N := N) (k := k) (BitVec.ofNat (2 ^ 6) v) (min 64 N) 0 (init N k) _
    (init_rep N k) (by omega) (by omega)
  refine ⟨ws', hs, hr.congr (fun j hj => ?_)⟩
  simp only [Spec.ofNat, Spec.zero, BitVec.getLsbD_ofNat, Nat.zero_le, true_and, Nat.zero_add]
  by_cases h64 : j < 64
  · have : j < min 64 N := by omega
    simp [this, h64]
  · have : ¬ j < min 64 N := by omega
    have hlt : v < 2 ^ j := Nat.lt_of_lt_of_le hv (Nat.pow_le_pow_right (by decide) (by omega))
    simp [this, Nat.testBit_lt_two_pow hlt]

/-! ## whole-set observers: the padding bits never influence a result -/

/-- `none()` -/
theorem none_eq {N k : Nat} {ws : Words k} {f : Spec.Bits} (h : Rep N k ws f) : none ws = Spec.none N f := by
  rw [Bool.eq_iff_iff, none_iff h]
  simp only [Spec.none, Spec.any, Bool.not_eq_true', List.any_eq_false, List.mem_range]
  constructor
  · intro hf i hi; simp [hf i hi]
  · intro hf i hi; simpa using hf i hi

/-- `any()` -/
theorem any_eq {N k : Nat} {ws : Words k} {f : Spec.Bits} (h : Rep N k ws f) : any ws = Spec.any N f := by
  have := none_eq h
  simp only [Spec.none] at this
  simp [any, this]

/-- `operator==` -/
theorem eq_eq {N k : Nat} {a b : Words k} {fa fb : Spec.Bits} (ha : Rep N k a fa) (hb : Rep N k b fb) :
    eq a b = Spec.eq N fa fb := by
  rw [Bool.eq_iff_iff]
  simp only [eq, beq_iff_eq, Spec.eq, rangeAll_iff]
  exact eq_iff ha hb

/-- `count()` -/
theorem count_eq' {N k : Nat} {ws : Words k} {f : Spec.Bits} (h : Rep N k ws f) : count ws = Spec.count N f :=
  count_eq h

/-- `all()` -/
theorem all_eq {N k : Nat} {ws : Words k} {f : Spec.Bits} (h : Rep N k ws f) :
    all N ws = .ok (Spec.all N f) := by
  have hlen := h.len
  by_cases hp : hasPadding N k = true
  · have hN := pos_of_hasPadding hp
    have hnw := numWords_pos N k hN
    obtain ⟨m, hm, hmb⟩ := paddingMaskInv_spec N k hN
    have hne : ws.length ≠ 0 := by omega
    have hlt : numWords N k - 1 < ws.length := by omega
    simp only [all, hp, if_true, hne, if_false, rd_ok hlt, hm, ok_bind]
    congr 1
    rw [Bool.eq_iff_iff, Spec.all, rangeAll_iff, ← all_words_iff hN h m hmb, Bool.and_eq_true, all_iff_getElem]
    constructor
    · rintro ⟨h1, h2⟩
      refine ⟨fun q hq hl => ?_, fun _ => by simpa using h2⟩
      have hq' : q < (ws.take (ws.length - 1)).length := by simp; omega
      have := h1 q hq'
      simpa using this
    · rintro ⟨h1, h2⟩
      refine ⟨fun q hq => ?_, by simpa using h2 hlt⟩
      have hq1 : q < ws.length - 1 := by simp at hq; omega
      simpa using h1 q (by omega) (by omega)
  · have hp0 : padding N k = 0 := by simpa [hasPadding] using hp
    have hpadd := padding_add N k
    simp only [all, hp, Bool.false_eq_true, if_false]
    congr 1
    rw [Bool.eq_iff_iff, Spec.all, rangeAll_iff, all_iff_getElem]
    constructor
    · intro h1 i hi
      have hq : i / 2 ^ k < ws.length := by rw [h.len]; exact wordIndex_lt hi
      have hmod : i % 2 ^ k < 2 ^ k := Nat.mod_lt _ (two_pow_pos' k)
      have hb := h.bit i
      rw [bitAt_eq_getLsbD ws i hq] at hb
      have := h1 _ hq
      simp only [beq_iff_eq] at this
      rw [this] at hb
      simpa [ones, hmod, hi] using hb.symm
    · intro hf q hq
      simp only [beq_iff_eq]
      apply BitVec.eq_of_getLsbD_eq
      intro j hj
      have h5 : (q + 1) * 2 ^ k ≤ numWords N k * 2 ^ k := Nat.mul_le_mul_right _ (by omega)
      rw [Nat.add_mul, Nat.one_mul] at h5
      have : q * 2 ^ k + j < N := by omega
      rw [h.word q hq j hj]
      simp [ones, hj, this, hf _ this]

/-! ## construction from strings -/

/-- one iteration of the string-constructor loop: bit `i` becomes `c != zero` for a valid character -/
theorem fromString_step {N k : Nat} {ws : Words k} {g : Spec.Bits} (h : Rep N k ws g) (i : Nat) (hi : i < N)
    (c zeroCh oneCh : Nat) (hc : c = zeroCh ∨ c = oneCh) :
    ∃ ws2, fromStringBody N ws i c zeroCh oneCh = .ok ws2 ∧
      Rep N k ws2 (Spec.set1 g i (c != zeroCh)) := by
  unfold fromStringBody
  by_cases h1 : c = oneCh
  · obtain ⟨ws1, hs1, hr1⟩ := set_rep h i hi true
    by_cases h0 : c = zeroCh
    · obtain ⟨ws2, hs2, hr2⟩ := set_rep hr1 i hi false
      refine ⟨ws2, by simp [← h1, ← h0, hs1, hs2], hr2.congr (fun j _ => ?_)⟩
      by_cases e : j = i <;> simp [Spec.set1, e, h0]
    · refine ⟨ws1, by simp [← h1, h0, hs1], hr1.congr (fun j _ => ?_)⟩
      by_cases e : j = i <;> simp [Spec.set1, e, h0]
  · have h0 : c = zeroCh := by cases hc with | inl h => exact h | inr h => exact absurd h h1
    obtain ⟨ws2, hs2, hr2⟩ := set_rep h i hi false
    have h1' : ¬ zeroCh = oneCh := by rw [← h0]; exact h1
    refine ⟨ws2, by simp [h0, h1', hs2], hr2.congr (fun j _ => ?_)⟩
    by_cases e : j = i <;> simp [Spec.set1, e, h0]

theorem svAt_ok {mem : List Nat} {size i : Nat} (h1 : i < size) (h2 : i < mem.length) :
    svAt mem size i = .ok mem[i] := by
  simp [svAt, h1, rd_ok h2]

/-- a view never shows anything behind its `size()`: reading through `(mem, size)` is reading the exact-size
    buffer `mem.take size` -/
theorem svAt_take (mem : List Nat) (size i : Nat) : svAt (mem.take size) size i = svAt mem size i := by
  unfold svAt
  by_cases h : i < size
  · simp [h, rd]
  · simp [h]

theorem fromStringLoop_rep {N k : Nat} (str : List Nat) (pos len zeroCh oneCh : Nat) (hlenN : len ≤ N)
    (hL : pos + len ≤ str.length)
    (hvalid : ∀ t (ht : pos + t < str.length), t < len → str[pos + t] = zeroCh ∨ str[pos + t] = oneCh) :
    ∀ (fuel i : Nat) (ws : Words k) (g : Spec.Bits), Rep N k ws g → i + fuel = len →
    ∃ ws', fromStringLoop N str str.length pos len zeroCh oneCh fuel i ws = .ok ws' ∧
      Rep N k ws' (fun j => if i ≤ j ∧ j < len then
        (match str[pos + (len - 1 - j)]? with | some c => c != zeroCh | Option.none => false) else g j)
  | 0, i, ws, g, h, _ => ⟨ws, rfl, h.congr (fun j _ => by
      have : ¬ (i ≤ j ∧ j < len) := by omega
      simp [this])⟩
  | fuel + 1, i, ws, g, h, hsum => by
    have hil : i < len := by omega
    have hidx : pos + len - 1 - i = pos + (len - 1 - i) := by omega
    have hlt : pos + (len - 1 - i) < str.length := by omega
    have hc := hvalid (len - 1 - i) hlt (by omega)
    obtain ⟨ws2, hs2, hr2⟩ := fromString_step h i (by omega) str[pos + (len - 1 - i)] zeroCh oneCh hc
    obtain ⟨ws', hs', hr'⟩ := fromStringLoop_rep str pos len zeroCh oneCh hlenN hL hvalid fuel (i + 1) ws2 _ hr2
      (by omega)
    refine ⟨ws', ?_, hr'.congr (fun j _ => ?_)⟩
    · simp only [fromStringLoop, hidx, svAt_ok hlt hlt, ok_bind, hs2, hs']
    · by_cases hji : j = i
      · subst hji
        have : ¬ (j + 1 ≤ j ∧ j < len) := by omega
        simp [Spec.set1, hil, hlt]
      · have e1 : (i + 1 ≤ j ∧ j < len) = (i ≤ j ∧ j < len) := by apply propext; omega
        simp only [e1, Spec.set1, hji, if_false]

/-- the characters a string constructor uses: the first `N` of `str[pos, pos + n)` -/
def usedChars (N : Nat) (str : List Nat) (pos n : Nat) : List Nat := ((str.drop pos).take n).take N

theorem usedChars_length (N : Nat) (str : List Nat) (pos n : Nat) :
    (usedChars N str pos n).length = min (min n (str.length - pos)) N := by
  simp [usedChars]; omega

theorem usedChars_getElem? (N : Nat) (str : List Nat) (pos n t : Nat) (ht : t < min (min n (str.length - pos)) N) :
    (usedChars N str pos n)[t]? = str[pos + t]? := by
  have h1 : t < N := by omega
  have h2 : t < n := by omega
  simp [usedChars, List.getElem?_drop, h1, h2]

/-- `bitset(string_view str, pos, n, zero, one)`; preconditions: `pos <= str.size()` (std throws
    `out_of_range`) and every used character is `zero` or `one` (std throws `invalid_argument`) -/
theorem fromString_rep (N k : Nat) (str : List Nat) (pos n zeroCh oneCh : Nat) (hpos : pos ≤ str.length)
    (hvalid : (usedChars N str pos n).all (fun c => c == zeroCh || c == oneCh) = true) :
    ∃ ws', fromString N k str pos n zeroCh oneCh = .ok ws' ∧ Rep N k ws' (Spec.ofString N str pos n zeroCh) := by
  obtain ⟨ws0, hs0, hr0⟩ := fromUll_rep N k 0 (by decide)
  have hnp : ¬ pos > str.length := by omega
  let len := min (min n (str.length - pos)) N
  have hlen : len = min (min n (str.length - pos)) N := rfl
  have hv : ∀ t (ht : pos + t < str.length), t < len → str[pos + t] = zeroCh ∨ str[pos + t] = oneCh := by
    intro t ht htl
    rw [all_iff_getElem] at hvalid
    have hlt : t < (usedChars N str pos n).length := by rw [usedChars_length]; exact htl
    have := hvalid t hlt
    have e : (usedChars N str pos n)[t] = str[pos + t] := by
      have h1 := usedChars_getElem? N str pos n t htl
      rw [List.getElem?_eq_getElem hlt, List.getElem?_eq_getElem ht] at h1
      exact Option.some.inj h1
    rw [e] at this
    simpa using this
  obtain ⟨ws', hs', hr'⟩ := fromStringLoop_rep (N := N) (k := k) str pos len zeroCh oneCh (by omega) (by omega) hv
    len 0 ws0 _ hr0 (by omega)
  refine ⟨ws', by simp only [fromString, fromStringV, hnp, if_false, hs0, ok_bind]; exact hs', hr'.congr (fun j _ => ?_)⟩
  simp only [Spec.ofString, Nat.zero_le, true_and]
  have hul := usedChars_length N str pos n
  by_cases hj : j < len
  · have h1 : j < (usedChars N str pos n).length := by rw [hul]; exact hj
    have h2 : (usedChars N str pos n).length - 1 - j < min (min n (str.length - pos)) N := by omega
    have : (((str.drop pos).take n).take N).reverse[j]? = str[pos + (len - 1 - j)]? := by
      show (usedChars N str pos n).reverse[j]? = _
      rw [List.getElem?_reverse h1, usedChars_getElem? N str pos n _ h2, hul]
    simp only [hj, if_true, this]
    cases str[pos + (len - 1 - j)]? <;> rfl
  · have : (((str.drop pos).take n).take N).reverse[j]? = Option.none := by
      show (usedChars N str pos n).reverse[j]? = _
      apply List.getElem?_eq_none
      rw [List.length_reverse, hul]; omega
    simp [hj, this, Spec.ofNat]

/-! ### what the constructors read -/

theorem fromStringLoop_take {N k : Nat} (mem : List Nat) (size pos len zeroCh oneCh : Nat) :
    ∀ (fuel i : Nat) (ws : Words k),
      fromStringLoop N (mem.take size) size pos len zeroCh oneCh fuel i ws =
        fromStringLoop N mem size pos len zeroCh oneCh fuel i ws
  | 0, _, _ => rfl
  | fuel + 1, i, ws => by
    simp only [fromStringLoop, svAt_take]
    congr 1; funext ch; congr 1; funext ws2
    exact fromStringLoop_take mem size pos len zeroCh oneCh fuel (i + 1) ws2

/-- the view constructor depends on nothing behind `size()` -/
theorem fromStringV_take (N k : Nat) (mem : List Nat) (size pos n zeroCh oneCh : Nat) :
    fromStringV N k (mem.take size) size pos n zeroCh oneCh = fromStringV N k mem size pos n zeroCh oneCh := by
  unfold fromStringV
  simp only [fromStringLoop_take]

/-- a view `(mem, size)` inside its allocation behaves like the exact-size buffer of its characters -/
theorem fromStringV_eq (N k : Nat) (mem : List Nat) (size pos n zeroCh oneCh : Nat) (hsz : size ≤ mem.length) :
    fromStringV N k mem size pos n zeroCh oneCh = fromString N k (mem.take size) pos n zeroCh oneCh := by
  rw [← fromStringV_take]
  unfold fromString
  rw [List.length_take, Nat.min_eq_left hsz]

/-- **Footprint of the view constructor**: the result on an exact-size buffer `str` equals the result on
    any extension of it (the view still has `size() = |str|`); nothing at or behind `str.size()` is read,
    whatever `pos`, `n` and the characters are. -/
theorem fromString_footprint (N k : Nat) (str ext : List Nat) (pos n zeroCh oneCh : Nat) :
    fromStringV N k (str ++ ext) str.length pos n zeroCh oneCh = fromString N k str pos n zeroCh oneCh := by
  rw [fromStringV_eq N k (str ++ ext) str.length pos n zeroCh oneCh (by simp), List.take_left']
  rfl

/-- a buffer that contains a terminator: the characters before it (none of them null), the terminator,
    the rest -/
theorem exists_terminator : ∀ (mem : List Nat), 0 ∈ mem →
    ∃ s rest, mem = s ++ 0 :: rest ∧ (∀ c, c ∈ s → c ≠ 0) ∧ mem.takeWhile (fun c => c != 0) = s
  | [], h => by simp at h
  | c :: t, h => by
    by_cases hc : c = 0
    · subst hc
      exact ⟨[], t, by simp, by simp, by simp⟩
    · have ht : 0 ∈ t := by
        cases h with
        | head => exact absurd rfl hc
        | tail _ h' => exact h'
      obtain ⟨s, rest, hr, hs, htw⟩ := exists_terminator t ht
      refine ⟨c :: s, rest, by rw [hr]; rfl, ?_, ?_⟩
      · intro x hx
        cases hx with
        | head => exact hc
        | tail _ h' => exact hs x h'
      · have : (c != 0) = true := by simpa using hc
        simp only [List.takeWhile_cons, this, if_true, htw]

theorem strlenLoop_eq (s rest : List Nat) (hs : ∀ c, c ∈ s → c ≠ 0) :
    ∀ (d fuel i : Nat), i + d = s.length → d < fuel → strlenLoop (s ++ 0 :: rest) fuel i = .ok s.length
  | _, 0, _, _, hf => by omega
  | 0, fuel + 1, i, hi, _ => by
    have e : i = s.length := by omega
    subst e
    have h1 : rd (s ++ 0 :: rest) s.length = .ok 0 := by simp [rd]
    simp [strlenLoop, h1]
  | d + 1, fuel + 1, i, hi, hf => by
    have hil : i < s.length := by omega
    have h1 : rd (s ++ 0 :: rest) i = .ok s[i] := by
      simp [rd, List.getElem?_append_left hil, List.getElem?_eq_getElem hil]
    have h2 : (s[i] != 0) = true := by simpa using hs s[i] (List.getElem_mem hil)
    simp only [strlenLoop, h1, ok_bind, h2, if_true]
    exact strlenLoop_eq s rest hs d fuel (i + 1) (by omega) (by omega)

/-- `strlen` on a terminated buffer: the number of characters before the first `CharT(0)`; it reads those
    and the terminator (never `.error`) -/
theorem strlen_eq (mem : List Nat) (h0 : 0 ∈ mem) :
    strlen mem = .ok (mem.takeWhile (fun c => c != 0)).length := by
  obtain ⟨s, rest, hr, hs, htw⟩ := exists_terminator mem h0
  rw [htw]
  unfold strlen
  have key := strlenLoop_eq s rest hs s.length (mem.length + 1) 0 (by omega) (by rw [hr]; simp; omega)
  rw [← hr] at key
  exact key

/-- the pointer overload's precondition [bitset.cons]: with `n == npos` the buffer holds a terminator;
    otherwise `[str, str + n)` is readable — nothing is required of the units at or behind `str + n` -/
def cstrReadable (mem : List Nat) (n : Nat) : Bool :=
  if n = NPOS then mem.contains 0 else decide (n ≤ mem.length)

theorem cstrReadable_npos {mem : List Nat} (h : cstrReadable mem NPOS = true) : 0 ∈ mem := by
  simpa [cstrReadable] using h

theorem cstrReadable_n {mem : List Nat} {n : Nat} (hn : n ≠ NPOS) (h : cstrReadable mem n = true) :
    n ≤ mem.length := by
  simpa [cstrReadable, hn] using h

/-- the pointer overload is the view constructor on the exact-size buffer of the characters that
    `std::bitset` uses ([bitset.cons]: `basic_string(str)` / `basic_string(str, n)`) -/
theorem fromCstr_eq (N k : Nat) (mem : List Nat) (n zeroCh oneCh : Nat) (hn : cstrReadable mem n = true) :
    fromCstr N k mem n zeroCh oneCh = fromString N k (Spec.cstrChars mem n) 0 n zeroCh oneCh := by
  unfold fromCstr
  by_cases h1 : n = NPOS
  · subst h1
    have h0 := cstrReadable_npos hn
    obtain ⟨s, rest, hr, _, htw⟩ := exists_terminator mem h0
    have hc : Spec.cstrChars mem NPOS = s := by
      simp [Spec.cstrChars, NPOS, Spec.npos, htw]
    have ht : mem.take s.length = s := by rw [hr]; exact List.take_left' rfl
    have hle : s.length ≤ mem.length := by rw [hr]; simp
    simp only [beq_self_eq_true, if_true, strlen_eq mem h0, ok_bind, htw]
    rw [fromStringV_eq N k mem _ 0 NPOS zeroCh oneCh hle, ht, hc]
  · have hle := cstrReadable_n h1 hn
    have hb : (n == NPOS) = false := by simpa using h1
    have hc : Spec.cstrChars mem n = mem.take n := by
      have : ¬ n = Spec.npos := h1
      simp [Spec.cstrChars, this]
    simp only [hb, Bool.false_eq_true, if_false]
    rw [fromStringV_eq N k mem n 0 n zeroCh oneCh hle, hc]

/-- `bitset(char const* str, n, zero, one)`; preconditions: `cstrReadable` (a terminator when `n == npos`,
    `[str, str + n)` readable otherwise) and every used character is `zero` or `one`.  `mem` is everything
    that is readable from `str`; with an explicit `n` the first `n` units are the digits, null characters
    included. -/
theorem fromCstr_rep (N k : Nat) (mem : List Nat) (n zeroCh oneCh : Nat) (hn : cstrReadable mem n = true)
    (hvalid : (usedChars N (Spec.cstrChars mem n) 0 n).all (fun c => c == zeroCh || c == oneCh) = true) :
    ∃ ws', fromCstr N k mem n zeroCh oneCh = .ok ws' ∧ Rep N k ws' (Spec.ofCstr N mem n zeroCh) := by
  rw [fromCstr_eq N k mem n zeroCh oneCh hn]
  exact fromString_rep N k (Spec.cstrChars mem n) 0 n zeroCh oneCh (Nat.zero_le _) hvalid

/-- **Footprint of the pointer overload with an explicit `n`**: the result on the exact-size buffer of `n`
    units (no terminator behind it) equals the result on any extension of it — exactly the first `n` units are
    read and no terminator is looked for, whatever the characters are (no validity hypothesis: a `CharT(0)`
    among them changes nothing). -/
theorem fromCstr_footprint (N k : Nat) (buf ext : List Nat) (zeroCh oneCh : Nat) (hn : buf.length ≠ NPOS) :
    fromCstr N k (buf ++ ext) buf.length zeroCh oneCh = fromCstr N k buf buf.length zeroCh oneCh := by
  have hb : (buf.length == NPOS) = false := by simpa using hn
  unfold fromCstr
  simp only [hb, Bool.false_eq_true, if_false]
  rw [fromString_footprint]
  rfl

/-- the same for a longer readable buffer and a smaller `n`: only `mem.take n` matters -/
theorem fromCstr_take (N k : Nat) (mem : List Nat) (n zeroCh oneCh : Nat) (hn : n ≠ NPOS) (hle : n ≤ mem.length) :
    fromCstr N k mem n zeroCh oneCh = fromCstr N k (mem.take n) n zeroCh oneCh := by
  have e : mem = mem.take n ++ mem.drop n := (List.take_append_drop n mem).symm
  have hl : (mem.take n).length = n := by simp [hle]
  have := fromCstr_footprint N k (mem.take n) (mem.drop n) zeroCh oneCh (by rw [hl]; exact hn)
  rw [hl, ← e] at this
  exact this

/-- **Footprint of the `npos` form**: the characters before the terminator and the terminator itself are
    read, nothing behind it: the result on `s ++ [0]` equals the result on any extension. -/
theorem fromCstr_npos_footprint (N k : Nat) (s ext : List Nat) (zeroCh oneCh : Nat) (hs : ∀ c, c ∈ s → c ≠ 0) :
    fromCstr N k (s ++ 0 :: ext) NPOS zeroCh oneCh = fromCstr N k (s ++ [0]) NPOS zeroCh oneCh := by
  have l1 := strlenLoop_eq s ext hs s.length ((s ++ 0 :: ext).length + 1) 0 (by omega) (by simp; omega)
  have l2 := strlenLoop_eq s [] hs s.length ((s ++ [0]).length + 1) 0 (by omega) (by simp; omega)
  unfold fromCstr strlen
  simp only [beq_self_eq_true, if_true, l1, l2, ok_bind]
  rw [fromString_footprint, fromString_footprint]

/-! ## calls with defaulted trailing arguments -/

/-- `set(pos)`: the value defaults to `true` -/
theorem setD_rep {N k : Nat} {ws : Words k} {f : Spec.Bits} (h : Rep N k ws f) (pos : Nat) (hp : pos < N) :
    ∃ ws', setD N ws pos = .ok ws' ∧ Rep N k ws' (Spec.set1 f pos true) :=
  set_rep h pos hp true

/-- `bitset(str [, pos [, n [, zero [, one]]]])`: tetl's defaults (`0`, `npos`, `CharT('0')`, `CharT('1')`)
    give what `std::bitset` specifies for its defaults -/
theorem fromStringD_rep (N k : Nat) (str : List Nat) (pos n zeroCh oneCh : Option Nat)
    (hpos : arg pos 0 ≤ str.length)
    (hvalid : (usedChars N str (arg pos 0) (arg n NPOS)).all (fun c => c == arg zeroCh CH0 || c == arg oneCh CH1) = true) :
    ∃ ws', fromStringD N k str pos n zeroCh oneCh = .ok ws' ∧
      Rep N k ws' (Spec.ofString N str (arg pos 0) (arg n Spec.npos) (arg zeroCh Spec.ch0)) :=
  fromString_rep N k str (arg pos 0) (arg n NPOS) (arg zeroCh CH0) (arg oneCh CH1) hpos hvalid

/-- `bitset(cstr [, n [, zero [, one]]])` -/
theorem fromCstrD_rep (N k : Nat) (buf : List Nat) (n zeroCh oneCh : Option Nat)
    (hn : cstrReadable buf (arg n NPOS) = true)
    (hvalid : (usedChars N (Spec.cstrChars buf (arg n NPOS)) 0 (arg n NPOS)).all
      (fun c => c == arg zeroCh CH0 || c == arg oneCh CH1) = true) :
    ∃ ws', fromCstrD N k buf n zeroCh oneCh = .ok ws' ∧
      Rep N k ws' (Spec.ofCstr N buf (arg n Spec.npos) (arg zeroCh Spec.ch0)) :=
  fromCstr_rep N k buf (arg n NPOS) (arg zeroCh CH0) (arg oneCh CH1) hn hvalid

/-! ## histories -/

/-- the documented preconditions of one operation (the generator of `checks/props/c17.py` produces
    exactly the operations with `valid = true`) -/
def Op.valid (N : Nat) : Op → Bool
  | .set _ pos _ => decide (pos < N)
  | .reset _ pos => decide (pos < N)
  | .flip _ pos => decide (pos < N)
  | .refAssign _ pos _ => decide (pos < N)
  | .refFlip _ pos => decide (pos < N)
  | .refCopy _ pos _ spos => decide (pos < N) && decide (spos < N)
  | .fromUll _ v => decide (v < 2 ^ 64)
  | .fromStr _ str pos n zeroCh oneCh =>
    decide (pos ≤ str.length) && (usedChars N str pos n).all (fun c => c == zeroCh || c == oneCh)
  | .fromCstr _ buf n zeroCh oneCh =>
    cstrReadable buf n && (usedChars N (Spec.cstrChars buf n) 0 n).all (fun c => c == zeroCh || c == oneCh)
  | .setD _ pos => decide (pos < N)
  | .fromStrD _ str pos n zeroCh oneCh =>
    decide (arg pos 0 ≤ str.length) &&
      (usedChars N str (arg pos 0) (arg n NPOS)).all (fun c => c == arg zeroCh CH0 || c == arg oneCh CH1)
  | .fromCstrD _ buf n zeroCh oneCh =>
    cstrReadable buf (arg n NPOS) &&
      (usedChars N (Spec.cstrChars buf (arg n NPOS)) 0 (arg n NPOS)).all (fun c => c == arg zeroCh CH0 || c == arg oneCh CH1)
  | _ => true

/-- every live object represents its abstract counterpart -/
def StoreRep (N k : Nat) (st : Store k) (sp : Spec.Store) : Prop := ∀ o, Rep N k (st o) (sp o)

theorem put_rep {N k : Nat} {st : Store k} {sp : Spec.Store} (h : StoreRep N k st sp) (o : Nat) {r : Words k}
    {b : Spec.Bits} (hr : Rep N k r b) : StoreRep N k (st.put o r) (sp.put o b) := by
  intro j
  by_cases e : j = o
  · simp [Store.put, Spec.Store.put, e, hr]
  · simp [Store.put, Spec.Store.put, e, h j]

theorem init_storeRep (N k : Nat) : StoreRep N k (Store.init N k) Spec.Store.init := fun _ => init_rep N k

/-- one valid operation: never an error, every object still represented (padding included), and
    the abstract state moved as `std::bitset` specifies -/
theorem step_rep {N k : Nat} {st : Store k} {sp : Spec.Store} (h : StoreRep N k st sp) (op : Op)
    (hv : Op.valid N op = true) :
    ∃ st', step N st op = .ok st' ∧ StoreRep N k st' (Spec.step N sp op) := by
  cases op with
  | setAll o =>
    obtain ⟨r, hs, hr⟩ := setAll_rep (h o)
    exact ⟨_, by simp [step, hs], put_rep h o hr⟩
  | resetAll o => exact ⟨_, by simp [step], put_rep h o (resetAll_rep (h o))⟩
  | flipAll o =>
    obtain ⟨r, hs, hr⟩ := flipAll_rep (h o)
    exact ⟨_, by simp [step, hs], put_rep h o hr⟩
  | set o pos v =>
    obtain ⟨r, hs, hr⟩ := set_rep (h o) pos (by simpa [Op.valid] using hv) v
    exact ⟨_, by simp [step, hs], put_rep h o hr⟩
  | reset o pos =>
    obtain ⟨r, hs, hr⟩ := reset_rep (h o) pos (by simpa [Op.valid] using hv)
    exact ⟨_, by simp [step, hs], put_rep h o hr⟩
  | flip o pos =>
    obtain ⟨r, hs, hr⟩ := flip_rep (h o) pos (by simpa [Op.valid] using hv)
    exact ⟨_, by simp [step, hs], put_rep h o hr⟩
  | refAssign o pos v =>
    obtain ⟨r, hs, hr⟩ := refAssign_rep (h o) pos (by simpa [Op.valid] using hv) v
    exact ⟨_, by simp [step, hs], put_rep h o hr⟩
  | refFlip o pos =>
    obtain ⟨r, hs, hr⟩ := refFlip_rep (h o) pos (by simpa [Op.valid] using hv)
    exact ⟨_, by simp [step, hs], put_rep h o hr⟩
  | refCopy o pos src spos =>
    simp only [Op.valid, Bool.and_eq_true, decide_eq_true_eq] at hv
    have hg := refGet_eq (h src) spos hv.2
    obtain ⟨r, hs, hr⟩ := refAssign_rep (h o) pos hv.1 (Spec.test (sp src) spos)
    exact ⟨_, by simp [step, hg, hs], put_rep h o hr⟩
  | andA o rhs =>
    obtain ⟨r, hs, hr⟩ := andAssign_rep (h o) (h rhs)
    exact ⟨_, by simp [step, hs], put_rep h o hr⟩
  | orA o rhs =>
    obtain ⟨r, hs, hr⟩ := orAssign_rep (h o) (h rhs)
    exact ⟨_, by simp [step, hs], put_rep h o hr⟩
  | xorA o rhs =>
    obtain ⟨r, hs, hr⟩ := xorAssign_rep (h o) (h rhs)
    exact ⟨_, by simp [step, hs], put_rep h o hr⟩
  | band o a b =>
    obtain ⟨r, hs, hr⟩ := andAssign_rep (h a) (h b)
    exact ⟨_, by simp [step, hs], put_rep h o hr⟩
  | bor o a b =>
    obtain ⟨r, hs, hr⟩ := orAssign_rep (h a) (h b)
    exact ⟨_, by simp [step, hs], put_rep h o hr⟩
  | bxor o a b =>
    obtain ⟨r, hs, hr⟩ := xorAssign_rep (h a) (h b)
    exact ⟨_, by simp [step, hs], put_rep h o hr⟩
  | assign o src => exact ⟨_, by simp [step], put_rep h o (h src)⟩
  | not o src =>
    obtain ⟨r, hs, hr⟩ := not_rep (h src)
    exact ⟨_, by simp [step, hs], put_rep h o hr⟩
  | fromUll o v =>
    obtain ⟨r, hs, hr⟩ := fromUll_rep N k v (by simpa [Op.valid] using hv)
    exact ⟨_, by simp [step, hs], put_rep h o hr⟩
  | fromStr o str pos n zeroCh oneCh =>
    simp only [Op.valid, Bool.and_eq_true, decide_eq_true_eq] at hv
    obtain ⟨r, hs, hr⟩ := fromString_rep N k str pos n zeroCh oneCh hv.1 hv.2
    exact ⟨_, by simp [step, hs], put_rep h o hr⟩
  | fromCstr o buf n zeroCh oneCh =>
    simp only [Op.valid, Bool.and_eq_true] at hv
    obtain ⟨r, hs, hr⟩ := fromCstr_rep N k buf n zeroCh oneCh hv.1 hv.2
    exact ⟨_, by simp [step, hs], put_rep h o hr⟩
  | setD o pos =>
    obtain ⟨r, hs, hr⟩ := setD_rep (h o) pos (by simpa [Op.valid] using hv)
    exact ⟨_, by simp [step, hs], put_rep h o hr⟩
  | fromStrD o str pos n zeroCh oneCh =>
    simp only [Op.valid, Bool.and_eq_true, decide_eq_true_eq] at hv
    obtain ⟨r, hs, hr⟩ := fromStringD_rep N k str pos n zeroCh oneCh hv.1 hv.2
    exact ⟨_, by simp [step, hs], put_rep h o hr⟩
  | fromCstrD o buf n zeroCh oneCh =>
    simp only [Op.valid, Bool.and_eq_true] at hv
    obtain ⟨r, hs, hr⟩ := fromCstrD_rep N k buf n zeroCh oneCh hv.1 hv.2
    exact ⟨_, by simp [step, hs], put_rep h o hr⟩

/-- **Main theorem.** For every width `N` (0 included), every word size `2^k` and every history of valid
    operations, of any length, starting from any represented store: the model never returns an error
    and every object of the final store represents the corresponding object of the `std::bitset`
    specification run on the same history. -/
theorem run_refines {N k : Nat} : ∀ (ops : List Op) {st : Store k} {sp : Spec.Store},
    StoreRep N k st sp → (∀ op, op ∈ ops → Op.valid N op = true) →
    ∃ st', run N st ops = .ok st' ∧ StoreRep N k st' (Spec.run N sp ops)
  | [], st, _, h, _ => ⟨st, rfl, h⟩
  | op :: ops, st, sp, h, hv => by
    obtain ⟨st1, hs1, hr1⟩ := step_rep h op (hv op (List.mem_cons_self))
    obtain ⟨st', hs', hr'⟩ := run_refines ops hr1 (fun o ho => hv o (List.mem_cons_of_mem _ ho))
    exact ⟨st', by simp [run, hs1, hs'], hr'⟩

/-- histories from default-constructed objects -/
theorem run_refines_init {N k : Nat} (ops : List Op) (hv : ∀ op, op ∈ ops → Op.valid N op = true) :
    ∃ st', run N (Store.init N k) ops = .ok st' ∧ StoreRep N k st' (Spec.run N Spec.Store.init ops) :=
  run_refines ops (init_storeRep N k) hv

/-- non-vacuity: a history that crosses a word boundary with whole-set and single-bit operations -/
example : (∀ op, op ∈ [Op.setAll 0, .flip 0 64, .fromUll 1 5, .xorA 0 1, .fromStr 2 [49, 48] 0 NPOS 48 49] →
    Op.valid 65 op = true) := by decide

/-- **Padding invariant over histories.** After any valid history the high `padding` bits of the last
    storage word of every object are zero (and the array has exactly `num_words` words). -/
theorem padding_inv_history {N k : Nat} (ops : List Op)
    (hv : ∀ op, op ∈ ops → Op.valid N op = true) :
    ∃ st', run N (Store.init N k) ops = .ok st' ∧ ∀ o, (st' o).length = numWords N k ∧
      ∀ (hl : numWords N k - 1 < (st' o).length) (j : Nat), 2 ^ k - padding N k ≤ j → j < 2 ^ k →
        (st' o)[numWords N k - 1].getLsbD j = false := by
  obtain ⟨st', hs, hr⟩ := run_refines_init (k := k) ops hv
  refine ⟨st', hs, fun o => ⟨(hr o).len, fun hl j hj1 hj2 => ?_⟩⟩
  have hN : 0 < N := by
    rcases Nat.eq_zero_or_pos N with h0 | h0
    · have := (hr o).len
      rw [h0, numWords_zero] at this
      omega
    · exact h0
  rw [(hr o).word _ hl j hj2]
  have := last_pos_lt (N := N) (k := k) hN hj2
  have hnot : ¬ (numWords N k - 1) * 2 ^ k + j < N := by rw [this]; omega
  simp [hnot]

/-- **Observers after a history** equal those of the specification: `test`/`operator[]`, `count`,
    `all`, `any`, `none`, `==`. -/
theorem run_observers {N k : Nat} (ops : List Op) (hv : ∀ op, op ∈ ops → Op.valid N op = true) :
    ∃ st', run N (Store.init N k) ops = .ok st' ∧ ∀ o,
      let f := Spec.run N Spec.Store.init ops o
      (∀ pos, pos < N → test N (st' o) pos = .ok (Spec.test f pos) ∧ getConst N (st' o) pos = .ok (Spec.test f pos)
        ∧ refGet N (st' o) pos = .ok (Spec.test f pos)) ∧
      count (st' o) = Spec.count N f ∧ all N (st' o) = .ok (Spec.all N f) ∧ any (st' o) = Spec.any N f ∧
      none (st' o) = Spec.none N f ∧
      ∀ o2, eq (st' o) (st' o2) = Spec.eq N f (Spec.run N Spec.Store.init ops o2) := by
  obtain ⟨st', hs, hr⟩ := run_refines_init (k := k) ops hv
  refine ⟨st', hs, fun o => ⟨fun pos hp => ⟨test_eq (hr o) pos hp, getConst_eq (hr o) pos hp, refGet_eq (hr o) pos hp⟩,
    count_eq' (hr o), all_eq (hr o), any_eq (hr o), none_eq (hr o), fun o2 => eq_eq (hr o) (hr o2)⟩⟩

/-! ## to_ulong / to_ullong -/

theorem sumBits_spec (f : Spec.Bits) : ∀ n, Spec.toNat n f < 2 ^ n ∧
    ∀ j, (Spec.toNat n f).testBit j = (decide (j < n) && f j)
  | 0 => by simp [Spec.toNat]
  | n + 1 => by
    obtain ⟨hlt, hb⟩ := sumBits_spec f n
    have e : Spec.toNat (n + 1) f = (if f n then 2 ^ n else 0) + Spec.toNat n f := by
      simp [Spec.toNat, List.range_succ, List.sum_append, Nat.add_comm]
    rw [e]
    have hp : 2 ^ (n + 1) = 2 ^ n + 2 ^ n := by rw [Nat.pow_succ]; omega
    cases hf : f n
    · simp only [Bool.false_eq_true, if_false, Nat.zero_add]
      refine ⟨by omega, fun j => ?_⟩
      rw [hb]
      by_cases h1 : j < n
      · have : j < n + 1 := by omega
        simp [h1, this]
      · by_cases h2 : j = n
        · subst h2; simp [hf]
        · have : ¬ j < n + 1 := by omega
          simp [h1, this]
    · simp only [if_true]
      refine ⟨by omega, fun j => ?_⟩
      by_cases h1 : j < n
      · have : j < n + 1 := by omega
        rw [Nat.testBit_two_pow_add_gt h1, hb]; simp [h1, this]
      · by_cases h2 : j = n
        · subst h2
          rw [Nat.testBit_two_pow_add_eq, Nat.testBit_lt_two_pow hlt]; simp [hf]
        · have h3 : ¬ j < n + 1 := by omega
          have : 2 ^ n + Spec.toNat n f < 2 ^ j :=
            Nat.lt_of_lt_of_le (by omega : _ < 2 ^ (n + 1)) (Nat.pow_le_pow_right (by decide) (by omega))
          rw [Nat.testBit_lt_two_pow this]; simp [h3]

theorem toUnsignedLoop_spec {N k : Nat} {ws : Words k} {f : Spec.Bits} (h : Rep N k ws f) :
    ∀ (n i : Nat) (r : Word 6), i + n ≤ N → i + n ≤ 64 →
      (∀ j, j < 64 → r.getLsbD j = (decide (j < i) && f j)) →
      ∃ r', toUnsignedLoop N ws n i r = .ok r' ∧ ∀ j, j < 64 → r'.getLsbD j = (decide (j < i + n) && f j)
  | 0, i, r, _, _, hr => ⟨r, rfl, by simpa using hr⟩
  | n + 1, i, r, h1, h2, hr => by
    have hi : i < 2 ^ 6 := by omega
    have ht := test_eq h i (by omega)
    have hstep : ∃ r1, (if Spec.test f i then setBit r (BitVec.ofNat (2 ^ 6) i) else .ok r) = .ok r1 ∧
        ∀ j, j < 64 → r1.getLsbD j = (decide (j < i + 1) && f j) := by
      cases hf : f i
      · refine ⟨r, by simp [Spec.test, hf], fun j hj => ?_⟩
        rw [hr j hj]
        by_cases e : j = i
        · subst e; simp [hf]
        · have : (j < i + 1) = (j < i) := by apply propext; omega
          simp only [this]
      · obtain ⟨y, hy, hyb⟩ := setBit_spec r (BitVec.ofNat (2 ^ 6) i) (by rw [ofNat_toNat_of_lt hi]; exact hi)
        rw [ofNat_toNat_of_lt hi] at hyb
        refine ⟨y, by simp [Spec.test, hf, hy], fun j hj => ?_⟩
        rw [hyb j hj]
        by_cases e : j = i
        · subst e; simp [hf]
        · have : (j < i + 1) = (j < i) := by apply propext; omega
          simp only [e, if_false, hr j hj, this]
    obtain ⟨r1, hs1, hr1⟩ := hstep
    obtain ⟨r', hs', hr'⟩ := toUnsignedLoop_spec h n (i + 1) r1 (by omega) (by omega) hr1
    have hrun : toUnsignedLoop N ws (n + 1) i r = .ok r' := by
      simp only [toUnsignedLoop, ht, ok_bind]
      cases hb : Spec.test f i
      · simp only [hb, Bool.false_eq_true, if_false] at hs1 ⊢
        cases hs1
        simpa using hs'
      · simp only [hb, if_true] at hs1 ⊢
        simp [hs1, hs']
    refine ⟨r', hrun, fun j hj => ?_⟩
    rw [hr' j hj]
    have : (j < i + 1 + n) = (j < i + (n + 1)) := by apply propext; omega
    simp only [this]

/-- the contract loop: passes iff no bit of `[i, i + n)` is set -/
theorem fitsLoop_spec {N k : Nat} {ws : Words k} {f : Spec.Bits} (h : Rep N k ws f) :
    ∀ (n i : Nat), i + n ≤ N →
      fitsLoop N ws n i = if (List.range' i n).any f then
        .error (.pre "to_ulong/to_ullong: no bit beyond the digits of the result type is set") else .ok ()
  | 0, i, _ => by simp [fitsLoop]
  | n + 1, i, hle => by
    have ht := test_eq h i (by omega)
    have ih := fitsLoop_spec h n (i + 1) (by omega)
    simp only [fitsLoop, ht, ok_bind, Spec.test, List.range'_succ, List.any_cons]
    cases hf : f i
    · simp only [Bool.false_eq_true, if_false, Bool.false_or, ih]
    · simp

/-- the value fits in 64 bits iff no bit at a position `>= 64` is set -/
theorem toNat_lt_iff (N : Nat) (f : Spec.Bits) :
    Spec.toNat N f < 2 ^ 64 ↔ (List.range' (min N 64) (N - min N 64)).any f = false := by
  have hb := (sumBits_spec f N).2
  rw [List.any_eq_false]
  constructor
  · intro hlt j hj
    rw [List.mem_range'_1] at hj
    have h1 : (Spec.toNat N f).testBit j = false :=
      Nat.testBit_lt_two_pow (Nat.lt_of_lt_of_le hlt (Nat.pow_le_pow_right (by decide) (by omega)))
    rw [hb j] at h1
    have hjN : j < N := by omega
    simpa [hjN] using h1
  · intro hz
    apply Nat.lt_pow_two_of_testBit
    intro j hj
    rw [hb j]
    by_cases hjN : j < N
    · have := hz j (by rw [List.mem_range'_1]; omega)
      simp [hjN, this]
    · simp [hjN]

/-- **`to_ulong()` / `to_ullong()`, every width.**  When the value of the bitset fits in 64 bits
    (`std::bitset`: no `overflow_error`) the member returns it: Σ 2^i over the set bits.  For
    `Bits <= 64` the hypothesis always holds (`toUnsigned_narrow`). -/
theorem toUnsigned_eq {N k : Nat} {ws : Words k} {f : Spec.Bits} (h : Rep N k ws f) (hfit : Spec.toNat N f < 2 ^ 64) :
    toUnsigned N ws = .ok (Spec.toNat N f) := by
  obtain ⟨r, hs, hr⟩ := toUnsignedLoop_spec h (min N 64) 0 (0#(2 ^ 6)) (by omega) (by omega) (by simp)
  have hfl := fitsLoop_spec h (N - min N 64) (min N 64) (by omega)
  rw [(toNat_lt_iff N f).mp hfit] at hfl
  simp only [toUnsigned, hfl, Bool.false_eq_true, if_false, ok_bind, hs]
  congr 1
  apply Nat.eq_of_testBit_eq
  intro j
  rw [BitVec.testBit_toNat, (sumBits_spec f N).2 j]
  by_cases hj : j < 64
  · rw [hr j hj]
    have : (j < 0 + min N 64) = (j < N) := by apply propext; omega
    simp only [this]
  · rw [BitVec.getLsbD_of_ge _ _ (by simpa using hj)]
    by_cases hjN : j < N
    · have h1 : (Spec.toNat N f).testBit j = false :=
        Nat.testBit_lt_two_pow (Nat.lt_of_lt_of_le hfit (Nat.pow_le_pow_right (by decide) (by omega)))
      rw [(sumBits_spec f N).2 j] at h1
      exact h1.symm
    · simp [hjN]

/-- the other half: when the value does not fit (`std::bitset` throws `overflow_error`) the member's
    contract fails — it never returns a truncated value under checked contracts -/
theorem toUnsigned_overflow {N k : Nat} {ws : Words k} {f : Spec.Bits} (h : Rep N k ws f)
    (hbig : 2 ^ 64 ≤ Spec.toNat N f) :
    toUnsigned N ws = .error (.pre "to_ulong/to_ullong: no bit beyond the digits of the result type is set") := by
  have hfl := fitsLoop_spec h (N - min N 64) (min N 64) (by omega)
  have hany : (List.range' (min N 64) (N - min N 64)).any f = true := by
    cases hc : (List.range' (min N 64) (N - min N 64)).any f
    · have := (toNat_lt_iff N f).mpr hc
      omega
    · rfl
  rw [hany] at hfl
  simp only [toUnsigned, hfl, if_true, error_bind]

/-- `to_ulong()` / `to_ullong()` for `Bits <= 64`: no precondition at all (the statement of the former
    `toUnsigned_partial`, now a corollary) -/
theorem toUnsigned_narrow {N k : Nat} {ws : Words k} {f : Spec.Bits} (h : Rep N k ws f) (h64 : N ≤ 64) :
    toUnsigned N ws = .ok (Spec.toNat N f) :=
  toUnsigned_eq h (Nat.lt_of_lt_of_le (sumBits_spec f N).1 (Nat.pow_le_pow_right (by decide) h64))

/-! ## to_string -/

theorem toStrLoop_spec {N k : Nat} {ws : Words k} {f : Spec.Bits} (h : Rep N k ws f) (zeroCh oneCh cap : Nat) :
    ∀ (i : Nat) (acc : List Nat), i ≤ N → acc.length + i ≤ cap →
      toStrLoop N ws zeroCh oneCh cap i acc =
        .ok (acc ++ (List.range i).reverse.map (fun j => if f j then oneCh else zeroCh))
  | 0, acc, _, _ => by simp [toStrLoop]
  | i + 1, acc, hi, hc => by
    have ht := test_eq h i (by omega)
    have hl : acc.length < cap := by omega
    have ih := toStrLoop_spec h zeroCh oneCh cap i (acc ++ [if f i then oneCh else zeroCh]) (by omega)
      (by simp; omega)
    simp only [toStrLoop, ht, ok_bind, hl, if_true, Spec.test, ih]
    rw [List.range_succ, List.reverse_append]
    simp

/-- `to_string<Capacity, CharT>(zero, one)` for `Capacity >= Bits` (`Bits = 0`: the empty string):
    character 0 is bit `N-1`, the last character is bit 0, no `push_back` beyond the capacity -/
theorem toStr_eq {N k : Nat} {ws : Words k} {f : Spec.Bits} (h : Rep N k ws f) (zeroCh oneCh cap : Nat)
    (hcap : N ≤ cap) : toStr N ws zeroCh oneCh cap = .ok (Spec.toStr N f zeroCh oneCh) := by
  have hl := toStrLoop_spec h zeroCh oneCh cap N [] (Nat.le_refl _) (by simp; omega)
  simp only [toStr, hl, List.nil_append, Spec.toStr]

/-- `to_string<Capacity, CharT>()` / `to_string<Capacity, CharT>(zero)`: the defaulted characters -/
theorem toStrD_eq {N k : Nat} {ws : Words k} {f : Spec.Bits} (h : Rep N k ws f) (zeroCh oneCh : Option Nat)
    (cap : Nat) (hcap : N ≤ cap) : toStrD N ws zeroCh oneCh cap = .ok (Spec.toStrD N f zeroCh oneCh) :=
  toStr_eq h (arg zeroCh CH0) (arg oneCh CH1) cap hcap

end Tetl.C17.Members
