/-
C17 — `count()` sums `etl::popcount(word)`.  The C17 model writes `popcount` as "the number of one
bits of the word" (what the builtin of the run-time path is trusted to return).  Property C14 models
the *code* of the portable path, `etl::detail::popcount_fallback` (`for (; val != 0; val &= val - 1) c++`,
`Tetl.C14.popLoop`), and proves it correct; this file connects the two: that loop, run on a storage
word, returns exactly the number C17's model uses.  So `count()` is code-level on the
constant-evaluated path and rests on the builtin's documentation on the run-time path only.
-/
import Tetl.C17.Model
import TetlProofs.C14.Lemmas
namespace Tetl.C17

/-- C14's specification of popcount on the value of a word is C17's `popcount` of the word -/
theorem popcount_eq_c14spec {k : Nat} (word : Word k) :
    C14.Spec.popcount (2 ^ k) word.toNat = popcount word := by
  unfold C14.Spec.popcount popcount
  rw [List.countP_eq_length_filter]
  congr 1

/-- `etl::detail::popcount_fallback(word)` (C14's model of the loop) returns C17's `popcount word` -/
theorem popcountFallback_eq {k : Nat} (word : Word k) :
    C14.popcountFallback (2 ^ k) word.toNat = .ok (popcount word) := by
  unfold C14.popcountFallback
  rw [C14.popLoop_eq (2 ^ k) word.toNat 0 word.isLt, popcount_eq_c14spec]
  simp

end Tetl.C17
