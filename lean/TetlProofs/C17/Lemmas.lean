/-
C17 — helper lemmas: the abstraction `bitAt` (bit `i` of a word array), the representation
predicate `Rep`, the word-count arithmetic, the single-bit helpers and the padding mask.
-/
import Tetl.C17.Model
import Tetl.C17.Spec
namespace Tetl.C17
open Tetl

@[simp] theorem ok_bind {ε α β} (a : α) (f : α → Except ε β) : (Except.ok a >>= f) = f a := rfl
@[simp] theorem error_bind {ε α β} (e : ε) (f : α → Except ε β) : (Except.error e >>= f) = Except.error e := rfl
@[simp] theorem pure_eq_ok {ε α} (a : α) : (pure a : Except ε α) = Except.ok a := rfl

theorem rd_ok {α} {l : List α} {i : Nat} (h : i < l.length) : rd l i = .ok l[i] := by simp [rd, h]
theorem wr_ok {α} {l : List α} {i : Nat} (x : α) (h : i < l.length) : wr l i x = .ok (l.set i x) := by
  simp [wr, h]

/-! ### abstraction -/

/-- bit `i` of the word array: bit `i % 2^k` of word `i / 2^k` (false beyond the array) -/
def bitAt {k : Nat} (ws : Words k) (i : Nat) : Bool :=
  match ws[i / 2 ^ k]? with
  | some x => x.getLsbD (i % 2 ^ k)
  | Option.none => false

/-- `ws` represents the abstract bitset `f` of width `N`: it has `num_words` words, bit `i < N` is
    `f i`, and every bit at a position `>= N` (the padding of the last word) is zero. -/
structure Rep (N k : Nat) (ws : Words k) (f : Spec.Bits) : Prop where
  len : ws.length = numWords N k
  bit : ∀ i, bitAt ws i = (decide (i < N) && f i)

theorem Rep.congr {N k : Nat} {ws : Words k} {f g : Spec.Bits} (h : Rep N k ws f)
    (hfg : ∀ i, i < N → f i = g i) : Rep N k ws g := by
  refine ⟨h.len, fun i => ?_⟩
  rw [h.bit]
  by_cases hi : i < N
  · simp [hi, hfg i hi]
  · simp [hi]

theorem two_pow_pos' (k : Nat) : 0 < 2 ^ k := Nat.two_pow_pos k

/-! ### word-count arithmetic (`w = 2^k > 0`) -/

theorem le_numWords_mul (N k : Nat) : N ≤ numWords N k * 2 ^ k := by
  have hw := two_pow_pos' k
  unfold numWords
  have h1 := Nat.div_add_mod (N + 2 ^ k - 1) (2 ^ k)
  have h2 := Nat.mod_lt (N + 2 ^ k - 1) hw
  rw [Nat.mul_comm] at h1
  generalize (N + 2 ^ k - 1) / 2 ^ k * 2 ^ k = qw at *
  generalize (N + 2 ^ k - 1) % 2 ^ k = r at *
  omega

theorem numWords_pred_mul_lt (N k : Nat) (hN : 0 < N) : (numWords N k - 1) * 2 ^ k < N := by
  have hw := two_pow_pos' k
  rw [Nat.sub_mul, Nat.one_mul]
  unfold numWords
  have h1 := Nat.div_add_mod (N + 2 ^ k - 1) (2 ^ k)
  have h2 := Nat.mod_lt (N + 2 ^ k - 1) hw
  rw [Nat.mul_comm] at h1
  generalize (N + 2 ^ k - 1) / 2 ^ k * 2 ^ k = qw at *
  generalize (N + 2 ^ k - 1) % 2 ^ k = r at *
  omega

theorem numWords_pos (N k : Nat) (hN : 0 < N) : 0 < numWords N k := by
  have h := le_numWords_mul N k
  rcases Nat.eq_zero_or_pos (numWords N k) with h0 | h0
  · rw [h0] at h; omega
  · exact h0

/-- `bitset<0>`: no storage word at all -/
theorem numWords_zero (k : Nat) : numWords 0 k = 0 := by
  have hw := two_pow_pos' k
  unfold numWords
  exact Nat.div_eq_of_lt (by omega)

/-- padding exists only for a non-empty bitset (`bitset<0>` has no word, hence no padding) -/
theorem pos_of_hasPadding {N k : Nat} (h : hasPadding N k = true) : 0 < N := by
  rcases Nat.eq_zero_or_pos N with h0 | h0
  · subst h0
    simp [hasPadding, padding, numWords_zero] at h
  · exact h0

theorem wordIndex_lt {N k i : Nat} (h : i < N) : i / 2 ^ k < numWords N k := by
  rw [Nat.div_lt_iff_lt_mul (two_pow_pos' k)]
  exact Nat.lt_of_lt_of_le h (le_numWords_mul N k)

theorem padding_add (N k : Nat) : N + padding N k = numWords N k * 2 ^ k := by
  have := le_numWords_mul N k
  unfold padding; omega

theorem padding_lt (N k : Nat) (hN : 0 < N) : padding N k < 2 ^ k := by
  have h1 := padding_add N k
  have h2 := numWords_pred_mul_lt N k hN
  have h3 := numWords_pos N k hN
  rw [Nat.sub_mul, Nat.one_mul] at h2
  have h4 : 2 ^ k ≤ numWords N k * 2 ^ k := Nat.le_mul_of_pos_left _ h3
  omega

/-! ### bitAt of a word at a known index -/

theorem div_mod_unique {w q j : Nat} (hj : j < w) : (q * w + j) / w = q ∧ (q * w + j) % w = j := by
  have hw : 0 < w := by omega
  constructor
  · rw [Nat.mul_comm, Nat.mul_add_div hw, Nat.div_eq_of_lt hj]; rfl
  · rw [Nat.mul_comm, Nat.mul_add_mod, Nat.mod_eq_of_lt hj]

theorem bitAt_word {k : Nat} (ws : Words k) (q j : Nat) (hq : q < ws.length) (hj : j < 2 ^ k) :
    bitAt ws (q * 2 ^ k + j) = ws[q].getLsbD j := by
  obtain ⟨h1, h2⟩ := div_mod_unique (q := q) hj
  simp [bitAt, h1, h2, hq]

theorem bitAt_eq_getLsbD {k : Nat} (ws : Words k) (i : Nat) (h : i / 2 ^ k < ws.length) :
    bitAt ws i = ws[i / 2 ^ k].getLsbD (i % 2 ^ k) := by
  simp [bitAt, h]

theorem bitAt_of_ge {k : Nat} (ws : Words k) (i : Nat) (h : ws.length ≤ i / 2 ^ k) : bitAt ws i = false := by
  simp [bitAt, List.getElem?_eq_none h]

/-- positions: `i` is determined by its word index and offset -/
theorem pos_eq_of_div_mod {w i p : Nat} (h1 : i / w = p / w) (h2 : i % w = p % w) : i = p := by
  rw [← Nat.div_add_mod i w, ← Nat.div_add_mod p w, h1, h2]

/-! ### the single-bit helpers on a valid offset -/

theorem ofNat_toNat_of_lt {k o : Nat} (ho : o < 2 ^ k) : (BitVec.ofNat (2 ^ k) o).toNat = o := by
  rw [BitVec.toNat_ofNat]
  exact Nat.mod_eq_of_lt (Nat.lt_trans ho Nat.lt_two_pow_self)

theorem offsetInWord_toNat (k pos : Nat) : (offsetInWord k pos).toNat = pos % 2 ^ k := by
  unfold offsetInWord
  rw [Nat.and_two_pow_sub_one_eq_mod]
  exact ofNat_toNat_of_lt (Nat.mod_lt _ (two_pow_pos' k))

theorem one_shl_getLsbD (w o j : Nat) (hj : j < w) : ((1#w) <<< o).getLsbD j = decide (j = o) := by
  rw [BitVec.getLsbD_shiftLeft, BitVec.getLsbD_one]
  by_cases h : j = o
  · subst h; simp [hj]; omega
  · by_cases h2 : j < o
    · simp [h, h2]
    · have : j - o ≠ 0 := by omega
      simp [h, this]

theorem bool_shl_getLsbD (w o j : Nat) (v : Bool) (hj : j < w) :
    ((if v then 1#w else 0#w) <<< o).getLsbD j = (decide (j = o) && v) := by
  cases v
  · simp
  · simpa using one_shl_getLsbD w o j hj

theorem setBitTo_spec {k : Nat} (x pos : Word k) (v : Bool) (hp : pos.toNat < 2 ^ k) :
    ∃ y, setBitTo x pos v = .ok y ∧
      ∀ j, j < 2 ^ k → y.getLsbD j = if j = pos.toNat then v else x.getLsbD j := by
  simp only [setBitTo, hp, if_true]
  refine ⟨_, rfl, fun j hj => ?_⟩
  rw [BitVec.getLsbD_or, BitVec.getLsbD_and, BitVec.getLsbD_not, bool_shl_getLsbD _ _ _ _ hj,
    one_shl_getLsbD _ _ _ hj]
  by_cases h : j = pos.toNat <;> simp [h, hj]

theorem resetBit_spec {k : Nat} (x pos : Word k) (hp : pos.toNat < 2 ^ k) :
    ∃ y, resetBit x pos = .ok y ∧
      ∀ j, j < 2 ^ k → y.getLsbD j = if j = pos.toNat then false else x.getLsbD j := by
  simp only [resetBit, hp, if_true]
  refine ⟨_, rfl, fun j hj => ?_⟩
  rw [BitVec.getLsbD_and, BitVec.getLsbD_not, one_shl_getLsbD _ _ _ hj]
  by_cases h : j = pos.toNat <;> simp [h, hj]

theorem flipBit_spec {k : Nat} (x pos : Word k) (hp : pos.toNat < 2 ^ k) :
    ∃ y, flipBit x pos = .ok y ∧
      ∀ j, j < 2 ^ k → y.getLsbD j = if j = pos.toNat then !x.getLsbD pos.toNat else x.getLsbD j := by
  simp only [flipBit, hp, if_true]
  refine ⟨_, rfl, fun j hj => ?_⟩
  rw [BitVec.getLsbD_xor, one_shl_getLsbD _ _ _ hj]
  by_cases h : j = pos.toNat <;> simp [h]

theorem setBit_spec {k : Nat} (x pos : Word k) (hp : pos.toNat < 2 ^ k) :
    ∃ y, setBit x pos = .ok y ∧
      ∀ j, j < 2 ^ k → y.getLsbD j = if j = pos.toNat then true else x.getLsbD j := by
  simp only [setBit, hp, if_true]
  refine ⟨_, rfl, fun j hj => ?_⟩
  rw [BitVec.getLsbD_or, one_shl_getLsbD _ _ _ hj]
  by_cases h : j = pos.toNat <;> simp [h]

theorem testBit_spec {k : Nat} (x pos : Word k) (hp : pos.toNat < 2 ^ k) :
    testBit x pos = .ok (x.getLsbD pos.toNat) := by
  have h0 : ((x &&& (1#(2 ^ k) <<< pos.toNat)) != 0#(2 ^ k)) = x.getLsbD pos.toNat := by
    by_cases hb : x.getLsbD pos.toNat = true
    · rw [hb]
      simp only [bne_iff_ne, ne_eq]
      intro h
      have := congrArg (fun y => y.getLsbD pos.toNat) h
      simp [BitVec.getLsbD_and, one_shl_getLsbD _ _ _ hp, hb] at this
    · have hb' : x.getLsbD pos.toNat = false := by simpa using hb
      rw [hb']
      simp only [bne_eq_false_iff_eq]
      apply BitVec.eq_of_getLsbD_eq
      intro j hj
      rw [BitVec.getLsbD_and, one_shl_getLsbD _ _ _ hj]
      by_cases h : j = pos.toNat <;> simp [h, hb']
  simp [testBit, hp, h0]

end Tetl.C17
