import Tetl.C17.Model
import Tetl.C17.Spec
namespace Tetl.C17
open Tetl

end Tetl.C17
