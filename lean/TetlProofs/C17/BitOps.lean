/-
C17 — helper lemmas for the operations: single-bit transforms, word-wise maps, the padding mask.
-/
import TetlProofs.C17.Lemmas
namespace Tetl.C17
open Tetl

/-! ### writing one word -/

theorem bitAt_set {k : Nat} (ws : Words k) (q : Nat) (y : Word k) (hq : q < ws.length) (i : Nat) :
    bitAt (ws.set q y) i = if i / 2 ^ k = q then y.getLsbD (i % 2 ^ k) else bitAt ws i := by
  unfold bitAt
  rw [List.getElem?_set]
  by_cases h : q = i / 2 ^ k
  · subst h; simp [hq]
  · have h' : ¬ i / 2 ^ k = q := fun e => h e.symm
    simp [h, h']

/-- the common shape of `unchecked_set/reset/flip` and of the proxy writes: read word `pos / w`,
    replace bit `pos % w` by `g (old bit)`, write the word back. -/
theorem rmw_spec {k : Nat} (N : Nat) (ws : Words k) (f : Spec.Bits) (h : Rep N k ws f) (pos : Nat) (hp : pos < N)
    (op : Word k → Word k → Except Err (Word k)) (g : Bool → Bool)
    (hop : ∀ x : Word k, ∃ y, op x (offsetInWord k pos) = .ok y ∧
      ∀ j, j < 2 ^ k → y.getLsbD j = if j = pos % 2 ^ k then g (x.getLsbD (pos % 2 ^ k)) else x.getLsbD j) :
    ∃ ws', (do
        let word ← rd ws (wordIndex k pos)
        let word' ← op word (offsetInWord k pos)
        wr ws (wordIndex k pos) word') = .ok ws' ∧
      Rep N k ws' (fun i => if i = pos then g (f pos) else f i) := by
  have hq : pos / 2 ^ k < ws.length := by rw [h.len]; exact wordIndex_lt hp
  obtain ⟨y, hy, hbits⟩ := hop ws[pos / 2 ^ k]
  refine ⟨ws.set (pos / 2 ^ k) y, ?_, ?_, ?_⟩
  · simp [wordIndex, rd_ok hq, hy, wr_ok y hq]
  · simp [h.len]
  · intro i
    rw [bitAt_set ws _ y hq]
    have hmod : i % 2 ^ k < 2 ^ k := Nat.mod_lt _ (two_pow_pos' k)
    by_cases hi : i = pos
    · subst hi
      have hb := h.bit i
      rw [bitAt_eq_getLsbD ws i hq] at hb
      simp [hbits _ hmod, hb, hp]
    · by_cases hd : i / 2 ^ k = pos / 2 ^ k
      · have hm : i % 2 ^ k ≠ pos % 2 ^ k := fun e => hi (pos_eq_of_div_mod hd e)
        have hb := h.bit i
        rw [bitAt_eq_getLsbD ws i (by rw [hd]; exact hq)] at hb
        simp only [hd, if_true, hbits _ hmod, hm, if_false, hi]
        rw [← hb]
        simp [hd]
      · simp [hd, hi, h.bit i]

theorem transformBit_spec {k : Nat} (N : Nat) (ws : Words k) (f : Spec.Bits) (h : Rep N k ws f) (pos : Nat)
    (hp : pos < N) (op : Word k → Word k → Except Err (Word k)) (g : Bool → Bool)
    (hop : ∀ x : Word k, ∃ y, op x (offsetInWord k pos) = .ok y ∧
      ∀ j, j < 2 ^ k → y.getLsbD j = if j = pos % 2 ^ k then g (x.getLsbD (pos % 2 ^ k)) else x.getLsbD j) :
    ∃ ws', transformBit ws pos op = .ok ws' ∧ Rep N k ws' (fun i => if i = pos then g (f pos) else f i) :=
  rmw_spec N ws f h pos hp op g hop

theorem offset_valid (k pos : Nat) : (offsetInWord k pos).toNat < 2 ^ k := by
  rw [offsetInWord_toNat]; exact Nat.mod_lt _ (two_pow_pos' k)

theorem hop_setBitTo {k : Nat} (pos : Nat) (v : Bool) (x : Word k) :
    ∃ y, setBitTo x (offsetInWord k pos) v = .ok y ∧
      ∀ j, j < 2 ^ k → y.getLsbD j = if j = pos % 2 ^ k then (fun _ => v) (x.getLsbD (pos % 2 ^ k)) else x.getLsbD j := by
  have := setBitTo_spec x (offsetInWord k pos) v (offset_valid k pos)
  rwa [offsetInWord_toNat] at this

theorem hop_resetBit {k : Nat} (pos : Nat) (x : Word k) :
    ∃ y, resetBit x (offsetInWord k pos) = .ok y ∧
      ∀ j, j < 2 ^ k → y.getLsbD j = if j = pos % 2 ^ k then (fun _ => false) (x.getLsbD (pos % 2 ^ k)) else x.getLsbD j := by
  have := resetBit_spec x (offsetInWord k pos) (offset_valid k pos)
  rwa [offsetInWord_toNat] at this

theorem hop_flipBit {k : Nat} (pos : Nat) (x : Word k) :
    ∃ y, flipBit x (offsetInWord k pos) = .ok y ∧
      ∀ j, j < 2 ^ k → y.getLsbD j = if j = pos % 2 ^ k then (fun b => !b) (x.getLsbD (pos % 2 ^ k)) else x.getLsbD j := by
  have := flipBit_spec x (offsetInWord k pos) (offset_valid k pos)
  rwa [offsetInWord_toNat] at this

/-- reading one bit through `rd` + `test_bit` -/
theorem readBit_spec {k : Nat} (N : Nat) (ws : Words k) (f : Spec.Bits) (h : Rep N k ws f) (pos : Nat) (hp : pos < N) :
    (do let word ← rd ws (wordIndex k pos); testBit word (offsetInWord k pos)) = .ok (f pos) := by
  have hq : pos / 2 ^ k < ws.length := by rw [h.len]; exact wordIndex_lt hp
  have hb := h.bit pos
  rw [bitAt_eq_getLsbD ws pos hq] at hb
  simp [wordIndex, rd_ok hq, testBit_spec _ _ (offset_valid k pos), offsetInWord_toNat, hb, hp]


/-! ### representation from / to a word-level description -/

theorem Rep.word {N k : Nat} {ws : Words k} {f : Spec.Bits} (h : Rep N k ws f) (q : Nat) (hq : q < ws.length)
    (j : Nat) (hj : j < 2 ^ k) : ws[q].getLsbD j = (decide (q * 2 ^ k + j < N) && f (q * 2 ^ k + j)) := by
  rw [← bitAt_word ws q j hq hj, h.bit]

theorem rep_of_words {N k : Nat} (ws : Words k) (g : Spec.Bits) (hlen : ws.length = numWords N k)
    (hw : ∀ q x, ws[q]? = some x → ∀ j, j < 2 ^ k → x.getLsbD j = (decide (q * 2 ^ k + j < N) && g (q * 2 ^ k + j))) :
    Rep N k ws g := by
  refine ⟨hlen, fun i => ?_⟩
  have hdm := Nat.div_add_mod i (2 ^ k)
  have hmod : i % 2 ^ k < 2 ^ k := Nat.mod_lt _ (two_pow_pos' k)
  by_cases hq : i / 2 ^ k < ws.length
  · have := hw (i / 2 ^ k) ws[i / 2 ^ k] (by simp [hq]) (i % 2 ^ k) hmod
    rw [bitAt_eq_getLsbD ws i hq, this]
    have e : i / 2 ^ k * 2 ^ k + i % 2 ^ k = i := by rw [Nat.mul_comm]; exact hdm
    rw [e]
  · have hge : ws.length ≤ i / 2 ^ k := Nat.le_of_not_lt hq
    rw [bitAt_of_ge ws i hge]
    have h1 : numWords N k * 2 ^ k ≤ i := by
      rw [hlen] at hge
      calc numWords N k * 2 ^ k ≤ i / 2 ^ k * 2 ^ k := Nat.mul_le_mul_right _ hge
        _ ≤ i := Nat.div_mul_le_self i (2 ^ k)
    have h2 := le_numWords_mul N k
    have : ¬ i < N := by omega
    simp [this]

/-! ### the padding mask -/

theorem paddingMaskLoop_spec {k : Nat} : ∀ (n i : Nat) (mask : Word k), i + n ≤ 2 ^ k →
    ∃ m, paddingMaskLoop n i mask = .ok m ∧
      ∀ j, j < 2 ^ k → m.getLsbD j = (mask.getLsbD j || (decide (i ≤ j) && decide (j < i + n)))
  | 0, i, mask, _ => ⟨mask, rfl, fun j _ => by simp; omega⟩
  | n + 1, i, mask, hle => by
    have hi : i < 2 ^ k := by omega
    obtain ⟨y, hy, hyb⟩ := setBit_spec mask (BitVec.ofNat (2 ^ k) i) (by rw [ofNat_toNat_of_lt hi]; exact hi)
    rw [ofNat_toNat_of_lt hi] at hyb
    obtain ⟨m, hm, hmb⟩ := paddingMaskLoop_spec n (i + 1) y (by omega)
    refine ⟨m, by simp [paddingMaskLoop, hy, hm], fun j hj => ?_⟩
    rw [hmb j hj, hyb j hj]
    by_cases hji : j = i
    · subst hji; simp
    · simp only [hji, if_false]
      congr 1
      have : (i + 1 ≤ j) = (i ≤ j) := by apply propext; omega
      have h2 : (j < i + 1 + n) = (j < i + (n + 1)) := by apply propext; omega
      simp only [this, h2]

theorem paddingMaskInv_spec (N k : Nat) (hN : 0 < N) :
    ∃ m, paddingMaskInv N k = .ok m ∧ ∀ j, j < 2 ^ k → m.getLsbD j = decide (j < 2 ^ k - padding N k) := by
  have hp := padding_lt N k hN
  obtain ⟨m, hm, hmb⟩ := paddingMaskLoop_spec (k := k) (padding N k) (2 ^ k - padding N k) (0#(2 ^ k)) (by omega)
  refine ⟨~~~m, by simp [paddingMaskInv, paddingMask, hm], fun j hj => ?_⟩
  rw [BitVec.getLsbD_not, hmb j hj]
  by_cases h : j < 2 ^ k - padding N k
  · have h1 : ¬ (2 ^ k - padding N k ≤ j) := by omega
    simp [h, h1, hj]
  · have h1 : 2 ^ k - padding N k ≤ j := by omega
    have h2 : j < 2 ^ k - padding N k + padding N k := by omega
    simp [h, h1, h2, hj]

end Tetl.C17
