import TetlProofs.C17.Lemmas
namespace Tetl.C17.Props
open Tetl Tetl.C17

theorem init_length (N k : Nat) : (init N k).length = numWords N k := by simp [init]

end Tetl.C17.Props
