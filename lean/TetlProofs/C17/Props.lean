/-
C17 — property theorems.  `Rep N k ws f` (Lemmas.lean): the word array `ws` of a
`basic_bitset<N, 2^k-bit word>` has `num_words` words, shows the abstract bitset `f` at the positions
`< N` and has every padding bit zero.  Each theorem says: on a represented state and arguments that
satisfy the documented precondition, the member returns `.ok` (no out-of-range word access, no
over-wide shift, no failed contract), re-establishes `Rep` (padding included) and computes what
`std::bitset` specifies.  All of them hold for every `N ≥ 1` and every `k` (word width `2^k`).
-/
import TetlProofs.C17.Observers
namespace Tetl.C17.Props
open Tetl Tetl.C17

/-! ## construction -/

/-- default construction: all bits zero -/
theorem init_rep (N k : Nat) : Rep N k (init N k) Spec.zero := by
  refine ⟨by simp [init], fun i => ?_⟩
  simp only [bitAt, init, List.getElem?_replicate, Spec.zero, Bool.and_false]
  split <;> rename_i h
  · split at h
    · cases h; simp
    · cases h
  · rfl

/-! ## single-bit members -/

theorem uncheckedSet_rep {N k : Nat} {ws : Words k} {f : Spec.Bits} (h : Rep N k ws f) (pos : Nat) (hp : pos < N)
    (v : Bool) : ∃ ws', uncheckedSet N ws pos v = .ok ws' ∧ Rep N k ws' (Spec.set1 f pos v) := by
  simp only [uncheckedSet, hp, if_true]
  exact transformBit_spec N ws f h pos hp _ (fun _ => v) (hop_setBitTo pos v)

theorem uncheckedReset_rep {N k : Nat} {ws : Words k} {f : Spec.Bits} (h : Rep N k ws f) (pos : Nat) (hp : pos < N) :
    ∃ ws', uncheckedReset N ws pos = .ok ws' ∧ Rep N k ws' (Spec.set1 f pos false) := by
  simp only [uncheckedReset, hp, if_true]
  exact transformBit_spec N ws f h pos hp _ (fun _ => false) (hop_resetBit pos)

theorem uncheckedFlip_rep {N k : Nat} {ws : Words k} {f : Spec.Bits} (h : Rep N k ws f) (pos : Nat) (hp : pos < N) :
    ∃ ws', uncheckedFlip N ws pos = .ok ws' ∧ Rep N k ws' (Spec.flip1 f pos) := by
  simp only [uncheckedFlip, hp, if_true]
  obtain ⟨ws', h1, h2⟩ := transformBit_spec N ws f h pos hp _ (fun b => !b) (hop_flipBit pos)
  exact ⟨ws', h1, h2.congr (fun i _ => by by_cases e : i = pos <;> simp [Spec.flip1, e])⟩

/-- `bitset::set(pos, value)` -/
theorem set_rep {N k : Nat} {ws : Words k} {f : Spec.Bits} (h : Rep N k ws f) (pos : Nat) (hp : pos < N) (v : Bool) :
    ∃ ws', set N ws pos v = .ok ws' ∧ Rep N k ws' (Spec.set1 f pos v) := by
  simp only [set, hp, if_true]; exact uncheckedSet_rep h pos hp v

/-- `bitset::reset(pos)` -/
theorem reset_rep {N k : Nat} {ws : Words k} {f : Spec.Bits} (h : Rep N k ws f) (pos : Nat) (hp : pos < N) :
    ∃ ws', reset N ws pos = .ok ws' ∧ Rep N k ws' (Spec.set1 f pos false) := by
  simp only [reset, hp, if_true]; exact uncheckedReset_rep h pos hp

/-- `bitset::flip(pos)` -/
theorem flip_rep {N k : Nat} {ws : Words k} {f : Spec.Bits} (h : Rep N k ws f) (pos : Nat) (hp : pos < N) :
    ∃ ws', flip N ws pos = .ok ws' ∧ Rep N k ws' (Spec.flip1 f pos) := by
  simp only [flip, hp, if_true]; exact uncheckedFlip_rep h pos hp

/-- `b[pos] = x` through the proxy reference -/
theorem refAssign_rep {N k : Nat} {ws : Words k} {f : Spec.Bits} (h : Rep N k ws f) (pos : Nat) (hp : pos < N)
    (x : Bool) : ∃ ws', refAssign N ws pos x = .ok ws' ∧ Rep N k ws' (Spec.set1 f pos x) := by
  simp only [refAssign, hp, if_true]
  exact rmw_spec N ws f h pos hp (fun w b => setBitTo w b x) (fun _ => x) (hop_setBitTo pos x)

/-- `b[pos].flip()` through the proxy reference -/
theorem refFlip_rep {N k : Nat} {ws : Words k} {f : Spec.Bits} (h : Rep N k ws f) (pos : Nat) (hp : pos < N) :
    ∃ ws', refFlip N ws pos = .ok ws' ∧ Rep N k ws' (Spec.flip1 f pos) := by
  simp only [refFlip, hp, if_true]
  obtain ⟨ws', h1, h2⟩ := rmw_spec N ws f h pos hp flipBit (fun b => !b) (hop_flipBit pos)
  exact ⟨ws', h1, h2.congr (fun i _ => by by_cases e : i = pos <;> simp [Spec.flip1, e])⟩

/-! ## single-bit observers -/

theorem uncheckedTest_eq {N k : Nat} {ws : Words k} {f : Spec.Bits} (h : Rep N k ws f) (pos : Nat) (hp : pos < N) :
    uncheckedTest N ws pos = .ok (Spec.test f pos) := by
  simp only [uncheckedTest, hp, if_true]; exact readBit_spec N ws f h pos hp

/-- `bitset::test(pos)` -/
theorem test_eq {N k : Nat} {ws : Words k} {f : Spec.Bits} (h : Rep N k ws f) (pos : Nat) (hp : pos < N) :
    test N ws pos = .ok (Spec.test f pos) := by
  simp only [test, hp, if_true]; exact uncheckedTest_eq h pos hp

/-- `operator[](pos) const` -/
theorem getConst_eq {N k : Nat} {ws : Words k} {f : Spec.Bits} (h : Rep N k ws f) (pos : Nat) (hp : pos < N) :
    getConst N ws pos = .ok (Spec.test f pos) := by
  simp only [getConst, hp, if_true]; exact uncheckedTest_eq h pos hp

/-- `bool(b[pos])` through the proxy reference -/
theorem refGet_eq {N k : Nat} {ws : Words k} {f : Spec.Bits} (h : Rep N k ws f) (pos : Nat) (hp : pos < N) :
    refGet N ws pos = .ok (Spec.test f pos) := by
  simp only [refGet, hp, if_true]; exact readBit_spec N ws f h pos hp

/-- `~b[pos]` through the proxy reference -/
theorem refNot_eq {N k : Nat} {ws : Words k} {f : Spec.Bits} (h : Rep N k ws f) (pos : Nat) (hp : pos < N) :
    refNot N ws pos = .ok (!Spec.test f pos) := by
  simp [refNot, refGet_eq h pos hp]

/-! ## whole-set members -/

/-- `reset()` -/
theorem resetAll_rep {N k : Nat} {ws : Words k} {f : Spec.Bits} (h : Rep N k ws f) :
    Rep N k (resetAll ws) (Spec.resetAll f) := by
  refine rep_of_words _ _ (by simp [resetAll, h.len]) (fun q x hx j _ => ?_)
  simp only [resetAll, List.getElem?_map] at hx
  cases hq : ws[q]? with
  | none => simp [hq] at hx
  | some y =>
    simp [hq] at hx
    subst hx
    simp [Spec.resetAll]

/-- `set()`: the padding bits of the last word stay zero -/
theorem setAll_rep {N k : Nat} {ws : Words k} {f : Spec.Bits} (hN : 0 < N) (h : Rep N k ws f) :
    ∃ ws', setAll N ws = .ok ws' ∧ Rep N k ws' (Spec.setAll f) := by
  have hnw := numWords_pos N k hN
  have hlen := h.len
  have hpadd := padding_add N k
  by_cases hp : hasPadding N k = true
  · obtain ⟨m, hm, hmb⟩ := paddingMaskInv_spec N k hN
    have hne : ws.length ≠ 0 := by omega
    have hlt : numWords N k - 1 <
        ((ws.take (ws.length - 1)).map (fun _ => ones k) ++ ws.drop (ws.length - 1)).length := by
      simp; omega
    simp only [setAll, hp, if_true, hne, if_false, hm, ok_bind, wr_ok m hlt]
    refine ⟨_, rfl, rep_of_words _ _ (by simp; omega) (fun q x hx j hj => ?_)⟩
    rw [List.getElem?_set] at hx
    by_cases hq : numWords N k - 1 = q
    · -- the last word: the inverse padding mask
      rw [if_pos hq, if_pos hlt] at hx
      cases hx
      rw [hmb j hj, ← hq, Nat.sub_mul, Nat.one_mul]
      have h4 : 2 ^ k ≤ numWords N k * 2 ^ k := Nat.le_mul_of_pos_left _ hnw
      simp only [Spec.setAll, Bool.and_true]
      congr 1; apply propext; omega
    · -- a head word: all ones
      rw [if_neg hq] at hx
      have hq' : q < ws.length - 1 := by
        have : q < ws.length := by
          have := (List.getElem?_eq_some_iff.mp hx).1
          simp at this; omega
        omega
      rw [List.getElem?_append_left (by simp; omega)] at hx
      simp only [List.getElem?_map, List.getElem?_take, hq', if_true] at hx
      have hqs : ws[q]? = some ws[q] := by simp
      rw [hqs] at hx
      cases hx
      have h5 : (q + 1) * 2 ^ k ≤ (numWords N k - 1) * 2 ^ k := Nat.mul_le_mul_right _ (by omega)
      have h6 := numWords_pred_mul_lt N k hN
      rw [Nat.add_mul, Nat.one_mul] at h5
      have : q * 2 ^ k + j < N := by omega
      simp [ones, Spec.setAll, hj, this]
  · have hp0 : padding N k = 0 := by simpa [hasPadding] using hp
    simp only [setAll, hp]
    refine ⟨_, rfl, rep_of_words _ _ (by simp [hlen]) (fun q x hx j hj => ?_)⟩
    simp only [List.getElem?_map] at hx
    cases hq : ws[q]? with
    | none => simp [hq] at hx
    | some y =>
      simp [hq] at hx
      subst hx
      have hql : q < numWords N k := by
        rw [← hlen]; exact (List.getElem?_eq_some_iff.mp hq).1
      have h5 : (q + 1) * 2 ^ k ≤ numWords N k * 2 ^ k := Nat.mul_le_mul_right _ (by omega)
      rw [Nat.add_mul, Nat.one_mul] at h5
      have : q * 2 ^ k + j < N := by omega
      simp [ones, Spec.setAll, hj, this]

/-- `flip()`: the padding bits of the last word are masked off again -/
theorem flipAll_rep {N k : Nat} {ws : Words k} {f : Spec.Bits} (hN : 0 < N) (h : Rep N k ws f) :
    ∃ ws', flipAll N ws = .ok ws' ∧ Rep N k ws' (Spec.flipAll f) := by
  have hnw := numWords_pos N k hN
  have hlen := h.len
  have hpadd := padding_add N k
  by_cases hp : hasPadding N k = true
  · obtain ⟨m, hm, hmb⟩ := paddingMaskInv_spec N k hN
    have hlt : numWords N k - 1 < (ws.map (fun word => ~~~word)).length := by simp; omega
    simp only [flipAll, hp, if_true, rd_ok hlt, hm, ok_bind, wr_ok _ hlt]
    refine ⟨_, rfl, rep_of_words _ _ (by simp [hlen]) (fun q x hx j hj => ?_)⟩
    rw [List.getElem?_set] at hx
    have hlt' : numWords N k - 1 < ws.length := by omega
    by_cases hq : numWords N k - 1 = q
    · rw [if_pos hq, if_pos hlt] at hx
      cases hx
      rw [BitVec.getLsbD_and, hmb j hj, List.getElem_map, BitVec.getLsbD_not, h.word _ hlt' j hj, ← hq,
        Nat.sub_mul, Nat.one_mul]
      have h4 : 2 ^ k ≤ numWords N k * 2 ^ k := Nat.le_mul_of_pos_left _ hnw
      have e : (numWords N k * 2 ^ k - 2 ^ k + j < N) = (j < 2 ^ k - padding N k) := by apply propext; omega
      simp only [e, Spec.flipAll, hj, decide_true, Bool.true_and]
      cases decide (j < 2 ^ k - padding N k) <;> simp
    · rw [if_neg hq] at hx
      simp only [List.getElem?_map] at hx
      cases hqs : ws[q]? with
      | none => simp [hqs] at hx
      | some y =>
        simp [hqs] at hx
        subst hx
        obtain ⟨hql, hqe⟩ := List.getElem?_eq_some_iff.mp hqs
        subst hqe
        have h5 : (q + 1) * 2 ^ k ≤ (numWords N k - 1) * 2 ^ k := Nat.mul_le_mul_right _ (by omega)
        have h6 := numWords_pred_mul_lt N k hN
        rw [Nat.add_mul, Nat.one_mul] at h5
        have : q * 2 ^ k + j < N := by omega
        rw [BitVec.getLsbD_not, h.word _ hql j hj]
        simp [Spec.flipAll, hj, this]
  · have hp0 : padding N k = 0 := by simpa [hasPadding] using hp
    simp only [flipAll, hp]
    refine ⟨_, rfl, rep_of_words _ _ (by simp [hlen]) (fun q x hx j hj => ?_)⟩
    simp only [List.getElem?_map] at hx
    cases hqs : ws[q]? with
    | none => simp [hqs] at hx
    | some y =>
      simp [hqs] at hx
      subst hx
      obtain ⟨hql, hqe⟩ := List.getElem?_eq_some_iff.mp hqs
      subst hqe
      have h5 : (q + 1) * 2 ^ k ≤ numWords N k * 2 ^ k := Nat.mul_le_mul_right _ (by omega)
      rw [Nat.add_mul, Nat.one_mul] at h5
      have : q * 2 ^ k + j < N := by omega
      rw [BitVec.getLsbD_not, h.word _ hql j hj]
      simp [Spec.flipAll, hj, this]

/-- `operator~` -/
theorem not_rep {N k : Nat} {ws : Words k} {f : Spec.Bits} (hN : 0 < N) (h : Rep N k ws f) :
    ∃ ws', C17.not N ws = .ok ws' ∧ Rep N k ws' (Spec.flipAll f) := flipAll_rep hN h

/-! ## `&=`, `|=`, `^=` -/

theorem transform2_rep {N k : Nat} {a b : Words k} {fa fb : Spec.Bits} (ha : Rep N k a fa) (hb : Rep N k b fb)
    (g : Word k → Word k → Word k) (g' : Bool → Bool → Bool) (hff : g' false false = false)
    (hg : ∀ x y j, (g x y).getLsbD j = g' (x.getLsbD j) (y.getLsbD j)) :
    ∃ ws', transform2 g a b = .ok ws' ∧ Rep N k ws' (fun i => g' (fa i) (fb i)) := by
  have hl : ¬ b.length < a.length := by rw [ha.len, hb.len]; omega
  simp only [transform2, hl, if_false]
  refine ⟨_, rfl, rep_of_words _ _ (by simp [ha.len, hb.len]) (fun q x hx j hj => ?_)⟩
  rw [List.getElem?_zipWith] at hx
  cases hqa : a[q]? with
  | none => simp [hqa] at hx
  | some xa =>
    cases hqb : b[q]? with
    | none => simp [hqa, hqb] at hx
    | some xb =>
      simp [hqa, hqb] at hx
      subst hx
      obtain ⟨hla, hea⟩ := List.getElem?_eq_some_iff.mp hqa
      obtain ⟨hlb, heb⟩ := List.getElem?_eq_some_iff.mp hqb
      subst hea; subst heb
      rw [hg, ha.word _ hla j hj, hb.word _ hlb j hj]
      cases decide (q * 2 ^ k + j < N) <;> simp [hff]

/-- `operator&=` (and `operator&`) -/
theorem andAssign_rep {N k : Nat} {a b : Words k} {fa fb : Spec.Bits} (ha : Rep N k a fa) (hb : Rep N k b fb) :
    ∃ ws', andAssign a b = .ok ws' ∧ Rep N k ws' (Spec.and fa fb) :=
  transform2_rep ha hb _ (fun x y => x && y) rfl (fun _ _ _ => BitVec.getLsbD_and)

/-- `operator|=` (and `operator|`) -/
theorem orAssign_rep {N k : Nat} {a b : Words k} {fa fb : Spec.Bits} (ha : Rep N k a fa) (hb : Rep N k b fb) :
    ∃ ws', orAssign a b = .ok ws' ∧ Rep N k ws' (Spec.or fa fb) :=
  transform2_rep ha hb _ (fun x y => x || y) rfl (fun _ _ _ => BitVec.getLsbD_or)

/-- `operator^=` (and `operator^`) -/
theorem xorAssign_rep {N k : Nat} {a b : Words k} {fa fb : Spec.Bits} (ha : Rep N k a fa) (hb : Rep N k b fb) :
    ∃ ws', xorAssign a b = .ok ws' ∧ Rep N k ws' (Spec.xor fa fb) :=
  transform2_rep ha hb _ (fun x y => x != y) rfl (fun _ _ _ => by rw [BitVec.getLsbD_xor])

/-! ## construction from `unsigned long long` -/

theorem fromUllLoop_rep {N k : Nat} (val : Word 6) : ∀ (n i : Nat) (ws : Words k) (g : Spec.Bits), Rep N k ws g →
    i + n ≤ N → i + n ≤ 64 →
    ∃ ws', fromUllLoop N val n i ws = .ok ws' ∧
      Rep N k ws' (fun j => if i ≤ j ∧ j < i + n then val.getLsbD j else g j)
  | 0, i, ws, g, h, _, _ => ⟨ws, rfl, h.congr (fun j _ => by simp; omega)⟩
  | n + 1, i, ws, g, h, h1, h2 => by
    have hi : i < 2 ^ 6 := by omega
    have ht := testBit_spec val (BitVec.ofNat (2 ^ 6) i) (by rw [ofNat_toNat_of_lt hi]; exact hi)
    rw [ofNat_toNat_of_lt hi] at ht
    obtain ⟨ws1, hs1, hr1⟩ := uncheckedSet_rep h i (by omega) (val.getLsbD i)
    obtain ⟨ws', hs', hr'⟩ := fromUllLoop_rep val n (i + 1) ws1 _ hr1 (by omega) (by omega)
    refine ⟨ws', by simp [fromUllLoop, ht, hs1, hs'], hr'.congr (fun j _ => ?_)⟩
    by_cases hji : j = i
    · subst hji; simp [Spec.set1]
    · have e1 : (i + 1 ≤ j ∧ j < i + 1 + n) = (i ≤ j ∧ j < i + (n + 1)) := by apply propext; omega
      simp only [e1, Spec.set1, hji, if_false]

/-- `bitset(unsigned long long val)` / `basic_bitset(unsigned long long val)` -/
theorem fromUll_rep (N k v : Nat) (hv : v < 2 ^ 64) :
    ∃ ws', fromUll N k v = .ok ws' ∧ Rep N k ws' (Spec.ofNat v) := by
  obtain ⟨ws', hs, hr⟩ := fromUllLoop_rep (N := N) (k := k) (BitVec.ofNat (2 ^ 6) v) (min 64 N) 0 (init N k) _
    (init_rep N k) (by omega) (by omega)
  refine ⟨ws', hs, hr.congr (fun j hj => ?_)⟩
  simp only [Spec.ofNat, Spec.zero, BitVec.getLsbD_ofNat, Nat.zero_le, true_and, Nat.zero_add]
  by_cases h64 : j < 64
  · have : j < min 64 N := by omega
    simp [this, h64]
  · have : ¬ j < min 64 N := by omega
    have hlt : v < 2 ^ j := Nat.lt_of_lt_of_le hv (Nat.pow_le_pow_right (by decide) (by omega))
    simp [this, Nat.testBit_lt_two_pow hlt]

/-! ## whole-set observers: the padding bits never influence a result -/

/-- `none()` -/
theorem none_eq {N k : Nat} {ws : Words k} {f : Spec.Bits} (h : Rep N k ws f) : none ws = Spec.none N f := by
  rw [Bool.eq_iff_iff, none_iff h]
  simp only [Spec.none, Spec.any, Bool.not_eq_true', List.any_eq_false, List.mem_range]
  constructor
  · intro hf i hi; simp [hf i hi]
  · intro hf i hi; simpa using hf i hi

/-- `any()` -/
theorem any_eq {N k : Nat} {ws : Words k} {f : Spec.Bits} (h : Rep N k ws f) : any ws = Spec.any N f := by
  have := none_eq h
  simp only [Spec.none] at this
  simp [any, this]

/-- `operator==` -/
theorem eq_eq {N k : Nat} {a b : Words k} {fa fb : Spec.Bits} (ha : Rep N k a fa) (hb : Rep N k b fb) :
    eq a b = Spec.eq N fa fb := by
  rw [Bool.eq_iff_iff]
  simp only [eq, beq_iff_eq, Spec.eq, rangeAll_iff]
  exact eq_iff ha hb

/-- `count()` -/
theorem count_eq' {N k : Nat} {ws : Words k} {f : Spec.Bits} (h : Rep N k ws f) : count ws = Spec.count N f :=
  count_eq h

/-- `all()` -/
theorem all_eq {N k : Nat} {ws : Words k} {f : Spec.Bits} (hN : 0 < N) (h : Rep N k ws f) :
    all N ws = .ok (Spec.all N f) := by
  have hnw := numWords_pos N k hN
  have hlen := h.len
  by_cases hp : hasPadding N k = true
  · obtain ⟨m, hm, hmb⟩ := paddingMaskInv_spec N k hN
    have hne : ws.length ≠ 0 := by omega
    have hlt : numWords N k - 1 < ws.length := by omega
    simp only [all, hp, if_true, hne, if_false, rd_ok hlt, hm, ok_bind]
    congr 1
    rw [Bool.eq_iff_iff, Spec.all, rangeAll_iff, ← all_words_iff hN h m hmb, Bool.and_eq_true, all_iff_getElem]
    constructor
    · rintro ⟨h1, h2⟩
      refine ⟨fun q hq hl => ?_, fun _ => by simpa using h2⟩
      have hq' : q < (ws.take (ws.length - 1)).length := by simp; omega
      have := h1 q hq'
      simpa using this
    · rintro ⟨h1, h2⟩
      refine ⟨fun q hq => ?_, by simpa using h2 hlt⟩
      have hq1 : q < ws.length - 1 := by simp at hq; omega
      simpa using h1 q (by omega) (by omega)
  · have hp0 : padding N k = 0 := by simpa [hasPadding] using hp
    have hpadd := padding_add N k
    simp only [all, hp, Bool.false_eq_true, if_false]
    congr 1
    rw [Bool.eq_iff_iff, Spec.all, rangeAll_iff, all_iff_getElem]
    constructor
    · intro h1 i hi
      have hq : i / 2 ^ k < ws.length := by rw [h.len]; exact wordIndex_lt hi
      have hmod : i % 2 ^ k < 2 ^ k := Nat.mod_lt _ (two_pow_pos' k)
      have hb := h.bit i
      rw [bitAt_eq_getLsbD ws i hq] at hb
      have := h1 _ hq
      simp only [beq_iff_eq] at this
      rw [this] at hb
      simpa [ones, hmod, hi] using hb.symm
    · intro hf q hq
      simp only [beq_iff_eq]
      apply BitVec.eq_of_getLsbD_eq
      intro j hj
      have h5 : (q + 1) * 2 ^ k ≤ numWords N k * 2 ^ k := Nat.mul_le_mul_right _ (by omega)
      rw [Nat.add_mul, Nat.one_mul] at h5
      have : q * 2 ^ k + j < N := by omega
      rw [h.word q hq j hj]
      simp [ones, hj, this, hf _ this]

end Tetl.C17.Props
