/-
C17 — property theorems.  `Rep N k ws f` (Lemmas.lean): the word array `ws` of a
`basic_bitset<N, 2^k-bit word>` has `num_words` words, shows the abstract bitset `f` at the positions
`< N` and has every padding bit zero.  Each theorem says: on a represented state and arguments that
satisfy the documented precondition, the member returns `.ok` (no out-of-range word access, no
over-wide shift, no failed contract), re-establishes `Rep` (padding included) and computes what
`std::bitset` specifies.  All of them hold for every `N ≥ 1` and every `k` (word width `2^k`).
-/
import TetlProofs.C17.BitOps
namespace Tetl.C17.Props
open Tetl Tetl.C17

/-! ## construction -/

/-- default construction: all bits zero -/
theorem init_rep (N k : Nat) : Rep N k (init N k) Spec.zero := by
  refine ⟨by simp [init], fun i => ?_⟩
  simp only [bitAt, init, List.getElem?_replicate, Spec.zero, Bool.and_false]
  split <;> rename_i h
  · split at h
    · cases h; simp
    · cases h
  · rfl

/-! ## single-bit members -/

theorem uncheckedSet_rep {N k : Nat} {ws : Words k} {f : Spec.Bits} (h : Rep N k ws f) (pos : Nat) (hp : pos < N)
    (v : Bool) : ∃ ws', uncheckedSet N ws pos v = .ok ws' ∧ Rep N k ws' (Spec.set1 f pos v) := by
  simp only [uncheckedSet, hp, if_true]
  exact transformBit_spec N ws f h pos hp _ (fun _ => v) (hop_setBitTo pos v)

theorem uncheckedReset_rep {N k : Nat} {ws : Words k} {f : Spec.Bits} (h : Rep N k ws f) (pos : Nat) (hp : pos < N) :
    ∃ ws', uncheckedReset N ws pos = .ok ws' ∧ Rep N k ws' (Spec.set1 f pos false) := by
  simp only [uncheckedReset, hp, if_true]
  exact transformBit_spec N ws f h pos hp _ (fun _ => false) (hop_resetBit pos)

theorem uncheckedFlip_rep {N k : Nat} {ws : Words k} {f : Spec.Bits} (h : Rep N k ws f) (pos : Nat) (hp : pos < N) :
    ∃ ws', uncheckedFlip N ws pos = .ok ws' ∧ Rep N k ws' (Spec.flip1 f pos) := by
  simp only [uncheckedFlip, hp, if_true]
  obtain ⟨ws', h1, h2⟩ := transformBit_spec N ws f h pos hp _ (fun b => !b) (hop_flipBit pos)
  exact ⟨ws', h1, h2.congr (fun i _ => by by_cases e : i = pos <;> simp [Spec.flip1, e])⟩

/-- `bitset::set(pos, value)` -/
theorem set_rep {N k : Nat} {ws : Words k} {f : Spec.Bits} (h : Rep N k ws f) (pos : Nat) (hp : pos < N) (v : Bool) :
    ∃ ws', set N ws pos v = .ok ws' ∧ Rep N k ws' (Spec.set1 f pos v) := by
  simp only [set, hp, if_true]; exact uncheckedSet_rep h pos hp v

/-- `bitset::reset(pos)` -/
theorem reset_rep {N k : Nat} {ws : Words k} {f : Spec.Bits} (h : Rep N k ws f) (pos : Nat) (hp : pos < N) :
    ∃ ws', reset N ws pos = .ok ws' ∧ Rep N k ws' (Spec.set1 f pos false) := by
  simp only [reset, hp, if_true]; exact uncheckedReset_rep h pos hp

/-- `bitset::flip(pos)` -/
theorem flip_rep {N k : Nat} {ws : Words k} {f : Spec.Bits} (h : Rep N k ws f) (pos : Nat) (hp : pos < N) :
    ∃ ws', flip N ws pos = .ok ws' ∧ Rep N k ws' (Spec.flip1 f pos) := by
  simp only [flip, hp, if_true]; exact uncheckedFlip_rep h pos hp

/-- `b[pos] = x` through the proxy reference -/
theorem refAssign_rep {N k : Nat} {ws : Words k} {f : Spec.Bits} (h : Rep N k ws f) (pos : Nat) (hp : pos < N)
    (x : Bool) : ∃ ws', refAssign N ws pos x = .ok ws' ∧ Rep N k ws' (Spec.set1 f pos x) := by
  simp only [refAssign, hp, if_true]
  exact rmw_spec N ws f h pos hp (fun w b => setBitTo w b x) (fun _ => x) (hop_setBitTo pos x)

/-- `b[pos].flip()` through the proxy reference -/
theorem refFlip_rep {N k : Nat} {ws : Words k} {f : Spec.Bits} (h : Rep N k ws f) (pos : Nat) (hp : pos < N) :
    ∃ ws', refFlip N ws pos = .ok ws' ∧ Rep N k ws' (Spec.flip1 f pos) := by
  simp only [refFlip, hp, if_true]
  obtain ⟨ws', h1, h2⟩ := rmw_spec N ws f h pos hp flipBit (fun b => !b) (hop_flipBit pos)
  exact ⟨ws', h1, h2.congr (fun i _ => by by_cases e : i = pos <;> simp [Spec.flip1, e])⟩

/-! ## single-bit observers -/

theorem uncheckedTest_eq {N k : Nat} {ws : Words k} {f : Spec.Bits} (h : Rep N k ws f) (pos : Nat) (hp : pos < N) :
    uncheckedTest N ws pos = .ok (Spec.test f pos) := by
  simp only [uncheckedTest, hp, if_true]; exact readBit_spec N ws f h pos hp

/-- `bitset::test(pos)` -/
theorem test_eq {N k : Nat} {ws : Words k} {f : Spec.Bits} (h : Rep N k ws f) (pos : Nat) (hp : pos < N) :
    test N ws pos = .ok (Spec.test f pos) := by
  simp only [test, hp, if_true]; exact uncheckedTest_eq h pos hp

/-- `operator[](pos) const` -/
theorem getConst_eq {N k : Nat} {ws : Words k} {f : Spec.Bits} (h : Rep N k ws f) (pos : Nat) (hp : pos < N) :
    getConst N ws pos = .ok (Spec.test f pos) := by
  simp only [getConst, hp, if_true]; exact uncheckedTest_eq h pos hp

/-- `bool(b[pos])` through the proxy reference -/
theorem refGet_eq {N k : Nat} {ws : Words k} {f : Spec.Bits} (h : Rep N k ws f) (pos : Nat) (hp : pos < N) :
    refGet N ws pos = .ok (Spec.test f pos) := by
  simp only [refGet, hp, if_true]; exact readBit_spec N ws f h pos hp

/-- `~b[pos]` through the proxy reference -/
theorem refNot_eq {N k : Nat} {ws : Words k} {f : Spec.Bits} (h : Rep N k ws f) (pos : Nat) (hp : pos < N) :
    refNot N ws pos = .ok (!Spec.test f pos) := by
  simp [refNot, refGet_eq h pos hp]

end Tetl.C17.Props
