/-
C17 — property theorems (the obligations).  `Rep N k ws f` (Lemmas.lean): the word array `ws` of a
`basic_bitset<N, 2^k-bit word>` has `num_words` words, shows the abstract bitset `f` at the positions
`< N` and has every padding bit zero.  Each theorem says: on a represented state and arguments that
satisfy the documented precondition, the member returns `.ok` (no out-of-range word access, no
over-wide shift, no failed contract), re-establishes `Rep` (padding included) and computes what
`std::bitset` specifies.  All of them hold for every `N` — `bitset<0>` (no storage word) included —
and every `k` (word width `2^k`); a character is its code unit value, so the string members are
proved for every `CharT`.
The proofs (and the loop lemmas between them) are in Members.lean; every statement is restated here.
-/
import TetlProofs.C17.Members
import TetlProofs.C17.Popcount
namespace Tetl.C17.Props
open Tetl Tetl.C17 Tetl.C17.Members

/-- default construction: all bits zero -/
theorem init_rep (N k : Nat) : Rep N k (init N k) Spec.zero :=
  Members.init_rep N k

theorem uncheckedSet_rep {N k : Nat} {ws : Words k} {f : Spec.Bits} (h : Rep N k ws f) (pos : Nat) (hp : pos < N)
    (v : Bool) : ∃ ws', uncheckedSet N ws pos v = .ok ws' ∧ Rep N k ws' (Spec.set1 f pos v) :=
  Members.uncheckedSet_rep h pos hp v

theorem uncheckedReset_rep {N k : Nat} {ws : Words k} {f : Spec.Bits} (h : Rep N k ws f) (pos : Nat) (hp : pos < N) :
    ∃ ws', uncheckedReset N ws pos = .ok ws' ∧ Rep N k ws' (Spec.set1 f pos false) :=
  Members.uncheckedReset_rep h pos hp

theorem uncheckedFlip_rep {N k : Nat} {ws : Words k} {f : Spec.Bits} (h : Rep N k ws f) (pos : Nat) (hp : pos < N) :
    ∃ ws', uncheckedFlip N ws pos = .ok ws' ∧ Rep N k ws' (Spec.flip1 f pos) :=
  Members.uncheckedFlip_rep h pos hp

/-- `bitset::set(pos, value)` -/
theorem set_rep {N k : Nat} {ws : Words k} {f : Spec.Bits} (h : Rep N k ws f) (pos : Nat) (hp : pos < N) (v : Bool) :
    ∃ ws', set N ws pos v = .ok ws' ∧ Rep N k ws' (Spec.set1 f pos v) :=
  Members.set_rep h pos hp v

/-- `bitset::reset(pos)` -/
theorem reset_rep {N k : Nat} {ws : Words k} {f : Spec.Bits} (h : Rep N k ws f) (pos : Nat) (hp : pos < N) :
    ∃ ws', reset N ws pos = .ok ws' ∧ Rep N k ws' (Spec.set1 f pos false) :=
  Members.reset_rep h pos hp

/-- `bitset::flip(pos)` -/
theorem flip_rep {N k : Nat} {ws : Words k} {f : Spec.Bits} (h : Rep N k ws f) (pos : Nat) (hp : pos < N) :
    ∃ ws', flip N ws pos = .ok ws' ∧ Rep N k ws' (Spec.flip1 f pos) :=
  Members.flip_rep h pos hp

/-- `b[pos] = x` through the proxy reference -/
theorem refAssign_rep {N k : Nat} {ws : Words k} {f : Spec.Bits} (h : Rep N k ws f) (pos : Nat) (hp : pos < N)
    (x : Bool) : ∃ ws', refAssign N ws pos x = .ok ws' ∧ Rep N k ws' (Spec.set1 f pos x) :=
  Members.refAssign_rep h pos hp x

/-- `b[pos].flip()` through the proxy reference -/
theorem refFlip_rep {N k : Nat} {ws : Words k} {f : Spec.Bits} (h : Rep N k ws f) (pos : Nat) (hp : pos < N) :
    ∃ ws', refFlip N ws pos = .ok ws' ∧ Rep N k ws' (Spec.flip1 f pos) :=
  Members.refFlip_rep h pos hp

theorem uncheckedTest_eq {N k : Nat} {ws : Words k} {f : Spec.Bits} (h : Rep N k ws f) (pos : Nat) (hp : pos < N) :
    uncheckedTest N ws pos = .ok (Spec.test f pos) :=
  Members.uncheckedTest_eq h pos hp

/-- `bitset::test(pos)` -/
theorem test_eq {N k : Nat} {ws : Words k} {f : Spec.Bits} (h : Rep N k ws f) (pos : Nat) (hp : pos < N) :
    test N ws pos = .ok (Spec.test f pos) :=
  Members.test_eq h pos hp

/-- `operator[](pos) const` -/
theorem getConst_eq {N k : Nat} {ws : Words k} {f : Spec.Bits} (h : Rep N k ws f) (pos : Nat) (hp : pos < N) :
    getConst N ws pos = .ok (Spec.test f pos) :=
  Members.getConst_eq h pos hp

/-- `bool(b[pos])` through the proxy reference -/
theorem refGet_eq {N k : Nat} {ws : Words k} {f : Spec.Bits} (h : Rep N k ws f) (pos : Nat) (hp : pos < N) :
    refGet N ws pos = .ok (Spec.test f pos) :=
  Members.refGet_eq h pos hp

/-- `~b[pos]` through the proxy reference -/
theorem refNot_eq {N k : Nat} {ws : Words k} {f : Spec.Bits} (h : Rep N k ws f) (pos : Nat) (hp : pos < N) :
    refNot N ws pos = .ok (!Spec.test f pos) :=
  Members.refNot_eq h pos hp

/-- `reset()` -/
theorem resetAll_rep {N k : Nat} {ws : Words k} {f : Spec.Bits} (h : Rep N k ws f) :
    Rep N k (resetAll ws) (Spec.resetAll f) :=
  Members.resetAll_rep h

/-- `set()`: the padding bits of the last word stay zero -/
theorem setAll_rep {N k : Nat} {ws : Words k} {f : Spec.Bits} (h : Rep N k ws f) :
    ∃ ws', setAll N ws = .ok ws' ∧ Rep N k ws' (Spec.setAll f) :=
  Members.setAll_rep h

/-- `flip()`: the padding bits of the last word are masked off again -/
theorem flipAll_rep {N k : Nat} {ws : Words k} {f : Spec.Bits} (h : Rep N k ws f) :
    ∃ ws', flipAll N ws = .ok ws' ∧ Rep N k ws' (Spec.flipAll f) :=
  Members.flipAll_rep h

/-- `operator~` -/
theorem not_rep {N k : Nat} {ws : Words k} {f : Spec.Bits} (h : Rep N k ws f) :
    ∃ ws', C17.not N ws = .ok ws' ∧ Rep N k ws' (Spec.flipAll f) :=
  Members.not_rep h

/-- `operator&=` (and `operator&`) -/
theorem andAssign_rep {N k : Nat} {a b : Words k} {fa fb : Spec.Bits} (ha : Rep N k a fa) (hb : Rep N k b fb) :
    ∃ ws', andAssign a b = .ok ws' ∧ Rep N k ws' (Spec.and fa fb) :=
  Members.andAssign_rep ha hb

/-- `operator|=` (and `operator|`) -/
theorem orAssign_rep {N k : Nat} {a b : Words k} {fa fb : Spec.Bits} (ha : Rep N k a fa) (hb : Rep N k b fb) :
    ∃ ws', orAssign a b = .ok ws' ∧ Rep N k ws' (Spec.or fa fb) :=
  Members.orAssign_rep ha hb

/-- `operator^=` (and `operator^`) -/
theorem xorAssign_rep {N k : Nat} {a b : Words k} {fa fb : Spec.Bits} (ha : Rep N k a fa) (hb : Rep N k b fb) :
    ∃ ws', xorAssign a b = .ok ws' ∧ Rep N k ws' (Spec.xor fa fb) :=
  Members.xorAssign_rep ha hb

/-- `bitset(unsigned long long val)` / `basic_bitset(unsigned long long val)` -/
theorem fromUll_rep (N k v : Nat) (hv : v < 2 ^ 64) :
    ∃ ws', fromUll N k v = .ok ws' ∧ Rep N k ws' (Spec.ofNat v) :=
  Members.fromUll_rep N k v hv

/-- `none()` -/
theorem none_eq {N k : Nat} {ws : Words k} {f : Spec.Bits} (h : Rep N k ws f) : none ws = Spec.none N f :=
  Members.none_eq h

/-- `any()` -/
theorem any_eq {N k : Nat} {ws : Words k} {f : Spec.Bits} (h : Rep N k ws f) : any ws = Spec.any N f :=
  Members.any_eq h

/-- `operator==` -/
theorem eq_eq {N k : Nat} {a b : Words k} {fa fb : Spec.Bits} (ha : Rep N k a fa) (hb : Rep N k b fb) :
    eq a b = Spec.eq N fa fb :=
  Members.eq_eq ha hb

/-- `etl::popcount` as code: the portable loop `detail::popcount_fallback` (`for (; val != 0; val &= val - 1) c++`,
    property C14's model `Tetl.C14.popLoop`), run on a storage word, returns the number of one bits that the
    C17 model's `popcount` stands for.  (The run-time path calls `__builtin_popcount*`, which is trusted.) -/
theorem popcount_code {k : Nat} (word : Word k) :
    C14.popcountFallback (2 ^ k) word.toNat = .ok (popcount word) :=
  popcountFallback_eq word

/-- `count()` -/
theorem count_eq' {N k : Nat} {ws : Words k} {f : Spec.Bits} (h : Rep N k ws f) : count ws = Spec.count N f :=
  Members.count_eq' h

/-- `all()` -/
theorem all_eq {N k : Nat} {ws : Words k} {f : Spec.Bits} (h : Rep N k ws f) :
    all N ws = .ok (Spec.all N f) :=
  Members.all_eq h

/-- `bitset(string_view str, pos, n, zero, one)`; preconditions: `pos <= str.size()` (std throws
    `out_of_range`) and every used character is `zero` or `one` (std throws `invalid_argument`) -/
theorem fromString_rep (N k : Nat) (str : List Nat) (pos n zeroCh oneCh : Nat) (hpos : pos ≤ str.length)
    (hvalid : (usedChars N str pos n).all (fun c => c == zeroCh || c == oneCh) = true) :
    ∃ ws', fromString N k str pos n zeroCh oneCh = .ok ws' ∧ Rep N k ws' (Spec.ofString N str pos n zeroCh) :=
  Members.fromString_rep N k str pos n zeroCh oneCh hpos hvalid

/-- `bitset(char const* str, n, zero, one)`.  `mem` = every unit that is readable from `str` (to the end of
    its allocation).  Preconditions ([bitset.cons]): `cstrReadable mem n` — a terminator exists when `n == npos`,
    `[str, str + n)` is readable otherwise (nothing is required at or behind `str + n`: no terminator) — and
    every used character is `zero` or `one`.  The value is that of `std::bitset`: the digits are
    `basic_string(str)` for `npos` and EXACTLY the first `n` units otherwise, null characters included
    (`Spec.cstrChars`).  (Restated: the former statement took "the characters before the terminator" as its
    buffer and therefore said nothing about null characters among the first `n` or about what is read.) -/
theorem fromCstr_rep (N k : Nat) (mem : List Nat) (n zeroCh oneCh : Nat) (hn : cstrReadable mem n = true)
    (hvalid : (usedChars N (Spec.cstrChars mem n) 0 n).all (fun c => c == zeroCh || c == oneCh) = true) :
    ∃ ws', fromCstr N k mem n zeroCh oneCh = .ok ws' ∧ Rep N k ws' (Spec.ofCstr N mem n zeroCh) :=
  Members.fromCstr_rep N k mem n zeroCh oneCh hn hvalid

/-- non-vacuity, and the witness of the seeded change C17-r2-cstr-ctor-strlen: the raw digits
    `{1,0,1,1,0,0,0,1}` in an exact-size buffer (no terminator), `n = 8`, `zero = CharT(0)`, `one = CharT(1)`
    satisfy the hypotheses, and the specified value is 0b10110001 (a `strlen`-based reading gives 0b1) -/
example : cstrReadable [1, 0, 1, 1, 0, 0, 0, 1] 8 = true ∧
    (usedChars 8 (Spec.cstrChars [1, 0, 1, 1, 0, 0, 0, 1] 8) 0 8).all (fun c => c == 0 || c == 1) = true ∧
    Spec.toNat 8 (Spec.ofCstr 8 [1, 0, 1, 1, 0, 0, 0, 1] 8 0) = 0b10110001 := by decide

/-- the pointer overload IS the view constructor on the exact-size buffer of the characters `std::bitset`
    uses — with no hypothesis on the characters (for invalid ones both sides behave alike) -/
theorem fromCstr_eq (N k : Nat) (mem : List Nat) (n zeroCh oneCh : Nat) (hn : cstrReadable mem n = true) :
    fromCstr N k mem n zeroCh oneCh = fromString N k (Spec.cstrChars mem n) 0 n zeroCh oneCh :=
  Members.fromCstr_eq N k mem n zeroCh oneCh hn

/-- `basic_string_view(CharT const*)` / `Traits::length` on a terminated buffer: the number of characters
    before the first `CharT(0)`, and no read behind the terminator (never `.error`) -/
theorem strlen_eq (mem : List Nat) (h0 : 0 ∈ mem) :
    strlen mem = .ok (mem.takeWhile (fun c => c != 0)).length :=
  Members.strlen_eq mem h0

/-- **Footprint of the view constructor.**  The result on an exact-size buffer `str` (a view with
    `size() = |str|` and nothing readable behind it) equals the result on any extension `str ++ ext` of the
    allocation: nothing at or behind `data() + size()` is read — for every `pos`, `n` and every character
    (no validity hypothesis; errors included). -/
theorem fromString_footprint (N k : Nat) (str ext : List Nat) (pos n zeroCh oneCh : Nat) :
    fromStringV N k (str ++ ext) str.length pos n zeroCh oneCh = fromString N k str pos n zeroCh oneCh :=
  Members.fromString_footprint N k str ext pos n zeroCh oneCh

/-- a view inside a larger allocation: only `mem.take size` matters -/
theorem fromStringV_eq (N k : Nat) (mem : List Nat) (size pos n zeroCh oneCh : Nat) (hsz : size ≤ mem.length) :
    fromStringV N k mem size pos n zeroCh oneCh = fromString N k (mem.take size) pos n zeroCh oneCh :=
  Members.fromStringV_eq N k mem size pos n zeroCh oneCh hsz

/-- **Footprint of the pointer overload with an explicit `n`.**  The result on the exact-size buffer of
    `n = |buf|` units with NO terminator behind it equals the result on any extension of it: exactly the first
    `n` units are read and no terminator is looked for — whatever the characters are (a `CharT(0)` among them
    does not end the digits).  Together with `fromCstr_rep` on `buf`: never an error on the exact-size buffer. -/
theorem fromCstr_footprint (N k : Nat) (buf ext : List Nat) (zeroCh oneCh : Nat) (hn : buf.length ≠ NPOS) :
    fromCstr N k (buf ++ ext) buf.length zeroCh oneCh = fromCstr N k buf buf.length zeroCh oneCh :=
  Members.fromCstr_footprint N k buf ext zeroCh oneCh hn

/-- the same, for `n` smaller than the readable buffer: only the first `n` units matter -/
theorem fromCstr_take (N k : Nat) (mem : List Nat) (n zeroCh oneCh : Nat) (hn : n ≠ NPOS) (hle : n ≤ mem.length) :
    fromCstr N k mem n zeroCh oneCh = fromCstr N k (mem.take n) n zeroCh oneCh :=
  Members.fromCstr_take N k mem n zeroCh oneCh hn hle

/-- non-vacuity: `n = 3` on a 5-unit buffer -/
example : (3 : Nat) ≠ NPOS ∧ 3 ≤ [49, 0, 49, 7, 7].length := by decide

/-- **Footprint of the `npos` form**: the characters before the terminator and the terminator are read,
    nothing behind it -/
theorem fromCstr_npos_footprint (N k : Nat) (s ext : List Nat) (zeroCh oneCh : Nat) (hs : ∀ c, c ∈ s → c ≠ 0) :
    fromCstr N k (s ++ 0 :: ext) NPOS zeroCh oneCh = fromCstr N k (s ++ [0]) NPOS zeroCh oneCh :=
  Members.fromCstr_npos_footprint N k s ext zeroCh oneCh hs

/-- non-vacuity: "101" -/
example : ∀ c, c ∈ [49, 48, 49] → c ≠ 0 := by decide

/-- `set(pos)` (and `unchecked_set(pos)`): the value defaults to `true` -/
theorem setD_rep {N k : Nat} {ws : Words k} {f : Spec.Bits} (h : Rep N k ws f) (pos : Nat) (hp : pos < N) :
    ∃ ws', setD N ws pos = .ok ws' ∧ Rep N k ws' (Spec.set1 f pos true) :=
  Members.setD_rep h pos hp

/-- `bitset(str [, pos [, n [, zero [, one]]]])` with trailing arguments defaulted (`none` = not passed):
    tetl's defaults `0`, `npos`, `CharT('0')`, `CharT('1')` give what `std::bitset` specifies for its own
    defaults; same preconditions as `fromString_rep`, on the effective arguments -/
theorem fromStringD_rep (N k : Nat) (str : List Nat) (pos n zeroCh oneCh : Option Nat)
    (hpos : arg pos 0 ≤ str.length)
    (hvalid : (usedChars N str (arg pos 0) (arg n NPOS)).all (fun c => c == arg zeroCh CH0 || c == arg oneCh CH1) = true) :
    ∃ ws', fromStringD N k str pos n zeroCh oneCh = .ok ws' ∧
      Rep N k ws' (Spec.ofString N str (arg pos 0) (arg n Spec.npos) (arg zeroCh Spec.ch0)) :=
  Members.fromStringD_rep N k str pos n zeroCh oneCh hpos hvalid

/-- `bitset(cstr [, n [, zero [, one]]])` with trailing arguments defaulted -/
theorem fromCstrD_rep (N k : Nat) (buf : List Nat) (n zeroCh oneCh : Option Nat)
    (hn : cstrReadable buf (arg n NPOS) = true)
    (hvalid : (usedChars N (Spec.cstrChars buf (arg n NPOS)) 0 (arg n NPOS)).all
      (fun c => c == arg zeroCh CH0 || c == arg oneCh CH1) = true) :
    ∃ ws', fromCstrD N k buf n zeroCh oneCh = .ok ws' ∧
      Rep N k ws' (Spec.ofCstr N buf (arg n Spec.npos) (arg zeroCh Spec.ch0)) :=
  Members.fromCstrD_rep N k buf n zeroCh oneCh hn hvalid

/-- non-vacuity: `bitset<9>("101")` (view), `bitset<9>("x1x", 3, 'x')` on an exact-size buffer without
    terminator and `bitset<9>("10")` (pointer, terminated) satisfy the hypotheses -/
example : (arg Option.none 0 ≤ [49, 48, 49].length ∧
    (usedChars 9 [49, 48, 49] (arg Option.none 0) (arg Option.none NPOS)).all
      (fun c => c == arg Option.none CH0 || c == arg Option.none CH1) = true) ∧
    (cstrReadable [120, 49, 120] (arg (some 3) NPOS) = true ∧
    (usedChars 9 (Spec.cstrChars [120, 49, 120] (arg (some 3) NPOS)) 0 (arg (some 3) NPOS)).all
      (fun c => c == arg (some 120) CH0 || c == arg Option.none CH1) = true) ∧
    (cstrReadable [49, 48, 0] (arg Option.none NPOS) = true ∧
    (usedChars 9 (Spec.cstrChars [49, 48, 0] (arg Option.none NPOS)) 0 (arg Option.none NPOS)).all
      (fun c => c == arg Option.none CH0 || c == arg Option.none CH1) = true) := by decide

/-- one valid operation: never an error, every object still represented (padding included), and
    the abstract state moved as `std::bitset` specifies -/
theorem step_rep {N k : Nat} {st : Store k} {sp : Spec.Store} (h : StoreRep N k st sp) (op : Op)
    (hv : Op.valid N op = true) :
    ∃ st', step N st op = .ok st' ∧ StoreRep N k st' (Spec.step N sp op) :=
  Members.step_rep h op hv

/-- **Main theorem.** For every width `N` (0 included), every word size `2^k` and every history of valid
    operations, of any length, starting from any represented store: the model never returns an error
    and every object of the final store represents the corresponding object of the `std::bitset`
    specification run on the same history. -/
theorem run_refines {N k : Nat} : ∀ (ops : List Op) {st : Store k} {sp : Spec.Store},
    StoreRep N k st sp → (∀ op, op ∈ ops → Op.valid N op = true) →
    ∃ st', run N st ops = .ok st' ∧ StoreRep N k st' (Spec.run N sp ops) :=
  Members.run_refines

/-- histories from default-constructed objects -/
theorem run_refines_init {N k : Nat} (ops : List Op) (hv : ∀ op, op ∈ ops → Op.valid N op = true) :
    ∃ st', run N (Store.init N k) ops = .ok st' ∧ StoreRep N k st' (Spec.run N Spec.Store.init ops) :=
  Members.run_refines_init ops hv

/-- **Padding invariant over histories.** After any valid history the high `padding` bits of the last
    storage word of every object are zero (and the array has exactly `num_words` words). -/
theorem padding_inv_history {N k : Nat} (ops : List Op)
    (hv : ∀ op, op ∈ ops → Op.valid N op = true) :
    ∃ st', run N (Store.init N k) ops = .ok st' ∧ ∀ o, (st' o).length = numWords N k ∧
      ∀ (hl : numWords N k - 1 < (st' o).length) (j : Nat), 2 ^ k - padding N k ≤ j → j < 2 ^ k →
        (st' o)[numWords N k - 1].getLsbD j = false :=
  Members.padding_inv_history ops hv

/-- **Observers after a history** equal those of the specification: `test`/`operator[]`, `count`,
    `all`, `any`, `none`, `==`. -/
theorem run_observers {N k : Nat} (ops : List Op) (hv : ∀ op, op ∈ ops → Op.valid N op = true) :
    ∃ st', run N (Store.init N k) ops = .ok st' ∧ ∀ o,
      let f := Spec.run N Spec.Store.init ops o
      (∀ pos, pos < N → test N (st' o) pos = .ok (Spec.test f pos) ∧ getConst N (st' o) pos = .ok (Spec.test f pos)
        ∧ refGet N (st' o) pos = .ok (Spec.test f pos)) ∧
      count (st' o) = Spec.count N f ∧ all N (st' o) = .ok (Spec.all N f) ∧ any (st' o) = Spec.any N f ∧
      none (st' o) = Spec.none N f ∧
      ∀ o2, eq (st' o) (st' o2) = Spec.eq N f (Spec.run N Spec.Store.init ops o2) :=
  Members.run_observers ops hv

/-- **`to_ulong()` / `to_ullong()`, every width** (64-bit result types).  When the value of the bitset
    fits in 64 bits — exactly when `std::bitset` does not throw `overflow_error` — the member returns it:
    Σ 2^i over the set bits.  (Replaces the former `toUnsigned_partial`, whose hypothesis `N ≤ 64` was
    the class of the finding F-C17-to-ullong-wide-absent, now fixed; `toUnsigned_narrow` below is its
    old statement.) -/
theorem toUnsigned_eq {N k : Nat} {ws : Words k} {f : Spec.Bits} (h : Rep N k ws f) (hfit : Spec.toNat N f < 2 ^ 64) :
    toUnsigned N ws = .ok (Spec.toNat N f) :=
  Members.toUnsigned_eq h hfit

/-- non-vacuity: `bitset<65>{5}` (the witness of the former finding) has a value that fits -/
example : Spec.toNat 65 (Spec.ofNat 5) < 2 ^ 64 := by decide

/-- the other half: when the value does not fit (`std::bitset` throws `overflow_error`) the member's
    contract `TETL_PRECONDITION(not test(i))`, `i >= 64`, fails; it never yields a truncated value
    while contracts are checked -/
theorem toUnsigned_overflow {N k : Nat} {ws : Words k} {f : Spec.Bits} (h : Rep N k ws f)
    (hbig : 2 ^ 64 ≤ Spec.toNat N f) :
    toUnsigned N ws = .error (.pre "to_ulong/to_ullong: no bit beyond the digits of the result type is set") :=
  Members.toUnsigned_overflow h hbig

/-- non-vacuity: bit 64 of a `bitset<65>` alone is worth 2^64 -/
example : 2 ^ 64 ≤ Spec.toNat 65 (Spec.set1 Spec.zero 64 true) := by decide

/-- `to_ulong()` / `to_ullong()` for `Bits <= 64`: no precondition (the value always fits) -/
theorem toUnsigned_narrow {N k : Nat} {ws : Words k} {f : Spec.Bits} (h : Rep N k ws f) (h64 : N ≤ 64) :
    toUnsigned N ws = .ok (Spec.toNat N f) :=
  Members.toUnsigned_narrow h h64

/-- `to_string<Capacity, CharT>(zero, one)` for `Capacity >= Bits` (`Bits = 0`: the empty string):
    character 0 is bit `N-1`, the last character is bit 0, no `push_back` beyond the capacity -/
theorem toStr_eq {N k : Nat} {ws : Words k} {f : Spec.Bits} (h : Rep N k ws f) (zeroCh oneCh cap : Nat)
    (hcap : N ≤ cap) : toStr N ws zeroCh oneCh cap = .ok (Spec.toStr N f zeroCh oneCh) :=
  Members.toStr_eq h zeroCh oneCh cap hcap

/-- `to_string` into a string of EXACTLY `Bits` characters of capacity (`to_string<Bits, CharT>`): every
    `push_back` finds room, the result has `Bits` characters — the capacity is used up to the last unit and not
    exceeded -/
theorem toStr_exact_capacity {N k : Nat} {ws : Words k} {f : Spec.Bits} (h : Rep N k ws f) (zeroCh oneCh : Nat) :
    ∃ str, toStr N ws zeroCh oneCh N = .ok str ∧ str.length = N ∧ str = Spec.toStr N f zeroCh oneCh :=
  ⟨_, Members.toStr_eq h zeroCh oneCh N (Nat.le_refl N), by simp [Spec.toStr], rfl⟩

/-- `to_string<Capacity, CharT>()` / `to_string<Capacity, CharT>(zero)`: the defaulted characters
    `CharT('0')`, `CharT('1')` are those of `std::bitset::to_string` -/
theorem toStrD_eq {N k : Nat} {ws : Words k} {f : Spec.Bits} (h : Rep N k ws f) (zeroCh oneCh : Option Nat)
    (cap : Nat) (hcap : N ≤ cap) : toStrD N ws zeroCh oneCh cap = .ok (Spec.toStrD N f zeroCh oneCh) :=
  Members.toStrD_eq h zeroCh oneCh cap hcap

/-- non-vacuity of the history theorems: a valid history that crosses a word boundary with whole-set,
    single-bit, binary and constructor operations -/
example : (∀ op, op ∈ [Op.setAll 0, .flip 0 64, .fromUll 1 5, .xorA 0 1, .fromStr 2 [49, 48] 0 NPOS 48 49,
    .setD 1 64, .fromStrD 3 [49, 48] Option.none Option.none Option.none Option.none,
    .fromCstrD 3 [65, 66] (some 2) (some 65) (some 66)] →
    Op.valid 65 op = true) := by decide

/-- non-vacuity at `N = 0`: `bitset<0>` is represented by the empty word array, and the whole-set,
    binary and constructor operations are valid on it -/
example : Rep 0 6 (init 0 6) Spec.zero ∧ (∀ op, op ∈ [Op.setAll 0, .flipAll 0, .not 1 0, .fromUll 2 5, .andA 0 2,
    .fromStrD 3 [49, 48] Option.none Option.none Option.none Option.none] → Op.valid 0 op = true) :=
  ⟨init_rep 0 6, by decide⟩

/-- non-vacuity of the member theorems: the default-constructed 9-bit set over 64-bit words is represented -/
example : Rep 9 6 (init 9 6) Spec.zero ∧ 9 ≤ 64 ∧ 0 < 9 := ⟨init_rep 9 6, by decide, by decide⟩

end Tetl.C17.Props
