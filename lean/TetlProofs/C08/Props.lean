/-
C08 — property theorems: every modelled member of basic_string_view returns `.ok` (no read
outside the views: the C02 face) of exactly the value the declarative spec prescribes, for all
views, needles, positions and counts.
-/
import TetlProofs.C08.Lemmas
namespace Tetl.C08.Props
open Tetl Tetl.C08

/-! ## compare -/

theorem traitsCompare_prefix (a b : Str) :
    ∃ r : Int, traitsCompare a b (min a.length b.length) 0 = .ok r ∧
      Spec.cmp a b = (if r < 0 then -1 else if r > 0 then 1
        else if a.length < b.length then -1 else if a.length > b.length then 1 else 0) := by
  induction a generalizing b with
  | nil => cases b <;> simp [traitsCompare, Spec.cmp]
  | cons x a ih =>
    cases b with
    | nil => simp [traitsCompare, Spec.cmp]
    | cons y b =>
      obtain ⟨r, hr, hs⟩ := ih b
      have hmin : min (x :: a).length (y :: b).length = min a.length b.length + 1 := by
        simp [Nat.succ_min_succ]
      rw [hmin]
      simp only [traitsCompare, rd_cons_zero, traitsCompare_shift, Spec.cmp]
      by_cases h1 : x < y
      · exact ⟨-1, by simp [h1], by simp [h1]⟩
      · by_cases h2 : x > y
        · exact ⟨1, by simp [h1, h2], by simp [h1, h2]⟩
        · refine ⟨r, by simp [h1, h2, hr], ?_⟩
          simp [h1, h2, hs]

/-- `compare` never reads outside the two views and returns the three-way lexicographic order
    of the unsigned code units. -/
theorem compare_eq (a b : Str) : compare a b = .ok (Spec.cmp a b) := by
  obtain ⟨r, hr, hs⟩ := traitsCompare_prefix a b
  unfold compare
  simp only [hr, hs, ok_bind]
  repeat' split
  all_goals rfl

end Tetl.C08.Props
