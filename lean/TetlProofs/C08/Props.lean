/-
C08 — property theorems: every modelled member of basic_string_view returns `.ok` (no read
outside the views: the C02 face) of exactly the value the declarative spec prescribes, for all
views, needles, positions and counts.
-/
import TetlProofs.C08.Lemmas
import TetlProofs.C08.Rfind
namespace Tetl.C08.Props
open Tetl Tetl.C08

/-! ## compare -/

theorem traitsCompare_prefix (a b : Str) :
    ∃ r : Int, traitsCompare a b (min a.length b.length) 0 = .ok r ∧
      Spec.cmp a b = (if r < 0 then -1 else if r > 0 then 1
        else if a.length < b.length then -1 else if a.length > b.length then 1 else 0) := by
  induction a generalizing b with
  | nil => cases b <;> simp [traitsCompare, Spec.cmp]
  | cons x a ih =>
    cases b with
    | nil => simp [traitsCompare, Spec.cmp]
    | cons y b =>
      obtain ⟨r, hr, hs⟩ := ih b
      have hmin : min (x :: a).length (y :: b).length = min a.length b.length + 1 := by
        simp [Nat.succ_min_succ]
      rw [hmin]
      simp only [traitsCompare, rd_cons_zero, traitsCompare_shift, Spec.cmp]
      by_cases h1 : x < y
      · exact ⟨-1, by simp [h1], by simp [h1]⟩
      · by_cases h2 : x > y
        · exact ⟨1, by simp [h1, h2], by simp [h1, h2]⟩
        · refine ⟨r, by simp [h1, h2, hr], ?_⟩
          simp [h1, h2, hs]

/-- `compare` never reads outside the two views and returns the three-way lexicographic order
    of the unsigned code units. -/
theorem compare_eq (a b : Str) : compare a b = .ok (Spec.cmp a b) := by
  obtain ⟨r, hr, hs⟩ := traitsCompare_prefix a b
  unfold compare
  simp only [hr, hs, ok_bind]
  repeat' split
  all_goals rfl


/-! ## find_first_of / find_first_not_of -/

theorem anyEq_eq (v : Str) (x : Nat) : anyEq v x = v.contains x := by
  induction v with
  | nil => simp [anyEq]
  | cons y v ih =>
    simp only [anyEq, List.any_cons, List.contains_cons] at ih ⊢
    rw [ih, Bool.beq_comm]

theorem findFirstOfLoop_eq (h v : Str) (n idx : Nat) (hn : n = 0 ∨ idx + n ≤ h.length) :
    findFirstOfLoop h v n idx = .ok ((List.range' idx n).find?
      (fun i => match h[i]? with | some c => v.contains c | none => false)) := by
  induction n generalizing idx with
  | zero => simp [findFirstOfLoop]
  | succ n ih =>
    have hlt : idx < h.length := by omega
    simp only [findFirstOfLoop, rd_ok hlt, ok_bind, List.range'_succ, List.find?_cons,
      List.getElem?_eq_getElem hlt, anyEq_eq]
    cases hc : v.contains h[idx] with
    | true => simp
    | false =>
      simp only [Bool.false_eq_true, if_false]
      exact ih (idx + 1) (by omega)

/-- `find_first_of(v, pos)`: no out-of-view read, result = lowest `xpos ≥ pos` with `h[xpos] ∈ v`. -/
theorem find_first_of_eq (h v : Str) (pos : Nat) :
    findFirstOf h v pos = .ok (Spec.findFirstOf h v pos) := by
  unfold findFirstOf Spec.findFirstOf
  exact findFirstOfLoop_eq h v _ pos (by omega)


theorem findFirstNotOfLoop_eq (h v : Str) (n idx : Nat) (hn : n = 0 ∨ idx + n ≤ h.length) :
    findFirstNotOfLoop h v n idx = .ok ((List.range' idx n).find?
      (fun i => match h[i]? with | some c => !v.contains c | none => false)) := by
  induction n generalizing idx with
  | zero => simp [findFirstNotOfLoop]
  | succ n ih =>
    have hlt : idx < h.length := by omega
    simp only [findFirstNotOfLoop, rd_ok hlt, ok_bind, List.range'_succ, List.find?_cons,
      List.getElem?_eq_getElem hlt, traitsFind_eq]
    cases hc : v.contains h[idx] with
    | false => simp
    | true =>
      simp only [Bool.not_true, Bool.false_eq_true, if_false]
      exact ih (idx + 1) (by omega)

/-- `find_first_not_of(sv, pos)` -/
theorem find_first_not_of_eq (h v : Str) (pos : Nat) :
    findFirstNotOf h v pos = .ok (Spec.findFirstNotOf h v pos) := by
  unfold findFirstNotOf Spec.findFirstNotOf
  split
  · exact findFirstNotOfLoop_eq h v _ pos (by omega)
  · have : h.length - pos = 0 := by omega
    simp [this]

theorem findFirstNotOfCharLoop_eq (h : Str) (c n idx : Nat) (hn : n = 0 ∨ idx + n ≤ h.length) :
    findFirstNotOfCharLoop h c n idx = .ok ((List.range' idx n).find?
      (fun i => match h[i]? with | some x => !([c] : Str).contains x | none => false)) := by
  induction n generalizing idx with
  | zero => simp [findFirstNotOfCharLoop]
  | succ n ih =>
    have hlt : idx < h.length := by omega
    simp only [findFirstNotOfCharLoop, rd_ok hlt, ok_bind, List.range'_succ, List.find?_cons,
      List.getElem?_eq_getElem hlt]
    by_cases hc : h[idx] = c
    · simp only [hc, bne_self_eq_false, Bool.false_eq_true, if_false]
      rw [ih (idx + 1) (by omega)]
      simp
    · have : (h[idx] != c) = true := by simpa using hc
      simp [this, hc]

/-- `find_first_not_of(Char c, pos)` agrees with the view overload on the one-character view -/
theorem find_first_not_of_char_eq (h : Str) (c pos : Nat) :
    findFirstNotOfChar h c pos = .ok (Spec.findFirstNotOf h [c] pos) := by
  unfold findFirstNotOfChar Spec.findFirstNotOf
  split
  · exact findFirstNotOfCharLoop_eq h c _ pos (by omega)
  · have : h.length - pos = 0 := by omega
    simp [this]

/-! ## find_last_of / find_last_not_of -/

theorem findLastOfLoop_eq (h v : Str) (off : Nat) (hoff : off < h.length) :
    findLastOfLoop h v off = .ok ((List.range (off + 1)).reverse.find?
      (fun i => match h[i]? with | some c => v.contains c | none => false)) := by
  induction off with
  | zero =>
    have h0 : 0 < h.length := hoff
    simp only [findLastOfLoop, rd_ok h0, ok_bind, anyEq_eq, List.range_succ, List.range_zero, List.nil_append,
      List.reverse_singleton, List.find?_cons, List.find?_nil, List.getElem?_eq_getElem h0]
    cases v.contains h[0] <;> simp
  | succ off ih =>
    simp only [findLastOfLoop, rd_ok hoff, ok_bind, anyEq_eq]
    rw [List.range_succ, List.reverse_append, List.reverse_singleton, List.singleton_append,
      List.find?_cons]
    simp only [List.getElem?_eq_getElem hoff]
    cases hc : v.contains h[off + 1] with
    | true => simp
    | false => simpa using ih (by omega)

/-- `find_last_of(v, pos)`: highest `xpos ≤ pos`, `xpos < size()`, with `h[xpos] ∈ v`; `npos` on an empty view. -/
theorem find_last_of_eq (h v : Str) (pos : Nat) :
    findLastOf h v pos = .ok (Spec.findLastOf h v pos) := by
  unfold findLastOf Spec.findLastOf
  cases h with
  | nil => simp
  | cons x xs =>
    simp only [List.isEmpty_cons, Bool.false_eq_true, if_false]
    rw [findLastOfLoop_eq _ _ _ (by simp; omega)]
    have e : min pos ((x :: xs).length - 1) + 1 = min (pos + 1) (x :: xs).length := by
      simp only [List.length_cons]; omega
    rw [e]
    rfl

theorem findLastNotOfLoop_eq (h v : Str) (off : Nat) (hoff : off < h.length) :
    findLastNotOfLoop h v off = .ok ((List.range (off + 1)).reverse.find?
      (fun i => match h[i]? with | some c => !v.contains c | none => false)) := by
  induction off with
  | zero =>
    have h0 : 0 < h.length := hoff
    simp only [findLastNotOfLoop, rd_ok h0, ok_bind, anyEq_eq, List.range_succ, List.range_zero, List.nil_append,
      List.reverse_singleton, List.find?_cons, List.find?_nil, List.getElem?_eq_getElem h0]
    cases v.contains h[0] <;> simp
  | succ off ih =>
    simp only [findLastNotOfLoop, rd_ok hoff, ok_bind, anyEq_eq]
    rw [List.range_succ, List.reverse_append, List.reverse_singleton, List.singleton_append,
      List.find?_cons]
    simp only [List.getElem?_eq_getElem hoff]
    cases hc : v.contains h[off + 1] with
    | false => simp
    | true => simpa using ih (by omega)

theorem find_last_not_of_eq (h v : Str) (pos : Nat) :
    findLastNotOf h v pos = .ok (Spec.findLastNotOf h v pos) := by
  unfold findLastNotOf Spec.findLastNotOf
  cases h with
  | nil => simp
  | cons x xs =>
    simp only [List.isEmpty_cons, Bool.false_eq_true, if_false]
    rw [findLastNotOfLoop_eq _ _ _ (by simp; omega)]
    have e : min pos ((x :: xs).length - 1) + 1 = min (pos + 1) (x :: xs).length := by
      simp only [List.length_cons]; omega
    rw [e]
    rfl


/-! ## find / contains -/

theorem isPrefixOf_drop_short (h v : Str) (i : Nat) (hi : i ≤ h.length) (hv : h.length < i + v.length) :
    v.isPrefixOf (h.drop i) = false := by
  cases hp : v.isPrefixOf (h.drop i) with
  | false => rfl
  | true =>
    have := (List.isPrefixOf_iff_prefix.mp hp).length_le
    simp at this
    omega

theorem findOuter_eq (h : Str) (front : Nat) (rest : Str) (n outer : Nat)
    (hn : n = 0 ∨ outer + n + rest.length ≤ h.length) :
    findOuter h (front :: rest) front n outer = .ok ((List.range' outer n).find?
      (fun i => (front :: rest).isPrefixOf (h.drop i))) := by
  induction n generalizing outer with
  | zero => simp [findOuter]
  | succ n ih =>
    have hlt : outer < h.length := by omega
    have hin := findInner_eq h outer (front :: rest) 0 (by simp; omega)
    simp only [Nat.add_zero] at hin
    simp only [findOuter, rd_ok hlt, ok_bind, List.range'_succ, List.find?_cons, hin]
    by_cases hf : h[outer] = front
    · simp only [hf, beq_self_eq_true, if_true, ok_bind]
      cases hp : (front :: rest).isPrefixOf (h.drop outer) with
      | true => simp
      | false =>
        simp only [Bool.false_eq_true, if_false]
        exact ih (outer + 1) (by omega)
    · have h1 : (h[outer] == front) = false := by simpa using hf
      have h2 : (front :: rest).isPrefixOf (h.drop outer) = false := by
        rw [List.drop_eq_getElem_cons hlt, List.isPrefixOf_cons_cons]
        have : (front == h[outer]) = false := by simpa using fun e => hf e.symm
        simp [this]
      simp only [h1, h2, Bool.false_eq_true, if_false]
      exact ih (outer + 1) (by omega)

/-- `find(v, pos)` never reads outside the view and returns the lowest `xpos ≥ pos` at which `v`
    occurs (`pos` itself for an empty needle with `pos ≤ size()`), `npos` otherwise — for every
    haystack, needle and position, including `pos > size()` and `npos`. -/
theorem find_eq (h v : Str) (pos : Nat) : find h v pos = .ok (Spec.find h v pos) := by
  unfold find Spec.find Spec.upFrom
  split
  · -- early exit: no candidate can match
    rename_i hc
    simp only [Bool.or_eq_true, decide_eq_true_eq] at hc
    congr 1
    symm
    rw [List.find?_eq_none]
    intro i hi
    simp only [List.mem_range'_1] at hi
    have h1 : i ≤ h.length := by omega
    have : h.length < i + v.length := by omega
    simp [isPrefixOf_drop_short h v i h1 this]
  · rename_i hc
    simp only [Bool.or_eq_true, decide_eq_true_eq, not_or, Nat.not_lt] at hc
    cases v with
    | nil =>
      have : h.length + 1 - pos = (h.length - pos) + 1 := by omega
      simp [this, List.range'_succ]
    | cons front rest =>
      simp only [List.length_cons] at hc ⊢
      rw [findOuter_eq h front rest _ pos (by omega)]
      congr 1
      -- the candidates beyond size() - |v| cannot match
      have hsplit : h.length + 1 - pos = (h.length - (rest.length + 1) + 1 - pos) + (rest.length + 1) := by omega
      rw [hsplit, ← List.range'_append_1, List.find?_append]
      have hnone : (List.range' (pos + (h.length - (rest.length + 1) + 1 - pos)) (rest.length + 1)).find?
          (fun i => (front :: rest).isPrefixOf (h.drop i)) = none := by
        rw [List.find?_eq_none]
        intro i hi
        simp only [List.mem_range'_1] at hi
        have h1 : i ≤ h.length := by omega
        have : h.length < i + (front :: rest).length := by simp; omega
        simp [isPrefixOf_drop_short h _ i h1 this]
      rw [hnone, Option.or_none]

theorem contains_eq (h v : Str) : contains h v = .ok (Spec.contains h v) := by
  simp [contains, Spec.contains, find_eq]

/-! ## substr / copy / remove_prefix / remove_suffix / starts_with / ends_with -/

theorem take_min_drop (h : Str) (pos count : Nat) :
    (h.drop pos).take (min count (h.length - pos)) = (h.drop pos).take count := by
  rw [List.take_eq_take_iff]
  simp

/-- `substr(pos, count)` under its precondition `pos ≤ size()` -/
theorem substr_eq (h : Str) (pos count : Nat) (hp : pos ≤ h.length) :
    substr h pos count = .ok (Spec.substr h pos count) := by
  have : ¬ pos > h.length := by omega
  simp [substr, Spec.substr, this, take_min_drop]

example : substr [1, 2, 3] 1 NPOS = .ok [2, 3] := by rfl

theorem copyLoop_eq (h : Str) (pos n i : Nat) (hb : pos + i + n ≤ h.length) :
    copyLoop h pos n i = .ok ((h.drop (pos + i)).take n) := by
  induction n generalizing i with
  | zero => simp [copyLoop]
  | succ n ih =>
    have hlt : pos + i < h.length := by omega
    rw [List.drop_eq_getElem_cons hlt]
    simp only [copyLoop, rd_ok hlt, ok_bind, ih (i + 1) (by omega), List.take_succ_cons]
    rfl

/-- `copy(dest, count, pos)` writes exactly `substr(pos, count)` and returns its length -/
theorem copy_eq (h : Str) (count pos : Nat) (hp : pos ≤ h.length) :
    copy h count pos = .ok ((Spec.substr h pos count).length, Spec.substr h pos count) := by
  have hnp : ¬ pos > h.length := by omega
  simp only [copy, hnp, if_false, Spec.substr]
  rw [copyLoop_eq h pos _ 0 (by omega)]
  simp only [Nat.add_zero, ok_bind, take_min_drop, pure_eq_ok]
  congr 2
  simp [List.length_take]

theorem remove_prefix_eq (h : Str) (n : Nat) (hn : n ≤ h.length) : removePrefix h n = .ok (h.drop n) := by
  have : ¬ n > h.length := by omega
  simp [removePrefix, this]

theorem remove_suffix_eq (h : Str) (n : Nat) (hn : n ≤ h.length) :
    removeSuffix h n = .ok (h.take (h.length - n)) := by
  have : ¬ n > h.length := by omega
  simp [removeSuffix, this]

theorem viewEq_eq (a b : Str) : viewEq a b = .ok (a == b) := by
  unfold viewEq
  split
  · rename_i hl
    have : a ≠ b := fun e => by simp [e] at hl
    simp [this]
  · simp only [compare_eq, ok_bind]
    by_cases hab : a = b
    · simp [hab, (cmp_eq_zero_iff b b).mpr rfl]
    · have t : Spec.cmp a b ≠ 0 := fun e => hab ((cmp_eq_zero_iff a b).mp e)
      have h1 : (a == b) = false := by simpa using hab
      have h2 : (Spec.cmp a b == 0) = false := by simpa using t
      rw [h1, h2]

/-- `starts_with(sv)` -/
theorem starts_with_eq (h sv : Str) : startsWith h sv = .ok (Spec.startsWith h sv) := by
  unfold startsWith Spec.startsWith
  rw [substr_eq h 0 sv.length (by omega)]
  simp only [ok_bind, viewEq_eq, Spec.substr, List.drop_zero]
  congr 1
  rw [Bool.eq_iff_iff]
  simp only [beq_iff_eq, List.isPrefixOf_iff_prefix]
  constructor
  · intro e; rw [← e]; exact List.take_prefix _ _
  · intro p; exact (List.prefix_iff_eq_take.mp p).symm

/-- `ends_with(sv)`; `size() ≤ max_size() = npos` is the only assumption -/
theorem ends_with_eq (h sv : Str) (hs : h.length ≤ NPOS) : endsWith h sv = .ok (Spec.endsWith h sv) := by
  unfold endsWith Spec.endsWith
  split
  · rename_i hge
    simp only [compare3]
    rw [substr_eq h _ NPOS (by omega)]
    simp only [ok_bind, compare_eq, Spec.substr]
    have ht : (h.drop (h.length - sv.length)).take NPOS = h.drop (h.length - sv.length) := by
      apply List.take_of_length_le; simp; omega
    rw [ht]
    congr 1
    rw [Bool.eq_iff_iff]
    simp only [beq_iff_eq, cmp_eq_zero_iff, List.isSuffixOf_iff_suffix]
    constructor
    · intro e; rw [← e]; exact List.drop_suffix _ _
    · intro p; exact (List.suffix_iff_eq_drop.mp p).symm
  · rename_i hlt
    congr 1
    symm
    cases hp : sv.isSuffixOf h with
    | false => rfl
    | true =>
      have := (List.isSuffixOf_iff_suffix.mp hp).length_le
      omega

example : ([1, 2, 3] : Str).length ≤ NPOS := by decide

theorem starts_with_char_eq (h : Str) (c : Nat) : startsWithChar h c = .ok (Spec.startsWith h [c]) := by
  cases h with
  | nil => simp [startsWithChar, Spec.startsWith]
  | cons x xs =>
    simp only [startsWithChar, Spec.startsWith, List.isEmpty_cons, Bool.false_eq_true, if_false,
      rd_cons_zero, ok_bind, pure_eq_ok, List.isPrefixOf_cons_cons, List.isPrefixOf_nil_left, Bool.and_true]
    rw [Bool.beq_comm]


theorem ends_with_char_eq (h : Str) (c : Nat) : endsWithChar h c = .ok (Spec.endsWith h [c]) := by
  unfold endsWithChar Spec.endsWith
  cases hh : h.isEmpty with
  | true =>
    have : h = [] := by simpa using hh
    subst this
    simp [List.isSuffixOf]
  | false =>
    have hne : h ≠ [] := by simpa using hh
    have hlt : h.length - 1 < h.length := by
      have := List.length_pos_iff.mpr hne; omega
    simp only [Bool.false_eq_true, if_false, rd_ok hlt, ok_bind, pure_eq_ok]
    congr 1
    rw [Bool.eq_iff_iff]
    simp only [beq_iff_eq, List.isSuffixOf_iff_suffix]
    rw [← List.getLast_eq_getElem hne] 
    constructor
    · intro e
      refine ⟨h.dropLast, ?_⟩
      rw [← e]; exact List.dropLast_concat_getLast hne
    · rintro ⟨t, rfl⟩
      simp

/-- `compare(pos1, count1, v)` = compare of the specified substring -/
theorem compare3_eq (a : Str) (pos1 count1 : Nat) (b : Str) (hp : pos1 ≤ a.length) :
    compare3 a pos1 count1 b = .ok (Spec.cmp (Spec.substr a pos1 count1) b) := by
  simp [compare3, substr_eq a pos1 count1 hp, compare_eq]

theorem compare5_eq (a : Str) (pos1 count1 : Nat) (b : Str) (pos2 count2 : Nat)
    (hp1 : pos1 ≤ a.length) (hp2 : pos2 ≤ b.length) :
    compare5 a pos1 count1 b pos2 count2 =
      .ok (Spec.cmp (Spec.substr a pos1 count1) (Spec.substr b pos2 count2)) := by
  simp [compare5, substr_eq a pos1 count1 hp1, substr_eq b pos2 count2 hp2, compare_eq]

example : compare5 [1, 2, 3] 1 2 [2, 200] 0 NPOS = .ok (-1) := by rfl

/-! ## rfind(Char) -/

theorem single_isPrefixOf_drop (h : Str) (c i : Nat) :
    ([c] : Str).isPrefixOf (h.drop i) = (h[i]? == some c) := by
  by_cases hi : i < h.length
  · rw [List.drop_eq_getElem_cons hi, List.getElem?_eq_getElem hi]
    simp only [List.isPrefixOf_cons_cons, List.isPrefixOf_nil_left, Bool.and_true]
    by_cases hc : h[i] = c
    · simp [hc]
    · have h1 : (c == h[i]) = false := by simpa using fun e => hc e.symm
      have h2 : (some h[i] == some c) = false := by simpa using hc
      rw [h1, h2]
  · have : h.drop i = [] := List.drop_eq_nil_of_le (by omega)
    simp [this, List.getElem?_eq_none (Nat.le_of_not_lt hi)]

theorem rfindCharLoop_eq (h : Str) (c s : Nat) (hs : s ≤ h.length) :
    rfindCharLoop h c s = .ok ((List.range s).reverse.find? (fun i => ([c] : Str).isPrefixOf (h.drop i))) := by
  induction s with
  | zero => simp [rfindCharLoop]
  | succ s ih =>
    have hlt : s < h.length := by omega
    simp only [rfindCharLoop, rd_ok hlt, ok_bind]
    rw [List.range_succ, List.reverse_append, List.reverse_singleton, List.singleton_append,
      List.find?_cons, single_isPrefixOf_drop, List.getElem?_eq_getElem hlt]
    by_cases hc : h[s] = c
    · simp [hc]
    · have h1 : (h[s] == c) = false := by simpa using hc
      have h2 : (some h[s] == some c) = false := by simpa using hc
      simp only [h1, h2, Bool.false_eq_true, if_false]
      exact ih (by omega)

/-- `rfind(Char c, pos)` equals `rfind` of the one-character view -/
theorem rfind_char_eq (h : Str) (c pos : Nat) : rfindChar h c pos = .ok (Spec.rfind h [c] pos) := by
  unfold rfindChar Spec.rfind
  split
  · have : h = [] := List.eq_nil_of_length_eq_zero (by omega)
    subst this
    simp [List.range_succ]
  · rw [rfindCharLoop_eq h c _ (by split <;> omega)]
    congr 1
    by_cases hp : pos < h.length
    · have : min pos h.length + 1 = pos + 1 := by omega
      simp [hp, this]
    · have hm : min pos h.length = h.length := by omega
      simp only [hp, if_false, hm]
      rw [List.range_succ, List.reverse_append, List.reverse_singleton, List.singleton_append,
        List.find?_cons, single_isPrefixOf_drop]
      simp


/-! ## rfind(sv, pos) — through `etl::find_end` / `etl::search` on the clamped prefix -/

/-- `rfind(sv, pos)` never reads outside the view and returns the highest `xpos ≤ pos` at which
    `sv` occurs, `npos` if there is none — for every haystack, needle and position. -/
theorem rfind_eq (h sv : Str) (pos : Nat) : rfind h sv pos = .ok (Spec.rfind h sv pos) := by
  unfold rfind Spec.rfind
  simp only [pure_eq_ok]
  by_cases hsv : sv = []
  · subst hsv
    have e : (if ([] : Str).length < h.length - min pos h.length then min pos h.length + ([] : Str).length
        else h.length) = min pos h.length := by
      simp only [List.length_nil, Nat.add_zero]; split <;> omega
    rw [e]
    simp [findEnd, List.range_succ]
  · generalize hp1 : min pos h.length = pos1
    generalize hlast : (if sv.length < h.length - pos1 then pos1 + sv.length else h.length) = last
    have hlen : 0 < sv.length := List.length_pos_iff.mpr hsv
    have hp1' : pos1 ≤ h.length := by omega
    have hl : last ≤ h.length := by rw [← hlast]; split <;> omega
    have hl2 : last ≤ pos1 + sv.length := by rw [← hlast]; split <;> omega
    have hl3 : pos1 ≤ last := by rw [← hlast]; split <;> omega
    have hemp : sv.isEmpty = false := by simpa using hsv
    simp only [findEnd, hemp, Bool.false_eq_true, if_false]
    rw [findEndLoop_eq h last hl sv hsv (last + 1) 0 last (by omega) (by omega)]
    simp only [ok_bind]
    -- occurrences inside the prefix are exactly the occurrences at positions ≤ pos1
    have hL : lastIn (Mh h last sv) 0 (last + 1)
        = lastIn (fun i => sv.isPrefixOf (h.drop i)) 0 (pos1 + 1) := by
      rw [lastIn_drop_tail _ 0 (pos1 + 1) (last + 1) (by omega)
        (fun j h1 h2 => by rw [Mh_eq h last _ hsv]; simp only [Bool.and_eq_false_iff, decide_eq_false_iff_not]; right; omega)]
      apply lastIn_congr
      intro j _ hj
      rw [Mh_eq h last _ hsv]
      cases hpj : sv.isPrefixOf (h.drop j) with
      | false => simp
      | true =>
        have := (List.isPrefixOf_iff_prefix.mp hpj).length_le
        simp only [List.length_drop] at this
        have hb : j + sv.length ≤ last := by
          rw [← hlast]; split <;> omega
        simp [hb]
    rw [reverse_range_find, ← hL]
    have hgt : decide (sv.length > 0) = true := by simpa using hlen
    cases hr : lastIn (Mh h last sv) 0 (last + 1) with
    | none => simp [hgt]
    | some r =>
      obtain ⟨hm, hrl⟩ := lastIn_some _ _ _ _ hr
      have hrlt : r < last := by
        have hshort : ¬ (last - r < sv.length) := by
          intro hsh; rw [Mh_false_of_short h last _ r hsh hl] at hm; cases hm
        omega
      have : (r == last) = false := by simpa using (by omega : r ≠ last)
      simp [this]

example : rfind [97, 98, 97, 98] [97, 98] NPOS = .ok (some 2) := by rfl
example : rfind [97, 98, 97, 98] [97, 98] 1 = .ok (some 0) := by rfl

/-! ### wide strings: `wchar_t` is signed on this target -/

theorem signedKey32_lt_iff {u v : Nat} (hu : u < 4294967296) (hv : v < 4294967296) :
    Spec.signedKey32 u < Spec.signedKey32 v ↔ Spec.signed32 u < Spec.signed32 v := by
  unfold Spec.signedKey32 Spec.signed32
  split <;> split <;> omega

theorem signedKey32_inj {u v : Nat} (hu : u < 4294967296) (hv : v < 4294967296) :
    Spec.signedKey32 u = Spec.signedKey32 v ↔ u = v := by
  unfold Spec.signedKey32
  omega

/-- The comparison of two wide strings by the signed value of their code units - what `basic_string_view<wchar_t>::compare`
    and `basic_inplace_string<wchar_t, N>::compare` have to return here - is the natural-order comparison (`Spec.cmp`, the
    one every `compare_*` theorem is about) of the images under `signedKey32`.  This is what the C04 and C08 drivers
    compute on `ct=wchar` lines, for every pair of strings of 32-bit patterns. -/
theorem cmpSigned_eq_cmp_key (a b : Spec.Str) (ha : ∀ u ∈ a, u < 4294967296) (hb : ∀ u ∈ b, u < 4294967296) :
    Spec.cmpSigned a b = Spec.cmp (a.map Spec.signedKey32) (b.map Spec.signedKey32) := by
  induction a generalizing b with
  | nil => cases b <;> simp [Spec.cmpSigned, Spec.cmp]
  | cons x xs ih =>
    cases b with
    | nil => simp [Spec.cmpSigned, Spec.cmp]
    | cons y ys =>
      have hx : x < 4294967296 := ha x (by simp)
      have hy : y < 4294967296 := hb y (by simp)
      have h1 := signedKey32_lt_iff hx hy
      have h2 := signedKey32_lt_iff hy hx
      simp only [Spec.cmpSigned, Spec.cmp, List.map_cons, gt_iff_lt, h1, h2]
      rw [ih ys (fun u hu => ha u (by simp [hu])) (fun u hu => hb u (by simp [hu]))]

/-- non-vacuity and the point of the device: L"\xFFFFFFFF" (-1) sorts before L"\x1", although 0xFFFFFFFF > 1 -/
example : Spec.cmpSigned [4294967295] [1] = -1 ∧ Spec.cmp [4294967295] [1] = 1 ∧
    Spec.cmp ([4294967295].map Spec.signedKey32) ([1].map Spec.signedKey32) = -1 := by decide

end Tetl.C08.Props
