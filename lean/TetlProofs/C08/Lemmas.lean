import Tetl.C08.Model
import Tetl.C08.Spec
namespace Tetl.C08
open Tetl

@[simp] theorem ok_bind {ε α β} (a : α) (f : α → Except ε β) : (Except.ok a >>= f) = f a := rfl
@[simp] theorem error_bind {ε α β} (e : ε) (f : α → Except ε β) : (Except.error e >>= f) = Except.error e := rfl
@[simp] theorem pure_eq_ok {ε α} (a : α) : (pure a : Except ε α) = Except.ok a := rfl

@[simp] theorem rd_nil {α} (i : Nat) : rd ([] : List α) i = .error .oob := by simp [rd]
@[simp] theorem rd_cons_zero {α} (x : α) (l : List α) : rd (x :: l) 0 = .ok x := by simp [rd]
@[simp] theorem rd_cons_succ {α} (x : α) (l : List α) (i : Nat) : rd (x :: l) (i + 1) = rd l i := by simp [rd]
theorem rd_ok {α} {l : List α} {i : Nat} (h : i < l.length) : rd l i = .ok l[i] := by simp [rd, h]

/-! cons-shift lemmas: a loop started at index `i+1` of `x :: l` is the loop started at `i` of `l` -/

theorem traitsCompare_shift (x y : Nat) (a b : Str) (n i : Nat) :
    traitsCompare (x :: a) (y :: b) n (i + 1) = traitsCompare a b n i := by
  induction n generalizing i with
  | zero => rfl
  | succ n ih => simp [traitsCompare, ih]


theorem traitsFind_shift (y : Nat) (s : Str) (tok n i : Nat) :
    traitsFind (y :: s) tok n (i + 1) = traitsFind s tok n i := by
  induction n generalizing i with
  | zero => rfl
  | succ n ih => simp [traitsFind, ih]

theorem traitsFind_eq (s : Str) (tok : Nat) : traitsFind s tok s.length 0 = .ok (s.contains tok) := by
  induction s with
  | nil => simp [traitsFind]
  | cons y s ih =>
    simp only [List.length_cons, traitsFind, rd_cons_zero, ok_bind, traitsFind_shift, ih, List.contains_cons]
    by_cases h : y = tok
    · subst h; simp
    · have h' : (y == tok) = false := by simpa using h
      have h'' : (tok == y) = false := by simpa using fun e => h e.symm
      simp [h', h'']


theorem cmp_eq_zero_iff (a b : Str) : Spec.cmp a b = 0 ↔ a = b := by
  induction a generalizing b with
  | nil => cases b <;> simp [Spec.cmp]
  | cons x a ih =>
    cases b with
    | nil => simp [Spec.cmp]
    | cons y b =>
      simp only [Spec.cmp, List.cons.injEq]
      by_cases h1 : x < y
      · simp [h1]; omega
      · by_cases h2 : x > y
        · simp [h1, h2]; omega
        · have : x = y := by omega
          simp [ih, this]

/-- the inner comparison lambda of `find` -/
theorem findInner_eq (h : Str) (outer : Nat) (cs : Str) (inner : Nat)
    (hb : outer + inner + cs.length ≤ h.length) :
    findInner h outer cs inner = .ok (cs.isPrefixOf (h.drop (outer + inner))) := by
  induction cs generalizing inner with
  | nil => simp [findInner]
  | cons c cs ih =>
    have hlt : outer + inner < h.length := by simp at hb; omega
    rw [List.drop_eq_getElem_cons hlt]
    simp only [findInner, rd_ok hlt, ok_bind, List.isPrefixOf_cons_cons]
    by_cases hc : h[outer + inner] = c
    · simp only [hc, bne_self_eq_false, Bool.false_eq_true, if_false, beq_self_eq_true, Bool.true_and]
      have := ih (inner + 1) (by simp at hb; omega)
      rw [this, Nat.add_assoc]
    · have h1 : (h[outer + inner] != c) = true := by simpa using hc
      have h2 : (c == h[outer + inner]) = false := by simpa using fun e => hc e.symm
      simp [h1, h2]

end Tetl.C08
