import Tetl.C08.Model
import Tetl.C08.Spec
namespace Tetl.C08
open Tetl

@[simp] theorem ok_bind {ε α β} (a : α) (f : α → Except ε β) : (Except.ok a >>= f) = f a := rfl
@[simp] theorem error_bind {ε α β} (e : ε) (f : α → Except ε β) : (Except.error e >>= f) = Except.error e := rfl
@[simp] theorem pure_eq_ok {ε α} (a : α) : (pure a : Except ε α) = Except.ok a := rfl

@[simp] theorem rd_nil {α} (i : Nat) : rd ([] : List α) i = .error .oob := by simp [rd]
@[simp] theorem rd_cons_zero {α} (x : α) (l : List α) : rd (x :: l) 0 = .ok x := by simp [rd]
@[simp] theorem rd_cons_succ {α} (x : α) (l : List α) (i : Nat) : rd (x :: l) (i + 1) = rd l i := by simp [rd]
theorem rd_ok {α} {l : List α} {i : Nat} (h : i < l.length) : rd l i = .ok l[i] := by simp [rd, h]

/-! cons-shift lemmas: a loop started at index `i+1` of `x :: l` is the loop started at `i` of `l` -/

theorem traitsCompare_shift (x y : Nat) (a b : Str) (n i : Nat) :
    traitsCompare (x :: a) (y :: b) n (i + 1) = traitsCompare a b n i := by
  induction n generalizing i with
  | zero => rfl
  | succ n ih => simp [traitsCompare, ih]

end Tetl.C08
