/- C08 — `rfind(sv, pos)`: proofs about `etl::search` and `etl::find_end` as used on a prefix of the view. -/
import TetlProofs.C08.Lemmas
namespace Tetl.C08
open Tetl

/-- pure classification of one inner run of `search`: needle `s` against the remaining range `R` -/
def cls : Str → Str → Inner
  | [], _ => .matched
  | _ :: _, [] => .hitEnd
  | c :: cs, x :: xs => if x != c then .mismatch else cls cs xs

theorem searchInner_eq (h : Str) (last : Nat) (hl : last ≤ h.length) (s : Str) (it : Nat) (hit : it ≤ last) :
    searchInner h last s it = .ok (cls s ((h.take last).drop it)) := by
  induction s generalizing it with
  | nil => simp [searchInner, cls]
  | cons c cs ih =>
    by_cases he : it = last
    · subst he
      have : (h.take it).drop it = [] := List.drop_eq_nil_of_le (by rw [List.length_take]; exact Nat.min_le_left _ _)
      simp [searchInner, this, cls]
    · have hlt : it < last := by omega
      have hlt' : it < (h.take last).length := by simp; omega
      have hrd : rd h it = .ok h[it] := rd_ok (by omega)
      rw [List.drop_eq_getElem_cons hlt']
      simp only [searchInner, he, if_false, hrd, ok_bind, cls, List.getElem_take]
      have hb : (it == last) = false := by simpa using he
      simp only [hb, Bool.false_eq_true, if_false]
      split
      · rfl
      · exact ih (it + 1) (by omega)

theorem cls_matched_iff (s R : Str) : cls s R = .matched ↔ s.isPrefixOf R = true := by
  induction s generalizing R with
  | nil => simp [cls]
  | cons c cs ih =>
    cases R with
    | nil => simp [cls]
    | cons x xs =>
      simp only [cls, List.isPrefixOf_cons_cons, Bool.and_eq_true, beq_iff_eq]
      by_cases hx : x = c
      · subst hx; simp [ih]
      · have : (x != c) = true := by simpa using hx
        simp [this]; intro e; exact absurd e.symm hx

theorem cls_hitEnd_short (s R : Str) (hh : cls s R = .hitEnd) : R.length < s.length := by
  induction s generalizing R with
  | nil => simp [cls] at hh
  | cons c cs ih =>
    cases R with
    | nil => simp
    | cons x xs =>
      simp only [cls] at hh
      split at hh
      · cases hh
      · have := ih xs hh; simp; omega

theorem cls_mismatch_ne (s R : Str) (hh : cls s R = .mismatch) : R ≠ [] := by
  cases s with
  | nil => simp [cls] at hh
  | cons c cs => cases R with
    | nil => simp [cls] at hh
    | cons x xs => simp

/-- occurrence predicate inside the prefix `[0,last)` -/
def Mh (h : Str) (last : Nat) (s : Str) (i : Nat) : Bool := s.isPrefixOf ((h.take last).drop i)

theorem Mh_false_of_short (h : Str) (last : Nat) (s : Str) (i : Nat) (hs : last - i < s.length) (hl : last ≤ h.length) :
    Mh h last s i = false := by
  cases hp : Mh h last s i with
  | false => rfl
  | true =>
    have := (List.isPrefixOf_iff_prefix.mp hp).length_le
    simp at this
    omega

/-- `etl::search` on `[first,last)`: the first occurrence at or after `first`, else `last` -/
theorem search_eq (h : Str) (last : Nat) (hl : last ≤ h.length) (s : Str) (hs : s ≠ []) (fuel first : Nat)
    (hf : first ≤ last) (hfuel : last + 1 - first ≤ fuel) :
    search h last s fuel first = .ok (((List.range' first (last + 1 - first)).find? (Mh h last s)).getD last) := by
  induction fuel generalizing first with
  | zero => omega
  | succ f ih =>
    have hr : last + 1 - first = (last - first) + 1 := by omega
    simp only [search, searchInner_eq h last hl s first hf, ok_bind, hr, List.range'_succ, List.find?_cons]
    cases hc : cls s ((h.take last).drop first) with
    | matched =>
      have : Mh h last s first = true := (cls_matched_iff _ _).mp hc
      simp [this]
    | hitEnd =>
      have hshort := cls_hitEnd_short _ _ hc
      simp at hshort
      have h0 : Mh h last s first = false := Mh_false_of_short h last s first (by omega) hl
      have hnone : (List.range' (first + 1) (last - first)).find? (Mh h last s) = none := by
        rw [List.find?_eq_none]
        intro i hi
        simp only [List.mem_range'_1] at hi
        simp [Mh_false_of_short h last s i (by omega) hl]
      simp [h0, hnone]
    | mismatch =>
      have hne := cls_mismatch_ne _ _ hc
      have hlt : first < last := by
        apply Classical.byContradiction; intro hge
        apply hne; apply List.drop_eq_nil_of_le; simp; omega
      have h0 : Mh h last s first = false := by
        cases hm : Mh h last s first with
        | false => rfl
        | true => have := (cls_matched_iff _ _).mpr hm; rw [hc] at this; cases this
      simp only [h0, Bool.false_eq_true, if_false]
      have := ih (first + 1) (by omega) (by omega)
      have e : last + 1 - (first + 1) = last - first := by omega
      rw [e] at this
      exact this

/-- last `j` with `first ≤ j < k` and `M j` -/
def lastIn (M : Nat → Bool) (first : Nat) : Nat → Option Nat
  | 0 => none
  | k + 1 => if first ≤ k ∧ M k = true then some k else lastIn M first k

theorem lastIn_none_of_forall (M : Nat → Bool) (first k : Nat) (hn : ∀ j, first ≤ j → j < k → M j = false) :
    lastIn M first k = none := by
  induction k with
  | zero => rfl
  | succ k ih =>
    simp only [lastIn]
    have : ¬ (first ≤ k ∧ M k = true) := by
      intro ⟨h1, h2⟩; have := hn k h1 (by omega); simp [this] at h2
    simp only [this, if_false]
    exact ih (fun j h1 h2 => hn j h1 (by omega))

/-- moving the lower bound past positions without occurrence does not change `lastIn` -/
theorem lastIn_shift (M : Nat → Bool) (first first' k : Nat) (hle : first ≤ first')
    (hn : ∀ j, first ≤ j → j < first' → M j = false) : lastIn M first k = lastIn M first' k := by
  induction k with
  | zero => rfl
  | succ k ih =>
    simp only [lastIn]
    by_cases hk : first' ≤ k
    · have : first ≤ k := by omega
      simp [hk, this, ih]
    · by_cases hk2 : first ≤ k
      · have := hn k hk2 (by omega)
        simp [this, hk, ih]
      · have : ¬ first' ≤ k := hk
        simp [hk, hk2, ih]

theorem lastIn_step (M : Nat → Bool) (i k : Nat) (hi : i < k) (hm : M i = true) :
    lastIn M i k = some ((lastIn M (i + 1) k).getD i) := by
  induction k with
  | zero => omega
  | succ k ih =>
    simp only [lastIn]
    by_cases hk : i + 1 ≤ k
    · have h1 : i ≤ k := by omega
      by_cases hmk : M k = true
      · simp [hk, h1, hmk]
      · simp only [hk, h1, hmk, and_false, if_false, true_and]
        exact ih (by omega)
    · have hik : i = k := by omega
      subst hik
      have : lastIn M (i + 1) i = none := lastIn_none_of_forall M _ _ (fun j h1 h2 => by omega)
      have hk' : ¬ (i + 1 ≤ i) := by omega
      simp [hm, this, hk']

theorem find?_range'_some (M : Nat → Bool) (first n i : Nat) (hf : (List.range' first n).find? M = some i) :
    first ≤ i ∧ i < first + n ∧ M i = true ∧ ∀ j, first ≤ j → j < i → M j = false := by
  induction n generalizing first with
  | zero => simp at hf
  | succ n ih =>
    simp only [List.range'_succ, List.find?_cons] at hf
    cases hm : M first with
    | true => simp [hm] at hf; subst hf; exact ⟨by omega, by omega, hm, fun j h1 h2 => by omega⟩
    | false =>
      simp only [hm, Bool.false_eq_true, if_false] at hf
      obtain ⟨a, b, c, d⟩ := ih (first + 1) hf
      refine ⟨by omega, by omega, c, fun j h1 h2 => ?_⟩
      by_cases hj : j = first
      · subst hj; exact hm
      · exact d j (by omega) h2

theorem find?_range'_none (M : Nat → Bool) (first n : Nat) (hf : (List.range' first n).find? M = none) :
    ∀ j, first ≤ j → j < first + n → M j = false := by
  intro j h1 h2
  rw [List.find?_eq_none] at hf
  have := hf j (by simp [List.mem_range'_1]; omega)
  simpa using this

/-- the `while (true)` loop of `find_end`: the last occurrence in `[first, last]`, else `result` -/
theorem findEndLoop_eq (h : Str) (last : Nat) (hl : last ≤ h.length) (s : Str) (hs : s ≠ [])
    (f first result : Nat) (hf : first ≤ last) (hfuel : last + 1 - first ≤ f) :
    findEndLoop h last s f first result
      = .ok ((lastIn (Mh h last s) first (last + 1)).getD result) := by
  induction f generalizing first result with
  | zero => omega
  | succ f ih =>
    have hfl' : first ≤ last := hf
    · have hsr := search_eq h last hl s hs (last - first + 1) first hfl' (by omega)
      simp only [findEndLoop, hsr, ok_bind]
      cases hfind : (List.range' first (last + 1 - first)).find? (Mh h last s) with
      | none =>
        have hn := find?_range'_none _ _ _ hfind
        have : lastIn (Mh h last s) first (last + 1) = none :=
          lastIn_none_of_forall _ _ _ (fun j h1 h2 => hn j h1 (by omega))
        simp [this]
      | some i =>
        obtain ⟨h1, h2, h3, h4⟩ := find?_range'_some _ _ _ _ hfind
        have hil : i < last := by
          have hshort : ¬ (last - i < s.length) := by
            intro hsh; rw [Mh_false_of_short h last s i hsh hl] at h3; cases h3
          have : 0 < s.length := List.length_pos_iff.mpr hs
          omega
        have hne : (i == last) = false := by simpa using (by omega : i ≠ last)
        simp only [Option.getD_some, hne, Bool.false_eq_true, if_false]
        rw [ih (i + 1) i (by omega) (by omega)]
        rw [lastIn_shift (Mh h last s) first i (last + 1) h1 h4, lastIn_step _ i (last + 1) (by omega) h3]
        simp


theorem lastIn_congr (M M' : Nat → Bool) (first k : Nat) (hc : ∀ j, first ≤ j → j < k → M j = M' j) :
    lastIn M first k = lastIn M' first k := by
  induction k with
  | zero => rfl
  | succ k ih =>
    simp only [lastIn]
    by_cases hk : first ≤ k
    · rw [hc k hk (by omega), ih (fun j h1 h2 => hc j h1 (by omega))]
    · simp [hk, ih (fun j h1 h2 => hc j h1 (by omega))]

theorem lastIn_drop_tail (M : Nat → Bool) (first k k' : Nat) (hk : k ≤ k')
    (hn : ∀ j, k ≤ j → j < k' → M j = false) : lastIn M first k' = lastIn M first k := by
  induction k' with
  | zero => have : k = 0 := by omega
            subst this; rfl
  | succ k' ih =>
    by_cases he : k = k' + 1
    · subst he; rfl
    · simp only [lastIn]
      have := hn k' (by omega) (by omega)
      simp only [this, Bool.false_eq_true, and_false, if_false]
      exact ih (by omega) (fun j h1 h2 => hn j h1 (by omega))

theorem lastIn_some (M : Nat → Bool) (first k r : Nat) (hr : lastIn M first k = some r) :
    M r = true ∧ r < k := by
  induction k with
  | zero => simp [lastIn] at hr
  | succ k ih =>
    simp only [lastIn] at hr
    split at hr
    · rename_i hc; cases hr; exact ⟨hc.2, by omega⟩
    · have := ih hr; exact ⟨this.1, by omega⟩

theorem reverse_range_find (M : Nat → Bool) (k : Nat) : (List.range k).reverse.find? M = lastIn M 0 k := by
  induction k with
  | zero => rfl
  | succ k ih =>
    rw [List.range_succ, List.reverse_append, List.reverse_singleton, List.singleton_append, List.find?_cons]
    simp only [lastIn, Nat.zero_le, true_and]
    cases M k <;> simp [ih]

theorem Mh_eq (h : Str) (last : Nat) (s : Str) (hs : s ≠ []) (i : Nat) :
    Mh h last s i = (s.isPrefixOf (h.drop i) && decide (i + s.length ≤ last)) := by
  have hpos : 0 < s.length := List.length_pos_iff.mpr hs
  unfold Mh
  rw [List.drop_take, Bool.eq_iff_iff]
  simp only [List.isPrefixOf_iff_prefix, List.prefix_take_iff, Bool.and_eq_true, decide_eq_true_eq]
  constructor
  · rintro ⟨a, b⟩; exact ⟨a, by omega⟩
  · rintro ⟨a, b⟩; exact ⟨a, by omega⟩

end Tetl.C08
