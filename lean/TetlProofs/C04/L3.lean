import TetlProofs.C04.L2
import Mathlib.Data.List.Rotate
namespace Tetl.C04
open Tetl Tetl.C08

theorem swapAt_append (P M B S : Units) (m b : Nat) :
    swapAt (P ++ (m :: M) ++ (b :: B) ++ S) P.length (P.length + M.length + 1)
      = .ok (P ++ (b :: M) ++ (m :: B) ++ S) := by
  unfold swapAt
  have h1 : (P ++ (m :: M) ++ (b :: B) ++ S)[P.length]? = some m := by
    simp [List.append_assoc]
  have h2 : (P ++ (m :: M) ++ (b :: B) ++ S)[P.length + M.length + 1]? = some b := by
    have : P ++ (m :: M) ++ (b :: B) ++ S = (P ++ (m :: M)) ++ ((b :: B) ++ S) := by simp
    rw [this, List.getElem?_append_right (by simp; omega)]
    simp only [List.length_append, List.length_cons]
    have e : P.length + M.length + 1 - (P.length + (M.length + 1)) = 0 := by omega
    rw [e]
    rfl
  rw [rd_ok' h1, rd_ok' h2]
  simp only [ok_bind]
  rw [wr_ok _ (by simp)]
  simp only [ok_bind]
  rw [wr_ok _ (by simp; omega)]
  have e1 : (P ++ (m :: M) ++ (b :: B) ++ S).set P.length b = P ++ (b :: M) ++ (b :: B) ++ S := by
    simp [List.append_assoc, List.set_append_right]
  rw [e1]
  have : P ++ (b :: M) ++ (b :: B) ++ S = (P ++ (b :: M)) ++ ((b :: B) ++ S) := by simp
  rw [this, List.set_append_right _ _ (by simp; omega)]
  have : P.length + M.length + 1 - (P ++ b :: M).length = 0 := by simp; omega
  rw [this]
  simp

theorem rotLoop_spec (B : Units) : ∀ (P M S : Units) (k : Nat), M ≠ [] → k < M.length →
    ∃ R k', rotLoop B.length (P ++ M ++ B ++ S) P.length (P.length + M.length) (P.length + k)
            = .ok (P ++ B ++ R ++ S, P.length + B.length, P.length + B.length + k')
          ∧ R.length = M.length ∧ k' < M.length ∧ R.rotate k' = M.rotate k := by
  induction B with
  | nil =>
    intro P M S k _ hk
    refine ⟨M, k, ?_, rfl, hk, rfl⟩
    simp [rotLoop]
  | cons b B ih =>
    intro P M S k hM hk
    obtain ⟨m, M', rfl⟩ := List.exists_cons_of_ne_nil hM
    simp only [List.length_cons, rotLoop]
    have hsw := swapAt_append P M' B S m b
    have hidx : P.length + (M'.length + 1) = P.length + M'.length + 1 := by omega
    rw [hidx, hsw]
    simp only [ok_bind]
    -- new middle segment
    set M1 := M' ++ [m] with hM1
    set P1 := P ++ [b] with hP1
    have hl : P ++ (b :: M') ++ (m :: B) ++ S = P1 ++ M1 ++ B ++ S := by
      simp [hM1, hP1, List.append_assoc]
    have hM1len : M1.length = (m :: M').length := by simp [hM1]
    have hM1ne : M1 ≠ [] := by simp [hM1]
    -- new tracked offset
    set k1 := if k = 0 then M'.length else k - 1 with hk1
    have hk1lt : k1 < M1.length := by
      simp only [hk1, hM1len, List.length_cons] at *
      split <;> omega
    have hnr : (if P.length = P.length + k then P.length + M'.length + 1 else P.length + k)
        = P1.length + k1 := by
      simp only [hk1, hP1, List.length_append, List.length_cons, List.length_nil]
      by_cases h0 : k = 0
      · simp [h0]; omega
      · have : ¬ P.length = P.length + k := by omega
        simp [this, h0]; omega
    rw [hnr, hl]
    have e1 : P.length + 1 = P1.length := by simp [hP1]
    have e2 : P.length + M'.length + 1 + 1 = P1.length + M1.length := by
      simp [hP1, hM1]; omega
    rw [e1, e2]
    obtain ⟨R, k', heq, hRlen, hk', hrot⟩ := ih P1 M1 S k1 hM1ne hk1lt
    refine ⟨R, k', ?_, by simp [hRlen, hM1], by have := hk'; simp [hM1] at this; omega, ?_⟩
    · rw [heq]
      simp [hP1, List.append_assoc]
      omega
    · rw [hrot]
      have hrot1 : M1 = (m :: M').rotate 1 := by simp [hM1]
      rw [hrot1, List.rotate_rotate]
      by_cases h0 : k = 0
      · simp only [hk1, h0, if_true]
        have : 1 + M'.length = (m :: M').length := by simp; omega
        rw [this, List.rotate_length, List.rotate_zero]
      · simp only [hk1, h0, if_false]
        have : 1 + (k - 1) = k := by omega
        rw [this]

theorem rotateF_spec : ∀ (fuel : Nat) (P A B S : Units), A.length + B.length < fuel →
    rotateF fuel (P ++ A ++ B ++ S) P.length (P.length + A.length) (P.length + A.length + B.length)
      = .ok (P ++ B ++ A ++ S, P.length + B.length) := by
  intro fuel
  induction fuel with
  | zero => intro P A B S h; omega
  | succ fuel ih =>
    intro P A B S hf
    unfold rotateF
    by_cases hA : A = []
    · subst hA; simp
    · have hAl : 0 < A.length := List.length_pos_of_ne_nil hA
      have h1 : ¬ P.length = P.length + A.length := by omega
      rw [if_neg h1]
      by_cases hB : B = []
      · subst hB; simp
      · have hBl : 0 < B.length := List.length_pos_of_ne_nil hB
        have h2 : ¬ P.length + A.length = P.length + A.length + B.length := by omega
        rw [if_neg h2]
        obtain ⟨R, k', heq, hRlen, hk', hrot⟩ := rotLoop_spec B P A S 0 hA hAl
        simp only [Nat.add_zero] at heq
        have hn : P.length + A.length + B.length - (P.length + A.length) = B.length := by omega
        rw [hn, heq]
        simp only [ok_bind]
        -- split R at k'
        obtain ⟨X, Y, hR, hX⟩ : ∃ X Y, R = X ++ Y ∧ X.length = k' :=
          ⟨R.take k', R.drop k', (List.take_append_drop k' R).symm, by simp; omega⟩
        subst hR
        have hYX : Y ++ X = A := by
          have := hrot
          rw [List.rotate_zero, ← hX, List.rotate_append_length_eq] at this
          exact this
        have hlen : X.length + Y.length = A.length := by simpa using hRlen
        have hcall := ih (P ++ B) X Y S (by omega)
        have e1 : P ++ B ++ (X ++ Y) ++ S = (P ++ B) ++ X ++ Y ++ S := by simp [List.append_assoc]
        have e2 : P.length + B.length = (P ++ B).length := by simp
        have e3 : P.length + A.length + B.length = (P ++ B).length + X.length + Y.length := by
          simp; omega
        rw [e1, e3, e2, ← hX, hcall]
        simp [List.append_assoc]
        rw [← List.append_assoc Y, hYX]

/-- `etl::rotate(first, nFirst, last)` on the segment `A ++ B` of a buffer `P ++ A ++ B ++ S` yields `P ++ B ++ A ++ S`
    (no access outside `[first, last)`), returning `first + (last - nFirst)`. -/
theorem rotate_spec (P A B S : Units) :
    rotate (P ++ A ++ B ++ S) P.length (P.length + A.length) (P.length + A.length + B.length)
      = .ok (P ++ B ++ A ++ S, P.length + B.length) := by
  unfold rotate
  exact rotateF_spec _ P A B S (by omega)

end Tetl.C04
