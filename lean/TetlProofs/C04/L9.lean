import TetlProofs.C04.L8
import TetlProofs.C08.Props
namespace Tetl.C04
open Tetl Tetl.C08

theorem c08_substr_ok (h : Units) (pos sz : Nat) (hp : pos ≤ h.length) :
    C08.substr h pos sz = .ok ((h.drop pos).take sz) := by
  unfold C08.substr
  rw [if_neg (by omega)]
  simp only []
  congr 1
  rw [← List.take_take]
  congr 1
  rw [List.take_of_length_le (by simp)]

theorem take_clamp (h : Units) (pos count : Nat) :
    (h.drop pos).take (if count > h.length - pos then h.length else count) = (h.drop pos).take count := by
  split
  · rename_i hc
    rw [List.take_of_length_le (by simp <;> omega), List.take_of_length_le (by simp <;> omega)]
  · rfl

/-- `compare(pos, count, str)` / `compare(pos, count, s)` / `compare(pos, count, s, count2)`: the clamp
    `count > size() - pos ? size() : count` followed by `substr` selects exactly `substr(pos, count)`. -/
theorem compare3_eq (h : Units) (pos count : Nat) (v : Units) (hp : pos ≤ h.length) :
    compare3 h pos count v = .ok (C08.Spec.cmp (Spec.substr h pos count) v) := by
  unfold compare3 C08.compare3
  rw [if_neg (by omega)]
  simp only []
  rw [c08_substr_ok _ _ _ hp]
  simp only [ok_bind]
  rw [take_clamp, C08.Props.compare_eq]
  rfl

/-- `compare(pos1, count1, str, pos2, count2)` (after the repair of the second clamp) -/
theorem compare5_eq (h : Units) (pos1 count1 : Nat) (v : Units) (pos2 count2 : Nat) (hp1 : pos1 ≤ h.length) (hp2 : pos2 ≤ v.length) :
    compare5 h pos1 count1 v pos2 count2 = .ok (C08.Spec.cmp (Spec.substr h pos1 count1) (Spec.substr v pos2 count2)) := by
  unfold compare5 C08.compare5
  rw [if_neg (by omega)]
  simp only []
  rw [c08_substr_ok _ _ _ hp1, c08_substr_ok _ _ _ hp2]
  simp only [ok_bind]
  rw [take_clamp, take_clamp, C08.Props.compare_eq]
  rfl

end Tetl.C04
