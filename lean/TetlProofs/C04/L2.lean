import TetlProofs.C04.L1
namespace Tetl.C04
open Tetl Tetl.C08

theorem take_succ_set {α} (b : List α) (i : Nat) (x : α) (h : i < b.length) :
    (b.set i x).take (i + 1) = b.take i ++ [x] := by
  rw [List.take_succ, List.take_set_of_le (Nat.le_refl _)]
  simp [h]

theorem drop_take_succ {α} (l : List α) (i n : Nat) (h : i < l.length) :
    (l.drop i).take (n + 1) = l[i] :: (l.drop (i + 1)).take n := by
  have e : l.drop i = l[i] :: l.drop (i + 1) := by simp
  rw [e, List.take_succ_cons]

theorem fillLoop_spec (ch : Nat) : ∀ (n i : Nat) (b : Units), i + n ≤ b.length →
    fillLoop ch n i b = .ok (b.take i ++ List.replicate n ch ++ b.drop (i + n)) := by
  intro n
  induction n with
  | zero => intro i b _; simp [fillLoop]
  | succ n ih =>
    intro i b h
    have hi : i < b.length := by omega
    simp only [fillLoop, wr_ok _ hi, ok_bind]
    rw [ih (i + 1) (b.set i ch) (by simp; omega), take_succ_set _ _ _ hi, List.drop_set_of_lt (by omega)]
    have : i + 1 + n = i + (n + 1) := by omega
    rw [this]
    simp [List.replicate_succ]

theorem copyLoop_spec (src : Units) : ∀ (n si di : Nat) (b : Units), si + n ≤ src.length → di + n ≤ b.length →
    copyLoop src n si di b = .ok (b.take di ++ (src.drop si).take n ++ b.drop (di + n)) := by
  intro n
  induction n with
  | zero => intro si di b _ _; simp [copyLoop]
  | succ n ih =>
    intro si di b hs hd
    have hsi : si < src.length := by omega
    have hdi : di < b.length := by omega
    simp only [copyLoop, rd_ok hsi, wr_ok _ hdi, ok_bind]
    rw [ih (si + 1) (di + 1) (b.set di src[si]) (by omega) (by simp; omega), take_succ_set _ _ _ hdi,
      List.drop_set_of_lt (by omega), drop_take_succ _ _ _ hsi]
    have : di + 1 + n = di + (n + 1) := by omega
    rw [this]
    simp

theorem copyOut_spec (src : Units) : ∀ (n si : Nat), si + n ≤ src.length →
    copyOut src n si = .ok ((src.drop si).take n) := by
  intro n
  induction n with
  | zero => intro si _; simp [copyOut]
  | succ n ih =>
    intro si hs
    have hsi : si < src.length := by omega
    simp only [copyOut, rd_ok hsi, ok_bind, ih (si + 1) (by omega), drop_take_succ _ _ _ hsi]

theorem swapRanges_spec : ∀ (n i : Nat) (a b : Units), i + n ≤ a.length → i + n ≤ b.length →
    swapRanges n i a b = .ok (a.take i ++ (b.drop i).take n ++ a.drop (i + n), b.take i ++ (a.drop i).take n ++ b.drop (i + n)) := by
  intro n
  induction n with
  | zero => intro i a b _ _; simp [swapRanges]
  | succ n ih =>
    intro i a b ha hb
    have hia : i < a.length := by omega
    have hib : i < b.length := by omega
    simp only [swapRanges, rd_ok hia, rd_ok hib, wr_ok _ hia, wr_ok _ hib, ok_bind]
    rw [ih (i + 1) _ _ (by simp; omega) (by simp; omega), take_succ_set _ _ _ hia, take_succ_set _ _ _ hib,
      List.drop_set_of_lt (by omega), List.drop_set_of_lt (by omega), List.drop_set_of_lt (by omega), List.drop_set_of_lt (by omega),
      drop_take_succ _ _ _ hia, drop_take_succ _ _ _ hib]
    have : i + 1 + n = i + (n + 1) := by omega
    rw [this]
    simp

end Tetl.C04
