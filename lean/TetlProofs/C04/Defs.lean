/- C04 — vocabulary of the property theorems (definitions only, kept out of Props.lean so that their
   equation lemmas are not counted as obligations). -/
import TetlProofs.C04.Lemmas
namespace Tetl.C04.Props
open Tetl Tetl.C04

/-- hypotheses of one step: the call is defined by the standard (`Spec.valid`: no out_of_range, no empty-string
    UB, pointer arguments inside their arrays), and for the assign/constructor family the documented
    `\pre len <= Capacity`.  Appending members need nothing more: they clamp. -/
def Pre (cap : Nat) (cs : List Nat) (op : Op) : Bool :=
  Spec.valid cs op && (!Spec.isAssign op || Spec.fits cap cs op)

/-- run a history on the model -/
def run : Str → List Op → Except Err Str
  | s, [] => .ok s
  | s, op :: ops => do
    let r ← s.step op
    run r.1 ops

/-- every operation of the history is defined and (for this theorem) its std result fits -/
def FitsAll (cap : Nat) : List Nat → List Op → Bool
  | _, [] => true
  | cs, op :: ops => Pre cap cs op && Spec.fits cap cs op && FitsAll cap (Spec.step cs op).1 ops

def Spec.run : List Nat → List Op → List Nat
  | cs, [] => cs
  | cs, op :: ops => Spec.run (Spec.step cs op).1 ops

/-- the state reached by a history of defined operations, with the tetl clamping semantics -/
def Spec.runClamped (cap : Nat) : List Nat → List Op → List Nat
  | cs, [] => cs
  | cs, op :: ops => Spec.runClamped cap (Spec.stepClamped cap cs op) ops

def ValidAll (cap : Nat) : List Nat → List Op → Bool
  | _, [] => true
  | cs, op :: ops => Pre cap cs op && ValidAll cap (Spec.stepClamped cap cs op) ops

/-! unfolding lemmas (stated here so that the equation lemmas of the definitions belong to this module) -/
theorem fitsAll_cons (cap : Nat) (cs : List Nat) (op : Op) (ops : List Op) :
    FitsAll cap cs (op :: ops) = (Pre cap cs op && Spec.fits cap cs op && FitsAll cap (Spec.step cs op).1 ops) := by
  simp only [FitsAll]
theorem validAll_cons (cap : Nat) (cs : List Nat) (op : Op) (ops : List Op) :
    ValidAll cap cs (op :: ops) = (Pre cap cs op && ValidAll cap (Spec.stepClamped cap cs op) ops) := by
  simp only [ValidAll]
theorem run_cons (s : Str) (op : Op) (ops : List Op) :
    run s (op :: ops) = (do let r ← s.step op; run r.1 ops) := by
  simp only [run]

end Tetl.C04.Props
