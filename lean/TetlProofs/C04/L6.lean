import TetlProofs.C04.L5
namespace Tetl.C04
open Tetl Tetl.C08

/-! ### insert = append + rotate -/

theorem insertImpl_rep {s : Str} {cs : List Nat} (h : Rep s cs) (index : Nat) (a : Src) (hi : index ≤ cs.length)
    (ha : a.off + a.len ≤ a.arr.length) :
    ∃ s', s.insertImpl index a = .ok s' ∧ s'.cap = s.cap ∧
      Rep s' (Spec.insert cs index ((Spec.seg a.arr a.off a.len).take (s.cap - cs.length))) := by
  unfold Str.insertImpl
  rw [h.1.size]
  simp only [ok_bind]
  rw [if_neg (by omega)]
  obtain ⟨s1, hs1, hc1, hr1⟩ := appendPtrN_rep h a ha
  rw [hs1]
  simp only [ok_bind]
  rw [hr1.1.size]
  simp only [ok_bind]
  generalize hT : (Spec.seg a.arr a.off a.len).take (s.cap - cs.length) = T at hr1 ⊢
  have hbuf : s1.buf = cs.take index ++ cs.drop index ++ T ++ s1.buf.drop (cs ++ T).length := by
    conv => lhs; rw [hr1.buf_eq]
    simp [List.append_assoc]
  have lP : (cs.take index).length = index := by simp; omega
  have lA : (cs.drop index).length = cs.length - index := by simp
  have hrot := rotate_spec (cs.take index) (cs.drop index) T (s1.buf.drop (cs ++ T).length)
  rw [← hbuf, lP, lA] at hrot
  have e1 : index + (cs.length - index) = cs.length := by omega
  rw [e1] at hrot
  have e2 : cs.length + T.length = (cs ++ T).length := by simp
  rw [e2] at hrot
  rw [hrot]
  simp only [ok_bind]
  have hX : (cs.take index ++ T ++ cs.drop index).length = (cs ++ T).length := by
    simp only [List.length_append, lP, lA]; omega
  have hov := hr1.1.overwrite (cs.take index ++ T ++ cs.drop index) hX
  exact ⟨_, rfl, hc1, hov⟩

theorem pushBack_rep {s : Str} {cs : List Nat} (h : Rep s cs) (ch : Nat) :
    ∃ s', s.pushBack ch = .ok s' ∧ s'.cap = s.cap ∧ Rep s' (cs ++ List.replicate (min 1 (s.cap - cs.length)) ch) :=
  appendFill_rep h 1 ch

/-- `append(first, last)`: the push_back loop appends the characters one by one until the string is full -/
theorem appendRange_rep (arr : Units) : ∀ (len off : Nat) {s : Str} {cs : List Nat}, Rep s cs → off + len ≤ arr.length →
    ∃ s', appendRange arr len off s = .ok s' ∧ s'.cap = s.cap ∧
      Rep s' (cs ++ (Spec.seg arr off len).take (s.cap - cs.length)) := by
  intro len
  induction len with
  | zero =>
    intro off s cs h _
    refine ⟨s, rfl, rfl, ?_⟩
    simp [Spec.seg]; exact h
  | succ n ih =>
    intro off s cs h ha
    have ho : off < arr.length := by omega
    simp only [appendRange, rd_ok ho, ok_bind]
    obtain ⟨s1, hs1, hc1, hr1⟩ := pushBack_rep h arr[off]
    rw [hs1]
    simp only [ok_bind]
    obtain ⟨s2, hs2, hc2, hr2⟩ := ih (off + 1) hr1 (by omega)
    refine ⟨s2, hs2, by rw [hc2, hc1], ?_⟩
    have hseg : Spec.seg arr off (n + 1) = arr[off] :: Spec.seg arr (off + 1) n := by
      unfold Spec.seg; exact drop_take_succ _ _ _ ho
    rw [hseg]
    have hle := h.1.le
    by_cases hfull : cs.length = s.cap
    · have e0 : min 1 (s.cap - cs.length) = 0 := by omega
      have e1 : s.cap - cs.length = 0 := by omega
      rw [e0] at hr2
      simp only [List.replicate_zero, List.append_nil, hc1] at hr2
      rw [e1] at hr2 ⊢
      simpa using hr2
    · have e0 : min 1 (s.cap - cs.length) = 1 := by omega
      rw [e0] at hr2
      obtain ⟨k, hk⟩ : ∃ k, s.cap - cs.length = k + 1 := ⟨s.cap - cs.length - 1, by omega⟩
      have e2 : s1.cap - (cs ++ List.replicate 1 arr[off]).length = k := by
        rw [hc1]; simp; omega
      rw [e2] at hr2
      rw [hk, List.take_succ_cons]
      simpa [List.append_assoc] using hr2

/-! ### resize -/

theorem resize_rep {s : Str} {cs : List Nat} (h : Rep s cs) (count ch : Nat) :
    ∃ s', s.resize count ch = .ok s' ∧ s'.cap = s.cap ∧
      Rep s' (if count ≤ cs.length then cs.take count
              else cs ++ List.replicate (min (count - cs.length) (s.cap - cs.length)) ch) := by
  unfold Str.resize
  rw [h.1.size]
  simp only [ok_bind]
  have hle := h.1.le
  by_cases hgt : cs.length > count
  · rw [if_pos hgt]
    have hl : (cs.take count).length = count := by simp; omega
    have := finish s s.buf (cs.take count) h.1.capLt h.1.len (by rw [hl]; omega)
      (by rw [hl]; conv => lhs; rw [h.buf_eq]
          rw [List.take_append_of_le_length (by omega)])
    rw [hl] at this
    obtain ⟨s1, hs1, hc1, hr1⟩ := this
    rw [hs1]
    simp only [ok_bind]
    rw [hr1.1.size]
    simp only [ok_bind, hl]
    rw [if_neg (by omega), if_pos (by omega)]
    exact ⟨s1, rfl, hc1, hr1⟩
  · rw [if_neg hgt]
    rw [h.1.size]
    simp only [ok_bind]
    by_cases hlt : cs.length < count
    · rw [if_pos hlt, if_neg (by omega)]
      exact appendFill_rep h (count - cs.length) ch
    · rw [if_neg hlt, if_pos (by omega)]
      have : count = cs.length := by omega
      subst this
      refine ⟨s, rfl, rfl, ?_⟩
      simpa using h

/-! ### swap -/

theorem swap_rep {a b : Str} {ca cb : List Nat} (ha : Rep a ca) (hb : Rep b cb) (hcap : a.cap = b.cap) :
    ∃ a' b', a.swap b = .ok (a', b') ∧ a'.cap = a.cap ∧ b'.cap = b.cap ∧ Rep a' cb ∧ Rep b' ca := by
  unfold Str.swap
  rw [ha.1.size, hb.1.size]
  simp only [ok_bind]
  have hla := ha.1.le
  have hlb := hb.1.le
  rw [swapRanges_spec _ _ _ _ (by rw [ha.1.len]; omega) (by rw [hb.1.len]; omega)]
  simp only [ok_bind, List.take_zero, List.nil_append, Nat.zero_add, List.drop_zero]
  have fa := finish a (b.buf.take (max ca.length cb.length + 1) ++ a.buf.drop (max ca.length cb.length + 1)) cb
    ha.1.capLt (by simp [ha.1.len, hb.1.len]; omega) (by omega)
    (by rw [List.take_append_of_le_length (by simp [hb.1.len]; omega), List.take_take,
          Nat.min_eq_left (by omega)]; exact hb.2)
  have fb := finish b (a.buf.take (max ca.length cb.length + 1) ++ b.buf.drop (max ca.length cb.length + 1)) ca
    hb.1.capLt (by simp [ha.1.len, hb.1.len]; omega) (by omega)
    (by rw [List.take_append_of_le_length (by simp [ha.1.len]; omega), List.take_take,
          Nat.min_eq_left (by omega)]; exact ha.2)
  obtain ⟨a', ha', hca', hra'⟩ := fa
  obtain ⟨b', hb', hcb', hrb'⟩ := fb
  rw [ha']
  simp only [ok_bind]
  rw [hb']
  simp only [ok_bind]
  exact ⟨a', b', rfl, hca', hcb', hra', hrb'⟩

end Tetl.C04
