import TetlProofs.C04.L9
namespace Tetl.C04
open Tetl Tetl.C08

/-- `traits_type::length` on a NUL-terminated array finds the first NUL and never reads past it -/
theorem cstrLenLoop_spec (s : Units) : ∀ (pre : Units) (fuel : Nat), fuel > s.length →
    cstrLenLoop (pre ++ (s ++ [0])) fuel pre.length = .ok (pre.length + (s.takeWhile (· ≠ 0)).length) := by
  induction s with
  | nil =>
    intro pre fuel hf
    obtain ⟨f, rfl⟩ : ∃ f, fuel = f + 1 := ⟨fuel - 1, by simp at hf; omega⟩
    have : (pre ++ ([] ++ [0]))[pre.length]? = some 0 := by simp
    simp only [cstrLenLoop, rd_ok' this, ok_bind]
    simp
  | cons x s ih =>
    intro pre fuel hf
    obtain ⟨f, rfl⟩ : ∃ f, fuel = f + 1 := ⟨fuel - 1, by simp at hf; omega⟩
    have : (pre ++ ((x :: s) ++ [0]))[pre.length]? = some x := by simp
    simp only [cstrLenLoop, rd_ok' this, ok_bind]
    by_cases hx : x = 0
    · simp [hx]
    · rw [if_neg hx]
      have h2 := ih (pre ++ [x]) f (by simp at hf ⊢; omega)
      have e : pre ++ [x] ++ (s ++ [0]) = pre ++ ((x :: s) ++ [0]) := by simp
      rw [e] at h2
      simp only [List.length_append, List.length_singleton] at h2
      rw [h2]
      simp [List.takeWhile_cons, hx]
      omega

theorem cstrLen_spec (s : Units) : cstrLen (s ++ [0]) = .ok (s.takeWhile (· ≠ 0)).length := by
  unfold cstrLen
  have := cstrLenLoop_spec s [] ((s ++ [0]).length + 1) (by simp; omega)
  simpa using this

theorem takeWhile_prefix (s : Units) : (s ++ [0]).take (s.takeWhile (· ≠ 0)).length = s.takeWhile (· ≠ 0) := by
  induction s with
  | nil => simp
  | cons x s ih =>
    by_cases hx : x = 0
    · simp [hx]
    · simp only [List.takeWhile_cons, ne_eq, hx, not_false_eq_true, decide_true, if_true, List.length_cons,
        List.cons_append, List.take_succ_cons]
      rw [ih]

theorem substr_rep {s : Str} {cs : List Nat} (h : Rep s cs) (pos count : Nat) (hp : pos ≤ cs.length) :
    ∃ r, s.substr pos count = .ok r ∧ r.cap = s.cap ∧ Rep r (Spec.substr cs pos count) := by
  unfold Str.substr
  rw [h.1.size]
  simp only [ok_bind]
  rw [if_neg (by omega)]
  have hle := h.1.le
  obtain ⟨r, h1, h2, h3⟩ := ctorPtrLen_rep s.cap h.1.capLt s.buf pos (min count (cs.length - pos)) (by omega)
    (by rw [h.1.len]; omega)
  refine ⟨r, h1, h2, ?_⟩
  have : Spec.seg s.buf pos (min count (cs.length - pos)) = Spec.substr cs pos count := by
    unfold Spec.seg Spec.substr
    conv => lhs; rw [h.buf_eq]
    rw [List.drop_append_of_le_length hp, List.take_append_of_le_length (by simp; omega)]
    rw [← List.take_take]
    congr 1
    rw [List.take_of_length_le (by simp)]
  rw [this] at h3
  exact h3

theorem seg_buf {s : Str} {cs : List Nat} (h : Rep s cs) (pos count : Nat) (hp : pos ≤ cs.length) :
    Spec.seg s.buf pos (min count (cs.length - pos)) = Spec.substr cs pos count := by
  unfold Spec.seg Spec.substr
  conv => lhs; rw [h.buf_eq]
  rw [List.drop_append_of_le_length hp, List.take_append_of_le_length (by simp; omega)]
  rw [← List.take_take]
  congr 1
  rw [List.take_of_length_le (by simp)]

/-- **Overload resolution.**  For every way an overload passes its character sequence (pointer+count, C string,
    iterator pair, view, sub-view, string, sub-string via a temporary, sub-string via a view, single char):
    whenever the standard defines the call (`den = some d`), the range the model hands to the member lies inside
    its array and denotes exactly `d`. -/
theorem arg_agree {o : Str} {co : List Nat} (ho : Rep o co) (a : Arg) (d : List Nat) (hd : a.den co = some d) :
    ∃ src, a.src o = .ok src ∧ src.off + src.len ≤ src.arr.length ∧ Spec.seg src.arr src.off src.len = d := by
  have hle := ho.1.le
  cases a with
  | ptrn s n =>
    simp only [Arg.den] at hd
    split at hd
    · cases hd
    · rename_i hn
      cases hd
      exact ⟨⟨s, 0, n⟩, by simp [Arg.src, hn], by simp; omega, by simp [Spec.seg]⟩
  | cstr s =>
    simp only [Arg.den, Option.some.injEq] at hd
    subst hd
    refine ⟨⟨s ++ [0], 0, (s.takeWhile (· ≠ 0)).length⟩, by simp [Arg.src, cstrLen_spec], ?_, ?_⟩
    · have := (List.takeWhile_sublist (· ≠ 0) (l := s)).length_le
      show 0 + (s.takeWhile (· ≠ 0)).length ≤ (s ++ [0]).length
      rw [List.length_append, List.length_singleton]
      omega
    · simp only [Spec.seg, List.drop_zero]; exact takeWhile_prefix s
  | range s =>
    simp only [Arg.den, Option.some.injEq] at hd
    subst hd
    exact ⟨⟨s, 0, s.length⟩, rfl, by simp, by simp [Spec.seg]⟩
  | view s =>
    simp only [Arg.den, Option.some.injEq] at hd
    subst hd
    exact ⟨⟨s, 0, s.length⟩, rfl, by simp, by simp [Spec.seg]⟩
  | viewsub s pos count =>
    simp only [Arg.den] at hd
    split at hd
    · cases hd
    · rename_i hn
      cases hd
      refine ⟨⟨s, pos, min count (s.length - pos)⟩, by simp [Arg.src, hn], by simp; omega, ?_⟩
      unfold Spec.seg Spec.substr
      simp only []
      rw [← List.take_take]
      congr 1
      rw [List.take_of_length_le (by simp)]
  | str =>
    simp only [Arg.den, Option.some.injEq] at hd
    subst hd
    refine ⟨⟨o.buf, 0, co.length⟩, by simp [Arg.src, ho.1.size], by simp [ho.1.len]; omega, ?_⟩
    simp only [Spec.seg, List.drop_zero]; exact ho.2
  | strsub pos count =>
    simp only [Arg.den] at hd
    split at hd
    · cases hd
    · rename_i hn
      cases hd
      obtain ⟨t, h1, h2, h3⟩ := substr_rep ho pos count (by omega)
      refine ⟨⟨t.buf, 0, (Spec.substr co pos count).length⟩, by simp [Arg.src, h1, h3.1.size], ?_, ?_⟩
      · have := h3.1.le; simp [h3.1.len]; omega
      · simp only [Spec.seg, List.drop_zero]; exact h3.2
  | strsubv pos count =>
    simp only [Arg.den] at hd
    split at hd
    · cases hd
    · rename_i hn
      cases hd
      refine ⟨⟨o.buf, pos, min count (co.length - pos)⟩, by simp [Arg.src, ho.1.size, hn], ?_, ?_⟩
      · simp [ho.1.len]; omega
      · exact seg_buf ho pos count (by omega)
  | ch c =>
    simp only [Arg.den, Option.some.injEq] at hd
    subst hd
    exact ⟨⟨[c], 0, 1⟩, rfl, by simp, by simp [Spec.seg]⟩
  | ptr off n =>
    simp only [Arg.den] at hd
    split at hd
    · cases hd
    · rename_i hn
      cases hd
      refine ⟨⟨o.buf, off, n⟩, by simp [Arg.src, ho.1.size, hn], ?_, ?_⟩
      · simp [ho.1.len]; omega
      · have := seg_buf ho off n (by omega)
        rw [Nat.min_eq_left (by omega)] at this
        exact this

end Tetl.C04
