import TetlProofs.C04.L6
namespace Tetl.C04
open Tetl Tetl.C08

theorem insertFill_rep (index ch : Nat) : ∀ (count : Nat) {s : Str} {cs : List Nat}, Rep s cs → index ≤ cs.length →
    ∃ s', insertFill index ch count s = .ok s' ∧ s'.cap = s.cap ∧
      Rep s' (Spec.insert cs index (List.replicate (min count (s.cap - cs.length)) ch)) := by
  intro count
  induction count with
  | zero =>
    intro s cs h hi
    simp only [insertFill, h.1.size, ok_bind]
    rw [if_neg (by omega)]
    refine ⟨s, rfl, rfl, ?_⟩
    simpa [Spec.insert] using h
  | succ n ih =>
    intro s cs h hi
    simp only [insertFill]
    obtain ⟨s1, hs1, hc1, hr1⟩ := insertImpl_rep h index ⟨[ch], 0, 1⟩ hi (by simp)
    rw [hs1]
    simp only [ok_bind]
    have hle := h.1.le
    have hseg : Spec.seg [ch] 0 1 = [ch] := by simp [Spec.seg]
    simp only [hseg] at hr1
    by_cases hfull : cs.length = s.cap
    · have e1 : s.cap - cs.length = 0 := by omega
      rw [e1] at hr1 ⊢
      have hcs : Spec.insert cs index (List.take 0 [ch]) = cs := by simp [Spec.insert]
      rw [hcs] at hr1
      obtain ⟨s2, hs2, hc2, hr2⟩ := ih hr1 hi
      refine ⟨s2, hs2, by rw [hc2, hc1], ?_⟩
      rw [hc1, e1] at hr2
      simpa using hr2
    · obtain ⟨k, hk⟩ : ∃ k, s.cap - cs.length = k + 1 := ⟨s.cap - cs.length - 1, by omega⟩
      rw [hk] at hr1 ⊢
      have hcs : Spec.insert cs index (List.take (k + 1) [ch]) = cs.take index ++ [ch] ++ cs.drop index := by
        simp [Spec.insert]
      rw [hcs] at hr1
      have hl1 : (cs.take index ++ [ch] ++ cs.drop index).length = cs.length + 1 := by
        simp; omega
      obtain ⟨s2, hs2, hc2, hr2⟩ := ih hr1 (by rw [hl1]; omega)
      refine ⟨s2, hs2, by rw [hc2, hc1], ?_⟩
      rw [hc1, hl1] at hr2
      have e2 : s.cap - (cs.length + 1) = k := by omega
      rw [e2] at hr2
      have e3 : min (n + 1) (k + 1) = min n k + 1 := by omega
      rw [e3]
      have : Spec.insert (cs.take index ++ [ch] ++ cs.drop index) index (List.replicate (min n k) ch)
          = Spec.insert cs index (List.replicate (min n k + 1) ch) := by
        unfold Spec.insert
        have lP : (cs.take index).length = index := by simp; omega
        rw [List.append_assoc (cs.take index), List.take_left' lP, List.drop_left' lP, List.replicate_succ']
        simp [List.append_assoc]
      rw [this] at hr2
      exact hr2

end Tetl.C04
