/- C04 — self-aliasing arguments (`s.append(s)`, `s.insert(i, s)`, `s.append(s.data()+off, n)`, …): the loops that read the
   buffer they write return what the same call with an independent copy of the argument's characters returns. -/
import TetlProofs.C04.Defs
namespace Tetl.C04
open Tetl Tetl.C08

/-- generalisation of `copyLoopSelf_eq`: the live buffer agrees with the snapshot on every unit still to be read -/
theorem al_copyLoopSelf_gen (src : Units) : ∀ (n si di : Nat) (b : Units), si + n ≤ di →
    (∀ j, j < si + n → b[j]? = src[j]?) → copyLoopSelf n si di b = copyLoop src n si di b := by
  intro n
  induction n with
  | zero => intro si di b _ _; simp only [copyLoopSelf, copyLoop]
  | succ n ih =>
    intro si di b h hinv
    have hr : rd b si = rd src si := by unfold rd; rw [hinv si (by omega)]
    simp only [copyLoopSelf, copyLoop, hr]
    cases hx : rd src si with
    | error e => rfl
    | ok x =>
      simp only [ok_bind]
      unfold wr
      split
      · simp only [ok_bind]
        apply ih _ _ _ (by omega)
        intro j hj
        rw [List.getElem?_set_ne (by omega)]
        exact hinv j (by omega)
      · rfl

/-- the forward copy inside one buffer reads only units it has not written when the source lies before the destination -/
theorem copyLoopSelf_eq : ∀ (n si di : Nat) (b : Units), si + n ≤ di → di + n ≤ b.length →
    copyLoopSelf n si di b = copyLoop b n si di b := by
  intro n si di b h _
  exact al_copyLoopSelf_gen b n si di b h (fun _ _ => rfl)

theorem appendPtrNSelf_eq {s : Str} {cs : List Nat} (h : Rep s cs) (off len : Nat) (ho : off + len ≤ cs.length) :
    s.appendPtrNSelf off len = s.appendPtrN ⟨s.buf, off, len⟩ := by
  unfold Str.appendPtrNSelf Str.appendPtrN
  rw [h.1.size]
  simp only [ok_bind]
  have hle := h.1.le
  rw [copyLoopSelf_eq _ _ _ _ (by omega) (by rw [h.1.len]; omega)]

theorem insertImplSelf_eq {s : Str} {cs : List Nat} (h : Rep s cs) (index off len : Nat) (ho : off + len ≤ cs.length) :
    s.insertImplSelf index off len = s.insertImpl index ⟨s.buf, off, len⟩ := by
  unfold Str.insertImplSelf Str.insertImpl
  rw [appendPtrNSelf_eq h off len ho]

/-- `s.append(s.begin()+i, s.begin()+i+n)`: the push_back loop reads the live buffer; with `i + n <= size()` at entry it
    appends the ORIGINAL characters (each push_back writes only at or after the old end). `cs0` = contents at entry of the loop's
    first iteration; `t` = what has been appended so far. -/
theorem appendRangeSelf_rep (cs0 : List Nat) : ∀ (n i : Nat) {s : Str} (t : List Nat), Rep s (cs0 ++ t) → i + n ≤ cs0.length →
    ∃ s', appendRangeSelf n i s = .ok s' ∧ s'.cap = s.cap ∧
      Rep s' (cs0 ++ t ++ ((cs0.drop i).take n).take (s.cap - (cs0 ++ t).length)) := by
  intro n
  induction n with
  | zero =>
    intro i s t h _
    refine ⟨s, rfl, rfl, ?_⟩
    simpa using h
  | succ n ih =>
    intro i s t h ha
    have hi : i < cs0.length := by omega
    have hrd : s.buf[i]? = some cs0[i] := by
      rw [h.buf_eq, List.getElem?_append_left (by simp; omega), List.getElem?_append_left hi,
        List.getElem?_eq_getElem hi]
    simp only [appendRangeSelf, rd_ok' hrd, ok_bind]
    obtain ⟨s1, hs1, hc1, hr1⟩ := pushBack_rep h cs0[i]
    rw [hs1]
    simp only [ok_bind]
    rw [List.append_assoc] at hr1
    obtain ⟨s2, hs2, hc2, hr2⟩ := ih (i + 1) _ hr1 (by omega)
    refine ⟨s2, hs2, by rw [hc2, hc1], ?_⟩
    have hseg : (cs0.drop i).take (n + 1) = cs0[i] :: (cs0.drop (i + 1)).take n := drop_take_succ _ _ _ hi
    rw [hseg]
    have hle := h.1.le
    by_cases hfull : (cs0 ++ t).length = s.cap
    · have e0 : min 1 (s.cap - (cs0 ++ t).length) = 0 := by omega
      have e1 : s.cap - (cs0 ++ t).length = 0 := by omega
      rw [e0] at hr2
      simp only [List.replicate_zero, List.append_nil, hc1] at hr2
      rw [e1] at hr2 ⊢
      simpa using hr2
    · have e0 : min 1 (s.cap - (cs0 ++ t).length) = 1 := by omega
      rw [e0] at hr2
      obtain ⟨k, hk⟩ : ∃ k, s.cap - (cs0 ++ t).length = k + 1 := ⟨s.cap - (cs0 ++ t).length - 1, by omega⟩
      have e2 : s1.cap - (cs0 ++ (t ++ List.replicate 1 cs0[i])).length = k := by
        rw [hc1]; simp only [List.length_append, List.length_replicate] at hk ⊢; omega
      rw [e2] at hr2
      rw [hk, List.take_succ_cons]
      simpa [List.append_assoc] using hr2

/-- the argument forms that read the live buffer (`.str`, `.strsubv`, `.ptr`): the range lies inside the characters -/
theorem al_src_live {s : Str} {cs : List Nat} (h : Rep s cs) (a : Arg) (d : List Nat) (hd : a.den cs = some d)
    (hform : a.isSelfForm = true) (hns : ∀ p c, a ≠ .strsub p c) :
    ∃ off len, a.src s = .ok ⟨s.buf, off, len⟩ ∧ off + len ≤ cs.length ∧ Spec.seg s.buf off len = d := by
  cases a with
  | str =>
    simp only [Arg.den, Option.some.injEq] at hd
    subst hd
    refine ⟨0, cs.length, by simp [Arg.src, h.1.size], by omega, ?_⟩
    simp only [Spec.seg, List.drop_zero]; exact h.2
  | strsub pos count => exact absurd rfl (hns pos count)
  | strsubv pos count =>
    simp only [Arg.den] at hd
    split at hd
    · cases hd
    · rename_i hn
      cases hd
      exact ⟨pos, min count (cs.length - pos), by simp [Arg.src, h.1.size, hn], by omega, seg_buf h pos count (by omega)⟩
  | ptr off n =>
    simp only [Arg.den] at hd
    split at hd
    · cases hd
    · rename_i hn
      cases hd
      refine ⟨off, n, by simp [Arg.src, h.1.size, hn], by omega, ?_⟩
      have := seg_buf h off n (by omega)
      rw [Nat.min_eq_left (by omega)] at this
      exact this
  | ptrn _ _ => simp [Arg.isSelfForm] at hform
  | cstr _ => simp [Arg.isSelfForm] at hform
  | range _ => simp [Arg.isSelfForm] at hform
  | view _ => simp [Arg.isSelfForm] at hform
  | viewsub _ _ _ => simp [Arg.isSelfForm] at hform
  | ch _ => simp [Arg.isSelfForm] at hform

theorem al_seg_self (d : List Nat) : Spec.seg d 0 d.length = d := by simp [Spec.seg]

/-- `assign` through a temporary string: no aliasing at all -/
theorem al_assign {s : Str} {cs : List Nat} (h : Rep s cs) (a : Arg) (d : List Nat) (hd : a.den cs = some d)
    (hfit : d.length ≤ s.cap) :
    ∃ s', (do let src ← a.src s; ctorPtrLen s.cap src.arr src.off src.len) = .ok s' ∧ s'.cap = s.cap ∧ Rep s' d := by
  obtain ⟨src, hsrc, hsl, hseg⟩ := arg_agree h a d hd
  rw [hsrc]
  simp only [ok_bind]
  have hl : (Spec.seg src.arr src.off src.len).length = src.len := by unfold Spec.seg; simp; omega
  rw [hseg] at hl
  have := ctorPtrLen_rep s.cap h.1.capLt src.arr src.off src.len (by omega) hsl
  rw [hseg] at this
  exact this

theorem al_append_live {s : Str} {cs d : List Nat} (h : Rep s cs) (off len : Nat) (ho : off + len ≤ cs.length)
    (hseg : Spec.seg s.buf off len = d) :
    ∃ s', s.appendPtrNSelf off len = .ok s' ∧ s'.cap = s.cap ∧ Rep s' (cs ++ d.take (s.cap - cs.length)) := by
  rw [appendPtrNSelf_eq h off len ho]
  have hle := h.1.le
  have := appendPtrN_rep h ⟨s.buf, off, len⟩ (by simp only [h.1.len]; omega)
  simp only [hseg] at this
  exact this

theorem al_insert_live {s : Str} {cs d : List Nat} (h : Rep s cs) (index off len : Nat) (hi : index ≤ cs.length)
    (ho : off + len ≤ cs.length) (hseg : Spec.seg s.buf off len = d) :
    ∃ s', s.insertImplSelf index off len = .ok s' ∧ s'.cap = s.cap ∧
      Rep s' (Spec.insert cs index (d.take (s.cap - cs.length))) := by
  rw [insertImplSelf_eq h index off len ho]
  have hle := h.1.le
  have := insertImpl_rep h index ⟨s.buf, off, len⟩ hi (by simp only [h.1.len]; omega)
  simp only [hseg] at this
  exact this

/-- **aliasing is harmless**: a member called with (a part of) the string itself behaves like the same member called with an
    independent copy `d` of the characters the argument denotes. -/
theorem selfStep_rep {s : Str} {cs : List Nat} (h : Rep s cs) (op : SelfOp) (d : List Nat)
    (hform : op.arg.isSelfForm = true) (hd : op.arg.den cs = some d) (hp : Props.Pre s.cap cs (op.plain d) = true) :
    ∃ s', s.selfStep op = .ok s' ∧ s'.cap = s.cap ∧ Rep s' (Spec.stepClamped s.cap cs (op.plain d)) := by
  unfold Props.Pre at hp
  cases op with
  | assign a =>
    simp only [SelfOp.arg] at hform hd
    simp only [Bool.and_eq_true, Bool.or_eq_true, Bool.not_eq_true', Spec.valid, Spec.isAssign, Spec.fits, Spec.step,
      Spec.segOk, decide_eq_true_eq, SelfOp.plain, al_seg_self] at hp
    have hfit : d.length ≤ s.cap := by
      rcases hp.2 with h0 | h0
      · cases h0
      · exact h0
    simp only [SelfOp.plain, Spec.stepClamped, al_seg_self]
    have hgen := al_assign h a d hd hfit
    cases a with
    | str =>
      simp only [Arg.den, Option.some.injEq] at hd
      subst hd
      exact ⟨s, rfl, rfl, h⟩
    | strsub pos count => exact hgen
    | strsubv pos count => exact hgen
    | ptr off n => exact hgen
    | ptrn _ _ => simp [Arg.isSelfForm] at hform
    | cstr _ => simp [Arg.isSelfForm] at hform
    | range _ => simp [Arg.isSelfForm] at hform
    | view _ => simp [Arg.isSelfForm] at hform
    | viewsub _ _ _ => simp [Arg.isSelfForm] at hform
    | ch _ => simp [Arg.isSelfForm] at hform
  | append a =>
    simp only [SelfOp.arg] at hform hd
    simp only [SelfOp.plain, Spec.stepClamped, al_seg_self]
    by_cases hsub : ∃ p c, a = .strsub p c
    · obtain ⟨p, c, rfl⟩ := hsub
      obtain ⟨src, hsrc, hsl, hseg⟩ := arg_agree h _ d hd
      simp only [Str.selfStep, hsrc, ok_bind]
      have := appendRange_rep src.arr src.len src.off h hsl
      rw [hseg] at this
      exact this
    · have hns : ∀ p c, a ≠ .strsub p c := fun p c e => hsub ⟨p, c, e⟩
      obtain ⟨off, len, hsrc, ho, hseg⟩ := al_src_live h a d hd hform hns
      have hlive := al_append_live h off len ho hseg
      cases a with
      | str =>
        simp only [Arg.den, Option.some.injEq] at hd
        subst hd
        simp only [Str.selfStep, h.1.size, ok_bind]
        have := appendRangeSelf_rep cs cs.length 0 (s := s) [] (by simpa using h) (by omega)
        simpa using this
      | strsub pos count => exact absurd rfl (hns pos count)
      | strsubv pos count => simp only [Str.selfStep, hsrc, ok_bind]; exact hlive
      | ptr off n => simp only [Str.selfStep, hsrc, ok_bind]; exact hlive
      | ptrn _ _ => simp [Arg.isSelfForm] at hform
      | cstr _ => simp [Arg.isSelfForm] at hform
      | range _ => simp [Arg.isSelfForm] at hform
      | view _ => simp [Arg.isSelfForm] at hform
      | viewsub _ _ _ => simp [Arg.isSelfForm] at hform
      | ch _ => simp [Arg.isSelfForm] at hform
  | insert index a =>
    simp only [SelfOp.arg] at hform hd
    simp only [Bool.and_eq_true, Bool.or_eq_true, Bool.not_eq_true', Spec.valid, Spec.isAssign, Spec.fits, Spec.step,
      Spec.segOk, decide_eq_true_eq, SelfOp.plain] at hp
    have hi : index ≤ cs.length := hp.1.1
    simp only [SelfOp.plain, Spec.stepClamped, al_seg_self]
    by_cases hsub : ∃ p c, a = .strsub p c
    · obtain ⟨p, c, rfl⟩ := hsub
      obtain ⟨src, hsrc, hsl, hseg⟩ := arg_agree h _ d hd
      simp only [Str.selfStep, hsrc, ok_bind]
      have := insertImpl_rep h index src hi hsl
      rw [hseg] at this
      exact this
    · have hns : ∀ p c, a ≠ .strsub p c := fun p c e => hsub ⟨p, c, e⟩
      obtain ⟨off, len, hsrc, ho, hseg⟩ := al_src_live h a d hd hform hns
      have hlive := al_insert_live h index off len hi ho hseg
      cases a with
      | str => simp only [Str.selfStep, hsrc, ok_bind]; exact hlive
      | strsub pos count => exact absurd rfl (hns pos count)
      | strsubv pos count => simp only [Str.selfStep, hsrc, ok_bind]; exact hlive
      | ptr off n => simp only [Str.selfStep, hsrc, ok_bind]; exact hlive
      | ptrn _ _ => simp [Arg.isSelfForm] at hform
      | cstr _ => simp [Arg.isSelfForm] at hform
      | range _ => simp [Arg.isSelfForm] at hform
      | view _ => simp [Arg.isSelfForm] at hform
      | viewsub _ _ _ => simp [Arg.isSelfForm] at hform
      | ch _ => simp [Arg.isSelfForm] at hform

end Tetl.C04
