import TetlProofs.C04.L10
namespace Tetl.C04
open Tetl Tetl.C08

theorem findIfLoop_spec (b : Units) (v : Nat) : ∀ (n i : Nat), i + n ≤ b.length →
    findIfLoop b v n i = .ok (i + (((b.drop i).take n).takeWhile (· ≠ v)).length) := by
  intro n
  induction n with
  | zero => intro i _; simp [findIfLoop]
  | succ n ih =>
    intro i h
    have hi : i < b.length := by omega
    simp only [findIfLoop, rd_ok hi, ok_bind, drop_take_succ _ _ _ hi]
    by_cases hx : b[i] = v
    · simp [hx]
    · rw [if_neg hx, ih (i + 1) (by omega)]
      simp [List.takeWhile_cons, hx]
      omega

theorem removeLoop_spec (v : Nat) : ∀ (n i first : Nat) (b : Units), first ≤ i → i + n ≤ b.length →
    ∃ b', removeLoop v n i first b = .ok (b', first + (((b.drop i).take n).filter (· ≠ v)).length) ∧
      b'.length = b.length ∧
      b'.take (first + (((b.drop i).take n).filter (· ≠ v)).length) = b.take first ++ ((b.drop i).take n).filter (· ≠ v) ∧
      b'.drop (i + n) = b.drop (i + n) := by
  intro n
  induction n with
  | zero => intro i first b _ _; exact ⟨b, by simp [removeLoop], rfl, by simp, rfl⟩
  | succ n ih =>
    intro i first b hf h
    have hi : i < b.length := by omega
    have hfl : first < b.length := by omega
    simp only [removeLoop, rd_ok hi, ok_bind, drop_take_succ _ _ _ hi]
    by_cases hx : b[i] = v
    · simp only [hx, ne_eq, not_true_eq_false, if_false]
      obtain ⟨b', h1, h2, h3, h4⟩ := ih (i + 1) first b (by omega) (by omega)
      refine ⟨b', ?_, h2, ?_, ?_⟩
      · simpa [List.filter_cons] using h1
      · simpa [List.filter_cons] using h3
      · have : i + (n + 1) = i + 1 + n := by omega
        rw [this]; exact h4
    · simp only [ne_eq, hx, not_false_eq_true, if_true, wr_ok _ hfl, ok_bind]
      obtain ⟨b', h1, h2, h3, h4⟩ := ih (i + 1) (first + 1) (b.set first b[i]) (by omega) (by simp; omega)
      rw [List.drop_set_of_lt (by omega)] at h1 h3
      rw [take_succ_set _ _ _ hfl] at h3
      refine ⟨b', ?_, by simpa using h2, ?_, ?_⟩
      · simp only [List.filter_cons, ne_eq, hx, not_false_eq_true, decide_true, if_true, List.length_cons]
        have e : first + ((List.filter (fun x => decide (x ≠ v)) ((b.drop (i + 1)).take n)).length + 1)
            = first + 1 + (List.filter (fun x => decide (x ≠ v)) ((b.drop (i + 1)).take n)).length := by omega
        rw [e]; exact h1
      · simp only [List.filter_cons, ne_eq, hx, not_false_eq_true, decide_true, if_true, List.length_cons]
        have e : first + ((List.filter (fun x => decide (x ≠ v)) ((b.drop (i + 1)).take n)).length + 1)
            = first + 1 + (List.filter (fun x => decide (x ≠ v)) ((b.drop (i + 1)).take n)).length := by omega
        rw [e, h3]; simp
      · have : i + (n + 1) = i + 1 + n := by omega
        rw [this, h4, List.drop_set_of_lt (by omega)]

theorem filter_takeWhile_split (cs : List Nat) (v : Nat) :
    cs.filter (· ≠ v) = cs.takeWhile (· ≠ v) ++ (cs.drop ((cs.takeWhile (· ≠ v)).length + 1)).filter (· ≠ v) := by
  induction cs with
  | nil => simp
  | cons x cs ih =>
    by_cases hx : x = v
    · simp [hx]
    · simp only [List.filter_cons, ne_eq, hx, not_false_eq_true, decide_true, if_true, List.takeWhile_cons,
        List.length_cons, List.drop_succ_cons, List.cons_append]
      rw [ih]

theorem takeWhile_len_le (cs : List Nat) (v : Nat) : (cs.takeWhile (· ≠ v)).length ≤ cs.length :=
  (List.takeWhile_sublist _).length_le

/-- free `etl::erase(c, value)` = `remove` (find_if + compaction loop) followed by `erase(it, end())`:
    leaves `cs` without the occurrences of `value` and returns how many were removed. -/
theorem eraseValue_rep {s : Str} {cs : List Nat} (h : Rep s cs) (v : Nat) :
    ∃ s', s.eraseValue v = .ok (s', cs.length - (cs.filter (· ≠ v)).length) ∧ s'.cap = s.cap ∧
      Rep s' (cs.filter (· ≠ v)) := by
  unfold Str.eraseValue
  rw [h.1.size]
  simp only [ok_bind]
  have hle := h.1.le
  have hlen := h.1.len
  rw [findIfLoop_spec _ _ _ _ (by omega)]
  simp only [ok_bind, Nat.zero_add, List.drop_zero, h.2]
  have hW := takeWhile_len_le cs v
  generalize hw : (cs.takeWhile (· ≠ v)).length = w at hW
  by_cases hall : w = cs.length
  · -- no occurrence of v
    rw [if_neg (by omega)]
    try simp only [ok_bind]
    have hfil : cs.filter (· ≠ v) = cs := by
      have := filter_takeWhile_split cs v
      rw [hw, hall, List.drop_of_length_le (by omega)] at this
      have h2 : cs.takeWhile (· ≠ v) = cs := by
        have hp := List.takeWhile_prefix (· ≠ v) (l := cs)
        exact hp.eq_of_length (by rw [hw, hall])
      rw [this, h2]; simp
    have hs : ({ s with buf := s.buf } : Str) = s := rfl
    obtain ⟨s', h1, h2, h3⟩ := eraseRange_rep h w cs.length (by omega) (Nat.le_refl _)
    rw [h1]
    simp only [ok_bind]
    refine ⟨s', by rw [hfil, hall], h2, ?_⟩
    rw [hfil]
    have : Spec.erase cs w (cs.length - w) = cs := by
      unfold Spec.erase; rw [hall]; simp
    rw [this] at h3; exact h3
  · rw [if_pos (by omega)]
    obtain ⟨b', h1, h2, h3, h4⟩ := removeLoop_spec v (cs.length - w - 1) (w + 1) w s.buf (by omega) (by omega)
    rw [h1]
    simp only [ok_bind]
    -- the part of the buffer the loop filtered
    have hR : (s.buf.drop (w + 1)).take (cs.length - w - 1) = cs.drop (w + 1) := by
      conv => lhs; rw [h.buf_eq]
      rw [List.drop_append_of_le_length (by omega), List.take_append_of_le_length (by simp; omega),
        List.take_of_length_le (by simp; omega)]
    rw [hR] at h3 h1 ⊢
    generalize hF : (cs.drop (w + 1)).filter (· ≠ v) = F at h3 h1 ⊢
    have hFl : F.length ≤ cs.length - (w + 1) := by
      rw [← hF]; have := (List.filter_sublist (p := (· ≠ v)) (l := cs.drop (w + 1))).length_le
      simpa using this
    have e4 : w + 1 + (cs.length - w - 1) = cs.length := by omega
    rw [e4] at h4
    -- s1 still has size |cs|
    have hX : (b'.take cs.length).length = cs.length := by simp; omega
    have hb' : b' = b'.take cs.length ++ s.buf.drop cs.length := by
      conv => lhs; rw [← List.take_append_drop cs.length b', h4]
    have hov := h.1.overwrite (b'.take cs.length) hX
    rw [← hb'] at hov
    obtain ⟨s', h5, h6, h7⟩ := eraseRange_rep hov (w + F.length) cs.length (by omega) (by rw [hX])
    rw [h5]
    simp only [ok_bind]
    have hsplit := filter_takeWhile_split cs v
    rw [hw, hF] at hsplit
    have htw : s.buf.take w = cs.takeWhile (· ≠ v) := by
      conv => lhs; rw [h.buf_eq]
      rw [List.take_append_of_le_length (by omega)]
      have hp := List.takeWhile_prefix (· ≠ v) (l := cs)
      obtain ⟨t, ht⟩ := hp
      conv => lhs; rw [← ht]
      rw [List.take_left' hw]
    have hres : Spec.erase (b'.take cs.length) (w + F.length) (cs.length - (w + F.length)) = cs.filter (· ≠ v) := by
      unfold Spec.erase
      have e : w + F.length + (cs.length - (w + F.length)) = cs.length := by omega
      rw [e, List.drop_of_length_le (by rw [hX]), List.append_nil, List.take_take, Nat.min_eq_left (by omega), h3, htw, hsplit]
    rw [hres] at h7
    refine ⟨s', ?_, h6, h7⟩
    rw [hsplit]
    simp only [List.length_append, hw]

end Tetl.C04
