/-
C04 — property theorems.  `Rep s cs` ("the object `s` represents the std string `cs`") bundles the invariant
of the property: buffer of `Capacity+1` units, `size()` reads `|cs|`, `|cs| <= Capacity`, `buf[size()] = 0`,
and the first `|cs|` units are `cs`.  Capacity (hence the layout: size in the last unit below 16, separate
narrow size field from 16 on) and the code units are universally quantified; nothing is bounded.
`= .ok …` in a conclusion is the memory-safety face: no read or write outside the `Capacity+1` units.
-/
import TetlProofs.C04.Lemmas
import TetlProofs.C04.Defs
import TetlProofs.C04.Search
import TetlProofs.C04.Plus
import TetlProofs.C04.EraseIf
import TetlProofs.C04.Alias
import TetlProofs.C04.Replace
import TetlProofs.C08.Props
namespace Tetl.C04.Props
open Tetl Tetl.C04

/-- The empty string of every capacity is well formed and represents "" (both layouts). -/
theorem mk0_rep (cap : Nat) (hc : cap < W64) : Rep (Str.mk0 cap) [] := by
  refine ⟨⟨by rw [mk0_cap]; exact hc, by rw [mk0_len, mk0_cap], ?_, Nat.zero_le _, ?_⟩, rfl⟩
  · unfold Str.mk0 Str.size
    by_cases ht : isTiny cap = true
    · simp only [ht, if_true]
      have : (List.replicate cap 0 ++ [cap])[cap]? = some cap := by
        rw [List.getElem?_append_right (by simp)]; simp
      rw [rd_ok' this]
      simp only [C08.ok_bind]
      rw [sizeDecode _ _ hc (Nat.le_refl _)]
      simp
    · simp [ht]
  · unfold Str.mk0
    by_cases ht : isTiny cap = true
    · simp only [ht, if_true, List.length_nil]
      by_cases h0 : cap = 0
      · subst h0; rfl
      · rw [List.getElem?_append_left (by rw [List.length_replicate]; omega)]
        simp [List.getElem?_replicate]; omega
    · simp [ht]

/-- `unsafe_set_size(n)` (the mechanism every size change goes through) re-establishes the invariant for every
    capacity and every `n <= Capacity`, including the aliasing case `n = Capacity < 16` where the size unit *is*
    the terminator, and keeps the first `n` units. -/
theorem unsafe_set_size_inv (s : Str) (hc : s.cap < W64) (hl : s.buf.length = s.cap + 1) (n : Nat) (hn : n ≤ s.cap) :
    ∃ s', s.unsafeSetSize n = .ok s' ∧ Inv s' n ∧ s'.cap = s.cap ∧ s'.buf.take n = s.buf.take n :=
  unsafeSetSize_spec s hc hl n hn

/-- `etl::rotate` (the forward swap-cycle algorithm insert and erase are built on) exchanges the two adjacent
    segments and touches nothing outside `[first, last)`. -/
theorem rotate_eq (P A B S : Units) :
    rotate (P ++ A ++ B ++ S) P.length (P.length + A.length) (P.length + A.length + B.length)
      = .ok (P ++ B ++ A ++ S, P.length + B.length) := rotate_spec P A B S

/-- **One step, invariant + exact result (clamping included).**  From any well-formed state, every modelled
    mutating member (all constructors of `Op`, the free `etl::erase(c, value)` included) returns `.ok` (no access outside the buffer, no precondition failure), keeps the capacity,
    returns what std returns, and leaves a well-formed string — `size <= capacity`, terminator at `size()` —
    whose contents are the std result cut to the capacity exactly as documented (`Spec.stepClamped`). -/
theorem step_rep {s : Str} {cs : List Nat} (h : Rep s cs) (op : Op) (hp : Pre s.cap cs op = true) :
    ∃ s', s.step op = .ok (s', (Spec.step cs op).2) ∧ s'.cap = s.cap ∧ Rep s' (Spec.stepClamped s.cap cs op) := by
  unfold Pre at hp
  simp only [Bool.and_eq_true, Bool.or_eq_true, Bool.not_eq_true'] at hp
  obtain ⟨hv, hfit⟩ := hp
  cases op with
  | assignPtr arr off len =>
    simp only [Spec.isAssign, Spec.fits, Spec.step, Spec.valid, Spec.segOk, decide_eq_true_eq] at hv hfit
    have hfit' : (Spec.seg arr off len).length ≤ s.cap := by
      rcases hfit with h0 | h0
      · cases h0
      · exact of_decide_eq_true h0
    have hl : (Spec.seg arr off len).length = len := by unfold Spec.seg; simp; omega
    obtain ⟨s', h1, h2, h3⟩ := ctorPtrLen_rep s.cap h.1.capLt arr off len (by omega) hv
    exact ⟨s', by simp [Str.step, h1, Spec.step], h2, h3⟩
  | assignFill count ch =>
    simp only [Spec.isAssign, Spec.fits, Spec.step, decide_eq_true_eq, List.length_replicate] at hfit
    have hfit' : count ≤ s.cap := by
      rcases hfit with h0 | h0
      · cases h0
      · exact h0
    obtain ⟨s', h1, h2, h3⟩ := ctorFill_rep s.cap h.1.capLt count ch hfit'
    exact ⟨s', by simp [Str.step, h1, Spec.step], h2, h3⟩
  | clear =>
    obtain ⟨s', h1, h2, h3⟩ := clear_rep h
    exact ⟨s', by simp [Str.step, h1, Spec.step], h2, h3⟩
  | pushBack ch =>
    obtain ⟨s', h1, h2, h3⟩ := pushBack_rep h ch
    exact ⟨s', by simp [Str.step, h1, Spec.step], h2, h3⟩
  | popBack =>
    simp only [Spec.valid, decide_eq_true_eq] at hv
    obtain ⟨s', h1, h2, h3⟩ := popBack_rep h hv
    exact ⟨s', by simp [Str.step, h1, Spec.step], h2, h3⟩
  | appendFill count ch =>
    obtain ⟨s', h1, h2, h3⟩ := appendFill_rep h count ch
    exact ⟨s', by simp [Str.step, h1, Spec.step], h2, h3⟩
  | appendPtrN arr off len =>
    simp only [Spec.valid, Spec.segOk, decide_eq_true_eq] at hv
    obtain ⟨s', h1, h2, h3⟩ := appendPtrN_rep h ⟨arr, off, len⟩ hv
    exact ⟨s', by simp [Str.step, h1, Spec.step], h2, h3⟩
  | appendRange arr off len =>
    simp only [Spec.valid, Spec.segOk, decide_eq_true_eq] at hv
    obtain ⟨s', h1, h2, h3⟩ := appendRange_rep arr len off h hv
    exact ⟨s', by simp [Str.step, h1, Spec.step], h2, h3⟩
  | insertImpl index arr off len =>
    simp only [Spec.valid, Spec.segOk, Bool.and_eq_true, decide_eq_true_eq] at hv
    obtain ⟨s', h1, h2, h3⟩ := insertImpl_rep h index ⟨arr, off, len⟩ hv.1 hv.2
    exact ⟨s', by simp [Str.step, h1, Spec.step], h2, h3⟩
  | insertFill index count ch =>
    simp only [Spec.valid, decide_eq_true_eq] at hv
    obtain ⟨s', h1, h2, h3⟩ := insertFill_rep index ch count h hv
    exact ⟨s', by simp [Str.step, h1, Spec.step], h2, h3⟩
  | eraseIdx index count =>
    simp only [Spec.valid, decide_eq_true_eq] at hv
    obtain ⟨s', h1, h2, h3⟩ := eraseIdx_rep h index count hv
    exact ⟨s', by simp [Str.step, h1, Spec.step], h2, h3⟩
  | eraseIt pos =>
    simp only [Spec.valid, decide_eq_true_eq] at hv
    obtain ⟨s', h1, h2, h3⟩ := eraseIt_rep h pos hv
    exact ⟨s', by simp [Str.step, h1, Spec.step], h2, h3⟩
  | eraseRange first last =>
    simp only [Spec.valid, Bool.and_eq_true, decide_eq_true_eq] at hv
    obtain ⟨s', h1, h2, h3⟩ := eraseRange_rep h first last hv.1 hv.2
    exact ⟨s', by simp [Str.step, h1, Spec.step], h2, h3⟩
  | resize count ch =>
    obtain ⟨s', h1, h2, h3⟩ := resize_rep h count ch
    exact ⟨s', by simp [Str.step, h1, Spec.step], h2, h3⟩
  | eraseValue v =>
    obtain ⟨s', h1, h2, h3⟩ := eraseValue_rep h v
    exact ⟨s', by simp [Str.step, h1, Spec.step], h2, h3⟩

example : Pre 3 [97, 98] (.insertImpl 1 [1, 2, 3, 4] 1 3) = true ∧
    Spec.fits 3 [97, 98] (.insertImpl 1 [1, 2, 3, 4] 1 3) = false := by decide   -- non-vacuous: a clamping insert

/-- **Invariant of one step** (the property's second sentence): after every defined operation — the clamping
    ones included, no "fits" hypothesis — `size() <= capacity()` and `data()[size()]` is the null character. -/
theorem inv_step {s : Str} {cs : List Nat} (h : Rep s cs) (op : Op) (hp : Pre s.cap cs op = true) :
    ∃ s' r n, s.step op = .ok (s', r) ∧ s'.size = .ok n ∧ n ≤ s'.cap ∧ s'.buf[n]? = some 0 ∧ s'.cap = s.cap := by
  obtain ⟨s', h1, h2, h3⟩ := step_rep h op hp
  exact ⟨s', _, _, h1, h3.1.size, h3.1.le, h3.1.nul, h2⟩

example : Pre 1 [7] (.appendFill 5 9) = true := by decide

/-- **Refinement of one step** (the property's first sentence): when the std result fits in the capacity the
    member leaves exactly the contents and returns exactly the value `std::basic_string` does. -/
theorem refines_step {s : Str} {cs : List Nat} (h : Rep s cs) (op : Op) (hp : Pre s.cap cs op = true)
    (hf : Spec.fits s.cap cs op = true) :
    ∃ s', s.step op = .ok (s', (Spec.step cs op).2) ∧ s'.cap = s.cap ∧ Rep s' (Spec.step cs op).1 := by
  obtain ⟨s', h1, h2, h3⟩ := step_rep h op hp
  rw [stepClamped_of_fits _ _ _ hf] at h3
  exact ⟨s', h1, h2, h3⟩

example : Pre 16 [97, 98, 99] (.eraseRange 1 3) = true ∧
    Spec.fits 16 [97, 98, 99] (.eraseRange 1 3) = true := by decide

/-! ### histories -/

/-- **Refinement over histories**: every history (any length) of fitting operations, started from any
    well-formed state, ends `.ok` in a well-formed state holding exactly the std contents. -/
theorem refines_history : ∀ (ops : List Op) {s : Str} {cs : List Nat}, Rep s cs → FitsAll s.cap cs ops = true →
    ∃ s', run s ops = .ok s' ∧ s'.cap = s.cap ∧ Rep s' (Spec.run cs ops) := by
  intro ops
  induction ops with
  | nil => intro s cs h _; exact ⟨s, rfl, rfl, h⟩
  | cons op ops ih =>
    intro s cs h hf
    simp only [FitsAll, Bool.and_eq_true] at hf
    obtain ⟨⟨hp, hfit⟩, hrest⟩ := hf
    obtain ⟨s1, h1, h2, h3⟩ := refines_step h op hp hfit
    rw [← h2] at hrest
    obtain ⟨s', h4, h5, h6⟩ := ih h3 hrest
    exact ⟨s', by simp [run, h1, h4], by rw [h5, h2], h6⟩

example : FitsAll 3 [] [.appendFill 2 97, .insertImpl 1 [120] 0 1, .eraseIt 0, .resize 3 0] = true := by decide

/-- **Invariant over histories**: after every history of defined operations — fitting or clamping — from the
    default-constructed string of any capacity, the model is `.ok`, `size() <= capacity()` and the unit at
    `size()` is the terminator. -/
theorem inv_history (cap : Nat) (hc : cap < W64) : ∀ (ops : List Op), ValidAll cap [] ops = true →
    ∃ s' n, run (Str.mk0 cap) ops = .ok s' ∧ s'.size = .ok n ∧ n ≤ cap ∧ s'.buf[n]? = some 0 := by
  have gen : ∀ (ops : List Op) {s : Str} {cs : List Nat}, Rep s cs → s.cap = cap → ValidAll cap cs ops = true →
      ∃ s', run s ops = .ok s' ∧ s'.cap = cap ∧ Rep s' (Spec.runClamped cap cs ops) := by
    intro ops
    induction ops with
    | nil => intro s cs h hcap _; exact ⟨s, rfl, hcap, h⟩
    | cons op ops ih =>
      intro s cs h hcap hf
      simp only [ValidAll, Bool.and_eq_true] at hf
      obtain ⟨hp, hrest⟩ := hf
      obtain ⟨s1, h1, h2, h3⟩ := step_rep h op (by rw [hcap]; exact hp)
      rw [hcap] at h3
      obtain ⟨s', h4, h5, h6⟩ := ih h3 (by rw [h2, hcap]) hrest
      exact ⟨s', by simp [run, h1, h4], h5, h6⟩
  intro ops hv
  obtain ⟨s', h1, h2, h3⟩ := gen ops (mk0_rep cap hc) (mk0_cap cap) hv
  exact ⟨s', _, h1, h3.1.size, by have := h3.1.le; rw [h2] at this; exact this, h3.1.nul⟩

example : ValidAll 2 [] [.appendFill 5 97, .insertImpl 1 [120, 121] 0 2, .pushBack 3, .popBack] = true := by decide

/-! ### swap, substr, compare -/

/-- `swap` exchanges the contents of two strings of one capacity and both stay well formed — also when one
    operand is full in the small layout (the size unit is then part of the exchanged range). -/
theorem swap_eq {a b : Str} {ca cb : List Nat} (ha : Rep a ca) (hb : Rep b cb) (hcap : a.cap = b.cap) :
    ∃ a' b', a.swap b = .ok (a', b') ∧ a'.cap = a.cap ∧ b'.cap = b.cap ∧ Rep a' cb ∧ Rep b' ca :=
  swap_rep ha hb hcap

/-- the view `(data(), size())` handed to every search/compare member is exactly the contents -/
theorem chars_eq {s : Str} {cs : List Nat} (h : Rep s cs) : s.chars = .ok cs := by
  unfold Str.chars
  rw [h.1.size]
  simp only [C08.ok_bind]
  rw [if_neg (by rw [h.1.len]; have := h.1.le; omega), h.2]

/-- `compare(str)` and the relational operators built on it: the three-way lexicographic order of the unsigned
    code units, for strings of any (also different) capacities. -/
theorem compare_sign {a b : Str} {ca cb : List Nat} (ha : Rep a ca) (hb : Rep b cb) :
    (do let x ← a.chars; let y ← b.chars; C08.compare x y) = .ok (C08.Spec.cmp ca cb) := by
  rw [chars_eq ha, chars_eq hb]
  simp only [C08.ok_bind]
  exact C08.Props.compare_eq ca cb

/-- `substr(pos, count)` for `pos <= size()`: a well-formed string holding the std substring. -/
theorem substr_eq {s : Str} {cs : List Nat} (h : Rep s cs) (pos count : Nat) (hp : pos ≤ cs.length) :
    ∃ r, s.substr pos count = .ok r ∧ r.cap = s.cap ∧ Rep r (Spec.substr cs pos count) :=
  substr_rep h pos count hp

example : (3 : Nat) ≤ [1, 2, 3].length := by decide

/-- `compare(pos, count, str)`, `compare(pos, count, s)`, `compare(pos, count, s, count2)` for `pos <= size()`: the
    clamp `count > size() - pos ? size() : count` followed by `substr` selects exactly `substr(pos, count)`, and
    the result is the lexicographic order against the argument. -/
theorem compare_pos_count_eq (h : Units) (pos count : Nat) (v : Units) (hp : pos ≤ h.length) :
    compare3 h pos count v = .ok (C08.Spec.cmp (Spec.substr h pos count) v) := compare3_eq h pos count v hp

example : (1 : Nat) ≤ [97, 98].length := by decide

/-- `compare(pos1, count1, str, pos2, count2)` (second clamp repaired: `str.size()`): both substrings are the std ones. -/
theorem compare_pos_count_pos_count_eq (h : Units) (pos1 count1 : Nat) (v : Units) (pos2 count2 : Nat)
    (hp1 : pos1 ≤ h.length) (hp2 : pos2 ≤ v.length) :
    compare5 h pos1 count1 v pos2 count2
      = .ok (C08.Spec.cmp (Spec.substr h pos1 count1) (Spec.substr v pos2 count2)) :=
  compare5_eq h pos1 count1 v pos2 count2 hp1 hp2

example : (0 : Nat) ≤ ([] : List Nat).length ∧ (1 : Nat) ≤ [0].length := by decide

/-- **Overload resolution.**  For every way an overload passes its character sequence (pointer+count, C string
    measured by `traits_type::length`, iterator pair, view, sub-view, another string, sub-string through a temporary
    `substr`, sub-string through a view, single char): whenever the standard defines the call (`den = some d`), the
    range the model hands to the member lies inside its array and denotes exactly `d`.  Together with `step_rep`
    this covers every overload of assign / append / += / insert. -/
theorem overload_arg_eq {o : Str} {co : List Nat} (ho : Rep o co) (a : Arg) (d : List Nat) (hd : a.den co = some d) :
    ∃ src, a.src o = .ok src ∧ src.off + src.len ≤ src.arr.length ∧ Spec.seg src.arr src.off src.len = d :=
  arg_agree ho a d hd

example : (Arg.viewsub [1, 2, 3] 1 NPOS).den [] = some [2, 3] ∧ (Arg.cstr [7, 0, 9]).den [] = some [7] := by decide

/-! ### search members (delegation to `basic_string_view`, proved in C08) -/

/-- `find(str|s|ch, pos = 0)` and `find(s, pos, count)`, every overload (the argument `a` is any of the ways an overload
    passes its needle, `pos = none` the call without `pos`): no read outside either string, and the result is the lowest
    `xpos >= pos` at which the needle occurs, `npos` if none — including the wrapped guard of `etl::strings::find` when the
    needle is longer than the string. -/
theorem find_eq {s o : Str} {cs co : List Nat} (hs : Rep s cs) (ho : Rep o co) (a : Arg) (d : List Nat)
    (hd : a.den co = some d) (pos : Option Nat) :
    s.find o a pos = .ok (C08.Spec.find cs d (pos.getD 0)) := by
  unfold Str.find
  rw [chars_rep hs, units_rep ho a d hd]
  simp only [C08.ok_bind]
  exact stringsFind_eq cs d _ (by have := hs.1.le; have := hs.1.capLt; omega)

example : (Arg.cstr [98, 0, 99]).den [] = some [98] := by decide

/-- `rfind` with an explicit `pos` (every overload, the `Char` one included): the highest `xpos <= pos` at which the needle
    occurs.  Excluded class = the calls without `pos` (finding F-C04-rfind-default-pos). -/
theorem rfind_partial {s o : Str} {cs co : List Nat} (hs : Rep s cs) (ho : Rep o co) (a : Arg) (d : List Nat)
    (hd : a.den co = some d) (pos : Option Nat) (hpos : pos.isSome = true) :
    s.rfind o a pos = .ok (C08.Spec.rfind cs d (pos.getD NPOS)) := by
  obtain ⟨p, rfl⟩ := Option.isSome_iff_exists.mp hpos
  unfold Str.rfind
  rw [chars_rep hs, units_rep ho a d hd]
  simp only [C08.ok_bind, Option.getD_some]
  cases a <;> first
    | exact C08.Props.rfind_eq cs d p
    | (rw [den_ch hd]; exact C08.Props.rfind_char_eq cs _ p)

example : (Arg.ch 97).den [] = some [97] ∧ (some 5 : Option Nat).isSome = true := by decide

/-- what the library does for `rfind` without `pos`: it searches with `pos = 0` (the default written in the header), i.e.
    it only reports a match at index 0 (see `rfind_default_counterexample`). -/
theorem rfind_default_is_zero {s o : Str} {cs co : List Nat} (hs : Rep s cs) (ho : Rep o co) (a : Arg) (d : List Nat)
    (hd : a.den co = some d) :
    s.rfind o a none = .ok (C08.Spec.rfind cs d 0) := by
  unfold Str.rfind
  rw [chars_rep hs, units_rep ho a d hd]
  simp only [C08.ok_bind, Option.getD_none]
  cases a <;> first
    | exact C08.Props.rfind_eq cs d 0
    | (rw [den_ch hd]; exact C08.Props.rfind_char_eq cs _ 0)

example : Arg.str.den [97, 97] = some [97, 97] := by decide

/-- `find_first_of(…, pos = 0)`, every overload: the lowest `xpos >= pos` whose character is in the set. -/
theorem find_first_of_eq {s o : Str} {cs co : List Nat} (hs : Rep s cs) (ho : Rep o co) (a : Arg) (d : List Nat)
    (hd : a.den co = some d) (pos : Option Nat) :
    s.findFirstOf o a pos = .ok (C08.Spec.findFirstOf cs d (pos.getD 0)) := by
  unfold Str.findFirstOf
  rw [chars_rep hs, units_rep ho a d hd]
  simp only [C08.ok_bind]
  exact findFirstOf_guard_eq cs d _

example : (Arg.view [97, 0]).den [] = some [97, 0] := by decide

/-- `find_first_not_of(…, pos = 0)`, every overload (the `Char` one has its own loop). -/
theorem find_first_not_of_eq {s o : Str} {cs co : List Nat} (hs : Rep s cs) (ho : Rep o co) (a : Arg) (d : List Nat)
    (hd : a.den co = some d) (pos : Option Nat) :
    s.findFirstNotOf o a pos = .ok (C08.Spec.findFirstNotOf cs d (pos.getD 0)) := by
  unfold Str.findFirstNotOf
  rw [chars_rep hs, units_rep ho a d hd]
  simp only [C08.ok_bind]
  cases a <;> first
    | exact C08.Props.find_first_not_of_eq cs d _
    | (rw [den_ch hd]; exact C08.Props.find_first_not_of_char_eq cs _ _)

example : (Arg.ptrn [97, 98, 99] 2).den [] = some [97, 98] := by decide

/-- `find_last_of(…, pos = npos)`, every overload: the highest `xpos <= pos` whose character is in the set. -/
theorem find_last_of_eq {s o : Str} {cs co : List Nat} (hs : Rep s cs) (ho : Rep o co) (a : Arg) (d : List Nat)
    (hd : a.den co = some d) (pos : Option Nat) :
    s.findLastOf o a pos = .ok (C08.Spec.findLastOf cs d (pos.getD NPOS)) := by
  unfold Str.findLastOf
  rw [chars_rep hs, units_rep ho a d hd]
  simp only [C08.ok_bind]
  exact C08.Props.find_last_of_eq cs d _

example : (Arg.strsubv 1 NPOS).den [97, 98, 99] = some [98, 99] := by decide

/-- `find_last_not_of(…, pos = npos)`, every overload. -/
theorem find_last_not_of_eq {s o : Str} {cs co : List Nat} (hs : Rep s cs) (ho : Rep o co) (a : Arg) (d : List Nat)
    (hd : a.den co = some d) (pos : Option Nat) :
    s.findLastNotOf o a pos = .ok (C08.Spec.findLastNotOf cs d (pos.getD NPOS)) := by
  unfold Str.findLastNotOf
  rw [chars_rep hs, units_rep ho a d hd]
  simp only [C08.ok_bind]
  exact C08.Props.find_last_not_of_eq cs d _

example : (Arg.range [1, 2]).den [] = some [1, 2] := by decide

/-- `starts_with(sv|c|s)`: the argument is a prefix of the contents. -/
theorem starts_with_eq {s o : Str} {cs co : List Nat} (hs : Rep s cs) (ho : Rep o co) (a : Arg) (d : List Nat)
    (hd : a.den co = some d) :
    s.startsWith o a = .ok (C08.Spec.startsWith cs d) := by
  unfold Str.startsWith
  rw [chars_rep hs, units_rep ho a d hd]
  simp only [C08.ok_bind]
  cases a <;> first
    | exact C08.Props.starts_with_eq cs d
    | (rw [den_ch hd]; exact C08.Props.starts_with_char_eq cs _)

example : (Arg.ch 0).den [] = some [0] := by decide

/-- `ends_with(sv|c|s)`: the argument is a suffix of the contents. -/
theorem ends_with_eq {s o : Str} {cs co : List Nat} (hs : Rep s cs) (ho : Rep o co) (a : Arg) (d : List Nat)
    (hd : a.den co = some d) :
    s.endsWith o a = .ok (C08.Spec.endsWith cs d) := by
  unfold Str.endsWith
  rw [chars_rep hs, units_rep ho a d hd]
  simp only [C08.ok_bind]
  have hl : cs.length ≤ C08.NPOS := by
    have := hs.1.le; have := hs.1.capLt; unfold W64 at *; unfold C08.NPOS; omega
  cases a <;> first
    | exact C08.Props.ends_with_eq cs d hl
    | (rw [den_ch hd]; exact C08.Props.ends_with_char_eq cs _)

example : (Arg.cstr [97]).den [] = some [97] := by decide

/-- `contains(sv|c|s)`: the argument occurs somewhere in the contents. -/
theorem contains_eq {s o : Str} {cs co : List Nat} (hs : Rep s cs) (ho : Rep o co) (a : Arg) (d : List Nat)
    (hd : a.den co = some d) :
    s.contains o a = .ok (C08.Spec.contains cs d) := by
  unfold Str.contains
  rw [chars_rep hs, units_rep ho a d hd]
  simp only [C08.ok_bind]
  exact C08.Props.contains_eq cs d

example : (Arg.view []).den [] = some [] := by decide

/-! ### copy, element access -/

/-- `copy(dest, count, pos)` for `pos <= size()`: returns `min(count, size() - pos)` and writes exactly the characters of
    the std substring to `dest` (no read outside the buffer). -/
theorem copy_eq {s : Str} {cs : List Nat} (h : Rep s cs) (count pos : Nat) (hp : pos ≤ cs.length) :
    s.copyTo count pos = .ok ((Spec.substr cs pos count).length, Spec.substr cs pos count) :=
  copyTo_rep h count pos hp

example : (2 : Nat) ≤ [1, 2, 3].length := by decide

/-- `operator[](i)` for `i <= size()` (const and non-const): the i-th character; `i = size()` reads the terminator. -/
theorem at_eq {s : Str} {cs : List Nat} (h : Rep s cs) (i : Nat) (hi : i ≤ cs.length) :
    s.at i = .ok ((cs ++ [0])[i]'(by simp; omega)) := at_rep h i hi

example : (2 : Nat) ≤ [7, 8].length := by decide

/-- `front()` of a non-empty string -/
theorem front_eq {s : Str} {cs : List Nat} (h : Rep s cs) (hne : cs ≠ []) : s.front = .ok (cs.head hne) :=
  front_rep h hne

/-- `back()` of a non-empty string -/
theorem back_eq {s : Str} {cs : List Nat} (h : Rep s cs) (hne : cs ≠ []) : s.back = .ok (cs.getLast hne) :=
  back_rep h hne

example : ([1, 2] : List Nat) ≠ [] := by decide

/-! ### operator+ (five overloads): a well-formed result holding `lhs ++ rhs` cut to the capacity, exactly
    `lhs ++ rhs` when that fits -/

theorem plus_str_str_eq {a b : Str} {ca cb : List Nat} (ha : Rep a ca) (hb : Rep b cb) :
    ∃ r, plusStrStr a b = .ok r ∧ r.cap = a.cap ∧ Rep r (ca ++ cb.take (a.cap - ca.length)) ∧
      (ca.length + cb.length ≤ a.cap → Rep r (ca ++ cb)) := by
  obtain ⟨r, h1, h2, h3⟩ := plusStrStr_rep ha hb
  exact ⟨r, h1, h2, h3, fun hf => by rw [List.take_of_length_le (by omega)] at h3; exact h3⟩

theorem plus_str_cstr_eq {a : Str} {ca : List Nat} (ha : Rep a ca) (z : Units) :
    ∃ r, plusStrCstr a z = .ok r ∧ r.cap = a.cap ∧ Rep r (ca ++ (z.takeWhile (· ≠ 0)).take (a.cap - ca.length)) ∧
      (ca.length + (z.takeWhile (· ≠ 0)).length ≤ a.cap → Rep r (ca ++ z.takeWhile (· ≠ 0))) := by
  obtain ⟨r, h1, h2, h3⟩ := plusStrCstr_rep ha z
  exact ⟨r, h1, h2, h3, fun hf => by rw [List.take_of_length_le (by omega)] at h3; exact h3⟩

theorem plus_str_char_eq {a : Str} {ca : List Nat} (ha : Rep a ca) (c : Nat) :
    ∃ r, plusStrCh a c = .ok r ∧ r.cap = a.cap ∧ Rep r (ca ++ List.replicate (min 1 (a.cap - ca.length)) c) ∧
      (ca.length + 1 ≤ a.cap → Rep r (ca ++ [c])) := by
  obtain ⟨r, h1, h2, h3⟩ := plusStrCh_rep ha c
  refine ⟨r, h1, h2, h3, fun hf => ?_⟩
  have : min 1 (a.cap - ca.length) = 1 := by omega
  rw [this] at h3; exact h3

/-- `operator+(Char const*, string)`; the left operand is first made a string: `\pre length(lhs) <= Capacity` -/
theorem plus_cstr_str_eq {b : Str} {cb : List Nat} (hb : Rep b cb) (z : Units) (hz : (z.takeWhile (· ≠ 0)).length ≤ b.cap) :
    ∃ r, plusCstrStr z b = .ok r ∧ r.cap = b.cap ∧
      Rep r (z.takeWhile (· ≠ 0) ++ cb.take (b.cap - (z.takeWhile (· ≠ 0)).length)) ∧
      ((z.takeWhile (· ≠ 0)).length + cb.length ≤ b.cap → Rep r (z.takeWhile (· ≠ 0) ++ cb)) := by
  obtain ⟨r, h1, h2, h3⟩ := plusCstrStr_rep hb z hz
  exact ⟨r, h1, h2, h3, fun hf => by rw [List.take_of_length_le (by omega)] at h3; exact h3⟩

example : (([120, 0, 121] : Units).takeWhile (· ≠ 0)).length ≤ 3 := by decide

/-- `operator+(Char, string)`: `\pre 1 <= Capacity` -/
theorem plus_char_str_eq {b : Str} {cb : List Nat} (hb : Rep b cb) (c : Nat) (h1 : 1 ≤ b.cap) :
    ∃ r, plusChStr c b = .ok r ∧ r.cap = b.cap ∧ Rep r ([c] ++ cb.take (b.cap - 1)) ∧
      (1 + cb.length ≤ b.cap → Rep r ([c] ++ cb)) := by
  obtain ⟨r, h2, h3, h4⟩ := plusChStr_rep hb c h1
  exact ⟨r, h2, h3, h4, fun hf => by rw [List.take_of_length_le (by omega)] at h4; exact h4⟩

example : (1 : Nat) ≤ (Str.mk0 1).cap := by decide

/-! ### free `etl::erase_if` -/

/-- `etl::erase_if(c, pred)` for every predicate: `.ok`, well formed, the contents without the characters satisfying
    `pred` in their original order, and the number removed as return value. -/
theorem erase_if_eq {s : Str} {cs : List Nat} (h : Rep s cs) (p : Nat → Bool) :
    ∃ s', s.eraseIf p = .ok (s', cs.length - (cs.filter (fun x => !p x)).length) ∧ s'.cap = s.cap ∧
      Rep s' (cs.filter (fun x => !p x)) := eraseIf_rep h p

/-! ### self-aliasing arguments -/
/-- **Aliasing is harmless.**  A member called with (a part of) the string it modifies — `s.append(s)`, `s += s`,
    `s.append(s, pos, count)`, `s.append(s.data()+off, n)`, `s.insert(i, s)`, `s.insert(i, s, pos, count)`,
    `s.insert(i, s.data()+off, n)`, `s.assign(s)`, `s = s`, `s.assign(s, pos, count)`, `s.assign(s.data()+off, n)` —
    whose loops read the very buffer they write, returns `.ok`, stays well formed and leaves exactly what the same call
    with an independent copy `d` of the argument's characters leaves (cut to the capacity; the std result when it fits).
    `std::basic_string` guarantees the same. -/
theorem self_alias_eq {s : Str} {cs : List Nat} (h : Rep s cs) (op : SelfOp) (d : List Nat)
    (hform : op.arg.isSelfForm = true) (hd : op.arg.den cs = some d) (hp : Pre s.cap cs (op.plain d) = true) :
    ∃ s', s.selfStep op = .ok s' ∧ s'.cap = s.cap ∧ Rep s' (Spec.stepClamped s.cap cs (op.plain d)) ∧
      (Spec.fits s.cap cs (op.plain d) = true → Rep s' (Spec.step cs (op.plain d)).1) := by
  obtain ⟨s', h1, h2, h3⟩ := selfStep_rep h op d hform hd hp
  exact ⟨s', h1, h2, h3, fun hf => by rw [stepClamped_of_fits _ _ _ hf] at h3; exact h3⟩

example : (SelfOp.insert 1 (.ptr 1 1)).arg.isSelfForm = true ∧ (SelfOp.insert 1 (.ptr 1 1)).arg.den [97, 98] = some [98] ∧
    Pre 3 [97, 98] ((SelfOp.insert 1 (.ptr 1 1)).plain [98]) = true ∧
    Pre 3 [97, 98] ((SelfOp.append .str).plain [97, 98]) = true ∧
    Spec.fits 3 [97, 98] ((SelfOp.append .str).plain [97, 98]) = false := by decide

/-! ### known findings: the failing inputs, kernel-checked on the model -/

/-- F-C04-rfind-default-pos: `rfind` called without `pos` uses the header's default 0; std's default is npos.
    ("aa".rfind("a") gives 0, std 1.)  With an explicit pos the member is the C08 model of `rfind`. -/
theorem rfind_default_counterexample :
    C08.rfind [97, 97] [97] 0 ≠ .ok (C08.Spec.rfind [97, 97] [97] NPOS) := by decide

/-- F-C04-replace-overwrites-only, what the family does: on well-ordered ranges `replace` overwrites the first
    `min (l - f) (sl - sf)` characters of `[f, l)` with the front of the replacement and keeps size and terminator (no access
    outside the buffer). -/
theorem replace_overwrites {s : Str} {cs : List Nat} (h : Rep s cs) (f l : Nat) (arr : Units) (sf sl : Nat)
    (hfl : f ≤ l) (hl : l ≤ cs.length) (hs : sf ≤ sl) (hsl : sl ≤ arr.length) :
    ∃ s', s.replaceCore f l arr sf sl = .ok s' ∧ s'.cap = s.cap ∧
      Rep s' (cs.take f ++ Spec.seg arr sf (min (l - f) (sl - sf)) ++ cs.drop (f + min (l - f) (sl - sf))) :=
  replaceCore_rep h f l arr sf sl hfl hl hs hsl

example : (1 : Nat) ≤ 2 ∧ 2 ≤ [97, 98, 99].length ∧ (0 : Nat) ≤ 3 ∧ 3 ≤ [120, 121, 122].length := by decide

/-- `replace(pos, count, str)` outside the excluded class (replacement length = replaced length, `count <= size() - pos`):
    the std result. -/
theorem replace_partial {s : Str} {cs : List Nat} (h : Rep s cs) (pos count : Nat) (arr : Units) (sf sl : Nat)
    (hp : pos ≤ cs.length) (hc : count ≤ cs.length - pos) (hs : sf ≤ sl) (hsl : sl ≤ arr.length) (hlen : sl - sf = count) :
    ∃ s', s.replaceA pos count arr sf sl = .ok s' ∧ s'.cap = s.cap ∧
      Rep s' (Spec.replace cs pos count (Spec.seg arr sf (sl - sf))) :=
  replaceA_partial h pos count arr sf sl hp hc hs hsl hlen

/-- `replace(pos, count, s, count2)`, `replace(pos, count, s)`, `replace(pos, count, str, pos2, count2)`, same class. -/
theorem replace_ptr_partial {s : Str} {cs : List Nat} (h : Rep s cs) (pos count : Nat) (arr : Units) (sf sl : Nat)
    (hp : pos ≤ cs.length) (hc : count ≤ cs.length - pos) (hs : sf ≤ sl) (hsl : sl ≤ arr.length) (hlen : sl - sf = count) :
    ∃ s', s.replaceB pos count arr sf sl = .ok s' ∧ s'.cap = s.cap ∧
      Rep s' (Spec.replace cs pos count (Spec.seg arr sf (sl - sf))) :=
  replaceB_partial h pos count arr sf sl hp hc hs hsl hlen

example : (1 : Nat) ≤ [97, 98, 99].length ∧ (2 : Nat) ≤ [97, 98, 99].length - 1 ∧ (1 : Nat) ≤ 3 ∧
    3 ≤ [120, 121, 122].length ∧ 3 - 1 = 2 := by decide

/-- `replace(first, last, str|s|s,count2)`, same class. -/
theorem replace_iter_partial {s : Str} {cs : List Nat} (h : Rep s cs) (first last : Nat) (arr : Units) (sf sl : Nat)
    (h1 : first ≤ last) (h2 : last ≤ cs.length) (hs : sf ≤ sl) (hsl : sl ≤ arr.length) (hlen : sl - sf = last - first) :
    ∃ s', s.replaceIt first last arr sf sl = .ok s' ∧ s'.cap = s.cap ∧
      Rep s' (Spec.replace cs first (last - first) (Spec.seg arr sf (sl - sf))) :=
  replaceIt_partial h first last arr sf sl h1 h2 hs hsl hlen

/-- `replace(first, last, count2, ch)`, same class. -/
theorem replace_iter_fill_partial {s : Str} {cs : List Nat} (h : Rep s cs) (first last count2 ch : Nat)
    (h1 : first ≤ last) (h2 : last ≤ cs.length) (hlen : count2 = last - first) :
    ∃ s', s.replaceItFill first last count2 ch = .ok s' ∧ s'.cap = s.cap ∧
      Rep s' (Spec.replace cs first (last - first) (List.replicate count2 ch)) :=
  replaceItFill_partial h first last count2 ch h1 h2 hlen

example : (0 : Nat) ≤ 2 ∧ 2 ≤ [97, 98, 99].length ∧ (2 : Nat) = 2 - 0 := by decide

/-- F-C04-replace-overwrites-only: `replace(pos, count, str)` overwrites in place and keeps the size:
    "ab".replace(0, 1, "xyz") leaves "xb" (std: "xyzb"). -/
theorem replace_counterexample :
    (do let s ← ctorPtrLen 7 [97, 98] 0 2
        let r ← s.replaceA 0 1 [120, 121, 122] 0 3
        r.chars) = .ok [120, 98] ∧ Spec.replace [97, 98] 0 1 [120, 121, 122] = [120, 121, 122, 98] := by decide

/-- …and with `count > size() - pos` the overwrite runs past `size()`: the unit at `size()` is no longer the
    terminator ("ab".replace(1, npos, "xyz") at capacity 7: size 2, buf[2] = 'y'). -/
theorem replace_breaks_terminator_counterexample :
    (do let s ← ctorPtrLen 7 [97, 98] 0 2
        let r ← s.replaceA 1 NPOS [120, 121, 122] 0 3
        let n ← r.size
        let t ← rd r.buf n
        pure (n, t)) = .ok (2, 121) := by decide

/-- Wide strings: `wchar_t` is a signed 32-bit type on this target, so `basic_inplace_string<wchar_t, N>::compare` and the
    relational operators have to order code units by their signed value (`C08.Spec.cmpSigned`, the spec column of the
    driver on `ct=wchar` lines).  That comparison is the natural-order comparison of `compare_sign` /
    `compare_pos_count_eq` / `compare_pos_count_pos_count_eq` applied to the images under `signedKey32`, which is what
    the driver feeds to the model on those lines - for all strings of 32-bit patterns. -/
theorem compare_wide_signed (a b : Spec.Str) (ha : ∀ u ∈ a, u < 4294967296) (hb : ∀ u ∈ b, u < 4294967296) :
    C08.Spec.cmpSigned a b = C08.Spec.cmp (a.map C08.Spec.signedKey32) (b.map C08.Spec.signedKey32) :=
  C08.Props.cmpSigned_eq_cmp_key a b ha hb

example : C08.Spec.cmpSigned [1] [4294967040] = 1 ∧ C08.Spec.cmp [1] [4294967040] = -1 := by decide

end Tetl.C04.Props
