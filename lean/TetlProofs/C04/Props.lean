import TetlProofs.C04.Lemmas
namespace Tetl.C04.Props
open Tetl Tetl.C04

theorem mk0_size (cap : Nat) (h : cap < W64) : (Str.mk0 cap).size = .ok 0 := by
  unfold Str.mk0 Str.size
  by_cases ht : isTiny cap = true
  · simp [ht, rd, W64] at *; omega
  · simp [ht]

end Tetl.C04.Props
