import TetlProofs.C04.L4
namespace Tetl.C04
open Tetl Tetl.C08

theorem mk0_len (cap : Nat) : (Str.mk0 cap).buf.length = cap + 1 := by
  unfold Str.mk0; split <;> simp

theorem mk0_cap (cap : Nat) : (Str.mk0 cap).cap = cap := by
  unfold Str.mk0; split <;> rfl

/-! ### constructors -/

theorem ctorPtrLen_rep (cap : Nat) (hc : cap < W64) (src : Units) (off len : Nat) (hlen : len ≤ cap)
    (hs : off + len ≤ src.length) :
    ∃ s', ctorPtrLen cap src off len = .ok s' ∧ s'.cap = cap ∧ Rep s' (Spec.seg src off len) := by
  unfold ctorPtrLen
  rw [if_neg (by omega)]
  obtain ⟨s1, h1, hinv, hcap, _⟩ := unsafeSetSize_spec (Str.mk0 cap) (by rw [mk0_cap]; exact hc) (by rw [mk0_len, mk0_cap]) len
    (by rw [mk0_cap]; exact hlen)
  rw [h1]
  simp only [ok_bind]
  rw [mk0_cap] at hcap
  rw [copyLoop_spec _ _ _ _ _ hs (by rw [hinv.len, hcap]; omega)]
  simp only [ok_bind, List.take_zero, List.nil_append, Nat.zero_add]
  have hl : (Spec.seg src off len).length = len := by unfold Spec.seg; simp; omega
  have := hinv.overwrite (Spec.seg src off len) hl
  refine ⟨_, rfl, hcap, ?_⟩
  exact this

theorem ctorFill_rep (cap : Nat) (hc : cap < W64) (count ch : Nat) (hlen : count ≤ cap) :
    ∃ s', ctorFill cap count ch = .ok s' ∧ s'.cap = cap ∧ Rep s' (List.replicate count ch) := by
  unfold ctorFill
  rw [if_neg (by omega)]
  simp only []
  rw [fillLoop_spec _ _ _ _ (by rw [mk0_len]; omega)]
  simp only [ok_bind, List.take_zero, List.nil_append, Nat.zero_add]
  have := finish (Str.mk0 cap) (List.replicate count ch ++ (Str.mk0 cap).buf.drop count) (List.replicate count ch)
    (by rw [mk0_cap]; exact hc) (by simp [mk0_len, mk0_cap]; omega) (by simp [mk0_cap]; exact hlen) (List.take_left' rfl)
  simp only [List.length_replicate] at this
  obtain ⟨s', hs', hc', hr'⟩ := this
  exact ⟨s', hs', by rw [hc', mk0_cap], hr'⟩

/-! ### erase = rotate + shrink -/

theorem eraseRange_rep {s : Str} {cs : List Nat} (h : Rep s cs) (first last : Nat) (h1 : first ≤ last) (h2 : last ≤ cs.length) :
    ∃ s', s.eraseRange first last = .ok (s', first) ∧ s'.cap = s.cap ∧ Rep s' (Spec.erase cs first (last - first)) := by
  unfold Str.eraseRange
  rw [h.1.size]
  simp only [ok_bind]
  rw [if_neg (by omega)]
  -- the buffer as P ++ A ++ B ++ S
  have hbuf : s.buf = cs.take first ++ (cs.drop first).take (last - first) ++ cs.drop last ++ s.buf.drop cs.length := by
    conv => lhs; rw [h.buf_eq]
    congr 1
    have e1 : cs = cs.take first ++ cs.drop first := (List.take_append_drop _ _).symm
    have e2 : cs.drop first = (cs.drop first).take (last - first) ++ (cs.drop first).drop (last - first) :=
      (List.take_append_drop _ _).symm
    have e3 : (cs.drop first).drop (last - first) = cs.drop last := by
      rw [List.drop_drop]; congr 1; omega
    conv => lhs; rw [e1, e2, e3]
    simp [List.append_assoc]
  have lP : (cs.take first).length = first := by simp; omega
  have lA : ((cs.drop first).take (last - first)).length = last - first := by simp; omega
  have lB : (cs.drop last).length = cs.length - last := by simp
  have hrot := rotate_spec (cs.take first) ((cs.drop first).take (last - first)) (cs.drop last) (s.buf.drop cs.length)
  rw [← hbuf, lP, lA, lB] at hrot
  have e1 : first + (last - first) = last := by omega
  have e2 : last + (cs.length - last) = cs.length := by omega
  rw [e1, e2] at hrot
  rw [e1, hrot]
  simp only [ok_bind]
  -- size is still |cs| after the rotation
  have hX : (cs.take first ++ cs.drop last ++ (cs.drop first).take (last - first)).length = cs.length := by
    simp only [List.length_append, lP, lA, lB]; omega
  have hov := h.1.overwrite (cs.take first ++ cs.drop last ++ (cs.drop first).take (last - first)) hX
  rw [hov.1.size]
  simp only [ok_bind]
  have hres : (Spec.erase cs first (last - first)) = cs.take first ++ cs.drop last := by
    unfold Spec.erase; rw [e1]
  have hrl : (cs.take first ++ cs.drop last).length = cs.length - (last - first) := by
    simp only [List.length_append, lP, lB]; omega
  have := finish s (cs.take first ++ cs.drop last ++ (cs.drop first).take (last - first) ++ s.buf.drop cs.length)
    (cs.take first ++ cs.drop last) h.1.capLt hov.1.len (by rw [hrl]; have := h.1.le; omega)
    (by rw [List.append_assoc (cs.take first ++ cs.drop last)]; exact List.take_left' rfl)
  rw [hrl] at this
  obtain ⟨s', hs', hc', hr'⟩ := this
  rw [hX, hs']
  simp only [ok_bind]
  exact ⟨s', rfl, hc', by rw [hres]; exact hr'⟩

theorem eraseIdx_rep {s : Str} {cs : List Nat} (h : Rep s cs) (index count : Nat) (hi : index ≤ cs.length) :
    ∃ s', s.eraseIdx index count = .ok s' ∧ s'.cap = s.cap ∧
      Rep s' (Spec.erase cs index (min count (cs.length - index))) := by
  unfold Str.eraseIdx
  rw [h.1.size]
  simp only [ok_bind]
  rw [if_neg (by omega)]
  obtain ⟨s', hs', hc', hr'⟩ := eraseRange_rep h index (index + min count (cs.length - index)) (by omega) (by omega)
  rw [hs']
  simp only [ok_bind]
  have : index + min count (cs.length - index) - index = min count (cs.length - index) := by omega
  rw [this] at hr'
  exact ⟨s', rfl, hc', hr'⟩

theorem eraseIt_rep {s : Str} {cs : List Nat} (h : Rep s cs) (pos : Nat) (hi : pos < cs.length) :
    ∃ s', s.eraseIt pos = .ok (s', pos) ∧ s'.cap = s.cap ∧ Rep s' (Spec.erase cs pos 1) := by
  unfold Str.eraseIt
  rw [h.1.size]
  simp only [ok_bind]
  rw [if_neg (by omega)]
  obtain ⟨s', hs', hc', hr'⟩ := eraseRange_rep h pos (pos + 1) (by omega) (by omega)
  have : pos + 1 - pos = 1 := by omega
  rw [this] at hr'
  exact ⟨s', hs', hc', hr'⟩

end Tetl.C04
