import TetlProofs.C04.L11
namespace Tetl.C04
open Tetl Tetl.C08

theorem ei_findIfLoopP_spec (b : Units) (p : Nat → Bool) : ∀ (n i : Nat), i + n ≤ b.length →
    findIfLoopP b p n i = .ok (i + (((b.drop i).take n).takeWhile (fun x => !p x)).length) := by
  intro n
  induction n with
  | zero => intro i _; simp [findIfLoopP]
  | succ n ih =>
    intro i h
    have hi : i < b.length := by omega
    simp only [findIfLoopP, rd_ok hi, ok_bind, drop_take_succ _ _ _ hi]
    cases hx : p b[i]
    · rw [if_neg (by simp), ih (i + 1) (by omega)]
      simp [hx]
      omega
    · simp [hx]

theorem ei_removeLoopP_spec (p : Nat → Bool) : ∀ (n i first : Nat) (b : Units), first ≤ i → i + n ≤ b.length →
    ∃ b', removeLoopP p n i first b = .ok (b', first + (((b.drop i).take n).filter (fun x => !p x)).length) ∧
      b'.length = b.length ∧
      b'.take (first + (((b.drop i).take n).filter (fun x => !p x)).length)
        = b.take first ++ ((b.drop i).take n).filter (fun x => !p x) ∧
      b'.drop (i + n) = b.drop (i + n) := by
  intro n
  induction n with
  | zero => intro i first b _ _; exact ⟨b, by simp [removeLoopP], rfl, by simp, rfl⟩
  | succ n ih =>
    intro i first b hf h
    have hi : i < b.length := by omega
    have hfl : first < b.length := by omega
    simp only [removeLoopP, rd_ok hi, ok_bind, drop_take_succ _ _ _ hi]
    cases hx : p b[i]
    · simp only [Bool.not_false, if_true, wr_ok _ hfl, ok_bind]
      obtain ⟨b', h1, h2, h3, h4⟩ := ih (i + 1) (first + 1) (b.set first b[i]) (by omega) (by simp; omega)
      rw [List.drop_set_of_lt (by omega)] at h1 h3
      rw [take_succ_set _ _ _ hfl] at h3
      have e : first + ((List.filter (fun x => !p x) ((b.drop (i + 1)).take n)).length + 1)
          = first + 1 + (List.filter (fun x => !p x) ((b.drop (i + 1)).take n)).length := by omega
      refine ⟨b', ?_, by simpa using h2, ?_, ?_⟩
      · simp only [List.filter_cons, hx, Bool.not_false, if_true, List.length_cons]
        rw [e]; exact h1
      · simp only [List.filter_cons, hx, Bool.not_false, if_true, List.length_cons]
        rw [e, h3]; simp
      · have : i + (n + 1) = i + 1 + n := by omega
        rw [this, h4, List.drop_set_of_lt (by omega)]
    · simp only [Bool.not_true, Bool.false_eq_true, if_false]
      obtain ⟨b', h1, h2, h3, h4⟩ := ih (i + 1) first b (by omega) (by omega)
      refine ⟨b', ?_, h2, ?_, ?_⟩
      · simpa [List.filter_cons, hx] using h1
      · simpa [List.filter_cons, hx] using h3
      · have : i + (n + 1) = i + 1 + n := by omega
        rw [this]; exact h4

theorem ei_filter_takeWhile_split (cs : List Nat) (p : Nat → Bool) :
    cs.filter (fun x => !p x) = cs.takeWhile (fun x => !p x) ++
      (cs.drop ((cs.takeWhile (fun x => !p x)).length + 1)).filter (fun x => !p x) := by
  induction cs with
  | nil => simp
  | cons x cs ih =>
    cases hx : p x
    · simp only [List.filter_cons, hx, Bool.not_false, if_true, List.takeWhile_cons,
        List.length_cons, List.drop_succ_cons, List.cons_append]
      rw [ih]
    · simp [hx]

theorem ei_takeWhile_len_le (cs : List Nat) (p : Nat → Bool) :
    (cs.takeWhile (fun x => !p x)).length ≤ cs.length :=
  (List.takeWhile_sublist _).length_le

/-- free `etl::erase_if(c, pred)` = `remove_if` (find_if + compaction loop) followed by `erase(it, end())`:
    leaves `cs` without the characters satisfying `pred` and returns how many were removed. -/
theorem eraseIf_rep {s : Str} {cs : List Nat} (h : Rep s cs) (p : Nat → Bool) :
    ∃ s', s.eraseIf p = .ok (s', cs.length - (cs.filter (fun x => !p x)).length) ∧ s'.cap = s.cap ∧
      Rep s' (cs.filter (fun x => !p x)) := by
  unfold Str.eraseIf
  rw [h.1.size]
  simp only [ok_bind]
  have hle := h.1.le
  have hlen := h.1.len
  rw [ei_findIfLoopP_spec _ _ _ _ (by omega)]
  simp only [ok_bind, Nat.zero_add, List.drop_zero, h.2]
  have hW := ei_takeWhile_len_le cs p
  generalize hw : (cs.takeWhile (fun x => !p x)).length = w at hW
  by_cases hall : w = cs.length
  · -- no character satisfies the predicate
    rw [if_neg (by omega)]
    try simp only [ok_bind]
    have hfil : cs.filter (fun x => !p x) = cs := by
      have := ei_filter_takeWhile_split cs p
      rw [hw, hall, List.drop_of_length_le (by omega)] at this
      have h2 : cs.takeWhile (fun x => !p x) = cs := by
        have hp := List.takeWhile_prefix (fun x => !p x) (l := cs)
        exact hp.eq_of_length (by rw [hw, hall])
      rw [this, h2]; simp
    obtain ⟨s', h1, h2, h3⟩ := eraseRange_rep h w cs.length (by omega) (Nat.le_refl _)
    rw [h1]
    simp only [ok_bind]
    refine ⟨s', by rw [hfil, hall], h2, ?_⟩
    rw [hfil]
    have : Spec.erase cs w (cs.length - w) = cs := by
      unfold Spec.erase; rw [hall]; simp
    rw [this] at h3; exact h3
  · rw [if_pos (by omega)]
    obtain ⟨b', h1, h2, h3, h4⟩ := ei_removeLoopP_spec p (cs.length - w - 1) (w + 1) w s.buf (by omega) (by omega)
    rw [h1]
    simp only [ok_bind]
    -- the part of the buffer the loop filtered
    have hR : (s.buf.drop (w + 1)).take (cs.length - w - 1) = cs.drop (w + 1) := by
      conv => lhs; rw [h.buf_eq]
      rw [List.drop_append_of_le_length (by omega), List.take_append_of_le_length (by simp; omega),
        List.take_of_length_le (by simp; omega)]
    rw [hR] at h3 h1 ⊢
    generalize hF : (cs.drop (w + 1)).filter (fun x => !p x) = F at h3 h1 ⊢
    have hFl : F.length ≤ cs.length - (w + 1) := by
      rw [← hF]; have := (List.filter_sublist (p := (fun x => !p x)) (l := cs.drop (w + 1))).length_le
      simpa using this
    have e4 : w + 1 + (cs.length - w - 1) = cs.length := by omega
    rw [e4] at h4
    -- s1 still has size |cs|
    have hX : (b'.take cs.length).length = cs.length := by simp; omega
    have hb' : b' = b'.take cs.length ++ s.buf.drop cs.length := by
      conv => lhs; rw [← List.take_append_drop cs.length b', h4]
    have hov := h.1.overwrite (b'.take cs.length) hX
    rw [← hb'] at hov
    obtain ⟨s', h5, h6, h7⟩ := eraseRange_rep hov (w + F.length) cs.length (by omega) (by rw [hX])
    rw [h5]
    simp only [ok_bind]
    have hsplit := ei_filter_takeWhile_split cs p
    rw [hw, hF] at hsplit
    have htw : s.buf.take w = cs.takeWhile (fun x => !p x) := by
      conv => lhs; rw [h.buf_eq]
      rw [List.take_append_of_le_length (by omega)]
      have hp := List.takeWhile_prefix (fun x => !p x) (l := cs)
      obtain ⟨t, ht⟩ := hp
      conv => lhs; rw [← ht]
      rw [List.take_left' hw]
    have hres : Spec.erase (b'.take cs.length) (w + F.length) (cs.length - (w + F.length))
        = cs.filter (fun x => !p x) := by
      unfold Spec.erase
      have e : w + F.length + (cs.length - (w + F.length)) = cs.length := by omega
      rw [e, List.drop_of_length_le (by rw [hX]), List.append_nil, List.take_take, Nat.min_eq_left (by omega), h3, htw, hsplit]
    rw [hres] at h7
    refine ⟨s', ?_, h6, h7⟩
    rw [hsplit]
    simp only [List.length_append, hw]

end Tetl.C04
