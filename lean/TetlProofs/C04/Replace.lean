import TetlProofs.C04.L11
namespace Tetl.C04
open Tetl Tetl.C08

/-- the overwrite loop on well-ordered ranges copies `min (l - f) (sl - sf)` units -/
theorem strReplaceLoop_spec (src : Units) : ∀ (fuel f l sf sl : Nat) (b : Units), f ≤ l → sf ≤ sl → l ≤ b.length → sl ≤ src.length →
    fuel > min (l - f) (sl - sf) →
    strReplaceLoop src fuel f l sf sl b
      = .ok (b.take f ++ (src.drop sf).take (min (l - f) (sl - sf)) ++ b.drop (f + min (l - f) (sl - sf))) := by
  intro fuel
  induction fuel with
  | zero => intro f l sf sl b _ _ _ _ h; omega
  | succ n ih =>
    intro f l sf sl b hfl hs hl hsl hfuel
    by_cases hc : f = l ∨ sf = sl
    · have hm : min (l - f) (sl - sf) = 0 := by omega
      simp only [strReplaceLoop, if_pos hc, hm]
      simp
    · have hsi : sf < src.length := by omega
      have hdi : f < b.length := by omega
      have hm : min (l - f) (sl - sf) = min (l - (f + 1)) (sl - (sf + 1)) + 1 := by omega
      simp only [strReplaceLoop, if_neg hc, rd_ok hsi, wr_ok _ hdi, ok_bind]
      rw [ih (f + 1) l (sf + 1) sl (b.set f src[sf]) (by omega) (by omega) (by simp; omega) hsl (by omega), hm]
      generalize min (l - (f + 1)) (sl - (sf + 1)) = k
      rw [take_succ_set _ _ _ hdi, List.drop_set_of_lt (by omega), drop_take_succ _ _ _ hsi]
      have : f + 1 + k = f + (k + 1) := by omega
      rw [this]
      simp

/-- overwriting `[f, f+m)` of the characters by `Y` (`|Y| = m`) keeps size and terminator -/
theorem rp_overwrite {s : Str} {cs : List Nat} (h : Rep s cs) (f m : Nat) (Y : Units) (hY : Y.length = m)
    (hfm : f + m ≤ cs.length) :
    Rep { s with buf := s.buf.take f ++ Y ++ s.buf.drop (f + m) } (cs.take f ++ Y ++ cs.drop (f + m)) := by
  have hb : s.buf.take f ++ Y ++ s.buf.drop (f + m) = (cs.take f ++ Y ++ cs.drop (f + m)) ++ s.buf.drop cs.length := by
    conv => lhs; rw [h.buf_eq]
    rw [List.take_append_of_le_length (by omega), List.drop_append_of_le_length (by omega)]
    simp only [List.append_assoc]
  rw [hb]
  have hX : (cs.take f ++ Y ++ cs.drop (f + m)).length = cs.length := by
    simp [hY]; omega
  exact h.1.overwrite _ hX

/-- what `replace` does: it overwrites the first `min (l - f) (sl - sf)` characters of `[f, l)` and keeps size and terminator -/
theorem replaceCore_rep {s : Str} {cs : List Nat} (h : Rep s cs) (f l : Nat) (arr : Units) (sf sl : Nat)
    (hfl : f ≤ l) (hl : l ≤ cs.length) (hs : sf ≤ sl) (hsl : sl ≤ arr.length) :
    ∃ s', s.replaceCore f l arr sf sl = .ok s' ∧ s'.cap = s.cap ∧
      Rep s' (cs.take f ++ Spec.seg arr sf (min (l - f) (sl - sf)) ++ cs.drop (f + min (l - f) (sl - sf))) := by
  have hle := h.1.le
  have hlen := h.1.len
  unfold Str.replaceCore
  rw [strReplaceLoop_spec arr _ f l sf sl s.buf hfl hs (by omega) hsl (by omega)]
  simp only [ok_bind]
  generalize hm : min (l - f) (sl - sf) = m
  have hY : (Spec.seg arr sf m).length = m := by
    unfold Spec.seg; simp; omega
  exact ⟨_, rfl, rfl, rp_overwrite h f m (Spec.seg arr sf m) hY (by omega)⟩

theorem rp_core_partial {s : Str} {cs : List Nat} (h : Rep s cs) (f count : Nat) (arr : Units) (sf sl : Nat)
    (hl : f + count ≤ cs.length) (hs : sf ≤ sl) (hsl : sl ≤ arr.length) (hlen : sl - sf = count) :
    ∃ s', s.replaceCore f (f + count) arr sf sl = .ok s' ∧ s'.cap = s.cap ∧
      Rep s' (Spec.replace cs f count (Spec.seg arr sf (sl - sf))) := by
  obtain ⟨s', e1, e2, e3⟩ := replaceCore_rep h f (f + count) arr sf sl (by omega) hl hs hsl
  refine ⟨s', e1, e2, ?_⟩
  have hm : min (f + count - f) (sl - sf) = count := by omega
  rw [hm] at e3
  unfold Spec.replace
  rw [hlen, Nat.min_eq_left (by omega)]
  exact e3

theorem replaceA_partial {s : Str} {cs : List Nat} (h : Rep s cs) (pos count : Nat) (arr : Units) (sf sl : Nat)
    (hp : pos ≤ cs.length) (hc : count ≤ cs.length - pos) (hs : sf ≤ sl) (hsl : sl ≤ arr.length) (hlen : sl - sf = count) :
    ∃ s', s.replaceA pos count arr sf sl = .ok s' ∧ s'.cap = s.cap ∧
      Rep s' (Spec.replace cs pos count (Spec.seg arr sf (sl - sf))) := by
  have hle := h.1.le
  have hcap := h.1.capLt
  unfold Str.replaceA
  rw [h.1.size]
  simp only [ok_bind]
  rw [if_neg (by omega)]
  have hmod : (pos + count) % W64 = pos + count := by
    unfold W64 at *
    exact Nat.mod_eq_of_lt (by omega)
  rw [hmod]
  exact rp_core_partial h pos count arr sf sl (by omega) hs hsl hlen

theorem replaceB_partial {s : Str} {cs : List Nat} (h : Rep s cs) (pos count : Nat) (arr : Units) (sf sl : Nat)
    (hp : pos ≤ cs.length) (hc : count ≤ cs.length - pos) (hs : sf ≤ sl) (hsl : sl ≤ arr.length) (hlen : sl - sf = count) :
    ∃ s', s.replaceB pos count arr sf sl = .ok s' ∧ s'.cap = s.cap ∧
      Rep s' (Spec.replace cs pos count (Spec.seg arr sf (sl - sf))) := by
  have hle := h.1.le
  have hcap := h.1.capLt
  unfold Str.replaceB
  rw [h.1.size]
  simp only [ok_bind]
  rw [if_neg (by omega)]
  have hmod : (pos + count) % W64 = pos + count := by
    unfold W64 at *
    exact Nat.mod_eq_of_lt (by omega)
  rw [hmod, Nat.min_eq_left hp, Nat.min_eq_left (by omega)]
  exact rp_core_partial h pos count arr sf sl (by omega) hs hsl hlen

theorem replaceIt_partial {s : Str} {cs : List Nat} (h : Rep s cs) (first last : Nat) (arr : Units) (sf sl : Nat)
    (h1 : first ≤ last) (h2 : last ≤ cs.length) (hs : sf ≤ sl) (hsl : sl ≤ arr.length) (hlen : sl - sf = last - first) :
    ∃ s', s.replaceIt first last arr sf sl = .ok s' ∧ s'.cap = s.cap ∧
      Rep s' (Spec.replace cs first (last - first) (Spec.seg arr sf (sl - sf))) := by
  unfold Str.replaceIt
  rw [h.1.size]
  simp only [ok_bind]
  rw [if_neg (by omega)]
  have := rp_core_partial h first (last - first) arr sf sl (by omega) hs hsl hlen
  rw [show first + (last - first) = last by omega] at this
  exact this

theorem replaceItFill_partial {s : Str} {cs : List Nat} (h : Rep s cs) (first last count2 ch : Nat)
    (h1 : first ≤ last) (h2 : last ≤ cs.length) (hlen : count2 = last - first) :
    ∃ s', s.replaceItFill first last count2 ch = .ok s' ∧ s'.cap = s.cap ∧
      Rep s' (Spec.replace cs first (last - first) (List.replicate count2 ch)) := by
  have hle := h.1.le
  have hbl := h.1.len
  subst hlen
  unfold Str.replaceItFill
  rw [h.1.size]
  simp only [ok_bind]
  rw [if_neg (by omega)]
  have hk : min last (first + (last - first)) - first = last - first := by omega
  simp only [hk]
  rw [fillLoop_spec _ _ _ _ (by omega)]
  simp only [ok_bind]
  refine ⟨_, rfl, rfl, ?_⟩
  unfold Spec.replace
  rw [Nat.min_eq_left (by omega)]
  exact rp_overwrite h first (last - first) _ (by simp) (by omega)

end Tetl.C04
