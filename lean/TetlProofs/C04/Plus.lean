import TetlProofs.C04.L11
namespace Tetl.C04
open Tetl Tetl.C08

/-- `copy(dest, count, pos)` for `pos <= size()`: returns `min(count, size()-pos)` and writes exactly the std substring -/
theorem copyTo_rep {s : Str} {cs : List Nat} (h : Rep s cs) (count pos : Nat) (hp : pos ≤ cs.length) :
    s.copyTo count pos = .ok ((Spec.substr cs pos count).length, Spec.substr cs pos count) := by
  unfold Str.copyTo
  rw [h.1.size]
  simp only [ok_bind]
  rw [if_neg (by omega)]
  have hle := h.1.le
  rw [copyOut_spec s.buf _ _ (by rw [h.1.len]; omega)]
  simp only [ok_bind]
  have hseg := seg_buf h pos count hp
  unfold Spec.seg at hseg
  rw [hseg]
  have hlen : (Spec.substr cs pos count).length = min count (cs.length - pos) := by
    unfold Spec.substr
    rw [List.length_take, List.length_drop]
  rw [hlen]

/-- the buffer of a represented string reads as `cs ++ [0]` on `[0, size()]` -/
theorem pl_buf_get {s : Str} {cs : List Nat} (h : Rep s cs) (i : Nat) (hi : i ≤ cs.length) :
    s.buf[i]? = (cs ++ [0])[i]? := by
  by_cases hlt : i < cs.length
  · rw [List.getElem?_append_left hlt]
    conv => lhs; rw [h.buf_eq]
    rw [List.getElem?_append_left hlt]
  · have he : i = cs.length := by omega
    subst he
    rw [h.1.nul]
    simp

/-- `operator[](i)` for `i <= size()`: the i-th character, the terminator for `i = size()` -/
theorem at_rep {s : Str} {cs : List Nat} (h : Rep s cs) (i : Nat) (hi : i ≤ cs.length) :
    s.at i = .ok ((cs ++ [0])[i]'(by simp; omega)) := by
  unfold Str.at
  rw [h.1.size]
  simp only [ok_bind]
  rw [if_neg (by omega)]
  apply rd_ok'
  rw [pl_buf_get h i hi]
  exact List.getElem?_eq_getElem _

theorem front_rep {s : Str} {cs : List Nat} (h : Rep s cs) (hne : cs ≠ []) : s.front = .ok (cs.head hne) := by
  unfold Str.front
  rw [h.1.size]
  simp only [ok_bind]
  have hpos : 0 < cs.length := List.length_pos_iff.mpr hne
  rw [if_neg (by omega)]
  apply rd_ok'
  rw [pl_buf_get h 0 (by omega), List.getElem?_append_left hpos]
  cases cs with
  | nil => exact absurd rfl hne
  | cons x xs => rfl

theorem back_rep {s : Str} {cs : List Nat} (h : Rep s cs) (hne : cs ≠ []) : s.back = .ok (cs.getLast hne) := by
  unfold Str.back
  rw [h.1.size]
  simp only [ok_bind]
  have hpos : 0 < cs.length := List.length_pos_iff.mpr hne
  rw [if_neg (by omega)]
  apply rd_ok'
  rw [pl_buf_get h (cs.length - 1) (by omega), List.getElem?_append_left (by omega)]
  rw [List.getLast_eq_getElem]
  exact List.getElem?_eq_getElem _

theorem plusStrStr_rep {a b : Str} {ca cb : List Nat} (ha : Rep a ca) (hb : Rep b cb) :
    ∃ r, plusStrStr a b = .ok r ∧ r.cap = a.cap ∧ Rep r (ca ++ cb.take (a.cap - ca.length)) := by
  unfold plusStrStr
  obtain ⟨src, h1, h2, h3⟩ := arg_agree hb .str cb rfl
  rw [h1]
  simp only [ok_bind]
  have := appendRange_rep src.arr src.len src.off ha h2
  rw [h3] at this
  exact this

theorem plusStrCstr_rep {a : Str} {ca : List Nat} (ha : Rep a ca) (z : Units) :
    ∃ r, plusStrCstr a z = .ok r ∧ r.cap = a.cap ∧ Rep r (ca ++ (z.takeWhile (· ≠ 0)).take (a.cap - ca.length)) := by
  unfold plusStrCstr
  obtain ⟨src, h1, h2, h3⟩ := arg_agree ha (.cstr z) (z.takeWhile (· ≠ 0)) rfl
  rw [h1]
  simp only [ok_bind]
  have := appendPtrN_rep ha src h2
  rw [h3] at this
  exact this

theorem plusStrCh_rep {a : Str} {ca : List Nat} (ha : Rep a ca) (c : Nat) :
    ∃ r, plusStrCh a c = .ok r ∧ r.cap = a.cap ∧ Rep r (ca ++ List.replicate (min 1 (a.cap - ca.length)) c) := by
  unfold plusStrCh
  exact appendFill_rep ha 1 c

theorem plusCstrStr_rep {b : Str} {cb : List Nat} (hb : Rep b cb) (z : Units) (hz : (z.takeWhile (· ≠ 0)).length ≤ b.cap) :
    ∃ r, plusCstrStr z b = .ok r ∧ r.cap = b.cap ∧
      Rep r (z.takeWhile (· ≠ 0) ++ cb.take (b.cap - (z.takeWhile (· ≠ 0)).length)) := by
  unfold plusCstrStr
  obtain ⟨src, h1, h2, h3⟩ := arg_agree hb (.cstr z) (z.takeWhile (· ≠ 0)) rfl
  rw [h1]
  simp only [ok_bind]
  have hlen : src.len ≤ b.cap := by
    have hl : (Spec.seg src.arr src.off src.len).length = src.len := by
      unfold Spec.seg
      rw [List.length_take, List.length_drop]
      omega
    rw [h3] at hl
    omega
  obtain ⟨t, ht1, ht2, ht3⟩ := ctorPtrLen_rep b.cap hb.1.capLt src.arr src.off src.len hlen h2
  rw [h3] at ht3
  rw [ht1]
  simp only [ok_bind]
  obtain ⟨r, hr1, hr2, hr3⟩ := arg_agree hb .str cb rfl
  rw [hr1]
  simp only [ok_bind]
  have := appendRange_rep r.arr r.len r.off ht3 hr2
  rw [hr3, ht2] at this
  exact this

theorem plusChStr_rep {b : Str} {cb : List Nat} (hb : Rep b cb) (c : Nat) (h1 : 1 ≤ b.cap) :
    ∃ r, plusChStr c b = .ok r ∧ r.cap = b.cap ∧ Rep r ([c] ++ cb.take (b.cap - 1)) := by
  unfold plusChStr
  obtain ⟨t, ht1, ht2, ht3⟩ := ctorFill_rep b.cap hb.1.capLt 1 c h1
  rw [ht1]
  simp only [ok_bind]
  obtain ⟨r, hr1, hr2, hr3⟩ := arg_agree hb .str cb rfl
  rw [hr1]
  simp only [ok_bind]
  have := appendRange_rep r.arr r.len r.off ht3 hr2
  rw [hr3, ht2] at this
  exact this

end Tetl.C04
