import TetlProofs.C04.L3
namespace Tetl.C04
open Tetl Tetl.C08

/-- `s` represents the std string `cs`: a well-formed object whose first `|cs|` units are `cs` -/
def Rep (s : Str) (cs : List Nat) : Prop := Inv s cs.length ∧ s.buf.take cs.length = cs

theorem Rep.buf_eq {s : Str} {cs : List Nat} (h : Rep s cs) : s.buf = cs ++ s.buf.drop cs.length := by
  conv => lhs; rw [← List.take_append_drop cs.length s.buf, h.2]

/-- every size-changing member ends in `unsafe_set_size`: if the buffer `b1` already holds `cs'` in front,
    the result represents `cs'` -/
theorem finish (s : Str) (b1 : Units) (cs' : List Nat) (hc : s.cap < W64) (hb : b1.length = s.cap + 1)
    (hle : cs'.length ≤ s.cap) (htake : b1.take cs'.length = cs') :
    ∃ s', ({ s with buf := b1 } : Str).unsafeSetSize cs'.length = .ok s' ∧ s'.cap = s.cap ∧ Rep s' cs' := by
  obtain ⟨s', h1, h2, h3, h4⟩ := unsafeSetSize_spec { s with buf := b1 } hc hb cs'.length hle
  exact ⟨s', h1, h3, h2, by rw [h4]; exact htake⟩

/-- overwriting the first `n` units of a well-formed object of size `n` keeps size and terminator -/
theorem Inv.overwrite {s : Str} {n : Nat} (h : Inv s n) (X : Units) (hX : X.length = n) :
    Rep { s with buf := X ++ s.buf.drop n } X := by
  have hlen : (X ++ s.buf.drop n).length = s.cap + 1 := by
    have := h.le
    simp [hX, h.len] <;> omega
  refine ⟨⟨h.capLt, hlen, ?_, by rw [hX]; exact h.le, ?_⟩, by simp [hX]⟩
  · have hs := h.size
    unfold Str.size at hs ⊢
    by_cases ht : isTiny s.cap = true
    · simp only [ht, if_true] at hs ⊢
      have hidx : (X ++ s.buf.drop n)[s.cap]? = s.buf[s.cap]? := by
        rw [List.getElem?_append_right (by rw [hX]; exact h.le)]
        simp [hX]
        congr 1
        have := h.le
        omega
      unfold rd at hs ⊢
      rw [hidx, hX]
      exact hs
    · simp only [ht] at hs ⊢
      rw [hX]; exact hs
  · rw [hX, List.getElem?_append_right (by rw [hX])]
    simp [hX]
    exact h.nul

theorem Rep.len_le {s : Str} {cs : List Nat} (h : Rep s cs) : cs.length ≤ s.cap := h.1.le

/-! ### appending members -/

theorem appendFill_rep {s : Str} {cs : List Nat} (h : Rep s cs) (count ch : Nat) :
    ∃ s', s.appendFill count ch = .ok s' ∧ s'.cap = s.cap ∧
      Rep s' (cs ++ List.replicate (min count (s.cap - cs.length)) ch) := by
  unfold Str.appendFill
  rw [h.1.size]
  simp only [ok_bind]
  have hle := h.1.le
  have hk : cs.length + min count (s.cap - cs.length) - cs.length = min count (s.cap - cs.length) := by omega
  rw [hk, fillLoop_spec _ _ _ _ (by rw [h.1.len]; omega)]
  simp only [ok_bind]
  have := finish s (s.buf.take cs.length ++ List.replicate (min count (s.cap - cs.length)) ch ++
      s.buf.drop (cs.length + min count (s.cap - cs.length))) (cs ++ List.replicate (min count (s.cap - cs.length)) ch)
    h.1.capLt (by simp [h.1.len]; omega) (by simp; omega)
    (by rw [h.2]; exact List.take_left' rfl)
  simpa using this

theorem appendPtrN_rep {s : Str} {cs : List Nat} (h : Rep s cs) (a : Src) (ha : a.off + a.len ≤ a.arr.length) :
    ∃ s', s.appendPtrN a = .ok s' ∧ s'.cap = s.cap ∧
      Rep s' (cs ++ (Spec.seg a.arr a.off a.len).take (s.cap - cs.length)) := by
  unfold Str.appendPtrN
  rw [h.1.size]
  simp only [ok_bind]
  have hle := h.1.le
  rw [copyLoop_spec _ _ _ _ _ (by omega) (by rw [h.1.len]; omega)]
  simp only [ok_bind]
  have hseg : (Spec.seg a.arr a.off a.len).take (s.cap - cs.length) = (a.arr.drop a.off).take (min a.len (s.cap - cs.length)) := by
    unfold Spec.seg
    rw [List.take_take, Nat.min_comm]
  have hl : ((a.arr.drop a.off).take (min a.len (s.cap - cs.length))).length = min a.len (s.cap - cs.length) := by
    simp; omega
  rw [hseg]
  have := finish s (s.buf.take cs.length ++ (a.arr.drop a.off).take (min a.len (s.cap - cs.length)) ++
      s.buf.drop (cs.length + min a.len (s.cap - cs.length))) (cs ++ (a.arr.drop a.off).take (min a.len (s.cap - cs.length)))
    h.1.capLt (by simp only [List.length_append, hl]; simp [h.1.len]; omega) (by simp only [List.length_append, hl]; omega)
    (by rw [h.2]; exact List.take_left' rfl)
  simp only [List.length_append, hl] at this
  exact this

theorem popBack_rep {s : Str} {cs : List Nat} (h : Rep s cs) (hne : cs.length > 0) :
    ∃ s', s.popBack = .ok s' ∧ s'.cap = s.cap ∧ Rep s' (cs.take (cs.length - 1)) := by
  unfold Str.popBack
  rw [h.1.size]
  simp only [ok_bind]
  rw [if_neg (by omega)]
  have hle := h.1.le
  have := finish s s.buf (cs.take (cs.length - 1)) h.1.capLt h.1.len (by simp <;> omega)
    (by have e : (cs.take (cs.length - 1)).length = cs.length - 1 := by simp
        rw [e]
        conv => lhs; rw [h.buf_eq]
        rw [List.take_append_of_le_length (by omega)])
  simpa [Nat.min_eq_left (Nat.sub_le _ _)] using this

theorem clear_rep {s : Str} {cs : List Nat} (h : Rep s cs) :
    ∃ s', s.clear = .ok s' ∧ s'.cap = s.cap ∧ Rep s' [] := by
  unfold Str.clear
  rw [wr_ok _ (by rw [h.1.len]; omega)]
  simp only [ok_bind]
  have := finish s (s.buf.set 0 0) [] h.1.capLt (by simp [h.1.len]) (by simp) (by simp)
  simpa using this

end Tetl.C04
