/- C04 helper lemmas: L1 unsafe_set_size, L2 loops (fill/copy/swap_ranges), L3 rotate (needs Mathlib.Data.List.Rotate),
   L4–L7 one lemma per member (`…_rep`), L8 the clamped semantics and `fits → clamped = std`, L9 the compare clamps, L10 overload resolution (C-string length, sub-views, substr), L11 etl::erase(c, value).
   Further groups, imported by Props.lean directly: Search (views + guards of the search members), Plus (copy, element access, operator+),
   EraseIf (etl::erase_if), Alias (self-aliasing arguments). -/
import TetlProofs.C04.L8
import TetlProofs.C04.L9
import TetlProofs.C04.L10
import TetlProofs.C04.L11
