import Tetl.C04.Model
import Tetl.C04.Spec
import TetlProofs.C08.Lemmas
namespace Tetl.C04
open Tetl

end Tetl.C04
