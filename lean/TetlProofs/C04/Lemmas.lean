/- C04 helper lemmas: L1 unsafe_set_size, L2 loops (fill/copy/swap_ranges), L3 rotate (needs Mathlib.Data.List.Rotate),
   L4–L7 one lemma per member (`…_rep`), L8 the clamped semantics and `fits → clamped = std`, L9 the compare clamps. -/
import TetlProofs.C04.L8
import TetlProofs.C04.L9
