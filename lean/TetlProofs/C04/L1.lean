import Tetl.C04.Model
import Tetl.C04.Spec
import TetlProofs.C08.Lemmas
namespace Tetl.C04
open Tetl Tetl.C08

theorem wr_ok {α} {b : List α} {i : Nat} (x : α) (h : i < b.length) : wr b i x = .ok (b.set i x) := by
  simp [wr, h]

theorem rd_ok' {α} {l : List α} {i : Nat} {x : α} (h : l[i]? = some x) : rd l i = .ok x := by
  simp [rd, h]

/-- `s` is a well-formed string object holding `n` characters: the buffer has `Capacity+1` units, `size()` reads `n`,
    `n <= Capacity`, and the unit at index `n` is the terminator. -/
structure Inv (s : Str) (n : Nat) : Prop where
  capLt : s.cap < W64
  len : s.buf.length = s.cap + 1
  size : s.size = .ok n
  le : n ≤ s.cap
  nul : s.buf[n]? = some 0

/-- the abstraction: the characters of the string -/
def Str.abs (s : Str) (n : Nat) : List Nat := s.buf.take n

theorem sizeBits_lt (cap n : Nat) (hc : cap < W64) (hn : n ≤ cap) : n % 2 ^ sizeBits cap = n := by
  apply Nat.mod_eq_of_lt
  unfold sizeBits
  unfold W64 at hc
  split
  · omega
  · split
    · omega
    · split <;> omega

theorem sizeDecode (cap b : Nat) (hc : cap < W64) (hb : b ≤ cap) : (cap + W64 - b % W64) % W64 = cap - b := by
  have hb' : b % W64 = b := Nat.mod_eq_of_lt (by omega)
  rw [hb']
  have : cap + W64 - b = (cap - b) + W64 := by omega
  rw [this, Nat.add_mod_right]
  exact Nat.mod_eq_of_lt (by omega)

theorem unsafeSetSize_spec (s : Str) (hc : s.cap < W64) (hl : s.buf.length = s.cap + 1) (n : Nat) (hn : n ≤ s.cap) :
    ∃ s', s.unsafeSetSize n = .ok s' ∧ Inv s' n ∧ s'.cap = s.cap ∧ s'.buf.take n = s.buf.take n := by
  unfold Str.unsafeSetSize
  have hn' : ¬ n > s.cap := by omega
  rw [if_neg hn']
  unfold Str.setSizeField
  by_cases ht : isTiny s.cap = true
  · rw [if_pos ht]
    have h1 : s.cap < s.buf.length := by omega
    rw [wr_ok _ h1]
    simp only [ok_bind]
    have h2 : n < (s.buf.set s.cap (s.cap - n)).length := by simp; omega
    rw [wr_ok _ h2]
    simp only [ok_bind]
    refine ⟨_, rfl, ⟨hc, by simp [hl], ?_, hn, ?_⟩, rfl, ?_⟩
    · unfold Str.size
      simp only [ht, if_true]
      by_cases hcn : n = s.cap
      · subst hcn
        have : ((s.buf.set s.cap (s.cap - s.cap)).set s.cap 0)[s.cap]? = some 0 := by
          simp [List.getElem?_set, h1]
        rw [rd_ok' this]
        simp only [ok_bind]
        rw [sizeDecode _ _ hc (by omega)]
        simp
      · have : ((s.buf.set s.cap (s.cap - n)).set n 0)[s.cap]? = some (s.cap - n) := by
          rw [List.getElem?_set_ne (by omega)]
          simp [h1]
        rw [rd_ok' this]
        simp only [ok_bind]
        rw [sizeDecode _ _ hc (by omega)]
        congr 1
        omega
    · have : n < s.buf.length := by omega
      simp [List.getElem?_set, this]
    · simp only []
      rw [List.take_set_of_le (by omega), List.take_set_of_le (by omega)]
  · rw [if_neg ht]
    simp only [ok_bind]
    have h2 : n < s.buf.length := by omega
    rw [wr_ok _ h2]
    simp only [ok_bind]
    refine ⟨_, rfl, ⟨hc, by simp [hl], ?_, hn, ?_⟩, rfl, ?_⟩
    · unfold Str.size
      simp only [ht]
      simp [sizeBits_lt s.cap n hc hn]
    · simp [List.getElem?_set, h2]
    · simp only []
      rw [List.take_set_of_le (by omega)]

end Tetl.C04
