/- C04 helper lemmas for the search members: the view of the receiver and of the argument, the wrap-around guard of
   `etl::strings::find`, the `pos < size()` guard of `find_first_of`, and the `Char` overload selection. -/
import TetlProofs.C04.L11
import TetlProofs.C08.Props
namespace Tetl.C04
open Tetl Tetl.C08

/-- the view `(data(), size())` handed to every search/compare member is exactly the contents -/
theorem chars_rep {s : Str} {cs : List Nat} (h : Rep s cs) : s.chars = .ok cs := by
  unfold Str.chars
  rw [h.1.size]
  simp only [ok_bind]
  rw [if_neg (by rw [h.1.len]; have := h.1.le; omega), h.2]

/-- the view an overload builds from its argument holds exactly the characters the argument denotes -/
theorem units_rep {o : Str} {co : List Nat} (ho : Rep o co) (a : Arg) (d : List Nat) (hd : a.den co = some d) :
    a.units o = .ok d := by
  obtain ⟨src, h1, _, h3⟩ := arg_agree ho a d hd
  unfold Arg.units
  rw [h1]
  simp only [ok_bind, h3]

theorem den_ch {co : List Nat} {c : Nat} {d : List Nat} (hd : (Arg.ch c).den co = some d) : d = [c] := by
  simp only [Arg.den, Option.some.injEq] at hd
  exact hd.symm

/-- `etl::strings::find`: the guard `pos <= haystack.size() - needle.size()` wraps for a needle longer than the
    haystack; the delegated `basic_string_view::find` re-checks, so the result is the std one all the same. -/
theorem stringsFind_eq (h n : Units) (pos : Nat) (hl : h.length < W64) :
    stringsFind h n pos = .ok (C08.Spec.find h n pos) := by
  unfold stringsFind
  have hf := C08.Props.find_eq h n pos
  by_cases h1 : n.length = 0 ∧ pos ≤ h.length
  · rw [if_pos h1]
    have hn : n = [] := List.length_eq_zero_iff.mp h1.1
    subst hn
    rw [← hf]
    unfold C08.find
    simp
    exact h1.2
  · rw [if_neg h1]
    by_cases h2 : pos ≤ (h.length + W64 - n.length) % W64
    · rw [if_pos h2]; exact hf
    · rw [if_neg h2, ← hf]
      unfold C08.find
      have : (decide (pos > h.length) || decide (n.length > h.length - pos)) = true := by
        simp only [Bool.or_eq_true, decide_eq_true_eq]
        unfold W64 at h2 hl
        by_cases h3 : n.length ≤ h.length
        · have e : (h.length + 18446744073709551616 - n.length) % 18446744073709551616 = h.length - n.length := by
            have : h.length + 18446744073709551616 - n.length = (h.length - n.length) + 18446744073709551616 := by omega
            rw [this, Nat.add_mod_right]
            exact Nat.mod_eq_of_lt (by omega)
          rw [e] at h2
          omega
        · omega
      rw [if_pos this]

/-- `find_first_of(s, pos, count)`: the extra guard `pos < size()` only short-cuts an empty search range -/
theorem findFirstOf_guard_eq (h n : Units) (pos : Nat) :
    C04.findFirstOf h n pos = .ok (C08.Spec.findFirstOf h n pos) := by
  unfold C04.findFirstOf
  split
  · exact C08.Props.find_first_of_eq h n pos
  · have : h.length - pos = 0 := by omega
    simp [C08.Spec.findFirstOf, this]

end Tetl.C04
