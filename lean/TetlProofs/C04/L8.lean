import TetlProofs.C04.L7
namespace Tetl.C04
open Tetl Tetl.C08

/-- What basic_inplace_string documents for results that do not fit: appending members append as much as fits
    (`min(count, capacity() - size())`), everything else is `Spec.step`. -/
def Spec.stepClamped (cap : Nat) (l : Spec.Str) : Op → Spec.Str
  | .assignPtr arr off len => Spec.seg arr off len
  | .assignFill count ch => List.replicate count ch
  | .clear => []
  | .pushBack ch => l ++ List.replicate (min 1 (cap - l.length)) ch
  | .popBack => l.take (l.length - 1)
  | .appendFill count ch => l ++ List.replicate (min count (cap - l.length)) ch
  | .appendPtrN arr off len => l ++ (Spec.seg arr off len).take (cap - l.length)
  | .appendRange arr off len => l ++ (Spec.seg arr off len).take (cap - l.length)
  | .insertImpl index arr off len => Spec.insert l index ((Spec.seg arr off len).take (cap - l.length))
  | .insertFill index count ch => Spec.insert l index (List.replicate (min count (cap - l.length)) ch)
  | .eraseIdx index count => Spec.erase l index (min count (l.length - index))
  | .eraseIt pos => Spec.erase l pos 1
  | .eraseRange first last => Spec.erase l first (last - first)
  | .resize count ch =>
    if count ≤ l.length then l.take count else l ++ List.replicate (min (count - l.length) (cap - l.length)) ch
  | .eraseValue v => l.filter (· ≠ v)

theorem insert_length (l : Spec.Str) (p : Nat) (xs : Spec.Str) : (Spec.insert l p xs).length = l.length + xs.length := by
  unfold Spec.insert
  simp only [List.length_append, List.length_take, List.length_drop]
  omega

/-- when the std result fits, the clamped behaviour *is* the std behaviour -/
theorem stepClamped_of_fits (cap : Nat) (l : Spec.Str) (op : Op) (hf : Spec.fits cap l op = true) :
    Spec.stepClamped cap l op = (Spec.step l op).1 := by
  have hf' : (Spec.step l op).1.length ≤ cap := of_decide_eq_true hf
  clear hf
  rename' hf' => hf
  cases op <;> simp only [Spec.step, Spec.stepClamped] at hf ⊢
  case pushBack ch =>
    simp only [List.length_append, List.length_singleton] at hf
    have : min 1 (cap - l.length) = 1 := by omega
    rw [this]; rfl
  case appendFill count ch =>
    simp only [List.length_append, List.length_replicate] at hf
    have : min count (cap - l.length) = count := by omega
    rw [this]
  case appendPtrN arr off len =>
    simp only [List.length_append] at hf
    rw [List.take_of_length_le (by omega)]
  case appendRange arr off len =>
    simp only [List.length_append] at hf
    rw [List.take_of_length_le (by omega)]
  case insertImpl index arr off len =>
    rw [insert_length] at hf
    rw [List.take_of_length_le (by omega)]
  case insertFill index count ch =>
    rw [insert_length, List.length_replicate] at hf
    have : min count (cap - l.length) = count := by omega
    rw [this]
  case resize count ch =>
    unfold Spec.resize at hf ⊢
    split
    · rfl
    · rename_i hc
      rw [if_neg hc] at hf
      simp only [List.length_append, List.length_replicate] at hf
      have : min (count - l.length) (cap - l.length) = count - l.length := by omega
      rw [this]

end Tetl.C04
