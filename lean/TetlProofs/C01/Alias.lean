/-
C01 — arguments that refer to an element of the vector itself (`Arg`, Model.lean): the `…A` members with a value that
lives outside the vector are the plain members; with element `i` of the vector they return what the plain member
returns for a copy of that element taken before the call.  `assign(n, v[i])` reads a destroyed element.
-/
import TetlProofs.C01.Members2
namespace Tetl.C01
open Tetl

/-! ### a value outside the vector: the plain members -/

theorem emplaceBackA_val (cap : Nat) (d : V) (x : Nat) : emplaceBackA cap d (.val x) = emplaceBack cap d x := by
  unfold emplaceBackA emplaceBack
  split <;> rfl

theorem pushBackA_val (cap : Nat) (d : V) (x : Nat) : pushBackA cap d (.val x) = pushBack cap d x := by
  unfold pushBackA pushBack
  rw [emplaceBackA_val]

theorem pushNA_val (cap x : Nat) : ∀ (n : Nat) (d : V), pushNA cap d (.val x) n = pushN cap d x n := by
  intro n
  induction n with
  | zero => intro d; rfl
  | succ n ih =>
    intro d
    unfold pushNA pushN
    rw [pushBackA_val]
    cases pushBack cap d x with
    | error e => rfl
    | ok d1 => simp only [ok_bind]; exact ih d1

theorem insertFillA_val (cap : Nat) (d : V) (pos n x : Nat) :
    insertFillA cap d pos n (.val x) = insertFill cap d pos n x := by
  unfold insertFillA insertFill
  rw [pushNA_val]

theorem insertCrefA_val (cap : Nat) (d : V) (pos x : Nat) : insertCrefA cap d pos (.val x) = insertCref cap d pos x := by
  unfold insertCrefA insertCref
  rw [insertFillA_val]

theorem emplaceA_val (cap : Nat) (d : V) (pos x : Nat) : emplaceA cap d pos (.val x) = insertRv cap d pos x := by
  unfold emplaceA insertRv
  rfl

theorem resizeValA_val (cap : Nat) (d : V) (sz x : Nat) : resizeValA cap d sz (.val x) = resizeVal cap d sz x := by
  unfold resizeValA resizeVal
  rw [insertFillA_val]

theorem assignFillA_val (cap : Nat) (d : V) (n x : Nat) : assignFillA cap d n (.val x) = assignFill cap d n x := by
  unfold assignFillA assignFill
  split
  · rfl
  · cases clear cap d with
    | error e => rfl
    | ok d0 => simp only [ok_bind]; rw [insertFillA_val]

/-! ### element `i` of the vector itself -/

theorem rdArg_elem {d : V} {i : Nat} (h : i < d.length) : rdArg d (.elem i) = .ok d[i] := rd_ok h

theorem emplaceBackA_elem {cap : Nat} {d : V} {i : Nat} (hc : cap < 2 ^ 64) (h : d.length < cap) (hi : i < d.length) :
    emplaceBackA cap d (.elem i) = .ok (d ++ [d[i]]) := by
  unfold emplaceBackA
  have h1 : ¬ d.length = cap := by omega
  simp [h1, rdArg_elem hi, setSize_ok hc (show d.length + 1 ≤ cap by omega)]

theorem pushBackA_elem {cap : Nat} {d : V} {i : Nat} (hc : cap < 2 ^ 64) (h : d.length < cap) (hi : i < d.length) :
    pushBackA cap d (.elem i) = .ok (d ++ [d[i]]) := by
  unfold pushBackA
  have h1 : ¬ d.length = cap := by omega
  simp [h1, emplaceBackA_elem hc h hi]

/-- appending never touches element `i`: every one of the `n` reads through the reference sees the original value -/
theorem pushNA_elem {cap : Nat} (hc : cap < 2 ^ 64) (i : Nat) :
    ∀ (n : Nat) (d : V) (hi : i < d.length), d.length + n ≤ cap →
      pushNA cap d (.elem i) n = .ok (d ++ List.replicate n d[i]) := by
  intro n
  induction n with
  | zero => intro d _ _; simp [pushNA]
  | succ n ih =>
    intro d hi h
    unfold pushNA
    rw [pushBackA_elem hc (by omega) hi]
    simp only [ok_bind]
    have hi' : i < (d ++ [d[i]]).length := by simp; omega
    rw [ih (d ++ [d[i]]) hi' (by simp; omega)]
    have e : (d ++ [d[i]])[i] = d[i] := List.getElem_append_left hi
    rw [e]
    simp [List.replicate_succ]

theorem insertFillA_elem {cap : Nat} (d : V) (pos n i : Nat) (hc : cap < 2 ^ 64)
    (hp : pos ≤ d.length) (hn : d.length + n ≤ cap) (hi : i < d.length) :
    insertFillA cap d pos n (.elem i) = .ok (Spec.insertAt d pos (List.replicate n d[i]), pos) := by
  unfold insertFillA
  rw [if_neg (by omega), if_neg (by omega), pushNA_elem hc i n d hi hn]
  simp only [ok_bind]
  rw [rotate_insert d pos _ hp]
  simp [Spec.insertAt]

theorem insertCrefA_elem {cap : Nat} (d : V) (pos i : Nat) (hc : cap < 2 ^ 64)
    (hp : pos ≤ d.length) (hn : d.length < cap) (hi : i < d.length) :
    insertCrefA cap d pos (.elem i) = .ok (Spec.insertAt d pos [d[i]], pos) := by
  unfold insertCrefA
  rw [if_neg (by omega), if_neg (by omega), insertFillA_elem d pos 1 i hc hp (by omega) hi]
  simp

theorem emplaceA_elem {cap : Nat} (d : V) (pos i : Nat) (hc : cap < 2 ^ 64)
    (hp : pos ≤ d.length) (hn : d.length < cap) (hi : i < d.length) :
    emplaceA cap d pos (.elem i) = .ok (Spec.insertAt d pos [d[i]], pos) := by
  unfold emplaceA
  rw [if_neg (by omega), if_neg (by omega), rdArg_elem hi]
  simp only [ok_bind]
  exact moveInsert_eq d pos [d[i]] hc hp (by simp; omega)

theorem resizeValA_elem {cap : Nat} (d : V) (n i : Nat) (hc : cap < 2 ^ 64) (hcap : d.length ≤ cap) (hn : n ≤ cap)
    (hi : i < d.length) : resizeValA cap d n (.elem i) = .ok (Spec.resize d n d[i]) := by
  unfold resizeValA Spec.resize
  by_cases h1 : n = d.length
  · subst h1; simp
  · rw [if_neg h1]
    by_cases h2 : n > d.length
    · rw [if_pos h2, if_neg (by omega), insertFillA_elem d d.length (n - d.length) i hc (by omega) (by omega) hi]
      simp only [ok_bind, Spec.insertAt]
      rw [List.take_of_length_le (Nat.le_of_lt h2)]
      simp
    · rw [if_neg h2, eraseRange_eq d _ _ hc hcap (by omega) (by omega)]
      simp only [ok_bind, Spec.eraseRange]
      have : d.length - (d.length - n) = n := by omega
      rw [this]
      have h0 : n - d.length = 0 := by omega
      simp [h0]

theorem pushTop_eq {cap : Nat} (d : V) (e : Bool) (hc : cap < 2 ^ 64) (h : d.length < cap) (h0 : 0 < d.length) :
    pushTop cap d e = .ok (d ++ [d[d.length - 1]]) := by
  unfold pushTop
  have hne : d.isEmpty = false := by cases d <;> simp_all
  rw [hne]
  simp only [Bool.false_eq_true, if_false]
  cases e
  · simp only [Bool.false_eq_true, if_false]; exact pushBackA_elem hc h (by omega)
  · simp only [if_true]; exact emplaceBackA_elem hc h (by omega)

/-- `assign(n, v[i])`, `n > 0`: `clear()` has destroyed every element when `insert` reads the argument -/
theorem assignFillA_elem_oob {cap : Nat} (d : V) (n i : Nat) (hc : cap < 2 ^ 64) (hn : n ≤ cap) (h0 : 0 < n) :
    assignFillA cap d n (.elem i) = .error .oob := by
  unfold assignFillA
  rw [if_neg (by omega), clear_eq d hc]
  simp only [ok_bind]
  unfold insertFillA
  rw [if_neg (by simp), if_neg (by simp; omega)]
  obtain ⟨m, rfl⟩ : ∃ m, n = m + 1 := ⟨n - 1, by omega⟩
  have hcap : ¬ (0 = cap) := by omega
  simp [pushNA, pushBackA, emplaceBackA, rdArg, rd, hcap]

/-! ### inplace_vector -/

theorem ipvUncheckedA_val (cap : Nat) (d : V) (x : Nat) : ipvUncheckedA cap d (.val x) = ipvUnchecked cap d x := by
  unfold ipvUncheckedA ipvUnchecked
  rfl

theorem ipvTryA_val (cap : Nat) (d : V) (x : Nat) : ipvTryA cap d (.val x) = ipvTry cap d x := by
  unfold ipvTryA ipvTry
  rw [ipvUncheckedA_val]

theorem back_append' (d : V) (x : Nat) : back (d ++ [x]) = .ok x := by
  unfold back
  have h : (d ++ [x]).isEmpty = false := by cases d <;> rfl
  rw [h]
  simp only [Bool.false_eq_true, if_false]
  have hl : (d ++ [x]).length - 1 = d.length := by simp
  rw [hl]
  exact rd_append_mid d x []

theorem ipvUncheckedA_elem {cap : Nat} (d : V) (i : Nat) (hc : cap < 2 ^ 64) (h : d.length < cap) (hi : i < d.length) :
    ipvUncheckedA cap d (.elem i) = .ok (d ++ [d[i]], d[i]) := by
  unfold ipvUncheckedA
  rw [if_neg (by omega), rdArg_elem hi]
  simp only [ok_bind]
  rw [setSize_ok hc (by omega)]
  simp only [ok_bind]
  rw [back_append']
  rfl

theorem ipvTryA_elem {cap : Nat} (d : V) (i : Nat) (hc : cap < 2 ^ 64) (h : d.length ≤ cap) (hi : i < d.length) :
    ipvTryA cap d (.elem i) = .ok (if d.length = cap then (d, none) else (d ++ [d[i]], some d[i])) := by
  unfold ipvTryA
  split
  · rfl
  · rw [ipvUncheckedA_elem d i hc (by omega) hi]
    rfl

/-- (for contrast only, used in a sensitivity example of Props.lean) a single-element fast path of `insert(pos, x)`:
    move the tail `[pos, end)` up by one slot, then assign `x` into the gap — `x` is read *after* the shift -/
def insertShiftLate (d : V) (pos : Nat) (a : Arg) : Except Err V := do
  let shifted := d.take (pos + 1) ++ d.drop pos
  let x ← rdArg shifted a
  wr shifted pos x

end Tetl.C01
