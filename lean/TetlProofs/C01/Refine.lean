/-
C01 — one step of the system refines the spec (helper statements for Props.lean).
-/
import TetlProofs.C01.History
namespace Tetl.C01
open Tetl

/-- the conclusion of the step theorem -/
def StepOk (s : Sys) (sp : Spec.SSys) (k : Nat) (op : Op) : Prop :=
  ∃ s' o, step s k op = .ok (s', o) ∧ Inv s' ∧ s'.ty = s.ty ∧ s'.cap = s.cap ∧ s'.kind = s.kind
    ∧ s'.objs.length = s.objs.length
    ∧ Rel s' (Spec.step sp k op).1 ∧ (∀ o', (Spec.step sp k op).2 = some o' → o = o')

theorem getElem?_of_lt {s : Sys} {k : Nat} (hk : k < s.objs.length) : ∃ d, s.objs[k]? = some d :=
  ⟨s.objs[k], by simp [hk]⟩

theorem rd_of_get {s : Sys} {k : Nat} {d : V} (h : s.objs[k]? = some d) : rd s.objs k = .ok d := by
  simp [rd, h]

theorem Inv.get {s : Sys} (h : Inv s) {k : Nat} {d : V} (hd : s.objs[k]? = some d) : d.length ≤ s.cap :=
  h.2 d (List.mem_of_getElem? hd)

theorem step_refines_unary (s : Sys) (sp : Spec.SSys) (k : Nat) (op : Op) (hb : isBinary op = none)
    (hinv : Inv s) (hrel : Rel s sp) (hv : valid s k op = true) : StepOk s sp k op := by
  rw [valid_unary s k op hb] at hv
  simp only [Bool.and_eq_true, decide_eq_true_eq] at hv
  obtain ⟨⟨hs, hk⟩, hv1⟩ := hv
  obtain ⟨d, hd⟩ := getElem?_of_lt hk
  rw [hd] at hv1
  simp only at hv1
  have hdcap := hinv.get hd
  have hstep : (if s.ty = .ipv then step1Ipv s.cap op d else step1 s.cap s.kind op d) = .ok (Spec.apply1 s.cap op d)
      ∧ (Spec.apply1 s.cap op d).1.length ≤ s.cap := by
    by_cases ht : s.ty = .ipv
    · rw [if_pos ht]; rw [ht] at hs
      exact step1Ipv_refines op d hinv.1 hdcap (supports_unaryIpv hs hb) hv1
    · rw [if_neg ht]
      exact step1_refines s.kind op d hinv.1 hdcap (supports_unarySv ht hs hb) hv1
  refine ⟨s.setObj k (Spec.apply1 s.cap op d).1, (Spec.apply1 s.cap op d).2, ?_,
    hinv.setObj k _ hstep.2, rfl, rfl, rfl, by simp [Sys.setObj], ?_, ?_⟩
  · rw [step_unary s k op hb, hs, rd_of_get hd]
    simp only [Bool.not_true, Bool.false_eq_true, if_false, ok_bind]
    have h1 := hstep.1
    by_cases ht : s.ty = .ipv
    · rw [if_pos ht] at h1 ⊢; rw [h1]; rfl
    · rw [if_neg ht] at h1 ⊢; rw [h1]; rfl
  · rw [specStep_unary sp k op hb]
    cases hg : Spec.getObj sp k with
    | some l =>
      have hdl : d = l := getObj_eq hrel hd l hg
      subst hdl
      simp only
      rw [hrel.1]
      exact hrel.setObj k _ _ (fun l h => (Option.some.inj h))
    | none =>
      simp only
      by_cases hr : Spec.respecifies op = true
      · rw [if_pos hr]
        simp only
        rw [hrel.1, ← apply1_respecifies hr d]
        exact hrel.setObj k _ _ (fun l h => (Option.some.inj h))
      · rw [if_neg hr]
        exact hrel.setObj_unspec k _ hg
  · intro o' ho'
    rw [specStep_unary sp k op hb] at ho'
    cases hg : Spec.getObj sp k with
    | some l =>
      have hdl : d = l := getObj_eq hrel hd l hg
      subst hdl
      rw [hg] at ho'
      simp only at ho'
      rw [hrel.1] at ho'
      exact Option.some.inj ho'
    | none =>
      rw [hg] at ho'
      simp only at ho'
      by_cases hr : Spec.respecifies op = true
      · rw [if_pos hr] at ho'
        simp only at ho'
        rw [hrel.1, ← apply1_respecifies hr d] at ho'
        exact Option.some.inj ho'
      · rw [if_neg hr] at ho'
        simp at ho'

end Tetl.C01
