/-
C01 — every member model returns `.ok` of the list the standard prescribes (helper statements;
the property theorems in Props.lean are assembled from these).
-/
import TetlProofs.C01.Rotate
namespace Tetl.C01
open Tetl

/-- rotate as used by the insert family: the appended block `B` is brought in front of the tail -/
theorem rotate_insert (d : V) (pos : Nat) (B : List Nat) (hp : pos ≤ d.length) :
    rotate ((d ++ B).length + 1) (d ++ B) pos d.length (d ++ B).length
      = .ok (d.take pos ++ B ++ d.drop pos, pos + B.length) := by
  have h := rotate_spec ((d ++ B).length + 1) (d.take pos) (d.drop pos) B []
    (by simp; omega)
  have e0 : d.take pos ++ d.drop pos ++ B ++ [] = d ++ B := by simp
  have e1 : (d.take pos).length = pos := by simp; omega
  have e2 : (d.take pos).length + (d.drop pos).length = d.length := by simp; omega
  have e3 : (d.take pos).length + (d.drop pos).length + B.length = (d ++ B).length := by simp; omega
  rw [e0, e3, e2, e1] at h
  rw [h]; simp

theorem insertFill_eq {cap : Nat} (d : V) (pos n x : Nat) (hc : cap < 2 ^ 64)
    (hp : pos ≤ d.length) (hn : d.length + n ≤ cap) :
    insertFill cap d pos n x = .ok (Spec.insertAt d pos (List.replicate n x), pos) := by
  unfold insertFill
  rw [if_neg (by omega), if_neg (by omega), pushN_ok x hc n d hn]
  simp only [ok_bind]
  rw [rotate_insert d pos _ hp]
  simp [Spec.insertAt]

theorem insertRange_eq {cap : Nat} (d : V) (pos : Nat) (xs : List Nat) (hc : cap < 2 ^ 64)
    (hp : pos ≤ d.length) (hn : d.length + xs.length ≤ cap) :
    insertRange cap d pos xs = .ok (Spec.insertAt d pos xs, pos) := by
  unfold insertRange
  rw [if_neg (by omega), if_neg (by omega), appendAll_ok hc xs d hn]
  simp only [ok_bind]
  rw [rotate_insert d pos _ hp]
  simp [Spec.insertAt]

theorem moveInsert_eq {cap : Nat} (d : V) (pos : Nat) (xs : List Nat) (hc : cap < 2 ^ 64)
    (hp : pos ≤ d.length) (hn : d.length + xs.length ≤ cap) :
    moveInsert cap d pos xs = .ok (Spec.insertAt d pos xs, pos) := by
  unfold moveInsert
  rw [if_neg (by omega), if_neg (by omega), appendAll_ok hc xs d hn]
  simp only [ok_bind]
  rw [rotate_insert d pos _ hp]
  simp [Spec.insertAt]

theorem insertCref_eq {cap : Nat} (d : V) (pos x : Nat) (hc : cap < 2 ^ 64)
    (hp : pos ≤ d.length) (hn : d.length < cap) :
    insertCref cap d pos x = .ok (Spec.insertAt d pos [x], pos) := by
  unfold insertCref
  rw [if_neg (by omega), if_neg (by omega), insertFill_eq d pos 1 x hc hp (by omega)]
  simp

theorem insertRv_eq {cap : Nat} (d : V) (pos x : Nat) (hc : cap < 2 ^ 64)
    (hp : pos ≤ d.length) (hn : d.length < cap) :
    insertRv cap d pos x = .ok (Spec.insertAt d pos [x], pos) := by
  unfold insertRv
  rw [if_neg (by omega), if_neg (by omega), moveInsert_eq d pos [x] hc hp (by simp; omega)]

/-! ### erase -/

theorem moveLoop_spec : ∀ (T P G : V), G ≠ [] →
    ∃ J, moveLoop (P ++ G ++ T) (P.length + G.length) P.length T.length = .ok (P ++ T ++ J, P.length + T.length)
      ∧ J.length = G.length := by
  intro T
  induction T with
  | nil => intro P G _; exact ⟨G, by simp [moveLoop], rfl⟩
  | cons t T ih =>
    intro P G hG
    obtain ⟨g, G', rfl⟩ := List.exists_cons_of_ne_nil hG
    simp only [List.length_cons, moveLoop]
    have h1 : rd (P ++ g :: G' ++ t :: T) (P.length + (G'.length + 1)) = .ok t := by
      have : P ++ g :: G' ++ t :: T = (P ++ g :: G') ++ t :: T := by simp
      rw [this]; exact rd_append_mid' _ _ _ _ (by simp)
    have h2 : wr (P ++ g :: G' ++ t :: T) P.length t = .ok (P ++ t :: G' ++ t :: T) := by
      have e1 : P ++ g :: G' ++ t :: T = P ++ g :: (G' ++ t :: T) := by simp
      have e2 : P ++ t :: G' ++ t :: T = P ++ t :: (G' ++ t :: T) := by simp
      rw [e1, e2]; exact wr_append_mid _ _ _ _
    rw [h1]; simp only [ok_bind]; rw [h2]; simp only [ok_bind]
    obtain ⟨J, hJ, hJl⟩ := ih (P ++ [t]) (G' ++ [t]) (by simp)
    have e1 : P ++ t :: G' ++ t :: T = (P ++ [t]) ++ (G' ++ [t]) ++ T := by simp
    have e2 : P.length + (G'.length + 1) + 1 = (P ++ [t]).length + (G' ++ [t]).length := by simp; omega
    have e3 : P.length + 1 = (P ++ [t]).length := by simp
    rw [e1, e2, e3, hJ]
    refine ⟨J, ?_, by simpa using hJl⟩
    simp; omega

theorem eraseRange_eq {cap : Nat} (d : V) (f l : Nat) (hc : cap < 2 ^ 64) (hcap : d.length ≤ cap)
    (hfl : f ≤ l) (hl : l ≤ d.length) :
    eraseRange cap d f l = .ok (Spec.eraseRange d f l, f) := by
  unfold eraseRange
  have c1 : (decide (f > d.length) || decide (l > d.length)) = false := by simp; omega
  rw [c1]
  simp only [Bool.false_eq_true, if_false]
  rw [if_neg (by omega)]
  by_cases hne : f = l
  · subst hne; simp [Spec.eraseRange]
  · rw [if_pos hne]
    -- d = P ++ G ++ T
    have hd : d = d.take f ++ (d.drop f).take (l - f) ++ d.drop l := by
      have h1 : d.drop f = (d.drop f).take (l - f) ++ (d.drop f).drop (l - f) := (List.take_append_drop _ _).symm
      have h2 : (d.drop f).drop (l - f) = d.drop l := by rw [List.drop_drop]; congr 1; omega
      conv => lhs; rw [← List.take_append_drop f d, h1, h2]
      simp
    have hG : (d.drop f).take (l - f) ≠ [] := by
      intro h
      have : ((d.drop f).take (l - f)).length = 0 := by rw [h]; rfl
      simp at this; omega
    obtain ⟨J, hJ, hJl⟩ := moveLoop_spec (d.drop l) (d.take f) ((d.drop f).take (l - f)) hG
    have eP : (d.take f).length = f := by simp; omega
    have eG : ((d.drop f).take (l - f)).length = l - f := by simp; omega
    have eT : (d.drop l).length = d.length - l := by simp
    rw [eP, eG, eT, ← hd] at hJ
    have e4 : d.length - (f + (l - f)) = d.length - l := by omega
    rw [e4, hJ]
    simp only [ok_bind]
    have hud : unsafeDestroy d (f + (d.length - l)) d.length = .ok () := by
      unfold unsafeDestroy
      rw [if_neg (by omega), if_neg (by omega)]
    rw [hud]; simp only [ok_bind]
    rw [setSize_ok hc (by omega)]
    simp only [ok_bind]
    have : (d.take f ++ d.drop l ++ J).take (d.length - (l - f)) = d.take f ++ d.drop l := by
      have hlen : (d.take f ++ d.drop l).length = d.length - (l - f) := by simp; omega
      rw [← hlen, List.take_left']
      rfl
    rw [this]; rfl

end Tetl.C01
