/-
C01 — property theorems.  Fixed-capacity vectors behave exactly like std::vector within capacity:
for all capacities `< 2^64`, all contents, all element kinds and all operation histories on four live
objects, every valid operation of the model (which mirrors static_vector / inplace_vector / stack
loop by loop, see Tetl/C01/Model.lean) returns `.ok` — no read or write outside the live elements,
no capacity overflow, no truncation of the narrow size field, no exhausted loop bound — and yields
exactly the contents, iterator offset, count, pointer and comparison results of the list semantics
in Tetl/C01/Spec.lean.  Whether a history is valid is decided from the spec state (`Spec.validHist`), not by
running the model; that the model never fails is a conclusion.  Not covered by a theorem, by the nature of the
model (objects are separate immutable lists, aliasing cannot be expressed): "a copy is independent of its
source" — that clause is observed by the harness (copy, change the source, change the copy, dump both); the two
`…_structural` statements at the end only record what the representation gives for free.  inplace_vector: only
the members etl::inplace_vector has (`supports .ipv`); the rest of std::inplace_vector's interface is the known
finding F-C01-inplace-vector-missing-members (`ipv_step_partial`, `ipv_missing_counterexample`).
Helper lemmas live in Lemmas / Rotate / Members* / System / History / Refine*.
-/
import TetlProofs.C01.Refine2
namespace Tetl.C01.Props
open Tetl Tetl.C01

/-! ## the size type -/

/-- `smallest_size_t<Capacity>` (the threshold chain of smallest_size_t.hpp) can hold every size up
    to the capacity — in particular on both sides of the 254/255/256 boundary -/
theorem size_fits (cap : Nat) (h : cap < 2 ^ 64) : cap < 2 ^ smallestBits cap := smallestBits_fits cap h

example : (254 : Nat) < 2 ^ smallestBits 254 ∧ smallestBits 254 = 8 ∧ smallestBits 255 = 16 := by decide

/-- hence no size update of a vector within its capacity is ever truncated or rejected -/
theorem setSize_never_truncates (cap n : Nat) (hc : cap < 2 ^ 64) (hn : n ≤ cap) : setSize cap n = .ok () :=
  setSize_ok hc hn

example : setSize 256 256 = .ok () := by decide

/-! ## the mechanisms -/

/-- the swap-cycle `rotate(first, nFirst, last)` exchanges the two adjacent blocks, in any context,
    returns `first + (last - nFirst)`, touches nothing else, never reads or writes out of bounds and
    terminates within `|A| + |B| + 1` nested calls -/
theorem rotate_eq {α : Type} (fuel : Nat) (P A B S : List α) (hf : A.length + B.length < fuel) :
    rotate fuel (P ++ A ++ B ++ S) P.length (P.length + A.length) (P.length + A.length + B.length)
      = .ok (P ++ B ++ A ++ S, P.length + B.length) := rotate_spec fuel P A B S hf

example : rotate 6 [9, 1, 2, 3, 4, 5, 8] 1 3 6 = .ok ([9, 3, 4, 5, 1, 2, 8], 4) := by decide

/-- `insert(pos, n, x)` = append `n` copies, rotate into place: result and returned iterator -/
theorem insertFill_refines (cap : Nat) (d : V) (pos n x : Nat) (hc : cap < 2 ^ 64)
    (hp : pos ≤ d.length) (hn : d.length + n ≤ cap) :
    insertFill cap d pos n x = .ok (d.take pos ++ List.replicate n x ++ d.drop pos, pos) :=
  insertFill_eq d pos n x hc hp hn

example : insertFill 4 [1, 2] 1 2 7 = .ok ([1, 7, 7, 2], 1) := by decide

/-- `insert(pos, first, last)` and `move_insert(pos, first, last)` -/
theorem insertRange_refines (cap : Nat) (d : V) (pos : Nat) (xs : List Nat) (hc : cap < 2 ^ 64)
    (hp : pos ≤ d.length) (hn : d.length + xs.length ≤ cap) :
    insertRange cap d pos xs = .ok (d.take pos ++ xs ++ d.drop pos, pos)
      ∧ moveInsert cap d pos xs = .ok (d.take pos ++ xs ++ d.drop pos, pos) :=
  ⟨insertRange_eq d pos xs hc hp hn, moveInsert_eq d pos xs hc hp hn⟩

example : insertRange 5 [1, 2, 3] 3 [8, 9] = .ok ([1, 2, 3, 8, 9], 3) := by decide

/-- `erase(first, last)` = move the tail down, destroy the moved-from tail, shrink -/
theorem eraseRange_refines (cap : Nat) (d : V) (f l : Nat) (hc : cap < 2 ^ 64) (hcap : d.length ≤ cap)
    (hfl : f ≤ l) (hl : l ≤ d.length) :
    eraseRange cap d f l = .ok (d.take f ++ d.drop l, f) := eraseRange_eq d f l hc hcap hfl hl

example : eraseRange 4 [1, 2, 3, 4] 1 3 = .ok ([1, 4], 1) := by decide

/-- `erase_if` (find_if + the remove_if loop + erase of the tail) keeps exactly the elements that do not
    satisfy the predicate, in order, and returns how many were removed -/
theorem eraseIf_refines (cap : Nat) (k : Kind) (d : V) (p : Nat → Bool) (hc : cap < 2 ^ 64) (hcap : d.length ≤ cap) :
    eraseIf cap k d p = .ok (d.filter (fun v => !p v), d.countP p) := eraseIf_eq k d p hc hcap

example : eraseIf 5 .hd [1, 2, 3, 4, 5] (modPred 2 1) = .ok ([2, 4], 3) := by decide

/-- the six relational operators as tetl derives them from `equal` and `lexicographical_compare`
    are `=`, `≠`, and the lexicographic `<`, `≤`, `>`, `≥` -/
theorem relOps_refines (a b : V) : relOps a b = .ok (Spec.rels a b) := relOps_eq a b

/-- member `swap` (three moves through a temporary) exchanges the contents; self-swap is the identity -/
theorem swap_refines (cap : Nat) (k : Kind) (a b : V) (hc : cap < 2 ^ 64) (ha : a.length ≤ cap) (hb : b.length ≤ cap) :
    swapVec cap k a b = .ok (b, a) ∧ swapSelf cap k a = .ok a :=
  ⟨swapVec_eq k a b hc ha hb, swapSelf_eq k a hc ha⟩

example : swapVec 3 .nt [1, 2] [7] = .ok ([7], [1, 2]) := by decide

/-- `try_push_back` / `try_emplace_back` on a full inplace_vector return null and change nothing -/
theorem tryPush_full (cap : Nat) (d : V) (x : Nat) (hf : d.length = cap) : ipvTry cap d x = .ok (d, none) := by
  unfold ipvTry; simp [hf]

example : ipvTry 2 [4, 5] 9 = .ok ([4, 5], none) := by decide
example : ipvTry 0 [] 9 = .ok ([], none) := by decide

/-! ## one step and whole histories -/

/-- **Every valid operation refines the spec.**  In a system that satisfies the invariant
    (`size ≤ capacity < 2^64` for all four objects) and agrees with the spec wherever the spec is
    specified, an operation that meets its documented precondition (`valid`) never fails in the model
    (memory safety, no overflow of capacity or size type), keeps the invariant, the type, the
    capacity and the element kind, keeps agreeing with the spec, and returns the spec's result. -/
theorem step_refines (s : Sys) (sp : Spec.SSys) (k : Nat) (op : Op)
    (hinv : Inv s) (hrel : Rel s sp) (hv : valid s k op = true) :
    ∃ s' o, step s k op = .ok (s', o) ∧ Inv s' ∧ s'.ty = s.ty ∧ s'.cap = s.cap ∧ s'.kind = s.kind
      ∧ s'.objs.length = s.objs.length
      ∧ Rel s' (Spec.step sp k op).1 ∧ (∀ o', (Spec.step sp k op).2 = some o' → o = o') :=
  step_refines_all s sp k op hinv hrel hv

/-- the same with the precondition read off the spec state (`Spec.valid`: what the standard's book-keeping
    knows; nothing is assumed about the contents of an object it leaves unspecified) -/
theorem step_refines_spec (s : Sys) (sp : Spec.SSys) (k : Nat) (op : Op)
    (hinv : Inv s) (hrel : Rel s sp) (hv : Spec.valid s.ty sp k op = true) :
    ∃ s' o, step s k op = .ok (s', o) ∧ Inv s' ∧ s'.ty = s.ty ∧ s'.cap = s.cap ∧ s'.kind = s.kind
      ∧ s'.objs.length = s.objs.length
      ∧ Rel s' (Spec.step sp k op).1 ∧ (∀ o', (Spec.step sp k op).2 = some o' → o = o') :=
  step_refines s sp k op hinv hrel (valid_of_spec hrel k op hv)

example : Spec.valid .sv ((Spec.SSys.init 4).setObj 1 none) 1 (.resize 2) = true
    ∧ Spec.valid .sv ((Spec.SSys.init 4).setObj 1 none) 1 .pop = false := by decide

theorem init_inv (ty : Ty) (cap : Nat) (kind : Kind) (hc : cap < 2 ^ 64) : Inv (Sys.init ty cap kind) := by
  refine ⟨hc, ?_⟩
  intro d hd
  simp [Sys.init] at hd
  simp [hd]

theorem init_rel (ty : Ty) (cap : Nat) (kind : Kind) : Rel (Sys.init ty cap kind) (Spec.SSys.init cap) := by
  refine ⟨rfl, rfl, ?_⟩
  intro i l h
  simp only [Spec.SSys.init, Sys.init] at h ⊢
  match i with
  | 0 | 1 | 2 | 3 => simp at h ⊢; exact h
  | n + 4 => simp at h

example : valid (Sys.init .sv 4 .nt) 0 (.insertFill 0 3 7) = true := by decide
example : valid ((Sys.init .sv 4 .nt).setObj 1 [1, 2, 3]) 1 (.swap 0) = true := by decide

/-- **Histories, validity judged in the model state.**  By induction over the operation list: if every
    step that is reached meets its precondition in the model state (`validRun`; nothing is assumed about
    whether a step succeeds), the model never fails, keeps the invariant and the capacity, and every
    result and every content it produces is the one the list semantics of the standard prescribes.
    This form also covers histories that keep using a moved-from object with the contents etl leaves
    in it (which the standard does not specify). -/
theorem history_refines_modelstate : ∀ (ops : List (Nat × Op)) (s : Sys) (sp : Spec.SSys),
    Inv s → Rel s sp → validRun s ops = true →
    ∃ s' outs, run s ops = .ok (s', outs) ∧ Inv s' ∧ s'.cap = s.cap ∧ s'.ty = s.ty
      ∧ Rel s' (Spec.run sp ops).1 ∧ OutsAgree outs (Spec.run sp ops).2 := by
  intro ops
  induction ops with
  | nil =>
    intro s sp hinv hrel _
    exact ⟨s, [], rfl, hinv, rfl, rfl, hrel, trivial⟩
  | cons kop rest ih =>
    intro s sp hinv hrel hv
    obtain ⟨k, op⟩ := kop
    simp only [validRun_cons, Bool.and_eq_true] at hv
    obtain ⟨hv1, hv2⟩ := hv
    obtain ⟨s1, o1, hstep, hinv1, hty1, hcap1, _, _, hrel1, hout1⟩ := step_refines s sp k op hinv hrel hv1
    rw [hstep] at hv2
    simp only at hv2
    obtain ⟨s2, outs, hrun, hinv2, hcap2, hty2, hrel2, hout2⟩ := ih s1 (Spec.step sp k op).1 hinv1 hrel1 hv2
    refine ⟨s2, o1 :: outs, ?_, hinv2, by rw [hcap2, hcap1], by rw [hty2, hty1], ?_, ?_⟩
    · simp only [run_cons, hstep, ok_bind, hrun]
    · simpa only [specRun_cons] using hrel2
    · simp only [specRun_cons, outsAgree_cons]
      exact ⟨hout1, hout2⟩

/-- a history that is valid by the standard's book-keeping (`Spec.validHist`: sizes and positions of the
    *spec* state; for an object in a valid-but-unspecified state only operations without a precondition
    on its contents) is valid in every model state related to the spec state -/
theorem validHist_validRun : ∀ (ops : List (Nat × Op)) (s : Sys) (sp : Spec.SSys),
    Inv s → Rel s sp → Spec.validHist s.ty sp ops = true → validRun s ops = true := by
  intro ops
  induction ops with
  | nil => intros; rfl
  | cons kop rest ih =>
    intro s sp hinv hrel hv
    obtain ⟨k, op⟩ := kop
    simp only [validHist_cons, Bool.and_eq_true] at hv
    obtain ⟨hv1, hv2⟩ := hv
    have hv1' := valid_of_spec hrel k op hv1
    obtain ⟨s1, o1, hstep, hinv1, hty1, _, _, _, hrel1, _⟩ := step_refines s sp k op hinv hrel hv1'
    simp only [validRun_cons, Bool.and_eq_true, hstep]
    exact ⟨hv1', ih s1 (Spec.step sp k op).1 hinv1 hrel1 (by rw [hty1]; exact hv2)⟩

/-- **Histories.**  The property's statement: for every history all of whose steps are valid — no step
    asks for more than the capacity, every position is valid, judged step by step on the state the
    *standard* prescribes (`Spec.validHist`; the model is not consulted) — the model of the tetl container
    never fails (no access outside the live elements, no capacity or size-type overflow, no missing
    member), keeps `size ≤ capacity` and the capacity itself, and every result and every content it
    produces is the one the list semantics of the standard prescribes. -/
theorem history_refines (ops : List (Nat × Op)) (s : Sys) (sp : Spec.SSys)
    (hinv : Inv s) (hrel : Rel s sp) (hv : Spec.validHist s.ty sp ops = true) :
    ∃ s' outs, run s ops = .ok (s', outs) ∧ Inv s' ∧ s'.cap = s.cap ∧ s'.ty = s.ty
      ∧ Rel s' (Spec.run sp ops).1 ∧ OutsAgree outs (Spec.run sp ops).2 :=
  history_refines_modelstate ops s sp hinv hrel (validHist_validRun ops s sp hinv hrel hv)

/-- from the initial state (four empty objects) of any type, capacity and element kind -/
theorem history_refines_init (ty : Ty) (cap : Nat) (kind : Kind) (hc : cap < 2 ^ 64) (ops : List (Nat × Op))
    (hv : Spec.validHist ty (Spec.SSys.init cap) ops = true) :
    ∃ s' outs, run (Sys.init ty cap kind) ops = .ok (s', outs) ∧ Inv s' ∧ s'.cap = cap
      ∧ Rel s' (Spec.run (Spec.SSys.init cap) ops).1 ∧ OutsAgree outs (Spec.run (Spec.SSys.init cap) ops).2 := by
  obtain ⟨s', outs, h1, h2, h3, _, h5, h6⟩ :=
    history_refines ops _ _ (init_inv ty cap kind hc) (init_rel ty cap kind) hv
  exact ⟨s', outs, h1, h2, h3, h5, h6⟩

/-- … and with validity judged in the model state -/
theorem history_refines_modelstate_init (ty : Ty) (cap : Nat) (kind : Kind) (hc : cap < 2 ^ 64) (ops : List (Nat × Op))
    (hv : validRun (Sys.init ty cap kind) ops = true) :
    ∃ s' outs, run (Sys.init ty cap kind) ops = .ok (s', outs) ∧ Inv s' ∧ s'.cap = cap
      ∧ Rel s' (Spec.run (Spec.SSys.init cap) ops).1 ∧ OutsAgree outs (Spec.run (Spec.SSys.init cap) ops).2 := by
  obtain ⟨s', outs, h1, h2, h3, _, h5, h6⟩ :=
    history_refines_modelstate ops _ _ (init_inv ty cap kind hc) (init_rel ty cap kind) hv
  exact ⟨s', outs, h1, h2, h3, h5, h6⟩

example : Spec.validHist .sv (Spec.SSys.init 3)
    [(0, .push 0 1), (0, .insert1 1 0 2), (1, .copyCtor 0), (0, .eraseIf 2 0), (1, .cmp 0), (2, .moveCtor 1),
     (1, .clear), (0, .swap 2)] = true := by decide
example : Spec.validHist .ipv (Spec.SSys.init 1) [(0, .tryPush 0 5), (0, .tryPush 1 6), (1, .moveCtor 0), (0, .clear),
     (0, .unchecked 0 3), (0, .pop)] = true := by
  decide
-- a moved-from object has no specified size: `pop` on it is not a valid step by the standard's book-keeping
-- (test on one sample), although the model state knows what etl left there
example : Spec.validHist .sv (Spec.SSys.init 3) [(0, .push 0 1), (1, .moveCtor 0), (0, .pop)] = false := by decide
example : validRun (Sys.init .sv 3 .nt) [(0, .push 0 1), (1, .moveCtor 0), (0, .pop)] = true := by decide

/-! ## structural facts of the model (no evidence for "a copy is independent of its source")

The model keeps the four objects as four separate immutable lists; `Sys.setObj k` replaces entry `k`.
Sharing of storage between a copy and its source cannot be expressed in it, so the two statements below
hold for *any* step function of this shape — they say that the model has no cross-object writes other
than the ones spelled out in `step`, not that the C++ copy constructor makes a deep copy.  The
independence clause of the property is checked on the real code by the harness (copy; change the source;
change the copy; all four objects are dumped after every line). -/

/-- (structural) a single-object operation of the model writes object `k` only -/
theorem unary_frame_structural (s s' : Sys) (k : Nat) (op : Op) (o : Out) (hb : isBinary op = none)
    (h : step s k op = .ok (s', o)) (i : Nat) (hi : i ≠ k) : s'.objs[i]? = s.objs[i]? := by
  rw [step_unary s k op hb] at h
  split at h
  · cases h
  · cases h1 : rd s.objs k with
    | error e => rw [h1] at h; cases h
    | ok d =>
      rw [h1] at h
      simp only [ok_bind] at h
      have fin : ∀ (r : V × Out), (Except.ok (s.setObj k r.1, r.2) : Except Err (Sys × Out)) = .ok (s', o) →
          s'.objs[i]? = s.objs[i]? := by
        intro r hr
        injection hr with hr
        injection hr with h3 _
        subst h3
        simp only [Sys.setObj, List.getElem?_set]
        rw [if_neg (fun e => hi e.symm)]
      by_cases ht : s.ty = .ipv
      · rw [if_pos ht] at h
        cases h2 : step1Ipv s.cap op d with
        | error e => rw [h2] at h; cases h
        | ok r => rw [h2] at h; exact fin r h
      · rw [if_neg ht] at h
        cases h2 : step1 s.cap s.kind op d with
        | error e => rw [h2] at h; cases h
        | ok r => rw [h2] at h; exact fin r h

/-- copy construction never fails and gives object `k` the value of object `j` (this part has content: the
    copy constructor is `insert(begin(), other.begin(), other.end())` / `uninitialized_copy`); that `j` and
    every other object stay as they were is structural, see above -/
theorem copy_value_frame_structural (s : Sys) (k j : Nat) (hinv : Inv s) (hv : valid s k (.copyCtor j) = true) :
    ∃ s', step s k (.copyCtor j) = .ok (s', .unit) ∧ s'.objs[k]? = s.objs[j]?
      ∧ ∀ i, i ≠ k → s'.objs[i]? = s.objs[i]? := by
  have hv' := hv
  simp only [valid, Bool.and_eq_true, decide_eq_true_eq, bne_iff_ne, ne_eq] at hv'
  obtain ⟨⟨hs, hk⟩, hj, hjk⟩ := hv'
  obtain ⟨d, hd⟩ := getElem?_of_lt hk
  obtain ⟨o, ho⟩ := getElem?_of_lt hj
  have hocap := hinv.get ho
  have hctor : (if s.ty = .ipv then ipvCopyCtor s.cap s.kind o else copyCtor s.cap o) = .ok o := by
    split
    · exact ipvCopyCtor_eq s.kind o hocap
    · exact copyCtor_eq o hinv.1 hocap
  refine ⟨s.setObj k o, ?_, ?_, ?_⟩
  · simp only [step, hs, Bool.not_true, Bool.false_eq_true, if_false, if_neg hjk, rd_of_get ho, rd_of_get hd,
      ok_bind]
    by_cases ht : s.ty = .ipv
    · rw [if_pos ht] at hctor ⊢; rw [hctor]; rfl
    · rw [if_neg ht] at hctor ⊢; rw [hctor]; rfl
  · simp [Sys.setObj, hk, ho]
  · intro i hi
    simp only [Sys.setObj, List.getElem?_set]
    rw [if_neg (fun e => hi e.symm)]

example : valid ((Sys.init .sv 4 .nt).setObj 1 [1, 2, 3]) 0 (.copyCtor 1) = true := by decide

/-! ## known findings -/

/-- A freshly created object is empty, *except* a default-initialised `inplace_vector<T, N>`, `N ≠ 0`
    (known finding F-C01-inplace-vector-default-init): the excluded class is exactly
    `ty = ipv ∧ cap ≠ 0 ∧ default-initialisation`. -/
theorem initSize_partial (ty : Ty) (cap : Nat) (i : Init)
    (h : ¬ (ty = .ipv ∧ cap ≠ 0 ∧ i ≠ .value)) : initSize ty cap i = 0 := by
  cases i with
  | value => rfl
  | dflt g =>
    simp only [initSize]
    split
    · rename_i hc
      exact absurd ⟨hc.1, hc.2, by simp⟩ h
    · rfl

example : ¬ (Ty.sv = .ipv ∧ (4 : Nat) ≠ 0 ∧ Init.dflt 170 ≠ .value) := by decide

/-- the excluded class contains a failing input: storage bytes 0xAA give `size() = 170` at capacity 4 -/
theorem initSize_counterexample : initSize .ipv 4 (.dflt 0xAA) = 170 ∧ (170 : Nat) > 4 := by decide

/-- **inplace_vector, what is proved and what is not** (known finding
    F-C01-inplace-vector-missing-members).  std::inplace_vector offers every operation of the property's list;
    for an operation whose standard precondition holds in the spec state the model of etl::inplace_vector
    refines the spec *unless* the operation is in the excluded class `supports .ipv op = false`
    (etl::inplace_vector has no such member). -/
theorem ipv_step_partial (s : Sys) (sp : Spec.SSys) (k : Nat) (op : Op)
    (hinv : Inv s) (hrel : Rel s sp) (ht : s.ty = .ipv) (hpre : Spec.validPre sp k op = true)
    (hcls : ¬ (supports .ipv op = false)) :
    ∃ s' o, step s k op = .ok (s', o) ∧ Inv s' ∧ s'.ty = s.ty ∧ s'.cap = s.cap ∧ s'.kind = s.kind
      ∧ s'.objs.length = s.objs.length
      ∧ Rel s' (Spec.step sp k op).1 ∧ (∀ o', (Spec.step sp k op).2 = some o' → o = o') := by
  refine step_refines s sp k op hinv hrel (valid_of_spec hrel k op ?_)
  simp only [Spec.valid, ht, hpre, Bool.and_true]
  simpa using hcls

example : Spec.validPre (Spec.SSys.init 4) 0 (.tryPush 0 7) = true ∧ ¬ (supports .ipv (.tryPush 0 7) = false) := by decide

/-- the excluded class is not empty and the exclusion is needed: `insert(begin(), 2, 7)` into an empty
    vector of capacity 4 meets the standard precondition, the standard prescribes `[7, 7]` and the
    iterator `begin()`, the model of etl::inplace_vector has no such member -/
theorem ipv_missing_counterexample :
    Spec.validPre (Spec.SSys.init 4) 0 (.insertFill 0 2 7) = true
      ∧ supports .ipv (.insertFill 0 2 7) = false
      ∧ step (Sys.init .ipv 4 .triv) 0 (.insertFill 0 2 7) = .error (.pre "the type has no such member")
      ∧ (Spec.step (Spec.SSys.init 4) 0 (.insertFill 0 2 7)).2 = some (.it 0)
      ∧ Spec.getObj (Spec.step (Spec.SSys.init 4) 0 (.insertFill 0 2 7)).1 0 = some [7, 7] :=
  ⟨by decide, rfl, rfl, by decide, by decide⟩

/-- the excluded class, member by member: everything except `try_*`, `unchecked_*`, `pop_back`, `clear`,
    copy and move construction (and the observers) -/
theorem ipv_missing_members :
    (∀ ov x, supports .ipv (.push ov x) = false) ∧ (∀ ov p x, supports .ipv (.insert1 ov p x) = false)
      ∧ (∀ p n x, supports .ipv (.insertFill p n x) = false) ∧ (∀ p xs, supports .ipv (.insertRange p xs) = false)
      ∧ (∀ p xs, supports .ipv (.moveInsert p xs) = false) ∧ (∀ p, supports .ipv (.erase p) = false)
      ∧ (∀ f l, supports .ipv (.eraseRange f l) = false) ∧ (∀ n, supports .ipv (.resize n) = false)
      ∧ (∀ n x, supports .ipv (.resizeVal n x) = false) ∧ (∀ n x, supports .ipv (.assignFill n x) = false)
      ∧ (∀ xs, supports .ipv (.assignRange xs) = false) ∧ (∀ n, supports .ipv (.ctorN n) = false)
      ∧ (∀ n x, supports .ipv (.ctorNVal n x) = false) ∧ (∀ xs, supports .ipv (.ctorRange xs) = false)
      ∧ (∀ j, supports .ipv (.copyAssign j) = false) ∧ (∀ j, supports .ipv (.moveAssign j) = false)
      ∧ (∀ j, supports .ipv (.swap j) = false) ∧ (∀ x, supports .ipv (.eraseVal x) = false)
      ∧ (∀ m r, supports .ipv (.eraseIf m r) = false) ∧ (∀ j, supports .ipv (.cmp j) = false) := by
  refine ⟨?_, ?_, ?_, ?_, ?_, ?_, ?_, ?_, ?_, ?_, ?_, ?_, ?_, ?_, ?_, ?_, ?_, ?_, ?_, ?_⟩ <;> intros <;> rfl

/-- … and the members it has -/
theorem ipv_present_members :
    (∀ ov x, supports .ipv (.tryPush ov x) = true) ∧ (∀ ov x, supports .ipv (.unchecked ov x) = true)
      ∧ supports .ipv .pop = true ∧ supports .ipv .clear = true ∧ (∀ j, supports .ipv (.copyCtor j) = true)
      ∧ (∀ j, supports .ipv (.moveCtor j) = true) ∧ supports .ipv .dump = true := by
  refine ⟨?_, ?_, rfl, rfl, ?_, ?_, rfl⟩ <;> intros <;> rfl

/-- inplace_vector offers no assignment (known finding F-C01-inplace-vector-not-assignable): the
    histories of that type contain none -/
theorem ipv_assign_unsupported (j : Nat) :
    supports .ipv (.copyAssign j) = false ∧ supports .ipv (.moveAssign j) = false := ⟨rfl, rfl⟩

end Tetl.C01.Props
