import TetlProofs.C01.Lemmas
namespace Tetl.C01.Props
open Tetl Tetl.C01

/-- the size type selected by `smallest_size_t<Capacity>` holds every size up to the capacity -/
theorem size_fits (cap : Nat) (h : cap < 2 ^ 64) : cap < 2 ^ smallestBits cap := by
  unfold smallestBits
  split
  · omega
  · split
    · omega
    · split <;> omega

end Tetl.C01.Props
