/-
C01 — property theorems.  Fixed-capacity vectors behave exactly like std::vector within capacity:
for all capacities `< 2^64`, all contents, all element kinds and all operation histories on four live
objects, every valid operation of the model (which mirrors static_vector / inplace_vector / stack
loop by loop, see Tetl/C01/Model.lean) returns `.ok` — no read or write outside the live elements,
no capacity overflow, no truncation of the narrow size field, no exhausted loop bound — and yields
exactly the contents, iterator offset, count, pointer and comparison results of the list semantics
in Tetl/C01/Spec.lean.  Whether a history is valid is decided from the spec state (`Spec.validHist`), not by
running the model; that the model never fails is a conclusion.  "A copy is independent of its source" is stated over
interleaved histories (`copy_independent`, `interleave_projection`, `interleave_ok`): a theorem about the model's `step`
(whose objects are separate lists) — that the C++ objects own their storage is observed by the harness on the same
interleaved histories.  The observers are model functions of their own (`observers_refine…`), the size type is the
chain extracted from the header (`size_fits`, `size_type_minimal_partial`), `remove_if`'s element move assignment is
modelled (`eraseIf_refines` for every element kind), and what a moved-from object holds is stated by `moved_from_…`.
Arguments that refer to an element of the vector itself (`v.insert(pos, v[i])` …) are operations of the model language,
read through the reference when the code reads them (`insert_alias_eq`, `insertFill_alias_eq`, `push_alias_eq`,
`resize_alias_eq`, `ipv_push_alias_eq`, `alias_spec`); rvalue arguments whose state the caller sees afterwards are slots of
the model (`tryPush_full_keeps_argument`, `rvalue_argument_moved_iff_constructed`); the relational operators are modelled through the element's `<` alone /
`==` alone and proved against `operator==` + `operator<=>` for any asymmetric `lt` and any `eq` (`relOps_refines`).
inplace_vector: only
the members etl::inplace_vector has (`supports .ipv`); the rest of std::inplace_vector's interface is the known
finding F-C01-inplace-vector-missing-members (`ipv_step_partial`, `ipv_missing_counterexample`).
Helper lemmas live in Lemmas / Rotate / Members* / System / History / Refine*.
-/
import TetlProofs.C01.Independence
import TetlProofs.C01.Observe
namespace Tetl.C01.Props
open Tetl Tetl.C01

/-! ## the size type

`smallestBits` is not a hand-written threshold list: it evaluates `GenSize.chain`, the `conditional_t` chain that
gen/sizetype.py extracts from `_type_traits/smallest_size_t.hpp` of the tree under check on every run. -/

/-- every link of the extracted chain is sound (its condition implies that the selected type can hold `N`), and the
    fall-back type has 64 bits -/
theorem size_type_chain_sound : GenSize.chain.all Link.sound = true ∧ GenSize.fallback.bits = 64 := genChain_sound

/-- `smallest_size_t<Capacity>` can hold every size up to the capacity — in particular on both sides of the
    254/255/256 boundary.  Proved from `size_type_chain_sound` by `pick_fits`, which holds for any sound chain. -/
theorem size_fits (cap : Nat) (h : cap < 2 ^ 64) : cap < 2 ^ smallestBits cap := smallestBits_fits cap h

example : (254 : Nat) < 2 ^ smallestBits 254 ∧ smallestBits 254 = 8 ∧ smallestBits 255 = 16 := by decide

/-- closed form of the extracted chain, for the header as it is -/
theorem size_type_closed (n : Nat) :
    smallestBits n = if n < 255 then 8 else if n < 65535 then 16 else if n < 4294967295 then 32 else 64 :=
  smallestBits_closed n

/-- `Spec.minBits` is the smallest of the widths 8/16/32/64 that can hold `n` -/
theorem minBits_spec (n : Nat) (h : n < 2 ^ 64) :
    n < 2 ^ Spec.minBits n ∧ ∀ w ∈ [8, 16, 32, 64], n < 2 ^ w → Spec.minBits n ≤ w := by
  unfold Spec.minBits
  refine ⟨?_, ?_⟩
  · repeat' split
    all_goals omega
  · intro w hw hlt
    simp only [List.mem_cons, List.mem_nil_iff, or_false] at hw
    rcases hw with rfl | rfl | rfl | rfl <;> (repeat' split) <;> omega

/-- **the selected type is the smallest that fits — except exactly at the three thresholds** (known finding
    F-C01-size-type-not-smallest-at-threshold): the chain tests `N < max(T)` where `N <= max(T)` would do. -/
theorem size_type_minimal_partial (cap : Nat) (hcls : ¬ (cap = 255 ∨ cap = 65535 ∨ cap = 4294967295)) :
    smallestBits cap = Spec.minBits cap := by
  rw [smallestBits_closed]
  unfold Spec.minBits
  repeat' split
  all_goals omega

example : ¬ ((254 : Nat) = 255 ∨ (254 : Nat) = 65535 ∨ (254 : Nat) = 4294967295) := by decide

/-- the excluded class contains failing inputs: a capacity of 255 (65535) fits 8 (16) bits, 16 (32) are selected -/
theorem size_type_minimal_counterexample :
    smallestBits 255 = 16 ∧ Spec.minBits 255 = 8 ∧ (255 : Nat) < 2 ^ 8
      ∧ smallestBits 65535 = 32 ∧ Spec.minBits 65535 = 16 := by decide

/-- the storage selection of `static_vector` and the uses of the size type, as extracted from the headers, are the ones
    the model and the harness assume: zero storage for capacity 0, the `array` storage for trivial `T` (element kind
    `triv` = `int`), raw bytes otherwise (kinds `nt`, `hd`); the size type is `smallest_size_t<Capacity>` — the
    capacity itself is the argument — in both storages and in inplace_vector -/
theorem storage_selection_as_modelled :
    GenSize.storageSelect = [("Capacity == 0", "static_vector_zero_storage<T>"),
                             ("is_trivial_v<T>", "static_vector_trivial_storage<T, Capacity>")]
      ∧ GenSize.storageElse = "static_vector_non_trivial_storage<T, Capacity>"
      ∧ GenSize.sizeTypeUsers.all (fun u => u.2.2 == "Capacity") = true
      ∧ GenSize.sizeTypeUsers.map (fun u => u.1)
          = ["_vector/static_vector.hpp", "_vector/static_vector.hpp", "_inplace_vector/inplace_vector.hpp"]
      ∧ GenSize.paramType = "unsigned long long" := by decide

/-- the other capacity-dependent layout switch of the library (`basic_inplace_string::layout_type`, modelled by C04
    as `isTiny cap = cap < 16`), as extracted from the header: recorded here because it comes out of the same
    extractor; C04's model itself is hand-written -/
theorem string_layout_switch_as_extracted :
    GenSize.stringLayoutSelect = [("(Capacity < 16)", "tiny_layout")] ∧ GenSize.stringLayoutElse = "normal_layout" := by
  decide

/-- hence no size update of a vector within its capacity is ever truncated or rejected -/
theorem setSize_never_truncates (cap n : Nat) (hc : cap < 2 ^ 64) (hn : n ≤ cap) : setSize cap n = .ok () :=
  setSize_ok hc hn

example : setSize 256 256 = .ok () := by decide

/-! ## the mechanisms -/

/-- the swap-cycle `rotate(first, nFirst, last)` exchanges the two adjacent blocks, in any context,
    returns `first + (last - nFirst)`, touches nothing else, never reads or writes out of bounds and
    terminates within `|A| + |B| + 1` nested calls -/
theorem rotate_eq {α : Type} (fuel : Nat) (P A B S : List α) (hf : A.length + B.length < fuel) :
    rotate fuel (P ++ A ++ B ++ S) P.length (P.length + A.length) (P.length + A.length + B.length)
      = .ok (P ++ B ++ A ++ S, P.length + B.length) := rotate_spec fuel P A B S hf

example : rotate 6 [9, 1, 2, 3, 4, 5, 8] 1 3 6 = .ok ([9, 3, 4, 5, 1, 2, 8], 4) := by decide

/-- `insert(pos, n, x)` = append `n` copies, rotate into place: result and returned iterator -/
theorem insertFill_refines (cap : Nat) (d : V) (pos n x : Nat) (hc : cap < 2 ^ 64)
    (hp : pos ≤ d.length) (hn : d.length + n ≤ cap) :
    insertFill cap d pos n x = .ok (d.take pos ++ List.replicate n x ++ d.drop pos, pos) :=
  insertFill_eq d pos n x hc hp hn

example : insertFill 4 [1, 2] 1 2 7 = .ok ([1, 7, 7, 2], 1) := by decide

/-- `insert(pos, first, last)` and `move_insert(pos, first, last)` -/
theorem insertRange_refines (cap : Nat) (d : V) (pos : Nat) (xs : List Nat) (hc : cap < 2 ^ 64)
    (hp : pos ≤ d.length) (hn : d.length + xs.length ≤ cap) :
    insertRange cap d pos xs = .ok (d.take pos ++ xs ++ d.drop pos, pos)
      ∧ moveInsert cap d pos xs = .ok (d.take pos ++ xs ++ d.drop pos, pos) :=
  ⟨insertRange_eq d pos xs hc hp hn, moveInsert_eq d pos xs hc hp hn⟩

example : insertRange 5 [1, 2, 3] 3 [8, 9] = .ok ([1, 2, 3, 8, 9], 3) := by decide

/-- `erase(first, last)` = move the tail down, destroy the moved-from tail, shrink -/
theorem eraseRange_refines (cap : Nat) (d : V) (f l : Nat) (hc : cap < 2 ^ 64) (hcap : d.length ≤ cap)
    (hfl : f ≤ l) (hl : l ≤ d.length) :
    eraseRange cap d f l = .ok (d.take f ++ d.drop l, f) := eraseRange_eq d f l hc hcap hfl hl

example : eraseRange 4 [1, 2, 3, 4] 1 3 = .ok ([1, 4], 1) := by decide

/-- `erase_if` (find_if + the remove_if loop + erase of the tail) keeps exactly the elements that do not
    satisfy the predicate, in order, and returns how many were removed -/
theorem eraseIf_refines (cap : Nat) (k : Kind) (d : V) (p : Nat → Bool) (hc : cap < 2 ^ 64) (hcap : d.length ≤ cap) :
    eraseIf cap k d p = .ok (d.filter (fun v => !p v), d.countP p) := eraseIf_eq k d p hc hcap

example : eraseIf 5 .hd [1, 2, 3, 4, 5] (modPred 2 1) = .ok ([2, 4], 3) := by decide

/-- in particular for handles (kind `hd`: a move assignment to itself would empty the element): every kept element
    keeps its value, so `remove_if` never move-assigns an element to itself — like std::erase_if, which runs
    `find_if` first -/
theorem eraseIf_keeps_handles (cap : Nat) (d : V) (p : Nat → Bool) (hc : cap < 2 ^ 64) (hcap : d.length ≤ cap) :
    ∃ r, eraseIf cap .hd d p = .ok r ∧ r.1 = d.filter (fun v => !p v) ∧ ∀ x ∈ r.1, x ∈ d :=
  ⟨_, eraseIf_eq .hd d p hc hcap, rfl, fun _ hx => (List.mem_filter.mp hx).1⟩

-- sensitivity (test on one sample): the textbook single loop without the leading find_if (seeded change
-- C01-remove-if-self-move) empties the kept handles in front of the first removed element; tetl's loop does not
example : naiveRemove .hd (modPred 2 1) [4, 6, 1, 8] 0 0 4 = .ok ([EMPTIED, EMPTIED, 8, EMPTIED], 3)
    ∧ removeIf .hd (modPred 2 1) [4, 6, 1, 8] = .ok ([4, 6, 8, EMPTIED], 3)
    ∧ naiveRemove .nt (modPred 2 1) [4, 6, 1, 8] 0 0 4 = .ok ([4, 6, 8, MOVED], 3) := by decide

/-- **the six relational operators**, for an element type with *any* `operator<` (`lt`, asymmetric — every strict weak
    order is) and *any* `operator==` (`eq`), nothing assumed between the two: `==` / `!=` as tetl derives them from
    `equal` (through `eq` alone) and `<`, `<=`, `>`, `>=` as it derives them from `lexicographical_compare` (through
    `lt` alone: `a <= b` is `!(b < a)`, `a >= b` is `!(a < b)`) are `a == b`, its negation, and `(a <=> b) < 0`,
    `<= 0`, `> 0`, `>= 0` of [container.opt.reqmts] with *synth-three-way* -/
theorem relOps_refines (lt eq : Nat → Nat → Bool) (hasym : ∀ x y, lt x y = true → lt y x = false) (a b : V) :
    relOps lt eq a b = .ok (Spec.rels lt eq a b) := relOps_eq lt eq hasym a b

/-- the same for any strict weak order `lt` and any `eq` -/
theorem relOps_refines_strict_weak (lt eq : Nat → Nat → Bool) (hsw : StrictWeak lt) (a b : V) :
    relOps lt eq a b = .ok (Spec.rels lt eq a b) := by
  refine relOps_eq lt eq ?_ a b
  intro x y hxy
  cases hyx : lt y x
  · rfl
  · have := hsw.2.1 x y x hxy hyx
    rw [hsw.1 x] at this
    cases this

/-- the element kinds of the harness: each `operator<` is a strict weak order; for the key/payload pair the values
    `2k` and `2k+1` are equivalent under `<` and not equal under `==` -/
theorem kinds_strict_weak (k : Kind) : StrictWeak (ltOf k) := by
  refine ⟨?_, ?_, ?_⟩
  · intro x; cases k <;> simp [ltOf]
  · intro x y z h1 h2
    cases k <;> simp only [ltOf, decide_eq_true_eq] at h1 h2 ⊢ <;> omega
  · intro x y z h1 h2 h3 h4
    cases k <;> simp only [ltOf, decide_eq_false_iff_not] at h1 h2 h3 h4 ⊢ <;> omega

example : ltOf .kp 4 5 = false ∧ ltOf .kp 5 4 = false ∧ eqOf .kp 4 5 = false ∧ ltOf .kp 3 4 = true := by decide

/-- hence, for every element kind of the harness (the key/payload pair included) -/
theorem relOps_refines_kinds (k : Kind) (a b : V) :
    relOps (ltOf k) (eqOf k) a b = .ok (Spec.rels (ltOf k) (eqOf k) a b) :=
  relOps_refines_strict_weak _ _ (kinds_strict_weak k) a b

/-- for an element type whose `==` is the equality of the values and whose `<` is a total order on them — and only
    under these two extra hypotheses — `a <= b` is also `a < b || a == b` and `a >= b` is `a > b || a == b` -/
theorem relOps_total_order (lt eq : Nat → Nat → Bool) (hasym : ∀ x y, lt x y = true → lt y x = false)
    (htri : ∀ x y, lt x y = false → lt y x = false → x = y) (heq : ∀ x y, eq x y = (x == y)) (a b : V) :
    relOps lt eq a b = .ok [a == b, !(a == b), Spec.cmp3 lt a b == .lt, (Spec.cmp3 lt a b == .lt) || a == b,
      Spec.cmp3 lt b a == .lt, (Spec.cmp3 lt b a == .lt) || a == b] := by
  rw [relOps_eq lt eq hasym a b, rels_total_order lt eq hasym htri heq a b]

/-- in particular for naturals under `<` and `=` (element kinds `triv`, `nt`, `hd`): `=`, `≠` and the lexicographic
    `<`, `≤`, `>`, `≥` (the statement this file had before the element's `<` and `==` became parameters) -/
theorem relOps_refines_nat (a b : V) :
    relOps (fun x y => decide (x < y)) (fun x y => x == y) a b = .ok (Spec.relsTotal a b) := by
  rw [relOps_eq _ _ (by intro x y h; simp at h ⊢; omega) a b, rels_nat]

-- the two extra hypotheses are needed (test on one sample): for the key/payload pair `[4] <= [5]` and `[4] >= [5]`
-- hold although neither `[4] < [5]` nor `[4] == [5]` does — the seeded change C01-r2-le-ge-via-equal answers `false`
example : relOps (ltOf .kp) (eqOf .kp) [4] [5] = .ok [false, true, false, true, false, true]
    ∧ Spec.rels (ltOf .kp) (eqOf .kp) [4] [5] = [false, true, false, true, false, true]
    ∧ ((Spec.cmp3 (ltOf .kp) [4] [5] == .lt) || Spec.eqList (eqOf .kp) [4] [5]) = false := by decide
example : relOps (ltOf .kp) (eqOf .kp) [2, 7] [3, 9] = .ok [false, true, true, true, false, false] := by decide

/-! ## arguments that refer to an element of the vector itself

`v.insert(pos, v[i])`, `v.insert(pos, n, v[i])`, `v.emplace(pos, v[i])`, `v.push_back(v[i])`, `v.emplace_back(v[i])`,
`v.resize(n, v[i])`, `s.push(s.top())`: [sequence.reqmts] requires the result of the same call with a copy of the
element taken before the call.  The model reads the argument through the reference at the moment the code reads it
(`Arg`, `rdArg`); the theorems say that this moment is early enough in every one of these members.  The operations
are part of `Op` (`pushA`, `pushTop`, `insertA`, `insertFillA`, `resizeValA`; inplace_vector: `tryPushA`, `uncheckedA`), hence of `step_refines` and
`history_refines` below. -/

/-- the members with a reference argument (`…A`), given a value that lives outside the vector, are the plain members -/
theorem alias_members_generalise (cap : Nat) (d : V) (pos n x : Nat) :
    pushBackA cap d (.val x) = pushBack cap d x ∧ emplaceBackA cap d (.val x) = emplaceBack cap d x
      ∧ insertCrefA cap d pos (.val x) = insertCref cap d pos x ∧ insertFillA cap d pos n (.val x) = insertFill cap d pos n x
      ∧ emplaceA cap d pos (.val x) = insertRv cap d pos x ∧ resizeValA cap d n (.val x) = resizeVal cap d n x
      ∧ assignFillA cap d n (.val x) = assignFill cap d n x :=
  ⟨pushBackA_val cap d x, emplaceBackA_val cap d x, insertCrefA_val cap d pos x, insertFillA_val cap d pos n x,
   emplaceA_val cap d pos x, resizeValA_val cap d n x, assignFillA_val cap d n x⟩

/-- `v.insert(pos, v[i])` and `v.emplace(pos, v[i])`: the list with the value element `i` had before the call
    inserted at `pos`, i.e. exactly what the same call returns for a copy of `v[i]` taken before the call -/
theorem insert_alias_eq (cap : Nat) (d : V) (pos i : Nat) (hc : cap < 2 ^ 64)
    (hp : pos ≤ d.length) (hn : d.length < cap) (hi : i < d.length) :
    insertCrefA cap d pos (.elem i) = .ok (Spec.insertAt d pos [d[i]], pos)
      ∧ insertCrefA cap d pos (.elem i) = insertCref cap d pos d[i]
      ∧ emplaceA cap d pos (.elem i) = .ok (Spec.insertAt d pos [d[i]], pos)
      ∧ emplaceA cap d pos (.elem i) = insertRv cap d pos d[i] :=
  ⟨insertCrefA_elem d pos i hc hp hn hi, by rw [insertCrefA_elem d pos i hc hp hn hi, insertCref_eq d pos _ hc hp hn],
   emplaceA_elem d pos i hc hp hn hi, by rw [emplaceA_elem d pos i hc hp hn hi, insertRv_eq d pos _ hc hp hn]⟩

example : insertCrefA 8 [10, 20, 30, 40] 0 (.elem 2) = .ok ([30, 10, 20, 30, 40], 0) := by decide

/-- `v.insert(pos, n, v[i])` -/
theorem insertFill_alias_eq (cap : Nat) (d : V) (pos n i : Nat) (hc : cap < 2 ^ 64)
    (hp : pos ≤ d.length) (hn : d.length + n ≤ cap) (hi : i < d.length) :
    insertFillA cap d pos n (.elem i) = .ok (Spec.insertAt d pos (List.replicate n d[i]), pos)
      ∧ insertFillA cap d pos n (.elem i) = insertFill cap d pos n d[i] :=
  ⟨insertFillA_elem d pos n i hc hp hn hi, by rw [insertFillA_elem d pos n i hc hp hn hi, insertFill_eq d pos n _ hc hp hn]⟩

example : insertFillA 8 [10, 20, 30] 1 2 (.elem 1) = .ok ([10, 20, 20, 20, 30], 1) := by decide

/-- `v.push_back(v[i])`, `v.emplace_back(v[i])`, `v.push_back(v.back())` / `s.push(s.top())` / `s.emplace(s.top())` -/
theorem push_alias_eq (cap : Nat) (d : V) (i : Nat) (e : Bool) (hc : cap < 2 ^ 64) (hn : d.length < cap) (hi : i < d.length) :
    pushBackA cap d (.elem i) = .ok (d ++ [d[i]]) ∧ emplaceBackA cap d (.elem i) = .ok (d ++ [d[i]])
      ∧ pushTop cap d e = .ok (d ++ [d[d.length - 1]]) :=
  ⟨pushBackA_elem hc hn hi, emplaceBackA_elem hc hn hi, pushTop_eq d e hc hn (by omega)⟩

example : pushTop 3 [4, 5] false = .ok [4, 5, 5] ∧ pushBackA 3 [4, 5] (.elem 0) = .ok [4, 5, 4] := by decide

/-- `v.resize(n, v[i])`, growing or shrinking -/
theorem resize_alias_eq (cap : Nat) (d : V) (n i : Nat) (hc : cap < 2 ^ 64) (hcap : d.length ≤ cap) (hn : n ≤ cap)
    (hi : i < d.length) :
    resizeValA cap d n (.elem i) = .ok (Spec.resize d n d[i]) ∧ resizeValA cap d n (.elem i) = resizeVal cap d n d[i] :=
  ⟨resizeValA_elem d n i hc hcap hn hi, by rw [resizeValA_elem d n i hc hcap hn hi, resizeVal_eq d n _ hc hcap hn]⟩

example : resizeValA 6 [7, 8] 5 (.elem 0) = .ok [7, 8, 7, 7, 7] := by decide

/-- inplace_vector: `c.unchecked_push_back(c[i])` / `unchecked_emplace_back(c[i])` append the old value of element `i`
    and return a reference to it; `c.try_push_back(c[i])` / `try_emplace_back(c[i])` do the same, or return null and
    change nothing when full; with a value from outside they are the plain members -/
theorem ipv_push_alias_eq (cap : Nat) (d : V) (i : Nat) (hc : cap < 2 ^ 64) (hcap : d.length ≤ cap) (hi : i < d.length) :
    (d.length < cap → ipvUncheckedA cap d (.elem i) = .ok (d ++ [d[i]], d[i]))
      ∧ ipvTryA cap d (.elem i) = .ok (if d.length = cap then (d, none) else (d ++ [d[i]], some d[i]))
      ∧ (∀ x, ipvUncheckedA cap d (.val x) = ipvUnchecked cap d x ∧ ipvTryA cap d (.val x) = ipvTry cap d x) :=
  ⟨fun h => ipvUncheckedA_elem d i hc h hi, ipvTryA_elem d i hc hcap hi,
   fun x => ⟨ipvUncheckedA_val cap d x, ipvTryA_val cap d x⟩⟩

example : ipvTryA 3 [4, 5] (.elem 0) = .ok ([4, 5, 4], some 4) ∧ ipvTryA 2 [4, 5] (.elem 0) = .ok ([4, 5], none) := by decide

/-- on the spec side an operation with an aliasing argument *is* the plain operation with the value the element had
    before the call -/
theorem alias_spec (cap : Nat) (l : List Nat) (ov pos n i : Nat) (hi : i < l.length) :
    Spec.apply1 cap (.pushA ov i) l = Spec.apply1 cap (.push ov l[i]) l
      ∧ Spec.apply1 cap (.insertA ov pos i) l = Spec.apply1 cap (.insert1 ov pos l[i]) l
      ∧ Spec.apply1 cap (.insertFillA pos n i) l = Spec.apply1 cap (.insertFill pos n l[i]) l
      ∧ Spec.apply1 cap (.resizeValA n i) l = Spec.apply1 cap (.resizeVal n l[i]) l
      ∧ Spec.apply1 cap (.pushTop ov) l = Spec.apply1 cap (.push ov l[l.length - 1]) l
      ∧ Spec.apply1 cap (.tryPushA ov i) l = Spec.apply1 cap (.tryPush ov l[i]) l
      ∧ Spec.apply1 cap (.uncheckedA ov i) l = Spec.apply1 cap (.unchecked ov l[i]) l := by
  simp [Spec.apply1, withElem_lt hi, withElem_lt (show l.length - 1 < l.length by omega)]

/-- `v.assign(n, v[i])` is different: `clear()` runs first, `insert` then reads a destroyed element.  [sequence.reqmts]
    excludes the call ("t is not a reference into a"); it is not an operation of the histories. -/
theorem assign_alias_reads_destroyed (cap : Nat) (d : V) (n i : Nat) (hc : cap < 2 ^ 64) (hn : n ≤ cap) (h0 : 0 < n) :
    assignFillA cap d n (.elem i) = .error .oob := assignFillA_elem_oob d n i hc hn h0

example : assignFillA 4 [1, 2] 2 (.elem 0) = .error .oob := by decide

-- sensitivity (test on one sample): a single-element fast path that shifts the tail up first and reads the argument
-- afterwards (seeded change C01-r2-insert-shift-alias) inserts the wrong value; append + rotate does not
example : insertShiftLate [10, 20, 30, 40] 0 (.elem 2) = .ok [20, 10, 20, 30, 40]
    ∧ insertShiftLate [10, 20, 30, 40] 0 (.val 30) = .ok [30, 10, 20, 30, 40]
    ∧ insertCrefA 8 [10, 20, 30, 40] 0 (.elem 2) = .ok ([30, 10, 20, 30, 40], 0) := by decide

/-- member `swap` (three moves through a temporary) exchanges the contents; self-swap is the identity -/
theorem swap_refines (cap : Nat) (k : Kind) (a b : V) (hc : cap < 2 ^ 64) (ha : a.length ≤ cap) (hb : b.length ≤ cap) :
    swapVec cap k a b = .ok (b, a) ∧ swapSelf cap k a = .ok a :=
  ⟨swapVec_eq k a b hc ha hb, swapSelf_eq k a hc ha⟩

example : swapVec 3 .nt [1, 2] [7] = .ok ([7], [1, 2]) := by decide

/-- `try_push_back` / `try_emplace_back` on a full inplace_vector return null and change nothing -/
theorem tryPush_full (cap : Nat) (d : V) (x : Nat) (hf : d.length = cap) : ipvTry cap d x = .ok (d, none) := by
  unfold ipvTry; simp [hf]

example : ipvTry 2 [4, 5] 9 = .ok ([4, 5], none) := by decide
example : ipvTry 0 [] 9 = .ok ([], none) := by decide

/-! ## rvalue arguments the caller still owns

`T t(x); v.push_back(std::move(t));` — after the call `t` is moved from exactly when an element has been constructed
from it, and untouched otherwise.  For the members that always construct (`push_back`, `emplace_back`, `insert(pos, T&&)`,
`emplace`, `unchecked_*`; `stack::push` / `emplace`) that is "always, under the documented precondition"; for
`try_push_back(T&&)` / `try_emplace_back` on a full inplace_vector (every `inplace_vector<T, 0>`) it is the
"changes nothing" of the property: [inplace.vector.modifiers] "Otherwise, there are no effects".  The argument is a slot
of the model (Model.lean: `pushBackRv`, `emplaceBackRv`, `insertRvArg`, `emplaceRvArg`, `ipvTryRv`, `ipvUncheckedRv`); the
operations (`Op.pushMv`, `insertMv`, `tryPushMv`, `uncheckedMv`) are part of `step_refines` / `history_refines`, whose
"returns the spec's result" includes the state of the argument (`Out.unitArg` … `Out.refArg`). -/

/-- **`try_push_back(T&&)` / `try_emplace_back(T&&)` on a full inplace_vector return null and change nothing — not the
    vector and not the argument** (all capacities, 0 included: there every vector is full) -/
theorem tryPush_full_keeps_argument (cap : Nat) (d : V) (x : Nat) (hf : d.length = cap) :
    ipvTryRv cap d x = .ok (d, none, false)
      ∧ ∀ ov, step1Ipv cap (.tryPushMv ov x) d = .ok (d, .ptrArg none false) := by
  have h : ipvTryRv cap d x = .ok (d, none, false) := by unfold ipvTryRv; simp [hf]
  exact ⟨h, fun ov => by simp [step1Ipv, h]⟩

example : ipvTryRv 2 [4, 5] 9 = .ok ([4, 5], none, false) := by decide
example : ipvTryRv 0 [] 9 = .ok ([], none, false) := by decide
example : step1Ipv 0 (.tryPushMv 1 9) [] = .ok ([], .ptrArg none false) := by decide

/-- with room the element is constructed from the argument: appended, pointer to it, argument moved from -/
theorem tryPush_room_consumes_argument (cap : Nat) (d : V) (x : Nat) (hc : cap < 2 ^ 64) (h : d.length < cap) :
    ipvTryRv cap d x = .ok (d ++ [x], some x, true) := by
  rw [ipvTryRv_eq d x hc (by omega), if_neg (by omega)]

example : ipvTryRv 3 [4, 5] 9 = .ok ([4, 5, 9], some 9, true) := by decide

/-- **An rvalue argument is moved from iff an element has been constructed from it.**  For every member taking `T&&`
    (or forwarding an rvalue) of static_vector / stack (`step1`) and inplace_vector (`step1Ipv`), every capacity, element
    kind and content, under the documented precondition: the call succeeds, reports the state of the argument, that state
    is "moved from" exactly when the vector has grown by one element, "untouched" only if the vector is unchanged, and
    result and argument state are those of the spec. -/
theorem rvalue_argument_moved_iff_constructed (cap : Nat) (kind : Kind) (op : Op) (d : V) (hc : cap < 2 ^ 64)
    (hcap : d.length ≤ cap) (hr : takesRvalue op = true) (hv : valid1 cap op d = true) :
    ∃ d' o m, (if unaryIpv op then step1Ipv cap op d else step1 cap kind op d) = .ok (d', o) ∧ o.moved? = some m
      ∧ (m = true ↔ d'.length = d.length + 1) ∧ (m = false → d' = d) ∧ (d', o) = Spec.apply1 cap op d := by
  cases op <;> simp only [takesRvalue] at hr <;> try contradiction
  case pushMv ov x =>
    have h := (step1_refines kind (.pushMv ov x) d hc hcap rfl hv).1
    refine ⟨(Spec.apply1 cap (.pushMv ov x) d).1, (Spec.apply1 cap (.pushMv ov x) d).2, true, ?_, ?_, ?_, ?_, rfl⟩
    · simp only [unaryIpv]; exact h
    · simp [Spec.apply1, Out.moved?]
    · simp [Spec.apply1]
    · simp
  case insertMv ov pos x =>
    have h := (step1_refines kind (.insertMv ov pos x) d hc hcap rfl hv).1
    simp only [valid1, Bool.and_eq_true, decide_eq_true_eq] at hv
    refine ⟨(Spec.apply1 cap (.insertMv ov pos x) d).1, (Spec.apply1 cap (.insertMv ov pos x) d).2, true, ?_, ?_, ?_, ?_, rfl⟩
    · simp only [unaryIpv]; exact h
    · simp [Spec.apply1, Out.moved?]
    · simp [Spec.apply1, insertAt_length d pos [x] hv.2]
    · simp
  case tryPushMv ov x =>
    have h := (step1Ipv_refines (.tryPushMv ov x) d hc hcap rfl hv).1
    by_cases hf : d.length = cap
    · refine ⟨(Spec.apply1 cap (.tryPushMv ov x) d).1, (Spec.apply1 cap (.tryPushMv ov x) d).2, false, ?_, ?_, ?_, ?_, rfl⟩
      · simp only [unaryIpv]; exact h
      · simp [Spec.apply1, hf, Out.moved?]
      · simp [Spec.apply1, hf]
      · simp [Spec.apply1, hf]
    · refine ⟨(Spec.apply1 cap (.tryPushMv ov x) d).1, (Spec.apply1 cap (.tryPushMv ov x) d).2, true, ?_, ?_, ?_, ?_, rfl⟩
      · simp only [unaryIpv]; exact h
      · simp [Spec.apply1, hf, Out.moved?]
      · simp [Spec.apply1, hf]
      · simp
  case uncheckedMv ov x =>
    have h := (step1Ipv_refines (.uncheckedMv ov x) d hc hcap rfl hv).1
    refine ⟨(Spec.apply1 cap (.uncheckedMv ov x) d).1, (Spec.apply1 cap (.uncheckedMv ov x) d).2, true, ?_, ?_, ?_, ?_, rfl⟩
    · simp only [unaryIpv]; exact h
    · simp [Spec.apply1, Out.moved?]
    · simp [Spec.apply1]
    · simp

example : takesRvalue (.insertMv 1 1 7) = true ∧ valid1 4 (.insertMv 1 1 7) [5, 6] = true
    ∧ step1 4 .hd (.insertMv 1 1 7) [5, 6] = .ok ([5, 7, 6], .itArg 1 true) := by decide
example : takesRvalue (.tryPushMv 3 7) = true ∧ valid1 2 (.tryPushMv 3 7) [5, 6] = true
    ∧ step1Ipv 2 (.tryPushMv 3 7) [5, 6] = .ok ([5, 6], .ptrArg none false) := by decide

/-- the slot members do to the vector exactly what the plain members do, failures included (no hypotheses): the
    argument state is an additional observation, not another behaviour -/
theorem rvalue_members_generalise (cap : Nat) (d : V) (pos x : Nat) :
    (pushBackRv cap d x).map (·.1) = pushBack cap d x ∧ (emplaceBackRv cap d x).map (·.1) = emplaceBack cap d x
      ∧ (insertRvArg cap d pos x).map (·.1) = insertRv cap d pos x ∧ (emplaceRvArg cap d pos x).map (·.1) = insertRv cap d pos x
      ∧ (ipvTryRv cap d x).map (fun r => (r.1, r.2.1)) = ipvTry cap d x
      ∧ (ipvUncheckedRv cap d x).map (fun r => (r.1, r.2.1)) = ipvUnchecked cap d x :=
  ⟨pushBackRv_fst cap d x, emplaceBackRv_fst cap d x, insertRvArg_fst cap d pos x, emplaceRvArg_fst cap d pos x,
   ipvTryRv_fst cap d x, ipvUncheckedRv_fst cap d x⟩

/-- which type has which of them: static_vector `push_back` / `emplace_back` / `insert` / `emplace`, stack `push` /
    `emplace`, inplace_vector `try_*` / `unchecked_*` (its `push_back` / `insert` are part of the known finding
    F-C01-inplace-vector-missing-members) -/
theorem rvalue_members_present :
    (∀ ov x, supports .sv (.pushMv ov x) = true) ∧ (∀ ov p x, supports .sv (.insertMv ov p x) = true)
      ∧ (∀ ov x, supports .stk (.pushMv ov x) = true) ∧ (∀ ov p x, supports .stk (.insertMv ov p x) = false)
      ∧ (∀ ov x, supports .ipv (.tryPushMv ov x) = true) ∧ (∀ ov x, supports .ipv (.uncheckedMv ov x) = true)
      ∧ (∀ ov x, supports .ipv (.pushMv ov x) = false) ∧ (∀ ov p x, supports .ipv (.insertMv ov p x) = false) := by
  refine ⟨?_, ?_, ?_, ?_, ?_, ?_, ?_, ?_⟩ <;> intros <;> rfl

/-! ## one step and whole histories -/

/-- **Every valid operation refines the spec.**  In a system that satisfies the invariant
    (`size ≤ capacity < 2^64` for all four objects) and agrees with the spec wherever the spec is
    specified, an operation that meets its documented precondition (`valid`) never fails in the model
    (memory safety, no overflow of capacity or size type), keeps the invariant, the type, the
    capacity and the element kind, keeps agreeing with the spec, and returns the spec's result. -/
theorem step_refines (s : Sys) (sp : Spec.SSys) (k : Nat) (op : Op)
    (hinv : Inv s) (hrel : Rel s sp) (hv : valid s k op = true) :
    ∃ s' o, step s k op = .ok (s', o) ∧ Inv s' ∧ s'.ty = s.ty ∧ s'.cap = s.cap ∧ s'.kind = s.kind
      ∧ s'.objs.length = s.objs.length
      ∧ Rel s' (Spec.step sp k op).1 ∧ (∀ o', (Spec.step sp k op).2 = some o' → o = o') :=
  step_refines_all s sp k op hinv hrel hv

/-- the same with the precondition read off the spec state (`Spec.valid`: what the standard's book-keeping
    knows; nothing is assumed about the contents of an object it leaves unspecified) -/
theorem step_refines_spec (s : Sys) (sp : Spec.SSys) (k : Nat) (op : Op)
    (hinv : Inv s) (hrel : Rel s sp) (hv : Spec.valid s.ty sp k op = true) :
    ∃ s' o, step s k op = .ok (s', o) ∧ Inv s' ∧ s'.ty = s.ty ∧ s'.cap = s.cap ∧ s'.kind = s.kind
      ∧ s'.objs.length = s.objs.length
      ∧ Rel s' (Spec.step sp k op).1 ∧ (∀ o', (Spec.step sp k op).2 = some o' → o = o') :=
  step_refines s sp k op hinv hrel (valid_of_spec hrel k op hv)

example : Spec.valid .sv ((Spec.SSys.init 4).setObj 1 none) 1 (.resize 2) = true
    ∧ Spec.valid .sv ((Spec.SSys.init 4).setObj 1 none) 1 .pop = false := by decide

theorem init_inv (ty : Ty) (cap : Nat) (kind : Kind) (hc : cap < 2 ^ 64) : Inv (Sys.init ty cap kind) := by
  refine ⟨hc, ?_⟩
  intro d hd
  simp [Sys.init] at hd
  simp [hd]

theorem init_rel (ty : Ty) (cap : Nat) (kind : Kind) : Rel (Sys.init ty cap kind) (Spec.SSys.init cap kind) := by
  refine ⟨rfl, rfl, ?_, rfl⟩
  intro i l h
  simp only [Spec.SSys.init, Sys.init] at h ⊢
  match i with
  | 0 | 1 | 2 | 3 => simp at h ⊢; exact h
  | n + 4 => simp at h

example : valid (Sys.init .sv 4 .nt) 0 (.insertFill 0 3 7) = true := by decide
example : valid ((Sys.init .sv 4 .nt).setObj 1 [1, 2, 3]) 1 (.swap 0) = true := by decide

/-- **Histories, validity judged in the model state.**  By induction over the operation list: if every
    step that is reached meets its precondition in the model state (`validRun`; nothing is assumed about
    whether a step succeeds), the model never fails, keeps the invariant and the capacity, and every
    result and every content it produces is the one the list semantics of the standard prescribes.
    This form also covers histories that keep using a moved-from object with the contents etl leaves
    in it (which the standard does not specify). -/
theorem history_refines_modelstate : ∀ (ops : List (Nat × Op)) (s : Sys) (sp : Spec.SSys),
    Inv s → Rel s sp → validRun s ops = true →
    ∃ s' outs, run s ops = .ok (s', outs) ∧ Inv s' ∧ s'.cap = s.cap ∧ s'.ty = s.ty
      ∧ Rel s' (Spec.run sp ops).1 ∧ OutsAgree outs (Spec.run sp ops).2 := by
  intro ops
  induction ops with
  | nil =>
    intro s sp hinv hrel _
    exact ⟨s, [], rfl, hinv, rfl, rfl, hrel, trivial⟩
  | cons kop rest ih =>
    intro s sp hinv hrel hv
    obtain ⟨k, op⟩ := kop
    simp only [validRun_cons, Bool.and_eq_true] at hv
    obtain ⟨hv1, hv2⟩ := hv
    obtain ⟨s1, o1, hstep, hinv1, hty1, hcap1, _, _, hrel1, hout1⟩ := step_refines s sp k op hinv hrel hv1
    rw [hstep] at hv2
    simp only at hv2
    obtain ⟨s2, outs, hrun, hinv2, hcap2, hty2, hrel2, hout2⟩ := ih s1 (Spec.step sp k op).1 hinv1 hrel1 hv2
    refine ⟨s2, o1 :: outs, ?_, hinv2, by rw [hcap2, hcap1], by rw [hty2, hty1], ?_, ?_⟩
    · simp only [run_cons, hstep, ok_bind, hrun]
    · simpa only [specRun_cons] using hrel2
    · simp only [specRun_cons, outsAgree_cons]
      exact ⟨hout1, hout2⟩

/-- a history that is valid by the standard's book-keeping (`Spec.validHist`: sizes and positions of the
    *spec* state; for an object in a valid-but-unspecified state only operations without a precondition
    on its contents) is valid in every model state related to the spec state -/
theorem validHist_validRun : ∀ (ops : List (Nat × Op)) (s : Sys) (sp : Spec.SSys),
    Inv s → Rel s sp → Spec.validHist s.ty sp ops = true → validRun s ops = true := by
  intro ops
  induction ops with
  | nil => intros; rfl
  | cons kop rest ih =>
    intro s sp hinv hrel hv
    obtain ⟨k, op⟩ := kop
    simp only [validHist_cons, Bool.and_eq_true] at hv
    obtain ⟨hv1, hv2⟩ := hv
    have hv1' := valid_of_spec hrel k op hv1
    obtain ⟨s1, o1, hstep, hinv1, hty1, _, _, _, hrel1, _⟩ := step_refines s sp k op hinv hrel hv1'
    simp only [validRun_cons, Bool.and_eq_true, hstep]
    exact ⟨hv1', ih s1 (Spec.step sp k op).1 hinv1 hrel1 (by rw [hty1]; exact hv2)⟩

/-- **Histories.**  The property's statement: for every history all of whose steps are valid — no step
    asks for more than the capacity, every position is valid, judged step by step on the state the
    *standard* prescribes (`Spec.validHist`; the model is not consulted) — the model of the tetl container
    never fails (no access outside the live elements, no capacity or size-type overflow, no missing
    member), keeps `size ≤ capacity` and the capacity itself, and every result and every content it
    produces is the one the list semantics of the standard prescribes. -/
theorem history_refines (ops : List (Nat × Op)) (s : Sys) (sp : Spec.SSys)
    (hinv : Inv s) (hrel : Rel s sp) (hv : Spec.validHist s.ty sp ops = true) :
    ∃ s' outs, run s ops = .ok (s', outs) ∧ Inv s' ∧ s'.cap = s.cap ∧ s'.ty = s.ty
      ∧ Rel s' (Spec.run sp ops).1 ∧ OutsAgree outs (Spec.run sp ops).2 :=
  history_refines_modelstate ops s sp hinv hrel (validHist_validRun ops s sp hinv hrel hv)

/-- from the initial state (four empty objects) of any type, capacity and element kind -/
theorem history_refines_init (ty : Ty) (cap : Nat) (kind : Kind) (hc : cap < 2 ^ 64) (ops : List (Nat × Op))
    (hv : Spec.validHist ty (Spec.SSys.init cap kind) ops = true) :
    ∃ s' outs, run (Sys.init ty cap kind) ops = .ok (s', outs) ∧ Inv s' ∧ s'.cap = cap
      ∧ Rel s' (Spec.run (Spec.SSys.init cap kind) ops).1
      ∧ OutsAgree outs (Spec.run (Spec.SSys.init cap kind) ops).2 := by
  obtain ⟨s', outs, h1, h2, h3, _, h5, h6⟩ :=
    history_refines ops _ _ (init_inv ty cap kind hc) (init_rel ty cap kind) hv
  exact ⟨s', outs, h1, h2, h3, h5, h6⟩

/-- … and with validity judged in the model state -/
theorem history_refines_modelstate_init (ty : Ty) (cap : Nat) (kind : Kind) (hc : cap < 2 ^ 64) (ops : List (Nat × Op))
    (hv : validRun (Sys.init ty cap kind) ops = true) :
    ∃ s' outs, run (Sys.init ty cap kind) ops = .ok (s', outs) ∧ Inv s' ∧ s'.cap = cap
      ∧ Rel s' (Spec.run (Spec.SSys.init cap kind) ops).1
      ∧ OutsAgree outs (Spec.run (Spec.SSys.init cap kind) ops).2 := by
  obtain ⟨s', outs, h1, h2, h3, _, h5, h6⟩ :=
    history_refines_modelstate ops _ _ (init_inv ty cap kind hc) (init_rel ty cap kind) hv
  exact ⟨s', outs, h1, h2, h3, h5, h6⟩

example : Spec.validHist .sv (Spec.SSys.init 3)
    [(0, .push 0 1), (0, .insert1 1 0 2), (1, .copyCtor 0), (0, .eraseIf 2 0), (1, .cmp 0), (2, .moveCtor 1),
     (1, .clear), (0, .swap 2)] = true := by decide
example : Spec.validHist .ipv (Spec.SSys.init 1) [(0, .tryPush 0 5), (0, .tryPush 1 6), (1, .moveCtor 0), (0, .clear),
     (0, .unchecked 0 3), (0, .pop)] = true := by
  decide
-- histories with aliasing arguments and with the key/payload element kind
example : Spec.validHist .sv (Spec.SSys.init 6 .kp)
    [(0, .assignRange [4, 2]), (0, .insertA 0 0 1), (0, .pushA 2 0), (0, .insertFillA 1 2 3), (0, .resizeValA 6 0),
     (1, .push 0 5), (1, .pushTop 0), (0, .cmp 1)] = true := by decide
example : Spec.validHist .ipv (Spec.SSys.init 3) [(0, .tryPush 0 5), (0, .tryPushA 0 0), (0, .uncheckedA 2 1), (0, .tryPushA 2 2)] = true := by
  decide
example : Spec.validHist .stk (Spec.SSys.init 3 .kp) [(0, .push 0 4), (0, .pushTop 0), (1, .push 0 5), (0, .cmp 1)] = true := by
  decide
-- histories with rvalue arguments the caller looks at afterwards; a try_push_back on the full vector is a valid step
example : Spec.validHist .ipv (Spec.SSys.init 1 .nt) [(0, .tryPushMv 1 5), (0, .tryPushMv 1 6), (0, .tryPushMv 3 7), (0, .pop),
     (0, .uncheckedMv 1 8)] = true := by decide
example : (Spec.run (Spec.SSys.init 1 .nt) [(0, .tryPushMv 1 5), (0, .tryPushMv 1 6)]).2
    = [some (.ptrArg (some 5) true), some (.ptrArg none false)] := by decide
example : Spec.validHist .sv (Spec.SSys.init 3 .hd) [(0, .pushMv 1 5), (0, .insertMv 3 0 6), (0, .insertMv 1 2 7)] = true := by decide
-- a moved-from object has no specified size: `pop` on it is not a valid step by the standard's book-keeping
-- (test on one sample), although the model state knows what etl left there
example : Spec.validHist .sv (Spec.SSys.init 3) [(0, .push 0 1), (1, .moveCtor 0), (0, .pop)] = false := by decide
example : validRun (Sys.init .sv 3 .nt) [(0, .push 0 1), (1, .moveCtor 0), (0, .pop)] = true := by decide

/-! ## frame facts of the model (building blocks of the independence theorems below)

The model keeps the four objects as four separate immutable lists; `Sys.setObj k` replaces entry `k`.
Sharing of storage between a copy and its source cannot be expressed in it, so the two statements below say that
`step` has no cross-object writes other than the ones spelled out in it, not that the C++ copy constructor makes a
deep copy.  On the real code the clause is checked by the harness (copy; change the source; change the copy,
interleaved; `data()` lies inside the object; all four objects are dumped after every line). -/

/-- (structural) a single-object operation of the model writes object `k` only -/
theorem unary_frame_structural (s s' : Sys) (k : Nat) (op : Op) (o : Out) (hb : isBinary op = none)
    (h : step s k op = .ok (s', o)) (i : Nat) (hi : i ≠ k) : s'.objs[i]? = s.objs[i]? :=
  unary_frame s s' k op o hb h i hi

/-- copy construction never fails and gives object `k` the value of object `j` (this part has content: the
    copy constructor is `insert(begin(), other.begin(), other.end())` / `uninitialized_copy`); that `j` and
    every other object stay as they were is structural, see above -/
theorem copy_value_frame_structural (s : Sys) (k j : Nat) (hinv : Inv s) (hv : valid s k (.copyCtor j) = true) :
    ∃ s', step s k (.copyCtor j) = .ok (s', .unit) ∧ s'.objs[k]? = s.objs[j]?
      ∧ ∀ i, i ≠ k → s'.objs[i]? = s.objs[i]? := copy_value_frame s k j hinv hv

example : valid ((Sys.init .sv 4 .nt).setObj 1 [1, 2, 3]) 0 (.copyCtor 1) = true := by decide

/-! ## a copy is independent of its source

Stated over interleaved histories: after the copy, any later history of single-object operations — addressed to
the source, to the copy, to the other objects, in any interleaving — gives the copy exactly the contents and the
results its *own* operations produce when run alone from the copied value, and gives the source exactly what its own
operations produce from the state before the copy was made.  This is a theorem about `step` / `run` (it would be
false for a step function in which an operation on one object wrote another one); that the C++ objects really own
their storage is what the harness observes on the same interleaved histories (`@inl`: `data()` lies inside the
object; all four objects are dumped after every line). -/

/-- the projection to object `k` of any interleaved history of single-object operations equals `k`'s own history run
    alone: same results, same final contents; and `k`'s own history touches no other object -/
theorem interleave_projection (k : Nat) (ops : List (Nat × Op)) (s s' : Sys) (outs : List Out)
    (hun : allUnary ops = true) (hrun : run s ops = .ok (s', outs)) :
    ∃ s'', run s (ownOps k ops) = .ok (s'', ownOuts k ops outs) ∧ s''.objs[k]? = s'.objs[k]?
      ∧ ∀ i, i ≠ k → s''.objs[i]? = s.objs[i]? :=
  Tetl.C01.interleave_projection k ops s s' outs hun hrun

/-- conversely, if every object's own history succeeds alone, every interleaving of them succeeds -/
theorem interleave_ok (s : Sys) (ops : List (Nat × Op)) (hun : allUnary ops = true)
    (h : ∀ k, ∃ r, run s (ownOps k ops) = .ok r) : ∃ r, run s ops = .ok r :=
  Tetl.C01.interleave_ok s ops hun h

/-- **a copy is independent of its source, and the source of its copy**: object `k` copy-constructed from `j`,
    then any interleaved history `ops` of single-object operations -/
theorem copy_independent (s s1 s' : Sys) (k j : Nat) (ops : List (Nat × Op)) (outs : List Out)
    (hcopy : step s k (.copyCtor j) = .ok (s1, .unit)) (hun : allUnary ops = true)
    (hrun : run s1 ops = .ok (s', outs)) :
    (∃ sk, run s1 (ownOps k ops) = .ok (sk, ownOuts k ops outs) ∧ sk.objs[k]? = s'.objs[k]?
        ∧ sk.objs[j]? = s.objs[j]?)
    ∧ (∃ sj, run s (ownOps j ops) = .ok (sj, ownOuts j ops outs) ∧ sj.objs[j]? = s'.objs[j]?) :=
  Tetl.C01.copy_independent s s1 s' k j ops outs hcopy hun hrun

-- non-vacuity (`exStart`: object 1 = [1, 2]; `exOps`: source and copy changed alternately, see Independence.lean):
-- the hypotheses of `copy_independent` hold and the two objects end up different
example : allUnary exOps = true ∧
    (match step exStart 0 (.copyCtor 1) with
     | .ok (s1, _) => (match run s1 (exOps.take 4) with
        | .ok (s', outs) => decide (s'.objs = [[9, 1], [2, 7], [], []] ∧ outs = [.unit, .unit, .it 0, .it 0])
        | .error _ => false)
     | .error _ => false) = true := by decide

/-! ## the observers

The observers are model functions of their own (Tetl/C01/Observe.lean: `size`, `empty`, `full`, `capacity`, `max_size`,
`begin()..end()` as a forward walk over offsets, `rbegin()..rend()` through `reverse_iterator`'s `*--tmp`, `data()[i]`,
`operator[]` / `front` / `back` through `detail::index` and its contract check, inplace_vector's and stack's own
versions); the driver prints every object through them. -/

/-- what the observers of `static_vector` return, in terms of the abstract list -/
theorem observers_refine (cap : Nat) (d : V) :
    size d = d.length ∧ (empty d = true ↔ d = []) ∧ (full cap d = true ↔ d.length = cap)
      ∧ capacity cap = cap ∧ maxSize cap = cap
      ∧ iterate d = .ok d ∧ riterate d = .ok d.reverse
      ∧ (∀ i (h : i < d.length), index d i = .ok d[i] ∧ dataAt d i = .ok d[i])
      ∧ (∀ h : d ≠ [], svFront d = .ok (d.head h) ∧ svBack d = .ok (d.getLast h)) :=
  Tetl.C01.observers_refine cap d

/-- … of `inplace_vector` and `stack`; an index `≥ size()` stops at the contract check, nothing is read -/
theorem observers_refine_ipv_stk (d : V) :
    (∀ i (h : i < d.length), ipvIndex d i = .ok d[i])
      ∧ (∀ i, d.length ≤ i → ∃ s, ipvIndex d i = .error (.pre s))
      ∧ (∀ i, d.length ≤ i → ∃ s, index d i = .error (.pre s))
      ∧ (∀ h : d ≠ [], ipvFront d = .ok (d.head h) ∧ ipvBack d = .ok (d.getLast h)
          ∧ front d = .ok (d.head h) ∧ back d = .ok (d.getLast h) ∧ stkTop d = .ok (d.getLast h))
      ∧ stkSize d = d.length ∧ (stkEmpty d = true ↔ d = []) :=
  Tetl.C01.observers_refine_ipv_stk d

/-- the capacity-0 storages answer with constants (`size() = 0`, `empty()`, `full()`): the same as the general
    observers on the only state such a vector has -/
theorem observers_zero_capacity (d : V) (hd : d.length ≤ 0) :
    size d = zeroSize ∧ capacity 0 = zeroCapacity ∧ maxSize 0 = zeroCapacity
      ∧ empty d = zeroEmpty ∧ full 0 d = zeroFull := zero_storage_agrees d hd

example : iterate [4, 5, 6] = .ok [4, 5, 6] ∧ riterate [4, 5, 6] = .ok [6, 5, 4] ∧ svFront [4, 5, 6] = .ok 4
    ∧ svBack [4, 5, 6] = .ok 6 ∧ full 3 [4, 5, 6] = true ∧ empty [4, 5, 6] = false := by decide

/-! ## moved-from objects

"A moved-from source stays valid": the standard leaves its value unspecified (spec `none`); the model says what
etl leaves there, and the harness compares that with the implementation on every line.  static_vector / stack keep
the size, every element is in the moved-from state of its type (`mvd`: an `int` keeps its value, `NT` shows
`MOVED`, a handle `EMPTIED`); inplace_vector of a non-trivial type is emptied (`other._size = 0`), of a trivial type
is untouched (defaulted move).  In every case the object satisfies `size ≤ capacity` again (`Inv`, part of
`step_refines`) and takes every operation whose precondition does not mention its contents (`Spec.stateFree`). -/

/-- move construction / move assignment of static_vector: the destination gets exactly the old contents of the
    source; the source keeps its size, its elements are moved-from -/
theorem moved_from_static_vector (cap : Nat) (k : Kind) (d o : V) (hc : cap < 2 ^ 64) (hn : o.length ≤ cap) :
    moveCtor cap k o = .ok (o, o.map (mvd k)) ∧ moveAssign cap k d o = .ok (o, o.map (mvd k))
      ∧ (o.map (mvd k)).length = o.length ∧ (k = .triv → o.map (mvd k) = o) := by
  refine ⟨moveCtor_eq k o hc hn, moveAssign_eq k d o hc hn, by simp, ?_⟩
  intro hk; subst hk
  show o.map (fun x => x) = o
  simp

/-- `v = etl::move(v)` leaves a static_vector empty (the standard: valid but unspecified) -/
theorem moved_from_self (cap : Nat) (d : V) (hc : cap < 2 ^ 64) : moveAssignSelf cap d = .ok [] :=
  moveAssignSelf_eq d hc

/-- move construction of inplace_vector: trivial `T` — the source is untouched; otherwise the source is empty -/
theorem moved_from_inplace_vector (cap : Nat) (k : Kind) (o : V) (h : o.length ≤ cap) :
    ipvMoveCtor cap k o = .ok (o, match k with | .triv | .kp => o | _ => []) := ipvMoveCtor_eq k o h

/-- a moved-from object of any of the three types takes every operation without a precondition on its contents:
    on the spec side it is unspecified (`none`), the step is valid by the standard's book-keeping, hence (by
    `step_refines_spec`) the model executes it without error and ends in the specified value -/
theorem moved_from_usable (s : Sys) (sp : Spec.SSys) (k : Nat) (op : Op) (hinv : Inv s) (hrel : Rel s sp)
    (hk : k < sp.objs.length) (hmoved : Spec.getObj sp k = none) (hsup : supports s.ty op = true)
    (hb : isBinary op = none) (hfree : Spec.stateFree op = true) (hpre : valid1 sp.cap op [] = true) :
    ∃ s' o, step s k op = .ok (s', o) ∧ Inv s' ∧ Rel s' (Spec.step sp k op).1 := by
  have hv : Spec.valid s.ty sp k op = true := by
    simp only [Spec.valid, hsup, Bool.true_and]
    rw [specValidPre_unary sp k op hb]
    simp [hk, hmoved, hfree, hpre]
  obtain ⟨s', o, h1, h2, _, _, _, _, h7, _⟩ := step_refines_spec s sp k op hinv hrel hv
  exact ⟨s', o, h1, h2, h7⟩

example : moveCtor 3 .nt [1, 2] = .ok ([1, 2], [MOVED, MOVED]) ∧ moveCtor 3 .hd [1, 2] = .ok ([1, 2], [EMPTIED, EMPTIED])
    ∧ moveCtor 3 .triv [1, 2] = .ok ([1, 2], [1, 2]) ∧ ipvMoveCtor 3 .nt [1, 2] = .ok ([1, 2], [])
    ∧ ipvMoveCtor 3 .triv [1, 2] = .ok ([1, 2], [1, 2]) := by decide

/-! ## known findings -/

/-- A freshly created object is empty, *except* a default-initialised `inplace_vector<T, N>`, `N ≠ 0`
    (known finding F-C01-inplace-vector-default-init): the excluded class is exactly
    `ty = ipv ∧ cap ≠ 0 ∧ default-initialisation`. -/
theorem initSize_partial (ty : Ty) (cap : Nat) (i : Init)
    (h : ¬ (ty = .ipv ∧ cap ≠ 0 ∧ i ≠ .value)) : initSize ty cap i = 0 := by
  cases i with
  | value => rfl
  | dflt g =>
    simp only [initSize]
    split
    · rename_i hc
      exact absurd ⟨hc.1, hc.2, by simp⟩ h
    · rfl

example : ¬ (Ty.sv = .ipv ∧ (4 : Nat) ≠ 0 ∧ Init.dflt 170 ≠ .value) := by decide

/-- the excluded class contains a failing input: storage bytes 0xAA give `size() = 170` at capacity 4 -/
theorem initSize_counterexample : initSize .ipv 4 (.dflt 0xAA) = 170 ∧ (170 : Nat) > 4 := by decide

/-- **inplace_vector, what is proved and what is not** (known finding
    F-C01-inplace-vector-missing-members).  std::inplace_vector offers every operation of the property's list;
    for an operation whose standard precondition holds in the spec state the model of etl::inplace_vector
    refines the spec *unless* the operation is in the excluded class `supports .ipv op = false`
    (etl::inplace_vector has no such member). -/
theorem ipv_step_partial (s : Sys) (sp : Spec.SSys) (k : Nat) (op : Op)
    (hinv : Inv s) (hrel : Rel s sp) (ht : s.ty = .ipv) (hpre : Spec.validPre sp k op = true)
    (hcls : ¬ (supports .ipv op = false)) :
    ∃ s' o, step s k op = .ok (s', o) ∧ Inv s' ∧ s'.ty = s.ty ∧ s'.cap = s.cap ∧ s'.kind = s.kind
      ∧ s'.objs.length = s.objs.length
      ∧ Rel s' (Spec.step sp k op).1 ∧ (∀ o', (Spec.step sp k op).2 = some o' → o = o') := by
  refine step_refines s sp k op hinv hrel (valid_of_spec hrel k op ?_)
  simp only [Spec.valid, ht, hpre, Bool.and_true]
  simpa using hcls

example : Spec.validPre (Spec.SSys.init 4) 0 (.tryPush 0 7) = true ∧ ¬ (supports .ipv (.tryPush 0 7) = false) := by decide

/-- the excluded class is not empty and the exclusion is needed: `insert(begin(), 2, 7)` into an empty
    vector of capacity 4 meets the standard precondition, the standard prescribes `[7, 7]` and the
    iterator `begin()`, the model of etl::inplace_vector has no such member -/
theorem ipv_missing_counterexample :
    Spec.validPre (Spec.SSys.init 4) 0 (.insertFill 0 2 7) = true
      ∧ supports .ipv (.insertFill 0 2 7) = false
      ∧ step (Sys.init .ipv 4 .triv) 0 (.insertFill 0 2 7) = .error (.pre "the type has no such member")
      ∧ (Spec.step (Spec.SSys.init 4) 0 (.insertFill 0 2 7)).2 = some (.it 0)
      ∧ Spec.getObj (Spec.step (Spec.SSys.init 4) 0 (.insertFill 0 2 7)).1 0 = some [7, 7] :=
  ⟨by decide, rfl, rfl, by decide, by decide⟩

/-- the excluded class, member by member: everything except `try_*`, `unchecked_*`, `pop_back`, `clear`,
    copy and move construction (and the observers) -/
theorem ipv_missing_members :
    (∀ ov x, supports .ipv (.push ov x) = false) ∧ (∀ ov p x, supports .ipv (.insert1 ov p x) = false)
      ∧ (∀ p n x, supports .ipv (.insertFill p n x) = false) ∧ (∀ p xs, supports .ipv (.insertRange p xs) = false)
      ∧ (∀ p xs, supports .ipv (.moveInsert p xs) = false) ∧ (∀ p, supports .ipv (.erase p) = false)
      ∧ (∀ f l, supports .ipv (.eraseRange f l) = false) ∧ (∀ n, supports .ipv (.resize n) = false)
      ∧ (∀ n x, supports .ipv (.resizeVal n x) = false) ∧ (∀ n x, supports .ipv (.assignFill n x) = false)
      ∧ (∀ xs, supports .ipv (.assignRange xs) = false) ∧ (∀ n, supports .ipv (.ctorN n) = false)
      ∧ (∀ n x, supports .ipv (.ctorNVal n x) = false) ∧ (∀ xs, supports .ipv (.ctorRange xs) = false)
      ∧ (∀ j, supports .ipv (.copyAssign j) = false) ∧ (∀ j, supports .ipv (.moveAssign j) = false)
      ∧ (∀ j, supports .ipv (.swap j) = false) ∧ (∀ x, supports .ipv (.eraseVal x) = false)
      ∧ (∀ m r, supports .ipv (.eraseIf m r) = false) ∧ (∀ j, supports .ipv (.cmp j) = false)
      ∧ (∀ ov i, supports .ipv (.pushA ov i) = false) ∧ (∀ ov, supports .ipv (.pushTop ov) = false)
      ∧ (∀ ov p i, supports .ipv (.insertA ov p i) = false) ∧ (∀ p n i, supports .ipv (.insertFillA p n i) = false)
      ∧ (∀ n i, supports .ipv (.resizeValA n i) = false) := by
  refine ⟨?_, ?_, ?_, ?_, ?_, ?_, ?_, ?_, ?_, ?_, ?_, ?_, ?_, ?_, ?_, ?_, ?_, ?_, ?_, ?_, ?_, ?_, ?_, ?_, ?_⟩ <;> intros <;> rfl

/-- … and the members it has -/
theorem ipv_present_members :
    (∀ ov x, supports .ipv (.tryPush ov x) = true) ∧ (∀ ov x, supports .ipv (.unchecked ov x) = true)
      ∧ (∀ ov i, supports .ipv (.tryPushA ov i) = true) ∧ (∀ ov i, supports .ipv (.uncheckedA ov i) = true)
      ∧ supports .ipv .pop = true ∧ supports .ipv .clear = true ∧ (∀ j, supports .ipv (.copyCtor j) = true)
      ∧ (∀ j, supports .ipv (.moveCtor j) = true) ∧ supports .ipv .dump = true := by
  refine ⟨?_, ?_, ?_, ?_, rfl, rfl, ?_, ?_, rfl⟩ <;> intros <;> rfl

/-- inplace_vector offers no assignment (known finding F-C01-inplace-vector-not-assignable): the
    histories of that type contain none -/
theorem ipv_assign_unsupported (j : Nat) :
    supports .ipv (.copyAssign j) = false ∧ supports .ipv (.moveAssign j) = false := ⟨rfl, rfl⟩

end Tetl.C01.Props
