/-
C01 — "a copy is independent of its source", as a projection theorem over interleaved histories.

A history of single-object operations on any objects, projected to one object `k`, is `k`'s own history run
alone: same outputs, same final contents (`interleave_projection`); `k`'s own history touches no other object.
Applied to the state after a copy construction (`copy_independent`): whatever is done afterwards to the source
(and to any other object) is invisible in the copy, whose outputs and final value are those of its own
operations started from the copied value; and the source behaves as if the copy had never been made.
The converse (`interleave_ok`): if every object's own history succeeds, so does every interleaving.
-/
import TetlProofs.C01.Frame
namespace Tetl.C01
open Tetl

/-- the steps of a history that address object `k` -/
def ownOps (k : Nat) (ops : List (Nat × Op)) : List (Nat × Op) := ops.filter (fun kop => kop.1 == k)

/-- every step is a single-object operation (names no second object) -/
def allUnary (ops : List (Nat × Op)) : Bool := ops.all (fun kop => (isBinary kop.2).isNone)

/-- the outputs of the steps that address object `k`, in order -/
def ownOuts (k : Nat) : List (Nat × Op) → List Out → List Out
  | (k', _) :: ops, o :: outs => if k' == k then o :: ownOuts k ops outs else ownOuts k ops outs
  | _, _ => []

/-! ### reads are determined by the slot -/

theorem rd_of_getElem?_some {α} {l : List α} {k : Nat} {d : α} (h : l[k]? = some d) : rd l k = .ok d := by
  unfold rd; rw [h]

theorem rd_of_getElem?_none {α} {l : List α} {k : Nat} (h : l[k]? = none) : rd l k = .error .oob := by
  unfold rd; rw [h]

theorem setObj_get_self (s : Sys) (k : Nat) (d r : V) (h : s.objs[k]? = some d) :
    (s.setObj k r).objs[k]? = some r := by
  have hk : k < s.objs.length := by
    cases Nat.lt_or_ge k s.objs.length with
    | inl h1 => exact h1
    | inr h1 => rw [List.getElem?_eq_none_iff.mpr h1] at h; cases h
  show (s.objs.set k r)[k]? = some r
  exact List.getElem?_set_self hk

theorem setObj_get_ne (s : Sys) (k i : Nat) (r : V) (h : i ≠ k) :
    (s.setObj k r).objs[i]? = s.objs[i]? := by
  show (s.objs.set k r)[i]? = s.objs[i]?
  exact List.getElem?_set_ne (fun e => h e.symm)

/-! ### a successful single-object step, characterised -/

theorem ite_bind_eq {ε α β : Type} {c : Prop} [Decidable c] (a b : Except ε α) (f : α → Except ε β) :
    (if c then a >>= f else b >>= f) = ((if c then a else b) >>= f) := by
  split <;> rfl

/-- the function a single-object operation applies to the contents of its object -/
def applyOwn (s : Sys) (op : Op) (d : V) : Except Err (V × Out) :=
  if s.ty = .ipv then step1Ipv s.cap op d else step1 s.cap s.kind op d

theorem step_unary_ok {s s' : Sys} {k : Nat} {op : Op} {o : Out} (hb : isBinary op = none)
    (h : step s k op = .ok (s', o)) :
    ∃ d r, supports s.ty op = true ∧ s.objs[k]? = some d ∧ applyOwn s op d = .ok (r, o) ∧ s' = s.setObj k r := by
  rw [step_unary s k op hb] at h
  cases hs : supports s.ty op with
  | false => rw [hs] at h; cases h
  | true =>
    rw [hs] at h
    simp only [Bool.not_true, Bool.false_eq_true, if_false] at h
    cases hd : s.objs[k]? with
    | none => rw [rd_of_getElem?_none hd] at h; cases h
    | some d =>
      rw [rd_of_getElem?_some hd] at h
      simp only [ok_bind] at h
      rw [ite_bind_eq] at h
      change (applyOwn s op d >>= fun r => (Except.ok (s.setObj k r.1, r.2) : Except Err (Sys × Out))) = _ at h
      cases hr : applyOwn s op d with
      | error e => rw [hr] at h; cases h
      | ok r =>
        rw [hr] at h
        simp only [ok_bind] at h
        injection h with h
        injection h with h1 h2
        obtain ⟨r1, r2⟩ := r
        simp only at h1 h2
        subst h2
        exact ⟨d, r1, rfl, rfl, hr, h1.symm⟩

theorem step_unary_mk {s : Sys} {k : Nat} {op : Op} {o : Out} {d r : V} (hb : isBinary op = none)
    (hs : supports s.ty op = true) (hd : s.objs[k]? = some d) (hr : applyOwn s op d = .ok (r, o)) :
    step s k op = .ok (s.setObj k r, o) := by
  rw [step_unary s k op hb, hs]
  simp only [Bool.not_true, Bool.false_eq_true, if_false]
  rw [rd_of_getElem?_some hd]
  simp only [ok_bind]
  rw [ite_bind_eq]
  change (applyOwn s op d >>= fun r => (Except.ok (s.setObj k r.1, r.2) : Except Err (Sys × Out))) = _
  rw [hr]
  rfl

/-- two systems of the same type, capacity and element kind that hold the same object `k` -/
def Agree (k : Nat) (s t : Sys) : Prop :=
  s.ty = t.ty ∧ s.cap = t.cap ∧ s.kind = t.kind ∧ s.objs[k]? = t.objs[k]?

theorem Agree.refl (k : Nat) (s : Sys) : Agree k s s := ⟨rfl, rfl, rfl, rfl⟩

theorem Agree.symm {k : Nat} {s t : Sys} (h : Agree k s t) : Agree k t s :=
  ⟨h.1.symm, h.2.1.symm, h.2.2.1.symm, h.2.2.2.symm⟩

theorem Agree.trans {k : Nat} {s t u : Sys} (h : Agree k s t) (h' : Agree k t u) : Agree k s u :=
  ⟨h.1.trans h'.1, h.2.1.trans h'.2.1, h.2.2.1.trans h'.2.2.1, h.2.2.2.trans h'.2.2.2⟩

/-- a single-object step changes neither type, capacity nor element kind -/
theorem step_unary_params {s s' : Sys} {k : Nat} {op : Op} {o : Out} (hb : isBinary op = none)
    (h : step s k op = .ok (s', o)) : s'.ty = s.ty ∧ s'.cap = s.cap ∧ s'.kind = s.kind := by
  obtain ⟨d, r, _, _, _, he⟩ := step_unary_ok hb h
  subst he
  exact ⟨rfl, rfl, rfl⟩

/-- a single-object step on another object leaves `k` (and the parameters) alone -/
theorem step_unary_other {s s' : Sys} {k k' : Nat} {op : Op} {o : Out} (hb : isBinary op = none)
    (h : step s k' op = .ok (s', o)) (hk : k ≠ k') : Agree k s' s := by
  obtain ⟨h1, h2, h3⟩ := step_unary_params hb h
  exact ⟨h1, h2, h3, unary_frame s s' k' op o hb h k hk⟩

/-- Locality of a single-object operation: its outcome — success, output, new contents of the object — depends
    on the system only through its type, capacity, element kind and the contents of the object addressed. -/
theorem step_unary_local (s1 s2 s1' : Sys) (k : Nat) (op : Op) (o : Out) (hb : isBinary op = none)
    (hty : s1.ty = s2.ty) (hcap : s1.cap = s2.cap) (hkind : s1.kind = s2.kind)
    (hk : s1.objs[k]? = s2.objs[k]?) (h : step s1 k op = .ok (s1', o)) :
    ∃ s2', step s2 k op = .ok (s2', o) ∧ s2'.objs[k]? = s1'.objs[k]?
      ∧ s2'.ty = s2.ty ∧ s2'.cap = s2.cap ∧ s2'.kind = s2.kind
      ∧ s1'.ty = s1.ty ∧ s1'.cap = s1.cap ∧ s1'.kind = s1.kind := by
  obtain ⟨d, r, hs, hd, hr, he⟩ := step_unary_ok hb h
  subst he
  have hd2 : s2.objs[k]? = some d := hk ▸ hd
  have hr2 : applyOwn s2 op d = .ok (r, o) := by
    unfold applyOwn at hr ⊢
    rw [← hty, ← hcap, ← hkind]
    exact hr
  refine ⟨s2.setObj k r, step_unary_mk hb (hty ▸ hs) hd2 hr2, ?_, rfl, rfl, rfl, rfl, rfl, rfl⟩
  rw [setObj_get_self s2 k d r hd2, setObj_get_self s1 k d r hd]

theorem step_unary_agree {s t s' : Sys} {k : Nat} {op : Op} {o : Out} (hb : isBinary op = none)
    (ha : Agree k s t) (h : step s k op = .ok (s', o)) :
    ∃ t', step t k op = .ok (t', o) ∧ Agree k s' t' := by
  obtain ⟨t', h1, h2, h3, h4, h5, h6, h7, h8⟩ :=
    step_unary_local s t s' k op o hb ha.1 ha.2.1 ha.2.2.1 ha.2.2.2 h
  exact ⟨t', h1, h6.trans (ha.1.trans h3.symm), h7.trans (ha.2.1.trans h4.symm),
    h8.trans (ha.2.2.1.trans h5.symm), h2.symm⟩

/-! ### runs -/

theorem run_cons_ok {s s' : Sys} {k : Nat} {op : Op} {rest : List (Nat × Op)} {outs : List Out}
    (h : run s ((k, op) :: rest) = .ok (s', outs)) :
    ∃ s1 o outs', step s k op = .ok (s1, o) ∧ run s1 rest = .ok (s', outs') ∧ outs = o :: outs' := by
  unfold run at h
  cases h1 : step s k op with
  | error e => rw [h1] at h; cases h
  | ok r =>
    rw [h1] at h
    simp only [ok_bind] at h
    cases h2 : run r.1 rest with
    | error e => rw [h2] at h; cases h
    | ok r2 =>
      rw [h2] at h
      simp only [ok_bind] at h
      injection h with h
      injection h with h3 h4
      obtain ⟨s1, o⟩ := r
      obtain ⟨s2, outs'⟩ := r2
      simp only at h3 h4 h2
      subst h3
      exact ⟨s1, o, outs', rfl, h2, h4.symm⟩

theorem run_cons_mk {s s1 s' : Sys} {k : Nat} {op : Op} {o : Out} {rest : List (Nat × Op)} {outs : List Out}
    (h1 : step s k op = .ok (s1, o)) (h2 : run s1 rest = .ok (s', outs)) :
    run s ((k, op) :: rest) = .ok (s', o :: outs) := by
  unfold run
  rw [h1]
  simp only [ok_bind]
  rw [h2]
  rfl

theorem allUnary_cons {k : Nat} {op : Op} {rest : List (Nat × Op)} (h : allUnary ((k, op) :: rest) = true) :
    isBinary op = none ∧ allUnary rest = true := by
  unfold allUnary at h ⊢
  rw [List.all_cons, Bool.and_eq_true] at h
  exact ⟨Option.isNone_iff_eq_none.mp h.1, h.2⟩

theorem ownOps_cons_self (k : Nat) (op : Op) (rest : List (Nat × Op)) :
    ownOps k ((k, op) :: rest) = (k, op) :: ownOps k rest := by
  unfold ownOps
  rw [List.filter_cons]
  simp only [beq_self_eq_true, if_true]

theorem ownOps_cons_ne {k k' : Nat} (op : Op) (rest : List (Nat × Op)) (h : k' ≠ k) :
    ownOps k ((k', op) :: rest) = ownOps k rest := by
  unfold ownOps
  rw [List.filter_cons]
  have : (k' == k) = false := beq_false_of_ne h
  simp only [this, Bool.false_eq_true, if_false]

theorem ownOuts_cons_self (k : Nat) (op : Op) (rest : List (Nat × Op)) (o : Out) (outs : List Out) :
    ownOuts k ((k, op) :: rest) (o :: outs) = o :: ownOuts k rest outs := by
  simp only [ownOuts, beq_self_eq_true, if_true]

theorem ownOuts_cons_ne {k k' : Nat} (op : Op) (rest : List (Nat × Op)) (o : Out) (outs : List Out)
    (h : k' ≠ k) : ownOuts k ((k', op) :: rest) (o :: outs) = ownOuts k rest outs := by
  have : (k' == k) = false := beq_false_of_ne h
  simp only [ownOuts, this, Bool.false_eq_true, if_false]

/-- The projection theorem, over two start systems that agree on the parameters and on object `k`: the
    interleaved run from `s` and `k`'s own history from `t` give the same outputs at `k` and the same final
    contents of `k`; the own history leaves every other object of `t` as it was. -/
theorem run_own_local (k : Nat) : ∀ (ops : List (Nat × Op)) (s t s' : Sys) (outs : List Out),
    allUnary ops = true → Agree k s t → run s ops = .ok (s', outs) →
    ∃ t', run t (ownOps k ops) = .ok (t', ownOuts k ops outs) ∧ Agree k s' t'
      ∧ ∀ i, i ≠ k → t'.objs[i]? = t.objs[i]? := by
  intro ops
  induction ops with
  | nil =>
    intro s t s' outs _ ha h
    unfold run at h
    injection h with h
    injection h with h1 h2
    subst h1
    exact ⟨t, rfl, ha, fun _ _ => rfl⟩
  | cons kop rest ih =>
    intro s t s' outs hun ha h
    obtain ⟨k', op⟩ := kop
    obtain ⟨hb, hun'⟩ := allUnary_cons hun
    obtain ⟨s1, o, outs', h1, h2, h3⟩ := run_cons_ok h
    subst h3
    by_cases hk : k' = k
    · subst hk
      obtain ⟨t1, ht1, ha1⟩ := step_unary_agree hb ha h1
      obtain ⟨t', hr, ha', hfr⟩ := ih s1 t1 s' outs' hun' ha1 h2
      refine ⟨t', ?_, ha', ?_⟩
      · rw [ownOps_cons_self, ownOuts_cons_self]
        exact run_cons_mk ht1 hr
      · intro i hi
        rw [hfr i hi]
        exact unary_frame t t1 k' op o hb ht1 i hi
    · have ha1 : Agree k s1 t := (step_unary_other hb h1 (fun e => hk e.symm)).trans ha
      obtain ⟨t', hr, ha', hfr⟩ := ih s1 t s' outs' hun' ha1 h2
      refine ⟨t', ?_, ha', hfr⟩
      rw [ownOps_cons_ne op rest hk, ownOuts_cons_ne op rest o outs' hk]
      exact hr

/-- **Projection of an interleaved history.**  For any history of single-object operations on any objects, the
    projection to object `k` — the outputs of the steps addressed to `k` and the final contents of `k` — equals
    `k`'s own history run alone from the same start; and `k`'s own history touches no other object. -/
theorem interleave_projection (k : Nat) : ∀ (ops : List (Nat × Op)) (s s' : Sys) (outs : List Out),
    allUnary ops = true → run s ops = .ok (s', outs) →
    ∃ s'', run s (ownOps k ops) = .ok (s'', ownOuts k ops outs) ∧ s''.objs[k]? = s'.objs[k]?
      ∧ ∀ i, i ≠ k → s''.objs[i]? = s.objs[i]? := by
  intro ops s s' outs hun h
  obtain ⟨t', hr, ha, hfr⟩ := run_own_local k ops s s s' outs hun (Agree.refl k s) h
  exact ⟨t', hr, ha.2.2.2.symm, hfr⟩

/-! ### the copy -/

/-- what a successful copy construction does to the system: nothing but replacing object `k` -/
theorem copyCtor_ok {s s1 : Sys} {k j : Nat} {o : Out} (h : step s k (.copyCtor j) = .ok (s1, o)) :
    j ≠ k ∧ ∃ d, s1 = s.setObj k d := by
  unfold step at h
  split at h
  · cases h
  · simp only at h
    by_cases hjk : j = k
    · rw [if_pos hjk] at h; cases h
    · rw [if_neg hjk] at h
      refine ⟨hjk, ?_⟩
      cases h1 : rd s.objs j with
      | error e => rw [h1] at h; cases h
      | ok oj =>
        rw [h1] at h
        simp only [ok_bind] at h
        cases h2 : rd s.objs k with
        | error e => rw [h2] at h; cases h
        | ok dk =>
          rw [h2] at h
          simp only [ok_bind] at h
          rw [ite_bind_eq] at h
          cases h3 : (if s.ty = .ipv then ipvCopyCtor s.cap s.kind oj else copyCtor s.cap oj) with
          | error e => rw [h3] at h; cases h
          | ok d =>
            rw [h3] at h
            simp only [ok_bind] at h
            injection h with h
            injection h with h4 _
            exact ⟨d, h4.symm⟩

/-- **A copy is independent of its source.**  After `obj k = T(obj j)`, run any interleaved history of
    single-object operations on any objects (the source `j`, the copy `k`, the others).
    The copy: its outputs and its final value are those of its own operations alone, started from the copied
    value — nothing done to the source shows; and its own operations leave the source as it was before the copy.
    The source: its outputs and final value are those of its own operations run from the state *before* the
    copy — as if the copy had never been made. -/
theorem copy_independent (s s1 s' : Sys) (k j : Nat) (ops : List (Nat × Op)) (outs : List Out)
    (hcopy : step s k (.copyCtor j) = .ok (s1, .unit)) (hun : allUnary ops = true)
    (hrun : run s1 ops = .ok (s', outs)) :
    (∃ sk, run s1 (ownOps k ops) = .ok (sk, ownOuts k ops outs) ∧ sk.objs[k]? = s'.objs[k]?
        ∧ sk.objs[j]? = s.objs[j]?)
    ∧ (∃ sj, run s (ownOps j ops) = .ok (sj, ownOuts j ops outs) ∧ sj.objs[j]? = s'.objs[j]?) := by
  obtain ⟨hjk, d, hd⟩ := copyCtor_ok hcopy
  subst hd
  constructor
  · obtain ⟨sk, h1, h2, h3⟩ := interleave_projection k ops _ s' outs hun hrun
    refine ⟨sk, h1, h2, ?_⟩
    rw [h3 j hjk]
    exact setObj_get_ne s k j d hjk
  · have ha : Agree j (s.setObj k d) s := ⟨rfl, rfl, rfl, setObj_get_ne s k j d hjk⟩
    obtain ⟨sj, h1, h2, _⟩ := run_own_local j ops _ s s' outs hun ha hrun
    exact ⟨sj, h1, h2.2.2.2.symm⟩

/-- with the value of the copy spelled out (`copy_value_frame`): for a valid copy construction
    in a system satisfying the invariant, the copy's own history can be run from *any* system of the same
    parameters whose object `k` holds the source's value -/
theorem copy_independent_value (s s' : Sys) (k j : Nat) (ops : List (Nat × Op)) (outs : List Out)
    (hinv : Inv s) (hv : valid s k (.copyCtor j) = true) (hun : allUnary ops = true) :
    ∃ s1, step s k (.copyCtor j) = .ok (s1, .unit) ∧ s1.objs[k]? = s.objs[j]? ∧
      (run s1 ops = .ok (s', outs) →
        ∀ t : Sys, t.ty = s.ty → t.cap = s.cap → t.kind = s.kind → t.objs[k]? = s.objs[j]? →
          ∃ t', run t (ownOps k ops) = .ok (t', ownOuts k ops outs) ∧ t'.objs[k]? = s'.objs[k]?) := by
  obtain ⟨s1, h1, h2, _⟩ := copy_value_frame s k j hinv hv
  refine ⟨s1, h1, h2, ?_⟩
  intro hrun t e1 e2 e3 e4
  obtain ⟨_, d, hd⟩ := copyCtor_ok h1
  have ha : Agree k s1 t := by
    refine ⟨?_, ?_, ?_, h2.trans e4.symm⟩
    · rw [hd]; exact e1.symm
    · rw [hd]; exact e2.symm
    · rw [hd]; exact e3.symm
  obtain ⟨t', h3, h4, _⟩ := run_own_local k ops s1 t s' outs hun ha hrun
  exact ⟨t', h3, h4.2.2.2.symm⟩

/-! ### the converse: own histories succeed ⇒ the interleaving succeeds -/

theorem interleave_ok_gen : ∀ (ops : List (Nat × Op)) (s : Sys), allUnary ops = true →
    (∀ k, ∃ t, Agree k t s ∧ ∃ r, run t (ownOps k ops) = .ok r) → ∃ r, run s ops = .ok r := by
  intro ops
  induction ops with
  | nil => intro s _ _; exact ⟨(s, []), rfl⟩
  | cons kop rest ih =>
    intro s hun hall
    obtain ⟨k', op⟩ := kop
    obtain ⟨hb, hun'⟩ := allUnary_cons hun
    obtain ⟨t, hat, ⟨tf, touts⟩, hrt⟩ := hall k'
    rw [ownOps_cons_self] at hrt
    obtain ⟨t1, o, outs', ht1, ht2, _⟩ := run_cons_ok hrt
    obtain ⟨s1, hs1, ha1⟩ := step_unary_agree hb hat ht1
    have hrest : ∃ r, run s1 rest = .ok r := by
      apply ih s1 hun'
      intro k
      by_cases hk : k = k'
      · subst hk
        exact ⟨t1, ha1, (tf, outs'), ht2⟩
      · obtain ⟨u, hau, r, hru⟩ := hall k
        rw [ownOps_cons_ne op rest (fun e => hk e.symm)] at hru
        exact ⟨u, hau.trans (step_unary_other hb hs1 hk).symm, r, hru⟩
    obtain ⟨⟨sf, outs⟩, hr⟩ := hrest
    exact ⟨(sf, o :: outs), run_cons_mk hs1 hr⟩

/-- if every object's own history succeeds when run alone, every interleaving of them succeeds -/
theorem interleave_ok (s : Sys) (ops : List (Nat × Op)) (hun : allUnary ops = true)
    (h : ∀ k, ∃ r, run s (ownOps k ops) = .ok r) : ∃ r, run s ops = .ok r :=
  interleave_ok_gen ops s hun (fun k => ⟨s, Agree.refl k s, h k⟩)

/-! ### non-vacuity -/

/-- the start: object 1 holds `[1, 2]`, the others are empty -/
def exStart : Sys := (Sys.init .sv 3 .nt).setObj 1 [1, 2]

/-- source (object 1) and copy (object 0) changed alternately -/
def exOps : List (Nat × Op) :=
  [(1, .push 0 7), (0, .pop), (1, .erase 0), (0, .insertFill 0 1 9), (1, .clear), (0, .eraseIf 2 1)]

example : allUnary exOps = true := by decide

/-- the copy succeeds and gives object 0 the value `[1, 2]` -/
example : (match step exStart 0 (.copyCtor 1) with
    | .ok (s1, o) => decide (s1.objs = [[1, 2], [1, 2], [], []] ∧ o = .unit)
    | .error _ => false) = true := by decide

/-- the interleaved history after the copy succeeds; the copy ends as `[]` (pop → `[1]`, insert 9 → `[9, 1]`,
    erase odd → `[]`), the source as `[]` (push 7, erase front, clear), with these outputs -/
example : (match step exStart 0 (.copyCtor 1) with
    | .ok (s1, _) =>
      (match run s1 exOps with
       | .ok (s', outs) => decide (s'.objs = [[], [], [], []] ∧
           outs = [.unit, .unit, .it 0, .it 0, .unit, .count 2])
       | .error _ => false)
    | .error _ => false) = true := by decide

/-- a history whose two objects end differently: the copy `[9, 1]`, the source `[2, 7]` -/
example : (match step exStart 0 (.copyCtor 1) with
    | .ok (s1, _) =>
      (match run s1 [(1, .push 0 7), (0, .pop), (1, .erase 0), (0, .insertFill 0 1 9)] with
       | .ok (s', outs) => decide (s'.objs = [[9, 1], [2, 7], [], []] ∧
           outs = [.unit, .unit, .it 0, .it 0])
       | .error _ => false)
    | .error _ => false) = true := by decide

/-- the copy's own history run alone (from the state after the copy) gives the same `[9, 1]` and the outputs
    `ownOuts 0`; the source's own history run from the state *before* the copy gives the same `[2, 7]` -/
example : (match step exStart 0 (.copyCtor 1) with
    | .ok (s1, _) =>
      (match run s1 (ownOps 0 [(1, .push 0 7), (0, .pop), (1, .erase 0), (0, .insertFill 0 1 9)]) with
       | .ok (sk, outs) => decide (sk.objs = [[9, 1], [1, 2], [], []] ∧ outs = [.unit, .it 0])
       | .error _ => false)
    | .error _ => false) = true
  ∧ (match run exStart (ownOps 1 [(1, .push 0 7), (0, .pop), (1, .erase 0), (0, .insertFill 0 1 9)]) with
       | .ok (sj, outs) => decide (sj.objs = [[], [2, 7], [], []] ∧ outs = [.unit, .it 0])
       | .error _ => false) = true := by decide

example : ownOps 0 exOps = [(0, .pop), (0, .insertFill 0 1 9), (0, .eraseIf 2 1)]
    ∧ ownOps 1 exOps = [(1, .push 0 7), (1, .erase 0), (1, .clear)]
    ∧ ownOps 2 exOps = [] := ⟨rfl, rfl, rfl⟩

example : ownOuts 0 exOps [.unit, .unit, .it 0, .it 0, .unit, .count 2] = [.unit, .it 0, .count 2]
    ∧ ownOuts 1 exOps [.unit, .unit, .it 0, .it 0, .unit, .count 2] = [.unit, .it 0, .unit] := by decide

end Tetl.C01
