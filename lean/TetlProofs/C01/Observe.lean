/-
C01 — the observers (`Tetl.C01.Observe`) against the abstract list: `size`/`empty`/`full`/
`capacity`/`max_size`, the traversals `begin()..end()` and `rbegin()..rend()`, `operator[]`,
`data()[i]`, `front`/`back`/`top` of static_vector, inplace_vector and stack.  All statements are
for every `d` and every `cap`; no bounds.
-/
import TetlProofs.C01.Lemmas
import Tetl.C01.Observe
namespace Tetl.C01
open Tetl

/-! ### size / capacity -/

theorem size_eq (d : V) : size d = d.length := rfl

theorem empty_iff (d : V) : empty d = true ↔ d = [] := by
  cases d with
  | nil => exact ⟨fun _ => rfl, fun _ => rfl⟩
  | cons x t => exact ⟨fun h => by simp [empty, size] at h, fun h => by simp at h⟩

theorem empty_eq_false_iff (d : V) : empty d = false ↔ d ≠ [] := by
  cases d with
  | nil => exact ⟨fun h => by simp [empty, size] at h, fun h => absurd rfl h⟩
  | cons x t => exact ⟨fun _ => by simp, fun _ => by simp [empty, size]⟩

theorem full_iff (cap : Nat) (d : V) : full cap d = true ↔ d.length = cap := by
  simp only [full, size, capacity, beq_iff_eq]

theorem capacity_const (cap : Nat) : capacity cap = cap ∧ maxSize cap = cap := ⟨rfl, rfl⟩

/-- a capacity-0 vector is always empty and full: the general observers agree with the constants
    of `static_vector_zero_storage` / `inplace_vector<T, 0>` -/
theorem full_of_empty_cap0 (cap : Nat) (d : V) (hc : cap = 0) (hd : d.length ≤ cap) :
    full cap d = true ∧ empty d = true := by
  subst hc
  have h0 : d.length = 0 := Nat.le_zero.mp hd
  exact ⟨(full_iff 0 d).2 h0, (empty_iff d).2 (List.length_eq_zero_iff.mp h0)⟩

theorem zero_storage_agrees (d : V) (hd : d.length ≤ 0) :
    size d = zeroSize ∧ capacity 0 = zeroCapacity ∧ maxSize 0 = zeroCapacity
      ∧ empty d = zeroEmpty ∧ full 0 d = zeroFull := by
  have h := full_of_empty_cap0 0 d rfl hd
  exact ⟨Nat.le_zero.mp hd, rfl, rfl, h.2, h.1⟩

theorem endOff_eq (d : V) : endOff d = d.length := by
  simp only [endOff, beginOff, size, Nat.zero_add]

theorem stk_observers (d : V) : stkSize d = d.length ∧ (stkEmpty d = true ↔ d = []) :=
  ⟨rfl, empty_iff d⟩

/-! ### traversals -/

/-- the forward loop started at the head of the second segment visits exactly that segment -/
theorem walk_append (R : List Nat) : ∀ P : List Nat, walk (P ++ R) P.length R.length = .ok R := by
  induction R with
  | nil => intro P; rfl
  | cons x R ih =>
    intro P
    have h := ih (P ++ [x])
    rw [List.append_assoc, List.singleton_append, List.length_append, List.length_singleton] at h
    simp only [List.length_cons, walk, deref, rd_append_mid, h, ok_bind, pure_eq_ok]

theorem iterate_eq (d : V) : iterate d = .ok d := by
  have h := walk_append d []
  simp only [List.nil_append, List.length_nil] at h
  simp only [iterate, endOff, beginOff, size, Nat.zero_add, Nat.sub_zero]
  exact h

/-- the reverse loop whose base is the end of the first segment visits that segment backwards -/
theorem rwalk_reverse_append (Q : List Nat) :
    ∀ S : List Nat, rwalk (Q.reverse ++ S) Q.length Q.length = .ok Q := by
  induction Q with
  | nil => intro S; rfl
  | cons a Q ih =>
    intro S
    have h := ih (a :: S)
    have hr : rd (Q.reverse ++ a :: S) Q.length = .ok a := by
      have := rd_append_mid Q.reverse a S
      rwa [List.length_reverse] at this
    rw [List.reverse_cons, List.append_assoc, List.singleton_append]
    simp only [List.length_cons, rwalk, rderef, deref, hr, Nat.add_sub_cancel, h, ok_bind,
      pure_eq_ok]

theorem rwalk_append (P S : List Nat) : rwalk (P ++ S) P.length P.length = .ok P.reverse := by
  have h := rwalk_reverse_append P.reverse S
  rwa [List.reverse_reverse, List.length_reverse] at h

theorem riterate_eq (d : V) : riterate d = .ok d.reverse := by
  have h := rwalk_append d []
  rw [List.append_nil] at h
  simp only [riterate, rbeginBase, rendBase, endOff, beginOff, size, Nat.zero_add, Nat.sub_zero]
  exact h

/-! ### `operator[]`, `data()[i]` -/

theorem dataAt_eq (d : V) (i : Nat) (h : i < d.length) : dataAt d i = .ok d[i] := rd_ok h

theorem dataAt_oob (d : V) (i : Nat) (h : d.length ≤ i) : dataAt d i = .error .oob := by
  simp only [dataAt, rd, List.getElem?_eq_none h]

theorem index_eq (d : V) (i : Nat) (h : i < d.length) : index d i = .ok d[i] := by
  simp only [index, endOff, beginOff, size, Nat.zero_add, Nat.sub_zero, h, if_true, deref]
  exact rd_ok h

/-- outside `[0, size())` the contract check fires and no element is read -/
theorem index_oob (d : V) (i : Nat) (h : d.length ≤ i) :
    index d i = .error (.pre "index: i < end - begin") := by
  simp only [index, endOff, beginOff, size, Nat.zero_add, Nat.sub_zero, Nat.not_lt.mpr h,
    if_false]

theorem svIndex_eq (d : V) (i : Nat) (h : i < d.length) : svIndex d i = .ok d[i] := index_eq d i h

theorem svIndex_oob (d : V) (i : Nat) (h : d.length ≤ i) : ∃ e, svIndex d i = .error (.pre e) :=
  ⟨_, index_oob d i h⟩

theorem ipvIndex_eq (d : V) (i : Nat) (h : i < d.length) : ipvIndex d i = .ok d[i] := by
  simp only [ipvIndex, beginOff, size, Nat.zero_add, h, if_true, deref]
  exact rd_ok h

theorem ipvIndex_oob (d : V) (i : Nat) (h : d.length ≤ i) :
    ipvIndex d i = .error (.pre "operator[]: n < size()") := by
  simp only [ipvIndex, size, Nat.not_lt.mpr h, if_false]

/-- `operator[]` never reads outside the live elements, whatever the index -/
theorem index_never_oob (d : V) (i : Nat) : index d i ≠ .error .oob ∧ ipvIndex d i ≠ .error .oob := by
  by_cases h : i < d.length
  · rw [index_eq d i h, ipvIndex_eq d i h]
    exact ⟨(by intro h; cases h), (by intro h; cases h)⟩
  · rw [index_oob d i (Nat.le_of_not_lt h), ipvIndex_oob d i (Nat.le_of_not_lt h)]
    exact ⟨(by intro h; cases h), (by intro h; cases h)⟩

/-! ### `front` / `back` / `top` -/

theorem getElem_zero_eq_head (d : V) (h : d ≠ []) :
    d[0]'(List.length_pos_iff.mpr h) = d.head h := by
  cases d with
  | nil => exact absurd rfl h
  | cons x t => rfl

theorem getElem_last_eq_getLast (d : V) (h : d ≠ []) :
    d[d.length - 1]'(Nat.sub_lt (List.length_pos_iff.mpr h) Nat.one_pos) = d.getLast h :=
  (List.getLast_eq_getElem h).symm

theorem svFront_eq (d : V) (h : d ≠ []) : svFront d = .ok (d.head h) := by
  rw [svFront, index_eq d 0 (List.length_pos_iff.mpr h), getElem_zero_eq_head d h]

theorem svFront_empty : svFront [] = .error (.pre "index: i < end - begin") := rfl

theorem svBack_eq (d : V) (h : d ≠ []) : svBack d = .ok (d.getLast h) := by
  have hl : d.length - 1 < d.length := Nat.sub_lt (List.length_pos_iff.mpr h) Nat.one_pos
  rw [svBack, (empty_eq_false_iff d).2 h]
  simp only [Bool.false_eq_true, if_false, size]
  rw [index_eq d _ hl, getElem_last_eq_getLast d h]

theorem svBack_empty : svBack [] = .error (.pre "back: !empty()") := rfl

theorem ipvFront_eq (d : V) (h : d ≠ []) : ipvFront d = .ok (d.head h) := by
  rw [ipvFront, (empty_eq_false_iff d).2 h]
  simp only [Bool.false_eq_true, if_false, deref, beginOff]
  rw [rd_ok (List.length_pos_iff.mpr h), getElem_zero_eq_head d h]

theorem ipvFront_empty : ipvFront [] = .error (.pre "front: not empty()") := rfl

theorem ipvBack_eq (d : V) (h : d ≠ []) : ipvBack d = .ok (d.getLast h) := by
  have hl : d.length - 1 < d.length := Nat.sub_lt (List.length_pos_iff.mpr h) Nat.one_pos
  rw [ipvBack, (empty_eq_false_iff d).2 h]
  simp only [Bool.false_eq_true, if_false, deref, endOff_eq]
  rw [rd_ok hl, getElem_last_eq_getLast d h]

theorem ipvBack_empty : ipvBack [] = .error (.pre "back: not empty()") := rfl

theorem stkTop_eq (d : V) (h : d ≠ []) : stkTop d = .ok (d.getLast h) := svBack_eq d h

theorem stkTop_empty : stkTop [] = .error (.pre "back: !empty()") := rfl

/-- the `front()` of `Tetl.C01.Model` (used by the inplace_vector members there) -/
theorem front_eq (d : V) (h : d ≠ []) : front d = .ok (d.head h) := by
  have he : d.isEmpty = false := by cases d with
    | nil => exact absurd rfl h
    | cons x t => rfl
  rw [front, he]
  simp only [Bool.false_eq_true, if_false]
  rw [rd_ok (List.length_pos_iff.mpr h), getElem_zero_eq_head d h]

/-- the `back()` of `Tetl.C01.Model` -/
theorem back_eq (d : V) (h : d ≠ []) : back d = .ok (d.getLast h) := by
  have hl : d.length - 1 < d.length := Nat.sub_lt (List.length_pos_iff.mpr h) Nat.one_pos
  have he : d.isEmpty = false := by cases d with
    | nil => exact absurd rfl h
    | cons x t => rfl
  rw [back, he]
  simp only [Bool.false_eq_true, if_false]
  rw [rd_ok hl, getElem_last_eq_getLast d h]

theorem front_empty : front [] = .error (.pre "front: not empty()") := rfl
theorem back_empty : back [] = .error (.pre "back: not empty()") := rfl

/-- the three `front`s and the four `back`/`top`s agree on every vector, empty or not, up to the
    text of the contract site -/
theorem front_back_agree (d : V) (h : d ≠ []) :
    ipvFront d = svFront d ∧ front d = svFront d
      ∧ ipvBack d = svBack d ∧ back d = svBack d ∧ stkTop d = svBack d := by
  rw [stkTop, svFront_eq d h, svBack_eq d h, ipvFront_eq d h, ipvBack_eq d h, front_eq d h, back_eq d h]
  exact ⟨rfl, rfl, rfl, rfl, rfl⟩

/-! ### the property-level statement -/

/-- Every observer of the three containers returns what the abstract list says: the size and the
    two flags, the constant capacity, both traversals, every in-range element through `operator[]`
    and `data()`, and `front`/`back`. -/
theorem observers_refine (cap : Nat) (d : V) :
    size d = d.length ∧ (empty d = true ↔ d = []) ∧ (full cap d = true ↔ d.length = cap)
      ∧ capacity cap = cap ∧ maxSize cap = cap
      ∧ iterate d = .ok d ∧ riterate d = .ok d.reverse
      ∧ (∀ i (h : i < d.length), index d i = .ok d[i] ∧ dataAt d i = .ok d[i])
      ∧ (∀ h : d ≠ [], svFront d = .ok (d.head h) ∧ svBack d = .ok (d.getLast h)) :=
  ⟨size_eq d, empty_iff d, full_iff cap d, rfl, rfl, iterate_eq d, riterate_eq d,
    fun i h => ⟨index_eq d i h, dataAt_eq d i h⟩, fun h => ⟨svFront_eq d h, svBack_eq d h⟩⟩

/-- the same for inplace_vector (`operator[]`, `front`, `back` have their own bodies) and stack -/
theorem observers_refine_ipv_stk (d : V) :
    (∀ i (h : i < d.length), ipvIndex d i = .ok d[i])
      ∧ (∀ i, d.length ≤ i → ∃ s, ipvIndex d i = .error (.pre s))
      ∧ (∀ i, d.length ≤ i → ∃ s, index d i = .error (.pre s))
      ∧ (∀ h : d ≠ [], ipvFront d = .ok (d.head h) ∧ ipvBack d = .ok (d.getLast h)
          ∧ front d = .ok (d.head h) ∧ back d = .ok (d.getLast h) ∧ stkTop d = .ok (d.getLast h))
      ∧ stkSize d = d.length ∧ (stkEmpty d = true ↔ d = []) :=
  ⟨ipvIndex_eq d, fun i h => ⟨_, ipvIndex_oob d i h⟩, fun i h => ⟨_, index_oob d i h⟩,
    fun h => ⟨ipvFront_eq d h, ipvBack_eq d h, front_eq d h, back_eq d h, stkTop_eq d h⟩,
    rfl, empty_iff d⟩

/-! ### instances: the hypotheses are satisfiable and the statements say what they should -/

/-- Bool test "the result is `.ok x`" (`Except` has no `DecidableEq`) -/
def isOk {α : Type} [BEq α] (r : Except Err α) (x : α) : Bool :=
  match r with
  | .ok y => y == x
  | .error _ => false

/-- Bool test "the result is a failed contract check" -/
def isPre {α : Type} (r : Except Err α) : Bool :=
  match r with
  | .error (.pre _) => true
  | _ => false

example : size [4, 5, 6] = 3 ∧ empty [4, 5, 6] = false ∧ empty [] = true
    ∧ full 3 [4, 5, 6] = true ∧ full 4 [4, 5, 6] = false ∧ full 0 [] = true
    ∧ capacity 4 = 4 ∧ maxSize 4 = 4 := by decide
example : isOk (iterate [4, 5, 6]) [4, 5, 6] = true ∧ isOk (riterate [4, 5, 6]) [6, 5, 4] = true
    ∧ isOk (iterate []) [] = true ∧ isOk (riterate []) [] = true := by decide
example : isOk (index [4, 5, 6] 1) 5 = true ∧ isOk (ipvIndex [4, 5, 6] 2) 6 = true
    ∧ isOk (dataAt [4, 5, 6] 0) 4 = true ∧ isPre (index [4, 5, 6] 3) = true
    ∧ isPre (ipvIndex [4, 5, 6] 3) = true ∧ isPre (index [] 0) = true := by decide
example : isOk (svFront [4, 5, 6]) 4 = true ∧ isOk (svBack [4, 5, 6]) 6 = true
    ∧ isOk (ipvFront [4, 5, 6]) 4 = true ∧ isOk (ipvBack [4, 5, 6]) 6 = true
    ∧ isOk (stkTop [4, 5, 6]) 6 = true ∧ isOk (front [4, 5, 6]) 4 = true
    ∧ isOk (back [4, 5, 6]) 6 = true := by decide
example : isPre (svFront []) = true ∧ isPre (svBack []) = true ∧ isPre (ipvFront []) = true
    ∧ isPre (ipvBack []) = true ∧ isPre (stkTop []) = true ∧ isPre (front []) = true
    ∧ isPre (back []) = true := by decide
example : iterate [4, 5, 6] = .ok [4, 5, 6] := iterate_eq _
example : riterate [4, 5, 6] = .ok [6, 5, 4] := riterate_eq _
example : svBack [4, 5, 6] = .ok 6 := svBack_eq [4, 5, 6] (by decide)
example : index [4, 5, 6] 1 = .ok 5 := index_eq [4, 5, 6] 1 (by decide)
/-- a reverse iterator at `rend()` cannot be dereferenced, a forward one at `end()` neither -/
example : rderef [4, 5, 6] (rendBase [4, 5, 6]) = .error .oob
    ∧ deref [4, 5, 6] (endOff [4, 5, 6]) = .error .oob := ⟨rfl, rfl⟩

end Tetl.C01
