/-
C01 — resize / assign / constructors / assignment / swap / comparison / erase_if / inplace_vector
members return `.ok` of the list the standard prescribes.
-/
import TetlProofs.C01.Members
namespace Tetl.C01
open Tetl

theorem popBack_eq {cap : Nat} (d : V) (hc : cap < 2 ^ 64) (hcap : d.length ≤ cap) (h : 0 < d.length) :
    popBack cap d = .ok d.dropLast := by
  unfold popBack
  have : d.isEmpty = false := by cases d <;> simp_all
  rw [this]
  simp [setSize_ok hc (show d.length - 1 ≤ cap by omega)]

theorem clear_eq {cap : Nat} (d : V) (hc : cap < 2 ^ 64) : clear cap d = .ok [] := by
  unfold clear unsafeDestroy
  simp [setSize_ok hc (Nat.zero_le cap)]

theorem emplaceN_eq {cap : Nat} (hc : cap < 2 ^ 64) : ∀ (fuel : Nat) (d : V) (n : Nat),
    d.length ≤ n → n ≤ cap → n - d.length < fuel →
    emplaceN cap fuel d n = .ok (d ++ List.replicate (n - d.length) 0) := by
  intro fuel
  induction fuel with
  | zero => intro d n _ _ h; omega
  | succ fuel ih =>
    intro d n h1 h2 h3
    unfold emplaceN
    by_cases he : n = d.length
    · subst he; simp
    · rw [if_neg he, emplaceBack_ok 0 hc (by omega)]
      simp only [ok_bind]
      rw [ih (d ++ [0]) n (by simp; omega) h2 (by simp; omega)]
      have : n - d.length = (n - (d ++ [0]).length) + 1 := by simp; omega
      rw [this, List.replicate_succ]
      simp

theorem emplaceNChecked_eq {cap : Nat} (hc : cap < 2 ^ 64) (d : V) (n : Nat) (h1 : d.length ≤ n) (h2 : n ≤ cap) :
    emplaceNChecked cap d n = .ok (d ++ List.replicate (n - d.length) 0) := by
  unfold emplaceNChecked
  rw [if_neg (by omega), emplaceN_eq hc (cap + 1) d n h1 h2 (by omega)]

theorem resize_eq {cap : Nat} (d : V) (n : Nat) (hc : cap < 2 ^ 64) (hcap : d.length ≤ cap) (hn : n ≤ cap) :
    resize cap d n = .ok (Spec.resize d n 0) := by
  unfold resize Spec.resize
  by_cases h1 : n = d.length
  · subst h1; simp
  · rw [if_neg h1]
    by_cases h2 : n > d.length
    · rw [if_pos h2, emplaceNChecked_eq hc d n (by omega) hn]
      rw [List.take_of_length_le (by omega)]
    · rw [if_neg h2, eraseRange_eq d _ _ hc hcap (by omega) (by omega)]
      simp only [ok_bind, Spec.eraseRange]
      have : d.length - (d.length - n) = n := by omega
      rw [this]
      have h0 : n - d.length = 0 := by omega
      simp [h0]

theorem resizeVal_eq {cap : Nat} (d : V) (n x : Nat) (hc : cap < 2 ^ 64) (hcap : d.length ≤ cap) (hn : n ≤ cap) :
    resizeVal cap d n x = .ok (Spec.resize d n x) := by
  unfold resizeVal Spec.resize
  by_cases h1 : n = d.length
  · subst h1; simp
  · rw [if_neg h1]
    by_cases h2 : n > d.length
    · rw [if_pos h2, if_neg (by omega), insertFill_eq d d.length (n - d.length) x hc (by omega) (by omega)]
      simp only [ok_bind, Spec.insertAt]
      rw [List.take_of_length_le (Nat.le_of_lt h2)]
      simp
    · rw [if_neg h2, eraseRange_eq d _ _ hc hcap (by omega) (by omega)]
      simp only [ok_bind, Spec.eraseRange]
      have : d.length - (d.length - n) = n := by omega
      rw [this]
      have h0 : n - d.length = 0 := by omega
      simp [h0]

theorem assignFill_eq {cap : Nat} (d : V) (n x : Nat) (hc : cap < 2 ^ 64) (hn : n ≤ cap) :
    assignFill cap d n x = .ok (List.replicate n x) := by
  unfold assignFill
  rw [if_neg (by omega), clear_eq d hc]
  simp only [ok_bind]
  rw [insertFill_eq [] 0 n x hc (by simp) (by simpa using hn)]
  simp [Spec.insertAt]

theorem assignRange_eq {cap : Nat} (d : V) (xs : List Nat) (hc : cap < 2 ^ 64) (hn : xs.length ≤ cap) :
    assignRange cap d xs = .ok xs := by
  unfold assignRange
  rw [if_neg (by omega), clear_eq d hc]
  simp only [ok_bind]
  rw [insertRange_eq [] 0 xs hc (by simp) (by simpa using hn)]
  simp [Spec.insertAt]

theorem ctorN_eq {cap : Nat} (n : Nat) (hc : cap < 2 ^ 64) (hn : n ≤ cap) :
    ctorN cap n = .ok (List.replicate n 0) := by
  unfold ctorN
  rw [if_neg (by omega), emplaceNChecked_eq hc [] n (by simp) hn]
  simp

theorem ctorNVal_eq {cap : Nat} (n x : Nat) (hc : cap < 2 ^ 64) (hn : n ≤ cap) :
    ctorNVal cap n x = .ok (List.replicate n x) := by
  unfold ctorNVal
  rw [if_neg (by omega), insertFill_eq [] 0 n x hc (by simp) (by simpa using hn)]
  simp [Spec.insertAt]

theorem ctorRange_eq {cap : Nat} (xs : List Nat) (hc : cap < 2 ^ 64) (hn : xs.length ≤ cap) :
    ctorRange cap xs = .ok xs := by
  unfold ctorRange
  rw [if_neg (by omega), insertRange_eq [] 0 xs hc (by simp) (by simpa using hn)]
  simp [Spec.insertAt]

theorem copyCtor_eq {cap : Nat} (o : V) (hc : cap < 2 ^ 64) (hn : o.length ≤ cap) :
    copyCtor cap o = .ok o := by
  unfold copyCtor
  rw [insertRange_eq [] 0 o hc (by simp) (by simpa using hn)]
  simp [Spec.insertAt]

theorem moveCtor_eq {cap : Nat} (k : Kind) (o : V) (hc : cap < 2 ^ 64) (hn : o.length ≤ cap) :
    moveCtor cap k o = .ok (o, o.map (mvd k)) := by
  unfold moveCtor
  rw [moveInsert_eq [] 0 o hc (by simp) (by simpa using hn)]
  simp [Spec.insertAt]

theorem copyAssign_eq {cap : Nat} (d o : V) (hc : cap < 2 ^ 64) (hn : o.length ≤ cap) :
    copyAssign cap d o = .ok o := by
  unfold copyAssign
  rw [clear_eq d hc]
  simp only [ok_bind]
  rw [insertRange_eq [] 0 o hc (by simp) (by simpa using hn)]
  simp [Spec.insertAt]

theorem moveAssign_eq {cap : Nat} (k : Kind) (d o : V) (hc : cap < 2 ^ 64) (hn : o.length ≤ cap) :
    moveAssign cap k d o = .ok (o, o.map (mvd k)) := by
  unfold moveAssign
  rw [clear_eq d hc]
  simp only [ok_bind]
  rw [moveInsert_eq [] 0 o hc (by simp) (by simpa using hn)]
  simp [Spec.insertAt]

theorem moveAssignSelf_eq {cap : Nat} (d : V) (hc : cap < 2 ^ 64) :
    moveAssignSelf cap d = .ok [] := by
  unfold moveAssignSelf
  rw [clear_eq d hc]
  simp only [ok_bind]
  rw [moveInsert_eq [] 0 [] hc (by simp) (by simp)]
  simp [Spec.insertAt]

/-- member `swap` of two different objects exchanges the contents exactly -/
theorem swapVec_eq {cap : Nat} (k : Kind) (a b : V) (hc : cap < 2 ^ 64) (ha : a.length ≤ cap) (hb : b.length ≤ cap) :
    swapVec cap k a b = .ok (b, a) := by
  unfold swapVec
  rw [moveCtor_eq k b hc hb]
  simp only [ok_bind]
  rw [moveAssign_eq k _ a hc ha]
  simp only [ok_bind]
  rw [moveAssign_eq k _ b hc hb]
  simp

/-- `a.swap(a)` leaves `a` unchanged -/
theorem swapSelf_eq {cap : Nat} (k : Kind) (a : V) (hc : cap < 2 ^ 64) (ha : a.length ≤ cap) :
    swapSelf cap k a = .ok a := by
  unfold swapSelf
  rw [moveCtor_eq k a hc ha]
  simp only [ok_bind]
  rw [moveAssignSelf_eq _ hc]
  simp only [ok_bind]
  rw [moveAssign_eq k _ a hc ha]
  simp

/-! ### comparisons

The element's `operator<` is any function `lt`, its `operator==` any function `eq`; nothing relates the two. -/

theorem equalLoop_shift (eq : Nat → Nat → Bool) (x y : Nat) (a b : V) (n i : Nat) :
    equalLoop eq (x :: a) (y :: b) (i + 1) n = equalLoop eq a b i n := by
  induction n generalizing i with
  | zero => rfl
  | succ n ih => simp [equalLoop, ih]

theorem equalLoop_eq (eq : Nat → Nat → Bool) :
    ∀ (a b : V), a.length = b.length → equalLoop eq a b 0 a.length = .ok (Spec.eqList eq a b) := by
  intro a
  induction a with
  | nil => intro b h; cases b <;> simp_all [equalLoop, Spec.eqList]
  | cons x a ih =>
    intro b h
    cases b with
    | nil => simp at h
    | cons y b =>
      simp only [List.length_cons, equalLoop, rd_cons_zero, ok_bind, equalLoop_shift, Spec.eqList]
      cases hxy : eq x y
      · simp
      · simp only [Bool.not_true, Bool.false_eq_true, if_false, Bool.true_and]
        exact ih b (by simpa using h)

theorem eqList_length (eq : Nat → Nat → Bool) : ∀ (a b : List Nat), Spec.eqList eq a b = true → a.length = b.length := by
  intro a
  induction a with
  | nil => intro b h; cases b <;> simp_all [Spec.eqList]
  | cons x a ih =>
    intro b h
    cases b with
    | nil => simp [Spec.eqList] at h
    | cons y b =>
      simp only [Spec.eqList, Bool.and_eq_true] at h
      simp [ih b h.2]

theorem opEq_eq (eq : Nat → Nat → Bool) (a b : V) : opEq eq a b = .ok (Spec.eqList eq a b) := by
  unfold opEq
  by_cases h : a.length = b.length
  · simp only [h, if_true, ne_eq, not_true_eq_false, if_false]
    rw [← h]; exact equalLoop_eq eq a b h
  · rw [if_neg h]
    have : Spec.eqList eq a b = false := by
      apply Bool.eq_false_iff.mpr
      intro hab
      exact h (eqList_length eq a b hab)
    rw [this]

theorem lexLoop_shift (lt : Nat → Nat → Bool) (x y : Nat) (a b : V) (n i : Nat) :
    lexLoop lt (x :: a) (y :: b) (i + 1) n = lexLoop lt a b i n := by
  induction n generalizing i with
  | zero => simp [lexLoop]
  | succ n ih => simp [lexLoop, ih]

/-- `lexicographical_compare` answers "the three-way comparison says less" — for any `lt` whatever -/
theorem opLt_eq (lt : Nat → Nat → Bool) : ∀ (a b : V), opLt lt a b = .ok (Spec.cmp3 lt a b == .lt) := by
  intro a
  induction a with
  | nil => intro b; cases b <;> simp [opLt, lexLoop, Spec.cmp3]
  | cons x a ih =>
    intro b
    cases b with
    | nil => simp [opLt, lexLoop, Spec.cmp3]
    | cons y b =>
      have hmin : min (x :: a).length (y :: b).length = min a.length b.length + 1 := by
        simp [Nat.succ_min_succ]
      unfold opLt
      rw [hmin]
      simp only [lexLoop, rd_cons_zero, ok_bind, lexLoop_shift, Spec.cmp3]
      have := ih b
      unfold opLt at this
      rw [this]
      repeat' split
      all_goals rfl

/-- for an asymmetric `lt` (every strict weak order is), comparing the other way round swaps the result -/
theorem cmp3_swap (lt : Nat → Nat → Bool) (hasym : ∀ x y, lt x y = true → lt y x = false) :
    ∀ a b : List Nat, Spec.cmp3 lt b a = (Spec.cmp3 lt a b).swap := by
  intro a
  induction a with
  | nil => intro b; cases b <;> rfl
  | cons x a ih =>
    intro b
    cases b with
    | nil => rfl
    | cons y b =>
      simp only [Spec.cmp3]
      cases hxy : lt x y
      · cases hyx : lt y x
        · simpa using ih b
        · simp
      · simp [hasym x y hxy]

/-- a strict weak order: irreflexive, transitive, incomparability transitive -/
def StrictWeak (lt : Nat → Nat → Bool) : Prop :=
  (∀ x, lt x x = false) ∧ (∀ x y z, lt x y = true → lt y z = true → lt x z = true)
    ∧ (∀ x y z, lt x y = false → lt y x = false → lt y z = false → lt z y = false → lt x z = false ∧ lt z x = false)

theorem relOps_eq (lt eq : Nat → Nat → Bool) (hasym : ∀ x y, lt x y = true → lt y x = false) (a b : V) :
    relOps lt eq a b = .ok (Spec.rels lt eq a b) := by
  unfold relOps Spec.rels
  rw [opEq_eq, opLt_eq, opLt_eq, cmp3_swap lt hasym a b]
  simp only [ok_bind]
  cases Spec.cmp3 lt a b <;> rfl

/-! #### the special case of a total order consistent with `==` -/

theorem eqList_beq (eq : Nat → Nat → Bool) (heq : ∀ x y, eq x y = (x == y)) :
    ∀ a b : List Nat, Spec.eqList eq a b = (a == b) := by
  intro a
  induction a with
  | nil => intro b; cases b <;> simp [Spec.eqList]
  | cons x a ih =>
    intro b
    cases b with
    | nil => simp [Spec.eqList]
    | cons y b => simp [Spec.eqList, heq, ih b]

theorem cmp3_eq_iff (lt : Nat → Nat → Bool) (hasym : ∀ x y, lt x y = true → lt y x = false)
    (htri : ∀ x y, lt x y = false → lt y x = false → x = y) :
    ∀ a b : List Nat, Spec.cmp3 lt a b = .eq ↔ a = b := by
  intro a
  induction a with
  | nil => intro b; cases b <;> simp [Spec.cmp3]
  | cons x a ih =>
    intro b
    cases b with
    | nil => simp [Spec.cmp3]
    | cons y b =>
      simp only [Spec.cmp3, List.cons.injEq]
      cases hxy : lt x y
      · cases hyx : lt y x
        · have := htri x y hxy hyx
          subst this
          simpa using ih b
        · simp only [Bool.false_eq_true, if_false, if_true, reduceCtorEq, false_iff, not_and]
          intro h; subst h; rw [hxy] at hyx; cases hyx
      · simp only [if_true, reduceCtorEq, false_iff, not_and]
        intro h; subst h
        have := hasym x x hxy
        rw [hxy] at this; cases this

/-- for an element type whose `==` is the equality of the values and whose `<` is a total order on them,
    `a <= b` is also `a < b || a == b` (and `a >= b` is `a > b || a == b`) -/
theorem rels_total_order (lt eq : Nat → Nat → Bool) (hasym : ∀ x y, lt x y = true → lt y x = false)
    (htri : ∀ x y, lt x y = false → lt y x = false → x = y) (heq : ∀ x y, eq x y = (x == y)) (a b : List Nat) :
    Spec.rels lt eq a b =
      [a == b, !(a == b), Spec.cmp3 lt a b == .lt, (Spec.cmp3 lt a b == .lt) || a == b,
       Spec.cmp3 lt b a == .lt, (Spec.cmp3 lt b a == .lt) || a == b] := by
  unfold Spec.rels
  rw [eqList_beq eq heq, cmp3_swap lt hasym a b]
  have hiff := cmp3_eq_iff lt hasym htri a b
  by_cases hab : a = b
  · have hc := hiff.mpr hab
    subst hab
    simp [hc]
  · have hne : (a == b) = false := by simpa using hab
    have hc : Spec.cmp3 lt a b ≠ .eq := fun h => hab (hiff.mp h)
    rw [hne]
    cases h : Spec.cmp3 lt a b
    · rfl
    · exact absurd h hc
    · rfl

theorem cmp3_nat_ltb : ∀ a b : List Nat, (Spec.cmp3 (fun x y => decide (x < y)) a b == .lt) = Spec.ltb a b := by
  intro a
  induction a with
  | nil => intro b; cases b <;> rfl
  | cons x a ih =>
    intro b
    cases b with
    | nil => rfl
    | cons y b =>
      simp only [Spec.cmp3, Spec.ltb, decide_eq_true_eq]
      repeat' split
      · rfl
      · rfl
      · exact ih b

theorem rels_nat (a b : List Nat) :
    Spec.rels (fun x y => decide (x < y)) (fun x y => x == y) a b = Spec.relsTotal a b := by
  rw [rels_total_order _ _ (by intro x y h; simp at h ⊢; omega) (by intro x y h1 h2; simp at h1 h2; omega)
    (by intro x y; rfl) a b]
  simp only [cmp3_nat_ltb, Spec.relsTotal]

end Tetl.C01
