/-
C01 — system level: invariant, refinement relation between the model's objects and the spec's
(possibly unspecified) objects, and the unfolding lemmas for single-object operations.
-/
import TetlProofs.C01.System
namespace Tetl.C01
open Tetl

/-- the representation invariant of a system: `size() ≤ capacity()` for every live object; the
    capacity is a `size_t` -/
def Inv (s : Sys) : Prop := s.cap < 2 ^ 64 ∧ ∀ d ∈ s.objs, d.length ≤ s.cap

/-- wherever the standard specifies the value of an object, the model has exactly that value -/
def Rel (s : Sys) (sp : Spec.SSys) : Prop :=
  sp.cap = s.cap ∧ sp.objs.length = s.objs.length ∧
    (∀ (i : Nat) (l : List Nat), sp.objs[i]? = some (some l) → s.objs[i]? = some l) ∧ sp.kind = s.kind

theorem Inv.setObj {s : Sys} (h : Inv s) (k : Nat) (d : V) (hd : d.length ≤ s.cap) : Inv (s.setObj k d) := by
  refine ⟨h.1, ?_⟩
  intro x hx
  rcases List.mem_or_eq_of_mem_set hx with h1 | h1
  · exact h.2 x h1
  · subst h1; exact hd

theorem Rel.setObj {s : Sys} {sp : Spec.SSys} (h : Rel s sp) (k : Nat) (d : V) (x : Spec.SObj)
    (hx : ∀ l, x = some l → d = l) : Rel (s.setObj k d) (sp.setObj k x) := by
  obtain ⟨h1, h2, h3, h4⟩ := h
  refine ⟨h1, by simp [Sys.setObj, Spec.SSys.setObj, h2], ?_, h4⟩
  intro i l hi
  simp only [Sys.setObj, Spec.SSys.setObj, List.getElem?_set] at hi ⊢
  by_cases hki : k = i
  · subst hki
    simp only [if_true] at hi ⊢
    by_cases hlt : k < sp.objs.length
    · simp only [hlt, if_true, Option.some.injEq] at hi
      have : k < s.objs.length := by omega
      simp [this, hx l hi]
    · simp [hlt] at hi
  · simp only [hki, if_false] at hi ⊢
    exact h3 i l hi

/-- the model changed an object whose value the spec does not specify -/
theorem Rel.setObj_unspec {s : Sys} {sp : Spec.SSys} (h : Rel s sp) (k : Nat) (d : V)
    (hx : Spec.getObj sp k = none) : Rel (s.setObj k d) sp := by
  obtain ⟨h1, h2, h3, h4⟩ := h
  refine ⟨h1, by simp [Sys.setObj, h2], ?_, h4⟩
  intro i l hi
  simp only [Sys.setObj, List.getElem?_set]
  by_cases hki : k = i
  · subst hki
    simp [Spec.getObj, hi] at hx
  · simp only [hki, if_false]
    exact h3 i l hi

theorem Rel.get {s : Sys} {sp : Spec.SSys} (h : Rel s sp) {j : Nat} {l : List Nat}
    (hj : Spec.getObj sp j = some l) : s.objs[j]? = some l := by
  have hs : sp.objs[j]? = some (some l) := by
    unfold Spec.getObj at hj
    cases hq : sp.objs[j]? with
    | none =>
      rw [hq] at hj
      simp at hj
    | some v =>
      rw [hq] at hj
      simp at hj
      rw [hj]
  exact h.2.2.1 j l hs

theorem getObj_eq {s : Sys} {sp : Spec.SSys} (h : Rel s sp) {j : Nat} {d : V} (hd : s.objs[j]? = some d) :
    ∀ l, Spec.getObj sp j = some l → d = l := by
  intro l hl
  have := h.get hl
  rw [hd] at this
  exact Option.some.inj this

/-! ### unfolding lemmas for operations on one object -/

theorem step_unary (s : Sys) (k : Nat) (op : Op) (hb : isBinary op = none) :
    step s k op =
      (if !supports s.ty op then .error (.pre "the type has no such member") else do
        let d ← rd s.objs k
        let r ← if s.ty = .ipv then step1Ipv s.cap op d else step1 s.cap s.kind op d
        .ok (s.setObj k r.1, r.2)) := by
  cases op <;> first | rfl | simp [isBinary] at hb

theorem valid_unary (s : Sys) (k : Nat) (op : Op) (hb : isBinary op = none) :
    valid s k op = (supports s.ty op && decide (k < s.objs.length) &&
      match s.objs[k]? with
      | some d => valid1 s.cap op d
      | none => false) := by
  cases op <;> first | rfl | simp [isBinary] at hb

theorem specStep_unary (sp : Spec.SSys) (k : Nat) (op : Op) (hb : isBinary op = none) :
    Spec.step sp k op =
      match Spec.getObj sp k with
      | some l => let r := Spec.apply1 sp.cap op l; (sp.setObj k (some r.1), some r.2)
      | none =>
        if Spec.respecifies op then let r := Spec.apply1 sp.cap op []; (sp.setObj k (some r.1), some r.2)
        else (sp, none) := by
  cases op <;> first | rfl | simp [isBinary] at hb

theorem supports_unarySv {ty : Ty} {op : Op} (ht : ty ≠ .ipv) (hs : supports ty op = true) (hb : isBinary op = none) :
    unarySv op = true := by
  cases ty <;> cases op <;> simp_all [supports, unarySv, isBinary]

theorem supports_unaryIpv {op : Op} (hs : supports .ipv op = true) (hb : isBinary op = none) :
    unaryIpv op = true := by
  cases op <;> simp_all [supports, unaryIpv, isBinary]

/-- an operation that gives the object a value independent of its old one -/
theorem apply1_respecifies {cap : Nat} {op : Op} (h : Spec.respecifies op = true) (d : List Nat) :
    Spec.apply1 cap op d = Spec.apply1 cap op [] := by
  cases op <;> simp_all [Spec.respecifies, Spec.apply1]

end Tetl.C01
