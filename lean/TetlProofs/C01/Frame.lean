/-
C01 — frame lemmas of the system model: a single-object operation writes object `k` only; copy construction gives
object `k` the value of object `j` and leaves every other object as it was.  (Used by Independence.lean; restated in
Props.lean.)
-/
import TetlProofs.C01.Refine2
namespace Tetl.C01
open Tetl

/-- (structural) a single-object operation of the model writes object `k` only -/
theorem unary_frame (s s' : Sys) (k : Nat) (op : Op) (o : Out) (hb : isBinary op = none)
    (h : step s k op = .ok (s', o)) (i : Nat) (hi : i ≠ k) : s'.objs[i]? = s.objs[i]? := by
  rw [step_unary s k op hb] at h
  split at h
  · cases h
  · cases h1 : rd s.objs k with
    | error e => rw [h1] at h; cases h
    | ok d =>
      rw [h1] at h
      simp only [ok_bind] at h
      have fin : ∀ (r : V × Out), (Except.ok (s.setObj k r.1, r.2) : Except Err (Sys × Out)) = .ok (s', o) →
          s'.objs[i]? = s.objs[i]? := by
        intro r hr
        injection hr with hr
        injection hr with h3 _
        subst h3
        simp only [Sys.setObj, List.getElem?_set]
        rw [if_neg (fun e => hi e.symm)]
      by_cases ht : s.ty = .ipv
      · rw [if_pos ht] at h
        cases h2 : step1Ipv s.cap op d with
        | error e => rw [h2] at h; cases h
        | ok r => rw [h2] at h; exact fin r h
      · rw [if_neg ht] at h
        cases h2 : step1 s.cap s.kind op d with
        | error e => rw [h2] at h; cases h
        | ok r => rw [h2] at h; exact fin r h

/-- copy construction never fails and gives object `k` the value of object `j` (this part has content: the
    copy constructor is `insert(begin(), other.begin(), other.end())` / `uninitialized_copy`); that `j` and
    every other object stay as they were is structural, see above -/
theorem copy_value_frame (s : Sys) (k j : Nat) (hinv : Inv s) (hv : valid s k (.copyCtor j) = true) :
    ∃ s', step s k (.copyCtor j) = .ok (s', .unit) ∧ s'.objs[k]? = s.objs[j]?
      ∧ ∀ i, i ≠ k → s'.objs[i]? = s.objs[i]? := by
  have hv' := hv
  simp only [valid, Bool.and_eq_true, decide_eq_true_eq, bne_iff_ne, ne_eq] at hv'
  obtain ⟨⟨hs, hk⟩, hj, hjk⟩ := hv'
  obtain ⟨d, hd⟩ := getElem?_of_lt hk
  obtain ⟨o, ho⟩ := getElem?_of_lt hj
  have hocap := hinv.get ho
  have hctor : (if s.ty = .ipv then ipvCopyCtor s.cap s.kind o else copyCtor s.cap o) = .ok o := by
    split
    · exact ipvCopyCtor_eq s.kind o hocap
    · exact copyCtor_eq o hinv.1 hocap
  refine ⟨s.setObj k o, ?_, ?_, ?_⟩
  · simp only [step, hs, Bool.not_true, Bool.false_eq_true, if_false, if_neg hjk, rd_of_get ho, rd_of_get hd,
      ok_bind]
    by_cases ht : s.ty = .ipv
    · rw [if_pos ht] at hctor ⊢; rw [hctor]; rfl
    · rw [if_neg ht] at hctor ⊢; rw [hctor]; rfl
  · simp [Sys.setObj, hk, ho]
  · intro i hi
    simp only [Sys.setObj, List.getElem?_set]
    rw [if_neg (fun e => hi e.symm)]

end Tetl.C01
