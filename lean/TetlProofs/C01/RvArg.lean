/-
C01 — rvalue arguments the caller still owns (`v.push_back(etl::move(t))`): the members of Model.lean that return,
next to their result, whether the caller's object has been moved from.  Closed forms under the documented
preconditions, and the relation to the plain members (same buffer, same result).
-/
import TetlProofs.C01.Members3
namespace Tetl.C01
open Tetl

theorem pushBackRv_eq {cap : Nat} {d : V} (x : Nat) (hc : cap < 2 ^ 64) (h : d.length < cap) :
    pushBackRv cap d x = .ok (d ++ [x], true) := by
  unfold pushBackRv
  rw [if_neg (by omega), emplaceBack_ok x hc h]
  rfl

theorem emplaceBackRv_eq {cap : Nat} {d : V} (x : Nat) (hc : cap < 2 ^ 64) (h : d.length < cap) :
    emplaceBackRv cap d x = .ok (d ++ [x], true) := by
  unfold emplaceBackRv
  rw [emplaceBack_ok x hc h]
  rfl

theorem insertRvArg_eq {cap : Nat} (d : V) (pos x : Nat) (hc : cap < 2 ^ 64) (hp : pos ≤ d.length) (hn : d.length < cap) :
    insertRvArg cap d pos x = .ok ((Spec.insertAt d pos [x], pos), true) := by
  unfold insertRvArg
  rw [if_neg (by omega), if_neg (by omega), moveInsert_eq d pos [x] hc hp (by simp; omega)]
  rfl

theorem emplaceRvArg_eq {cap : Nat} (d : V) (pos x : Nat) (hc : cap < 2 ^ 64) (hp : pos ≤ d.length) (hn : d.length < cap) :
    emplaceRvArg cap d pos x = .ok ((Spec.insertAt d pos [x], pos), true) := by
  unfold emplaceRvArg
  rw [if_neg (by omega), if_neg (by omega), moveInsert_eq d pos [x] hc hp (by simp; omega)]
  rfl

theorem ipvUncheckedRv_eq {cap : Nat} (d : V) (x : Nat) (hc : cap < 2 ^ 64) (h : d.length < cap) :
    ipvUncheckedRv cap d x = .ok (d ++ [x], x, true) := by
  unfold ipvUncheckedRv
  rw [ipvUnchecked_eq d x hc h]
  rfl

/-- full: null, the buffer and the caller's object untouched; otherwise appended and consumed -/
theorem ipvTryRv_eq {cap : Nat} (d : V) (x : Nat) (hc : cap < 2 ^ 64) (h : d.length ≤ cap) :
    ipvTryRv cap d x = .ok (if d.length = cap then (d, none, false) else (d ++ [x], some x, true)) := by
  unfold ipvTryRv
  by_cases hf : d.length = cap
  · simp [hf]
  · rw [if_neg hf, if_neg hf, ipvUncheckedRv_eq d x hc (by omega)]
    rfl

/-! the slot members do to the vector exactly what the plain members do (no hypotheses: also the failures agree) -/

theorem pushBackRv_fst (cap : Nat) (d : V) (x : Nat) : (pushBackRv cap d x).map (·.1) = pushBack cap d x := by
  unfold pushBackRv pushBack
  split
  · rfl
  · cases emplaceBack cap d x <;> rfl

theorem emplaceBackRv_fst (cap : Nat) (d : V) (x : Nat) : (emplaceBackRv cap d x).map (·.1) = emplaceBack cap d x := by
  unfold emplaceBackRv
  cases emplaceBack cap d x <;> rfl

theorem insertRvArg_fst (cap : Nat) (d : V) (pos x : Nat) : (insertRvArg cap d pos x).map (·.1) = insertRv cap d pos x := by
  unfold insertRvArg insertRv
  split
  · rfl
  · split
    · rfl
    · cases moveInsert cap d pos [x] <;> rfl

theorem emplaceRvArg_fst (cap : Nat) (d : V) (pos x : Nat) : (emplaceRvArg cap d pos x).map (·.1) = insertRv cap d pos x := by
  unfold emplaceRvArg insertRv
  split
  · rfl
  · split
    · rfl
    · cases moveInsert cap d pos [x] <;> rfl

theorem ipvUncheckedRv_fst (cap : Nat) (d : V) (x : Nat) :
    (ipvUncheckedRv cap d x).map (fun r => (r.1, r.2.1)) = ipvUnchecked cap d x := by
  unfold ipvUncheckedRv
  cases ipvUnchecked cap d x <;> rfl

theorem ipvTryRv_fst (cap : Nat) (d : V) (x : Nat) :
    (ipvTryRv cap d x).map (fun r => (r.1, r.2.1)) = ipvTry cap d x := by
  unfold ipvTryRv ipvTry ipvUncheckedRv
  split
  · rfl
  · cases ipvUnchecked cap d x <;> rfl

end Tetl.C01
