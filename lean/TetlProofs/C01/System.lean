/-
C01 — single-object steps: the model's `step1` / `step1Ipv` agree with `Spec.apply1` on every
valid operation, and the result stays within the capacity.
-/
import TetlProofs.C01.Members3
import TetlProofs.C01.Alias
import TetlProofs.C01.RvArg
namespace Tetl.C01
open Tetl

theorem insertAt_length (l : List Nat) (p : Nat) (xs : List Nat) (hp : p ≤ l.length) :
    (Spec.insertAt l p xs).length = l.length + xs.length := by
  simp [Spec.insertAt]; omega

theorem eraseRange_length (l : List Nat) (f t : Nat) (h1 : f ≤ t) (h2 : t ≤ l.length) :
    (Spec.eraseRange l f t).length = l.length - (t - f) := by
  simp [Spec.eraseRange]; omega

theorem resize_length (l : List Nat) (n x : Nat) : (Spec.resize l n x).length = n := by
  simp [Spec.resize]; omega

theorem withElem_lt {l : List Nat} {i : Nat} (h : i < l.length) (f : Nat → List Nat × Out) :
    Spec.withElem l i f = f l[i] := by
  simp [Spec.withElem, h]

/-- the element's `operator==` is the equality of the values, for every element kind of the harness -/
theorem eqOf_beq (k : Kind) (x y : Nat) : eqOf k x y = (x == y) := by
  cases k <;> simp only [eqOf]
  by_cases h : x = y
  · subst h; simp
  · have hb : (x == y) = false := by simpa using h
    rw [hb]
    by_cases h1 : x / 2 = y / 2
    · have h2 : ¬ x % 2 = y % 2 := by omega
      simp [h2]
    · simp [h1]

/-- operations of `static_vector` on one object -/
def unarySv : Op → Bool
  | .tryPush .. => false
  | .unchecked .. => false
  | .tryPushA .. => false
  | .uncheckedA .. => false
  | .tryPushMv .. => false
  | .uncheckedMv .. => false
  | op => (isBinary op).isNone

theorem step1_refines {cap : Nat} (kind : Kind) (op : Op) (d : V) (hc : cap < 2 ^ 64) (hcap : d.length ≤ cap)
    (hu : unarySv op = true) (hv : valid1 cap op d = true) :
    step1 cap kind op d = .ok (Spec.apply1 cap op d) ∧ (Spec.apply1 cap op d).1.length ≤ cap := by
  cases op with
  | push ov x =>
    simp only [valid1, decide_eq_true_eq] at hv
    refine ⟨?_, by simp [Spec.apply1]; omega⟩
    simp only [step1, Spec.apply1]
    split <;> simp [emplaceBack_ok x hc hv, pushBack_ok x hc hv]
  | pop =>
    simp only [valid1, decide_eq_true_eq] at hv
    exact ⟨by simp [step1, Spec.apply1, popBack_eq d hc hcap hv], by simp [Spec.apply1]; omega⟩
  | insert1 ov pos x =>
    simp only [valid1, Bool.and_eq_true, decide_eq_true_eq] at hv
    refine ⟨?_, by simp [Spec.apply1, insertAt_length d pos [x] hv.2]; omega⟩
    simp only [step1, Spec.apply1]
    split <;> simp [insertCref_eq d pos x hc hv.2 hv.1, insertRv_eq d pos x hc hv.2 hv.1]
  | insertFill pos n x =>
    simp only [valid1, Bool.and_eq_true, decide_eq_true_eq] at hv
    exact ⟨by simp [step1, Spec.apply1, insertFill_eq d pos n x hc hv.1 hv.2],
      by simp [Spec.apply1, insertAt_length d pos _ hv.1]; omega⟩
  | insertRange pos xs =>
    simp only [valid1, Bool.and_eq_true, decide_eq_true_eq] at hv
    exact ⟨by simp [step1, Spec.apply1, insertRange_eq d pos xs hc hv.1 hv.2],
      by simp [Spec.apply1, insertAt_length d pos _ hv.1]; omega⟩
  | moveInsert pos xs =>
    simp only [valid1, Bool.and_eq_true, decide_eq_true_eq] at hv
    exact ⟨by simp [step1, Spec.apply1, moveInsert_eq d pos xs hc hv.1 hv.2],
      by simp [Spec.apply1, insertAt_length d pos _ hv.1]; omega⟩
  | erase pos =>
    simp only [valid1, decide_eq_true_eq] at hv
    refine ⟨?_, by simp [Spec.apply1, eraseRange_length d pos (pos + 1) (by omega) (by omega)]; omega⟩
    simp only [step1, Spec.apply1, erase]
    rw [if_neg (by omega), eraseRange_eq d pos (pos + 1) hc hcap (by omega) (by omega)]
    rfl
  | eraseRange f l =>
    simp only [valid1, Bool.and_eq_true, decide_eq_true_eq] at hv
    exact ⟨by simp [step1, Spec.apply1, eraseRange_eq d f l hc hcap hv.1 hv.2],
      by simp [Spec.apply1, eraseRange_length d f l hv.1 hv.2]; omega⟩
  | resize n =>
    simp only [valid1, decide_eq_true_eq] at hv
    exact ⟨by simp [step1, Spec.apply1, resize_eq d n hc hcap hv], by simp [Spec.apply1, resize_length]; omega⟩
  | resizeVal n x =>
    simp only [valid1, decide_eq_true_eq] at hv
    exact ⟨by simp [step1, Spec.apply1, resizeVal_eq d n x hc hcap hv], by simp [Spec.apply1, resize_length]; omega⟩
  | assignFill n x =>
    simp only [valid1, decide_eq_true_eq] at hv
    exact ⟨by simp [step1, Spec.apply1, assignFill_eq d n x hc hv], by simp [Spec.apply1]; omega⟩
  | assignRange xs =>
    simp only [valid1, decide_eq_true_eq] at hv
    exact ⟨by simp [step1, Spec.apply1, assignRange_eq d xs hc hv], by simp [Spec.apply1]; omega⟩
  | clear => exact ⟨by simp [step1, Spec.apply1, clear_eq d hc], by simp [Spec.apply1]⟩
  | ctorN n =>
    simp only [valid1, decide_eq_true_eq] at hv
    exact ⟨by simp [step1, Spec.apply1, ctorN_eq n hc hv], by simp [Spec.apply1]; omega⟩
  | ctorNVal n x =>
    simp only [valid1, decide_eq_true_eq] at hv
    exact ⟨by simp [step1, Spec.apply1, ctorNVal_eq n x hc hv], by simp [Spec.apply1]; omega⟩
  | ctorRange xs =>
    simp only [valid1, decide_eq_true_eq] at hv
    exact ⟨by simp [step1, Spec.apply1, ctorRange_eq xs hc hv], by simp [Spec.apply1]; omega⟩
  | eraseVal x =>
    have hp : (fun v => eqOf kind v x) = (fun v => v == x) := by
      funext v; exact eqOf_beq kind v x
    refine ⟨by simp [step1, Spec.apply1, hp, eraseIf_eq kind d _ hc hcap], ?_⟩
    simp only [Spec.apply1]
    exact Nat.le_trans (List.length_filter_le _ _) hcap
  | eraseIf m r =>
    refine ⟨by simp [step1, Spec.apply1, eraseIf_eq kind d _ hc hcap], ?_⟩
    simp only [Spec.apply1]
    exact Nat.le_trans (List.length_filter_le _ _) hcap
  | dump => exact ⟨by simp [step1, Spec.apply1], by simpa [Spec.apply1] using hcap⟩
  | pushA ov i =>
    simp only [valid1, Bool.and_eq_true, decide_eq_true_eq] at hv
    refine ⟨?_, by simp [Spec.apply1, withElem_lt hv.2]; omega⟩
    simp only [step1, Spec.apply1, withElem_lt hv.2]
    split <;> simp [emplaceBackA_elem hc hv.1 hv.2, pushBackA_elem hc hv.1 hv.2]
  | pushTop ov =>
    simp only [valid1, Bool.and_eq_true, decide_eq_true_eq] at hv
    have hi : d.length - 1 < d.length := by omega
    refine ⟨?_, by simp [Spec.apply1, withElem_lt hi]; omega⟩
    simp [step1, Spec.apply1, withElem_lt hi, pushTop_eq d _ hc hv.1 hv.2]
  | insertA ov pos i =>
    simp only [valid1, Bool.and_eq_true, decide_eq_true_eq] at hv
    refine ⟨?_, by simp [Spec.apply1, withElem_lt hv.2, insertAt_length d pos _ hv.1.2]; omega⟩
    simp only [step1, Spec.apply1, withElem_lt hv.2]
    split <;> simp [insertCrefA_elem d pos i hc hv.1.2 hv.1.1 hv.2, emplaceA_elem d pos i hc hv.1.2 hv.1.1 hv.2]
  | insertFillA pos n i =>
    simp only [valid1, Bool.and_eq_true, decide_eq_true_eq] at hv
    exact ⟨by simp [step1, Spec.apply1, withElem_lt hv.2, insertFillA_elem d pos n i hc hv.1.1 hv.1.2 hv.2],
      by simp [Spec.apply1, withElem_lt hv.2, insertAt_length d pos _ hv.1.1]; omega⟩
  | resizeValA n i =>
    simp only [valid1, Bool.and_eq_true, decide_eq_true_eq] at hv
    exact ⟨by simp [step1, Spec.apply1, withElem_lt hv.2, resizeValA_elem d n i hc hcap hv.1 hv.2],
      by simp [Spec.apply1, withElem_lt hv.2, resize_length]; omega⟩
  | copyCtor j => simp [unarySv, isBinary] at hu
  | moveCtor j => simp [unarySv, isBinary] at hu
  | copyAssign j => simp [unarySv, isBinary] at hu
  | moveAssign j => simp [unarySv, isBinary] at hu
  | swap j => simp [unarySv, isBinary] at hu
  | cmp j => simp [unarySv, isBinary] at hu
  | tryPush ov x => simp [unarySv] at hu
  | unchecked ov x => simp [unarySv] at hu
  | tryPushA ov i => simp [unarySv] at hu
  | uncheckedA ov i => simp [unarySv] at hu
  | pushMv ov x =>
    simp only [valid1, decide_eq_true_eq] at hv
    refine ⟨?_, by simp [Spec.apply1]; omega⟩
    simp only [step1, Spec.apply1]
    split <;> simp [emplaceBackRv_eq x hc hv, pushBackRv_eq x hc hv]
  | insertMv ov pos x =>
    simp only [valid1, Bool.and_eq_true, decide_eq_true_eq] at hv
    refine ⟨?_, by simp [Spec.apply1, insertAt_length d pos [x] hv.2]; omega⟩
    simp only [step1, Spec.apply1]
    split <;> simp [emplaceRvArg_eq d pos x hc hv.2 hv.1, insertRvArg_eq d pos x hc hv.2 hv.1]
  | tryPushMv ov x => simp [unarySv] at hu
  | uncheckedMv ov x => simp [unarySv] at hu

/-- operations of `inplace_vector` on one object -/
def unaryIpv : Op → Bool
  | .tryPush .. => true
  | .unchecked .. => true
  | .tryPushA .. => true
  | .uncheckedA .. => true
  | .tryPushMv .. => true
  | .uncheckedMv .. => true
  | .pop => true
  | .clear => true
  | .dump => true
  | _ => false

theorem step1Ipv_refines {cap : Nat} (op : Op) (d : V) (hc : cap < 2 ^ 64) (hcap : d.length ≤ cap)
    (hu : unaryIpv op = true) (hv : valid1 cap op d = true) :
    step1Ipv cap op d = .ok (Spec.apply1 cap op d) ∧ (Spec.apply1 cap op d).1.length ≤ cap := by
  cases op with
  | tryPush ov x =>
    refine ⟨?_, ?_⟩
    · simp only [step1Ipv, Spec.apply1, ipvTry_eq d x hc hcap, ok_bind]
      split <;> rfl
    · simp only [Spec.apply1]
      split
      · exact hcap
      · simp; omega
  | unchecked ov x =>
    simp only [valid1, decide_eq_true_eq] at hv
    exact ⟨by simp [step1Ipv, Spec.apply1, ipvUnchecked_eq d x hc hv], by simp [Spec.apply1]; omega⟩
  | tryPushA ov i =>
    simp only [valid1, decide_eq_true_eq] at hv
    refine ⟨?_, ?_⟩
    · simp only [step1Ipv, Spec.apply1, withElem_lt hv, ipvTryA_elem d i hc hcap hv, ok_bind]
      split <;> rfl
    · simp only [Spec.apply1, withElem_lt hv]
      split
      · exact hcap
      · simp; omega
  | uncheckedA ov i =>
    simp only [valid1, Bool.and_eq_true, decide_eq_true_eq] at hv
    exact ⟨by simp [step1Ipv, Spec.apply1, withElem_lt hv.2, ipvUncheckedA_elem d i hc hv.1 hv.2],
      by simp [Spec.apply1, withElem_lt hv.2]; omega⟩
  | pop =>
    simp only [valid1, decide_eq_true_eq] at hv
    exact ⟨by simp [step1Ipv, Spec.apply1, ipvPop_eq d hc hcap hv], by simp [Spec.apply1]; omega⟩
  | clear => exact ⟨by simp [step1Ipv, Spec.apply1, ipvClear_eq d hc], by simp [Spec.apply1]⟩
  | dump => exact ⟨by simp [step1Ipv, Spec.apply1], by simpa [Spec.apply1] using hcap⟩
  | push ov x => simp [unaryIpv] at hu
  | insert1 ov pos x => simp [unaryIpv] at hu
  | insertFill pos n x => simp [unaryIpv] at hu
  | insertRange pos xs => simp [unaryIpv] at hu
  | moveInsert pos xs => simp [unaryIpv] at hu
  | erase pos => simp [unaryIpv] at hu
  | eraseRange f l => simp [unaryIpv] at hu
  | resize n => simp [unaryIpv] at hu
  | resizeVal n x => simp [unaryIpv] at hu
  | assignFill n x => simp [unaryIpv] at hu
  | assignRange xs => simp [unaryIpv] at hu
  | ctorN n => simp [unaryIpv] at hu
  | ctorNVal n x => simp [unaryIpv] at hu
  | ctorRange xs => simp [unaryIpv] at hu
  | eraseVal x => simp [unaryIpv] at hu
  | eraseIf m r => simp [unaryIpv] at hu
  | copyCtor j => simp [unaryIpv] at hu
  | moveCtor j => simp [unaryIpv] at hu
  | copyAssign j => simp [unaryIpv] at hu
  | moveAssign j => simp [unaryIpv] at hu
  | swap j => simp [unaryIpv] at hu
  | cmp j => simp [unaryIpv] at hu
  | pushA ov i => simp [unaryIpv] at hu
  | pushTop ov => simp [unaryIpv] at hu
  | insertA ov pos i => simp [unaryIpv] at hu
  | insertFillA pos n i => simp [unaryIpv] at hu
  | resizeValA n i => simp [unaryIpv] at hu
  | tryPushMv ov x =>
    refine ⟨?_, ?_⟩
    · simp only [step1Ipv, Spec.apply1, ipvTryRv_eq d x hc hcap, ok_bind]
      split <;> rfl
    · simp only [Spec.apply1]
      split
      · exact hcap
      · simp; omega
  | uncheckedMv ov x =>
    simp only [valid1, decide_eq_true_eq] at hv
    exact ⟨by simp [step1Ipv, Spec.apply1, ipvUncheckedRv_eq d x hc hv], by simp [Spec.apply1]; omega⟩
  | pushMv ov x => simp [unaryIpv] at hu
  | insertMv ov pos x => simp [unaryIpv] at hu

end Tetl.C01
