/-
C01 — the operations that involve a second object: construction and assignment from another
object, swap, comparison.
-/
import TetlProofs.C01.Refine
namespace Tetl.C01
open Tetl

theorem setObj_setObj (s : Sys) (k : Nat) (a b : V) : (s.setObj k a).setObj k b = s.setObj k b := by
  simp [Sys.setObj]

theorem specSetObj_setObj (s : Spec.SSys) (k : Nat) (a b : Spec.SObj) : (s.setObj k a).setObj k b = s.setObj k b := by
  simp [Spec.SSys.setObj]

theorem step_refines_copyCtor (s : Sys) (sp : Spec.SSys) (k j : Nat)
    (hinv : Inv s) (hrel : Rel s sp) (hv : valid s k (.copyCtor j) = true) : StepOk s sp k (.copyCtor j) := by
  simp only [valid, Bool.and_eq_true, decide_eq_true_eq, bne_iff_ne, ne_eq] at hv
  obtain ⟨⟨hs, hk⟩, hj, hjk⟩ := hv
  obtain ⟨d, hd⟩ := getElem?_of_lt hk
  obtain ⟨o, ho⟩ := getElem?_of_lt hj
  have hocap := hinv.get ho
  have hctor : (if s.ty = .ipv then ipvCopyCtor s.cap s.kind o else copyCtor s.cap o) = .ok o := by
    split
    · exact ipvCopyCtor_eq s.kind o hocap
    · exact copyCtor_eq o hinv.1 hocap
  refine ⟨s.setObj k o, .unit, ?_, hinv.setObj k o hocap, rfl, rfl, rfl, by simp [Sys.setObj], ?_, ?_⟩
  · simp only [step, hs, Bool.not_true, Bool.false_eq_true, if_false, if_neg hjk, rd_of_get ho, rd_of_get hd,
      ok_bind]
    by_cases ht : s.ty = .ipv
    · rw [if_pos ht] at hctor ⊢; rw [hctor]; rfl
    · rw [if_neg ht] at hctor ⊢; rw [hctor]; rfl
  · simp only [Spec.step]
    exact hrel.setObj k o _ (getObj_eq hrel ho)
  · intro o' h
    simp only [Spec.step] at h
    exact Option.some.inj h

theorem step_refines_moveCtor (s : Sys) (sp : Spec.SSys) (k j : Nat)
    (hinv : Inv s) (hrel : Rel s sp) (hv : valid s k (.moveCtor j) = true) : StepOk s sp k (.moveCtor j) := by
  simp only [valid, Bool.and_eq_true, decide_eq_true_eq, bne_iff_ne, ne_eq] at hv
  obtain ⟨⟨hs, hk⟩, hj, hjk⟩ := hv
  obtain ⟨d, hd⟩ := getElem?_of_lt hk
  obtain ⟨o, ho⟩ := getElem?_of_lt hj
  have hocap := hinv.get ho
  obtain ⟨m, hm, hmcap⟩ : ∃ m, (if s.ty = .ipv then ipvMoveCtor s.cap s.kind o else moveCtor s.cap s.kind o) = .ok (o, m)
      ∧ m.length ≤ s.cap := by
    split
    · refine ⟨_, ipvMoveCtor_eq s.kind o hocap, ?_⟩
      cases s.kind <;> simp [hocap]
    · exact ⟨_, moveCtor_eq s.kind o hinv.1 hocap, by simpa using hocap⟩
  refine ⟨(s.setObj k o).setObj j m, .unit, ?_, (hinv.setObj k o hocap).setObj j m hmcap, rfl, rfl, rfl,
    by simp [Sys.setObj], ?_, ?_⟩
  · simp only [step, hs, Bool.not_true, Bool.false_eq_true, if_false, if_neg hjk, rd_of_get ho, rd_of_get hd,
      ok_bind]
    by_cases ht : s.ty = .ipv
    · rw [if_pos ht] at hm ⊢; rw [hm]; rfl
    · rw [if_neg ht] at hm ⊢; rw [hm]; rfl
  · simp only [Spec.step]
    exact (hrel.setObj k o _ (getObj_eq hrel ho)).setObj j m none (fun l h => by simp at h)
  · intro o' h
    simp only [Spec.step] at h
    exact Option.some.inj h

theorem step_refines_copyAssign (s : Sys) (sp : Spec.SSys) (k j : Nat)
    (hinv : Inv s) (hrel : Rel s sp) (hv : valid s k (.copyAssign j) = true) : StepOk s sp k (.copyAssign j) := by
  simp only [valid, Bool.and_eq_true, decide_eq_true_eq] at hv
  obtain ⟨⟨hs, hk⟩, hj⟩ := hv
  obtain ⟨d, hd⟩ := getElem?_of_lt hk
  obtain ⟨o, ho⟩ := getElem?_of_lt hj
  have hocap := hinv.get ho
  refine ⟨s.setObj k o, .unit, ?_, hinv.setObj k o hocap, rfl, rfl, rfl, by simp [Sys.setObj], ?_, ?_⟩
  · simp only [step, hs, Bool.not_true, Bool.false_eq_true, if_false, rd_of_get ho, rd_of_get hd, ok_bind]
    by_cases hjk : j = k
    · subst hjk
      rw [hd] at ho
      have : d = o := Option.some.inj ho
      subst this
      simp [copyAssignSelf]
    · rw [if_neg hjk, copyAssign_eq d o hinv.1 hocap]
      rfl
  · simp only [Spec.step]
    exact hrel.setObj k o _ (getObj_eq hrel ho)
  · intro o' h
    simp only [Spec.step] at h
    exact Option.some.inj h

theorem step_refines_moveAssign (s : Sys) (sp : Spec.SSys) (k j : Nat)
    (hinv : Inv s) (hrel : Rel s sp) (hv : valid s k (.moveAssign j) = true) : StepOk s sp k (.moveAssign j) := by
  simp only [valid, Bool.and_eq_true, decide_eq_true_eq] at hv
  obtain ⟨⟨hs, hk⟩, hj⟩ := hv
  obtain ⟨d, hd⟩ := getElem?_of_lt hk
  obtain ⟨o, ho⟩ := getElem?_of_lt hj
  have hocap := hinv.get ho
  by_cases hjk : j = k
  · subst hjk
    refine ⟨s.setObj j [], .unit, ?_, hinv.setObj j [] (by simp), rfl, rfl, rfl, by simp [Sys.setObj], ?_, ?_⟩
    · simp only [step, hs, Bool.not_true, Bool.false_eq_true, if_false, rd_of_get hd, ok_bind, if_true]
      rw [moveAssignSelf_eq d hinv.1]
      rfl
    · simp only [Spec.step, specSetObj_setObj]
      exact hrel.setObj j [] none (fun l h => by simp at h)
    · intro o' h
      simp only [Spec.step] at h
      exact Option.some.inj h
  · refine ⟨(s.setObj k o).setObj j (o.map (mvd s.kind)), .unit, ?_,
      (hinv.setObj k o hocap).setObj j _
        (by have h : (o.map (mvd s.kind)).length ≤ s.cap := by simpa using hocap
            exact h), rfl, rfl, rfl, by simp [Sys.setObj], ?_, ?_⟩
    · simp only [step, hs, Bool.not_true, Bool.false_eq_true, if_false, rd_of_get ho, rd_of_get hd, ok_bind,
        if_neg hjk]
      rw [moveAssign_eq s.kind d o hinv.1 hocap]
      rfl
    · simp only [Spec.step]
      exact (hrel.setObj k o _ (getObj_eq hrel ho)).setObj j _ none (fun l h => by simp at h)
    · intro o' h
      simp only [Spec.step] at h
      exact Option.some.inj h

theorem step_refines_swap (s : Sys) (sp : Spec.SSys) (k j : Nat)
    (hinv : Inv s) (hrel : Rel s sp) (hv : valid s k (.swap j) = true) : StepOk s sp k (.swap j) := by
  simp only [valid, Bool.and_eq_true, decide_eq_true_eq] at hv
  obtain ⟨⟨hs, hk⟩, hj⟩ := hv
  obtain ⟨d, hd⟩ := getElem?_of_lt hk
  obtain ⟨o, ho⟩ := getElem?_of_lt hj
  have hocap := hinv.get ho
  have hdcap := hinv.get hd
  refine ⟨(s.setObj k o).setObj j d, .unit, ?_, (hinv.setObj k o hocap).setObj j d hdcap, rfl, rfl, rfl,
    by simp [Sys.setObj], ?_, ?_⟩
  · simp only [step, hs, Bool.not_true, Bool.false_eq_true, if_false, rd_of_get ho, rd_of_get hd, ok_bind]
    by_cases hjk : j = k
    · subst hjk
      rw [hd] at ho
      have : d = o := Option.some.inj ho
      subst this
      rw [if_pos rfl, swapSelf_eq s.kind d hinv.1 hdcap]
      simp only [ok_bind, setObj_setObj]
    · rw [if_neg hjk, swapVec_eq s.kind d o hinv.1 hdcap hocap]
      rfl
  · simp only [Spec.step]
    exact (hrel.setObj k o _ (getObj_eq hrel ho)).setObj j d _ (getObj_eq hrel hd)
  · intro o' h
    simp only [Spec.step] at h
    exact Option.some.inj h

/-- `operator<` of every element kind of the harness is asymmetric (it is a strict weak order) -/
theorem ltOf_asymm (k : Kind) (x y : Nat) (h : ltOf k x y = true) : ltOf k y x = false := by
  cases k <;> simp only [ltOf, decide_eq_true_eq, decide_eq_false_iff_not] at h ⊢ <;> omega

theorem step_refines_cmp (s : Sys) (sp : Spec.SSys) (k j : Nat)
    (hinv : Inv s) (hrel : Rel s sp) (hv : valid s k (.cmp j) = true) : StepOk s sp k (.cmp j) := by
  simp only [valid, Bool.and_eq_true, decide_eq_true_eq] at hv
  obtain ⟨⟨hs, hk⟩, hj⟩ := hv
  obtain ⟨d, hd⟩ := getElem?_of_lt hk
  obtain ⟨o, ho⟩ := getElem?_of_lt hj
  refine ⟨s, .rels (Spec.rels (ltOf s.kind) (eqOf s.kind) d o), ?_, hinv, rfl, rfl, rfl, rfl, ?_, ?_⟩
  · simp only [step, hs, Bool.not_true, Bool.false_eq_true, if_false, rd_of_get ho, rd_of_get hd, ok_bind,
      relOps_eq _ _ (ltOf_asymm s.kind)]
  · simp only [Spec.step]
    split <;> exact hrel
  · intro o' h
    simp only [Spec.step] at h
    split at h
    · rename_i a b ha hb
      have h1 : d = a := getObj_eq hrel hd a ha
      have h2 : o = b := getObj_eq hrel ho b hb
      subst h1 h2
      rw [hrel.2.2.2] at h
      exact Option.some.inj h
    · simp at h

/-- every valid operation succeeds in the model, keeps the invariant and the static parameters, and
    refines the spec -/
theorem step_refines_all (s : Sys) (sp : Spec.SSys) (k : Nat) (op : Op)
    (hinv : Inv s) (hrel : Rel s sp) (hv : valid s k op = true) : StepOk s sp k op := by
  cases hb : isBinary op with
  | none => exact step_refines_unary s sp k op hb hinv hrel hv
  | some j =>
    cases op <;> simp only [isBinary, Option.some.injEq, reduceCtorEq] at hb
    all_goals subst hb
    · exact step_refines_copyCtor s sp k _ hinv hrel hv
    · exact step_refines_moveCtor s sp k _ hinv hrel hv
    · exact step_refines_copyAssign s sp k _ hinv hrel hv
    · exact step_refines_moveAssign s sp k _ hinv hrel hv
    · exact step_refines_swap s sp k _ hinv hrel hv
    · exact step_refines_cmp s sp k _ hinv hrel hv

/-- the outputs of the model agree with those of the spec wherever the spec gives one -/
def OutsAgree : List Out → List (Option Out) → Prop
  | [], [] => True
  | o :: os, so :: sos => (∀ o', so = some o' → o = o') ∧ OutsAgree os sos
  | _, _ => False

theorem outsAgree_cons (o : Out) (os : List Out) (so : Option Out) (sos : List (Option Out)) :
    OutsAgree (o :: os) (so :: sos) = ((∀ o', so = some o' → o = o') ∧ OutsAgree os sos) := rfl

theorem validRun_cons (s : Sys) (k : Nat) (op : Op) (rest : List (Nat × Op)) :
    validRun s ((k, op) :: rest) = (valid s k op && match step s k op with
      | .ok r => validRun r.1 rest
      | .error _ => true) := rfl

theorem validHist_cons (ty : Ty) (sp : Spec.SSys) (k : Nat) (op : Op) (rest : List (Nat × Op)) :
    Spec.validHist ty sp ((k, op) :: rest) = (Spec.valid ty sp k op && Spec.validHist ty (Spec.step sp k op).1 rest) := rfl

theorem run_cons (s : Sys) (k : Nat) (op : Op) (rest : List (Nat × Op)) :
    run s ((k, op) :: rest) = (do
      let r ← step s k op
      let r2 ← run r.1 rest
      .ok (r2.1, r.2 :: r2.2)) := rfl

theorem specRun_cons (sp : Spec.SSys) (k : Nat) (op : Op) (rest : List (Nat × Op)) :
    Spec.run sp ((k, op) :: rest) =
      ((Spec.run (Spec.step sp k op).1 rest).1, (Spec.step sp k op).2 :: (Spec.run (Spec.step sp k op).1 rest).2) := rfl

/-! ### validity read off the spec state implies validity in the model state -/

theorem valid_eq_supports_pre (s : Sys) (k : Nat) (op : Op) : valid s k op = (supports s.ty op && validPre s k op) := by
  simp only [valid, validPre, Bool.and_assoc]

theorem stateFree_valid1 {cap : Nat} {op : Op} (h : Spec.stateFree op = true) (d : V) :
    valid1 cap op d = valid1 cap op [] := by
  cases op <;> simp_all [Spec.stateFree, valid1]

theorem validPre_unary (s : Sys) (k : Nat) (op : Op) (hb : isBinary op = none) :
    validPre s k op = (decide (k < s.objs.length) &&
      match s.objs[k]? with
      | some d => valid1 s.cap op d
      | none => false) := by
  cases op <;> first | rfl | simp [isBinary] at hb

theorem specValidPre_unary (sp : Spec.SSys) (k : Nat) (op : Op) (hb : isBinary op = none) :
    Spec.validPre sp k op = (decide (k < sp.objs.length) &&
      match Spec.getObj sp k with
      | some l => valid1 sp.cap op l
      | none => Spec.stateFree op && valid1 sp.cap op []) := by
  cases op <;> first | rfl | simp [isBinary] at hb

/-- a precondition that holds in the spec state (sizes the standard prescribes; nothing assumed about
    unspecified objects) holds in every model state related to it -/
theorem validPre_of_spec {s : Sys} {sp : Spec.SSys} (hrel : Rel s sp) (k : Nat) (op : Op)
    (h : Spec.validPre sp k op = true) : validPre s k op = true := by
  have hc := hrel.1
  have hl := hrel.2.1
  by_cases hb : isBinary op = none
  · rw [specValidPre_unary _ _ _ hb] at h
    rw [validPre_unary _ _ _ hb]
    simp only [Bool.and_eq_true, decide_eq_true_eq] at h ⊢
    obtain ⟨hk, hm⟩ := h
    have hk' : k < s.objs.length := hl ▸ hk
    refine ⟨hk', ?_⟩
    obtain ⟨d, hd⟩ := getElem?_of_lt hk'
    rw [hd]
    cases hg : Spec.getObj sp k with
    | some l =>
      rw [hg] at hm
      have h2 := hrel.get hg
      rw [hd] at h2
      cases h2
      rw [← hc]
      exact hm
    | none =>
      rw [hg] at hm
      simp only [Bool.and_eq_true] at hm
      show valid1 s.cap op d = true
      rw [stateFree_valid1 hm.1, ← hc]
      exact hm.2
  · cases op <;> simp [isBinary] at hb <;> simpa [Spec.validPre, validPre, hl] using h

theorem valid_of_spec {s : Sys} {sp : Spec.SSys} (hrel : Rel s sp) (k : Nat) (op : Op)
    (h : Spec.valid s.ty sp k op = true) : valid s k op = true := by
  rw [valid_eq_supports_pre]
  simp only [Spec.valid, Bool.and_eq_true] at h ⊢
  exact ⟨h.1, validPre_of_spec hrel k op h.2⟩

end Tetl.C01
