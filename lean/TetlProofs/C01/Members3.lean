/-
C01 — `erase_if` (find_if + the remove_if loop + erase) and the inplace_vector members.
-/
import TetlProofs.C01.Members2
namespace Tetl.C01
open Tetl

/-- `find_if` stops at the first element satisfying `p`: the list splits into a prefix of
    non-matching elements and a rest that is empty or starts with a match -/
theorem findIf_spec (p : Nat → Bool) : ∀ (R A : V), (∀ x ∈ A, p x = false) →
    ∃ N R', A ++ R = N ++ R' ∧ (∀ x ∈ N, p x = false) ∧ findIf p (A ++ R) A.length R.length = .ok N.length
      ∧ (R' = [] ∨ ∃ g R'', R' = g :: R'' ∧ p g = true) := by
  intro R
  induction R with
  | nil => intro A hA; exact ⟨A, [], rfl, hA, by simp [findIf], Or.inl rfl⟩
  | cons x R ih =>
    intro A hA
    simp only [List.length_cons, findIf, rd_append_mid, ok_bind]
    by_cases hp : p x = true
    · exact ⟨A, x :: R, rfl, hA, by simp [hp], Or.inr ⟨x, R, rfl, hp⟩⟩
    · have hpf : p x = false := by simpa using hp
      obtain ⟨N, R', h1, h2, h3, h4⟩ := ih (A ++ [x]) (by
        intro y hy
        rcases List.mem_append.mp hy with h | h
        · exact hA y h
        · simp at h; rw [h]; exact hpf)
      refine ⟨N, R', by rw [← h1]; simp, h2, ?_, h4⟩
      have e1 : A ++ x :: R = (A ++ [x]) ++ R := by simp
      have e2 : A.length + 1 = (A ++ [x]).length := by simp
      rw [hpf, e1, e2]
      simpa using h3

/-- `p[dst] = move(p[src])` with `dst < src`, seen on a buffer split at both indices: the destination takes the
    value, the source its moved-from state; nothing else changes -/
theorem mvAsg_split (k : Kind) (A G' R : V) (g x : Nat) :
    mvAsg k (A ++ g :: G' ++ x :: R) A.length (A.length + (G'.length + 1))
      = .ok (A ++ x :: G' ++ mvd k x :: R) := by
  have h1 : rd (A ++ g :: G' ++ x :: R) (A.length + (G'.length + 1)) = .ok x := by
    have : A ++ g :: G' ++ x :: R = (A ++ g :: G') ++ x :: R := by simp
    rw [this]; exact rd_append_mid' _ _ _ _ (by simp)
  have h2 : wr (A ++ g :: G' ++ x :: R) A.length x = .ok (A ++ x :: G' ++ x :: R) := by
    have e1 : A ++ g :: G' ++ x :: R = A ++ g :: (G' ++ x :: R) := by simp
    have e2 : A ++ x :: G' ++ x :: R = A ++ x :: (G' ++ x :: R) := by simp
    rw [e1, e2]; exact wr_append_mid _ _ _ _
  have h3 : wr (A ++ x :: G' ++ x :: R) (A.length + (G'.length + 1)) (mvd k x)
      = .ok (A ++ x :: G' ++ mvd k x :: R) := by
    have e1 : A ++ x :: G' ++ x :: R = (A ++ x :: G') ++ x :: R := by simp
    have e2 : A ++ x :: G' ++ mvd k x :: R = (A ++ x :: G') ++ mvd k x :: R := by simp
    have e3 : A.length + (G'.length + 1) = (A ++ x :: G').length := by simp
    rw [e1, e2, e3]; exact wr_append_mid _ _ _ _
  unfold mvAsg
  rw [h1]; simp only [ok_bind]
  rw [if_neg (by omega), h2]; simp only [ok_bind]
  exact h3

/-- the compaction loop of `remove_if`, for every element kind: the write index stays strictly behind the read
    index (`G ≠ []`), so every move assignment has `dst ≠ src` — no element is ever move-assigned to itself —
    and the kept elements arrive unchanged; what is left behind (`J`: moved-from and removed elements) is
    destroyed by `erase` -/
theorem removeLoop_spec (k : Kind) (p : Nat → Bool) : ∀ (R A G : V), G ≠ [] →
    ∃ J, removeLoop k p (A ++ G ++ R) A.length (A.length + G.length) R.length
        = .ok (A ++ R.filter (fun v => !p v) ++ J, A.length + (R.filter (fun v => !p v)).length)
      ∧ J.length + (R.filter (fun v => !p v)).length = G.length + R.length := by
  intro R
  induction R with
  | nil => intro A G _; exact ⟨G, by simp [removeLoop], by simp⟩
  | cons x R ih =>
    intro A G hG
    obtain ⟨g, G', rfl⟩ := List.exists_cons_of_ne_nil hG
    simp only [List.length_cons, removeLoop]
    have h1 : rd (A ++ g :: G' ++ x :: R) (A.length + (G'.length + 1)) = .ok x := by
      have : A ++ g :: G' ++ x :: R = (A ++ g :: G') ++ x :: R := by simp
      rw [this]; exact rd_append_mid' _ _ _ _ (by simp)
    rw [h1]; simp only [ok_bind]
    by_cases hp : p x = true
    · -- removed element: the gap grows
      simp only [hp, Bool.not_true, Bool.false_eq_true, if_false]
      obtain ⟨J, hJ, hJl⟩ := ih A (g :: G' ++ [x]) (by simp)
      have e1 : A ++ g :: G' ++ x :: R = A ++ (g :: G' ++ [x]) ++ R := by simp
      have e2 : A.length + (G'.length + 1) + 1 = A.length + (g :: G' ++ [x]).length := by simp; omega
      rw [e1, e2, hJ]
      refine ⟨J, by simp [hp], ?_⟩
      simp [hp] at hJl ⊢; omega
    · have hpf : p x = false := by simpa using hp
      simp only [hpf, Bool.not_false, if_true]
      rw [mvAsg_split]; simp only [ok_bind]
      obtain ⟨J, hJ, hJl⟩ := ih (A ++ [x]) (G' ++ [mvd k x]) (by simp)
      have e1 : A ++ x :: G' ++ mvd k x :: R = (A ++ [x]) ++ (G' ++ [mvd k x]) ++ R := by simp
      have e2 : A.length + (G'.length + 1) + 1 = (A ++ [x]).length + (G' ++ [mvd k x]).length := by simp; omega
      have e3 : A.length + 1 = (A ++ [x]).length := by simp
      rw [e1, e2, e3, hJ]
      refine ⟨J, by simp [hpf]; omega, ?_⟩
      simp [hpf] at hJl ⊢; omega

theorem filter_not_of_all_false (p : Nat → Bool) (N : V) (h : ∀ x ∈ N, p x = false) :
    N.filter (fun v => !p v) = N := by
  apply List.filter_eq_self.mpr
  intro x hx; simp [h x hx]

theorem removeIf_spec (k : Kind) (p : Nat → Bool) (l : V) :
    ∃ J, removeIf k p l = .ok (l.filter (fun v => !p v) ++ J, (l.filter (fun v => !p v)).length)
      ∧ (l.filter (fun v => !p v) ++ J).length = l.length := by
  obtain ⟨N, R', h1, h2, h3, h4⟩ := findIf_spec p l [] (by simp)
  simp only [List.nil_append, List.length_nil] at h1 h3
  unfold removeIf
  rw [h3]; simp only [ok_bind]
  rcases h4 with rfl | ⟨g, R'', rfl, hg⟩
  · simp only [List.append_nil] at h1
    subst h1
    refine ⟨[], ?_, by simp [filter_not_of_all_false p l h2]⟩
    simp [filter_not_of_all_false p l h2]
  · subst h1
    have hne : N.length ≠ (N ++ g :: R'').length := by simp
    rw [if_pos hne]
    obtain ⟨J, hJ, hJl⟩ := removeLoop_spec k p R'' N [g] (by simp)
    have e1 : N ++ g :: R'' = N ++ [g] ++ R'' := by simp
    have e2 : (N ++ g :: R'').length - N.length - 1 = R''.length := by simp
    have e3 : N.length + 1 = N.length + [g].length := by simp
    rw [e2, e3]
    conv => enter [1, J, 1, 1, 3]; rw [e1]
    rw [hJ]
    have hf : (N ++ [g] ++ R'').filter (fun v => !p v) = N ++ R''.filter (fun v => !p v) := by
      simp [List.filter_append, filter_not_of_all_false p N h2, hg]
    refine ⟨J, ?_, ?_⟩
    · rw [e1, hf]; simp
    · rw [e1, hf]; simp at hJl ⊢; omega

theorem countP_add_filter_not (p : Nat → Bool) : ∀ l : V,
    l.countP p + (l.filter (fun v => !p v)).length = l.length := by
  intro l
  induction l with
  | nil => rfl
  | cons x l ih =>
    by_cases hp : p x = true
    · simp [hp]; omega
    · have hpf : p x = false := by simpa using hp
      simp [hpf]; omega

theorem eraseIf_eq {cap : Nat} (k : Kind) (d : V) (p : Nat → Bool) (hc : cap < 2 ^ 64) (hcap : d.length ≤ cap) :
    eraseIf cap k d p = .ok (d.filter (fun v => !p v), d.countP p) := by
  obtain ⟨J, hJ, hJl⟩ := removeIf_spec k p d
  unfold eraseIf
  rw [hJ]; simp only [ok_bind]
  rw [eraseRange_eq _ _ _ hc (by rw [hJl]; exact hcap) (by simp) (Nat.le_refl _)]
  simp only [ok_bind, Spec.eraseRange]
  have h1 : (d.filter (fun v => !p v) ++ J).take (d.filter (fun v => !p v)).length = d.filter (fun v => !p v) := by
    simp
  have h2 : (d.filter (fun v => !p v) ++ J).drop (d.filter (fun v => !p v) ++ J).length = [] := by simp
  rw [h1, h2, hJl]
  have := countP_add_filter_not p d
  simp only [List.append_nil]
  congr 2
  omega

/-- NOT tetl's algorithm: the textbook single loop `for (; first != last; ++first) if (!pred(*first))
    *result++ = move(*first);` without the leading `find_if` (the seeded change C01-remove-if-self-move).  While
    nothing has been removed yet `result = first`, so every kept leading element is move-assigned to itself.  Only
    used in an example of Props.lean showing that the model (`mvAsg`, element kind `hd`) tells the two apart. -/
def naiveRemove (k : Kind) (p : Nat → Bool) (l : V) (result first : Nat) : Nat → Except Err (V × Nat)
  | 0 => .ok (l, result)
  | n + 1 => do
    let x ← rd l first
    if !p x then do
      let l1 ← mvAsg k l result first
      naiveRemove k p l1 (result + 1) (first + 1) n
    else naiveRemove k p l result (first + 1) n

/-! ### inplace_vector -/

theorem back_append (d : V) (x : Nat) : back (d ++ [x]) = .ok x := by
  unfold back
  have h1 : (d ++ [x]).isEmpty = false := by cases d <;> simp
  rw [h1]
  simp only [Bool.false_eq_true, if_false]
  exact rd_append_mid' d x [] _ (by simp)

theorem ipvUnchecked_eq {cap : Nat} (d : V) (x : Nat) (hc : cap < 2 ^ 64) (h : d.length < cap) :
    ipvUnchecked cap d x = .ok (d ++ [x], x) := by
  unfold ipvUnchecked
  rw [if_neg (by omega), setSize_ok hc (by omega)]
  simp [back_append]

theorem ipvTry_eq {cap : Nat} (d : V) (x : Nat) (hc : cap < 2 ^ 64) (h : d.length ≤ cap) :
    ipvTry cap d x = .ok (if d.length = cap then (d, none) else (d ++ [x], some x)) := by
  unfold ipvTry
  by_cases hf : d.length = cap
  · simp [hf]
  · rw [if_neg hf, if_neg hf, ipvUnchecked_eq d x hc (by omega)]
    rfl

theorem ipvPop_eq {cap : Nat} (d : V) (hc : cap < 2 ^ 64) (hcap : d.length ≤ cap) (h : 0 < d.length) :
    ipvPop cap d = .ok d.dropLast := by
  unfold ipvPop back
  have h1 : d.isEmpty = false := by cases d <;> simp_all
  rw [h1]
  simp only [Bool.false_eq_true, if_false]
  rw [rd_ok (show d.length - 1 < d.length by omega), setSize_ok hc (show d.length - 1 ≤ cap by omega)]
  rfl

theorem ipvClear_eq {cap : Nat} (d : V) (hc : cap < 2 ^ 64) : ipvClear cap d = .ok [] := by
  unfold ipvClear
  rw [setSize_ok hc (Nat.zero_le _)]
  rfl

theorem uninitLoop_spec (src : V) : ∀ (n : Nat) (dst : V) (i : Nat), i + n = src.length →
    uninitLoop src dst i n = .ok (dst ++ src.drop i) := by
  intro n
  induction n with
  | zero =>
    intro dst i h
    have : src.drop i = [] := List.drop_eq_nil_of_le (by omega)
    simp [uninitLoop, this]
  | succ n ih =>
    intro dst i h
    unfold uninitLoop
    have hi : i < src.length := by omega
    rw [rd_ok hi]; simp only [ok_bind]
    rw [ih (dst ++ [src[i]]) (i + 1) (by omega)]
    rw [List.drop_eq_getElem_cons hi]
    simp

theorem ipvCopyCtor_eq {cap : Nat} (k : Kind) (o : V) (h : o.length ≤ cap) :
    ipvCopyCtor cap k o = .ok o := by
  unfold ipvCopyCtor
  cases k <;> first
    | rfl
    | (simp only
       rw [uninitLoop_spec o o.length [] 0 (by simp)]
       simp only [ok_bind, List.nil_append, List.drop_zero]
       rw [if_neg (by omega)])

theorem ipvMoveCtor_eq {cap : Nat} (k : Kind) (o : V) (h : o.length ≤ cap) :
    ipvMoveCtor cap k o = .ok (o, match k with | .triv | .kp => o | _ => []) := by
  unfold ipvMoveCtor
  cases k <;> first
    | rfl
    | (simp only
       rw [uninitLoop_spec o o.length [] 0 (by simp)]
       simp only [ok_bind, List.nil_append, List.drop_zero]
       rw [if_neg (by omega)])

end Tetl.C01
