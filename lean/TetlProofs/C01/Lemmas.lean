import Tetl.C01.Model
import Tetl.C01.Step
import Tetl.C01.Spec
namespace Tetl.C01
open Tetl

@[simp] theorem ok_bind {ε α β} (a : α) (f : α → Except ε β) : (Except.ok a >>= f) = f a := rfl
@[simp] theorem error_bind {ε α β} (e : ε) (f : α → Except ε β) : (Except.error e >>= f) = Except.error e := rfl
@[simp] theorem pure_eq_ok {ε α} (a : α) : (pure a : Except ε α) = Except.ok a := rfl

end Tetl.C01
