/-
C01 — helper lemmas: checked reads/writes on appended lists, the narrow size store, and the
building blocks `emplaceBack`, `pushN`, `appendAll`.
-/
import Tetl.C01.Model
import Tetl.C01.Step
import Tetl.C01.Spec
namespace Tetl.C01
open Tetl

@[simp] theorem ok_bind {ε α β} (a : α) (f : α → Except ε β) : (Except.ok a >>= f) = f a := rfl
@[simp] theorem error_bind {ε α β} (e : ε) (f : α → Except ε β) : (Except.error e >>= f) = Except.error e := rfl
@[simp] theorem pure_eq_ok {ε α} (a : α) : (pure a : Except ε α) = Except.ok a := rfl

theorem rd_ok {α} {l : List α} {i : Nat} (h : i < l.length) : rd l i = .ok l[i] := by simp [rd, h]
@[simp] theorem rd_cons_zero {α} (x : α) (l : List α) : rd (x :: l) 0 = .ok x := by simp [rd]
@[simp] theorem rd_cons_succ {α} (x : α) (l : List α) (i : Nat) : rd (x :: l) (i + 1) = rd l i := by simp [rd]

/-- reading the head of the second segment -/
theorem rd_append_mid {α} (P : List α) (x : α) (T : List α) : rd (P ++ x :: T) P.length = .ok x := by
  simp [rd]

theorem rd_append_mid' {α} (P : List α) (x : α) (T : List α) (i : Nat) (h : i = P.length) :
    rd (P ++ x :: T) i = .ok x := by subst h; exact rd_append_mid P x T

/-- overwriting the head of the second segment -/
theorem wr_append_mid {α} (P : List α) (x y : α) (T : List α) :
    wr (P ++ x :: T) P.length y = .ok (P ++ y :: T) := by
  simp [wr]

theorem wr_append_mid' {α} (P : List α) (x y : α) (T : List α) (i : Nat) (h : i = P.length) :
    wr (P ++ x :: T) i y = .ok (P ++ y :: T) := by subst h; exact wr_append_mid P x y T

/-! ### the size store -/

/-- a chain all of whose links are sound (`Link.sound`: the condition implies that the selected type holds `N`)
    selects, for every `n` the fall-back type can hold, a type that holds `n` — whatever the thresholds are -/
theorem pick_fits (n : Nat) : ∀ (chain : List Link) (fb : CTy), chain.all Link.sound = true → n < 2 ^ fb.bits →
    n < 2 ^ (pick n chain fb).bits := by
  intro chain
  induction chain with
  | nil => intro fb _ h; exact h
  | cons l ls ih =>
    intro fb hs hfb
    simp only [List.all_cons, Bool.and_eq_true] at hs
    simp only [pick]
    split
    · rename_i hh
      have h1 := hs.1
      unfold Link.holds at hh
      unfold Link.sound at h1
      cases hc : l.cmp <;> simp only [hc, decide_eq_true_eq] at hh h1 <;> omega
    · exact ih fb hs.2 hfb

/-- the chain of the header under check is sound (finite check over the generated list) -/
theorem genChain_sound : GenSize.chain.all Link.sound = true ∧ GenSize.fallback.bits = 64 := by decide

theorem smallestBits_fits (cap : Nat) (h : cap < 2 ^ 64) : cap < 2 ^ smallestBits cap := by
  unfold smallestBits
  exact pick_fits cap _ _ genChain_sound.1 (by rw [genChain_sound.2]; exact h)

/-- closed form of the generated chain (for the header as it is: `N < 255`, `N < 65535`, `N < 2^32 - 1`) -/
theorem smallestBits_closed (n : Nat) :
    smallestBits n = if n < 255 then 8 else if n < 65535 then 16 else if n < 4294967295 then 32 else 64 := by
  simp only [smallestBits, GenSize.chain, GenSize.fallback, pick, Link.holds, Bound.eval, CTy.bits,
    Nat.reducePow, Nat.reduceSub]
  by_cases h1 : n < 255
  · simp [h1]
  · by_cases h2 : n < 65535
    · simp [h1, h2]
    · by_cases h3 : n < 4294967295
      · simp [h1, h2, h3]
      · simp only [h1, h2, h3, if_false, decide_false, Bool.false_eq_true]
        by_cases h4 : n < 18446744073709551615 <;> simp [h4]

theorem setSize_ok {cap n : Nat} (hc : cap < 2 ^ 64) (hn : n ≤ cap) : setSize cap n = .ok () := by
  have hf := smallestBits_fits cap hc
  have hw : wrap cap n = n := by
    unfold wrap
    exact Nat.mod_eq_of_lt (by omega)
  unfold setSize
  simp [hw, Nat.not_lt.mpr hn]

/-! ### append at the end -/

theorem emplaceBack_ok {cap : Nat} {d : V} (x : Nat) (hc : cap < 2 ^ 64) (h : d.length < cap) :
    emplaceBack cap d x = .ok (d ++ [x]) := by
  unfold emplaceBack
  have h1 : ¬ d.length = cap := by omega
  simp [h1, setSize_ok hc (show d.length + 1 ≤ cap by omega)]

theorem pushBack_ok {cap : Nat} {d : V} (x : Nat) (hc : cap < 2 ^ 64) (h : d.length < cap) :
    pushBack cap d x = .ok (d ++ [x]) := by
  unfold pushBack
  have h1 : ¬ d.length = cap := by omega
  simp [h1, emplaceBack_ok x hc h]

theorem pushN_ok {cap : Nat} (x : Nat) (hc : cap < 2 ^ 64) :
    ∀ (n : Nat) (d : V), d.length + n ≤ cap → pushN cap d x n = .ok (d ++ List.replicate n x) := by
  intro n
  induction n with
  | zero => intro d _; simp [pushN]
  | succ n ih =>
    intro d h
    unfold pushN
    rw [pushBack_ok x hc (by omega)]
    simp only [ok_bind]
    rw [ih (d ++ [x]) (by simp; omega)]
    simp [List.replicate_succ]

theorem appendAll_ok {cap : Nat} (hc : cap < 2 ^ 64) :
    ∀ (xs : List Nat) (d : V), d.length + xs.length ≤ cap → appendAll cap d xs = .ok (d ++ xs) := by
  intro xs
  induction xs with
  | nil => intro d _; simp [appendAll]
  | cons x xs ih =>
    intro d h
    unfold appendAll
    rw [emplaceBack_ok x hc (by simp at h; omega)]
    simp only [ok_bind]
    rw [ih (d ++ [x]) (by simp at h ⊢; omega)]
    simp

end Tetl.C01
