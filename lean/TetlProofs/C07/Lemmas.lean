/-
C07 — helper lemmas: the mixed-radix counting argument behind `visit_with_index`.
`rank cur sizes` is the number whose digits (least significant first, radix `sizes[i]` at position `i`)
are `cur`; `nextSeq` adds one to it and wraps to zero at `prod sizes`.
-/
import Tetl.C07.Model
import Tetl.C07.Spec
namespace Tetl.C07

/-- `act` is a tuple of valid indices for variants with `sizes` alternatives -/
def validIdx : List Nat → List Nat → Bool
  | [], [] => true
  | i :: is, j :: js => decide (i < j) && validIdx is js
  | _, _ => false

def rank : List Nat → List Nat → Nat
  | i :: is, j :: js => i + j * rank is js
  | _, _ => 0

def zeros (s : List Nat) : List Nat := s.map fun _ => 0

theorem validIdx_cons {i j : Nat} {is js : List Nat} :
    validIdx (i :: is) (j :: js) = true ↔ i < j ∧ validIdx is js = true := by
  simp [validIdx]

theorem rank_lt : ∀ (c s : List Nat), validIdx c s = true → rank c s < prod s
  | [], [], _ => by simp [rank, prod]
  | [], _ :: _, h => by simp [validIdx] at h
  | _ :: _, [], h => by simp [validIdx] at h
  | i :: is, j :: js, h => by
    obtain ⟨hi, hv⟩ := validIdx_cons.mp h
    have ih := rank_lt is js hv
    have h1 : j * (rank is js + 1) ≤ j * prod js := Nat.mul_le_mul_left j ih
    rw [Nat.mul_succ] at h1
    simp only [rank, prod]
    omega

theorem valid_zeros : ∀ (c s : List Nat), validIdx c s = true → validIdx (zeros s) s = true
  | [], [], _ => by simp [zeros, validIdx]
  | [], _ :: _, h => by simp [validIdx] at h
  | _ :: _, [], h => by simp [validIdx] at h
  | i :: is, j :: js, h => by
    obtain ⟨hi, hv⟩ := validIdx_cons.mp h
    have ih := valid_zeros is js hv
    simp only [zeros, List.map_cons] at ih ⊢
    exact validIdx_cons.mpr ⟨by omega, ih⟩

theorem rank_zeros : ∀ s : List Nat, rank (zeros s) s = 0
  | [] => by simp [zeros, rank]
  | j :: js => by
    have ih := rank_zeros js
    simp only [zeros, List.map_cons] at ih ⊢
    simp [rank, ih]

theorem sum_zeros : ∀ s : List Nat, (zeros s).sum = 0
  | [] => by simp [zeros]
  | j :: js => by
    have ih := sum_zeros js
    simp only [zeros, List.map_cons] at ih ⊢
    simp [ih]

theorem rank_of_sum_zero : ∀ (c s : List Nat), c.sum = 0 → rank c s = 0
  | [], _, _ => by simp [rank]
  | _ :: _, [], _ => by simp [rank]
  | i :: is, j :: js, h => by
    simp only [List.sum_cons] at h
    have hi : i = 0 := by omega
    have hs : is.sum = 0 := by omega
    simp [rank, hi, rank_of_sum_zero is js hs]

theorem next_valid : ∀ (c s : List Nat), validIdx c s = true → validIdx (nextSeq c s) s = true
  | [], [], _ => by simp [nextSeq, validIdx]
  | [], _ :: _, h => by simp [validIdx] at h
  | _ :: _, [], h => by simp [validIdx] at h
  | i :: is, j :: js, h => by
    obtain ⟨hi, hv⟩ := validIdx_cons.mp h
    unfold nextSeq
    by_cases hw : i + 1 = j
    · simp only [hw, if_true]
      exact validIdx_cons.mpr ⟨by omega, next_valid is js hv⟩
    · simp only [hw, if_false]
      exact validIdx_cons.mpr ⟨by omega, hv⟩

theorem next_rank : ∀ (c s : List Nat), validIdx c s = true → rank c s + 1 < prod s →
    rank (nextSeq c s) s = rank c s + 1
  | [], [], _, h => by simp [rank, prod] at h
  | [], _ :: _, h, _ => by simp [validIdx] at h
  | _ :: _, [], h, _ => by simp [validIdx] at h
  | i :: is, j :: js, h, hlt => by
    obtain ⟨hi, hv⟩ := validIdx_cons.mp h
    simp only [rank, prod] at hlt
    unfold nextSeq
    by_cases hw : i + 1 = j
    · simp only [hw, if_true]
      have h2 : j * (rank is js + 1) < j * prod js := by rw [Nat.mul_succ]; omega
      have h3 : rank is js + 1 < prod js := Nat.lt_of_mul_lt_mul_left h2
      have ih := next_rank is js hv h3
      simp only [rank, ih, Nat.mul_succ]
      omega
    · simp only [hw, if_false, rank]
      omega

theorem next_wrap : ∀ (c s : List Nat), validIdx c s = true → rank c s + 1 = prod s →
    nextSeq c s = zeros s
  | [], [], _, _ => by simp [nextSeq, zeros]
  | [], _ :: _, h, _ => by simp [validIdx] at h
  | _ :: _, [], h, _ => by simp [validIdx] at h
  | i :: is, j :: js, h, heq => by
    obtain ⟨hi, hv⟩ := validIdx_cons.mp h
    have hr := rank_lt is js hv
    simp only [rank, prod] at heq
    have h1 : j * (rank is js + 1) ≤ j * prod js := Nat.mul_le_mul_left j hr
    rw [Nat.mul_succ] at h1
    have hw : i + 1 = j := by omega
    have h2 : j * (rank is js + 1) = j * prod js := by rw [Nat.mul_succ]; omega
    have h3 : rank is js + 1 = prod js := Nat.eq_of_mul_eq_mul_left (by omega) h2
    have ih := next_wrap is js hv h3
    unfold nextSeq
    simp only [hw, if_true, ih, zeros, List.map_cons]

theorem rank_inj : ∀ (a b s : List Nat), validIdx a s = true → validIdx b s = true →
    rank a s = rank b s → a = b
  | [], [], [], _, _, _ => rfl
  | [], _, _ :: _, h, _, _ => by simp [validIdx] at h
  | _ :: _, _, [], h, _, _ => by simp [validIdx] at h
  | _, [], _ :: _, _, h, _ => by simp [validIdx] at h
  | _, _ :: _, [], _, h, _ => by simp [validIdx] at h
  | i :: is, i' :: is', j :: js, ha, hb, he => by
    obtain ⟨hi, hv⟩ := validIdx_cons.mp ha
    obtain ⟨hi', hv'⟩ := validIdx_cons.mp hb
    simp only [rank] at he
    have hm : (i + j * rank is js) % j = (i' + j * rank is' js) % j := by rw [he]
    rw [Nat.add_mul_mod_self_left, Nat.add_mul_mod_self_left, Nat.mod_eq_of_lt hi, Nat.mod_eq_of_lt hi'] at hm
    subst hm
    have hr : j * rank is js = j * rank is' js := by omega
    have hr' : rank is js = rank is' js := Nat.eq_of_mul_eq_mul_left (by omega) hr
    rw [rank_inj is is' js hv hv' hr']

theorem visitLoop_ok (s act : List Nat) (hact : validIdx act s = true) :
    ∀ (fuel : Nat) (cur : List Nat), validIdx cur s = true → rank cur s ≤ rank act s →
      rank act s - rank cur s < fuel → visitLoop fuel cur s act = .ok act := by
  intro fuel
  induction fuel with
  | zero => intro cur _ _ h; omega
  | succ fuel ih =>
    intro cur hcur hle hfuel
    have hra := rank_lt act s hact
    have hrc := rank_lt cur s hcur
    unfold visitLoop
    by_cases hsum : (nextSeq cur s).sum = 0
    · simp only [hsum, if_true]
      have h0 := rank_of_sum_zero _ s hsum
      by_cases hw : rank cur s + 1 < prod s
      · have := next_rank cur s hcur hw
        omega
      · have : rank cur s = rank act s := by omega
        rw [rank_inj cur act s hcur hact this]
    · simp only [hsum, if_false]
      by_cases he : act = cur
      · simp [he]
      · simp only [he, if_false]
        have hne : rank cur s ≠ rank act s := fun h => he (rank_inj cur act s hcur hact h).symm
        have hlt : rank cur s + 1 < prod s := by omega
        have hn := next_rank cur s hcur hlt
        exact ih _ (next_valid cur s hcur) (by omega) (by omega)

theorem valid_all_one : ∀ (c s : List Nat), validIdx c s = true → s.all (· == 1) = true → zeros s = c
  | [], [], _, _ => by simp [zeros]
  | [], _ :: _, h, _ => by simp [validIdx] at h
  | _ :: _, [], h, _ => by simp [validIdx] at h
  | i :: is, j :: js, h, hall => by
    obtain ⟨hi, hv⟩ := validIdx_cons.mp h
    simp only [List.all_cons, Bool.and_eq_true, beq_iff_eq] at hall
    have ih := valid_all_one is js hv hall.2
    simp only [zeros, List.map_cons] at ih ⊢
    have : i = 0 := by omega
    rw [ih, this]

/-- the dispatch of `visit_with_index` ends on the tuple of active indices -/
theorem visitWithIndex_ok (sizes act : List Nat) (h : validIdx act sizes = true) :
    visitWithIndex sizes act = .ok act := by
  unfold visitWithIndex
  by_cases hall : sizes.all (· == 1) = true
  · simp only [hall, if_true]
    have := valid_all_one act sizes h hall
    simp only [zeros] at this
    rw [this]
  · simp only [hall]
    have hz := valid_zeros act sizes h
    have hr := rank_zeros sizes
    have hlt := rank_lt act sizes h
    simp only [zeros] at hz hr
    exact visitLoop_ok sizes act h (prod sizes) _ hz (by omega) (by omega)

variable {α β : Type}

@[simp] theorem ok_bind {ε γ δ : Type} (a : γ) (f : γ → Except ε δ) : (Except.ok a >>= f) = f a := rfl
@[simp] theorem ok_map {ε γ δ : Type} (a : γ) (f : γ → δ) : (Except.ok a : Except ε γ).map f = .ok (f a) := rfl
@[simp] theorem ok_fmap {ε γ δ : Type} (a : γ) (f : γ → δ) : (f <$> (Except.ok a : Except ε γ)) = .ok (f a) := rfl

/-- the trait bits of a configuration are sound for the element operations: a defaulted (bitwise) special
    member of the variant is selected only when every element operation it replaces is the plain copy
    (`is_trivially_*` of every alternative; `variant_trivially_copy_assignable` asks for both the trivial copy
    constructor and the trivial copy assignment) -/
structure TrivOK (c : Cfg) (el : Elem α) : Prop where
  cc : c.trivCC = true → ∀ s, el.cc s = s
  mc : c.trivMC = true → ∀ s, el.mc s = (s, s)
  ca : c.trivCA = true → (∀ d s, el.ca d s = s) ∧ (∀ s, el.cc s = s)
  ma : c.trivMA = true → (∀ d s, el.ma d s = (s, s)) ∧ (∀ s, el.mc s = (s, s))

/-- plain values: every special member is the bitwise copy (`int`, `float`) -/
def plainElem : Elem α := ⟨id, fun s => (s, s), fun _ s => s, fun _ s => (s, s)⟩

theorem trivOK_plain (c : Cfg) : TrivOK c (plainElem : Elem α) :=
  ⟨fun _ _ => rfl, fun _ _ => rfl, fun _ => ⟨fun _ _ => rfl, fun _ => rfl⟩, fun _ => ⟨fun _ _ => rfl, fun _ => rfl⟩⟩

/-- a value with a mark: each special member leaves its own mark (1 copy constructor, 2 move constructor,
    3 copy assignment, 4 move assignment) and the move forms leave 0 in the source: the kind `q` of the harness -/
def markElem : Elem (Nat × Nat) :=
  ⟨fun s => (s.1, 1), fun s => ((s.1, 2), (0, s.2)), fun _ s => (s.1, 3), fun _ s => ((s.1, 4), (0, s.2))⟩

theorem trivOK_mark (n : Nat) : TrivOK ⟨n, false, false, false, false⟩ markElem :=
  ⟨fun h => (by cases h), fun h => (by cases h), fun h => (by cases h), fun h => (by cases h)⟩

/-- every live object holds one of its alternatives -/
def WF (c : Cfg) (st : List (V α)) : Prop := ∀ v ∈ st, v.idx < c.n

theorem rd_ok {γ : Type} (l : List γ) (k : Nat) (h : k < l.length) : rd l k = .ok l[k] := by
  simp [rd, h]

theorem put_ok (st : List (V α)) (k : Nat) (v : V α) (h : k < st.length) : put st k v = .ok (st.set k v) := by
  simp [put, h]

theorem wf_set {c : Cfg} {st : List (V α)} (h : WF c st) (k : Nat) (v : V α) (hv : v.idx < c.n) :
    WF c (st.set k v) := by
  intro w hw
  rcases List.mem_or_eq_of_mem_set hw with hw | hw
  · exact h w hw
  · rw [hw]; exact hv

@[simp] theorem ctorV_idx1 (el : Elem α) (mv : Bool) (s : V α) : (Spec.ctorV el mv s).1.idx = s.idx := rfl
@[simp] theorem ctorV_idx2 (el : Elem α) (mv : Bool) (s : V α) : (Spec.ctorV el mv s).2.idx = s.idx := rfl
@[simp] theorem assignV_idx1 (el : Elem α) (fb : α → Bool) (mv : Bool) (d s : V α) :
    (Spec.assignV el fb mv d s).1.idx = s.idx := by unfold Spec.assignV; split <;> rfl
@[simp] theorem assignV_idx2 (el : Elem α) (fb : α → Bool) (mv : Bool) (d s : V α) :
    (Spec.assignV el fb mv d s).2.idx = s.idx := by unfold Spec.assignV; split <;> rfl

theorem absO_ctorV (el : Elem α) (mv : Bool) (s : V α) :
    (Spec.absO (Spec.ctorV el mv s).1, Spec.absO (Spec.ctorV el mv s).2) = Spec.ctorO el mv (Spec.absO s) := by
  cases s with
  | mk i x => by_cases h : i = 1 <;> simp [Spec.absO, Spec.ctorV, Spec.ctorO, h]

theorem absO_assignV (el : Elem α) (mv : Bool) (d s : V α) :
    (Spec.absO (Spec.assignV el Spec.noFb mv d s).1, Spec.absO (Spec.assignV el Spec.noFb mv d s).2)
      = Spec.assignO el mv (Spec.absO d) (Spec.absO s) := by
  cases d with
  | mk i x =>
    cases s with
    | mk j y =>
      by_cases hi : i = 1 <;> by_cases hj : j = 1 <;> by_cases hij : i = j <;>
        simp_all [Spec.absO, Spec.assignV, Spec.assignO]

theorem absE_ctorV (el : Elem α) (mv : Bool) (s : V α) :
    (Spec.absE (Spec.ctorV el mv s).1, Spec.absE (Spec.ctorV el mv s).2) = Spec.ctorE el mv (Spec.absE s) := by
  cases s with
  | mk i x => by_cases h : i = 0 <;> simp [Spec.absE, Spec.ctorV, Spec.ctorE, h]

theorem absE_assignV (el : Elem α) (fb : α → Bool) (mv : Bool) (d s : V α) (hd : d.idx < 2) (hs : s.idx < 2) :
    (Spec.absE (Spec.assignV el fb mv d s).1, Spec.absE (Spec.assignV el fb mv d s).2)
      = Spec.assignE el fb mv (Spec.absE d) (Spec.absE s) := by
  cases d with
  | mk i x =>
    cases s with
    | mk j y =>
      simp only at hd hs
      have hi : i = 0 ∨ i = 1 := by omega
      have hj : j = 0 ∨ j = 1 := by omega
      rcases hi with hi | hi <;> rcases hj with hj | hj <;> subst hi <;> subst hj <;>
        simp [Spec.absE, Spec.assignV, Spec.assignE]

theorem absO_ctorV1 (el : Elem α) (mv : Bool) (s : V α) :
    Spec.absO (Spec.ctorV el mv s).1 = (Spec.ctorO el mv (Spec.absO s)).1 := congrArg Prod.fst (absO_ctorV el mv s)
theorem absO_ctorV2 (el : Elem α) (mv : Bool) (s : V α) :
    Spec.absO (Spec.ctorV el mv s).2 = (Spec.ctorO el mv (Spec.absO s)).2 := congrArg Prod.snd (absO_ctorV el mv s)
theorem absO_assignV1 (el : Elem α) (mv : Bool) (d s : V α) :
    Spec.absO (Spec.assignV el Spec.noFb mv d s).1 = (Spec.assignO el mv (Spec.absO d) (Spec.absO s)).1 :=
  congrArg Prod.fst (absO_assignV el mv d s)
theorem absO_assignV2 (el : Elem α) (mv : Bool) (d s : V α) :
    Spec.absO (Spec.assignV el Spec.noFb mv d s).2 = (Spec.assignO el mv (Spec.absO d) (Spec.absO s)).2 :=
  congrArg Prod.snd (absO_assignV el mv d s)

theorem absO_swapV1 (el : Elem α) (a b : V α) :
    Spec.absO (Spec.swapV el a b).1 = (Spec.swapO el (Spec.absO a) (Spec.absO b)).1 := by
  simp only [Spec.swapV, Spec.swapO, absO_assignV1, absO_ctorV2]
theorem absO_swapV2 (el : Elem α) (a b : V α) :
    Spec.absO (Spec.swapV el a b).2 = (Spec.swapO el (Spec.absO a) (Spec.absO b)).2 := by
  simp only [Spec.swapV, Spec.swapO, absO_assignV1, absO_assignV2, absO_ctorV1, absO_ctorV2]
theorem absO_swapSelfV (el : Elem α) (a : V α) :
    Spec.absO (Spec.swapSelfV el a) = Spec.swapSelfO el (Spec.absO a) := by
  simp only [Spec.swapSelfV, Spec.swapSelfO, absO_assignV1, absO_ctorV1, absO_ctorV2]

theorem absE_ctorV1 (el : Elem α) (mv : Bool) (s : V α) :
    Spec.absE (Spec.ctorV el mv s).1 = (Spec.ctorE el mv (Spec.absE s)).1 := congrArg Prod.fst (absE_ctorV el mv s)
theorem absE_ctorV2 (el : Elem α) (mv : Bool) (s : V α) :
    Spec.absE (Spec.ctorV el mv s).2 = (Spec.ctorE el mv (Spec.absE s)).2 := congrArg Prod.snd (absE_ctorV el mv s)
theorem absE_assignV1 (el : Elem α) (fb : α → Bool) (mv : Bool) (d s : V α) (hd : d.idx < 2) (hs : s.idx < 2) :
    Spec.absE (Spec.assignV el fb mv d s).1 = (Spec.assignE el fb mv (Spec.absE d) (Spec.absE s)).1 :=
  congrArg Prod.fst (absE_assignV el fb mv d s hd hs)
theorem absE_assignV2 (el : Elem α) (fb : α → Bool) (mv : Bool) (d s : V α) (hd : d.idx < 2) (hs : s.idx < 2) :
    Spec.absE (Spec.assignV el fb mv d s).2 = (Spec.assignE el fb mv (Spec.absE d) (Spec.absE s)).2 :=
  congrArg Prod.snd (absE_assignV el fb mv d s hd hs)

theorem absE_swapV1 (el : Elem α) (a b : V α) (ha : a.idx < 2) (hb : b.idx < 2) :
    Spec.absE (Spec.swapV el a b).1 = (Spec.swapE el (Spec.absE a) (Spec.absE b)).1 := by
  simp only [Spec.swapV, Spec.swapE]
  rw [absE_assignV1 _ _ _ _ _ (by simpa using ha) hb, absE_ctorV2]
theorem absE_swapV2 (el : Elem α) (a b : V α) (ha : a.idx < 2) (hb : b.idx < 2) :
    Spec.absE (Spec.swapV el a b).2 = (Spec.swapE el (Spec.absE a) (Spec.absE b)).2 := by
  simp only [Spec.swapV, Spec.swapE]
  rw [absE_assignV1 _ _ _ _ _ (by simpa using hb) (by simpa using ha),
    absE_assignV2 _ _ _ _ _ (by simpa using ha) hb, absE_ctorV1, absE_ctorV2]
theorem absE_swapSelfV (el : Elem α) (a : V α) (ha : a.idx < 2) :
    Spec.absE (Spec.swapSelfV el a) = Spec.swapSelfE el (Spec.absE a) := by
  simp only [Spec.swapSelfV, Spec.swapSelfE]
  rw [absE_assignV1 _ _ _ _ _ (by simpa using ha) (by simpa using ha), absE_ctorV1, absE_ctorV2]

@[simp] theorem convAssignV_idx (el : Elem α) (fb : α → Bool) (cat : Arg) (v : V α) (j : Nat) (x : α) :
    (Spec.convAssignV el fb cat v j x).1.idx = j := by unfold Spec.convAssignV; split <;> rfl
@[simp] theorem convCtorV_idx (el : Elem α) (cat : Arg) (j : Nat) (x : α) : (Spec.convCtorV el cat j x).1.idx = j := rfl

theorem consArgFb_noFb (el : Elem α) (cat : Arg) (x : α) : Spec.consArgFb el Spec.noFb cat x = consArg el cat x := by
  simp [Spec.consArgFb, Spec.noFb]

theorem fbAssign_noFb (mv : Bool) (d s : V α) : Spec.fbAssign Spec.noFb mv d s = false := by
  simp [Spec.fbAssign, Spec.noFb]

theorem fbHit_noFb (st : List (V α)) (op : Op α) : Spec.fbHit Spec.noFb st op = false := by
  cases op <;> simp only [Spec.fbHit]
  · split <;> simp [fbAssign_noFb]
  · split <;> simp [Spec.fbConv, Spec.noFb]

/-- every special member is the plain copy: the detour through a temporary is invisible -/
theorem viaTempOK_plain (cat : Arg) (v : V α) (j : Nat) (x : α) : Spec.ViaTempOK (plainElem : Elem α) cat v j x := by
  constructor <;> intro _ <;> cases cat <;> rfl

/-- the step of `optional(U&&)` / `operator=(U&&)` seen through `absO` -/
theorem absO_convStep (el : Elem α) (cat : Arg) (asg : Bool) (v : V α) (x : α) :
    Spec.absO (if asg then (Spec.convAssignV el Spec.noFb cat v 1 x).1 else (Spec.convCtorV el cat 1 x).1)
      = some (match Spec.absO v with
              | some d => if asg then (asgArg el cat d x).1 else (consArg el cat x).1
              | none => (consArg el cat x).1) := by
  cases v with
  | mk i y =>
    by_cases h : i = 1 <;> cases asg <;>
      simp [Spec.absO, Spec.convAssignV, Spec.convCtorV, consArgFb_noFb, h]

theorem beq1 (n : Nat) : ((n == 1) = true ∧ n = 1) ∨ ((n == 1) = false ∧ ¬ n = 1) := by
  by_cases h : n = 1 <;> simp [h]

/-- the operator table of `Nat` (used by the non-vacuity examples) -/
def natOps : RelOps Nat Nat := fun r a b =>
  match r with
  | .eq => a == b | .ne => a != b | .lt => decide (a < b) | .le => decide (a ≤ b)
  | .gt => decide (a > b) | .ge => decide (a ≥ b)

theorem natOps_ne (x y : Nat) : natOps .ne x y = !natOps .eq x y := by simp [natOps, bne]
theorem natOps_sym (x y : Nat) : natOps .eq y x = natOps .eq x y := by
  show (y == x) = (x == y)
  exact BEq.comm


/-! ### visit over arguments with their own alternative counts (`Model.visitN`) -/

theorem validIdx_of_forall {α : Type} : ∀ (vs : List (Nat × V α)), (∀ p ∈ vs, p.2.idx < p.1) →
    validIdx (vs.map (·.2.idx)) (vs.map (·.1)) = true
  | [], _ => by simp [validIdx]
  | p :: vs, h => by
    simp only [List.map_cons]
    exact validIdx_cons.mpr ⟨h p (List.mem_cons_self ..), validIdx_of_forall vs fun q hq => h q (List.mem_cons_of_mem _ hq)⟩

theorem mapM_getAt_active {α : Type} : ∀ (vs : List (Nat × V α)),
    (vs.zip (vs.map (·.2.idx))).mapM (fun (v, i) => (getAt v.2 i).map fun x => (i, x))
      = (.ok (Spec.visitN (vs.map (·.2))) : Except Err (List (Nat × α)))
  | [] => by simp [Spec.visitN]; rfl
  | p :: vs => by
    have ih := mapM_getAt_active vs
    simp only [List.map_cons, List.zip_cons_cons, List.mapM_cons]
    rw [ih]
    simp [getAt, Spec.visitN, Except.map, bind, Except.bind, pure, Except.pure]

end Tetl.C07
