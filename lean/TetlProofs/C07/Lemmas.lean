import Tetl.C07.Model
import Tetl.C07.Spec
namespace Tetl.C07
end Tetl.C07
