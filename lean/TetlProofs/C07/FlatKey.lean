/-
C07 — sensitivity of the visit theorems: a dispatcher that compares ONE flattened position instead of the two index
tuples (seeded change C07-r3-visit-flat-index: `stride *= Ms; flat += is * stride`, left to right, i.e. the stride
is multiplied by the CURRENT variant's size before it is used).  The key is `M0*(i0 + M1*(i1 + M2*(i2 + ...)))`:
digit `k` ranges over `M_k` values but is weighted with radix `M_{k+1}`, so the key is injective on valid index
tuples when the sizes never decrease from left to right, and two valid tuples collide as soon as a size `a` is
followed by a smaller size `b ≥ 2`.  None of this is library code: it shows that `visit_dispatch` / `visitN_active`
distinguish the real dispatcher from this one, and on which inputs.
-/
import TetlProofs.C07.Lemmas
namespace Tetl.C07.FlatKey
open Tetl Tetl.C07

/-- `flat_index(index_sequence<Ms...>, is...)`: `((stride *= Ms, flat += is * stride), ...)` from `stride = 1, flat = 0` -/
def flatAux : Nat → Nat → List Nat → List Nat → Nat
  | stride, flat, m :: ms, i :: is => flatAux (stride * m) (flat + i * (stride * m)) ms is
  | _, flat, _, _ => flat

def flatKey (sizes is : List Nat) : Nat := flatAux 1 0 sizes is

/-- `detail::visit_with_index` with `flat_index(m, index(vs)...) == flat_index(m, Is...)` in place of the tuple comparison -/
def flatLoop : Nat → List Nat → List Nat → List Nat → Except Err (List Nat)
  | 0, _, _, _ => .error .fuel
  | fuel + 1, cur, sizes, act =>
    if (nextSeq cur sizes).sum = 0 then .ok cur
    else if flatKey sizes act = flatKey sizes cur then .ok cur
    else flatLoop fuel (nextSeq cur sizes) sizes act

def flatVisit (sizes act : List Nat) : Except Err (List Nat) :=
  if sizes.all (· == 1) then .ok (sizes.map fun _ => 0)
  else flatLoop (prod sizes) (sizes.map fun _ => 0) sizes act

/-- the closed form: `flatAux s f Ms is = f + s * key Ms is` with `key (M :: Ms) (i :: is) = M * (i + key Ms is)` -/
def key : List Nat → List Nat → Nat
  | m :: ms, i :: is => m * (i + key ms is)
  | _, _ => 0


/-! ### the closed form -/

theorem flatAux_eq' : ∀ (ms is : List Nat) (s f : Nat), flatAux s f ms is = f + s * key ms is
  | [], _, s, f => by simp [flatAux, key]
  | _ :: _, [], s, f => by simp [flatAux, key]
  | m :: ms, i :: is, s, f => by
    rw [flatAux, flatAux_eq' ms is, key]
    generalize key ms is = k
    rw [Nat.mul_add, Nat.mul_add, Nat.add_assoc, Nat.mul_assoc, Nat.mul_comm i (s * m), Nat.mul_assoc]

theorem flatAux_eq (s f : Nat) : ∀ (ms is : List Nat), flatAux s f ms is = f + s * key ms is :=
  fun ms is => flatAux_eq' ms is s f

theorem flatKey_eq_key (ms is : List Nat) : flatKey ms is = key ms is := by
  simp [flatKey, flatAux_eq]

/-! ### the seeded example and two small sorted size lists -/

/-- the seeded example: sizes (3, 2), state (0, 1) has the key of candidate (2, 0), which is tried first -/
theorem flatKey_32 : flatKey [3, 2] [0, 1] = flatKey [3, 2] [2, 0] := by decide

theorem flatVisit_32 : flatVisit [3, 2] [0, 1] = .ok [2, 0] := rfl

theorem flatVisit_23 : ∀ act, validIdx act [2, 3] = true → flatVisit [2, 3] act = .ok act := by
  intro act h
  rcases act with _ | ⟨i, _ | ⟨j, _ | ⟨k, t⟩⟩⟩
  · simp [validIdx] at h
  · simp [validIdx] at h
  · obtain ⟨hi, hj⟩ : i < 2 ∧ j < 3 := by simpa [validIdx] using h
    have hi' : i = 0 ∨ i = 1 := by omega
    have hj' : j = 0 ∨ j = 1 ∨ j = 2 := by omega
    rcases hi' with rfl | rfl <;> rcases hj' with rfl | rfl | rfl <;> rfl
  · simp [validIdx] at h

theorem flatVisit_33 : ∀ act, validIdx act [3, 3] = true → flatVisit [3, 3] act = .ok act := by
  intro act h
  rcases act with _ | ⟨i, _ | ⟨j, _ | ⟨k, t⟩⟩⟩
  · simp [validIdx] at h
  · simp [validIdx] at h
  · obtain ⟨hi, hj⟩ : i < 3 ∧ j < 3 := by simpa [validIdx] using h
    have hi' : i = 0 ∨ i = 1 ∨ i = 2 := by omega
    have hj' : j = 0 ∨ j = 1 ∨ j = 2 := by omega
    rcases hi' with rfl | rfl | rfl <;> rcases hj' with rfl | rfl | rfl <;> rfl
  · simp [validIdx] at h

/-! ### collisions -/

theorem key_zeros : ∀ s : List Nat, key s (zeros s) = 0
  | [] => by simp [key]
  | m :: ms => by
    have ih := key_zeros ms
    simp only [zeros, List.map_cons] at ih ⊢
    simp [key, ih]

theorem key_zeros_append_congr (ms is is' : List Nat) (h : key ms is = key ms is') :
    ∀ pre : List Nat, key (pre ++ ms) (zeros pre ++ is) = key (pre ++ ms) (zeros pre ++ is')
  | [] => by simpa [zeros] using h
  | m :: pre => by
    have ih := key_zeros_append_congr ms is is' h pre
    simp only [zeros, List.map_cons, List.cons_append] at ih ⊢
    simp [key, ih]

theorem validIdx_append : ∀ (p r q s : List Nat), validIdx p r = true → validIdx q s = true →
    validIdx (p ++ q) (r ++ s) = true
  | [], [], _, _, _, h => by simpa using h
  | [], _ :: _, _, _, h, _ => by simp [validIdx] at h
  | _ :: _, [], _, _, h, _ => by simp [validIdx] at h
  | i :: p, j :: r, q, s, h1, h2 => by
    obtain ⟨hi, hv⟩ := validIdx_cons.mp h1
    simp only [List.cons_append]
    exact validIdx_cons.mpr ⟨hi, validIdx_append p r q s hv h2⟩

theorem valid_zeros_pos : ∀ s : List Nat, (∀ m ∈ s, 0 < m) → validIdx (zeros s) s = true
  | [], _ => by simp [zeros, validIdx]
  | m :: ms, h => by
    have ih := valid_zeros_pos ms (fun k hk => h k (List.mem_cons_of_mem _ hk))
    simp only [zeros, List.map_cons] at ih ⊢
    exact validIdx_cons.mpr ⟨h m (List.mem_cons_self ..), ih⟩

/-- a size `a` followed by a smaller size `b ≥ 2`, anywhere in the list: two different valid index tuples share a key -/
theorem flatKey_collides (pre suf : List Nat) (a b : Nat) (hb : 2 ≤ b) (hab : b < a)
    (hpre : ∀ m ∈ pre, 0 < m) (hsuf : ∀ m ∈ suf, 0 < m) :
    let sizes := pre ++ a :: b :: suf
    let x := zeros pre ++ b :: 0 :: zeros suf
    let y := zeros pre ++ 0 :: 1 :: zeros suf
    validIdx x sizes = true ∧ validIdx y sizes = true ∧ x ≠ y ∧ flatKey sizes x = flatKey sizes y := by
  intro sizes x y
  refine ⟨?_, ?_, ?_, ?_⟩
  · exact validIdx_append _ _ _ _ (valid_zeros_pos pre hpre)
      (validIdx_cons.mpr ⟨hab, validIdx_cons.mpr ⟨by omega, valid_zeros_pos suf hsuf⟩⟩)
  · exact validIdx_append _ _ _ _ (valid_zeros_pos pre hpre)
      (validIdx_cons.mpr ⟨by omega, validIdx_cons.mpr ⟨by omega, valid_zeros_pos suf hsuf⟩⟩)
  · intro h
    have h' : b :: 0 :: zeros suf = 0 :: 1 :: zeros suf := List.append_cancel_left h
    injection h' with h0 _
    omega
  · show flatKey (pre ++ a :: b :: suf) (zeros pre ++ b :: 0 :: zeros suf)
      = flatKey (pre ++ a :: b :: suf) (zeros pre ++ 0 :: 1 :: zeros suf)
    rw [flatKey_eq_key, flatKey_eq_key]
    apply key_zeros_append_congr
    simp [key, key_zeros]

/-! ### sizes that never decrease: the key is injective, the dispatcher is right -/

theorem key_cons_dvd (m : Nat) (ms is : List Nat) : ∃ p, key (m :: ms) is = m * p := by
  cases is with
  | nil => exact ⟨0, by simp [key]⟩
  | cons i is => exact ⟨i + key ms is, rfl⟩

theorem key_inj_of_sorted : ∀ (sizes x y : List Nat), sizes.Pairwise (· ≤ ·) →
    validIdx x sizes = true → validIdx y sizes = true → key sizes x = key sizes y → x = y
  | [], [], [], _, _, _, _ => rfl
  | [], _ :: _, _, _, h, _, _ => by simp [validIdx] at h
  | [], _, _ :: _, _, _, h, _ => by simp [validIdx] at h
  | _ :: _, [], _, _, h, _, _ => by simp [validIdx] at h
  | _ :: _, _, [], _, _, h, _ => by simp [validIdx] at h
  | m :: ms, i :: xs, j :: ys, hs, hx, hy, he => by
    obtain ⟨hi, hvx⟩ := validIdx_cons.mp hx
    obtain ⟨hj, hvy⟩ := validIdx_cons.mp hy
    obtain ⟨hm, hs'⟩ := List.pairwise_cons.mp hs
    have ih := key_inj_of_sorted ms xs ys hs' hvx hvy
    simp only [key] at he
    have he' : i + key ms xs = j + key ms ys := Nat.eq_of_mul_eq_mul_left (by omega) he
    cases ms with
    | nil =>
      have h0 : ∀ l, key [] l = 0 := fun l => by simp [key]
      rw [h0, h0] at he'
      have := ih (by rw [h0, h0])
      simp only [Nat.add_zero] at he'
      rw [he', this]
    | cons m1 rest =>
      obtain ⟨p, hp⟩ := key_cons_dvd m1 rest xs
      obtain ⟨q, hq⟩ := key_cons_dvd m1 rest ys
      have hm1 : m ≤ m1 := hm m1 (List.mem_cons_self ..)
      have hmod : (i + m1 * p) % m1 = (j + m1 * q) % m1 := by rw [← hp, ← hq, he']
      rw [Nat.add_mul_mod_self_left, Nat.add_mul_mod_self_left, Nat.mod_eq_of_lt (by omega),
        Nat.mod_eq_of_lt (by omega)] at hmod
      subst hmod
      have hk : key (m1 :: rest) xs = key (m1 :: rest) ys := by omega
      rw [ih hk]

/-- sizes that never decrease from left to right: the key separates all valid index tuples -/
theorem flatKey_inj_of_sorted : ∀ (sizes x y : List Nat), sizes.Pairwise (· ≤ ·) →
    validIdx x sizes = true → validIdx y sizes = true → flatKey sizes x = flatKey sizes y → x = y := by
  intro sizes x y hs hx hy h
  rw [flatKey_eq_key, flatKey_eq_key] at h
  exact key_inj_of_sorted sizes x y hs hx hy h

theorem flatLoop_eq_visitLoop (sizes act : List Nat) (hs : sizes.Pairwise (· ≤ ·))
    (hact : validIdx act sizes = true) :
    ∀ (fuel : Nat) (cur : List Nat), validIdx cur sizes = true →
      flatLoop fuel cur sizes act = visitLoop fuel cur sizes act := by
  intro fuel
  induction fuel with
  | zero => intro cur _; rfl
  | succ fuel ih =>
    intro cur hcur
    unfold flatLoop visitLoop
    have hiff : (flatKey sizes act = flatKey sizes cur) ↔ act = cur :=
      ⟨flatKey_inj_of_sorted sizes act cur hs hact hcur, fun h => by rw [h]⟩
    by_cases hsum : (nextSeq cur sizes).sum = 0
    · simp only [hsum, if_true]
    · by_cases he : act = cur
      · simp [he]
      · have hk : ¬ flatKey sizes act = flatKey sizes cur := fun h => he (hiff.mp h)
        simp only [hsum, he, hk, if_false]
        exact ih _ (next_valid cur sizes hcur)

/-- with sizes that never decrease, the flattened-key dispatcher ends on the tuple of active indices -/
theorem flatVisit_ok_of_sorted (sizes act : List Nat) (hs : sizes.Pairwise (· ≤ ·))
    (h : validIdx act sizes = true) : flatVisit sizes act = .ok act := by
  have hv := visitWithIndex_ok sizes act h
  unfold visitWithIndex at hv
  unfold flatVisit
  by_cases hall : sizes.all (· == 1) = true
  · simp only [hall, if_true] at hv ⊢
    exact hv
  · simp only [hall] at hv ⊢
    have hz := valid_zeros act sizes h
    simp only [zeros] at hz
    rw [flatLoop_eq_visitLoop sizes act hs h _ _ hz]
    exact hv

end Tetl.C07.FlatKey
