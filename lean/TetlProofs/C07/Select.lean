/-
C07 — helper lemmas: the converting-constructor selection scan (`Model.selectScan`: left to right, keeping the
best non-narrowing candidate seen and a tie flag) computes the declarative selection of `Spec.select` (the unique
viable alternative strictly better than every other viable one).  Invariant `Inv` over the scanned prefix.
-/
import Tetl.C07.Model
import Tetl.C07.Spec
namespace Tetl.C07

open Spec (viable isBest)

/-- rank of the alternative `j` when it is viable -/
def rk (l : List (Option Cand)) (j : Nat) : Option Nat := (l[j]?).bind viable

theorem rk_some_lt {l : List (Option Cand)} {j r : Nat} (h : rk l j = some r) : j < l.length := by
  apply Nat.lt_of_not_le
  intro hle
  simp [rk, List.getElem?_eq_none hle] at h

theorem rk_append (pre : List (Option Cand)) (c : Option Cand) (j : Nat) :
    rk (pre ++ [c]) j
      = if j < pre.length then rk pre j else if j = pre.length then viable c else none := by
  unfold rk
  by_cases h1 : j < pre.length
  · simp [h1, List.getElem?_append_left h1]
  · by_cases h2 : j = pre.length
    · subst h2; simp
    · have h3 : (pre ++ [c]).length ≤ j := by simp; omega
      simp [h1, h2, List.getElem?_eq_none h3]

theorem rk_append_some {pre : List (Option Cand)} {c : Option Cand} {j r : Nat}
    (h : rk (pre ++ [c]) j = some r) :
    (j < pre.length ∧ rk pre j = some r) ∨ (j = pre.length ∧ viable c = some r) := by
  rw [rk_append] at h
  by_cases h1 : j < pre.length
  · simp [h1] at h; exact Or.inl ⟨h1, h⟩
  · by_cases h2 : j = pre.length
    · simp [h2] at h; exact Or.inr ⟨h2, h⟩
    · simp [h1, h2] at h

theorem rk_append_mono {pre : List (Option Cand)} {c : Option Cand} {j r : Nat}
    (h : rk pre j = some r) : rk (pre ++ [c]) j = some r := by
  rw [rk_append]; simp [rk_some_lt h, h]

theorem rk_append_last (pre : List (Option Cand)) (c : Option Cand) :
    rk (pre ++ [c]) pre.length = viable c := by
  rw [rk_append]; simp

theorem isBest_iff (l : List (Option Cand)) (i : Nat) :
    isBest l i = true ↔
      ∃ r, rk l i = some r ∧ ∀ j r', j ≠ i → rk l j = some r' → r < r' := by
  unfold isBest
  cases hi : l[i]? with
  | none => simp [rk, hi]
  | some c =>
    cases hv : viable c with
    | none => simp [rk, hi, hv]
    | some r =>
      have hri : rk l i = some r := by simp [rk, hi, hv]
      simp only [hri, Option.some.injEq, exists_eq_left', hv]
      rw [List.all_eq_true]
      constructor
      · intro h j r' hji hj
        have := h j (List.mem_range.mpr (rk_some_lt hj))
        have hj' : (l[j]?).bind viable = some r' := hj
        simp [hji, hj'] at this
        exact this
      · intro h j _
        by_cases hji : j = i
        · simp [hji]
        · cases hj : rk l j with
          | none =>
            have hj' : (l[j]?).bind viable = none := hj
            simp [hj']
          | some r' =>
            have hj' : (l[j]?).bind viable = some r' := hj
            simp [hj', h j r' hji hj]

theorem find_range_none (p : Nat → Bool) (n : Nat) (h : ∀ k, k < n → p k = false) :
    (List.range n).find? p = none := by
  rw [List.find?_eq_none]
  intro x hx
  simp [h x (List.mem_range.mp hx)]

theorem find_range_unique (p : Nat → Bool) (n j : Nat) (hj : j < n) (hp : p j = true)
    (hu : ∀ k, k < n → p k = true → k = j) : (List.range n).find? p = some j := by
  cases h : (List.range n).find? p with
  | none =>
    rw [List.find?_eq_none] at h
    exact absurd hp (h j (List.mem_range.mpr hj))
  | some x =>
    have h1 := List.find?_some h
    have h2 := List.mem_range.mp (List.mem_of_find?_eq_some h)
    rw [hu x h2 h1]

/-- scan invariant after the prefix `pre` -/
def Inv (pre : List (Option Cand)) : Option (Nat × Nat) → Bool → Prop
  | none, amb => amb = false ∧ ∀ j, rk pre j = none
  | some (bi, br), amb =>
    rk pre bi = some br ∧ (∀ j r', rk pre j = some r' → br ≤ r') ∧
    (amb = false → ∀ j r', j ≠ bi → rk pre j = some r' → br < r') ∧
    (amb = true → ∃ j, j ≠ bi ∧ rk pre j = some br)

theorem inv_final (l : List (Option Cand)) (best : Option (Nat × Nat)) (amb : Bool)
    (h : Inv l best amb) : (if amb then none else best.map (·.1)) = Spec.select l := by
  unfold Spec.select
  match best, h with
  | none, ⟨ha, hn⟩ =>
    subst ha
    rw [find_range_none]
    · rfl
    · intro k _
      cases hb : isBest l k with
      | false => rfl
      | true =>
        obtain ⟨r, hr, _⟩ := (isBest_iff l k).mp hb
        rw [hn k] at hr; cases hr
  | some (bi, br), ⟨hbi, hmin, hf, ht⟩ =>
    cases amb with
    | true =>
      rw [find_range_none]
      · rfl
      · intro k _
        cases hb : isBest l k with
        | false => rfl
        | true =>
          exfalso
          obtain ⟨r, hr, hall⟩ := (isBest_iff l k).mp hb
          by_cases hk : k = bi
          · subst hk
            obtain ⟨j, hj, hjr⟩ := ht rfl
            rw [hbi] at hr; cases hr
            exact Nat.lt_irrefl _ (hall j _ hj hjr)
          · have h1 := hall bi br (fun e => hk e.symm) hbi
            have h2 := hmin k r hr
            omega
    | false =>
      rw [find_range_unique _ _ bi (rk_some_lt hbi)]
      · rfl
      · exact (isBest_iff l bi).mpr ⟨br, hbi, hf rfl⟩
      · intro k _ hb
        obtain ⟨r, hr, hall⟩ := (isBest_iff l k).mp hb
        by_cases hk : k = bi
        · exact hk
        · have h1 := hall bi br (fun e => hk e.symm) hbi
          have h2 := hmin k r hr
          omega

theorem inv_skip {pre : List (Option Cand)} {c : Option Cand} {best : Option (Nat × Nat)}
    {amb : Bool} (hc : viable c = none) (h : Inv pre best amb) : Inv (pre ++ [c]) best amb := by
  have key : ∀ {j r}, rk (pre ++ [c]) j = some r → rk pre j = some r := by
    intro j r hj
    rcases rk_append_some hj with ⟨_, h1⟩ | ⟨_, h1⟩
    · exact h1
    · rw [hc] at h1; cases h1
  match best, h with
  | none, ⟨ha, hn⟩ =>
    refine ⟨ha, fun j => ?_⟩
    cases hj : rk (pre ++ [c]) j with
    | none => rfl
    | some r => have := key hj; rw [hn j] at this; cases this
  | some (bi, br), ⟨hbi, hmin, hf, ht⟩ =>
    refine ⟨rk_append_mono hbi, fun j r' hj => hmin j r' (key hj),
      fun ha j r' hji hj => hf ha j r' hji (key hj), fun ha => ?_⟩
    obtain ⟨j, hj, hjr⟩ := ht ha
    exact ⟨j, hj, rk_append_mono hjr⟩

theorem inv_first {pre : List (Option Cand)} {c : Option Cand} {r : Nat} {amb : Bool}
    (hc : viable c = some r) (h : Inv pre none amb) :
    Inv (pre ++ [c]) (some (pre.length, r)) false := by
  obtain ⟨_, hn⟩ := h
  have key : ∀ {j r'}, rk (pre ++ [c]) j = some r' → j = pre.length ∧ r' = r := by
    intro j r' hj
    rcases rk_append_some hj with ⟨_, h1⟩ | ⟨h0, h1⟩
    · rw [hn j] at h1; cases h1
    · rw [hc] at h1; cases h1; exact ⟨h0, rfl⟩
  refine ⟨by rw [rk_append_last, hc], fun j r' hj => ?_, fun _ j r' hji hj => ?_, fun ha => ?_⟩
  · have := (key hj).2; omega
  · exact absurd (key hj).1 hji
  · cases ha

theorem inv_better {pre : List (Option Cand)} {c : Option Cand} {r bi br : Nat} {amb : Bool}
    (hc : viable c = some r) (hlt : r < br) (h : Inv pre (some (bi, br)) amb) :
    Inv (pre ++ [c]) (some (pre.length, r)) false := by
  obtain ⟨hbi, hmin, _, _⟩ := h
  refine ⟨by rw [rk_append_last, hc], fun j r' hj => ?_, fun _ j r' hji hj => ?_, fun ha => ?_⟩
  · rcases rk_append_some hj with ⟨_, h1⟩ | ⟨_, h1⟩
    · have := hmin j r' h1; omega
    · rw [hc] at h1; cases h1; exact Nat.le_refl _
  · rcases rk_append_some hj with ⟨_, h1⟩ | ⟨h0, _⟩
    · have := hmin j r' h1; omega
    · exact absurd h0 hji
  · cases ha

theorem inv_tie {pre : List (Option Cand)} {c : Option Cand} {bi br : Nat} {amb : Bool}
    (hc : viable c = some br) (h : Inv pre (some (bi, br)) amb) :
    Inv (pre ++ [c]) (some (bi, br)) true := by
  obtain ⟨hbi, hmin, _, _⟩ := h
  refine ⟨rk_append_mono hbi, fun j r' hj => ?_, fun ha => ?_, fun _ => ?_⟩
  · rcases rk_append_some hj with ⟨_, h1⟩ | ⟨_, h1⟩
    · exact hmin j r' h1
    · rw [hc] at h1; cases h1; exact Nat.le_refl _
  · cases ha
  · refine ⟨pre.length, ?_, by rw [rk_append_last, hc]⟩
    have := rk_some_lt hbi
    omega

theorem inv_worse {pre : List (Option Cand)} {c : Option Cand} {r bi br : Nat} {amb : Bool}
    (hc : viable c = some r) (hgt : br < r) (h : Inv pre (some (bi, br)) amb) :
    Inv (pre ++ [c]) (some (bi, br)) amb := by
  obtain ⟨hbi, hmin, hf, ht⟩ := h
  refine ⟨rk_append_mono hbi, fun j r' hj => ?_, fun ha j r' hji hj => ?_, fun ha => ?_⟩
  · rcases rk_append_some hj with ⟨_, h1⟩ | ⟨_, h1⟩
    · exact hmin j r' h1
    · rw [hc] at h1; cases h1; omega
  · rcases rk_append_some hj with ⟨_, h1⟩ | ⟨_, h1⟩
    · exact hf ha j r' hji h1
    · rw [hc] at h1; cases h1; exact hgt
  · obtain ⟨j, hj, hjr⟩ := ht ha
    exact ⟨j, hj, rk_append_mono hjr⟩

theorem scan_spec (cs : List (Option Cand)) :
    ∀ (pre : List (Option Cand)) (best : Option (Nat × Nat)) (amb : Bool),
      Inv pre best amb → selectScan cs pre.length best amb = Spec.select (pre ++ cs) := by
  induction cs with
  | nil =>
    intro pre best amb h
    rw [List.append_nil, ← inv_final pre best amb h]
    rfl
  | cons c cs ih =>
    intro pre best amb h
    have hl : pre.length + 1 = (pre ++ [c]).length := by simp
    have ha : pre ++ c :: cs = (pre ++ [c]) ++ cs := by simp
    rw [ha]
    match c, best with
    | none, best =>
      have h' : Inv (pre ++ [none]) best amb := inv_skip rfl h
      have := ih _ _ _ h'
      rw [← this, ← hl]; rfl
    | some ⟨r, true⟩, best =>
      have h' : Inv (pre ++ [some ⟨r, true⟩]) best amb := inv_skip rfl h
      have := ih _ _ _ h'
      rw [← this, ← hl]; rfl
    | some ⟨r, false⟩, none =>
      have h' := inv_first (c := some ⟨r, false⟩) (r := r) rfl h
      have := ih _ _ _ h'
      rw [← this, ← hl]; rfl
    | some ⟨r, false⟩, some (bi, br) =>
      by_cases h1 : r < br
      · have h' := inv_better (c := some ⟨r, false⟩) (r := r) rfl h1 h
        have := ih _ _ _ h'
        rw [← this, ← hl]; simp [selectScan, h1]
      · by_cases h2 : r = br
        · subst h2
          have h' := inv_tie (c := some ⟨r, false⟩) rfl h
          have := ih _ _ _ h'
          rw [← this, ← hl]; simp [selectScan]
        · have h' := inv_worse (c := some ⟨r, false⟩) (r := r) rfl (by omega) h
          have := ih _ _ _ h'
          rw [← this, ← hl]; simp [selectScan, h1, h2]

theorem select_eq (cands : List (Option Cand)) : select cands = Spec.select cands := by
  have h : Inv [] none false := ⟨rfl, fun j => by simp [rk]⟩
  have := scan_spec cands [] none false h
  simpa [select] using this

end Tetl.C07
