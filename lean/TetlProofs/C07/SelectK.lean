/-
C07 — helper lemmas: the converting-constructor selection over kinds of types.  The narrowing table of the model
(`Model.narrowRow`: what the requires-expression of `variant_alternative_candidate` gives) equals
[dcl.init.list]/7 clause by clause (`Spec.narrowing`), and the computed selection equals the declarative
`Spec.selects` of [variant.ctor]/14.
-/
import TetlProofs.C07.Select
namespace Tetl.C07

open Spec (viable isBest)

theorem narrow_eq (a t : K) : narrow a t = Spec.narrowing a t := by
  cases a <;> cases t <;> rfl

theorem candK_eq (a : K) : candK a = fun t => (ics a t).map fun r => (⟨r, Spec.narrowing a t⟩ : Cand) := by
  funext t
  simp [candK, narrow_eq]

/-- rank of alternative `j` in the candidate table of kind `a`: the conversion exists and is not narrowing -/
theorem rk_kinds (a : K) (alts : List K) (j r : Nat) :
    rk (alts.map fun t => (ics a t).map fun r => (⟨r, Spec.narrowing a t⟩ : Cand)) j = some r ↔
      ∃ t, alts[j]? = some t ∧ ics a t = some r ∧ Spec.narrowing a t = false := by
  unfold rk
  rw [List.getElem?_map]
  cases hj : alts[j]? with
  | none => simp
  | some t =>
    cases hi : ics a t with
    | none => simp [viable, hi]
    | some r0 =>
      cases hn : Spec.narrowing a t <;> simp [viable, hn, hi]

theorem isBest_unique (l : List (Option Cand)) (i j : Nat) (hi : isBest l i = true) (hj : isBest l j = true) : i = j := by
  rw [isBest_iff] at hi hj
  obtain ⟨r, hr, hri⟩ := hi
  obtain ⟨r', hr', hrj⟩ := hj
  apply Classical.byContradiction
  intro hne
  have h1 := hri j r' (fun h => hne h.symm) hr'
  have h2 := hrj i r hne hr
  omega

theorem select_some_iff (l : List (Option Cand)) (i : Nat) : Spec.select l = some i ↔ isBest l i = true := by
  unfold Spec.select
  constructor
  · intro h; exact List.find?_some h
  · intro h
    have hlt : i < l.length := by
      rw [isBest_iff] at h
      obtain ⟨r, hr, _⟩ := h
      exact rk_some_lt hr
    exact find_range_unique _ _ _ hlt h (fun k _ hk => isBest_unique l k i hk h)

theorem specSelectK_iff (a : K) (alts : List K) (i : Nat) : Spec.selectK a alts = some i ↔ Spec.selects a alts i := by
  unfold Spec.selectK Spec.selects
  rw [select_some_iff, isBest_iff]
  constructor
  · rintro ⟨r, hr, hall⟩
    obtain ⟨t, ht, hi, hn⟩ := (rk_kinds a alts i r).mp hr
    refine ⟨t, r, ht, hi, hn, ?_⟩
    intro j t' r' hji hj hi' hn'
    exact hall j r' hji ((rk_kinds a alts j r').mpr ⟨t', hj, hi', hn'⟩)
  · rintro ⟨t, r, ht, hi, hn, hall⟩
    refine ⟨r, (rk_kinds a alts i r).mpr ⟨t, ht, hi, hn⟩, ?_⟩
    intro j r' hji hj
    obtain ⟨t', hj', hi', hn'⟩ := (rk_kinds a alts j r').mp hj
    exact hall j t' r' hji hj' hi' hn'

theorem selectK_eq_spec (a : K) (alts : List K) : selectK a alts = Spec.selectK a alts := by
  unfold selectK Spec.selectK
  rw [candK_eq, select_eq]

end Tetl.C07
