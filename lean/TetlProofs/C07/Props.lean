/-
C07 — property theorems.  For every number of alternatives, every set of live objects and every
history (no bounds): the dispatch of `visit_with_index` ends on the active index tuple; every
modelled member of `etl::variant` returns `.ok` (no inactive union member is read, no
`etl::unreachable()` is reached, the instantiation recursion terminates: the C02 face) of exactly
what the sum-type spec prescribes; `etl::optional` and `etl::expected` are simulations of
`Option` / value-or-error on top of it; all relational operators equal the std definitions for
arbitrary element operator tables.
-/
import TetlProofs.C07.Lemmas
import TetlProofs.C07.FlatKey
import TetlProofs.C07.Select
import TetlProofs.C07.SelectK
namespace Tetl.C07.Props
open Tetl Tetl.C07

variable {α β : Type}

/-! ## visit -/

/-- `visit_with_index` over any number of variants with any numbers of alternatives instantiates and
    calls the visitor with exactly the tuple of active indices (`next_seq` reaches every tuple before
    it wraps), and the recursion never runs out of its `prod sizes` instantiations. -/
theorem visit_dispatch (sizes act : List Nat) (h : validIdx act sizes = true) :
    visitWithIndex sizes act = .ok act := visitWithIndex_ok sizes act h

example : validIdx [2, 0, 3] [3, 1, 4] = true := by decide

/-- `etl::visit(f, v)` hands the visitor the active alternative of `v` -/
theorem visit1_active (c : Cfg) (v : V α) (h : v.idx < c.n) : visit1 c v = .ok (v.idx, v.val) := by
  have hv : validIdx [v.idx] [c.n] = true := by simp [validIdx, h]
  simp [visit1, visit_dispatch _ _ hv, getAt]

example : (⟨1, 7⟩ : V Nat).idx < (⟨2, false, false, false, false⟩ : Cfg).n := by decide

/-- `etl::visit(f, a, b)` hands the visitor the active alternatives of `a` and `b` -/
theorem visit2_active (c : Cfg) (a b : V α) (ha : a.idx < c.n) (hb : b.idx < c.n) :
    visit2 c a b = .ok ((a.idx, a.val), (b.idx, b.val)) := by
  have hv : validIdx [a.idx, b.idx] [c.n, c.n] = true := by simp [validIdx, ha, hb]
  simp [visit2, visit_dispatch _ _ hv, getAt]

example : (⟨1, 7⟩ : V Nat).idx < (⟨2, false, false, false, false⟩ : Cfg).n := by decide

/-- [variant.visit] for any number of arguments, each with its OWN number of alternatives (`(variant_size, variant)` pairs; a
    non-variant argument has size 1): `etl::visit` / `etl::visit_with_index` never fail (the `next_seq` recursion terminates
    within `prod sizes` instantiations, no `get<I>` meets `I != index()`) and the visitor receives exactly the tuple of the
    active alternatives - index and value of every argument, in argument order. -/
theorem visitN_active (vs : List (Nat × V α)) (h : ∀ p ∈ vs, p.2.idx < p.1) :
    visitN vs = .ok (Spec.visitN (vs.map (·.2))) := by
  have hv := validIdx_of_forall vs h
  unfold visitN
  rw [visit_dispatch _ _ hv]
  simp only [bind, Except.bind, List.length_map, ne_eq, not_true_eq_false, if_false]
  exact mapM_getAt_active vs

/-- non-vacuity: variant<A,B,C> holding A, variant<X,Y> holding Y, a non-variant argument -/
example : ∀ p ∈ [((3 : Nat), (⟨0, 5⟩ : V Nat)), (2, ⟨1, 6⟩), (1, ⟨0, 7⟩)], p.2.idx < p.1 := by decide
example : visitN [((3 : Nat), (⟨0, 5⟩ : V Nat)), (2, ⟨1, 6⟩), (1, ⟨0, 7⟩)] = .ok [(0, 5), (1, 6), (0, 7)] := rfl

/-! ### sensitivity: a dispatcher comparing one flattened position (seeded change C07-r3-visit-flat-index)

`FlatKey.flatVisit` is `visit_with_index` with `flat_index(m, index(vs)...) == flat_index(m, Is...)` in place of the tuple
comparison, the key being `stride *= M_k; flat += i_k * stride` from left to right.  `visit_dispatch` / `visitN_active` hold
for the real dispatcher and not for this one; the three theorems say on which inputs the two differ. -/

/-- variant<A,B,C> holding A and variant<X,Y> holding Y: the flattened dispatcher calls the visitor with (C, X) - two
    inactive alternatives - where the real one calls it with (A, Y) -/
theorem visit_flat_key_counterexample :
    FlatKey.flatVisit [3, 2] [0, 1] = .ok [2, 0] ∧ visitWithIndex [3, 2] [0, 1] = .ok [0, 1] := ⟨rfl, rfl⟩

/-- wherever an argument with `a` alternatives is followed by one with fewer (`2 ≤ b < a`), two different valid index tuples
    share a flattened key (so the one tried later is dispatched to the other's alternatives) -/
theorem visit_flat_key_collides (pre suf : List Nat) (a b : Nat) (hb : 2 ≤ b) (hab : b < a)
    (hpre : ∀ m ∈ pre, 0 < m) (hsuf : ∀ m ∈ suf, 0 < m) :
    let sizes := pre ++ a :: b :: suf
    let x := zeros pre ++ b :: 0 :: zeros suf
    let y := zeros pre ++ 0 :: 1 :: zeros suf
    validIdx x sizes = true ∧ validIdx y sizes = true ∧ x ≠ y ∧ FlatKey.flatKey sizes x = FlatKey.flatKey sizes y :=
  FlatKey.flatKey_collides pre suf a b hb hab hpre hsuf

example : (2 : Nat) ≤ 2 ∧ 2 < 3 ∧ (∀ m ∈ ([4] : List Nat), 0 < m) ∧ (∀ m ∈ ([] : List Nat), 0 < m) := by decide

/-- alternative counts that never decrease from left to right (single variants, equal types - everything the library and its
    tests do -, 2 x 3): the flattened dispatcher answers what the real one answers, which is why such inputs cannot tell the two apart -/
theorem visit_flat_key_ok_of_sorted (sizes act : List Nat) (hs : sizes.Pairwise (· ≤ ·)) (h : validIdx act sizes = true) :
    FlatKey.flatVisit sizes act = visitWithIndex sizes act := by
  rw [FlatKey.flatVisit_ok_of_sorted sizes act hs h, visit_dispatch sizes act h]

example : ([2, 3, 3] : List Nat).Pairwise (· ≤ ·) ∧ validIdx [1, 2, 0] [2, 3, 3] = true := by decide

theorem destroy_ok (c : Cfg) (v : V α) (h : v.idx < c.n) : destroy c v = .ok () := by
  simp [destroy, visit1_active c v h]

example : (⟨1, 7⟩ : V Nat).idx < (⟨2, false, false, false, false⟩ : Cfg).n := by decide

/-! ## special members -/

/-- copy / move construction (defaulted or through `visit_with_index`): the new object holds the source's
    alternative, copy constructed (move constructed) from the source's element; a moved-from source keeps its
    index and holds the moved-from element -/
theorem construct_refines (c : Cfg) (el : Elem α) (ht : TrivOK c el) (mv : Bool)
    (src : V α) (h : src.idx < c.n) :
    construct c el mv src = .ok (Spec.ctorV el mv src) := by
  unfold construct Spec.ctorV Spec.cons Spec.noFb
  cases mv
  · by_cases hb : c.trivCC = true
    · simp [hb, ht.cc hb]
    · simp [hb, visit1_active c src h]
  · by_cases hb : c.trivMC = true
    · simp [hb, ht.mc hb]
    · simp [hb, visit1_active c src h]

/-- non-vacuity of `TrivOK`: `variant<int, Q>` (no trait bit set, every member of `Q` leaves its mark) and
    `variant<int, float>` (all four trait bits set, every member the plain copy) -/
example : TrivOK ⟨2, false, false, false, false⟩ markElem := trivOK_mark 2
example : TrivOK ⟨2, true, true, true, true⟩ (plainElem : Elem Nat) := trivOK_plain _

/-- copy / move assignment between two distinct objects: same alternative → the element's own copy / move
    assignment; different alternative → destroy, then copy / move construct from the source.  `_partial`: the
    excluded inputs are exactly the class of known finding F-C07-copy-assign-no-copy-then-move (`Spec.fbAssign`:
    a *copy* assignment that changes the alternative, of a value whose type has a potentially-throwing copy
    constructor and a non-throwing move constructor, for which [variant.assign]/2.4 prescribes copy-then-move);
    `assign_fallback_counterexample` shows what happens there.  A configuration that contains such a type is
    covered for every other assignment. -/
theorem assign_refines_partial (c : Cfg) (el : Elem α) (ht : TrivOK c el) (fb : α → Bool)
    (mv : Bool) (dst src : V α) (hd : dst.idx < c.n) (hs : src.idx < c.n)
    (hfb : Spec.fbAssign fb mv dst src = false) :
    assign c el mv dst src = .ok (Spec.assignV el fb mv dst src) := by
  unfold assign Spec.assignV Spec.thru Spec.cons
  cases mv
  · by_cases he : dst.idx = src.idx
    · by_cases hb : c.trivCA = true
      · simp [hb, (ht.ca hb).1, he]
      · simp [hb, visit2_active c dst src hd hs, he]
    · have hf : fb src.val = false := by simpa [Spec.fbAssign, he] using hfb
      by_cases hb : c.trivCA = true
      · simp [hb, (ht.ca hb).2, he, hf]
      · simp [hb, visit2_active c dst src hd hs, he, destroy_ok c dst hd, hf]
  · by_cases hb : c.trivMA = true
    · by_cases he : dst.idx = src.idx <;> simp [hb, (ht.ma hb).1, (ht.ma hb).2, he]
    · simp only [hb, visit2_active c dst src hd hs]
      by_cases he : dst.idx = src.idx
      · simp [he]
      · simp [he, destroy_ok c dst hd]

/-- non-vacuity: `variant<Q, X>` (X asks for copy-then-move): a copy assignment that keeps the alternative X, and a
    move assignment that changes it, are both outside the excluded class -/
example : TrivOK ⟨2, false, false, false, false⟩ markElem
    ∧ Spec.fbAssign (fun _ => true) false (⟨1, (5, 0)⟩ : V (Nat × Nat)) ⟨1, (7, 0)⟩ = false
    ∧ Spec.fbAssign (fun _ => true) true (⟨0, (5, 0)⟩ : V (Nat × Nat)) ⟨1, (7, 0)⟩ = false :=
  ⟨trivOK_mark 2, by decide, by decide⟩

/-- a variant with a REPEATED alternative type (`variant<Q, int, Q>`: alternatives 0 and 2 have the same type):
    [variant.assign] decides by the alternative INDEX, not by the type.  Whatever labelling `ty` of the alternatives
    by types there is, assignment between two different indices - of the same type or not - never assigns through:
    the target ends with the source's index, holding an element copy / move CONSTRUCTED from the source's value
    (`Spec.cons`), and the source keeps its index.  (Corollary of `assign_refines_partial`; the excluded class is
    the same.) -/
theorem assign_repeated_type {τ : Type} (ty : Nat → τ) (c : Cfg) (el : Elem α) (ht : TrivOK c el) (fb : α → Bool)
    (mv : Bool) (dst src : V α) (hd : dst.idx < c.n) (hs : src.idx < c.n)
    (_hty : ty dst.idx = ty src.idx) (hne : dst.idx ≠ src.idx)
    (hfb : Spec.fbAssign fb mv dst src = false) :
    assign c el mv dst src
      = .ok (⟨src.idx, (Spec.cons el fb mv src.val).1⟩, ⟨src.idx, (Spec.cons el fb mv src.val).2⟩) := by
  rw [assign_refines_partial c el ht fb mv dst src hd hs hfb]
  simp [Spec.assignV, hne]

/-- non-vacuity and the concrete witness of the seeded change C07-r2-assign-same-type-alt: `variant<Q, int, Q>`
    (alternatives 0 and 2 of one type, values carry the mark of the special member that produced them), target
    holds alternative 0, source alternative 2: copy assignment gives index 2 with a copy CONSTRUCTED element
    (mark 1, not the copy-assignment mark 3), move assignment index 2 with mark 2 and a moved-from source -/
example : assign ⟨3, false, false, false, false⟩ markElem false ⟨0, (1, 0)⟩ ⟨2, (7, 0)⟩ = .ok (⟨2, (7, 1)⟩, ⟨2, (7, 0)⟩)
    ∧ assign ⟨3, false, false, false, false⟩ markElem true ⟨2, (3, 0)⟩ ⟨0, (9, 0)⟩ = .ok (⟨0, (9, 2)⟩, ⟨0, (0, 0)⟩)
    ∧ (fun i => i % 2) (0 : Nat) = (fun i => i % 2) 2
    ∧ Spec.fbAssign Spec.noFb false (⟨0, (1, 0)⟩ : V (Nat × Nat)) ⟨2, (7, 0)⟩ = false :=
  ⟨rfl, rfl, rfl, by decide⟩

/-- known finding F-C07-copy-assign-no-copy-then-move: for an alternative with a potentially-throwing copy
    constructor and a non-throwing move constructor, [variant.assign]/2.4 copy-assigns a different alternative
    as `operator=(variant(rhs))` (copy construct a temporary, move construct from it: mark 2); `etl::variant`
    copy constructs in place (mark 1).  The input is in the excluded class (`fbAssign = true`). -/
theorem assign_fallback_counterexample :
    assign ⟨2, false, false, false, false⟩ markElem false ⟨0, (5, 0)⟩ ⟨1, (7, 0)⟩ = .ok (⟨1, (7, 1)⟩, ⟨1, (7, 0)⟩)
      ∧ Spec.assignV markElem (fun _ => true) false ⟨0, (5, 0)⟩ ⟨1, (7, 0)⟩ = (⟨1, (7, 2)⟩, ⟨1, (7, 0)⟩)
      ∧ Spec.fbAssign (fun _ => true) false (⟨0, (5, 0)⟩ : V (Nat × Nat)) ⟨1, (7, 0)⟩ = true :=
  ⟨rfl, rfl, by decide⟩

theorem assignSelf_refines (c : Cfg) (mv : Bool) (v : V α) (h : v.idx < c.n) : assignSelf c mv v = .ok v := by
  unfold assignSelf
  by_cases hb : (if mv then c.trivMA else c.trivCA) = true
  · simp [hb]
  · simp [hb, visit2_active c v v h h]

example : (⟨1, 7⟩ : V Nat).idx < (⟨2, false, false, false, false⟩ : Cfg).n := by decide

/-! ## converting construction / assignment -/

/-- `variant(T&&)`: the selected alternative, initialized from the argument (its value when of another type, copy
    constructed from an lvalue `T_j`, move constructed from an rvalue `T_j`), and the argument afterwards -/
theorem convCtor_refines (c : Cfg) (el : Elem α) (cat : Arg) (j : Nat) (x : α) (hj : j < c.n) :
    convCtor c el cat j x = .ok (Spec.convCtorV el cat j x) := by
  simp [convCtor, hj, Spec.convCtorV]

example : (1 : Nat) < (⟨2, false, false, false, false⟩ : Cfg).n := by decide

/-- `variant::operator=(T&&)` ([variant.assign]/13; with `j = 1` also `optional::operator=(U&&)`, [optional.assign]):
    the selected alternative is held → the argument is assigned to the held element (the element's copy assignment
    for an lvalue `T_j`, its move assignment for an rvalue `T_j` and for the temporary made from an argument of
    another type), the index does not change and no element is destroyed; another alternative is held → it is
    destroyed and the selected one constructed from the argument.  Both routes of the implementation are covered:
    the member template (`direct`), and the temporary variant + move assignment that overload resolution falls back
    to for scalar alternatives (`hvt`: there the extra move is not observable).  `_partial`: the excluded inputs
    (`Spec.fbConv`) are the converting-assignment half of known finding F-C07-copy-assign-no-copy-then-move
    ([variant.assign]/13.3: an lvalue `T_j` whose copy constructor may throw is copied to a temporary first);
    `convAssign_fallback_counterexample`. -/
theorem convAssign_refines_partial (c : Cfg) (el : Elem α) (ht : TrivOK c el) (fb : α → Bool) (direct : Bool)
    (cat : Arg) (v : V α) (j : Nat) (x : α) (hv : v.idx < c.n) (hj : j < c.n)
    (hfb : Spec.fbConv fb cat v j x = false) (hvt : direct = false → Spec.ViaTempOK el cat v j x) :
    convAssign c el direct cat v j x = .ok (Spec.convAssignV el fb cat v j x) := by
  have hcons : v.idx ≠ j → Spec.consArgFb el fb cat x = consArg el cat x := by
    intro he
    by_cases hc : cat = .lval
    · have hf : fb x = false := by simpa [Spec.fbConv, hc, he] using hfb
      simp [Spec.consArgFb, hf]
    · simp [Spec.consArgFb, hc]
  cases direct
  · have h := assign_refines_partial c el ht Spec.noFb true v ⟨j, (consArg el cat x).1⟩ hv hj (fbAssign_noFb _ _ _)
    obtain ⟨h1, h2⟩ := hvt rfl
    by_cases he : v.idx = j
    · simp [convAssign, hj, h, Spec.assignV, Spec.thru, Spec.convAssignV, he, ← h1 he]
    · simp [convAssign, hj, h, Spec.assignV, Spec.cons, Spec.convAssignV, he, hcons he, h2 he]
  · by_cases he : v.idx = j
    · cases v with
      | mk i y =>
        simp only at he
        subst he
        simp [convAssign, getAt, Spec.convAssignV]
    · simp [convAssign, he, emplace, hj, destroy_ok c v hv, Spec.convAssignV, hcons he]

/-- non-vacuity: `variant<int, Q>` holding Q, `v = q` (an lvalue Q, member template): `fbConv` is false for a type
    that asks for nothing, and the detour hypothesis is void -/
example : Spec.fbConv Spec.noFb .lval (⟨1, (5, 0)⟩ : V (Nat × Nat)) 1 (7, 0) = false
    ∧ ((true = false) → Spec.ViaTempOK markElem .lval (⟨1, (5, 0)⟩ : V (Nat × Nat)) 1 (7, 0)) :=
  ⟨by decide, fun h => by cases h⟩
/-- non-vacuity of the detour hypothesis: plain elements (`variant<int, float>`, `v = 3`) -/
example : Spec.ViaTempOK (plainElem : Elem Nat) .conv ⟨1, 5⟩ 0 3 := viaTempOK_plain _ _ _ _

/-- what the model and the reference do on the held alternative: `variant<int, Q>` holding Q, assigned an lvalue Q:
    Q's copy assignment runs (mark 3), nothing is re-constructed (sample, kept as a regression of the two fixed
    findings F-C07-variant-converting-assign-reconstructs / F-C07-optional-converting-assign-reconstructs) -/
example : convAssign ⟨2, false, false, false, false⟩ markElem true .lval ⟨1, (5, 0)⟩ 1 (7, 0) = .ok (⟨1, (7, 3)⟩, (7, 0)) := rfl

/-- known finding F-C07-copy-assign-no-copy-then-move, converting assignment: `variant<Q, X>` holding Q, `v = x` for
    an lvalue X: etl copy constructs in place (mark 1), [variant.assign]/13.3 prescribes `emplace<1>(X(x))`
    (mark 2).  The input is in the excluded class. -/
theorem convAssign_fallback_counterexample :
    convAssign ⟨2, false, false, false, false⟩ markElem true .lval ⟨0, (5, 0)⟩ 1 (7, 0) = .ok (⟨1, (7, 1)⟩, (7, 0))
      ∧ Spec.convAssignV markElem (fun _ => true) .lval ⟨0, (5, 0)⟩ 1 (7, 0) = (⟨1, (7, 2)⟩, (7, 0))
      ∧ Spec.fbConv (fun _ => true) .lval (⟨0, (5, 0)⟩ : V (Nat × Nat)) 1 (7, 0) = true :=
  ⟨rfl, rfl, by decide⟩

/-! ## swap -/

/-- the generic `etl::swap` (three moves through a temporary) on two variants, whatever their alternatives,
    is the three-move exchange of [utility.swap] on (index, value) pairs -/
theorem swap2_refines (c : Cfg) (el : Elem α) (ht : TrivOK c el)
    (a b : V α) (ha : a.idx < c.n) (hb : b.idx < c.n) : swap2 c el a b = .ok (Spec.swapV el a b) := by
  have h1 : (Spec.ctorV el true a).1.idx < c.n := ha
  have h2 : (Spec.ctorV el true a).2.idx < c.n := ha
  have h3 : (Spec.assignV el Spec.noFb true (Spec.ctorV el true a).2 b).2.idx < c.n := by simpa using hb
  have h4 : (Spec.assignV el Spec.noFb true (Spec.assignV el Spec.noFb true (Spec.ctorV el true a).2 b).2
      (Spec.ctorV el true a).1).2.idx < c.n := by simpa using ha
  simp [swap2, Spec.swapV, construct_refines c el ht true a ha,
    assign_refines_partial c el ht Spec.noFb true _ b h2 hb (fbAssign_noFb _ _ _),
    assign_refines_partial c el ht Spec.noFb true _ _ h3 h1 (fbAssign_noFb _ _ _), destroy_ok c _ h4]

example : TrivOK ⟨2, false, false, false, false⟩ markElem := trivOK_mark 2

theorem swapSelf_refines (c : Cfg) (el : Elem α) (ht : TrivOK c el)
    (a : V α) (ha : a.idx < c.n) : swapSelf c el a = .ok (Spec.swapSelfV el a) := by
  have h1 : (Spec.ctorV el true a).1.idx < c.n := ha
  have h2 : (Spec.ctorV el true a).2.idx < c.n := ha
  have h4 : (Spec.assignV el Spec.noFb true (Spec.ctorV el true a).2 (Spec.ctorV el true a).1).2.idx < c.n := by
    simpa using ha
  simp [swapSelf, Spec.swapSelfV, construct_refines c el ht true a ha, assignSelf_refines c true _ h2,
    assign_refines_partial c el ht Spec.noFb true _ _ h2 h1 (fbAssign_noFb _ _ _), destroy_ok c _ h4]

example : TrivOK ⟨2, false, false, false, false⟩ markElem := trivOK_mark 2

/-- the three-move exchange is [variant.swap]: for two objects holding the same alternative it IS the element-wise
    `swap(get<i>(a), get<i>(b))` (no law needed); for different alternatives each object ends up with the other's
    alternative move constructed from the other's value, provided a second move construction of `a`'s value cannot
    be observed (`MoveIdem`: the three-move form moves it through the temporary) -/
theorem swapV_eq_std (el : Elem α) (a b : V α) (h : a.idx ≠ b.idx → Spec.MoveIdem el a.val) :
    Spec.swapV el a b = Spec.swapStdV el a b := by
  unfold Spec.swapV Spec.swapStdV Spec.swapElem Spec.ctorV Spec.assignV Spec.thru Spec.cons
  by_cases he : a.idx = b.idx
  · simp [he]
  · have he' : ¬ b.idx = a.idx := fun h' => he h'.symm
    have := h he
    unfold Spec.MoveIdem at this
    simp [he, he', this]

/-- `MoveIdem` for the marked element kind (a move constructor leaves the constant mark 2) -/
example : ∀ x : Nat × Nat, Spec.MoveIdem markElem x := fun _ => rfl

/-- `etl::swap` of two variants gives what [variant.swap] prescribes -/
theorem swap2_std (c : Cfg) (el : Elem α) (ht : TrivOK c el) (a b : V α) (ha : a.idx < c.n) (hb : b.idx < c.n)
    (h : a.idx ≠ b.idx → Spec.MoveIdem el a.val) : swap2 c el a b = .ok (Spec.swapStdV el a b) := by
  rw [swap2_refines c el ht a b ha hb, swapV_eq_std el a b h]

example : TrivOK ⟨2, false, false, false, false⟩ markElem ∧ ((0 : Nat) ≠ 1 → Spec.MoveIdem markElem ((5, 0) : Nat × Nat)) :=
  ⟨trivOK_mark 2, fun _ => rfl⟩

/-- the same for `optional` ([optional.swap]: both engaged: the elements are swapped; one engaged: the empty one is
    move constructed from the other, which is reset) -/
theorem swapO_eq_std (el : Elem α) (a b : Option α) (h : ∀ x, a = some x → b = none → Spec.MoveIdem el x) :
    Spec.swapO el a b = Spec.swapStdO el a b := by
  cases a with
  | none => cases b <;> simp [Spec.swapO, Spec.swapStdO, Spec.ctorO, Spec.assignO, Spec.cons]
  | some x =>
    cases b with
    | none =>
      have := h x rfl rfl
      unfold Spec.MoveIdem at this
      simp [Spec.swapO, Spec.swapStdO, Spec.ctorO, Spec.assignO, Spec.cons, this]
    | some y => simp [Spec.swapO, Spec.swapStdO, Spec.swapElem, Spec.ctorO, Spec.assignO, Spec.cons, Spec.thru]

example : ∀ x : Nat × Nat, (some (5, 0) : Option (Nat × Nat)) = some x → (none : Option (Nat × Nat)) = none →
    Spec.MoveIdem markElem x := fun _ _ _ => rfl

/-! ## histories -/

/-- one operation of a history: the model succeeds and yields the spec's state.  `hfb`: the operation is not in the
    class of known finding F-C07-copy-assign-no-copy-then-move (pointwise: a history over a configuration that
    contains such a type is covered as long as no single step is a cross-alternative copy of such a value);
    `hvt`: see `convAssign_refines_partial`. -/
theorem step_refines_partial (c : Cfg) (el : Elem α) (ht : TrivOK c el) (fb : α → Bool)
    (st : List (V α)) (hwf : WF c st) (op : Op α) (hv : Spec.valid c.n st op = true)
    (hfb : Spec.fbHit fb st op = false) (hvt : Spec.ConvOK el st op) :
    step c el st op = .ok (Spec.step el fb st op) := by
  cases op with
  | emplace k i x =>
    simp only [Spec.valid, Bool.and_eq_true, decide_eq_true_eq] at hv
    have hk := hwf _ (List.getElem_mem hv.1)
    simp [step, rd_ok st k hv.1, emplace, hv.2, destroy_ok c _ hk, put_ok st k _ hv.1, Spec.step]
  | make k i x =>
    simp only [Spec.valid, Bool.and_eq_true, decide_eq_true_eq] at hv
    have hk := hwf _ (List.getElem_mem hv.1)
    simp [step, rd_ok st k hv.1, hv.2, destroy_ok c _ hk, put_ok st k _ hv.1, Spec.step]
  | assign k j mv =>
    simp only [Spec.valid, Bool.and_eq_true, decide_eq_true_eq] at hv
    have hk := hwf _ (List.getElem_mem hv.1)
    have hj := hwf _ (List.getElem_mem hv.2)
    by_cases hkj : k = j
    · subst hkj
      simp [step, rd_ok st k hv.1, assignSelf_refines c mv _ hk, put_ok st k _ hv.1, Spec.step, hv.1]
    · have hj' : j < (st.set k (Spec.assignV el fb mv st[k] st[j]).1).length := by simp [hv.2]
      have hf : Spec.fbAssign fb mv st[k] st[j] = false := by
        simpa [Spec.fbHit, List.getElem?_eq_getElem hv.1, List.getElem?_eq_getElem hv.2, hkj] using hfb
      simp [step, hkj, rd_ok st k hv.1, rd_ok st j hv.2, assign_refines_partial c el ht fb mv _ _ hk hj hf,
        put_ok st k _ hv.1, put_ok _ j _ hj', Spec.step, hv.1, hv.2]
  | ctor k j mv =>
    simp only [Spec.valid, Bool.and_eq_true, decide_eq_true_eq] at hv
    have hk := hwf _ (List.getElem_mem hv.1)
    have hj := hwf _ (List.getElem_mem hv.2)
    have hmj : (Spec.ctorV el mv st[j]).2.idx < c.n := hj
    by_cases hkj : k = j
    · subst hkj
      simp [step, rd_ok st k hv.1, construct_refines c el ht mv _ hk, destroy_ok c _ hmj,
        put_ok st k _ hv.1, Spec.step, hv.1]
    · have hk' : k < (st.set j (Spec.ctorV el mv st[j]).2).length := by simp [hv.1]
      have hold : (st.set j (Spec.ctorV el mv st[j]).2)[k]'hk' = st[k] := by
        rw [List.getElem_set_ne (Ne.symm hkj)]
      simp [step, hkj, rd_ok st j hv.2, construct_refines c el ht mv _ hj, put_ok st j _ hv.2,
        rd_ok _ k hv.1, destroy_ok c _ hk, put_ok _ k _ hk', Spec.step, hv.2]
  | swap k j =>
    simp only [Spec.valid, Bool.and_eq_true, decide_eq_true_eq] at hv
    have hk := hwf _ (List.getElem_mem hv.1)
    have hj := hwf _ (List.getElem_mem hv.2)
    by_cases hkj : k = j
    · subst hkj
      simp [step, rd_ok st k hv.1, swapSelf_refines c el ht _ hk, put_ok st k _ hv.1, Spec.step, hv.1]
    · have hj' : j < (st.set k (Spec.swapV el st[k] st[j]).1).length := by simp [hv.2]
      simp [step, hkj, rd_ok st k hv.1, rd_ok st j hv.2, swap2_refines c el ht _ _ hk hj,
        put_ok st k _ hv.1, put_ok _ j _ hj', Spec.step, hv.1, hv.2]
  | conv k j direct asg cat x =>
    simp only [Spec.valid, Bool.and_eq_true, decide_eq_true_eq] at hv
    have hk := hwf _ (List.getElem_mem hv.1)
    cases asg
    · simp [step, rd_ok st k hv.1, convCtor_refines c el cat j x hv.2, destroy_ok c _ hk, put_ok st k _ hv.1,
        Spec.step, hv.1]
    · have hf : Spec.fbConv fb cat st[k] j x = false := by
        simpa [Spec.fbHit, List.getElem?_eq_getElem hv.1] using hfb
      have ht' : direct = false → Spec.ViaTempOK el cat st[k] j x := by
        intro hd
        subst hd
        simpa [Spec.ConvOK, List.getElem?_eq_getElem hv.1] using hvt
      simp [step, rd_ok st k hv.1, convAssign_refines_partial c el ht fb direct cat _ j x hk hv.2 hf ht',
        put_ok st k _ hv.1, Spec.step, hv.1]

/-- non-vacuity: `variant<Q, X>`, objects holding Q and X: a move assignment across alternatives of an X, and a
    converting assignment of an lvalue X to the object that holds an X, are valid and outside the excluded class -/
example : Spec.valid 2 [(⟨0, (5, 0)⟩ : V (Nat × Nat)), ⟨1, (7, 0)⟩] (.assign 0 1 true) = true
    ∧ Spec.fbHit (fun _ => true) [(⟨0, (5, 0)⟩ : V (Nat × Nat)), ⟨1, (7, 0)⟩] (.assign 0 1 true) = false
    ∧ Spec.fbHit (fun _ => true) [(⟨0, (5, 0)⟩ : V (Nat × Nat)), ⟨1, (7, 0)⟩] (.conv 1 1 true true .lval (3, 0)) = false
    ∧ Spec.ConvOK markElem [(⟨0, (5, 0)⟩ : V (Nat × Nat)), ⟨1, (7, 0)⟩] (.conv 1 1 true true .lval (3, 0)) := by
  refine ⟨by decide, by decide, by decide, ?_⟩
  simp [Spec.ConvOK]

/-- the invariant "every object holds one of its alternatives" is preserved -/
theorem wf_step (c : Cfg) (el : Elem α) (fb : α → Bool) (st : List (V α)) (hwf : WF c st) (op : Op α)
    (hv : Spec.valid c.n st op = true) : WF c (Spec.step el fb st op) := by
  cases op with
  | emplace k i x =>
    simp only [Spec.valid, Bool.and_eq_true, decide_eq_true_eq] at hv
    exact wf_set hwf k _ hv.2
  | make k i x =>
    simp only [Spec.valid, Bool.and_eq_true, decide_eq_true_eq] at hv
    exact wf_set hwf k _ hv.2
  | assign k j mv =>
    simp only [Spec.valid, Bool.and_eq_true, decide_eq_true_eq] at hv
    have hj := hwf _ (List.getElem_mem hv.2)
    simp only [Spec.step, List.getElem?_eq_getElem hv.1, List.getElem?_eq_getElem hv.2]
    by_cases hkj : k = j
    · simp [hkj]; exact hwf
    · simp only [hkj, if_false]
      exact wf_set (wf_set hwf k _ (by simpa using hj)) j _ (by simpa using hj)
  | ctor k j mv =>
    simp only [Spec.valid, Bool.and_eq_true, decide_eq_true_eq] at hv
    have hj := hwf _ (List.getElem_mem hv.2)
    simp only [Spec.step, List.getElem?_eq_getElem hv.2]
    by_cases hkj : k = j
    · simp only [hkj, if_true]; exact wf_set hwf j (Spec.ctorV el mv st[j]).1 hj
    · simp only [hkj, if_false]
      exact wf_set (wf_set hwf j (Spec.ctorV el mv st[j]).2 hj) k (Spec.ctorV el mv st[j]).1 hj
  | swap k j =>
    simp only [Spec.valid, Bool.and_eq_true, decide_eq_true_eq] at hv
    have hk := hwf _ (List.getElem_mem hv.1)
    have hj := hwf _ (List.getElem_mem hv.2)
    simp only [Spec.step, List.getElem?_eq_getElem hv.1, List.getElem?_eq_getElem hv.2]
    by_cases hkj : k = j
    · simp only [hkj, if_true]
      exact wf_set hwf j _ (by simp [Spec.swapSelfV]; exact hj)
    · simp only [hkj, if_false]
      exact wf_set (wf_set hwf k _ (by simp [Spec.swapV]; exact hj)) j _ (by simp [Spec.swapV]; exact hk)
  | conv k j direct asg cat x =>
    simp only [Spec.valid, Bool.and_eq_true, decide_eq_true_eq] at hv
    simp only [Spec.step, List.getElem?_eq_getElem hv.1]
    exact wf_set hwf k _ (by cases asg <;> simp [hv.2])

example : Spec.valid 2 [(⟨0, (5, 0)⟩ : V (Nat × Nat)), ⟨1, (7, 0)⟩] (.ctor 1 0 false) = true := by decide

/-- whole histories of any length over any number of objects: the model never fails and every object ends
    with the index and the value the spec prescribes (which special member of the element produced it and the
    moved-from sources included).  `Spec.OkRun`: every step names existing objects and alternatives, and is
    outside the known-finding class (checked step by step along the run, not for the configuration as a whole). -/
theorem run_refines_partial (c : Cfg) (el : Elem α) (ht : TrivOK c el) (fb : α → Bool) :
    ∀ (ops : List (Op α)) (st : List (V α)), WF c st → Spec.OkRun c.n el fb st ops →
      run c el st ops = .ok (Spec.run el fb st ops) ∧ WF c (Spec.run el fb st ops)
  | [], st, hwf, _ => ⟨rfl, hwf⟩
  | op :: ops, st, hwf, hv => by
    obtain ⟨hv1, hf, hc, hrest⟩ := hv
    have h1 := step_refines_partial c el ht fb st hwf op hv1 hf hc
    have h2 := wf_step c el fb st hwf op hv1
    have ih := run_refines_partial c el ht fb ops _ h2 hrest
    simp only [run, h1, Spec.run]
    exact ih

/-- non-vacuity: a history over `variant<Q, X>` (X asks for copy-then-move) with a swap, a self move assignment, an
    emplace, a *move* assignment of an X across alternatives, a converting assignment of an lvalue X onto a held X
    and a *copy* assignment of an X onto an X -/
example : Spec.OkRun 2 markElem (fun _ => true) [(⟨0, (5, 0)⟩ : V (Nat × Nat)), ⟨1, (7, 0)⟩]
    [.swap 0 1, .assign 1 1 true, .emplace 0 1 (3, 0), .assign 1 0 true, .conv 0 1 true true .lval (9, 0),
     .assign 0 1 false] := by
  simp [Spec.OkRun, Spec.valid, Spec.fbHit, Spec.fbAssign, Spec.fbConv, Spec.ConvOK, Spec.step, Spec.swapV, Spec.ctorV,
    Spec.assignV, Spec.cons, Spec.convAssignV, markElem, asgArg]

/-! ## optional and expected on top of the variant -/

/-- `etl::optional<T>` (reset = `emplace<0>(nullopt)`, emplace = `emplace<1>`, copy/move/swap = the
    variant's, value construction / assignment = the converting forms with alternative 1) is a simulation of
    [optional.assign] / [optional.ctor] / the generic swap on `Option`: after any operation, `has_value()` and `*o`
    of every object are what the `Option` spec gives (engaged ← engaged assigns through, empty ← engaged constructs,
    `o = v` assigns `v` to the contained value when engaged; no copy-then-move anywhere in [optional.assign], so no
    input is excluded), and the model does not fail. -/
theorem optional_refines (c : Cfg) (hc : c.n = 2) (el : Elem α) (ht : TrivOK c el)
    (nullv : α) (st : List (V α)) (hwf : WF c st) (op : Spec.OOp α)
    (hv : Spec.valid 2 st (Spec.optToVar nullv op) = true) (hvt : Spec.ConvOK el st (Spec.optToVar nullv op)) :
    (step c el st (Spec.optToVar nullv op)).map (List.map Spec.absO)
      = .ok (Spec.ostep el (st.map Spec.absO) op) := by
  rw [step_refines_partial c el ht Spec.noFb st hwf _ (by rw [hc]; exact hv) (fbHit_noFb _ _) hvt]
  simp only [ok_map]
  congr 1
  cases op with
  | reset k => simp [Spec.optToVar, Spec.step, Spec.ostep, List.map_set, Spec.absO]
  | emplace k x => simp [Spec.optToVar, Spec.step, Spec.ostep, List.map_set, Spec.absO]
  | val k asg direct cat x =>
    simp only [Spec.optToVar, Spec.step, Spec.ostep, List.getElem?_map]
    cases hk : st[k]? with
    | none => simp
    | some v =>
      simp only [Option.map_some, List.map_set, absO_convStep]
      cases hv' : Spec.absO v <;> simp
  | assign k j mv =>
    simp only [Spec.optToVar, Spec.step, Spec.ostep, List.getElem?_map]
    cases hk : st[k]? <;> cases hj : st[j]? <;> simp only [Option.map_some, Option.map_none]
    by_cases hkj : k = j
    · simp [hkj]
    · simp only [hkj, if_false, List.map_set, absO_assignV1, absO_assignV2]
  | ctor k j mv =>
    simp only [Spec.optToVar, Spec.step, Spec.ostep, List.getElem?_map]
    cases hj : st[j]? <;> simp only [Option.map_some, Option.map_none]
    by_cases hkj : k = j
    · simp only [hkj, if_true, List.map_set, absO_ctorV1]
    · simp only [hkj, if_false, List.map_set, absO_ctorV1, absO_ctorV2]
  | swap k j =>
    simp only [Spec.optToVar, Spec.step, Spec.ostep, List.getElem?_map]
    cases hk : st[k]? <;> cases hj : st[j]? <;> simp only [Option.map_some, Option.map_none]
    by_cases hkj : k = j
    · simp only [hkj, if_true, List.map_set, absO_swapSelfV]
    · simp only [hkj, if_false, List.map_set, absO_swapV1, absO_swapV2]

/-- non-vacuity: `optional<Q>`: a move assignment, and `o = q` for an lvalue Q through the member template -/
example : Spec.valid 2 [(⟨0, (0, 0)⟩ : V (Nat × Nat)), ⟨1, (7, 0)⟩] (Spec.optToVar (0, 0) (.assign 0 1 true)) = true
    ∧ Spec.valid 2 [(⟨0, (0, 0)⟩ : V (Nat × Nat)), ⟨1, (7, 0)⟩] (Spec.optToVar (0, 0) (.val 1 true true .lval (3, 0))) = true
    ∧ Spec.ConvOK markElem [(⟨0, (0, 0)⟩ : V (Nat × Nat)), ⟨1, (7, 0)⟩] (Spec.optToVar (0, 0) (.val 1 true true .lval (3, 0))) := by
  refine ⟨by decide, by decide, ?_⟩
  simp [Spec.ConvOK, Spec.optToVar]

/-- `optional<T>(optional<U> const&)` / `(optional<U>&&)` from an engaged source: the constructor default-initializes
    `_var{nullopt}` and then runs `emplace(*other)`; seen through `absO` the two variant steps are the single step
    "initialized from the converted value" of [optional.ctor] -/
theorem optional_convCtor_refines (c : Cfg) (hc : c.n = 2) (el : Elem α) (ht : TrivOK c el)
    (nullv : α) (st : List (V α)) (hwf : WF c st) (k : Nat) (x : α) (hk : k < st.length) :
    ((step c el st (.make k 0 nullv)).bind fun st1 => step c el st1 (.emplace k 1 x)).map (List.map Spec.absO)
      = .ok (Spec.ostep el (st.map Spec.absO) (.val k false true .conv x)) := by
  have hv1 : Spec.valid c.n st (.make k 0 nullv) = true := by simp [Spec.valid, hk, hc]
  rw [step_refines_partial c el ht Spec.noFb st hwf _ hv1 (fbHit_noFb _ _) (by simp [Spec.ConvOK])]
  have hwf1 := wf_step c el Spec.noFb st hwf _ hv1
  have hv2 : Spec.valid c.n (Spec.step el Spec.noFb st (.make k 0 nullv)) (.emplace k 1 x) = true := by
    simp [Spec.valid, Spec.step, hk, hc]
  show (step c el (Spec.step el Spec.noFb st (.make k 0 nullv)) (.emplace k 1 x)).map (List.map Spec.absO) = _
  rw [step_refines_partial c el ht Spec.noFb _ hwf1 _ hv2 (fbHit_noFb _ _) (by simp [Spec.ConvOK])]
  simp only [ok_map]
  congr 1
  have hk' : k < (st.map Spec.absO).length := by simpa using hk
  simp only [Spec.step, Spec.ostep, List.set_set, List.map_set, List.getElem?_eq_getElem hk']
  cases (List.map Spec.absO st)[k] <;> simp [Spec.absO, consArg]

example : (0 : Nat) < [(⟨0, (0, 0)⟩ : V (Nat × Nat))].length := by decide
/-- `etl::expected<T,E>` (value = index 0, in-place construction, `emplace = _u.emplace<0>`, copy/move/swap = the
    variant's) is a simulation of [expected.object.assign] / [expected.object.cons] on value-or-error.  `_partial`:
    `hfb` excludes exactly the steps of known finding F-C07-copy-assign-no-copy-then-move (a copy assignment value ←
    error or error ← value of a member whose type asks for reinit-expected's copy-then-move). -/
theorem expected_refines_partial (c : Cfg) (hc : c.n = 2) (el : Elem α) (ht : TrivOK c el)
    (fb : α → Bool)
    (viaEmplace : Bool) (st : List (V α)) (hwf : WF c st) (op : Spec.EOp α)
    (hv : Spec.valid 2 st (Spec.expToVar viaEmplace op) = true)
    (hfb : Spec.fbHit fb st (Spec.expToVar viaEmplace op) = false) :
    (step c el st (Spec.expToVar viaEmplace op)).map (List.map Spec.absE)
      = .ok (Spec.estep el fb (st.map Spec.absE) op) := by
  have hvt : Spec.ConvOK el st (Spec.expToVar viaEmplace op) := by
    cases op <;> cases viaEmplace <;> simp [Spec.expToVar, Spec.ConvOK]
  rw [step_refines_partial c el ht fb st hwf _ (by rw [hc]; exact hv) hfb hvt]
  simp only [ok_map]
  congr 1
  have h2 : ∀ {k : Nat} {v : V α}, st[k]? = some v → v.idx < 2 := by
    intro k v h
    have := hwf v (List.mem_of_getElem? h)
    omega
  cases op with
  | setVal k x => cases viaEmplace <;> simp [Spec.expToVar, Spec.step, Spec.estep, List.map_set, Spec.absE]
  | setErr k x => simp [Spec.expToVar, Spec.step, Spec.estep, List.map_set, Spec.absE]
  | assign k j mv =>
    simp only [Spec.expToVar, Spec.step, Spec.estep, List.getElem?_map]
    cases hk : st[k]? <;> cases hj : st[j]? <;> simp only [Option.map_some, Option.map_none]
    by_cases hkj : k = j
    · simp [hkj]
    · simp only [hkj, if_false, List.map_set, absE_assignV1 _ _ _ _ _ (h2 hk) (h2 hj),
        absE_assignV2 _ _ _ _ _ (h2 hk) (h2 hj)]
  | ctor k j mv =>
    simp only [Spec.expToVar, Spec.step, Spec.estep, List.getElem?_map]
    cases hj : st[j]? <;> simp only [Option.map_some, Option.map_none]
    by_cases hkj : k = j
    · simp only [hkj, if_true, List.map_set, absE_ctorV1]
    · simp only [hkj, if_false, List.map_set, absE_ctorV1, absE_ctorV2]
  | swap k j =>
    simp only [Spec.expToVar, Spec.step, Spec.estep, List.getElem?_map]
    cases hk : st[k]? <;> cases hj : st[j]? <;> simp only [Option.map_some, Option.map_none]
    by_cases hkj : k = j
    · subst hkj
      simp only [if_true, List.map_set, absE_swapSelfV _ _ (h2 hk)]
    · simp only [hkj, if_false, List.map_set, absE_swapV1 _ _ _ (h2 hk) (h2 hj), absE_swapV2 _ _ _ (h2 hk) (h2 hj)]

/-- non-vacuity: `expected<Q, X>`: emplace, and a move assignment error → value of an X -/
example : Spec.valid 2 [(⟨0, (0, 0)⟩ : V (Nat × Nat)), ⟨1, (7, 0)⟩] (Spec.expToVar true (.setVal 1 (4, 0))) = true
    ∧ Spec.fbHit (fun _ => true) [(⟨0, (0, 0)⟩ : V (Nat × Nat)), ⟨1, (7, 0)⟩] (Spec.expToVar true (.assign 0 1 true)) = false := by
  refine ⟨by decide, by decide⟩

/-! ## observers -/

theorem getIf_eq (v : V α) (i : Nat) : getIf v i = .ok (Spec.getIf v i) := by
  unfold getIf Spec.getIf getAt
  by_cases h : v.idx = i <;> simp [h]

theorem valueOr_eq (v : V α) (d : α) : valueOr v d = .ok ((Spec.absO v).getD d) := by
  unfold valueOr hasValue deref getAt Spec.absO
  by_cases h : v.idx = 1 <;> simp [h]

theorem andThen_eq {ρ : Type} (v : V α) (f : α → ρ) : andThen v f = .ok ((Spec.absO v).map f) := by
  unfold andThen hasValue deref getAt Spec.absO
  by_cases h : v.idx = 1 <;> simp [h]

/-- optional::or_else hands on the contained value exactly when the optional is engaged, and never reads an empty one -/
theorem orElse_eq (v : V α) : orElse v = .ok (Spec.absO v) := by
  unfold orElse hasValue deref getAt Spec.absO
  by_cases h : v.idx = 1 <;> simp [h]

/-- optional::value_or on lvalues and rvalues with the construction of the returned object: which constructor of the
    element makes the result (copy for `const&`, move for `&&`, move from the argument temporary when empty) and what
    the moved-from optional holds afterwards (still engaged, the moved-from element) -/
theorem valueOrCat_eq (el : Elem α) (mv : Bool) (v : V α) (d : α) :
    (valueOrCat el mv v d).map (fun r => (r.1, Spec.absO r.2)) = .ok (Spec.valueOrCatO el mv (Spec.absO v) d) := by
  unfold valueOrCat hasValue deref getAt Spec.valueOrCatO Spec.absO
  by_cases h : v.idx = 1 <;> cases mv <;> simp [h]

/-- optional::or_else on lvalues and rvalues, likewise -/
theorem orElseCat_eq (el : Elem α) (mv : Bool) (v : V α) :
    (orElseCat el mv v).map (fun r => (r.1, Spec.absO r.2)) = .ok (Spec.orElseCatO el mv (Spec.absO v)) := by
  unfold orElseCat hasValue deref getAt Spec.orElseCatO Spec.absO
  by_cases h : v.idx = 1 <;> cases mv <;> simp [h]

/-- expected::value_or on lvalues and rvalues, likewise -/
theorem expValueOrCat_eq (el : Elem α) (mv : Bool) (v : V α) (d : α) :
    (expValueOrCat el mv v d).map (fun r => (r.1, Spec.absE r.2)) = .ok (Spec.valueOrCatE el mv (Spec.absE v) d) := by
  unfold expValueOrCat expDeref expHas getAt Spec.valueOrCatE Spec.absE
  by_cases h0 : v.idx = 0 <;> cases mv <;> simp [h0]

/-- expected::value_or, for an object holding one of its two members -/
theorem expValueOr_eq (v : V α) (d : α) (h : v.idx < 2) : expValueOr v d = .ok ((Spec.absE v).valueOr d) := by
  unfold expValueOr expDeref expHas getAt Spec.absE
  by_cases h0 : v.idx = 0 <;> simp [h0, Spec.E.valueOr]

example : (⟨1, 7⟩ : V Nat).idx < 2 := by decide

/-- expected::and_then: the callable sees the value, an error is propagated; the `error()` precondition holds on the
    path that calls it -/
theorem expAndThen_eq {ρ : Type} (v : V α) (f onErr : α → ρ) (h : v.idx < 2) :
    expAndThen v f onErr = .ok ((Spec.absE v).andThen f onErr) := by
  unfold expAndThen expDeref expError expHas getAt Spec.absE
  have : v.idx = 0 ∨ v.idx = 1 := by omega
  rcases this with h0 | h1
  · simp [h0, Spec.E.andThen]
  · simp [h1, Spec.E.andThen]

example : (⟨1, 7⟩ : V Nat).idx < 2 := by decide

/-- expected::or_else: a value is handed on, the callable sees the error -/
theorem expOrElse_eq {ρ : Type} (v : V α) (onVal f : α → ρ) (h : v.idx < 2) :
    expOrElse v onVal f = .ok ((Spec.absE v).orElse onVal f) := by
  unfold expOrElse expDeref expError expHas getAt Spec.absE
  have : v.idx = 0 ∨ v.idx = 1 := by omega
  rcases this with h0 | h1
  · simp [h0, Spec.E.orElse]
  · simp [h1, Spec.E.orElse]

example : (⟨0, 7⟩ : V Nat).idx < 2 := by decide

/-- expected::error() on an object holding its error member -/
theorem expError_eq (v : V α) (h : v.idx = 1) : expError v = .ok v.val := by
  unfold expError expHas getAt
  simp [h]

example : (⟨1, 7⟩ : V Nat).idx = 1 := rfl

/-! ## converting constructor / assignment: which alternative -/

/-- the overload-resolution scan of the converting constructor and converting assignment (left to right, best
    non-narrowing candidate so far, tie flag) selects exactly the alternative [variant.ctor]/[variant.assign]
    prescribe: the unique viable alternative that is strictly better than every other viable one, and nothing
    when there is none or the best is tied — for any number of alternatives and any candidate table -/
theorem select_eq (cands : List (Option Cand)) : select cands = Spec.select cands := Tetl.C07.select_eq cands

/-- the no-narrowing test of `variant_alternative_candidate` (`Ti x[] = {forward<T>(t)}` well-formed), as the model
    has it for every pair of kinds - arithmetic, pointer, string literal, `nullptr_t`, enumeration and class
    arguments and alternatives - is [dcl.init.list]/7 clause by clause; in particular a conversion from a pointer
    to `bool` is narrowing (7.5), so the test is not restricted to arithmetic types -/
theorem narrow_eq (a t : K) : narrow a t = Spec.narrowing a t := Tetl.C07.narrow_eq a t

/-- the alternative the converting constructor / assignment selects for an argument of kind `a` over ANY list of
    alternative kinds (repeated ones included) is exactly the one [variant.ctor]/14 prescribes: the alternative
    whose `FUN(Ti)` exists (`Ti x[] = {std::forward<T>(t)}` well-formed: conversion exists, not narrowing) and whose
    conversion sequence is strictly better than that of every other such alternative -/
theorem selectK_eq (a : K) (alts : List K) (i : Nat) : selectK a alts = some i ↔ Spec.selects a alts i := by
  rw [selectK_eq_spec]; exact specSelectK_iff a alts i

/-- the spec column of the selector probes (`Spec.selectK`, the computed form the driver prints and R2 compares with
    std::variant) is that same declarative selection -/
theorem specSelectK_eq (a : K) (alts : List K) (i : Nat) : Spec.selectK a alts = some i ↔ Spec.selects a alts i :=
  specSelectK_iff a alts i

/-- ... and the converting forms drop out of overload resolution (no alternative selected) exactly when no
    alternative is prescribed: none viable, or the best ones tied (e.g. a repeated alternative type) -/
theorem selectK_none (a : K) (alts : List K) : selectK a alts = none ↔ ∀ i, ¬ Spec.selects a alts i := by
  constructor
  · intro h i hi
    rw [← selectK_eq, h] at hi
    cases hi
  · intro h
    cases hs : selectK a alts with
    | none => rfl
    | some i => exact absurd ((selectK_eq a alts i).mp hs) (h i)

/-- the classic cases (regression for the seeded change C07-r2-selector-nonarithmetic-narrowing): a string literal
    or `char const*` given to `variant<bool, Text>` selects `Text` (pointer -> bool is narrowing, so `bool` is no
    candidate although a standard conversion would beat the user-defined one); `variant<int, bool, void const*>`
    from an `int*` selects the pointer; `variant<bool, int>` has no alternative for a pointer; `variant<bool, Num>`
    from an `int` selects `Num`; a repeated alternative type is ambiguous.  `decide` over concrete inputs. -/
theorem select_pointer_not_bool :
    selectK .lit [.bool, .fromPtr 0] = some 1 ∧ selectK .cptr [.fromPtr 0, .bool] = some 0
      ∧ selectK .iptr [.int, .bool, .vptr] = some 2 ∧ selectK .cptr [.bool, .int] = none
      ∧ selectK .int [.bool, .fromInt 0] = some 1 ∧ selectK .bool [.bool, .bool] = none
      ∧ candK .cptr .bool = some ⟨2, true⟩ ∧ Spec.selects .lit [.bool, .fromPtr 0] 1 :=
  ⟨by decide, by decide, by decide, by decide, by decide, by decide, by decide,
   (selectK_eq .lit [.bool, .fromPtr 0] 1).mp (by decide)⟩

/-! ## relational operators -/

/-- variant: all six operators (index first, then the visited element operator; `!=` as `!(==)`) equal
    [variant.relops], and the comparison visitor never reaches `etl::unreachable()` -/
theorem varRel_eq (c : Cfg) (o : RelOps α α) (hne : ∀ x y, o .ne x y = !o .eq x y) (r : Rel) (a b : V α)
    (ha : a.idx < c.n) (hb : b.idx < c.n) : varRel c o r a b = .ok (Spec.varRel o r a b) := by
  unfold varRel Spec.varRel
  simp only [visit2_active c a b ha hb]
  rcases Nat.lt_trichotomy a.idx b.idx with h | h | h
  · have h1 : a.idx ≠ b.idx := by omega
    have h2 : ¬ a.idx > b.idx := by omega
    cases r <;> simp [h, h1, h2]
  · cases r <;> simp [h, hne]
  · have h1 : a.idx ≠ b.idx := by omega
    have h2 : ¬ a.idx < b.idx := by omega
    cases r <;> simp [h, h1, h2]

example : ∀ x y : Nat, natOps .ne x y = !natOps .eq x y := natOps_ne

/-- optional<T> against optional<U>, all six operators, any element operator table -/
theorem optRel_eq (o : RelOps α β) (hne : ∀ x y, o .ne x y = !o .eq x y) (r : Rel) (a : V α) (b : V β) :
    optRel o r a b = .ok (Spec.optRel o r (Spec.absO a) (Spec.absO b)) := by
  unfold optRel Spec.optRel Spec.absO hasValue deref getAt
  rcases beq1 a.idx with ⟨ha', ha⟩ | ⟨ha', ha⟩ <;> rcases beq1 b.idx with ⟨hb', hb⟩ | ⟨hb', hb⟩ <;>
    cases r <;> simp [ha, hb, ha', hb', hne] <;> decide

example : ∀ x y : Nat, natOps .ne x y = !natOps .eq x y := natOps_ne

/-- optional against nullopt -/
theorem optRelNullR_eq (o : RelOps α β) (r : Rel) (a : V α) :
    optRelNullR r a = Spec.optRel o r (Spec.absO a) (none : Option β) := by
  unfold optRelNullR Spec.optRel Spec.absO hasValue
  rcases beq1 a.idx with ⟨ha', ha⟩ | ⟨ha', ha⟩ <;> cases r <;> simp [ha, ha'] <;> decide

/-- nullopt against optional -/
theorem optRelNullL_eq (o : RelOps β α) (r : Rel) (a : V α) :
    optRelNullL r a = Spec.optRel o r (none : Option β) (Spec.absO a) := by
  unfold optRelNullL Spec.optRel Spec.absO hasValue
  rcases beq1 a.idx with ⟨ha', ha⟩ | ⟨ha', ha⟩ <;> cases r <;> simp [ha, ha'] <;> decide

/-- optional against a value -/
theorem optRelValR_eq (o : RelOps α β) (hne : ∀ x y, o .ne x y = !o .eq x y) (r : Rel) (a : V α) (y : β) :
    optRelValR o r a y = .ok (Spec.optRel o r (Spec.absO a) (some y)) := by
  unfold optRelValR Spec.optRel Spec.absO hasValue deref getAt
  rcases beq1 a.idx with ⟨ha', ha⟩ | ⟨ha', ha⟩ <;> cases r <;> simp [ha, ha', hne] <;> decide

example : ∀ x y : Nat, natOps .ne x y = !natOps .eq x y := natOps_ne

/-- a value against optional (`==` / `!=` are the rewritten `opt == value`) -/
theorem optRelValL_eq (o : RelOps α β) (o' : RelOps β α) (hsym : ∀ x y, o' .eq y x = o .eq x y)
    (hne : ∀ x y, o' .ne y x = !o' .eq y x) (r : Rel) (y : β) (a : V α) :
    optRelValL o o' r y a = .ok (Spec.optRel o' r (some y) (Spec.absO a)) := by
  unfold optRelValL optRelValR Spec.optRel Spec.absO hasValue deref getAt
  rcases beq1 a.idx with ⟨ha', ha⟩ | ⟨ha', ha⟩ <;> cases r <;> simp [ha, ha', hne, hsym] <;> decide

example : (∀ x y : Nat, natOps .eq y x = natOps .eq x y) ∧ (∀ x y : Nat, natOps .ne y x = !natOps .eq y x) :=
  ⟨natOps_sym, fun x y => natOps_ne y x⟩

/-- optional<T&> from optional<U> (converting constructor and converting assignment): never reads a disengaged source
    (no `.error`), empty source -> empty, engaged source -> bound to the object the source holds -/
theorem orefConv_eq (src : Option Nat) : orefConv src = .ok (Spec.orefConv src) := by
  cases src <;> rfl

-- test (samples): both source states
example : orefConv (some 2) = .ok (some 2) ∧ orefConv none = .ok none := ⟨rfl, rfl⟩

end Tetl.C07.Props
