/-
C07 — property theorems.  For every number of alternatives, every set of live objects and every
history (no bounds): the dispatch of `visit_with_index` ends on the active index tuple; every
modelled member of `etl::variant` returns `.ok` (no inactive union member is read, no
`etl::unreachable()` is reached, the instantiation recursion terminates: the C02 face) of exactly
what the sum-type spec prescribes; `etl::optional` and `etl::expected` are simulations of
`Option` / value-or-error on top of it; all relational operators equal the std definitions for
arbitrary element operator tables.
-/
import TetlProofs.C07.Lemmas
namespace Tetl.C07.Props
open Tetl Tetl.C07

variable {α β : Type}

/-! ## visit -/

/-- `visit_with_index` over any number of variants with any numbers of alternatives instantiates and
    calls the visitor with exactly the tuple of active indices (`next_seq` reaches every tuple before
    it wraps), and the recursion never runs out of its `prod sizes` instantiations. -/
theorem visit_dispatch (sizes act : List Nat) (h : validIdx act sizes = true) :
    visitWithIndex sizes act = .ok act := visitWithIndex_ok sizes act h

example : validIdx [2, 0, 3] [3, 1, 4] = true := by decide

/-- `etl::visit(f, v)` hands the visitor the active alternative of `v` -/
theorem visit1_active (c : Cfg) (v : V α) (h : v.idx < c.n) : visit1 c v = .ok (v.idx, v.val) := by
  have hv : validIdx [v.idx] [c.n] = true := by simp [validIdx, h]
  simp [visit1, visit_dispatch _ _ hv, getAt]

example : (⟨1, 7⟩ : V Nat).idx < (⟨2, false⟩ : Cfg).n := by decide

/-- `etl::visit(f, a, b)` hands the visitor the active alternatives of `a` and `b` -/
theorem visit2_active (c : Cfg) (a b : V α) (ha : a.idx < c.n) (hb : b.idx < c.n) :
    visit2 c a b = .ok ((a.idx, a.val), (b.idx, b.val)) := by
  have hv : validIdx [a.idx, b.idx] [c.n, c.n] = true := by simp [validIdx, ha, hb]
  simp [visit2, visit_dispatch _ _ hv, getAt]

example : (⟨1, 7⟩ : V Nat).idx < (⟨2, false⟩ : Cfg).n := by decide

theorem destroy_ok (c : Cfg) (v : V α) (h : v.idx < c.n) : destroy c v = .ok () := by
  simp [destroy, visit1_active c v h]

example : (⟨1, 7⟩ : V Nat).idx < (⟨2, false⟩ : Cfg).n := by decide

/-! ## special members -/

/-- copy / move construction (defaulted or through `visit_with_index`): the new object equals the
    source; a moved-from source keeps its index and holds a moved-from element -/
theorem construct_refines (c : Cfg) (mvd : α → α) (htriv : c.triv = true → ∀ x, mvd x = x) (mv : Bool)
    (src : V α) (h : src.idx < c.n) :
    construct c mvd mv src = .ok (src, if mv then Spec.mvdV mvd src else src) := by
  unfold construct
  by_cases ht : c.triv = true
  · simp [ht, mvdV_triv (htriv ht)]
  · simp [ht, visit1_active c src h, Spec.mvdV]

example : (⟨2, true⟩ : Cfg).triv = true → ∀ x : Nat, id x = x := fun _ _ => rfl

/-- copy / move assignment between two distinct objects, same or different alternative -/
theorem assign_refines (c : Cfg) (mvd : α → α) (htriv : c.triv = true → ∀ x, mvd x = x) (mv : Bool)
    (dst src : V α) (hd : dst.idx < c.n) (hs : src.idx < c.n) :
    assign c mvd mv dst src = .ok (src, if mv then Spec.mvdV mvd src else src) := by
  unfold assign
  by_cases ht : c.triv = true
  · simp [ht, mvdV_triv (htriv ht)]
  · simp only [ht, visit2_active c dst src hd hs]
    by_cases he : dst.idx = src.idx
    · cases dst; cases src; simp_all [Spec.mvdV]
    · simp [he, destroy_ok c dst hd, Spec.mvdV]

example : (⟨2, true⟩ : Cfg).triv = true → ∀ x : Nat, id x = x := fun _ _ => rfl

theorem assignSelf_refines (c : Cfg) (v : V α) (h : v.idx < c.n) : assignSelf c v = .ok v := by
  unfold assignSelf
  by_cases ht : c.triv = true
  · simp [ht]
  · simp [ht, visit2_active c v v h h]

example : (⟨1, 7⟩ : V Nat).idx < (⟨2, false⟩ : Cfg).n := by decide

/-- the generic `etl::swap` (three moves through a temporary) exchanges two variants, whatever their alternatives -/
theorem swap2_refines (c : Cfg) (mvd : α → α) (htriv : c.triv = true → ∀ x, mvd x = x)
    (a b : V α) (ha : a.idx < c.n) (hb : b.idx < c.n) : swap2 c mvd a b = .ok (b, a) := by
  have hma : (Spec.mvdV mvd a).idx < c.n := ha
  have hmb : (Spec.mvdV mvd b).idx < c.n := hb
  simp [swap2, construct_refines c mvd htriv true a ha, assign_refines c mvd htriv true _ b hma hb,
    assign_refines c mvd htriv true _ a hmb ha, destroy_ok c _ hma]

example : (⟨2, true⟩ : Cfg).triv = true → ∀ x : Nat, id x = x := fun _ _ => rfl

theorem swapSelf_refines (c : Cfg) (mvd : α → α) (htriv : c.triv = true → ∀ x, mvd x = x)
    (a : V α) (ha : a.idx < c.n) : swapSelf c mvd a = .ok a := by
  have hma : (Spec.mvdV mvd a).idx < c.n := ha
  simp [swapSelf, construct_refines c mvd htriv true a ha, assignSelf_refines c _ hma,
    assign_refines c mvd htriv true _ a hma ha, destroy_ok c _ hma]

example : (⟨2, true⟩ : Cfg).triv = true → ∀ x : Nat, id x = x := fun _ _ => rfl

/-! ## histories -/

/-- one operation of a history: the model succeeds and yields the spec's state -/
theorem step_refines (c : Cfg) (mvd : α → α) (htriv : c.triv = true → ∀ x, mvd x = x)
    (st : List (V α)) (hwf : WF c st) (op : Op α) (hv : Spec.valid c.n st op = true) :
    step c mvd st op = .ok (Spec.step mvd st op) := by
  cases op with
  | emplace k i x =>
    simp only [Spec.valid, Bool.and_eq_true, decide_eq_true_eq] at hv
    have hk := hwf _ (List.getElem_mem hv.1)
    simp [step, rd_ok st k hv.1, emplace, hv.2, destroy_ok c _ hk, put_ok st k _ hv.1, Spec.step]
  | make k i x =>
    simp only [Spec.valid, Bool.and_eq_true, decide_eq_true_eq] at hv
    have hk := hwf _ (List.getElem_mem hv.1)
    simp [step, rd_ok st k hv.1, hv.2, destroy_ok c _ hk, put_ok st k _ hv.1, Spec.step]
  | assign k j mv =>
    simp only [Spec.valid, Bool.and_eq_true, decide_eq_true_eq] at hv
    have hk := hwf _ (List.getElem_mem hv.1)
    have hj := hwf _ (List.getElem_mem hv.2)
    by_cases hkj : k = j
    · subst hkj
      simp [step, rd_ok st k hv.1, assignSelf_refines c _ hk, put_ok st k _ hv.1, Spec.step, hv.1]
    · have hj' : j < (st.set k st[j]).length := by simp [hv.2]
      simp [step, hkj, rd_ok st k hv.1, rd_ok st j hv.2, assign_refines c mvd htriv mv _ _ hk hj,
        put_ok st k _ hv.1, put_ok _ j _ hj', Spec.step, hv.2]
  | ctor k j mv =>
    simp only [Spec.valid, Bool.and_eq_true, decide_eq_true_eq] at hv
    have hk := hwf _ (List.getElem_mem hv.1)
    have hj := hwf _ (List.getElem_mem hv.2)
    have hmj : (if mv then Spec.mvdV mvd st[j] else st[j]).idx < c.n := by cases mv <;> exact hj
    by_cases hkj : k = j
    · subst hkj
      simp [step, rd_ok st k hv.1, construct_refines c mvd htriv mv _ hk, destroy_ok c _ hmj,
        put_ok st k _ hv.1, Spec.step, hv.1]
    · have hk' : k < (st.set j (if mv then Spec.mvdV mvd st[j] else st[j])).length := by simp [hv.1]
      have hold : (st.set j (if mv then Spec.mvdV mvd st[j] else st[j]))[k]'hk' = st[k] := by
        rw [List.getElem_set_ne (Ne.symm hkj)]
      simp [step, hkj, rd_ok st j hv.2, construct_refines c mvd htriv mv _ hj, put_ok st j _ hv.2,
        rd_ok _ k hv.1, destroy_ok c _ hk, put_ok _ k _ hk', Spec.step, hv.2]
  | swap k j =>
    simp only [Spec.valid, Bool.and_eq_true, decide_eq_true_eq] at hv
    have hk := hwf _ (List.getElem_mem hv.1)
    have hj := hwf _ (List.getElem_mem hv.2)
    by_cases hkj : k = j
    · subst hkj
      simp [step, rd_ok st k hv.1, swapSelf_refines c mvd htriv _ hk, put_ok st k _ hv.1, Spec.step, hv.1]
    · have hj' : j < (st.set k st[j]).length := by simp [hv.2]
      simp [step, hkj, rd_ok st k hv.1, rd_ok st j hv.2, swap2_refines c mvd htriv _ _ hk hj,
        put_ok st k _ hv.1, put_ok _ j _ hj', Spec.step, hv.1, hv.2]

example : Spec.valid 2 [(⟨0, 5⟩ : V Nat), ⟨1, 7⟩] (.assign 0 1 true) = true := by decide

/-- the invariant "every object holds one of its alternatives" is preserved -/
theorem wf_step (c : Cfg) (mvd : α → α) (st : List (V α)) (hwf : WF c st) (op : Op α)
    (hv : Spec.valid c.n st op = true) : WF c (Spec.step mvd st op) := by
  cases op with
  | emplace k i x =>
    simp only [Spec.valid, Bool.and_eq_true, decide_eq_true_eq] at hv
    exact wf_set hwf k _ hv.2
  | make k i x =>
    simp only [Spec.valid, Bool.and_eq_true, decide_eq_true_eq] at hv
    exact wf_set hwf k _ hv.2
  | assign k j mv =>
    simp only [Spec.valid, Bool.and_eq_true, decide_eq_true_eq] at hv
    have hj := hwf _ (List.getElem_mem hv.2)
    simp only [Spec.step, List.getElem?_eq_getElem hv.2]
    by_cases hkj : k = j
    · simp [hkj]; exact hwf
    · simp only [hkj, if_false]
      exact wf_set (wf_set hwf k _ hj) j _ (by cases mv <;> exact hj)
  | ctor k j mv =>
    simp only [Spec.valid, Bool.and_eq_true, decide_eq_true_eq] at hv
    have hj := hwf _ (List.getElem_mem hv.2)
    simp only [Spec.step, List.getElem?_eq_getElem hv.2]
    by_cases hkj : k = j
    · simp [hkj]; exact hwf
    · simp only [hkj, if_false]
      exact wf_set (wf_set hwf j _ (by cases mv <;> exact hj)) k _ hj
  | swap k j =>
    simp only [Spec.valid, Bool.and_eq_true, decide_eq_true_eq] at hv
    have hk := hwf _ (List.getElem_mem hv.1)
    have hj := hwf _ (List.getElem_mem hv.2)
    simp only [Spec.step, List.getElem?_eq_getElem hv.1, List.getElem?_eq_getElem hv.2]
    exact wf_set (wf_set hwf k _ hj) j _ hk

example : Spec.valid 2 [(⟨0, 5⟩ : V Nat), ⟨1, 7⟩] (.ctor 1 0 false) = true := by decide

/-- whole histories of any length over any number of objects: the model never fails and every object ends
    with the index and the value the spec prescribes (moved-from sources included) -/
theorem run_refines (c : Cfg) (mvd : α → α) (htriv : c.triv = true → ∀ x, mvd x = x) :
    ∀ (ops : List (Op α)) (st : List (V α)), WF c st → Spec.validRun c.n mvd st ops = true →
      run c mvd st ops = .ok (Spec.run mvd st ops) ∧ WF c (Spec.run mvd st ops)
  | [], st, hwf, _ => ⟨rfl, hwf⟩
  | op :: ops, st, hwf, hv => by
    simp only [Spec.validRun, Bool.and_eq_true] at hv
    have h1 := step_refines c mvd htriv st hwf op hv.1
    have h2 := wf_step c mvd st hwf op hv.1
    have ih := run_refines c mvd htriv ops _ h2 hv.2
    simp only [run, h1, Spec.run]
    exact ih

example : Spec.validRun 2 id [(⟨0, 5⟩ : V Nat), ⟨1, 7⟩] [.swap 0 1, .assign 1 1 true, .emplace 0 1 3] = true := by
  decide

/-! ## optional and expected on top of the variant -/

/-- `etl::optional<T>` (reset = `emplace<0>(nullopt)`, emplace = `emplace<1>`, copy/move/swap = the
    variant's) is a simulation of `Option`: after any operation, `has_value()` and `*o` of every object are
    what the `Option` spec gives, and the model does not fail. -/
theorem optional_refines (c : Cfg) (hc : c.n = 2) (mvd : α → α) (htriv : c.triv = true → ∀ x, mvd x = x)
    (nullv : α) (st : List (V α)) (hwf : WF c st) (op : Spec.OOp α)
    (hv : Spec.valid 2 st (Spec.optToVar nullv op) = true) :
    (step c mvd st (Spec.optToVar nullv op)).map (List.map Spec.absO)
      = .ok (Spec.ostep mvd (st.map Spec.absO) op) := by
  rw [step_refines c mvd htriv st hwf _ (by rw [hc]; exact hv)]
  simp only [ok_map]
  congr 1
  cases op with
  | reset k => simp [Spec.optToVar, Spec.step, Spec.ostep, List.map_set, Spec.absO]
  | emplace k x => simp [Spec.optToVar, Spec.step, Spec.ostep, List.map_set, Spec.absO]
  | assign k j mv =>
    simp only [Spec.optToVar, Spec.step, Spec.ostep, List.getElem?_map]
    cases hj : st[j]? with
    | none => simp
    | some s =>
      by_cases hkj : k = j
      · simp [hkj]
      · cases mv <;> simp [hkj, List.map_set, absO_mvdV]
  | ctor k j mv =>
    simp only [Spec.optToVar, Spec.step, Spec.ostep, List.getElem?_map]
    cases hj : st[j]? with
    | none => simp
    | some s =>
      by_cases hkj : k = j
      · simp [hkj]
      · cases mv <;> simp [hkj, List.map_set, absO_mvdV]
  | swap k j =>
    simp only [Spec.optToVar, Spec.step, Spec.ostep, List.getElem?_map]
    cases hk : st[k]? <;> cases hj : st[j]? <;> simp [List.map_set]

example : Spec.valid 2 [(⟨0, 0⟩ : V Nat), ⟨1, 7⟩] (Spec.optToVar 0 (.assign 0 1 true)) = true := by decide

/-- `etl::expected<T,E>` (value = index 0, in-place construction, `emplace = _u.emplace<0>`, copy/move/swap = the
    variant's) is a simulation of value-or-error -/
theorem expected_refines (c : Cfg) (hc : c.n = 2) (mvd : α → α) (htriv : c.triv = true → ∀ x, mvd x = x)
    (viaEmplace : Bool) (st : List (V α)) (hwf : WF c st) (op : Spec.EOp α)
    (hv : Spec.valid 2 st (Spec.expToVar viaEmplace op) = true) :
    (step c mvd st (Spec.expToVar viaEmplace op)).map (List.map Spec.absE)
      = .ok (Spec.estep mvd (st.map Spec.absE) op) := by
  rw [step_refines c mvd htriv st hwf _ (by rw [hc]; exact hv)]
  simp only [ok_map]
  congr 1
  cases op with
  | setVal k x => cases viaEmplace <;> simp [Spec.expToVar, Spec.step, Spec.estep, List.map_set, Spec.absE]
  | setErr k x => simp [Spec.expToVar, Spec.step, Spec.estep, List.map_set, Spec.absE]
  | assign k j mv =>
    simp only [Spec.expToVar, Spec.step, Spec.estep, List.getElem?_map]
    cases hj : st[j]? with
    | none => simp
    | some s =>
      by_cases hkj : k = j
      · simp [hkj]
      · cases mv <;> simp [hkj, List.map_set, absE_mvdV]
  | ctor k j mv =>
    simp only [Spec.expToVar, Spec.step, Spec.estep, List.getElem?_map]
    cases hj : st[j]? with
    | none => simp
    | some s =>
      by_cases hkj : k = j
      · simp [hkj]
      · cases mv <;> simp [hkj, List.map_set, absE_mvdV]
  | swap k j =>
    simp only [Spec.expToVar, Spec.step, Spec.estep, List.getElem?_map]
    cases hk : st[k]? <;> cases hj : st[j]? <;> simp [List.map_set]

example : Spec.valid 2 [(⟨0, 0⟩ : V Nat), ⟨1, 7⟩] (Spec.expToVar true (.setVal 1 4)) = true := by decide

/-! ## observers -/

theorem getIf_eq (v : V α) (i : Nat) : getIf v i = .ok (Spec.getIf v i) := by
  unfold getIf Spec.getIf getAt
  by_cases h : v.idx = i <;> simp [h]

theorem valueOr_eq (v : V α) (d : α) : valueOr v d = .ok ((Spec.absO v).getD d) := by
  unfold valueOr hasValue deref getAt Spec.absO
  by_cases h : v.idx = 1 <;> simp [h]

theorem andThen_eq {ρ : Type} (v : V α) (f : α → ρ) : andThen v f = .ok ((Spec.absO v).map f) := by
  unfold andThen hasValue deref getAt Spec.absO
  by_cases h : v.idx = 1 <;> simp [h]

/-! ## relational operators -/

/-- variant: all six operators (index first, then the visited element operator; `!=` as `!(==)`) equal
    [variant.relops], and the comparison visitor never reaches `etl::unreachable()` -/
theorem varRel_eq (c : Cfg) (o : RelOps α α) (hne : ∀ x y, o .ne x y = !o .eq x y) (r : Rel) (a b : V α)
    (ha : a.idx < c.n) (hb : b.idx < c.n) : varRel c o r a b = .ok (Spec.varRel o r a b) := by
  unfold varRel Spec.varRel
  simp only [visit2_active c a b ha hb]
  rcases Nat.lt_trichotomy a.idx b.idx with h | h | h
  · have h1 : a.idx ≠ b.idx := by omega
    have h2 : ¬ a.idx > b.idx := by omega
    cases r <;> simp [h, h1, h2]
  · cases r <;> simp [h, hne]
  · have h1 : a.idx ≠ b.idx := by omega
    have h2 : ¬ a.idx < b.idx := by omega
    cases r <;> simp [h, h1, h2]

example : ∀ x y : Nat, natOps .ne x y = !natOps .eq x y := natOps_ne

/-- optional<T> against optional<U>, all six operators, any element operator table -/
theorem optRel_eq (o : RelOps α β) (hne : ∀ x y, o .ne x y = !o .eq x y) (r : Rel) (a : V α) (b : V β) :
    optRel o r a b = .ok (Spec.optRel o r (Spec.absO a) (Spec.absO b)) := by
  unfold optRel Spec.optRel Spec.absO hasValue deref getAt
  rcases beq1 a.idx with ⟨ha', ha⟩ | ⟨ha', ha⟩ <;> rcases beq1 b.idx with ⟨hb', hb⟩ | ⟨hb', hb⟩ <;>
    cases r <;> simp [ha, hb, ha', hb', hne] <;> decide

example : ∀ x y : Nat, natOps .ne x y = !natOps .eq x y := natOps_ne

/-- optional against nullopt -/
theorem optRelNullR_eq (o : RelOps α β) (r : Rel) (a : V α) :
    optRelNullR r a = Spec.optRel o r (Spec.absO a) (none : Option β) := by
  unfold optRelNullR Spec.optRel Spec.absO hasValue
  rcases beq1 a.idx with ⟨ha', ha⟩ | ⟨ha', ha⟩ <;> cases r <;> simp [ha, ha'] <;> decide

/-- nullopt against optional -/
theorem optRelNullL_eq (o : RelOps β α) (r : Rel) (a : V α) :
    optRelNullL r a = Spec.optRel o r (none : Option β) (Spec.absO a) := by
  unfold optRelNullL Spec.optRel Spec.absO hasValue
  rcases beq1 a.idx with ⟨ha', ha⟩ | ⟨ha', ha⟩ <;> cases r <;> simp [ha, ha'] <;> decide

/-- optional against a value -/
theorem optRelValR_eq (o : RelOps α β) (hne : ∀ x y, o .ne x y = !o .eq x y) (r : Rel) (a : V α) (y : β) :
    optRelValR o r a y = .ok (Spec.optRel o r (Spec.absO a) (some y)) := by
  unfold optRelValR Spec.optRel Spec.absO hasValue deref getAt
  rcases beq1 a.idx with ⟨ha', ha⟩ | ⟨ha', ha⟩ <;> cases r <;> simp [ha, ha', hne] <;> decide

example : ∀ x y : Nat, natOps .ne x y = !natOps .eq x y := natOps_ne

/-- a value against optional (`==` / `!=` are the rewritten `opt == value`) -/
theorem optRelValL_eq (o : RelOps α β) (o' : RelOps β α) (hsym : ∀ x y, o' .eq y x = o .eq x y)
    (hne : ∀ x y, o' .ne y x = !o' .eq y x) (r : Rel) (y : β) (a : V α) :
    optRelValL o o' r y a = .ok (Spec.optRel o' r (some y) (Spec.absO a)) := by
  unfold optRelValL optRelValR Spec.optRel Spec.absO hasValue deref getAt
  rcases beq1 a.idx with ⟨ha', ha⟩ | ⟨ha', ha⟩ <;> cases r <;> simp [ha, ha', hne, hsym] <;> decide

example : (∀ x y : Nat, natOps .eq y x = natOps .eq x y) ∧ (∀ x y : Nat, natOps .ne y x = !natOps .eq y x) :=
  ⟨natOps_sym, fun x y => natOps_ne y x⟩

end Tetl.C07.Props
