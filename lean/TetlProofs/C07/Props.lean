import TetlProofs.C07.Lemmas
namespace Tetl.C07.Props
open Tetl Tetl.C07

theorem getIf_eq {α : Type} (v : V α) (i : Nat) : getIf v i = .ok (Spec.getIf v i) := by
  unfold getIf Spec.getIf getAt
  by_cases h : v.idx = i <;> simp [h, Except.map]

end Tetl.C07.Props
