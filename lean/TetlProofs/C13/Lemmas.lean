/- C13 helper lemmas. -/
import Tetl.C13.Model
import Tetl.C13.Spec
namespace Tetl.C13.Lemmas
end Tetl.C13.Lemmas
