/- C13 helper lemmas: sign-bit arithmetic on bit patterns. -/
import Tetl.C13.Model
import Tetl.C14.Model
import Tetl.C14.Spec
namespace Tetl.C13.Lemmas
open Tetl.C13 Tetl.C13.Fmt

theorem signW_pos (f : Fmt) : 0 < f.signW := by unfold Fmt.signW; exact Nat.pow_pos (by decide)

theorem two_signW (f : Fmt) : 2 ^ f.width = 2 * f.signW := by
  unfold Fmt.width Fmt.signW
  rw [show 1 + f.ebits + f.mbits = (f.ebits + f.mbits) + 1 by omega, Nat.pow_succ]; omega

/-- a pattern of the format splits into its sign bit and the rest -/
theorem split (f : Fmt) (b : Nat) (hb : b < 2 ^ f.width) :
    (f.sign b = 0 ∨ f.sign b = 1) ∧ b = f.sign b * f.signW + f.absBits b ∧ f.absBits b < f.signW := by
  have hW := signW_pos f
  rw [two_signW] at hb
  unfold Fmt.sign Fmt.absBits
  have hq : b / f.signW < 2 := (Nat.div_lt_iff_lt_mul hW).2 (by omega)
  have hdm := Nat.div_add_mod b f.signW
  have hr := Nat.mod_lt b hW
  generalize f.signW = W at *
  generalize hqv : b / W = q at *
  generalize b % W = r at *
  have : q = 0 ∨ q = 1 := by omega
  rcases this with rfl | rfl <;> simp at hdm ⊢ <;> omega

theorem sign_withSign (f : Fmt) (s a : Nat) (hs : s = 0 ∨ s = 1) (ha : a < f.signW) :
    f.sign (f.withSign s a) = s ∧ f.absBits (f.withSign s a) = a := by
  have hW := signW_pos f
  unfold Fmt.sign Fmt.absBits Fmt.withSign
  generalize f.signW = W at *
  rcases hs with rfl | rfl
  · simp [Nat.div_eq_of_lt ha, Nat.mod_eq_of_lt ha]
  · rw [Nat.one_mul]
    have h1 : (W + a) / W = 1 := by
      rw [Nat.add_comm, Nat.add_div_right _ hW, Nat.div_eq_of_lt ha]
    have h2 : (W + a) % W = a := by
      rw [Nat.add_comm, Nat.add_mod_right, Nat.mod_eq_of_lt ha]
    rw [h1, h2]; exact ⟨rfl, rfl⟩

/-- negation flips the sign bit and nothing else -/
theorem neg_eq (f : Fmt) (b : Nat) (hb : b < 2 ^ f.width) :
    f.neg b = f.withSign (1 - f.sign b) (f.absBits b) := by
  obtain ⟨hs, hsplit, _⟩ := split f b hb
  unfold Fmt.neg Fmt.withSign
  rcases hs with h | h <;> simp [h] <;> rw [h] at hsplit <;> omega

/-- `detail::byteswap_fallback(uint16_t)`: `(val << 8) | (val >> 8)` truncated to 16 bits swaps the two bytes -/
theorem bswap16_eq (v : Nat) (hv : v < 2 ^ 16) : C14.bswap16 v = C14.Spec.bswap 2 v := by
  unfold C14.bswap16
  have h1 : v >>> 8 < 2 ^ 8 := by rw [Nat.shiftRight_eq_div_pow]; omega
  rw [← Nat.shiftLeft_add_eq_or_of_lt h1, Nat.shiftLeft_eq, Nat.shiftRight_eq_div_pow]
  simp only [C14.Spec.bswap, Nat.pow_one, Nat.pow_zero, Nat.mul_one, Nat.add_zero]
  have e8 : (2:Nat) ^ 8 = 256 := by decide
  have e16 : (2:Nat) ^ 16 = 65536 := by decide
  rw [e8, e16] at *
  have h2 : v * 256 + v / 256 = 65536 * (v / 256) + (256 * (v % 256) + v / 256) := by omega
  rw [h2, Nat.mul_add_mod, Nat.mod_eq_of_lt (by omega)]
  omega

end Tetl.C13.Lemmas
