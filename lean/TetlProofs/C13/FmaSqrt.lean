/- C13: the constant-evaluated paths of `fma` (since 2d96e3e) and `sqrt` (since 55139da) against the fused / correctly
   rounded specification.

   `fmaCt` takes the builtin wherever GCC folds it and `x * y + z` (two checked operations) otherwise.  Outside the
   argument class `FmaResidual` — GCC does not fold the builtin although the operands are finite (and the addend finite
   or the rounded product out of range), or inf·0 meets a NaN addend — the path is a constant expression and returns
   the fused value wherever that value is defined (`fmaCt_eq`).  Inside the class both failures exist
   (`fma_unfolded_witness`: a double rounding; `fma_ct_fails_witness`: not a constant expression).
   `sqrtCt` agrees with the specification on every pattern that is not a NaN and returns a NaN argument unchanged
   (`sqrtCt_eq`). -/
import Tetl.C13.Model
import TetlProofs.C13.Lemmas
import TetlProofs.C13.LemmasSafe
namespace Tetl.C13.FmaSqrt
open Tetl Tetl.C13 Tetl.C13.Fmt Tetl.C13.Lemmas

/-- x·y is an invalid operation -/
def prodInvalid (f : Fmt) (x y : Nat) : Bool := (f.isInf x && f.isZero y) || (f.isZero x && f.isInf y)

/-- the argument class of finding F-c13-fma-constexpr-unfolded: GCC does not fold the builtin and
    (a) x, y finite and (z finite, or the rounded product overflows), or (b) inf·0 with a NaN addend -/
def FmaResidual (f : Fmt) (x y z : Nat) : Bool :=
  !Model.gccFoldsFma f x y z &&
  ((f.isFinite x && f.isFinite y && (f.isFinite z || !f.isFinite (f.mul x y))) || (f.isNaN z && prodInvalid f x y))

/-! ### classification facts -/

/-- NaN / infinite / finite are mutually exclusive and exhaustive -/
theorem cls (f : Fmt) (b : Nat) :
    (f.isNaN b = true ∧ f.isInf b = false ∧ f.isFinite b = false) ∨
    (f.isNaN b = false ∧ f.isInf b = true ∧ f.isFinite b = false) ∨
    (f.isNaN b = false ∧ f.isInf b = false ∧ f.isFinite b = true) := by
  unfold Fmt.isNaN Fmt.isInf Fmt.isFinite
  rcases Nat.lt_trichotomy (f.absBits b) f.inf with h | h | h
  · right; right; simp; omega
  · right; left; simp; omega
  · left; simp; omega

theorem inf_lt_signW (f : Fmt) : f.inf < f.signW := by
  unfold Fmt.inf Fmt.signW Fmt.emax
  rw [Nat.pow_add]
  have h1 : 0 < 2 ^ f.ebits := Nat.pow_pos (by decide)
  exact Nat.mul_lt_mul_of_pos_right (by omega) (Nat.pow_pos (by decide))

/-- with at least one fraction bit the canonical quiet NaN is a NaN -/
theorem qnan_facts (f : Fmt) (h1 : 1 ≤ f.mbits) :
    f.isNaN f.qnan = true ∧ f.isInf f.qnan = false ∧ f.isFinite f.qnan = false := by
  have hlt : f.qnan < f.signW := by
    unfold Fmt.qnan Fmt.inf Fmt.signW Fmt.emax
    rw [Nat.pow_add]
    have h1' : 0 < 2 ^ f.ebits := Nat.pow_pos (by decide)
    have h2 : 2 ^ (f.mbits - 1) < 2 ^ f.mbits := Nat.pow_lt_pow_right (by decide) (by omega)
    have h3 : (2 ^ f.ebits - 1) * 2 ^ f.mbits + 2 ^ f.mbits = 2 ^ f.ebits * 2 ^ f.mbits := by
      rw [Nat.sub_mul, Nat.one_mul]
      have : 2 ^ f.mbits ≤ 2 ^ f.ebits * 2 ^ f.mbits := Nat.le_mul_of_pos_left _ h1'
      omega
    omega
  have habs : f.absBits f.qnan = f.qnan := by unfold Fmt.absBits; exact Nat.mod_eq_of_lt hlt
  have hgt : f.inf < f.qnan := by
    unfold Fmt.qnan
    have : 0 < 2 ^ (f.mbits - 1) := Nat.pow_pos (by decide)
    omega
  unfold Fmt.isNaN Fmt.isInf Fmt.isFinite
  rw [habs]
  simp
  omega

/-- a signed infinity -/
theorem infS_facts (f : Fmt) (s : Nat) (hs : s = 0 ∨ s = 1) :
    f.isNaN (f.withSign s f.inf) = false ∧ f.isInf (f.withSign s f.inf) = true ∧
    f.isFinite (f.withSign s f.inf) = false ∧ f.sign (f.withSign s f.inf) = s := by
  obtain ⟨h1, h2⟩ := sign_withSign f s f.inf hs (inf_lt_signW f)
  unfold Fmt.isNaN Fmt.isInf Fmt.isFinite
  rw [h2]
  simp [h1]

theorem sign01 (f : Fmt) (x y : Nat) : (f.sign x + f.sign y) % 2 = 0 ∨ (f.sign x + f.sign y) % 2 = 1 := by omega

theorem prodInvalid_of (f : Fmt) (x y : Nat) (nx : f.isNaN x = false) (ny : f.isNaN y = false)
    (hi : (f.isInf x || f.isInf y) = true) (hz : (f.isZero x || f.isZero y) = true) : prodInvalid f x y = true := by
  unfold prodInvalid
  unfold Fmt.isNaN at nx ny
  unfold Fmt.isInf Fmt.isZero at *
  simp at *
  omega

/-! ### the checked two-step evaluation -/

theorem ceOp_ok (f : Fmt) (a b r : Nat) (h1 : (!f.isNaN a && !f.isNaN b && f.isNaN r) = false)
    (h2 : (f.isFinite a && f.isFinite b && !f.isFinite r) = false) : Model.ceOp f a b r = .ok r := by
  unfold Model.ceOp
  rw [h1, h2]
  rfl

theorem twoStep_of_ok (f : Fmt) (x y z : Nat) (h : Model.ceOp f x y (f.mul x y) = .ok (f.mul x y)) :
    Model.fmaTwoStepCE f x y z = Model.ceOp f (f.mul x y) z (f.add (f.mul x y) z) := by
  unfold Model.fmaTwoStepCE
  rw [h]
  rfl

/-- T1 in its sharp form: the only thing needed of the format is one fraction bit (so that `qnan` is a NaN);
    the width bounds are not needed. -/
theorem fmaCt_eq_of_mbits (f : Fmt) (h1 : 1 ≤ f.mbits) (x y z : Nat)
    (hres : FmaResidual f x y z = false)
    (hdef : (f.isNaN x || f.isNaN y || f.isNaN z) = false → f.isNaN (f.fma x y z) = false) :
    Model.fmaCt f x y z = .ok (f.fma x y z) := by
  unfold Model.fmaCt
  by_cases hg : Model.gccFoldsFma f x y z = true
  · rw [if_pos hg]
  rw [if_neg hg]
  have hg' : Model.gccFoldsFma f x y z = false := by simpa using hg
  obtain ⟨qn, qi, qf⟩ := qnan_facts f h1
  have hs := sign01 f x y
  obtain ⟨sn, si, sf, ss⟩ := infS_facts f _ hs
  -- x or y a NaN: everything is the quiet NaN
  have caseNaN : (f.isNaN x || f.isNaN y) = true →
      Model.fmaTwoStepCE f x y z = .ok (f.fma x y z) := by
    intro hn
    have hP : f.mul x y = f.qnan := by simp [Fmt.mul, hn]
    have hF : f.fma x y z = f.qnan := by simp [Fmt.fma, hn]
    have hA : f.add f.qnan z = f.qnan := by simp [Fmt.add, qn]
    have hnf : (f.isFinite x && f.isFinite y) = false := by
      rcases cls f x with ⟨a, b, c⟩ | ⟨a, b, c⟩ | ⟨a, b, c⟩ <;>
        rcases cls f y with ⟨a', b', c'⟩ | ⟨a', b', c'⟩ | ⟨a', b', c'⟩ <;> simp [a, a', c, c'] at hn ⊢
    have hc1 : Model.ceOp f x y (f.mul x y) = .ok (f.mul x y) := by
      apply ceOp_ok
      · rw [hP]; rcases cls f x with ⟨a, _, _⟩ | ⟨a, _, _⟩ | ⟨a, _, _⟩ <;> simp [a] at hn ⊢ <;> simp [hn]
      · rw [hnf]; rfl
    rw [twoStep_of_ok f x y z hc1, hP, hA, hF]
    apply ceOp_ok <;> simp [qn, qf]
  by_cases hn : (f.isNaN x || f.isNaN y) = true
  · exact caseNaN hn
  have nx : f.isNaN x = false := by cases h : f.isNaN x <;> simp [h] at hn ⊢
  have ny : f.isNaN y = false := by cases h : f.isNaN y <;> simp [h] at hn ⊢
  have hres' : ((f.isFinite x && f.isFinite y && (f.isFinite z || !f.isFinite (f.mul x y))) ||
      (f.isNaN z && prodInvalid f x y)) = false := by
    unfold FmaResidual at hres; rw [hg'] at hres; simpa using hres
  by_cases hi : (f.isInf x || f.isInf y) = true
  · -- an infinite factor
    have hnf : (f.isFinite x && f.isFinite y) = false := by
      rcases cls f x with ⟨a, b, c⟩ | ⟨a, b, c⟩ | ⟨a, b, c⟩ <;>
        rcases cls f y with ⟨a', b', c'⟩ | ⟨a', b', c'⟩ | ⟨a', b', c'⟩ <;> simp [b, b', c, c'] at hi ⊢
    by_cases hz : (f.isZero x || f.isZero y) = true
    · -- inf · 0: excluded
      exfalso
      have hF : f.fma x y z = f.qnan := by
        cases nz : f.isNaN z <;> simp [Fmt.fma, nx, ny, nz, hi, hz]
      cases nz : f.isNaN z
      · have := hdef (by simp [nx, ny, nz])
        rw [hF, qn] at this; cases this
      · have hp := prodInvalid_of f x y nx ny hi hz
        rw [nz, hp] at hres'; simp at hres'
    · have hz' : (f.isZero x || f.isZero y) = false := by simpa using hz
      have hP : f.mul x y = f.withSign ((f.sign x + f.sign y) % 2) f.inf := by
        simp [Fmt.mul, nx, ny, hi, hz']
      have hc1 : Model.ceOp f x y (f.mul x y) = .ok (f.mul x y) := by
        apply ceOp_ok
        · rw [hP, sn]; simp
        · rw [hnf]; rfl
      rw [twoStep_of_ok f x y z hc1]
      cases nz : f.isNaN z
      · -- the addend is not a NaN
        by_cases hopp : (f.isInf z && f.sign z != (f.sign x + f.sign y) % 2) = true
        · exfalso
          have hF : f.fma x y z = f.qnan := by simp [Fmt.fma, nx, ny, nz, hi, hz', hopp]
          have := hdef (by simp [nx, ny, nz])
          rw [hF, qn] at this; cases this
        · have hopp' : (f.isInf z && f.sign z != (f.sign x + f.sign y) % 2) = false := by simpa using hopp
          have hopp2 : (f.isInf z && (f.sign x + f.sign y) % 2 != f.sign z) = false := by
            rw [bne_comm]; exact hopp'
          have hF : f.fma x y z = f.withSign ((f.sign x + f.sign y) % 2) f.inf := by
            simp only [Fmt.fma, nx, ny, nz, hi, hz', hopp']; simp
          have hA : f.add (f.mul x y) z = f.mul x y := by
            rw [hP]; simp only [Fmt.add, sn, nz, si, ss, hopp2]; simp
          rw [hA, hF, ← hP]
          apply ceOp_ok
          · rw [hP, sn]; simp
          · rw [hP, sf]; simp
      · have hF : f.fma x y z = f.qnan := by simp [Fmt.fma, nz]
        have hA : f.add (f.mul x y) z = f.qnan := by simp [Fmt.add, nz]
        rw [hA, hF]
        apply ceOp_ok
        · rw [nz]; simp
        · rw [hP, sf]; simp
  · -- both factors finite: the addend is not finite and the rounded product is
    have hi' : (f.isInf x || f.isInf y) = false := by simpa using hi
    have fx : f.isFinite x = true := by
      rcases cls f x with ⟨a, b, c⟩ | ⟨a, b, c⟩ | ⟨a, b, c⟩ <;> simp [a, b, c] at nx hi' ⊢
    have fy : f.isFinite y = true := by
      rcases cls f y with ⟨a, b, c⟩ | ⟨a, b, c⟩ | ⟨a, b, c⟩ <;> simp [a, b, c] at ny hi' ⊢
    have fz : f.isFinite z = false := by
      cases h : f.isFinite z
      · rfl
      · rw [fx, fy, h] at hres'; simp at hres'
    have fP : f.isFinite (f.mul x y) = true := by
      cases h : f.isFinite (f.mul x y)
      · rw [fx, fy, h] at hres'; simp at hres'
      · rfl
    have nP : f.isNaN (f.mul x y) = false := by
      rcases cls f (f.mul x y) with ⟨a, b, c⟩ | ⟨a, b, c⟩ | ⟨a, b, c⟩ <;> simp [a, c] at fP ⊢
    have iP : f.isInf (f.mul x y) = false := by
      rcases cls f (f.mul x y) with ⟨a, b, c⟩ | ⟨a, b, c⟩ | ⟨a, b, c⟩ <;> simp [b, c] at fP ⊢
    have hc1 : Model.ceOp f x y (f.mul x y) = .ok (f.mul x y) := by
      apply ceOp_ok
      · rw [nP]; simp
      · rw [fP]; simp
    rw [twoStep_of_ok f x y z hc1]
    cases nz : f.isNaN z
    · have iz : f.isInf z = true := by
        rcases cls f z with ⟨a, b, c⟩ | ⟨a, b, c⟩ | ⟨a, b, c⟩ <;> simp [a, b, c] at nz fz ⊢
      have hF : f.fma x y z = z := by simp [Fmt.fma, nx, ny, nz, hi', iz]
      have hA : f.add (f.mul x y) z = z := by simp [Fmt.add, nP, nz, iP, iz]
      rw [hA, hF]
      apply ceOp_ok
      · rw [nz]; simp
      · rw [fz]; simp
    · have hF : f.fma x y z = f.qnan := by simp [Fmt.fma, nz]
      have hA : f.add (f.mul x y) z = f.qnan := by simp [Fmt.add, nz]
      rw [hA, hF]
      apply ceOp_ok
      · rw [nz]; simp
      · rw [fz]; simp

set_option linter.unusedVariables false in
/-- T1: outside the class, wherever the fused result is defined (no invalid operation among non-NaN arguments), the
    constant-evaluated path is a constant expression and returns the fused value -/
theorem fmaCt_eq (f : Fmt) (h : Std f) (x y z : Nat) (hx : x < 2 ^ f.width) (hy : y < 2 ^ f.width)
    (hz : z < 2 ^ f.width) (hres : FmaResidual f x y z = false)
    (hdef : (f.isNaN x || f.isNaN y || f.isNaN z) = false → f.isNaN (f.fma x y z) = false) :
    Model.fmaCt f x y z = .ok (f.fma x y z) := fmaCt_eq_of_mbits f h.mbits1 x y z hres hdef

/-! ### sqrt -/

theorem mag_zero_of_absBits (f : Fmt) (b : Nat) (h : f.absBits b = 0) : f.mag b = 0 := by
  unfold Fmt.mag Fmt.expo
  rw [mant_absBits, h]
  simp

/-- T2 in its sharp form: the only thing needed of the format is `0 < inf` (at least one exponent bit), so that
    ±0 is not an infinity; the width bound is not needed. -/
theorem sqrtCt_eq_of_inf_pos (f : Fmt) (hpos : 0 < f.inf) (b : Nat) :
    (f.isNaN b = false → Model.sqrtCt f b = FSpec.sqrt f b) ∧ (f.isNaN b = true → Model.sqrtCt f b = b) := by
  constructor
  · intro nb
    have hself : f.feq b b = true := by
      unfold Fmt.feq; cases h : f.isInf b <;> simp [nb]
    have hlt := inf_lt_signW f
    have habsI : f.absBits f.inf = f.inf := by unfold Fmt.absBits; exact Nat.mod_eq_of_lt hlt
    have nI : f.isNaN f.inf = false := by unfold Fmt.isNaN; rw [habsI]; simp
    have iI : f.isInf f.inf = true := by unfold Fmt.isInf; rw [habsI]; simp
    have zI : f.isZero f.inf = false := by unfold Fmt.isZero; rw [habsI]; simp; omega
    have sI : f.sign f.inf = 0 := by unfold Fmt.sign; rw [Nat.div_eq_of_lt hlt]
    have hfeqI : f.feq b f.inf = (b == f.inf) := by
      unfold Fmt.feq; simp [nb, nI, iI]
    unfold Model.sqrtCt
    rw [hself, hfeqI]
    by_cases hbI : b = f.inf
    · -- +inf
      subst hbI
      simp [FSpec.sqrt, nI, zI, sI, iI]
    · have hbI' : (b == f.inf) = false := by simpa using hbI
      rw [hbI']
      simp only [Bool.not_true, Bool.or_self, Bool.false_eq_true, if_false]
      by_cases hl : f.lt b 0 = true
      · rw [if_pos hl]
        obtain ⟨z1, z2, z3, z4⟩ := zero_facts f
        have n0 : f.isNaN 0 = false := by unfold Fmt.isNaN; rw [z1]; simp
        have i0 : f.isInf 0 = false := by unfold Fmt.isInf; rw [z1]; simp; omega
        -- `b < 0`: the sign bit is set and b is not a zero
        have hneg : f.sign b = 1 ∧ f.isZero b = false := by
          unfold Fmt.lt at hl
          cases ib : f.isInf b
          · simp [nb, n0, ib, i0, z4] at hl
            unfold Fmt.smag at hl
            by_cases hs : f.sign b = 1
            · refine ⟨hs, ?_⟩
              cases hzb : f.isZero b
              · rfl
              · exfalso
                have : f.absBits b = 0 := by unfold Fmt.isZero at hzb; simpa using hzb
                rw [mag_zero_of_absBits f b this] at hl
                simp [hs] at hl
            · exfalso; simp [hs] at hl; omega
          · simp [nb, n0, ib, i0] at hl
            refine ⟨?_, ?_⟩
            · cases hs : decide (f.sign b = 1)
              · have : ¬ f.sign b = 1 := by simpa using hs
                simp [this] at hl
              · simpa using hs
            · unfold Fmt.isInf at ib; unfold Fmt.isZero
              have : f.absBits b = f.inf := by simpa using ib
              simp; omega
        simp [FSpec.sqrt, nb, hneg.1, hneg.2]
      · rw [if_neg hl]
  · intro nb
    unfold Model.sqrtCt
    have : f.feq b b = false := by unfold Fmt.feq; simp [nb]
    simp [this]

set_option linter.unusedVariables false in
/-- T2: sqrt: the ladder in front of the builtin agrees with the specification; a NaN argument is returned as it is -/
theorem sqrtCt_eq (f : Fmt) (h : Std f) (b : Nat) (hb : b < 2 ^ f.width) :
    (f.isNaN b = false → Model.sqrtCt f b = FSpec.sqrt f b) ∧ (f.isNaN b = true → Model.sqrtCt f b = b) :=
  sqrtCt_eq_of_inf_pos f (inf_pos f h) b

/-! ### concrete facts -/

/-- inside the class, first kind: GCC does not fold the builtin (the fused value 2⁻¹⁴⁸ comes from an inexact subnormal
    result), the two-step expression is accepted and double-rounds: 1 ulp instead of 2 -/
theorem fma_unfolded_witness :
    FmaResidual f32 0x1a000000 0x1a000000 1 = true ∧
    (Model.fmaCt f32 0x1a000000 0x1a000000 1).toOption = some 1 ∧ f32.fma 0x1a000000 0x1a000000 1 = 2 := by
  decide +kernel

/-- inside the class, second kind: the rounded product overflows, `x * y` is not a constant expression, although the
    fused value is −inf -/
theorem fma_ct_fails_witness :
    FmaResidual f32 0x7f000000 0x7f000000 0xff800000 = true ∧
    (Model.fmaCt f32 0x7f000000 0x7f000000 0xff800000).toOption = none ∧
    f32.fma 0x7f000000 0x7f000000 0xff800000 = 0xff800000 := by
  decide +kernel

/-- the old double-rounding witness is now fused -/
example : Model.fmaCt f32 0x3f800001 0x3f800001 0xbf800002 = .ok 0x28800000 := rfl
example : (Model.fmaCt f32 0x3f800001 0x3f800001 0xbf800002).toOption = some 0x28800000 := by decide +kernel

/-! ### non-vacuity -/

-- a folded triple of smallest subnormals: 2⁻¹⁴⁹·2⁻¹⁴⁹ + 2⁻¹⁴⁹ (GCC folds: the rounded value is a whole unit)
example : Model.fmaCt f32 1 1 1 = .ok (f32.fma 1 1 1) :=
  fmaCt_eq f32 std_f32 1 1 1 (by decide) (by decide) (by decide) (by decide +kernel) (fun _ => by decide +kernel)
-- a folded triple of normal numbers: 1.0·1.0 + 1.0
example : Model.fmaCt f32 0x3f800000 0x3f800000 0x3f800000 = .ok (f32.fma 0x3f800000 0x3f800000 0x3f800000) :=
  fmaCt_eq f32 std_f32 _ _ _ (by decide) (by decide) (by decide) (by decide +kernel) (fun _ => by decide +kernel)
-- a non-finite one: inf·(2⁻¹⁴⁹) + 2⁻¹⁴⁹, not folded, two checked steps
example : Model.fmaCt f32 0x7f800000 1 1 = .ok (f32.fma 0x7f800000 1 1) :=
  fmaCt_eq f32 std_f32 _ _ _ (by decide) (by decide) (by decide) (by decide +kernel) (fun _ => by decide +kernel)
example : Model.gccFoldsFma f32 0x7f800000 1 1 = false ∧ f32.fma 0x7f800000 1 1 = 0x7f800000 := by decide +kernel
example : Model.gccFoldsFma f32 0x3f800000 0x3f800000 0x3f800000 = true ∧ Model.gccFoldsFma f32 1 1 1 = true := by
  decide +kernel
example : Model.sqrtCt f32 0x0da24260 = FSpec.sqrt f32 0x0da24260 :=
  (sqrtCt_eq f32 std_f32 _ (by decide)).1 (by decide)
example : Model.sqrtCt f32 0xff800000 = FSpec.sqrt f32 0xff800000 :=
  (sqrtCt_eq f32 std_f32 _ (by decide)).1 (by decide)
example : FSpec.sqrt f32 0xff800000 = f32.qnan := by decide +kernel
example : Model.sqrtCt f32 0x7fc00001 = 0x7fc00001 := (sqrtCt_eq f32 std_f32 _ (by decide)).2 (by decide)

end Tetl.C13.FmaSqrt
