/-
C13 — property theorems: compile-time evaluation and run-time execution give the same answer.

Lean cannot model GCC's constant evaluator (DESIGN §6).  What is proved here:

1. about the inventory `Tetl.C13.dispatch`, regenerated from the current headers on every run
   (`gen/dispatch.py`): every function with two code paths is bound to ONE specification — each builtin it calls is
   one that is assumed to implement that specification and each callee on the other path is tied to that same
   specification (`dispatch_consistent`); the functions the property names are all present
   (`dispatch_covers_anchors`); the only exactly-specified function whose two *simultaneously live* paths are known to
   differ is `fma`, on the arguments for which GCC does not fold the builtin (`dispatch_divergent_are_known`);
   `fmod`, `remainder` and `sqrt` run the same builtin on both paths under GCC (`dispatch_ct_builtin`: their gcem
   callees, known to differ, are compiled for other compilers only); every callee marked `proved` names a theorem
   below (`proved_callees_have_theorems`: a check of names, the theorems themselves are checked by elaboration);
2. for each such pair, for ALL inputs: the model of tetl's own code on one path returns — without an out-of-bounds
   read, overflow or other undefined behaviour (`= .ok …`) — exactly the value of the specification of the builtin
   on the other path (`*_paths`).  The integer and C-string models and their proofs are those of the owning
   properties C14 and C18, imported; the floating-point classification functions are proved here at bit level
   for every format `(ebits, mbits)`;
3. the known divergence: `fma_paths_partial` / `fma_paths_counterexample` / `fma_ct_fails_counterexample`.

Theorems marked "re-export" restate a theorem of the owning property (C14, C18) for the inventory; they add no
proof obligation of their own (and `memcpy`/`memmove`/`memcmp`/`memchr` are not constexpr functions: their two paths
are selected by the preprocessor, not by constant evaluation).

The tie of both paths to these models/specifications is the three-way correspondence run of checks/props/c13.py.
-/
import Tetl.C13.Spec
import TetlProofs.C13.Lemmas
import TetlProofs.C13.LemmasSafe
import TetlProofs.C13.GcemValue
import TetlProofs.C13.GcemRound
import TetlProofs.C13.FmaSqrt
import TetlProofs.C14.Props
import TetlProofs.C18.Props
namespace Tetl.C13.Props
open Tetl Tetl.C13 Tetl.C13.Spec Tetl.C13.Fmt Tetl.C13.Lemmas

/-! ## 1. the regenerated dispatch table -/

/-- Every entry of the dispatch table regenerated from the current headers is bound to one specification:
    its builtins and its callees all map to the specification of the function (`decide` over the complete table). -/
theorem dispatch_consistent : ∀ e ∈ dispatch, entryOk e = true := by decide

/-- Every two-path function named by the property is in the inventory. -/
theorem dispatch_covers_anchors : ∀ n ∈ expectedFns, n ∈ dispatch.map (·.fn) := by decide

/-- Among the entries whose two paths are live in the same program (`is_constant_evaluated()` switch), whose result is
    exactly specified and whose constant evaluation reaches tetl's/gcem's own code under GCC (`ct ≠ builtin`), the only
    one with a callee known to differ from the specification is `fma`: `x * y + z`, which since 2d96e3e serves only the
    arguments for which GCC does not fold `__builtin_fma` (finding F-c13-fma-constexpr-unfolded, §3).
    (History: `["fma"]` originally; `["fma", "fmod", "remainder"]` after the C16 fixes made fmod/remainder two-path
    functions — and `sqrt` was missing from that list only because it was labelled `approx`; since 55139da, 67c4687,
    f0dd916 these three run the builtin on both paths, see `dispatch_ct_builtin`.) -/
theorem dispatch_divergent_are_known : divergentIce dispatch = ["fma"] := by decide

/-- The entries whose constant evaluation runs the run-time builtin under GCC (a ladder of special values, then
    `if (folds or not is_constant_evaluated()) return __builtin_f(…)`) are exactly `fmod`, `remainder` and `sqrt`; for
    them "both paths agree" is the statement that the ladder agrees with the specification of the builtin
    (`sqrt_paths` below; `Tetl.C16.Props.fmodCt_eq`, `remainderCt_eq` for the other two). -/
theorem dispatch_ct_builtin : ctBuiltin dispatch = ["fmod", "remainder", "sqrt"] := by decide

/-- Every callee marked `proved` in `Spec.calleeTable` names its theorem in `Spec.proofOf`. -/
theorem proved_callees_have_theorems : provedHaveProofs = true := by decide

/-! ## 2. tetl's own code = the specification of the builtin on the other path -/

/-- (Re-export of the owning property's theorem; no proof obligation of its own) popcount: the constant-evaluated path (`detail::popcount_fallback`, Kernighan's loop) returns what
    `__builtin_popcount{,l,ll}` is specified to return, for every width and value. -/
theorem popcount_paths (w val : Nat) (hv : val < 2 ^ w) :
    C14.popcountFallback w val = .ok (C14.Spec.popcount w val) :=
  C14.Props.popcountFallback_eq w val hv
example : C14.popcountFallback 32 0xF00F0001 = .ok (C14.Spec.popcount 32 0xF00F0001) := popcount_paths 32 _ (by decide)

/-- (Re-export of the owning property's theorem; no proof obligation of its own) add_sat: the `__builtin_add_overflow` branch and `detail::add_sat_fallback` (every `if constexpr` branch, no
    intermediate overflow) return the same value, the exact sum clamped to the type. -/
theorem add_sat_paths (t : C14.ITy) (hw : 1 ≤ t.w) (x y : Int) (hx : t.inR x = true) (hy : t.inR y = true) :
    C14.addSat t x y = .ok (C14.Spec.clampTo t.min t.max (x + y)) ∧
    C14.addSatFallback t x y = C14.addSat t x y := by
  have h1 := C14.Props.addSat_eq t hw x y hx hy
  have h2 := C14.Props.addSatFallback_eq t hw x y hx hy
  exact ⟨h1, by rw [h1, h2]⟩
example : C14.addSatFallback ⟨64, true⟩ (2 ^ 63 - 1) 1 = C14.addSat ⟨64, true⟩ (2 ^ 63 - 1) 1 :=
  (add_sat_paths ⟨64, true⟩ (by decide) _ _ (by decide) (by decide)).2

/-- (Re-export of the owning property's theorem; no proof obligation of its own) byteswap, 16 bit: `detail::byteswap_fallback(uint16_t)` reverses the two bytes, what `__builtin_bswap16` is
    specified to do.  (The 32- and 64-bit overloads are covered by the correspondence run only.) -/
theorem byteswap_paths (v : Nat) (hv : v < 2 ^ 16) : C14.byteswapFallback 16 v = .ok (C14.Spec.bswap 2 v) := by
  simp [C14.byteswapFallback, bswap16_eq v hv]
example : C14.byteswapFallback 16 0x1234 = .ok (C14.Spec.bswap 2 0x1234) := byteswap_paths _ (by decide)

/-- (Re-export of the owning property's theorem; no proof obligation of its own) strlen: `detail::strlen` (the GCC branch; clang calls `__builtin_strlen`) returns the ISO C length and reads
    only inside the terminated string. -/
theorem strlen_paths (b : C18.Buf) (p : Nat) (h : C18.Spec.Terminated b p) :
    C18.strlen b p = .ok (C18.Spec.strlen b p) := C18.Props.strlen_eq b p h
example : C18.strlen [97, 98, 0, 7] 0 = .ok (C18.Spec.strlen [97, 98, 0, 7] 0) :=
  strlen_paths _ _ (by simp [C18.Spec.Terminated])

theorem strcmp_paths (ct : C18.CT) (hb : 0 < ct.bits) (a : C18.Buf) (i : Nat) (b : C18.Buf) (j : Nat)
    (ha : C18.Spec.Terminated a i) (hbt : C18.Spec.Terminated b j) (hua : C18.Spec.Units ct.bits a)
    (hub : C18.Spec.Units ct.bits b) :
    C18.strcmp ct a i b j = .ok (C18.Spec.strcmp (C18.Spec.key ct.bits ct.signedCmp) a i b j) :=
  C18.Props.strcmp_eq ct hb a i b j ha hbt hua hub
example : C18.strcmp C18.CT.char [97, 200, 0] 0 [97, 98, 0] 0
    = .ok (C18.Spec.strcmp (C18.Spec.key 8 false) [97, 200, 0] 0 [97, 98, 0] 0) :=
  strcmp_paths C18.CT.char (by decide) _ _ _ _ (by simp [C18.Spec.Terminated]) (by simp [C18.Spec.Terminated])
    (by intro x hx; simp at hx; rcases hx with rfl | rfl | rfl <;> decide)
    (by intro x hx; simp at hx; rcases hx with rfl | rfl | rfl <;> decide)

theorem strncmp_paths (ct : C18.CT) (hb : 0 < ct.bits) (a : C18.Buf) (i : Nat) (b : C18.Buf) (j n : Nat)
    (ha : C18.Spec.ReadableN a i n) (hbt : C18.Spec.ReadableN b j n) (hua : C18.Spec.Units ct.bits a)
    (hub : C18.Spec.Units ct.bits b) :
    C18.strncmp ct a i b j n = .ok (C18.Spec.strncmp (C18.Spec.key ct.bits ct.signedCmp) a i b j n) :=
  C18.Props.strncmp_eq ct hb a i b j n ha hbt hua hub
example : C18.strncmp C18.CT.char [97, 98] 0 [97, 99] 0 2
    = .ok (C18.Spec.strncmp (C18.Spec.key 8 false) [97, 98] 0 [97, 99] 0 2) :=
  strncmp_paths C18.CT.char (by decide) _ _ _ _ _ (Or.inl (by decide)) (Or.inl (by decide))
    (by intro x hx; simp at hx; rcases hx with rfl | rfl <;> decide)
    (by intro x hx; simp at hx; rcases hx with rfl | rfl <;> decide)

theorem strchr_paths (ct : C18.CT) (b : C18.Buf) (p : Nat) (ch : Int) (h : C18.Spec.Terminated b p) :
    C18.strchr ct b p ch = .ok ((C18.Spec.strchr b p (C18.Spec.toUnit ct.bits ch)).map (p + ·)) :=
  C18.Props.strchr_eq ct b p ch h
example : C18.strchr C18.CT.char [97, 98, 0] 0 (256 + 98)
    = .ok ((C18.Spec.strchr [97, 98, 0] 0 (C18.Spec.toUnit 8 (256 + 98))).map (0 + ·)) :=
  strchr_paths _ _ _ _ (by simp [C18.Spec.Terminated])

theorem memchr_paths (ct : C18.CT) (b : C18.Buf) (p : Nat) (ch : Int) (n : Nat)
    (h : p + n ≤ b.length ∨ C18.Spec.toUnit ct.bits ch ∈ b.drop p) :
    C18.memchr ct b p ch n = .ok ((C18.Spec.memchr b p (C18.Spec.toUnit ct.bits ch) n).map (p + ·)) :=
  C18.Props.memchr_eq ct b p ch n h
example : C18.memchr C18.CT.char [1, 2, 3] 0 3 3 = .ok ((C18.Spec.memchr [1, 2, 3] 0 (C18.Spec.toUnit 8 3) 3).map (0 + ·)) :=
  memchr_paths _ _ _ _ _ (Or.inl (by decide))

theorem memcmp_paths (ct : C18.CT) (hb : 0 < ct.bits) (a : C18.Buf) (i : Nat) (b : C18.Buf) (j n : Nat)
    (ha : i + n ≤ a.length) (hbt : j + n ≤ b.length) (hua : C18.Spec.Units ct.bits a) (hub : C18.Spec.Units ct.bits b) :
    C18.memcmp ct a i b j n = .ok (C18.Spec.memcmp (C18.Spec.key ct.bits ct.signedCmp) a i b j n) :=
  C18.Props.memcmp_eq ct hb a i b j n ha hbt hua hub
example : C18.memcmp C18.CT.char [1, 0, 3] 0 [1, 0, 4] 0 3
    = .ok (C18.Spec.memcmp (C18.Spec.key 8 false) [1, 0, 3] 0 [1, 0, 4] 0 3) :=
  memcmp_paths C18.CT.char (by decide) _ _ _ _ _ (by decide) (by decide)
    (by intro x hx; simp at hx; rcases hx with rfl | rfl | rfl <;> decide)
    (by intro x hx; simp at hx; rcases hx with rfl | rfl | rfl <;> decide)

/-- (Re-export of the owning property's theorem; not a constexpr function: paths selected by the preprocessor) memcpy / memmove (run time only: not usable in constant expressions; listed because the headers switch between
    a builtin and `detail::memcpy` / `detail::memmove` by compiler) -/
theorem memcpy_paths (dst : C18.Buf) (d : Nat) (src : C18.Buf) (s n : Nat) (hs : s + n ≤ src.length)
    (hroom : d + n ≤ dst.length) : C18.memcpy dst d src s n = .ok (d, C18.Spec.memcpy dst d src s n) :=
  C18.Props.memcpy_eq dst d src s n hs hroom
example : C18.memcpy [0, 0, 0] 1 [7, 8, 9] 0 2 = .ok (1, C18.Spec.memcpy [0, 0, 0] 1 [7, 8, 9] 0 2) :=
  memcpy_paths _ _ _ _ _ (by decide) (by decide)

theorem memmove_paths (b : C18.Buf) (d s n : Nat) (hs : s + n ≤ b.length) (hd : d + n ≤ b.length) :
    C18.memmove b d s n = .ok (d, C18.Spec.memmove b d s n) := C18.Props.memmove_eq b d s n hs hd
example : C18.memmove [1, 2, 3, 4] 1 0 3 = .ok (1, C18.Spec.memmove [1, 2, 3, 4] 1 0 3) :=
  memmove_paths _ _ _ _ (by decide) (by decide)

/-- isnan: the alternative `arg != arg` (IEEE comparison on the bit pattern) is true exactly for the NaN patterns,
    for every format and every pattern. -/
theorem isnan_paths (f : Fmt) (b : Nat) : Model.isnanFallback f b = f.isNaN b := by
  unfold Model.isnanFallback Fmt.feq
  cases h : f.isNaN b <;> simp

/-- copysign: `detail::copysign_fallback` (`signbit(x) != signbit(y) ? -x : x`, the constant-evaluated path)
    returns the magnitude bits of `x` under the sign bit of `y`, for every format and all patterns, zeros,
    infinities and NaNs included: what `__builtin_copysign` is specified to return. -/
theorem copysign_paths (f : Fmt) (x y : Nat) (hx : x < 2 ^ f.width) (hy : y < 2 ^ f.width) :
    Model.copysignFallback f x y = f.withSign (f.sign y) (f.absBits x) := by
  obtain ⟨hsx, hxs, _⟩ := split f x hx
  obtain ⟨hsy, _, _⟩ := split f y hy
  unfold Model.copysignFallback
  by_cases h : f.sign x = f.sign y
  · simp only [h, bne_self_eq_false, Bool.false_eq_true, if_false]
    rw [← h]; unfold Fmt.withSign; exact hxs
  · have hne : (f.sign x != f.sign y) = true := by simp [h]
    simp only [hne, if_true]
    rw [neg_eq f x hx]
    have : 1 - f.sign x = f.sign y := by omega
    rw [this]
example : Model.copysignFallback f32 0x3f800000 0x80000000 = f32.withSign (f32.sign 0x80000000) (f32.absBits 0x3f800000) :=
  copysign_paths f32 _ _ (by decide) (by decide)

/-- the specification printed by the driver agrees with it wherever the magnitude is not a NaN (a NaN result is
    canonicalised), and the fallback maps NaN magnitudes to NaNs -/
theorem copysign_spec (f : Fmt) (x y : Nat) (hx : x < 2 ^ f.width) (hy : y < 2 ^ f.width) :
    (f.isNaN x = false → Model.copysignFallback f x y = FSpec.copysign f x y) ∧
    (f.isNaN x = true → f.isNaN (Model.copysignFallback f x y) = true) := by
  have hp := copysign_paths f x y hx hy
  obtain ⟨hsy, _, _⟩ := split f y hy
  obtain ⟨_, _, habs⟩ := split f x hx
  constructor
  · intro hn; rw [hp]; unfold FSpec.copysign; simp [hn]
  · intro hn; rw [hp]; unfold Fmt.isNaN at hn ⊢
    rw [(sign_withSign f (f.sign y) (f.absBits x) hsy habs).2]; exact hn
example : Model.copysignFallback f32 0 0xbf800000 = FSpec.copysign f32 0 0xbf800000 :=
  (copysign_spec f32 _ _ (by decide) (by decide)).1 (by decide)

/-- signbit: `detail::signbit_fallback` (the alternative where `__builtin_signbit` is missing) FOR THE 4- AND 8-BYTE
    TYPES shifts the sign bit of the representation down: the specification of the builtin, for ±0 and NaNs too.
    (`f` is any format, but the code has this form only for `sizeof(T) ∈ {4, 8}`, i.e. binary32 and binary64; the
    third branch of the function — `long double` — compares values and is NOT modelled: see the harness rows
    `signbit_fb_*` and coverage.unproved_observed.)  GCC takes `__builtin_signbit` on both paths, so this code runs
    only when the harness calls `detail::signbit_fallback` directly. -/
theorem signbit_paths (f : Fmt) (b : Nat) (hb : b < 2 ^ f.width) : Model.signbitFallback f b = FSpec.signbit f b := by
  have hW := signW_pos f
  rw [two_signW] at hb
  have hq : b / f.signW < 2 := (Nat.div_lt_iff_lt_mul hW).2 (by omega)
  unfold Model.signbitFallback FSpec.signbit Fmt.sign
  generalize b / f.signW = q at *
  have : q = 0 ∨ q = 1 := by omega
  rcases this with rfl | rfl <;> decide
example : Model.signbitFallback f32 0xffc00000 = FSpec.signbit f32 0xffc00000 := signbit_paths f32 _ (by decide)

/-- signbit (a builtin on both paths since the fix): the specification is the sign bit, and negation flips it —
    for zeros and NaNs too -/
theorem signbit_neg (f : Fmt) (b : Nat) (hb : b < 2 ^ f.width) :
    FSpec.signbit f (f.neg b) = !FSpec.signbit f b := by
  obtain ⟨hs, _, habs⟩ := split f b hb
  unfold FSpec.signbit
  rw [neg_eq f b hb, (sign_withSign f (1 - f.sign b) (f.absBits b) (by omega) habs).1]
  rcases hs with h | h <;> simp [h]
example : FSpec.signbit f64 (f64.neg 0) = !FSpec.signbit f64 0 := signbit_neg f64 0 (by decide)

/-! ## 2a. the constant-evaluated rounding functions: gcem's code computes the specification of the builtin

`Model.gcemFloor` … model gcem's `floor_check` … operation by operation (every comparison, the conversion to
`long long`, every floating-point subtraction / addition with its IEEE rounding).  For every pattern of a standard
format they return — without reaching an out-of-range conversion — the bit-level specification `FSpec.roundTo`, which
is what `__builtin_floor{f,}` … on the run-time path are bound to.  (`FSpec.roundTo` is proved equal to property
C16's specification in TetlProofs/C16/Bridge.lean, and that one is proved to be ⌊x⌋, ⌈x⌉, … in TetlProofs/C16.) -/
theorem floor_paths (f : Fmt) (h : Std f) (b : Nat) (hb : b < 2 ^ f.width) :
    Model.gcemFloor f b = .ok (FSpec.roundTo f .floor b) := gcemFloor_value f h b hb
example : Model.gcemFloor f32 0xaedbe6ff = .ok (FSpec.roundTo f32 .floor 0xaedbe6ff) := floor_paths f32 std_f32 _ (by decide)
theorem ceil_paths (f : Fmt) (h : Std f) (b : Nat) (hb : b < 2 ^ f.width) :
    Model.gcemCeil f b = .ok (FSpec.roundTo f .ceil b) := gcemCeil_value f h b hb
example : Model.gcemCeil f32 0xbf000000 = .ok (FSpec.roundTo f32 .ceil 0xbf000000) := ceil_paths f32 std_f32 _ (by decide)
theorem trunc_paths (f : Fmt) (h : Std f) (b : Nat) (hb : b < 2 ^ f.width) :
    Model.gcemTrunc f b = .ok (FSpec.roundTo f .trunc b) := gcemTrunc_value f h b hb
example : Model.gcemTrunc f64 0xC3E0000000000001 = .ok (FSpec.roundTo f64 .trunc 0xC3E0000000000001) :=
  trunc_paths f64 std_f64 _ (by decide)
/-- gcem::round (`sgn(x) * T(find_whole(abs(x)))`, `find_whole` through `floor_check`, a float subtraction, the
    comparison with 0.5 and two conversions to `long long`).  `2 ≤ bias`: 0.5 is a normal number (binary32, binary64;
    false for the toy format (2,1), see the `decide` example in TetlProofs/C13/GcemRound.lean). -/
theorem round_paths (f : Fmt) (h : Std f) (h2 : 2 ≤ f.bias) (b : Nat) (hb : b < 2 ^ f.width) :
    Model.gcemRound f b = .ok (FSpec.roundTo f .round b) := gcemRound_value f h h2 b hb
example : Model.gcemRound f32 0x3effffff = .ok (FSpec.roundTo f32 .round 0x3effffff) :=
  round_paths f32 std_f32 bias2_f32 _ (by decide)
/-! ## 2b. constant evaluation succeeds on the whole domain (model level): no conversion to `long long` out of range

`Std f` holds for binary32 and binary64 (`std_f32`, `std_f64`).  Before the fixes of fix-c13 these statements were
false: `floor(1e30f)` converted 1e30 to `long long` (see known_findings.d/C13.json). -/
/-- gcem::floor never leaves the constant-expression subset: for every pattern of a standard format the model
    returns `.ok` (no `long long` conversion out of range) -/
theorem gcemFloor_total (f : Fmt) (h : Std f) (b : Nat) (hb : b < 2 ^ f.width) : ∃ v, Model.gcemFloor f b = .ok v := by
  unfold Model.gcemFloor
  rcases check_cases f h b hb _ with hv | ⟨hk, hfin, hsmall⟩
  · exact hv
  · rw [hk, toLL_ok_of_small f h b hfin hsmall]; exact ⟨_, rfl⟩
example : ∃ v, Model.gcemFloor f32 0x7149f2ca = .ok v := gcemFloor_total f32 std_f32 _ (by decide)
example : ∃ v, Model.gcemFloor f64 0xC3E0000000000001 = .ok v := gcemFloor_total f64 std_f64 _ (by decide)

/-- gcem::ceil (both paths of `etl::ceil`): total likewise, so the run-time path has no `long long` overflow either -/
theorem gcemCeil_total (f : Fmt) (h : Std f) (b : Nat) (hb : b < 2 ^ f.width) : ∃ v, Model.gcemCeil f b = .ok v := by
  unfold Model.gcemCeil
  rcases check_cases f h b hb _ with hv | ⟨hk, hfin, hsmall⟩
  · exact hv
  · rw [hk, toLL_ok_of_small f h b hfin hsmall]
    simp only [bind, Except.bind]
    split <;> exact ⟨_, rfl⟩
example : ∃ v, Model.gcemCeil f32 0x7149f2ca = .ok v := gcemCeil_total f32 std_f32 _ (by decide)
example : ∃ v, Model.gcemCeil f64 0xC3E0000000000001 = .ok v := gcemCeil_total f64 std_f64 _ (by decide)

/-- gcem::trunc: total, including the conversion of `-x` on the negative branch -/
theorem gcemTrunc_total (f : Fmt) (h : Std f) (b : Nat) (hb : b < 2 ^ f.width) : ∃ v, Model.gcemTrunc f b = .ok v := by
  unfold Model.gcemTrunc
  rcases check_cases f h b hb _ with hv | ⟨hk, hfin, hsmall⟩
  · exact hv
  · rw [hk]
    have hfinN : f.isFinite (f.neg b) = true := by
      obtain ⟨hs, _, habs⟩ := split f b hb
      unfold Fmt.isFinite at hfin ⊢
      rw [neg_eq f b hb, (sign_withSign f _ _ (by omega) habs).2]; exact hfin
    have hsmallN : f.mag (f.neg b) < 2 ^ f.mbits * 2 ^ f.U := by rw [mag_neg f b hb]; exact hsmall
    split
    · rw [toLL_ok_of_small f h _ hfinN hsmallN]; exact ⟨_, rfl⟩
    · rw [toLL_ok_of_small f h b hfin hsmall]; exact ⟨_, rfl⟩
example : ∃ v, Model.gcemTrunc f32 0x7149f2ca = .ok v := gcemTrunc_total f32 std_f32 _ (by decide)
example : ∃ v, Model.gcemTrunc f64 0xC3E0000000000001 = .ok v := gcemTrunc_total f64 std_f64 _ (by decide)



/-- `detail::rint_fallback` never leaves the constant-expression subset -/
theorem rintFallback_total (f : Fmt) (h : Std f) (b : Nat) (hb : b < 2 ^ f.width) :
    ∃ v, Model.rintFallback f b = .ok v := by
  unfold Model.rintFallback
  cases hg : (f.lt (f.neg (Model.big f)) b && f.lt b (Model.big f))
  · exact ⟨b, by simp⟩
  · simp only [Bool.not_true, Bool.false_eq_true, if_false]
    obtain ⟨hB1, hB2, hB3, hB4, hB5⟩ := big_facts f h
    have hinf := inf_pos f h
    obtain ⟨hs, _, habs⟩ := split f b hb
    obtain ⟨P, hP⟩ : ∃ P, P = 2 ^ f.mbits * 2 ^ f.U := ⟨_, rfl⟩
    rw [← hP] at hB5
    rw [Bool.and_eq_true] at hg
    obtain ⟨hl1, hl2⟩ := hg
    have hnanB : f.isNaN (Model.big f) = false := by unfold Fmt.isNaN; simp [hB3]; omega
    have hinfB : f.isInf (Model.big f) = false := by unfold Fmt.isInf; simp [hB3]; omega
    have hnan : f.isNaN b = false := by
      cases hn : f.isNaN b
      · rfl
      · unfold Fmt.lt at hl2; simp [hn] at hl2
    have hBw : Model.big f < 2 ^ f.width := by rw [two_signW]; omega
    have hnegB := neg_eq f (Model.big f) hBw
    rw [hB4, hB3] at hnegB
    simp only [Nat.sub_zero] at hnegB
    have hswB := sign_withSign f 1 (Model.big f) (Or.inr rfl) (by omega)
    have hnanNB : f.isNaN (f.neg (Model.big f)) = false := by
      unfold Fmt.isNaN; rw [hnegB, hswB.2]; simp; omega
    have hinfNB : f.isInf (f.neg (Model.big f)) = false := by
      unfold Fmt.isInf; rw [hnegB, hswB.2]; simp; omega
    have hsNB : f.smag (f.neg (Model.big f)) = -(P : Int) := by
      unfold Fmt.smag; rw [mag_neg f _ hBw, hnegB, hswB.1, hB5]; simp
    have hsB : f.smag (Model.big f) = (P : Int) := by unfold Fmt.smag; simp [hB4, hB5]
    -- an infinite b fails one of the two comparisons
    have hinfb : f.isInf b = false := by
      cases hi : f.isInf b
      · rfl
      · unfold Fmt.lt at hl1 hl2
        simp [hnan, hnanB, hnanNB, hi, hinfB, hinfNB] at hl1 hl2
        rcases hs with h0 | h0 <;> simp [h0] at hl1 hl2
    have hfin : f.isFinite b = true := by
      unfold Fmt.isNaN at hnan; unfold Fmt.isInf at hinfb; unfold Fmt.isFinite
      simp at hnan hinfb ⊢; omega
    unfold Fmt.lt at hl1 hl2
    simp [hnan, hnanB, hnanNB, hinfb, hinfB, hinfNB, hsNB, hsB] at hl1 hl2
    have hsmall : f.mag b < P := by
      unfold Fmt.smag at hl1 hl2
      rcases hs with h0 | h0 <;> simp [h0] at hl1 hl2 <;> omega
    rw [toLL_ok_of_small f h b hfin (by rw [← hP]; exact hsmall)]
    simp only [bind, Except.bind]
    exact ite_ok _ _ _
example : ∃ v, Model.rintFallback f32 0x7149f2ca = .ok v := rintFallback_total f32 std_f32 _ (by decide)
example : ∃ v, Model.rintFallback f64 0xC3E0000000000001 = .ok v := rintFallback_total f64 std_f64 _ (by decide)

/-- sqrt (the sqrt builtin on both paths under GCC since 55139da): the special-value ladder that constant
    evaluation runs in front of the builtin (`arg != arg or arg == +inf` ↦ arg, `arg < 0` ↦ NaN; GCC folds the builtin
    for the remaining arguments) agrees with the specification of the builtin — the correctly rounded root
    `FSpec.sqrt` — for every pattern of every standard format (`Std f`; false for the degenerate `ebits = 0`, where −0
    is also an infinity); a NaN argument is returned unchanged. -/
theorem sqrt_paths (f : Fmt) (h : Std f) (b : Nat) (hb : b < 2 ^ f.width) :
    (f.isNaN b = false → Model.sqrtCt f b = FSpec.sqrt f b) ∧ (f.isNaN b = true → Model.sqrtCt f b = b) :=
  FmaSqrt.sqrtCt_eq f h b hb
example : Model.sqrtCt f32 0x0da24260 = FSpec.sqrt f32 0x0da24260 := (sqrt_paths f32 std_f32 _ (by decide)).1 (by decide)
example : Model.sqrtCt f32 0xff800000 = FSpec.sqrt f32 0xff800000 := (sqrt_paths f32 std_f32 _ (by decide)).1 (by decide)

/-! ## 3. the known divergence: fma in constant evaluation (F-c13-fma-constexpr-unfolded)

Since 2d96e3e the constant-evaluated path is `__builtin_fma` wherever GCC folds it (`Model.gccFoldsFma`: finite
arguments and a result that is a value of the format after one rounding) and `x * y + z` elsewhere (`Model.fmaCt`).
The former finding (every double rounding) is fixed; what remains is the class `FmaSqrt.FmaResidual`. -/

/-- the excluded input class, defined on the ARGUMENTS (not by comparing the two results): GCC does not fold the builtin
    and x, y are finite with z finite or the rounded product overflowing, or inf·0 meets a NaN addend -/
abbrev FmaResidual := FmaSqrt.FmaResidual

/-- outside the class, wherever the fused result is defined (no invalid operation among non-NaN arguments), the
    constant-evaluated path IS a constant expression and returns the value of the run-time path (`__builtin_fma`,
    specified as the fused operation): for every format, all patterns, NaNs and infinities included -/
theorem fma_paths_partial (f : Fmt) (h : Std f) (x y z : Nat) (hx : x < 2 ^ f.width) (hy : y < 2 ^ f.width)
    (hz : z < 2 ^ f.width) (hres : FmaResidual f x y z = false)
    (hdef : (f.isNaN x || f.isNaN y || f.isNaN z) = false → f.isNaN (f.fma x y z) = false) :
    Model.fmaCt f x y z = .ok (f.fma x y z) :=
  FmaSqrt.fmaCt_eq f h x y z hx hy hz hres hdef
-- the former double-rounding witness (1+2^-23)·(1+2^-23) − (1+2^-22) is outside the class and now fused
example : Model.fmaCt f32 0x3f800001 0x3f800001 0xbf800002 = .ok 0x28800000 :=
  fma_paths_partial f32 std_f32 _ _ _ (by decide) (by decide) (by decide) (by decide +kernel) (by decide +kernel)
-- a non-finite argument
example : Model.fmaCt f32 0x7f800000 0x3f800000 0x3f800000 = .ok (f32.fma 0x7f800000 0x3f800000 0x3f800000) :=
  fma_paths_partial f32 std_f32 _ _ _ (by decide) (by decide) (by decide) (by decide +kernel) (by decide +kernel)

/-- the class contains a failing input: 2^-75 · 2^-75 + 2^-149 is exactly 1.5 units of the last place of the subnormal
    range; fused it rounds to 2 units, GCC does not fold it, and x*y+z rounds the product to 0 first: 1 unit -/
theorem fma_paths_counterexample :
    FmaResidual f32 0x1a000000 0x1a000000 1 = true ∧
    (Model.fmaCt f32 0x1a000000 0x1a000000 1).toOption = some 1 ∧ f32.fma 0x1a000000 0x1a000000 1 = 2 :=
  FmaSqrt.fma_unfolded_witness

/-- … and an input inside the domain for which constant evaluation FAILS: 2^127 · 2^127 + (−inf) is −inf fused, but the
    product overflows in x*y+z (not a constant expression) -/
theorem fma_ct_fails_counterexample :
    FmaResidual f32 0x7f000000 0x7f000000 0xff800000 = true ∧
    (Model.fmaCt f32 0x7f000000 0x7f000000 0xff800000).toOption = none ∧
    f32.fma 0x7f000000 0x7f000000 0xff800000 = 0xff800000 :=
  FmaSqrt.fma_ct_fails_witness

end Tetl.C13.Props
