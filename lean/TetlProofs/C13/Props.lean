/- C13 property theorems. -/
import TetlProofs.C13.Lemmas
namespace Tetl.C13.Props
open Tetl.C13 Tetl.C13.Spec

/-- Every entry of the dispatch table regenerated from the current headers is bound to one specification. -/
theorem dispatch_consistent : ∀ e ∈ dispatch, entryOk e = true := by decide

end Tetl.C13.Props
