/- C13: `gcem::round` (`round_check` / `find_whole`) returns the value of the bit-level specification `roundTo .round` -/
import TetlProofs.C13.GcemRoundBase
namespace Tetl.C13.Lemmas.Round
open Tetl Tetl.C13 Tetl.C13.Fmt Tetl.C13.Lemmas

/-- a finite non-zero pattern below 2^mbits passes all guards of `check` -/
theorem check_pass (f : Fmt) (h : Std f) (b : Nat) (hb : b < 2 ^ f.width) (hfin : f.isFinite b = true)
    (hm0 : 0 < f.mag b) (hmP : f.mag b < 2 ^ f.mbits * 2 ^ f.U) (k : Except Err Nat) : Model.check f b k = k := by
  rcases check_sharp f h b hb k with ⟨hn, _⟩ | ⟨_, hi, _⟩ | ⟨_, hm, _⟩ | ⟨_, hc, _⟩ | ⟨_, _, _, hk⟩
  · rw [(fin_facts f b hfin).1] at hn; cases hn
  · rw [(fin_facts f b hfin).2] at hi; cases hi
  · omega
  · omega
  · exact hk

/-- `gcem::floor` of a positive non-integral-range value is its integer part -/
theorem gcemFloor_pos (f : Fmt) (h : Std f) (a : Nat) (ha : a < f.inf) (hm0 : 0 < f.mag a)
    (hmP : f.mag a < 2 ^ f.mbits * 2 ^ f.U) :
    Model.gcemFloor f a = .ok (f.roundUnits (f.mag a / 2 ^ f.U) f.U) := by
  obtain ⟨q1, q2, q3, q4, q5⟩ := pos_facts f h a ha
  have hone : 0 < 2 ^ f.U := Nat.pow_pos (by decide)
  have hip : f.mag a / 2 ^ f.U < 2 ^ f.mbits := (Nat.div_lt_iff_lt_mul hone).2 hmP
  obtain ⟨hfl, hflm⟩ := roundUnits_int f h _ (Nat.le_of_lt hip)
  have htr : f.truncInt a = ((f.mag a / 2 ^ f.U : Nat) : Int) := by unfold Fmt.truncInt; rw [q2]; simp
  have hlt0 : f.lt a 0 = false := by
    rw [lt_fin f a 0 q4 (fin_zero f h), q5, (zero_facts f).2.2.2]; simp
  unfold Model.gcemFloor
  rw [check_pass f h a q1 q4 hm0 hmP, toLL_ok_of_small f h a q4 hmP]
  simp only [bind, Except.bind]
  rw [htr, ofInt_nat, hlt0]
  simp only [Bool.false_and, Bool.false_eq_true, if_false]
  rw [ofInt_zero, sub_exact f h _ 0 _ hfl (inf_pos f h) hfl (by rw [(zero_facts f).2.2.1]; omega)]

/-- `find_whole` of a positive value below 2^mbits: the integer part, plus one when the fraction is at least 1/2 -/
theorem findWhole_pos (f : Fmt) (h : Std f) (h2 : 2 ≤ f.bias) (a : Nat) (ha : a < f.inf) (hm0 : 0 < f.mag a)
    (hmP : f.mag a < 2 ^ f.mbits * 2 ^ f.U) :
    Model.findWhole f a =
      .ok (((if 2 * (f.mag a % 2 ^ f.U) ≥ 2 ^ f.U then f.mag a / 2 ^ f.U + 1 else f.mag a / 2 ^ f.U : Nat)) : Int) := by
  obtain ⟨q1, q2, q3, q4, q5⟩ := pos_facts f h a ha
  have hone : 0 < 2 ^ f.U := Nat.pow_pos (by decide)
  have hip : f.mag a / 2 ^ f.U < 2 ^ f.mbits := (Nat.div_lt_iff_lt_mul hone).2 hmP
  obtain ⟨hfl, hflm⟩ := roundUnits_int f h _ (Nat.le_of_lt hip)
  obtain ⟨fl1, fl2, fl3, fl4, fl5⟩ := pos_facts f h _ hfl
  obtain ⟨pf, hpf, hpfm⟩ := frac_repr f h a ha f.U
  obtain ⟨p1, p2, p3, p4, p5⟩ := pos_facts f h pf hpf
  obtain ⟨hh, hhm⟩ := half_facts f h h2
  obtain ⟨r1, r2, r3, r4, r5⟩ := pos_facts f h _ hh
  have hsub : f.sub a (f.roundUnits (f.mag a / 2 ^ f.U) f.U) = pf :=
    sub_exact f h a _ pf ha hfl hpf (by rw [hflm, hpfm]; exact (Nat.div_add_mod' _ _).symm)
  have hge : Model.ge f pf (Model.half f) = decide (2 * (f.mag a % 2 ^ f.U) ≥ 2 ^ f.U) := by
    unfold Model.ge
    rw [lt_fin f _ _ r4 p4, feq_fin f _ _ p4 r4, p5, r5, hpfm]
    generalize f.mag a % 2 ^ f.U = fr at *
    generalize f.mag (Model.half f) = mh at *
    generalize 2 ^ f.U = one at *
    by_cases hc : 2 * fr ≥ one
    · simp [hc]; omega
    · simp [hc]; omega
  unfold Model.findWhole
  rw [gcemFloor_pos f h a ha hm0 hmP]
  simp only [bind, Except.bind]
  rw [hsub, gabs_pos f h pf hpf, hge]
  by_cases hc : 2 * (f.mag a % 2 ^ f.U) ≥ 2 ^ f.U
  · rw [if_pos hc]
    simp only [decide_eq_true hc, if_true]
    have hsg : Model.sgn f a = 1 := by rw [(gabs_sgn f h a q1 q4 hm0).2, q2]; simp
    have ho1 : f.ofInt 1 = f.roundUnits 1 f.U := ofInt_nat f 1
    have hM1 : 1 ≤ 2 ^ f.mbits := Nat.pow_pos (by decide)
    obtain ⟨o1, o2⟩ := roundUnits_int f h 1 hM1
    obtain ⟨s1, s2, s3, s4, s5⟩ := pos_facts f h _ o1
    obtain ⟨t1, t2⟩ := roundUnits_int f h (f.mag a / 2 ^ f.U + 1) hip
    rw [hsg, ho1, add_exact f h _ _ _ fl4 s4 t1 (by rw [fl5, s5, hflm, o2, t2, Nat.add_mul]; simp) fl2]
    exact toLL_int f h _ hip
  · rw [if_neg hc]
    simp only [decide_eq_false hc, Bool.false_eq_true, if_false]
    exact toLL_int f h _ (Nat.le_of_lt hip)

/-- `±1 · w` for an integer `w ≤ 2^mbits` -/
theorem mul_sign_int (f : Fmt) (h : Std f) (s : Nat) (hs : s = 0 ∨ s = 1) (w : Nat) (hw : w ≤ 2 ^ f.mbits) :
    f.mul (f.withSign s (f.roundUnits 1 f.U)) (f.roundUnits w f.U) = f.withSign s (f.roundUnits w f.U) := by
  obtain ⟨_, hB2, _⟩ := big_facts f h
  have hM1 : 1 ≤ 2 ^ f.mbits := Nat.pow_pos (by decide)
  obtain ⟨o1, o2⟩ := roundUnits_int f h 1 hM1
  obtain ⟨w1, w2⟩ := roundUnits_int f h w hw
  obtain ⟨p1, p2, p3, p4, p5⟩ := pos_facts f h _ w1
  obtain ⟨x1, x2⟩ := sign_withSign f s _ hs (show f.roundUnits 1 f.U < f.signW by omega)
  have xm := mag_withSign f s _ hs (show f.roundUnits 1 f.U < f.signW by omega)
  have xfin : f.isFinite (f.withSign s (f.roundUnits 1 f.U)) = true := by
    unfold Fmt.isFinite; rw [x2]; simpa using o1
  obtain ⟨xn, xi⟩ := fin_facts f _ xfin
  obtain ⟨wn, wi⟩ := fin_facts f _ p4
  have hU : 1 ≤ f.U := by have := h.mbits1; unfold Fmt.U; omega
  have hru : f.roundUnits (2 ^ f.U * (w * 2 ^ f.U)) (-(f.U : Int)) = f.roundUnits w f.U :=
    roundUnits_exact f h _ w1 _ _ ⟨fun hc => by omega, fun _ => by rw [w2, Nat.mul_comm]; simp⟩
  unfold Fmt.mul
  simp only [xn, xi, wn, wi, Bool.or_self, Bool.false_eq_true, if_false]
  rw [x1, p2, xm, o2, w2, Nat.one_mul, hru, Nat.add_zero]
  rcases hs with rfl | rfl <;> rfl

end Tetl.C13.Lemmas.Round

namespace Tetl.C13.Lemmas
open Tetl Tetl.C13 Tetl.C13.Fmt Tetl.C13.Lemmas.Round

/-- `gcem::round` = the bit-level specification of `round` (half away from zero, sign of the argument kept), without
    undefined behaviour, for every pattern of a standard format with bias ≥ 2 (`T(0.5)` is the pattern `half f` only
    then; the statement is false for the format (2,1), bias 1: `gcemRound ⟨2,1⟩ 2 = .ok 4`). -/
theorem gcemRound_value (f : Fmt) (h : Std f) (h2 : 2 ≤ f.bias) (b : Nat) (hb : b < 2 ^ f.width) :
    Model.gcemRound f b = .ok (FSpec.roundTo f .round b) := by
  obtain ⟨hs, hsplit, habs⟩ := split f b hb
  have hM : 0 < 2 ^ f.mbits := Nat.pow_pos (by decide)
  have hone : 0 < 2 ^ f.U := Nat.pow_pos (by decide)
  have hexp : f.expo (f.absBits b) = f.expo b := by unfold Fmt.expo; rw [absBits_absBits]
  unfold Model.gcemRound
  rcases check_sharp f h b hb _ with ⟨hn, hk⟩ | ⟨hn, hi, hk⟩ | ⟨hfin, hm, hk⟩ | ⟨hfin, hc, hk⟩ | ⟨hfin, hm0, hmP, hk⟩
  · rw [hk]; unfold FSpec.roundTo; rw [if_pos hn]
  · rw [hk]; unfold FSpec.roundTo
    have he : f.expo b ≥ f.bias + f.mbits := by
      unfold Fmt.isInf at hi
      have : f.absBits b = f.inf := by simpa using hi
      unfold Fmt.expo; rw [this]; unfold Fmt.inf
      rw [Nat.mul_div_cancel _ hM]; have := h.room; omega
    rw [if_neg (by rw [hn]; simp), if_pos he]
  · rw [hk]
    have hlt : f.absBits b < f.inf := by unfold Fmt.isFinite at hfin; simpa using hfin
    have ha0 : f.absBits b = 0 := mag_eq_zero f h _ hlt (by rw [mag_absBits]; exact hm)
    have he : ¬ f.expo b ≥ f.bias + f.mbits := by
      unfold Fmt.expo; rw [ha0, Nat.zero_div]; have := h.bias1; omega
    unfold FSpec.roundTo
    rw [if_neg (by rw [(fin_facts f b hfin).1]; simp), if_neg he]
    simp only [hm, Nat.zero_div, Nat.zero_mod]
    have hr : FSpec.roundedMag .round (f.sign b == 1) 0 0 (2 ^ f.U) = 0 := by
      show (if 2 * 0 ≥ 2 ^ f.U then 0 + 1 else 0) = 0
      rw [if_neg (by omega)]
    have hz : f.roundUnits 0 f.U = 0 := by unfold Fmt.roundUnits; simp
    rw [hr, hz]; unfold Fmt.withSign; rw [Nat.add_zero]; congr 1; omega
  · rw [hk]
    have hlt : f.absBits b < f.inf := by unfold Fmt.isFinite at hfin; simpa using hfin
    have he : f.expo b ≥ f.bias + f.mbits := by
      rw [← hexp]; exact (expo_ge_iff f h _ hlt).2 (by rw [mag_absBits]; exact hc)
    unfold FSpec.roundTo
    rw [if_neg (by rw [(fin_facts f b hfin).1]; simp), if_pos he]
  · rw [hk]
    have hlt : f.absBits b < f.inf := by unfold Fmt.isFinite at hfin; simpa using hfin
    have he : ¬ f.expo b ≥ f.bias + f.mbits := by
      rw [← hexp]; intro hc
      have := (expo_ge_iff f h _ hlt).1 hc
      rw [mag_absBits] at this; omega
    obtain ⟨hga, hsg⟩ := gabs_sgn f h b hb hfin hm0
    have hfw := findWhole_pos f h h2 _ hlt (by rw [mag_absBits]; exact hm0) (by rw [mag_absBits]; exact hmP)
    rw [mag_absBits] at hfw
    rw [hga, hfw]
    simp only [bind, Except.bind]
    have hnn : ¬ (f.isNaN b = true) := by rw [(fin_facts f b hfin).1]; simp
    have hspec : FSpec.roundTo f .round b = f.withSign (f.sign b) (f.roundUnits
        (if 2 * (f.mag b % 2 ^ f.U) ≥ 2 ^ f.U then f.mag b / 2 ^ f.U + 1 else f.mag b / 2 ^ f.U) f.U) := by
      unfold FSpec.roundTo
      rw [if_neg hnn, if_neg he]; rfl
    rw [hspec]
    have hip : f.mag b / 2 ^ f.U < 2 ^ f.mbits := (Nat.div_lt_iff_lt_mul hone).2 hmP
    generalize hw : (if 2 * (f.mag b % 2 ^ f.U) ≥ 2 ^ f.U then f.mag b / 2 ^ f.U + 1 else f.mag b / 2 ^ f.U) = w
    have hwM : w ≤ 2 ^ f.mbits := by rw [← hw]; split <;> omega
    have hso : f.ofInt (Model.sgn f b) = f.withSign (f.sign b) (f.roundUnits 1 f.U) := by
      rw [hsg]
      rcases hs with h0 | h1
      · rw [h0]; simp only [Nat.zero_ne_one, if_false]
        rw [show f.ofInt 1 = f.roundUnits 1 f.U from ofInt_nat f 1]; unfold Fmt.withSign; omega
      · rw [h1]; simp only [if_true]
        unfold Fmt.ofInt; rw [if_pos (by decide)]; rfl
    rw [hso, ofInt_nat, mul_sign_int f h _ hs w hwM]

/-- binary32 and binary64 satisfy the extra hypothesis -/
theorem bias2_f32 : 2 ≤ f32.bias := by decide
theorem bias2_f64 : 2 ≤ f64.bias := by decide

/-- the hypothesis `2 ≤ bias` cannot be dropped: the format (2,1) is `Std` and `gcem::round(1.0)` would be 2.0 -/
example : Std ⟨2, 1⟩ ∧ (match Model.gcemRound ⟨2, 1⟩ 2 with | .ok v => v == 4 | .error _ => false) = true ∧
    FSpec.roundTo ⟨2, 1⟩ .round 2 = 2 :=
  ⟨⟨by decide, by decide, by decide, by decide⟩, by decide, by decide⟩

example : Model.gcemRound f32 0x3f000000 = .ok (FSpec.roundTo f32 .round 0x3f000000) :=
  gcemRound_value f32 std_f32 (by decide) _ (by decide)
example : Model.gcemRound f64 0xC004000000000000 = .ok (FSpec.roundTo f64 .round 0xC004000000000000) :=
  gcemRound_value f64 std_f64 (by decide) _ (by decide)

end Tetl.C13.Lemmas
