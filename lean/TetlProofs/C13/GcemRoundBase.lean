/- C13 helper lemmas, part 3: facts on finite patterns, sharp form of `check`, representable magnitudes, exact additions -/
import TetlProofs.C13.RoundUnits
namespace Tetl.C13.Lemmas.Round
open Tetl Tetl.C13 Tetl.C13.Fmt Tetl.C13.Lemmas

theorem fin_facts (f : Fmt) (b : Nat) (hfin : f.isFinite b = true) :
    f.isNaN b = false ∧ f.isInf b = false := by
  unfold Fmt.isFinite at hfin; unfold Fmt.isNaN Fmt.isInf
  simp at hfin ⊢; omega

theorem lt_fin (f : Fmt) (a b : Nat) (ha : f.isFinite a = true) (hb : f.isFinite b = true) :
    f.lt a b = decide (f.smag a < f.smag b) := by
  obtain ⟨h1, h2⟩ := fin_facts f a ha
  obtain ⟨h3, h4⟩ := fin_facts f b hb
  unfold Fmt.lt; simp [h1, h2, h3, h4]

theorem feq_fin (f : Fmt) (a b : Nat) (ha : f.isFinite a = true) (hb : f.isFinite b = true) :
    f.feq a b = (f.smag a == f.smag b) := by
  obtain ⟨h1, h2⟩ := fin_facts f a ha
  obtain ⟨h3, h4⟩ := fin_facts f b hb
  unfold Fmt.feq; simp [h1, h2, h3, h4]

theorem fin_zero (f : Fmt) (h : Std f) : f.isFinite 0 = true := by
  have := inf_pos f h
  unfold Fmt.isFinite; simp [(zero_facts f).1]; omega

/-- a pattern below `inf` is a positive finite pattern -/
theorem pos_facts (f : Fmt) (h : Std f) (p : Nat) (hp : p < f.inf) :
    p < 2 ^ f.width ∧ f.sign p = 0 ∧ f.absBits p = p ∧ f.isFinite p = true ∧ f.smag p = (f.mag p : Int) := by
  obtain ⟨_, hB2, _⟩ := big_facts f h
  have hlt : p < f.signW := by omega
  have h1 : f.sign p = 0 := by unfold Fmt.sign; rw [Nat.div_eq_of_lt hlt]
  have h2 : f.absBits p = p := by unfold Fmt.absBits; exact Nat.mod_eq_of_lt hlt
  refine ⟨by rw [two_signW]; omega, h1, h2, ?_, ?_⟩
  · unfold Fmt.isFinite; simp [h2]; omega
  · unfold Fmt.smag; simp [h1]

/-- the negation of a positive finite pattern -/
theorem neg_pos_facts (f : Fmt) (h : Std f) (p : Nat) (hp : p < f.inf) :
    f.neg p < 2 ^ f.width ∧ f.sign (f.neg p) = 1 ∧ f.isFinite (f.neg p) = true ∧ f.smag (f.neg p) = -(f.mag p : Int) := by
  obtain ⟨_, hB2, _⟩ := big_facts f h
  obtain ⟨q1, q2, q3, q4, q5⟩ := pos_facts f h p hp
  have hlt : p < f.signW := by omega
  have hn : f.neg p = f.withSign 1 p := by rw [neg_eq f p q1, q2, q3]
  obtain ⟨s1, s2⟩ := sign_withSign f 1 p (Or.inr rfl) hlt
  refine ⟨?_, by rw [hn, s1], ?_, ?_⟩
  · rw [hn, two_signW]; unfold Fmt.withSign; omega
  · unfold Fmt.isFinite; rw [hn, s2]; simp; omega
  · unfold Fmt.smag; rw [mag_neg f p q1, hn, s1]; simp

/-- a signed pattern: sign and signed magnitude -/
theorem smag_cases (f : Fmt) (b : Nat) (hb : b < 2 ^ f.width) :
    (f.sign b = 0 ∧ f.smag b = (f.mag b : Int)) ∨ (f.sign b = 1 ∧ f.smag b = -(f.mag b : Int)) := by
  obtain ⟨hs, _, _⟩ := split f b hb
  unfold Fmt.smag
  rcases hs with h0 | h1
  · left; simp [h0]
  · right; simp [h1]

/-- exponent field and fraction field of a positive finite pattern -/
theorem fields_pos (f : Fmt) (h : Std f) (p : Nat) (hp : p < f.inf) :
    f.expo p < f.emax ∧ f.mant p < 2 ^ f.mbits ∧
    f.mag p = if f.expo p = 0 then f.mant p else (2 ^ f.mbits + f.mant p) * 2 ^ (f.expo p - 1) := by
  have hM : 0 < 2 ^ f.mbits := Nat.pow_pos (by decide)
  obtain ⟨_, _, q3, _, _⟩ := pos_facts f h p hp
  refine ⟨?_, ?_, rfl⟩
  · unfold Fmt.expo; rw [q3]; unfold Fmt.inf at hp
    exact (Nat.div_lt_iff_lt_mul hM).2 hp
  · unfold Fmt.mant; exact Nat.mod_lt _ hM

/-- the pattern with exponent field `e` and fraction field `r` -/
theorem mag_mk (f : Fmt) (h : Std f) (e r : Nat) (hr : r < 2 ^ f.mbits) (he : e < f.emax) :
    e * 2 ^ f.mbits + r < f.inf ∧
    f.mag (e * 2 ^ f.mbits + r) = if e = 0 then r else (2 ^ f.mbits + r) * 2 ^ (e - 1) := by
  have hM : 0 < 2 ^ f.mbits := Nat.pow_pos (by decide)
  have hlt : e * 2 ^ f.mbits + r < f.inf := by
    unfold Fmt.inf
    have : (e + 1) * 2 ^ f.mbits ≤ f.emax * 2 ^ f.mbits := Nat.mul_le_mul_right _ he
    rw [Nat.add_mul] at this; omega
  obtain ⟨_, _, q3, _, _⟩ := pos_facts f h _ hlt
  have he' : f.expo (e * 2 ^ f.mbits + r) = e := by
    unfold Fmt.expo; rw [q3, Nat.mul_comm, Nat.mul_add_div hM, Nat.div_eq_of_lt hr]; rfl
  have hm' : f.mant (e * 2 ^ f.mbits + r) = r := by
    unfold Fmt.mant; rw [Nat.mul_comm, Nat.mul_add_mod, Nat.mod_eq_of_lt hr]
  refine ⟨hlt, ?_⟩
  unfold Fmt.mag
  simp only [he', hm']

/-- every `n · 2^s` with `n < 2^(mbits+1)` and `s` a finite exponent is the magnitude of a positive finite pattern -/
theorem exists_pat (f : Fmt) (h : Std f) : ∀ (s n : Nat), n < 2 * 2 ^ f.mbits → s + 2 ≤ f.emax →
    ∃ p, p < f.inf ∧ f.mag p = n * 2 ^ s := by
  intro s
  induction s with
  | zero =>
    intro n hn hs
    by_cases hlt : n < 2 ^ f.mbits
    · obtain ⟨h1, h2⟩ := mag_mk f h 0 n hlt (by omega)
      exact ⟨_, h1, by rw [h2]; simp⟩
    · obtain ⟨h1, h2⟩ := mag_mk f h 1 (n - 2 ^ f.mbits) (by omega) (by omega)
      refine ⟨_, h1, ?_⟩
      rw [h2]; simp; omega
  | succ s ih =>
    intro n hn hs
    by_cases hlt : n < 2 ^ f.mbits
    · obtain ⟨p, h1, h2⟩ := ih (2 * n) (by omega) (by omega)
      refine ⟨p, h1, ?_⟩
      rw [h2, Nat.pow_succ, Nat.mul_comm 2 n, Nat.mul_assoc, Nat.mul_comm 2]
    · obtain ⟨h1, h2⟩ := mag_mk f h (s + 2) (n - 2 ^ f.mbits) (by omega) (by omega)
      refine ⟨_, h1, ?_⟩
      rw [h2]
      have : 2 ^ f.mbits + (n - 2 ^ f.mbits) = n := by omega
      simp [this]

/-- the fractional part (below 2^k units) of a finite magnitude is a finite magnitude -/
theorem frac_repr (f : Fmt) (h : Std f) (a : Nat) (ha : a < f.inf) (k : Nat) :
    ∃ p, p < f.inf ∧ f.mag p = f.mag a % 2 ^ k := by
  obtain ⟨he, hm, hmag⟩ := fields_pos f h a ha
  have hM : 0 < 2 ^ f.mbits := Nat.pow_pos (by decide)
  have hr := h.room
  have hb1 := h.bias1
  rw [hmag]
  generalize f.expo a = e at *
  generalize f.mant a = m at *
  by_cases he0 : e = 0
  · simp only [he0, if_true]
    have : m % 2 ^ k < 2 * 2 ^ f.mbits := by
      have := Nat.mod_le m (2 ^ k); omega
    obtain ⟨p, h1, h2⟩ := exists_pat f h 0 (m % 2 ^ k) this (by omega)
    exact ⟨p, h1, by rw [h2]; simp⟩
  · simp only [he0, if_false]
    by_cases hk : k ≤ e - 1
    · refine ⟨0, inf_pos f h, ?_⟩
      rw [(zero_facts f).2.2.1]
      have : 2 ^ (e - 1) = 2 ^ k * 2 ^ (e - 1 - k) := by rw [← Nat.pow_add]; congr 1; omega
      rw [this, ← Nat.mul_assoc, Nat.mul_comm _ (2 ^ k), Nat.mul_assoc, Nat.mul_mod_right]
    · have hk2 : 2 ^ k = 2 ^ (k - (e - 1)) * 2 ^ (e - 1) := by rw [← Nat.pow_add]; congr 1; omega
      rw [hk2, Nat.mul_mod_mul_right]
      have : (2 ^ f.mbits + m) % 2 ^ (k - (e - 1)) < 2 * 2 ^ f.mbits := by
        have := Nat.mod_le (2 ^ f.mbits + m) (2 ^ (k - (e - 1))); omega
      exact exists_pat f h (e - 1) _ this (by omega)

/-- the only positive finite pattern of magnitude 0 is +0 -/
theorem mag_eq_zero (f : Fmt) (h : Std f) (p : Nat) (hp : p < f.inf) (hm : f.mag p = 0) : p = 0 := by
  have := roundUnits_exact f h p hp 0 0 ⟨fun _ => by rw [hm]; simp, fun hc => by omega⟩
  rw [← this]; unfold Fmt.roundUnits; simp

/-- `|x| ≥ 2^mbits` read off the exponent field -/
theorem expo_ge_iff (f : Fmt) (h : Std f) (p : Nat) (hp : p < f.inf) :
    f.expo p ≥ f.bias + f.mbits ↔ 2 ^ f.mbits * 2 ^ f.U ≤ f.mag p := by
  obtain ⟨he, hm, hmag⟩ := fields_pos f h p hp
  have hM : 0 < 2 ^ f.mbits := Nat.pow_pos (by decide)
  have hb := h.bias1
  rw [hmag]
  generalize f.expo p = e at *
  generalize f.mant p = m at *
  by_cases he0 : e = 0
  · simp only [he0, if_true]
    have : 2 ^ f.mbits * 1 ≤ 2 ^ f.mbits * 2 ^ f.U := Nat.mul_le_mul_left _ (Nat.pow_pos (by decide))
    constructor
    · intro hc; omega
    · intro hc; omega
  · simp only [he0, if_false]
    constructor
    · intro hge
      have : 2 ^ f.U ≤ 2 ^ (e - 1) := Nat.pow_le_pow_right (by decide) (by unfold Fmt.U; omega)
      exact Nat.mul_le_mul (by omega) this
    · intro hle
      refine Decidable.byContradiction fun hc => ?_
      have h1 : 2 ^ (e - 1) * 2 ≤ 2 ^ f.U := by
        rw [← Nat.pow_succ]; exact Nat.pow_le_pow_right (by decide) (by unfold Fmt.U; omega)
      have h2 : (2 ^ f.mbits + m) * 2 ^ (e - 1) < 2 ^ f.mbits * (2 ^ (e - 1) * 2) := by
        have hP : 0 < 2 ^ (e - 1) := Nat.pow_pos (by decide)
        rw [Nat.mul_comm (2 ^ (e - 1)) 2, ← Nat.mul_assoc]
        exact Nat.mul_lt_mul_of_pos_right (by omega) hP
      have h3 : 2 ^ f.mbits * (2 ^ (e - 1) * 2) ≤ 2 ^ f.mbits * 2 ^ f.U := Nat.mul_le_mul_left _ h1
      omega

/-- `T(0.5)`: a positive finite pattern with twice its magnitude equal to 1 (needs bias ≥ 2) -/
theorem half_facts (f : Fmt) (h : Std f) (h2 : 2 ≤ f.bias) :
    Model.half f < f.inf ∧ 2 * f.mag (Model.half f) = 2 ^ f.U := by
  have hr := h.room
  obtain ⟨h1, hm⟩ := mag_mk f h (f.bias - 1) 0 (Nat.pow_pos (by decide)) (by omega)
  rw [Nat.add_zero] at h1 hm
  refine ⟨h1, ?_⟩
  unfold Model.half
  rw [hm, if_neg (by omega), Nat.add_zero]
  unfold Fmt.U
  rw [show f.bias - 1 + f.mbits = f.mbits + (f.bias - 1 - 1) + 1 by omega, Nat.pow_succ, Nat.pow_add]
  omega

/-- `gcem::abs` and `gcem::sgn` of a finite non-zero pattern -/
theorem gabs_sgn (f : Fmt) (h : Std f) (b : Nat) (hb : b < 2 ^ f.width) (hfin : f.isFinite b = true)
    (hm : 0 < f.mag b) :
    Model.gabs f b = f.absBits b ∧ Model.sgn f b = (if f.sign b = 1 then -1 else 1) := by
  obtain ⟨_, hsplit, habs⟩ := split f b hb
  obtain ⟨_, _, _, hz4⟩ := zero_facts f
  have hf0 := fin_zero f h
  have e1 : f.feq b 0 = (f.smag b == 0) := by rw [feq_fin f b 0 hfin hf0, hz4]
  have e2 : f.lt b 0 = decide (f.smag b < 0) := by rw [lt_fin f b 0 hfin hf0, hz4]
  have e3 : f.lt 0 b = decide (0 < f.smag b) := by rw [lt_fin f 0 b hf0 hfin, hz4]
  unfold Model.gabs Model.sgn
  rw [e1, e2, e3]
  rcases smag_cases f b hb with ⟨hs, hsm⟩ | ⟨hs, hsm⟩
  · rw [hsm, hs]
    have h1 : ((f.mag b : Int) == 0) = false := by simp; omega
    have h2 : decide ((f.mag b : Int) < 0) = false := by simp
    have h3 : decide (0 < (f.mag b : Int)) = true := by simp; omega
    simp only [h1, h2, h3, Bool.false_eq_true, if_false, if_true]
    refine ⟨?_, by simp⟩
    rw [hs] at hsplit; omega
  · rw [hsm, hs]
    have h1 : ((-(f.mag b : Int)) == 0) = false := by simp; omega
    have h2 : decide (-(f.mag b : Int) < 0) = true := by simp; omega
    have h3 : decide (0 < -(f.mag b : Int)) = false := by simp
    simp only [h1, h2, h3, Bool.false_eq_true, if_false, if_true]
    refine ⟨?_, by simp⟩
    rw [neg_eq f b hb, hs]; unfold Fmt.withSign; omega

/-- `gcem::abs` of a positive finite pattern -/
theorem gabs_pos (f : Fmt) (h : Std f) (p : Nat) (hp : p < f.inf) : Model.gabs f p = p := by
  obtain ⟨q1, q2, q3, q4, q5⟩ := pos_facts f h p hp
  by_cases hm : f.mag p = 0
  · have := mag_eq_zero f h p hp hm
    subst this
    have hl : f.lt 0 0 = false := by rw [lt_fin f 0 0 q4 q4]; simp
    unfold Model.gabs
    rw [hl]; simp
  · rw [(gabs_sgn f h p q1 q4 (by omega)).1, q3]

/-- `check` with the guard that fired -/
theorem check_sharp (f : Fmt) (h : Std f) (b : Nat) (hb : b < 2 ^ f.width) (k : Except Err Nat) :
    (f.isNaN b = true ∧ Model.check f b k = .ok f.qnan) ∨
    (f.isNaN b = false ∧ f.isInf b = true ∧ Model.check f b k = .ok b) ∨
    (f.isFinite b = true ∧ f.mag b = 0 ∧ Model.check f b k = .ok b) ∨
    (f.isFinite b = true ∧ 2 ^ f.mbits * 2 ^ f.U ≤ f.mag b ∧ Model.check f b k = .ok b) ∨
    (f.isFinite b = true ∧ 0 < f.mag b ∧ f.mag b < 2 ^ f.mbits * 2 ^ f.U ∧ Model.check f b k = k) := by
  obtain ⟨hz1, hz2, hz3, hz4⟩ := zero_facts f
  obtain ⟨hB1, hB2, hB3, hB4, hB5⟩ := big_facts f h
  have hf0 := fin_zero f h
  unfold Model.check
  cases hn : f.isNaN b
  · have hbb : f.feq b b = true := by unfold Fmt.feq; simp [hn]
    right
    cases hi : f.isInf b
    · right
      have hfin : f.isFinite b = true := by
        unfold Fmt.isNaN at hn; unfold Fmt.isInf at hi; unfold Fmt.isFinite
        simp at hn hi ⊢; omega
      have e1 : f.feq b 0 = (f.smag b == 0) := by rw [feq_fin f b 0 hfin hf0, hz4]
      by_cases hm : f.mag b = 0
      · left
        have : f.feq b 0 = true := by
          rw [e1]; rcases smag_cases f b hb with ⟨_, hsm⟩ | ⟨_, hsm⟩ <;> rw [hsm, hm] <;> simp
        simp [hbb, this, hfin, hm]
      · right
        have hmp : 0 < f.mag b := by omega
        have : f.feq b 0 = false := by
          rw [e1]; rcases smag_cases f b hb with ⟨_, hsm⟩ | ⟨_, hsm⟩ <;> rw [hsm] <;> simp <;> omega
        have hlt : f.absBits b < f.inf := by unfold Fmt.isFinite at hfin; simpa using hfin
        obtain ⟨q1, q2, q3, q4, q5⟩ := pos_facts f h _ hlt
        obtain ⟨r1, r2, r3, r4, r5⟩ := pos_facts f h _ hB1
        have hge : Model.ge f (Model.gabs f b) (Model.big f) = decide (2 ^ f.mbits * 2 ^ f.U ≤ f.mag b) := by
          rw [(gabs_sgn f h b hb hfin hmp).1]
          unfold Model.ge
          rw [lt_fin f _ _ r4 q4, feq_fin f _ _ q4 r4, q5, r5, hB5, mag_absBits]
          generalize 2 ^ f.mbits * 2 ^ f.U = P
          by_cases hc : P ≤ f.mag b
          · simp [hc]; omega
          · simp [hc]; omega
        by_cases hc : 2 ^ f.mbits * 2 ^ f.U ≤ f.mag b
        · left
          simp [hbb, this, hfin, hc, hge]
        · right
          refine ⟨hfin, hmp, by omega, ?_⟩
          simp [hbb, this, hc, hge]
    · left
      simp [hbb]
  · left
    have hbb : f.feq b b = false := by unfold Fmt.feq; simp [hn]
    simp [hbb]

/-- finite operands: the addition rounds the exact sum -/
theorem add_fin (f : Fmt) (a b : Nat) (ha : f.isFinite a = true) (hb : f.isFinite b = true) :
    f.add a b = f.ofSigned (f.smag a + f.smag b) 0 (if f.sign a = 1 && f.sign b = 1 then 1 else 0) := by
  obtain ⟨h1, h2⟩ := fin_facts f a ha
  obtain ⟨h3, h4⟩ := fin_facts f b hb
  unfold Fmt.add; simp [h1, h2, h3, h4]

/-- an addition whose exact non-negative result is representable returns it -/
theorem add_exact (f : Fmt) (h : Std f) (a b p : Nat) (ha : f.isFinite a = true) (hb : f.isFinite b = true)
    (hp : p < f.inf) (hsum : f.smag a + f.smag b = (f.mag p : Int)) (hsa : f.sign a = 0) :
    f.add a b = p := by
  rw [add_fin f a b ha hb, hsum, hsa]
  have hru := roundUnits_exact f h p hp (f.mag p) 0 ⟨fun _ => by simp, fun hc => by omega⟩
  unfold Fmt.ofSigned
  by_cases hm : f.mag p = 0
  · have := mag_eq_zero f h p hp hm
    subst this
    simp [hm, Fmt.withSign]
  · have h1 : ¬ ((f.mag p : Int) = 0) := by omega
    have h2 : ¬ ((f.mag p : Int) < 0) := by omega
    rw [if_neg h1, if_neg h2, Int.natAbs_natCast]; exact hru

/-- `a - b` for positive finite patterns with `a ≥ b` whose difference is representable -/
theorem sub_exact (f : Fmt) (h : Std f) (a b p : Nat) (ha : a < f.inf) (hb : b < f.inf) (hp : p < f.inf)
    (hdiff : f.mag a = f.mag b + f.mag p) : f.sub a b = p := by
  obtain ⟨q1, q2, q3, q4, q5⟩ := pos_facts f h a ha
  obtain ⟨r1, r2, r3, r4, r5⟩ := pos_facts f h b hb
  obtain ⟨n1, n2, n3, n4⟩ := neg_pos_facts f h b hb
  unfold Fmt.sub
  rw [(fin_facts f b r4).1]
  simp only [Bool.false_eq_true, if_false]
  exact add_exact f h a (f.neg b) p q4 n3 hp (by rw [q5, n4]; omega) q2

/-- integers up to 2^mbits convert to `long long` exactly -/
theorem toLL_int (f : Fmt) (h : Std f) (n : Nat) (hn : n ≤ 2 ^ f.mbits) :
    Model.toLL f (f.roundUnits n f.U) = .ok (n : Int) := by
  obtain ⟨hlt, hmag⟩ := roundUnits_int f h n hn
  obtain ⟨q1, q2, q3, q4, q5⟩ := pos_facts f h _ hlt
  have hle : 2 ^ f.mbits ≤ 2 ^ 62 := Nat.pow_le_pow_right (by decide) h.mbits62
  have e62 : (2 : Nat) ^ 62 = 4611686018427387904 := by decide
  have e63 : (2 : Int) ^ 63 = 9223372036854775808 := by decide
  have htr : f.truncInt (f.roundUnits n f.U) = (n : Int) := by
    unfold Fmt.truncInt
    rw [q2, hmag, Nat.mul_div_cancel _ (Nat.pow_pos (by decide))]; simp
  unfold Model.toLL
  simp only [q4, Bool.not_true, Bool.false_eq_true, if_false]
  rw [htr, e63, if_pos (by omega)]

/-- the conversion of a non-negative integer -/
theorem ofInt_nat (f : Fmt) (n : Nat) : f.ofInt (n : Int) = f.roundUnits n f.U := by
  unfold Fmt.ofInt
  rw [if_neg (by omega), Int.natAbs_natCast]

end Tetl.C13.Lemmas.Round
