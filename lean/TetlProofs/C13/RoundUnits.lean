/- C13 helper lemmas, part 3: `roundUnits` is exact on magnitudes that are representable. -/
import TetlProofs.C13.LemmasSafe
namespace Tetl.C13.Lemmas
open Tetl Tetl.C13 Tetl.C13.Fmt

theorem log2_mul_two_pow (a k : Nat) (ha : a ≠ 0) : (a * 2 ^ k).log2 = a.log2 + k := by
  have hp : 0 < 2 ^ k := Nat.pow_pos (by decide)
  have hne : a * 2 ^ k ≠ 0 := Nat.mul_ne_zero ha (by omega)
  rw [Nat.log2_eq_iff hne]
  have h1 := Nat.log2_self_le ha
  have h2 := @Nat.lt_log2_self a
  constructor
  · rw [Nat.pow_add]; exact Nat.mul_le_mul_right _ h1
  · rw [show a.log2 + k + 1 = (a.log2 + 1) + k by omega, Nat.pow_add]
    exact Nat.mul_lt_mul_of_pos_right h2 hp

/-- the pattern with exponent field `e` and fraction field `m` -/
theorem build_facts (f : Fmt) (e m : Nat) (he : e < f.emax) (hm : m < 2 ^ f.mbits) :
    e * 2 ^ f.mbits + m < f.inf ∧ f.expo (e * 2 ^ f.mbits + m) = e ∧ f.mant (e * 2 ^ f.mbits + m) = m := by
  have hp : 0 < 2 ^ f.mbits := Nat.pow_pos (by decide)
  have h1 : e * 2 ^ f.mbits + m < f.inf := by
    unfold Fmt.inf
    have : (e + 1) * 2 ^ f.mbits ≤ f.emax * 2 ^ f.mbits := Nat.mul_le_mul_right _ he
    rw [Nat.add_mul] at this; omega
  have h2 : f.inf ≤ f.signW := by
    unfold Fmt.inf Fmt.signW Fmt.emax; rw [Nat.pow_add]
    exact Nat.mul_le_mul_right _ (Nat.sub_le _ _)
  refine ⟨h1, ?_, ?_⟩
  · unfold Fmt.expo Fmt.absBits
    rw [Nat.mod_eq_of_lt (by omega), Nat.add_comm, Nat.add_mul_div_right _ _ hp, Nat.div_eq_of_lt hm]
    omega
  · unfold Fmt.mant
    rw [Nat.add_comm, Nat.add_mul_mod_self_right, Nat.mod_eq_of_lt hm]

/-- a finite pattern without sign is its exponent field and its fraction field -/
theorem finite_fields (f : Fmt) (p : Nat) (hp : p < f.inf) :
    p = f.expo p * 2 ^ f.mbits + f.mant p ∧ f.expo p < f.emax ∧ f.mant p < 2 ^ f.mbits := by
  have hpp : 0 < 2 ^ f.mbits := Nat.pow_pos (by decide)
  have h2 : f.inf ≤ f.signW := by
    unfold Fmt.inf Fmt.signW Fmt.emax; rw [Nat.pow_add]
    exact Nat.mul_le_mul_right _ (Nat.sub_le _ _)
  have ha : f.absBits p = p := by unfold Fmt.absBits; exact Nat.mod_eq_of_lt (by omega)
  unfold Fmt.expo Fmt.mant
  rw [ha]
  refine ⟨?_, ?_, Nat.mod_lt _ hpp⟩
  · have := Nat.div_add_mod p (2 ^ f.mbits)
    rw [Nat.mul_comm] at this; omega
  · unfold Fmt.inf at hp
    exact (Nat.div_lt_iff_lt_mul hpp).2 hp

/-- `roundUnits` when the value `N·2^E` is `Q·2^s` with `s` the shift it computes: nothing is cut off -/
theorem roundUnits_of_shift (f : Fmt) (N : Nat) (E : Int) (hN : N ≠ 0) (s Q : Nat)
    (hs : (((Nat.log2 N : Nat) : Int) + E - (f.mbits : Int)).toNat = s)
    (hQ : ((s : Int) - E ≤ 0 → N * 2 ^ (-((s : Int) - E)).toNat = Q) ∧
          (0 < (s : Int) - E → N = Q * 2 ^ ((s : Int) - E).toNat)) :
    f.roundUnits N E = if s * 2 ^ f.mbits + Q ≥ f.inf then f.inf else s * 2 ^ f.mbits + Q := by
  unfold Fmt.roundUnits
  simp only [if_neg hN]
  rw [hs]
  by_cases hd : (s : Int) - E ≤ 0
  · simp only [if_pos hd]
    rw [hQ.1 hd]
  · simp only [if_neg hd]
    have hd' : 0 < (s : Int) - E := by omega
    have hNQ := hQ.2 hd'
    have hdn : 0 < ((s : Int) - E).toNat := by omega
    generalize ((s : Int) - E).toNat = d at *
    have hp : 0 < 2 ^ d := Nat.pow_pos (by decide)
    have hq : N / 2 ^ d = Q := by rw [hNQ]; exact Nat.mul_div_cancel _ hp
    have hr : N % 2 ^ d = 0 := by rw [hNQ]; exact Nat.mul_mod_left _ _
    have hh : 0 < 2 ^ (d - 1) := Nat.pow_pos (by decide)
    rw [hq, hr]
    have hc : (decide (0 > 2 ^ (d - 1)) || ((0 : Nat) == 2 ^ (d - 1) && Q % 2 == 1)) = false := by
      have h1 : decide (0 > 2 ^ (d - 1)) = false := by simp
      have h2 : ((0 : Nat) == 2 ^ (d - 1)) = false := by
        rw [beq_eq_false_iff_ne]; omega
      rw [h1, h2]; rfl
    rw [hc]
    simp only [Bool.false_eq_true, if_false]

/-- `⌊log2⌋` of a magnitude, as the shift of `roundUnits` -/
theorem mag_log2 (f : Fmt) (p : Nat) (hp : p < f.inf) (h0 : f.mag p ≠ 0) :
    ((f.mag p).log2 : Int) - (f.mbits : Int) ≤ ((f.expo p - 1 : Nat) : Int) ∧
    (1 ≤ f.expo p → (f.mag p).log2 = f.mbits + (f.expo p - 1)) := by
  obtain ⟨_, _, hm⟩ := finite_fields f p hp
  unfold Fmt.mag at h0 ⊢
  by_cases he : f.expo p = 0
  · simp only [he, if_true] at h0 ⊢
    have : (f.mant p).log2 < f.mbits := (Nat.log2_lt h0).2 hm
    omega
  · simp only [he, if_false] at h0 ⊢
    have hne : 2 ^ f.mbits + f.mant p ≠ 0 := by
      have : 0 < 2 ^ f.mbits := Nat.pow_pos (by decide)
      omega
    have hl : (2 ^ f.mbits + f.mant p).log2 = f.mbits := by
      rw [Nat.log2_eq_iff hne, Nat.pow_succ]; omega
    rw [log2_mul_two_pow _ _ hne, hl]
    omega

/-- rounding a magnitude that is exactly the magnitude of a finite pattern returns that pattern:
    N·2^E units (E may be negative) = mag p -/
theorem roundUnits_exact (f : Fmt) (h : Std f) (p : Nat) (hp : p < f.inf) (N : Nat) (E : Int)
    (hv : (0 ≤ E → N * 2 ^ E.toNat = f.mag p) ∧ (E < 0 → N = f.mag p * 2 ^ (-E).toNat)) :
    f.roundUnits N E = p := by
  have _ := h  -- (the statement holds for every format; `Std` kept for uniformity with the callers)
  obtain ⟨hpe, hemax, hm⟩ := finite_fields f p hp
  by_cases h0 : f.mag p = 0
  · -- the pattern is zero
    have hp0 : p = 0 := by
      unfold Fmt.mag at h0
      by_cases he : f.expo p = 0
      · simp only [he, if_true] at h0; rw [he, h0] at hpe; omega
      · simp only [he, if_false] at h0
        have : 0 < 2 ^ f.mbits := Nat.pow_pos (by decide)
        have h2 : 0 < 2 ^ (f.expo p - 1) := Nat.pow_pos (by decide)
        rcases Nat.mul_eq_zero.1 h0 with h | h <;> omega
    have hN : N = 0 := by
      by_cases hE : 0 ≤ E
      · have := hv.1 hE
        rw [h0] at this
        have h2 : 0 < 2 ^ E.toNat := Nat.pow_pos (by decide)
        rcases Nat.mul_eq_zero.1 this with h | h <;> omega
      · have := hv.2 (by omega); rw [h0] at this; omega
    unfold Fmt.roundUnits; simp [hN, hp0]
  · -- log2 N + E = log2 (mag p)
    have hN : N ≠ 0 := by
      intro hN
      by_cases hE : 0 ≤ E
      · have := hv.1 hE; rw [hN] at this; omega
      · have := hv.2 (by omega)
        have h2 : 0 < 2 ^ (-E).toNat := Nat.pow_pos (by decide)
        rcases Nat.mul_eq_zero.1 (hN ▸ this).symm with h | h <;> omega
    have hlog : ((N.log2 : Nat) : Int) + E = ((f.mag p).log2 : Int) := by
      by_cases hE : 0 ≤ E
      · have := hv.1 hE
        rw [← this, log2_mul_two_pow _ _ hN]; omega
      · have := hv.2 (by omega)
        rw [this, log2_mul_two_pow _ _ h0]; omega
    obtain ⟨hl1, hl2⟩ := mag_log2 f p hp h0
    -- the shift and the significand
    have key : ∃ s Q, (((Nat.log2 N : Nat) : Int) + E - (f.mbits : Int)).toNat = s ∧
        f.mag p = Q * 2 ^ s ∧ s * 2 ^ f.mbits + Q = p := by
      by_cases he : f.expo p = 0
      · refine ⟨0, f.mant p, ?_, ?_, ?_⟩
        · rw [hlog]; rw [he] at hl1; omega
        · unfold Fmt.mag; simp [he]
        · rw [he] at hpe; omega
      · refine ⟨f.expo p - 1, 2 ^ f.mbits + f.mant p, ?_, ?_, ?_⟩
        · rw [hlog, hl2 (by omega)]; omega
        · unfold Fmt.mag; simp [he]
        · have : (f.expo p - 1) * 2 ^ f.mbits + 2 ^ f.mbits = f.expo p * 2 ^ f.mbits := by
            rw [← Nat.succ_mul]; congr 1; omega
          omega
    obtain ⟨s, Q, hs, hmag, hsQ⟩ := key
    rw [roundUnits_of_shift f N E hN s Q hs, hsQ, if_neg (by omega)]
    rw [hmag] at hv
    constructor
    · intro hd
      have hE : 0 ≤ E := by omega
      have h1 := hv.1 hE
      have e1 : (-((s : Int) - E)).toNat + s = E.toNat := by omega
      rw [← e1, Nat.pow_add, ← Nat.mul_assoc] at h1
      exact Nat.eq_of_mul_eq_mul_right (Nat.pow_pos (by decide)) h1
    · intro hd
      by_cases hE : 0 ≤ E
      · have h1 := hv.1 hE
        have e1 : ((s : Int) - E).toNat + E.toNat = s := by omega
        rw [← e1, Nat.pow_add, ← Nat.mul_assoc] at h1
        exact Nat.eq_of_mul_eq_mul_right (Nat.pow_pos (by decide)) h1
      · have h1 := hv.2 (by omega)
        have e1 : ((s : Int) - E).toNat = s + (-E).toNat := by omega
        rw [h1, e1, Nat.pow_add, Nat.mul_assoc]

/-- a finite pattern without sign is determined by its magnitude -/
theorem eq_of_mag_eq (f : Fmt) (h : Std f) (p q : Nat) (hp : p < f.inf) (hq : q < f.inf)
    (hm : f.mag p = f.mag q) : p = q := by
  have h1 := roundUnits_exact f h p hp (f.mag p) 0 ⟨fun _ => by simp, fun hE => by omega⟩
  have h2 := roundUnits_exact f h q hq (f.mag p) 0 ⟨fun _ => by simp [hm], fun hE => by omega⟩
  rw [← h1, h2]

/-- rounding an exact magnitude given in units (`E = 0`) -/
theorem roundUnits_mag (f : Fmt) (h : Std f) (p : Nat) (hp : p < f.inf) : f.roundUnits (f.mag p) 0 = p :=
  roundUnits_exact f h p hp (f.mag p) 0 ⟨fun _ => by simp, fun hE => by omega⟩

/-- integers up to 2^mbits are exactly representable -/
theorem roundUnits_int (f : Fmt) (h : Std f) (n : Nat) (hn : n ≤ 2 ^ f.mbits) :
    f.roundUnits n f.U < f.inf ∧ f.mag (f.roundUnits n f.U) = n * 2 ^ f.U := by
  by_cases h0 : n = 0
  · subst h0
    have hz : f.roundUnits 0 f.U = 0 := by unfold Fmt.roundUnits; simp
    rw [hz]
    exact ⟨inf_pos f h, by rw [(zero_facts f).2.2.1]; simp⟩
  · have hpm : 0 < 2 ^ f.mbits := Nat.pow_pos (by decide)
    have hL : n.log2 ≤ f.mbits := by
      have : n.log2 < f.mbits + 1 := (Nat.log2_lt h0).2 (by rw [Nat.pow_succ]; omega)
      omega
    have h1 := Nat.log2_self_le h0
    have h2 := @Nat.lt_log2_self n
    generalize n.log2 = L at *
    have hpd : 0 < 2 ^ (f.mbits - L) := Nat.pow_pos (by decide)
    have hlo : 2 ^ f.mbits ≤ n * 2 ^ (f.mbits - L) := by
      have : 2 ^ L * 2 ^ (f.mbits - L) ≤ n * 2 ^ (f.mbits - L) := Nat.mul_le_mul_right _ h1
      rw [← Nat.pow_add, show L + (f.mbits - L) = f.mbits by omega] at this
      exact this
    have hhi : n * 2 ^ (f.mbits - L) < 2 ^ f.mbits + 2 ^ f.mbits := by
      have : n * 2 ^ (f.mbits - L) < 2 ^ (L + 1) * 2 ^ (f.mbits - L) := Nat.mul_lt_mul_of_pos_right h2 hpd
      rw [← Nat.pow_add, show L + 1 + (f.mbits - L) = f.mbits + 1 by omega, Nat.pow_succ] at this
      omega
    have hroom := h.room
    have hb1 := h.bias1
    obtain ⟨hfin, hexp, hmant⟩ := build_facts f (L + f.bias) (n * 2 ^ (f.mbits - L) - 2 ^ f.mbits)
      (by omega) (by omega)
    generalize hpdef : (L + f.bias) * 2 ^ f.mbits + (n * 2 ^ (f.mbits - L) - 2 ^ f.mbits) = p at *
    have hmag : f.mag p = n * 2 ^ f.U := by
      unfold Fmt.mag
      simp only [hexp, hmant, show L + f.bias ≠ 0 by omega, if_false]
      rw [show 2 ^ f.mbits + (n * 2 ^ (f.mbits - L) - 2 ^ f.mbits) = n * 2 ^ (f.mbits - L) by omega,
        Nat.mul_assoc, ← Nat.pow_add]
      unfold Fmt.U
      rw [show f.mbits - L + (L + f.bias - 1) = f.bias - 1 + f.mbits by omega]
    have hr : f.roundUnits n f.U = p :=
      roundUnits_exact f h p hfin n f.U ⟨fun _ => by rw [Int.toNat_natCast, hmag], fun hE => by omega⟩
    rw [hr]; exact ⟨hfin, hmag⟩

theorem inf_le_signW (f : Fmt) : f.inf ≤ f.signW := by
  unfold Fmt.inf Fmt.signW Fmt.emax; rw [Nat.pow_add]
  exact Nat.mul_le_mul_right _ (Nat.sub_le _ _)

theorem ofInt_zero (f : Fmt) : f.ofInt 0 = 0 := by
  unfold Fmt.ofInt Fmt.roundUnits; simp

/-- the conversion of an integer `|i| ≤ 2^mbits` is exact -/
theorem ofInt_facts (f : Fmt) (h : Std f) (i : Int) (hi : i.natAbs ≤ 2 ^ f.mbits) :
    f.ofInt i < 2 ^ f.width ∧ f.absBits (f.ofInt i) < f.inf ∧
    f.absBits (f.ofInt i) = f.roundUnits i.natAbs f.U ∧
    f.sign (f.ofInt i) = (if i < 0 then 1 else 0) ∧
    f.mag (f.ofInt i) = i.natAbs * 2 ^ f.U ∧ f.smag (f.ofInt i) = i * ((2 ^ f.U : Nat) : Int) ∧
    f.isNaN (f.ofInt i) = false ∧ f.isInf (f.ofInt i) = false ∧ f.isFinite (f.ofInt i) = true := by
  obtain ⟨hr1, hr2⟩ := roundUnits_int f h i.natAbs hi
  have hiw := inf_le_signW f
  have hW := two_signW f
  generalize hrd : f.roundUnits i.natAbs f.U = r at *
  have hrW : r < f.signW := by omega
  have key : ∃ s, (s = 0 ∨ s = 1) ∧ f.ofInt i = f.withSign s r ∧ s = (if i < 0 then 1 else 0) := by
    unfold Fmt.ofInt
    by_cases hneg : i < 0
    · exact ⟨1, Or.inr rfl, by simp [hneg, hrd], by simp [hneg]⟩
    · refine ⟨0, Or.inl rfl, ?_, by simp [hneg]⟩
      simp only [hneg, if_false, hrd]; unfold Fmt.withSign; omega
  obtain ⟨s, hs, hof, hsi⟩ := key
  obtain ⟨hsg, hab⟩ := sign_withSign f s r hs hrW
  have hmg := mag_withSign f s r hs hrW
  rw [hof]
  have hlt : f.withSign s r < 2 ^ f.width := by
    unfold Fmt.withSign; rw [hW]; rcases hs with rfl | rfl <;> omega
  have hsm : f.smag (f.withSign s r) = i * ((2 ^ f.U : Nat) : Int) := by
    unfold Fmt.smag
    rw [hsg, hmg, hr2, hsi]
    by_cases hneg : i < 0
    · simp only [hneg, if_true]
      rw [Int.natCast_mul, Int.ofNat_natAbs_of_nonpos (by omega)]
      simp [Int.neg_mul]
    · simp only [hneg, if_false]
      have : (0 : Nat) ≠ 1 := by decide
      rw [if_neg this, Int.natCast_mul, Int.natAbs_of_nonneg (by omega)]
  refine ⟨hlt, by rw [hab]; exact hr1, hab, by rw [hsg, hsi], by rw [hmg, hr2], hsm, ?_, ?_, ?_⟩
  · unfold Fmt.isNaN; rw [hab]; simp; omega
  · unfold Fmt.isInf; rw [hab]; simp; omega
  · unfold Fmt.isFinite; rw [hab]; simp; omega

end Tetl.C13.Lemmas
