/- C13: gcem floor / ceil / trunc return exactly the value of the bit-level specification `FSpec.roundTo`. -/
import TetlProofs.C13.RoundUnits
namespace Tetl.C13.Lemmas
open Tetl Tetl.C13 Tetl.C13.Fmt

/-! ### classification and comparison of non-NaN, non-infinite patterns -/

theorem fin_facts (f : Fmt) (b : Nat) (hfin : f.isFinite b = true) :
    f.absBits b < f.inf ∧ f.isNaN b = false ∧ f.isInf b = false := by
  unfold Fmt.isFinite at hfin; unfold Fmt.isNaN Fmt.isInf
  simp at hfin ⊢; omega

theorem lt_fin (f : Fmt) (a b : Nat) (hna : f.isNaN a = false) (hia : f.isInf a = false)
    (hnb : f.isNaN b = false) (hib : f.isInf b = false) : f.lt a b = decide (f.smag a < f.smag b) := by
  unfold Fmt.lt; simp [hna, hia, hnb, hib]

theorem feq_fin (f : Fmt) (a b : Nat) (hna : f.isNaN a = false) (hia : f.isInf a = false)
    (hnb : f.isNaN b = false) (hib : f.isInf b = false) : f.feq a b = decide (f.smag a = f.smag b) := by
  unfold Fmt.feq; simp only [hna, hia, hnb, hib, Bool.or_false, Bool.false_eq_true, if_false]
  by_cases e : f.smag a = f.smag b <;> simp [e]

theorem zero_class (f : Fmt) (h : Std f) : f.isNaN 0 = false ∧ f.isInf 0 = false := by
  obtain ⟨hz1, _⟩ := zero_facts f
  have := inf_pos f h
  unfold Fmt.isNaN Fmt.isInf; simp [hz1]; omega

theorem feq_self (f : Fmt) (b : Nat) : f.feq b b = !f.isNaN b := by
  unfold Fmt.feq
  cases f.isNaN b <;> simp

theorem smag_cases (f : Fmt) (b : Nat) (hb : b < 2 ^ f.width) :
    (f.sign b = 0 ∧ f.smag b = (f.mag b : Int)) ∨ (f.sign b = 1 ∧ f.smag b = -(f.mag b : Int)) := by
  obtain ⟨hs, _, _⟩ := split f b hb
  unfold Fmt.smag
  rcases hs with h0 | h1
  · left; simp [h0]
  · right; simp [h1]

theorem neg_facts (f : Fmt) (X : Nat) (hX : X < 2 ^ f.width) :
    f.neg X < 2 ^ f.width ∧ f.sign (f.neg X) = 1 - f.sign X ∧ f.absBits (f.neg X) = f.absBits X ∧
    f.mag (f.neg X) = f.mag X ∧ f.smag (f.neg X) = -f.smag X ∧ f.isNaN (f.neg X) = f.isNaN X ∧
    f.isInf (f.neg X) = f.isInf X ∧ f.isFinite (f.neg X) = f.isFinite X := by
  obtain ⟨hs, hsplit, habs⟩ := split f X hX
  have hneg := neg_eq f X hX
  have hs' : 1 - f.sign X = 0 ∨ 1 - f.sign X = 1 := by omega
  obtain ⟨hsg, hab⟩ := sign_withSign f (1 - f.sign X) (f.absBits X) hs' habs
  have hmag := mag_neg f X hX
  have hW := two_signW f
  refine ⟨?_, by rw [hneg, hsg], by rw [hneg, hab], hmag, ?_, ?_, ?_, ?_⟩
  · rw [hneg]; unfold Fmt.withSign; rw [hW]
    rcases hs' with h | h <;> rw [h] <;> omega
  · unfold Fmt.smag; rw [hmag, hneg, hsg]
    rcases hs with h | h <;> simp [h]
  · unfold Fmt.isNaN; rw [hneg, hab]
  · unfold Fmt.isInf; rw [hneg, hab]
  · unfold Fmt.isFinite; rw [hneg, hab]

/-! ### exponent field against magnitude -/

theorem mag_fields (f : Fmt) (b : Nat) :
    f.mant b < 2 ^ f.mbits ∧
    f.mag b = if f.expo b = 0 then f.mant b else (2 ^ f.mbits + f.mant b) * 2 ^ (f.expo b - 1) :=
  ⟨Nat.mod_lt _ (Nat.pow_pos (by decide)), rfl⟩

theorem expo_lt_of_mag_lt (f : Fmt) (h : Std f) (b : Nat) (hm : f.mag b < 2 ^ f.mbits * 2 ^ f.U) :
    f.expo b < f.bias + f.mbits := by
  obtain ⟨_, hmag⟩ := mag_fields f b
  have hb1 := h.bias1
  apply Nat.lt_of_not_le; intro hge
  have hne : f.expo b ≠ 0 := by omega
  rw [if_neg hne] at hmag
  have h1 : 2 ^ f.U ≤ 2 ^ (f.expo b - 1) := Nat.pow_le_pow_right (by decide) (by unfold Fmt.U; omega)
  have h2 : 2 ^ f.mbits * 2 ^ f.U ≤ (2 ^ f.mbits + f.mant b) * 2 ^ (f.expo b - 1) :=
    Nat.mul_le_mul (Nat.le_add_right _ _) h1
  omega

theorem expo_ge_of_mag_ge (f : Fmt) (h : Std f) (b : Nat) (hm : 2 ^ f.mbits * 2 ^ f.U ≤ f.mag b) :
    f.bias + f.mbits ≤ f.expo b := by
  obtain ⟨hmant, hmag⟩ := mag_fields f b
  have hb1 := h.bias1
  have hpu : 0 < 2 ^ f.U := Nat.pow_pos (by decide)
  apply Nat.le_of_not_lt; intro hlt
  by_cases he : f.expo b = 0
  · rw [if_pos he] at hmag
    have : 2 ^ f.mbits * 1 ≤ 2 ^ f.mbits * 2 ^ f.U := Nat.mul_le_mul_left _ hpu
    omega
  · rw [if_neg he] at hmag
    have h1 : 2 ^ (f.expo b - 1 + 1) ≤ 2 ^ f.U := Nat.pow_le_pow_right (by decide) (by unfold Fmt.U; omega)
    have h2 : (2 ^ f.mbits + f.mant b) * 2 ^ (f.expo b - 1) < (2 ^ f.mbits + 2 ^ f.mbits) * 2 ^ (f.expo b - 1) :=
      Nat.mul_lt_mul_of_pos_right (by omega) (Nat.pow_pos (by decide))
    have h3 : (2 ^ f.mbits + 2 ^ f.mbits) * 2 ^ (f.expo b - 1) = 2 ^ f.mbits * 2 ^ (f.expo b - 1 + 1) := by
      rw [Nat.pow_succ, ← Nat.two_mul, Nat.mul_comm 2, Nat.mul_assoc, Nat.mul_comm 2]
    have h4 : 2 ^ f.mbits * 2 ^ (f.expo b - 1 + 1) ≤ 2 ^ f.mbits * 2 ^ f.U := Nat.mul_le_mul_left _ h1
    omega

theorem expo_inf (f : Fmt) (h : Std f) (b : Nat) (hi : f.isInf b = true) : f.bias + f.mbits ≤ f.expo b := by
  unfold Fmt.isInf at hi; simp at hi
  unfold Fmt.expo; rw [hi]; unfold Fmt.inf
  rw [Nat.mul_div_cancel _ (Nat.pow_pos (by decide))]
  have := h.room; omega

/-! ### the specification on the classes of `check` -/

theorem roundTo_nan (f : Fmt) (m : FSpec.Mode) (b : Nat) (hn : f.isNaN b = true) :
    FSpec.roundTo f m b = f.qnan := by
  unfold FSpec.roundTo; simp [hn]

theorem roundTo_big (f : Fmt) (m : FSpec.Mode) (b : Nat) (hn : f.isNaN b = false)
    (he : f.bias + f.mbits ≤ f.expo b) : FSpec.roundTo f m b = b := by
  unfold FSpec.roundTo; simp [hn, he]

theorem roundTo_small (f : Fmt) (h : Std f) (m : FSpec.Mode) (b : Nat) (hn : f.isNaN b = false)
    (hm : f.mag b < 2 ^ f.mbits * 2 ^ f.U) :
    FSpec.roundTo f m b = f.withSign (f.sign b) (f.roundUnits
      (FSpec.roundedMag m (f.sign b == 1) (f.mag b / 2 ^ f.U) (f.mag b % 2 ^ f.U) (2 ^ f.U)) f.U) := by
  have := expo_lt_of_mag_lt f h b hm
  unfold FSpec.roundTo
  simp only [hn, Bool.false_eq_true, if_false, ge_iff_le, show ¬ (f.bias + f.mbits ≤ f.expo b) by omega]

theorem roundUnits_zero (f : Fmt) (E : Int) : f.roundUnits 0 E = 0 := by unfold Fmt.roundUnits; simp

theorem roundTo_zero (f : Fmt) (h : Std f) (m : FSpec.Mode) (b : Nat) (hb : b < 2 ^ f.width)
    (hfin : f.isFinite b = true) (hm : f.mag b = 0) : FSpec.roundTo f m b = b := by
  obtain ⟨habs, hn, _⟩ := fin_facts f b hfin
  have hpu : 0 < 2 ^ f.U := Nat.pow_pos (by decide)
  have hpm : 0 < 2 ^ f.mbits := Nat.pow_pos (by decide)
  rw [roundTo_small f h m b hn (by rw [hm]; exact Nat.mul_pos hpm hpu), hm]
  have hr : FSpec.roundedMag m (f.sign b == 1) (0 / 2 ^ f.U) (0 % 2 ^ f.U) (2 ^ f.U) = 0 := by
    rw [Nat.zero_div, Nat.zero_mod]
    cases m <;> simp [FSpec.roundedMag] <;> omega
  rw [hr, roundUnits_zero]
  -- b is a signed zero
  have h0 : f.absBits b = 0 := by
    have hfinA : f.absBits b < f.inf := habs
    have hmA : f.mag (f.absBits b) = 0 := by rw [mag_absBits]; exact hm
    have hz := (zero_facts f).2.2.1
    exact eq_of_mag_eq f h _ 0 hfinA (inf_pos f h) (by rw [hmA, hz])
  obtain ⟨_, hsplit, _⟩ := split f b hb
  unfold Fmt.withSign; omega

/-! ### the guards of `check`, sharply -/

/-- `abs(x) >= 1/epsilon` on a finite non-zero pattern compares the magnitude with 2^mbits -/
theorem ge_gabs_big (f : Fmt) (h : Std f) (b : Nat) (hb : b < 2 ^ f.width) (hfin : f.isFinite b = true)
    (h3 : f.feq b 0 = false) :
    Model.ge f (Model.gabs f b) (Model.big f) = decide (2 ^ f.mbits * 2 ^ f.U ≤ f.mag b) := by
  obtain ⟨hz1, hz2, hz3, hz4⟩ := zero_facts f
  obtain ⟨hB1, hB2, hB3, hB4, hB5⟩ := big_facts f h
  obtain ⟨hnan0, hinf0⟩ := zero_class f h
  obtain ⟨_, hnan, h2⟩ := fin_facts f b hfin
  generalize 2 ^ f.mbits * 2 ^ f.U = P at *
  have hnanB : f.isNaN (Model.big f) = false := by unfold Fmt.isNaN; simp [hB3]; omega
  have hinfB : f.isInf (Model.big f) = false := by unfold Fmt.isInf; simp [hB3]; omega
  obtain ⟨hN1, _, _, _, hN5, hN6, hN7, _⟩ := neg_facts f b hb
  have hl := lt_fin f b 0 hnan h2 hnan0 hinf0
  rw [hz4] at hl
  have hg : f.isNaN (Model.gabs f b) = false ∧ f.isInf (Model.gabs f b) = false ∧
      f.smag (Model.gabs f b) = (f.mag b : Int) := by
    unfold Model.gabs
    simp only [h3, Bool.false_eq_true, if_false, hl]
    rcases smag_cases f b hb with ⟨_, hs⟩ | ⟨_, hs⟩
    · rw [hs]
      have : ¬ ((f.mag b : Int) < 0) := by omega
      simp only [this, decide_false, Bool.false_eq_true, if_false]
      exact ⟨hnan, h2, hs⟩
    · rw [hs]
      by_cases hm : -(f.mag b : Int) < 0
      · simp only [hm, decide_true, if_true]
        refine ⟨by rw [hN6]; exact hnan, by rw [hN7]; exact h2, by rw [hN5, hs]; omega⟩
      · simp only [hm, decide_false, Bool.false_eq_true, if_false]
        exact ⟨hnan, h2, by rw [hs]; omega⟩
  obtain ⟨hg1, hg2, hg3⟩ := hg
  have hsB : f.smag (Model.big f) = (P : Int) := by unfold Fmt.smag; simp [hB4, hB5]
  unfold Model.ge
  rw [lt_fin f _ _ hnanB hinfB hg1 hg2, feq_fin f _ _ hg1 hg2 hnanB hinfB, hg3, hsB]
  by_cases hP : P ≤ f.mag b
  · simp only [hP, decide_true]
    by_cases e : (P : Int) < (f.mag b : Int)
    · simp [e]
    · have : (f.mag b : Int) = (P : Int) := by omega
      simp [this]
  · have e1 : ¬ ((P : Int) < (f.mag b : Int)) := by omega
    have e2 : ¬ ((f.mag b : Int) = (P : Int)) := by omega
    simp [hP, e1, e2]

/-- which guard of `check` fires -/
theorem check_sharp (f : Fmt) (h : Std f) (b : Nat) (hb : b < 2 ^ f.width) (k : Except Err Nat) :
    (f.isNaN b = true ∧ Model.check f b k = .ok f.qnan) ∨
    (f.isNaN b = false ∧ Model.check f b k = .ok b ∧
      (f.isInf b = true ∨ (f.isFinite b = true ∧ (f.mag b = 0 ∨ 2 ^ f.mbits * 2 ^ f.U ≤ f.mag b)))) ∨
    (Model.check f b k = k ∧ f.isFinite b = true ∧ 0 < f.mag b ∧ f.mag b < 2 ^ f.mbits * 2 ^ f.U) := by
  unfold Model.check
  rw [feq_self]
  cases hn : f.isNaN b
  · right
    cases h2 : f.isInf b
    · have hfin : f.isFinite b = true := by
        unfold Fmt.isNaN at hn; unfold Fmt.isInf at h2; unfold Fmt.isFinite
        simp at hn h2 ⊢; omega
      obtain ⟨hnan0, hinf0⟩ := zero_class f h
      have hfe := feq_fin f b 0 hn h2 hnan0 hinf0
      rw [(zero_facts f).2.2.2] at hfe
      cases h3 : f.feq b 0
      · rw [h3] at hfe
        have hne : f.smag b ≠ 0 := by
          intro e; rw [e] at hfe; simp at hfe
        have hpos : 0 < f.mag b := by
          rcases smag_cases f b hb with ⟨_, hs⟩ | ⟨_, hs⟩ <;> rw [hs] at hne <;> omega
        rw [ge_gabs_big f h b hb hfin h3]
        by_cases hP : 2 ^ f.mbits * 2 ^ f.U ≤ f.mag b
        · left
          exact ⟨rfl, by simp [hP], Or.inr ⟨hfin, Or.inr hP⟩⟩
        · right
          exact ⟨by simp [hP], hfin, hpos, by omega⟩
      · left
        rw [h3] at hfe
        have he : f.smag b = 0 := by
          by_cases e : f.smag b = 0
          · exact e
          · simp [e] at hfe
        have hm0 : f.mag b = 0 := by
          rcases smag_cases f b hb with ⟨_, hs⟩ | ⟨_, hs⟩ <;> rw [hs] at he <;> omega
        exact ⟨rfl, by simp, Or.inr ⟨hfin, Or.inl hm0⟩⟩
    · left; exact ⟨rfl, by simp, Or.inl rfl⟩
  · left; simp

/-- the early returns of `check` agree with the specification -/
theorem check_early (f : Fmt) (h : Std f) (m : FSpec.Mode) (b : Nat) (hb : b < 2 ^ f.width) (k : Except Err Nat)
    (hk : f.isFinite b = true → 0 < f.mag b → f.mag b < 2 ^ f.mbits * 2 ^ f.U → k = .ok (FSpec.roundTo f m b)) :
    Model.check f b k = .ok (FSpec.roundTo f m b) := by
  rcases check_sharp f h b hb k with ⟨hn, hc⟩ | ⟨hn, hc, hcl⟩ | ⟨hc, hfin, h0, hP⟩
  · rw [hc, roundTo_nan f m b hn]
  · rw [hc]
    rcases hcl with hi | ⟨hfin, hz | hP⟩
    · rw [roundTo_big f m b hn (expo_inf f h b hi)]
    · rw [roundTo_zero f h m b hb hfin hz]
    · rw [roundTo_big f m b hn (expo_ge_of_mag_ge f h b hP)]
  · rw [hc]; exact hk hfin h0 hP

/-! ### exact integer arithmetic -/

theorem roundUnits_scale (f : Fmt) (h : Std f) (n : Nat) (hn : n ≤ 2 ^ f.mbits) :
    f.roundUnits (n * 2 ^ f.U) 0 = f.roundUnits n f.U := by
  obtain ⟨h1, h2⟩ := roundUnits_int f h n hn
  have := roundUnits_mag f h _ h1
  rw [h2] at this; exact this

theorem ofInt_nat (f : Fmt) (n : Nat) : f.ofInt (n : Int) = f.withSign 0 (f.roundUnits n f.U) := by
  unfold Fmt.ofInt Fmt.withSign
  have : ¬ ((n : Int) < 0) := by omega
  simp [this]

theorem ofInt_negNat (f : Fmt) (n : Nat) (hn : 0 < n) :
    f.ofInt (-(n : Int)) = f.withSign 1 (f.roundUnits n f.U) := by
  unfold Fmt.ofInt
  have : (-(n : Int) < 0) := by omega
  simp only [this, if_true, Int.natAbs_neg, Int.natAbs_natCast]

/-- the sum of two integer-valued patterns whose sum is at most 2^mbits in magnitude is exact -/
theorem add_exact (f : Fmt) (h : Std f) (X Y : Nat) (i j : Int)
    (hnX : f.isNaN X = false) (hiX : f.isInf X = false) (hnY : f.isNaN Y = false) (hiY : f.isInf Y = false)
    (hX : f.smag X = i * ((2 ^ f.U : Nat) : Int)) (hY : f.smag Y = j * ((2 ^ f.U : Nat) : Int))
    (hij : (i + j).natAbs ≤ 2 ^ f.mbits) :
    f.add X Y = if i + j = 0 then f.withSign (if f.sign X = 1 && f.sign Y = 1 then 1 else 0) 0
      else f.ofInt (i + j) := by
  unfold Fmt.add
  simp only [hnX, hnY, hiX, hiY, Bool.or_false, Bool.false_eq_true, if_false]
  rw [hX, hY, ← Int.add_mul]
  have hone : (0 : Int) < ((2 ^ f.U : Nat) : Int) := by
    have : 0 < 2 ^ f.U := Nat.pow_pos (by decide)
    omega
  generalize i + j = k at *
  unfold Fmt.ofSigned Fmt.ofInt
  by_cases k0 : k = 0
  · simp [k0]
  · have hne : k * ((2 ^ f.U : Nat) : Int) ≠ 0 := Int.mul_ne_zero k0 (by omega)
    simp only [hne, k0, if_false]
    have habs : (k * ((2 ^ f.U : Nat) : Int)).natAbs = k.natAbs * 2 ^ f.U := by
      rw [Int.natAbs_mul, Int.natAbs_natCast]
    rw [habs, roundUnits_scale f h _ hij]
    by_cases hk : k < 0
    · have : k * ((2 ^ f.U : Nat) : Int) < 0 := Int.mul_neg_of_neg_of_pos hk hone
      simp only [this, hk, if_true]
    · have : ¬ (k * ((2 ^ f.U : Nat) : Int) < 0) := by
        have := Int.mul_nonneg (show 0 ≤ k by omega) (show (0:Int) ≤ ((2 ^ f.U : Nat) : Int) by omega)
        omega
      simp only [this, hk, if_false]

/-- what is known in the continuation of `check`: the sign, the integer part and the fraction -/
theorem cont_ctx (f : Fmt) (b : Nat) (hb : b < 2 ^ f.width) (hP : f.mag b < 2 ^ f.mbits * 2 ^ f.U) :
    ∃ ip fr : Nat, ip < 2 ^ f.mbits ∧ fr < 2 ^ f.U ∧ f.mag b = ip * 2 ^ f.U + fr ∧
      f.mag b / 2 ^ f.U = ip ∧ f.mag b % 2 ^ f.U = fr ∧
      ((f.sign b = 0 ∧ f.smag b = (f.mag b : Int) ∧ f.truncInt b = (ip : Int)) ∨
       (f.sign b = 1 ∧ f.smag b = -(f.mag b : Int) ∧ f.truncInt b = -(ip : Int))) := by
  have hpu : 0 < 2 ^ f.U := Nat.pow_pos (by decide)
  have htr : f.truncInt b = if f.sign b = 1 then -((f.mag b / 2 ^ f.U : Nat) : Int)
      else ((f.mag b / 2 ^ f.U : Nat) : Int) := rfl
  refine ⟨f.mag b / 2 ^ f.U, f.mag b % 2 ^ f.U, (Nat.div_lt_iff_lt_mul hpu).2 hP, Nat.mod_lt _ hpu, ?_, rfl, rfl, ?_⟩
  · have := Nat.div_add_mod (f.mag b) (2 ^ f.U)
    rw [Nat.mul_comm] at this; omega
  · rcases smag_cases f b hb with ⟨hs, hsm⟩ | ⟨hs, hsm⟩
    · left; refine ⟨hs, hsm, ?_⟩; rw [htr, hs]; simp
    · right; refine ⟨hs, hsm, ?_⟩; rw [htr, hs]; simp

/-- patterns in the continuation: `b` itself, `+0`, `-0`, `1` -/
theorem one_le_pow (f : Fmt) : 1 ≤ 2 ^ f.mbits := Nat.pow_pos (by decide)

theorem gcemFloor_value (f : Fmt) (h : Std f) (b : Nat) (hb : b < 2 ^ f.width) :
    Model.gcemFloor f b = .ok (FSpec.roundTo f .floor b) := by
  unfold Model.gcemFloor
  apply check_early f h .floor b hb
  intro hfin h0 hP
  obtain ⟨habs, hn, hi⟩ := fin_facts f b hfin
  rw [toLL_ok_of_small f h b hfin hP, roundTo_small f h .floor b hn hP]
  simp only [bind, Except.bind]
  congr 1
  obtain ⟨hnan0, hinf0⟩ := zero_class f h
  obtain ⟨_, _, _, hz4⟩ := zero_facts f
  have h1m := one_le_pow f
  obtain ⟨ip, fr, hip, hfr, hM, hdiv, hmod, hcase⟩ := cont_ctx f b hb hP
  rw [hdiv, hmod]
  have hl0 := lt_fin f b 0 hn hi hnan0 hinf0
  rw [hz4] at hl0
  -- the patterns +0 and 1 and their negations
  obtain ⟨hZ1, _, _, hZ4, _, hZ6, hZ7, hZ8, hZ9⟩ := ofInt_facts f h 0 (by simp)
  obtain ⟨hO1, _, _, hO4, _, hO6, hO7, hO8, hO9⟩ := ofInt_facts f h 1 (by simpa using h1m)
  obtain ⟨_, hNZ2, _, _, hNZ5, hNZ6, hNZ7, _⟩ := neg_facts f _ hZ1
  obtain ⟨_, hNO2, _, _, hNO5, hNO6, hNO7, _⟩ := neg_facts f _ hO1
  rw [hZ7] at hNZ6; rw [hZ8] at hNZ7; rw [hO7] at hNO6; rw [hO8] at hNO7
  rw [hZ6] at hNZ5; rw [hO6] at hNO5
  generalize hone : 2 ^ f.U = one at *
  generalize hM' : f.mag b = M at *
  rcases hcase with ⟨hs, hsm, htr⟩ | ⟨hs, hsm, htr⟩
  · -- x > 0
    rw [htr, hs]
    obtain ⟨hW1, _, _, hW4, _, hW6, hW7, hW8, _⟩ := ofInt_facts f h (ip : Int) (by simp; omega)
    have hlt : f.lt b 0 = false := by rw [hl0, hsm]; simp <;> omega
    simp only [hlt, Bool.false_and, Bool.false_eq_true, if_false]
    unfold Fmt.sub; rw [hZ7]; simp only [Bool.false_eq_true, if_false]
    rw [add_exact f h _ _ (ip : Int) (-0) hW7 hW8 hNZ6 hNZ7 (by rw [hW6, hone]) (by rw [hNZ5, hone]; simp)
      (by simp; omega)]
    have hr : FSpec.roundedMag .floor ((0 : Nat) == 1) ip fr one = ip := by simp [FSpec.roundedMag]
    rw [hr, hW4]
    by_cases hip0 : ip = 0
    · subst hip0; simp [roundUnits_zero]
    · have : ¬ ((ip : Int) + -0 = 0) := by omega
      rw [if_neg this, show (ip : Int) + -0 = (ip : Int) by omega, ofInt_nat]
  · -- x < 0
    rw [htr, hs]
    obtain ⟨hW1, _, _, hW4, _, hW6, hW7, hW8, _⟩ := ofInt_facts f h (-(ip : Int)) (by simp; omega)
    have hlt : f.lt b 0 = true := by rw [hl0, hsm]; simp <;> omega
    have hlw := lt_fin f b _ hn hi hW7 hW8
    rw [hW6, hsm, hone, Int.neg_mul, ← Int.natCast_mul] at hlw
    generalize hT : ip * one = T at *
    by_cases hfr0 : fr = 0
    · have hlw' : f.lt b (f.ofInt (-(ip : Int))) = false := by rw [hlw]; simp <;> omega
      simp only [hlt, hlw', Bool.and_false, Bool.false_eq_true, if_false]
      unfold Fmt.sub; rw [hZ7]; simp only [Bool.false_eq_true, if_false]
      rw [add_exact f h _ _ (-(ip : Int)) (-0) hW7 hW8 hNZ6 hNZ7 (by rw [hW6, hone]) (by rw [hNZ5, hone]; simp)
        (by simp; omega)]
      have hr : FSpec.roundedMag .floor ((1 : Nat) == 1) ip fr one = ip := by simp [FSpec.roundedMag, hfr0]
      have hip0 : 0 < ip := by
        rcases Nat.eq_zero_or_pos ip with e | e
        · rw [e] at hT; omega
        · exact e
      have : ¬ (-(ip : Int) + -0 = 0) := by omega
      rw [hr, if_neg this, show -(ip : Int) + -0 = -(ip : Int) by omega, ofInt_negNat f ip hip0]
    · have hlw' : f.lt b (f.ofInt (-(ip : Int))) = true := by rw [hlw]; simp <;> omega
      simp only [hlt, hlw', Bool.and_true, if_true]
      unfold Fmt.sub; rw [hO7]; simp only [Bool.false_eq_true, if_false]
      rw [add_exact f h _ _ (-(ip : Int)) (-1) hW7 hW8 hNO6 hNO7 (by rw [hW6, hone]) (by rw [hNO5, hone]; simp)
        (by omega)]
      have hr : FSpec.roundedMag .floor ((1 : Nat) == 1) ip fr one = ip + 1 := by simp [FSpec.roundedMag, hfr0]
      have : ¬ (-(ip : Int) + -1 = 0) := by omega
      rw [hr, if_neg this, show -(ip : Int) + -1 = -((ip + 1 : Nat) : Int) by omega, ofInt_negNat f _ (by omega)]

theorem gcemTrunc_value (f : Fmt) (h : Std f) (b : Nat) (hb : b < 2 ^ f.width) :
    Model.gcemTrunc f b = .ok (FSpec.roundTo f .trunc b) := by
  unfold Model.gcemTrunc
  apply check_early f h .trunc b hb
  intro hfin h0 hP
  obtain ⟨habs, hn, hi⟩ := fin_facts f b hfin
  rw [roundTo_small f h .trunc b hn hP]
  obtain ⟨hnan0, hinf0⟩ := zero_class f h
  obtain ⟨_, _, _, hz4⟩ := zero_facts f
  obtain ⟨ip, fr, hip, hfr, hM, hdiv, hmod, hcase⟩ := cont_ctx f b hb hP
  have hl0 := lt_fin f b 0 hn hi hnan0 hinf0
  rw [hz4] at hl0
  have hr : FSpec.roundedMag .trunc (f.sign b == 1) (f.mag b / 2 ^ f.U) (f.mag b % 2 ^ f.U) (2 ^ f.U) = ip := by
    rw [hdiv]; rfl
  rw [hr]
  rcases hcase with ⟨hs, hsm, htr⟩ | ⟨hs, hsm, htr⟩
  · have hlt : f.lt b 0 = false := by rw [hl0, hsm]; simp <;> omega
    simp only [hlt, Bool.false_eq_true, if_false]
    rw [toLL_ok_of_small f h b hfin hP]
    simp only [bind, Except.bind]
    rw [htr, hs, ofInt_nat]
  · have hlt : f.lt b 0 = true := by rw [hl0, hsm]; simp <;> omega
    simp only [hlt, if_true]
    obtain ⟨hN1, hN2, _, hN4, _, _, _, hN8⟩ := neg_facts f b hb
    rw [hfin] at hN8
    rw [toLL_ok_of_small f h (f.neg b) hN8 (by rw [hN4]; exact hP)]
    simp only [bind, Except.bind]
    have htrN : f.truncInt (f.neg b) = (ip : Int) := by
      have : f.truncInt (f.neg b) = if f.sign (f.neg b) = 1 then -((f.mag (f.neg b) / 2 ^ f.U : Nat) : Int)
          else ((f.mag (f.neg b) / 2 ^ f.U : Nat) : Int) := rfl
      rw [this, hN2, hs, hN4, hdiv]; simp
    rw [htrN, hs]
    obtain ⟨hW1, _, hW3, hW4, _⟩ := ofInt_facts f h (ip : Int) (by simp; omega)
    rw [neg_eq f _ hW1, hW3, hW4]
    have : ¬ ((ip : Int) < 0) := by omega
    simp only [this, if_false, Int.natAbs_natCast]

theorem gcemCeil_value (f : Fmt) (h : Std f) (b : Nat) (hb : b < 2 ^ f.width) :
    Model.gcemCeil f b = .ok (FSpec.roundTo f .ceil b) := by
  unfold Model.gcemCeil
  apply check_early f h .ceil b hb
  intro hfin h0 hP
  obtain ⟨habs, hn, hi⟩ := fin_facts f b hfin
  rw [toLL_ok_of_small f h b hfin hP, roundTo_small f h .ceil b hn hP]
  simp only [bind, Except.bind]
  obtain ⟨hnan0, hinf0⟩ := zero_class f h
  obtain ⟨hz1, hz2, _, hz4⟩ := zero_facts f
  have h1m := one_le_pow f
  obtain ⟨ip, fr, hip, hfr, hM, hdiv, hmod, hcase⟩ := cont_ctx f b hb hP
  rw [hdiv, hmod]
  have hl0 := lt_fin f b 0 hn hi hnan0 hinf0
  have hl0' := lt_fin f 0 b hnan0 hinf0 hn hi
  rw [hz4] at hl0 hl0'
  obtain ⟨hZ1, _, _, hZ4, _, hZ6, hZ7, hZ8, hZ9⟩ := ofInt_facts f h 0 (by simp)
  obtain ⟨hO1, _, _, hO4, _, hO6, hO7, hO8, hO9⟩ := ofInt_facts f h 1 (by simpa using h1m)
  obtain ⟨hM1, _, _, hM4, _, hM6, hM7, hM8, hM9⟩ := ofInt_facts f h (-1) (by simpa using h1m)
  have hlm := lt_fin f _ b hM7 hM8 hn hi
  rw [hM6] at hlm
  generalize hone : 2 ^ f.U = one at *
  generalize hM' : f.mag b = M at *
  have hTle : 0 < ip → one ≤ ip * one := fun hp => Nat.le_mul_of_pos_left _ hp
  rcases hcase with ⟨hs, hsm, htr⟩ | ⟨hs, hsm, htr⟩
  · -- x > 0
    rw [htr, hs]
    obtain ⟨hW1, _, _, hW4, _, hW6, hW7, hW8, _⟩ := ofInt_facts f h (ip : Int) (by simp; omega)
    have hlt : f.lt b 0 = false := by rw [hl0, hsm]; simp <;> omega
    have hlt' : f.lt 0 b = true := by rw [hl0', hsm]; simp <;> omega
    have hlw := lt_fin f _ b hW7 hW8 hn hi
    rw [hW6, hsm, hone, ← Int.natCast_mul] at hlw
    simp only [hlt, hlt', Bool.false_and, Bool.true_and, Bool.false_eq_true, if_false]
    congr 1
    generalize hT : ip * one = T at *
    by_cases hfr0 : fr = 0
    · have hlw' : f.lt (f.ofInt (ip : Int)) b = false := by rw [hlw]; simp <;> omega
      simp only [hlw', Bool.false_eq_true, if_false]
      rw [add_exact f h _ _ (ip : Int) 0 hW7 hW8 hZ7 hZ8 (by rw [hW6, hone]) (by rw [hZ6, hone])
        (by simp; omega)]
      have hr : FSpec.roundedMag .ceil ((0 : Nat) == 1) ip fr one = ip := by simp [FSpec.roundedMag, hfr0]
      have hip0 : 0 < ip := by
        rcases Nat.eq_zero_or_pos ip with e | e
        · rw [e] at hT; omega
        · exact e
      have : ¬ ((ip : Int) + 0 = 0) := by omega
      rw [hr, if_neg this, show (ip : Int) + 0 = (ip : Int) by omega, ofInt_nat]
    · have hlw' : f.lt (f.ofInt (ip : Int)) b = true := by rw [hlw]; simp <;> omega
      simp only [hlw', if_true]
      rw [add_exact f h _ _ (ip : Int) 1 hW7 hW8 hO7 hO8 (by rw [hW6, hone]) (by rw [hO6, hone])
        (by omega)]
      have hr : FSpec.roundedMag .ceil ((0 : Nat) == 1) ip fr one = ip + 1 := by simp [FSpec.roundedMag, hfr0]
      have : ¬ ((ip : Int) + 1 = 0) := by omega
      rw [hr, if_neg this, show (ip : Int) + 1 = ((ip + 1 : Nat) : Int) by omega, ofInt_nat]
  · -- x < 0
    rw [htr, hs]
    have hlt : f.lt b 0 = true := by rw [hl0, hsm]; simp <;> omega
    have hlt' : f.lt 0 b = false := by rw [hl0', hsm]; simp <;> omega
    rw [hsm] at hlm
    have hr : FSpec.roundedMag .ceil ((1 : Nat) == 1) ip fr one = ip := by simp [FSpec.roundedMag]
    rw [hr]
    by_cases hip0 : ip = 0
    · have hlm' : f.lt (f.ofInt (-1)) b = true := by
        rw [hlm]; subst hip0; simp at hM ⊢; omega
      simp only [hlt, hlm', Bool.and_true, if_true]
      congr 1
      rw [neg_eq f 0 (Nat.pow_pos (by decide)), hz1, hz2, hip0, roundUnits_zero]
    · have hlm' : f.lt (f.ofInt (-1)) b = false := by
        have := hTle (by omega)
        rw [hlm]; simp; omega
      obtain ⟨hW1, _, _, hW4, _, hW6, hW7, hW8, _⟩ := ofInt_facts f h (-(ip : Int)) (by simp; omega)
      simp only [hlt, hlt', hlm', Bool.and_false, Bool.false_and, Bool.false_eq_true, if_false]
      congr 1
      rw [add_exact f h _ _ (-(ip : Int)) 0 hW7 hW8 hZ7 hZ8 (by rw [hW6, hone]) (by rw [hZ6, hone])
        (by simp; omega)]
      have : ¬ (-(ip : Int) + 0 = 0) := by omega
      rw [if_neg this, show -(ip : Int) + 0 = -(ip : Int) by omega, ofInt_negNat f ip (by omega)]

end Tetl.C13.Lemmas
