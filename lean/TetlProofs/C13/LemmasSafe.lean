/- C13 helper lemmas, part 2: the guards of gcem's `*_check` and of `rint_fallback` leave a finite pattern below 2^mbits,
   whose conversion to `long long` is defined. -/
import TetlProofs.C13.Lemmas
namespace Tetl.C13.Lemmas
open Tetl Tetl.C13 Tetl.C13.Fmt

/-- the magnitude depends on the pattern without its sign bit only -/
theorem mant_absBits (f : Fmt) (b : Nat) : f.mant b = f.absBits b % 2 ^ f.mbits := by
  unfold Fmt.mant Fmt.absBits Fmt.signW
  rw [Nat.pow_add, Nat.mod_mul_left_mod]

theorem absBits_absBits (f : Fmt) (b : Nat) : f.absBits (f.absBits b) = f.absBits b := by
  unfold Fmt.absBits; exact Nat.mod_mod _ _

theorem mag_absBits (f : Fmt) (b : Nat) : f.mag (f.absBits b) = f.mag b := by
  unfold Fmt.mag Fmt.expo
  rw [mant_absBits f (f.absBits b), mant_absBits f b, absBits_absBits]

theorem mag_withSign (f : Fmt) (s a : Nat) (hs : s = 0 ∨ s = 1) (ha : a < f.signW) :
    f.mag (f.withSign s a) = f.mag a := by
  rw [← mag_absBits, (sign_withSign f s a hs ha).2]

theorem mag_neg (f : Fmt) (b : Nat) (hb : b < 2 ^ f.width) : f.mag (f.neg b) = f.mag b := by
  obtain ⟨hs, _, habs⟩ := split f b hb
  rw [neg_eq f b hb, mag_withSign f _ _ (by omega) habs, mag_absBits]

end Tetl.C13.Lemmas

namespace Tetl.C13.Lemmas
open Tetl Tetl.C13 Tetl.C13.Fmt

/-- the formats the theorems are about: at least two exponent bits, at least one fraction bit, integers up to 2^mbits
    representable below the infinity exponent, and 2^mbits within `long long` (binary32, binary64 — not x87 extended) -/
structure Std (f : Fmt) : Prop where
  bias1 : 1 ≤ f.bias
  mbits1 : 1 ≤ f.mbits
  mbits62 : f.mbits ≤ 62
  room : f.bias + f.mbits < f.emax

theorem std_f32 : Std f32 := ⟨by decide, by decide, by decide, by decide⟩
theorem std_f64 : Std f64 := ⟨by decide, by decide, by decide, by decide⟩

theorem zero_facts (f : Fmt) : f.absBits 0 = 0 ∧ f.sign 0 = 0 ∧ f.mag 0 = 0 ∧ f.smag 0 = 0 := by
  have h1 : f.absBits 0 = 0 := by unfold Fmt.absBits; exact Nat.zero_mod _
  have h2 : f.sign 0 = 0 := by unfold Fmt.sign; simp
  have h3 : f.mag 0 = 0 := by unfold Fmt.mag Fmt.expo Fmt.mant; simp [h1]
  refine ⟨h1, h2, h3, ?_⟩
  unfold Fmt.smag; simp [h2, h3]

theorem inf_pos (f : Fmt) (h : Std f) : 0 < f.inf := by
  unfold Fmt.inf
  have : 0 < f.emax := by have := h.room; omega
  exact Nat.mul_pos this (Nat.pow_pos (by decide))

theorem big_facts (f : Fmt) (h : Std f) :
    Model.big f < f.inf ∧ f.inf ≤ f.signW ∧ f.absBits (Model.big f) = Model.big f ∧ f.sign (Model.big f) = 0 ∧
    f.mag (Model.big f) = 2 ^ f.mbits * 2 ^ f.U := by
  have hp : 0 < 2 ^ f.mbits := Nat.pow_pos (by decide)
  have h1 : Model.big f < f.inf := by
    unfold Model.big Fmt.inf; exact Nat.mul_lt_mul_of_pos_right h.room hp
  have h2 : f.inf ≤ f.signW := by
    unfold Fmt.inf Fmt.signW Fmt.emax; rw [Nat.pow_add]
    exact Nat.mul_le_mul_right _ (Nat.sub_le _ _)
  have h3 : f.absBits (Model.big f) = Model.big f := by
    unfold Fmt.absBits; exact Nat.mod_eq_of_lt (by omega)
  have h4 : f.sign (Model.big f) = 0 := by
    unfold Fmt.sign; rw [Nat.div_eq_of_lt (by omega)]
  refine ⟨h1, h2, h3, h4, ?_⟩
  have he : f.expo (Model.big f) = f.bias + f.mbits := by
    unfold Fmt.expo; rw [h3]; unfold Model.big; exact Nat.mul_div_cancel _ hp
  have hm : f.mant (Model.big f) = 0 := by
    unfold Fmt.mant Model.big; exact Nat.mul_mod_left _ _
  unfold Fmt.mag
  have hb := h.bias1
  have hne : f.bias + f.mbits ≠ 0 := by omega
  simp only [he, hm, hne, if_false, Nat.add_zero]
  unfold Fmt.U
  rw [show f.bias + f.mbits - 1 = f.bias - 1 + f.mbits by omega]

end Tetl.C13.Lemmas

namespace Tetl.C13.Lemmas
open Tetl Tetl.C13 Tetl.C13.Fmt

/-- a finite value below 2^mbits in magnitude converts to `long long` without overflow -/
theorem toLL_ok_of_small (f : Fmt) (h : Std f) (b : Nat) (hfin : f.isFinite b = true)
    (hsmall : f.mag b < 2 ^ f.mbits * 2 ^ f.U) : Model.toLL f b = .ok (f.truncInt b) := by
  unfold Model.toLL
  simp only [hfin, Bool.not_true, Bool.false_eq_true, if_false]
  have hq : f.mag b / 2 ^ f.U < 2 ^ f.mbits := (Nat.div_lt_iff_lt_mul (Nat.pow_pos (by decide))).2 hsmall
  have hle : 2 ^ f.mbits ≤ 2 ^ 62 := Nat.pow_le_pow_right (by decide) h.mbits62
  have e62 : (2 : Nat) ^ 62 = 4611686018427387904 := by decide
  have e63 : (2 : Int) ^ 63 = 9223372036854775808 := by decide
  have htr : f.truncInt b = if f.sign b = 1 then -((f.mag b / 2 ^ f.U : Nat) : Int) else ((f.mag b / 2 ^ f.U : Nat) : Int) := rfl
  have hrange : -(2 ^ 63 : Int) ≤ f.truncInt b ∧ f.truncInt b < (2 ^ 63 : Int) := by
    rw [htr, e63]
    generalize f.mag b / 2 ^ f.U = q at *
    split <;> omega
  rw [if_pos hrange]

/-- what the guards of `check` leave: a finite pattern with |x| < 2^mbits -/
theorem small_of_guards (f : Fmt) (h : Std f) (b : Nat) (hb : b < 2 ^ f.width)
    (h1 : f.feq b b = true) (h2 : f.isInf b = false) (h3 : f.feq b 0 = false)
    (h4 : Model.ge f (Model.gabs f b) (Model.big f) = false) :
    f.isFinite b = true ∧ f.mag b < 2 ^ f.mbits * 2 ^ f.U := by
  obtain ⟨hz1, hz2, hz3, hz4⟩ := zero_facts f
  obtain ⟨hB1, hB2, hB3, hB4, hB5⟩ := big_facts f h
  have hinf := inf_pos f h
  obtain ⟨hs, _, habs⟩ := split f b hb
  generalize 2 ^ f.mbits * 2 ^ f.U = P at *
  -- not NaN, not inf: finite
  have hnan : f.isNaN b = false := by
    cases hn : f.isNaN b
    · rfl
    · unfold Fmt.feq at h1; simp [hn] at h1
  have hfin : f.isFinite b = true := by
    unfold Fmt.isNaN at hnan; unfold Fmt.isInf at h2; unfold Fmt.isFinite
    simp at hnan h2 ⊢; omega
  have hnan0 : f.isNaN 0 = false := by unfold Fmt.isNaN; simp [hz1]
  have hinf0 : f.isInf 0 = false := by unfold Fmt.isInf; simp [hz1]; omega
  have hnanB : f.isNaN (Model.big f) = false := by unfold Fmt.isNaN; simp [hB3]; omega
  have hinfB : f.isInf (Model.big f) = false := by unfold Fmt.isInf; simp [hB3]; omega
  -- x == 0 is false: the signed magnitude is not 0
  have hne : f.smag b ≠ 0 := by
    unfold Fmt.feq at h3; simp [hnan, hnan0, h2, hinf0, hz4] at h3; exact h3
  -- |x| as computed by gcem::abs has signed magnitude mag b
  have hg : f.isNaN (Model.gabs f b) = false ∧ f.isInf (Model.gabs f b) = false ∧
      f.smag (Model.gabs f b) = (f.mag b : Int) := by
    unfold Model.gabs
    simp only [h3, Bool.false_eq_true, if_false]
    by_cases hl : f.lt b 0 = true
    · simp only [hl, if_true]
      have hsgn : f.sign b = 1 := by
        unfold Fmt.lt at hl; simp [hnan, hnan0, h2, hinf0, hz4] at hl
        unfold Fmt.smag at hl
        rcases hs with h0 | h1'
        · simp [h0] at hl; omega
        · exact h1'
      have hneg := neg_eq f b hb
      rw [hsgn] at hneg
      have hsw := sign_withSign f 0 (f.absBits b) (Or.inl rfl) habs
      have hnn : f.isNaN (f.neg b) = false := by
        unfold Fmt.isNaN at hnan ⊢; rw [hneg, hsw.2]; exact hnan
      have hni : f.isInf (f.neg b) = false := by
        unfold Fmt.isInf at h2 ⊢; rw [hneg, hsw.2]; exact h2
      refine ⟨hnn, hni, ?_⟩
      unfold Fmt.smag
      rw [mag_neg f b hb, hneg, hsw.1]; simp
    · have hl' : f.lt b 0 = false := by simpa using hl
      simp only [hl', Bool.false_eq_true, if_false]
      refine ⟨hnan, h2, ?_⟩
      unfold Fmt.lt at hl'; simp [hnan, hnan0, h2, hinf0, hz4] at hl'
      unfold Fmt.smag at hl' hne ⊢
      rcases hs with h0 | h1'
      · simp [h0]
      · simp [h1'] at hl' hne ⊢; omega
  obtain ⟨hg1, hg2, hg3⟩ := hg
  have hsB : f.smag (Model.big f) = (P : Int) := by
    unfold Fmt.smag; simp [hB4, hB5]
  unfold Model.ge at h4
  unfold Fmt.lt Fmt.feq at h4
  simp [hg1, hg2, hnanB, hinfB, hg3, hsB] at h4
  refine ⟨hfin, ?_⟩
  omega

end Tetl.C13.Lemmas

namespace Tetl.C13.Lemmas
open Tetl Tetl.C13 Tetl.C13.Fmt

/-- `check` either returns at one of its guards or runs its continuation on a finite pattern with |x| < 2^mbits -/
theorem check_cases (f : Fmt) (h : Std f) (b : Nat) (hb : b < 2 ^ f.width) (k : Except Err Nat) :
    (∃ v, Model.check f b k = .ok v) ∨
    (Model.check f b k = k ∧ f.isFinite b = true ∧ f.mag b < 2 ^ f.mbits * 2 ^ f.U) := by
  unfold Model.check
  cases h1 : f.feq b b
  · left; exact ⟨f.qnan, by simp⟩
  · cases h2 : f.isInf b
    · cases h3 : f.feq b 0
      · cases h4 : Model.ge f (Model.gabs f b) (Model.big f)
        · right
          have := small_of_guards f h b hb h1 h2 h3 h4
          simp [this]
        · left; exact ⟨b, by simp⟩
      · left; exact ⟨b, by simp⟩
    · left; exact ⟨b, by simp⟩

end Tetl.C13.Lemmas

namespace Tetl.C13.Lemmas
open Tetl
theorem ite_ok (c : Prop) [Decidable c] (x y : Nat) :
    ∃ v, (if c then Except.ok x else Except.ok y : Except Err Nat) = .ok v := by
  split <;> exact ⟨_, rfl⟩

end Tetl.C13.Lemmas
