/-
C10 — the reference digit list is Mathlib's `Nat.digits` (least significant first) reversed, and the
reference value function inverts it (`Nat.ofDigits`).
-/
import Mathlib.Data.Nat.Digits.Defs
import TetlProofs.C10.Parse
namespace Tetl.C10
open Tetl

theorem digits_eq_natDigits {b : Nat} (hb : 2 ≤ b) (n : Nat) : Spec.digits b n = (Nat.digits b n).reverse := by
  induction n using Spec.digits.induct b with
  | case1 x h =>
    rcases h with h | h
    · subst h; rw [digits_zero]; simp
    · omega
  | case2 x h ih =>
    have hx : x ≠ 0 := by omega
    rw [digits_pos hb hx, ih, Nat.digits_def' (by omega) (Nat.pos_of_ne_zero hx)]
    simp

end Tetl.C10
