/-
C10 — property theorems.  All statements are for every integer type `t = (bits, signed)`,
every base `2..36`, every value of the type, every buffer / input string.
-/
import TetlProofs.C10.Parse
import TetlProofs.C10.Strto
import TetlProofs.C10.Unchecked
import TetlProofs.C10.SpecMathlib
import TetlProofs.C06.Props
namespace Tetl.C10.Props
open Tetl Tetl.C10

/-! ## formatting -/

/-- `from_integer` (with or without terminator) never writes outside `[str, str+length)`, never
    overflows an intermediate, and produces exactly: overflow when sign + digits (+ NUL) do not fit,
    otherwise sign + digits most significant first (+ NUL) followed by the untouched rest of the
    buffer, `end` = number of characters without the NUL. -/
theorem fromInteger_eq (t : IntTy) (term : Bool) (v : Int) (buf : List Nat) (b : Nat)
    (hb : 2 ≤ b ∧ b ≤ 36) (hv : t.inRange v = true) :
    fromInteger t term v buf b = .ok (Spec.fromInteger term v b buf) := by
  unfold fromInteger
  have hbase : (((b : Int) < 2) || decide ((b : Int) > 36)) = false := by
    simp only [Bool.or_eq_false_iff, decide_eq_false_iff_not]; omega
  simp only [hbase, hv, Bool.false_eq_true, if_false, Bool.not_true]
  by_cases h0 : v = 0
  · subst h0
    simp only [Spec.fromInteger, Spec.render, beq_self_eq_true, if_true]
    cases term <;> cases buf with
    | nil => simp
    | cons r rest =>
      cases rest with
      | nil => simp [wr]
      | cons r2 rest2 => simp [wr]
  · have hne : (v == 0) = false := by simp [h0]
    simp only [hne, Bool.false_eq_true, if_false]
    rw [spec_fromInteger_nonzero term v b buf h0]
    by_cases hneg : v < 0
    · -- negative: the type is signed, a minus sign is written first
      have hs : t.signed = true := by
        cases hsg : t.signed with
        | true => rfl
        | false => have := IntTy.nonneg_of_unsigned hsg hv; omega
      have hv' : v = sgn true v.natAbs := by simp only [sgn, if_true]; omega
      have hn : v.natAbs ≠ 0 := by omega
      have hcond : (t.signed && decide (v < 0)) = true := by simp [hs, hneg]
      simp only [hcond, if_true]
      have hk := digits_ne_nil hb.1 hn
      by_cases hsmall : buf.length < 0 + 1 + (if term then 1 else 0)
      · have hfit2 : ¬ (if v < 0 then 1 else 0) + (Spec.digits b v.natAbs).length + (if term then 1 else 0)
            ≤ buf.length := by simp only [hneg, if_true]; omega
        rw [if_pos hsmall, if_neg hfit2]
      · rw [if_neg hsmall]
        cases buf with
        | nil => simp only [List.length_nil] at hsmall; omega
        | cons r rest =>
          have hw : wr (r :: rest) 0 45 = .ok ([45] ++ rest) := by simp [wr]
          rw [hw]
          simp only [ok_bind]
          have hfb := fiBody_spec t b hb.1 term true v.natAbs hn [45] rest rfl (hv' ▸ hv)
          rw [← hv'] at hfb
          simp only [List.length_cons, List.length_nil, Nat.zero_add] at hfb
          rw [hfb, map_digitChar]
          by_cases hfit : (Spec.digits b v.natAbs).length + (if term then 1 else 0) ≤ rest.length
          · have hfit2 : (if v < 0 then 1 else 0) + (Spec.digits b v.natAbs).length + (if term then 1 else 0)
                ≤ (r :: rest).length := by simp only [hneg, if_true, List.length_cons]; omega
            rw [if_pos hfit, if_pos hfit2]
            simp only [hneg, if_true]
            have e : 1 + (Spec.digits b v.natAbs).length + (if term then 1 else 0)
                = ((Spec.digits b v.natAbs).length + (if term then 1 else 0)) + 1 := by omega
            rw [e, List.drop_succ_cons]
          · have hfit2 : ¬ (if v < 0 then 1 else 0) + (Spec.digits b v.natAbs).length + (if term then 1 else 0)
                ≤ (r :: rest).length := by simp only [hneg, if_true, List.length_cons]; omega
            rw [if_neg hfit, if_neg hfit2]
    · -- positive
      have hpos : 0 < v := by omega
      have hv' : v = sgn false v.natAbs := by simp only [sgn, Bool.false_eq_true, if_false]; omega
      have hn : v.natAbs ≠ 0 := by omega
      have hcond : (t.signed && decide (v < 0)) = false := by simp [hneg]
      simp only [hcond, Bool.false_eq_true, if_false]
      simp only [hneg, if_false]
      have hfb := fiBody_spec t b hb.1 term false v.natAbs hn [] buf rfl (hv' ▸ hv)
      rw [← hv'] at hfb
      simp only [List.nil_append, List.length_nil, Nat.zero_add] at hfb
      rw [hfb, map_digitChar]
      simp only [List.nil_append, Nat.zero_add]

/-- non-vacuity of `fromInteger_eq`: `INT8_MIN` in base 2 with terminator into an exact-fit buffer -/
example : fromInteger ⟨8, true⟩ true (-128) (List.replicate 10 170) 2
    = .ok (.done [45, 49, 48, 48, 48, 48, 48, 48, 48, 0] 9) := by rfl

/-- `etl::reverse(str + isNegative, str + i)` inside `from_integer`: the model's `revRange` (the contract: the
    sub-range reversed, everything else unchanged) is what the swap loop of `etl::reverse` does on pointers
    (the random-access branch, model `Tetl.C06.reverseRA`) — C06's theorem `Tetl.C06.Props.reverseRA_eq`, for every
    buffer and every `[s, e)` inside it.  So `fromInteger_eq` is a statement about the loop, not about a stated
    contract. -/
theorem revRange_is_etl_reverse (buf : List Nat) (s e : Nat) (h : s ≤ e ∧ e ≤ buf.length) :
    Tetl.C06.reverseRA buf s e = revRange buf s e := by
  have hdec : buf = buf.take s ++ (buf.drop s).take (e - s) ++ buf.drop e := by
    have h1 : buf.drop s = (buf.drop s).take (e - s) ++ (buf.drop s).drop (e - s) := (List.take_append_drop _ _).symm
    have h2 : (buf.drop s).drop (e - s) = buf.drop e := by rw [List.drop_drop]; congr 1; omega
    rw [h2] at h1
    rw [List.append_assoc, ← h1, List.take_append_drop]
  have hl1 : (buf.take s).length = s := by rw [List.length_take]; omega
  have hl2 : s + ((buf.drop s).take (e - s)).length = e := by
    rw [List.length_take, List.length_drop]; omega
  have key := Tetl.C06.Props.reverseRA_eq (buf.take s) ((buf.drop s).take (e - s)) (buf.drop e)
  rw [← hdec, hl1, hl2] at key
  rw [key]
  unfold revRange
  rw [if_pos h]

example : Tetl.C06.reverseRA [45, 51, 50, 49, 170] 1 4 = .ok [45, 49, 50, 51, 170] ∧
    revRange [45, 51, 50, 49, 170] 1 4 = .ok [45, 49, 50, 51, 170] := by
  refine ⟨by rfl, by rfl⟩

/-- `to_chars`: `{first + n, {}}` with exactly the `n` characters of the value when they fit into
    `[first, last)` — an exact fit included — and `{last, value_too_large}` otherwise; nothing outside
    `[first, last)` is written (every write is checked) and the bytes after `ptr` keep their value. -/
theorem toChars_eq (t : IntTy) (v : Int) (buf : List Nat) (b : Nat)
    (hb : 2 ≤ b ∧ b ≤ 36) (hv : t.inRange v = true) :
    toChars t v buf b = .ok (Spec.toChars v b buf) := by
  unfold toChars
  rw [fromInteger_eq t false v buf b hb hv]
  simp only [ok_bind, Spec.fromInteger, Spec.toChars, Bool.false_eq_true, if_false]
  by_cases hfit : (Spec.render v b).length ≤ buf.length
  · rw [if_pos hfit, if_pos hfit]
  · rw [if_neg hfit, if_neg hfit]

example : toChars ⟨32, true⟩ 123 [170, 170, 170] 10 = .ok (.ok [49, 50, 51] 3) := by rfl

/-- `to_string<Capacity>`: the decimal text, whenever `Capacity` exceeds its length (the documented
    precondition: digits and terminator fit) -/
theorem toStr_eq (t : IntTy) (cap : Nat) (v : Int) (hv : t.inRange v = true)
    (hcap : (Spec.render v 10).length < cap) :
    toStr t cap v = .ok (Spec.render v 10) := by
  unfold toStr
  have h := fromInteger_eq t true v (List.replicate cap 0) 10 (by omega) hv
  have e : ((10 : Nat) : Int) = (10 : Int) := rfl
  rw [e] at h
  rw [h]
  simp only [ok_bind, Spec.fromInteger, if_true]
  have : (Spec.render v 10 ++ [0]).length ≤ (List.replicate cap 0).length := by simp; omega
  rw [if_pos this]
  simp

example : toStr ⟨32, true⟩ 12 (-2147483648) = .ok [45, 50, 49, 52, 55, 52, 56, 51, 54, 52, 56] := by rfl

/-! ## parsing

`Bytes s` (every code unit is < 256) is the only hypothesis besides the documented `2 ≤ base ≤ 36`
and `8 ≤ bits` (so that the type holds the base; true for every C++ integer type). -/

/-- `to_integer` (with or without white-space skipping) reads only inside the string, never overflows
    an intermediate (no UB for `int`/`long`), and returns exactly the outcome of the reference pattern
    *optional white space, optional `-` for signed types, longest digit run*: the value and the number
    of consumed characters when the value is representable, `invalid_input` when there is no digit,
    `overflow` when — and only when — the digits denote a value outside `[min, max]`
    (`end = begin`, `value = 0` on both errors, as its tests require). -/
theorem toInteger_eq (t : IntTy) (h8 : 8 ≤ t.bits) (ws : Bool) (s : List Nat) (hbytes : ∀ c ∈ s, c < 256)
    (b : Nat) (hb : 2 ≤ b ∧ b ≤ 36) :
    toInteger t ws s b = .ok (TIRes.ofSpec (Spec.parse t ws s b)) :=
  toInteger_spec t h8 ws s hbytes b hb

/-- non-vacuity: `" -128x"` as `int8_t`, base 10, with white-space skipping -/
example : toInteger ⟨8, true⟩ true [32, 45, 49, 50, 56, 120] 10 = .ok ⟨5, .none, -128⟩ := by rfl

/-- overflow is reported exactly at the type's limits: `to_integer` returns `overflow` iff the text has
    a digit run whose value (with its sign) is not representable. -/
theorem overflow_exact (t : IntTy) (h8 : 8 ≤ t.bits) (ws : Bool) (s : List Nat) (hbytes : ∀ c ∈ s, c < 256)
    (b : Nat) (hb : 2 ≤ b ∧ b ≤ 36) :
    ∃ r, toInteger t ws s b = .ok r ∧ (r.err = .overflow ↔ ∃ n, Spec.parse t ws s b = .range n) := by
  refine ⟨_, toInteger_eq t h8 ws s hbytes b hb, ?_⟩
  cases Spec.parse t ws s b <;> simp [TIRes.ofSpec, TIRes.mkErr]

example : (toInteger ⟨8, true⟩ false [49, 50, 56] 10).toOption.map (·.err) = some .overflow := by rfl
example : (toInteger ⟨8, true⟩ false [49, 50, 55] 10).toOption.map (·.err) = some .none := by rfl

/-- base 0 (what `strtol(.., 0)` and the other wrappers pass on): `to_integer` takes the base from the text
    after the optional `-` — `0x`/`0X` + hex digit = 16 with the prefix consumed, another leading `0` = 8,
    otherwise 10 — and then behaves as above: for every byte string it reads only inside the string, never
    overflows an intermediate (in particular never divides by the base 0) and returns the outcome of the
    reference pattern `Spec.parseAuto`. -/
theorem toInteger_auto_eq (t : IntTy) (h8 : 8 ≤ t.bits) (ws : Bool) (s : List Nat) (hbytes : ∀ c ∈ s, c < 256) :
    toInteger t ws s 0 = .ok (TIRes.ofSpec (Spec.parseAuto t ws s)) :=
  toInteger_auto t h8 ws s hbytes

/-- non-vacuity / samples: `" -0X7fg"` (hex, prefix consumed), `"0179"` (octal stops at `9`), `"0xg"` (no hex
    digit after the prefix: the `0` alone), `"12a"` (decimal), `"0x80"` as `int8_t` (overflow in base 16) -/
example : toInteger ⟨32, true⟩ true [32, 45, 48, 88, 55, 102, 103] 0 = .ok ⟨6, .none, -127⟩ := by rfl
example : toInteger ⟨32, true⟩ true [48, 49, 55, 57] 0 = .ok ⟨3, .none, 15⟩ := by rfl
example : toInteger ⟨32, true⟩ true [48, 120, 103] 0 = .ok ⟨1, .none, 0⟩ := by rfl
example : toInteger ⟨32, false⟩ true [49, 50, 97] 0 = .ok ⟨2, .none, 12⟩ := by rfl
example : toInteger ⟨8, true⟩ false [48, 120, 56, 48] 0 = .ok (.mkErr .overflow) := by rfl

/-- overflow with base 0 is reported exactly at the type's limits as well -/
theorem overflow_exact_auto (t : IntTy) (h8 : 8 ≤ t.bits) (ws : Bool) (s : List Nat) (hbytes : ∀ c ∈ s, c < 256) :
    ∃ r, toInteger t ws s 0 = .ok r ∧ (r.err = .overflow ↔ ∃ n, Spec.parseAuto t ws s = .range n) := by
  refine ⟨_, toInteger_auto_eq t h8 ws s hbytes, ?_⟩
  cases Spec.parseAuto t ws s <;> simp [TIRes.ofSpec, TIRes.mkErr]

/-- `check_overflow = false` (`nop_overflow_checker`, a public option of `strings::to_integer`; no wrapper uses
    it): for every input whose digits denote a representable value, and for every input without digits, the
    unchecked configuration reads only inside the string, overflows no intermediate and returns exactly what
    the checked one returns.  The excluded class (`Spec.parse = .range _`) is the one the caller of the option
    promises not to pass; there the result wraps or, for `int`/`long`, is undefined behaviour
    (`toInteger_unchecked_outside`). -/
theorem toInteger_unchecked_eq (t : IntTy) (h8 : 8 ≤ t.bits) (ws : Bool) (s : List Nat) (hbytes : ∀ c ∈ s, c < 256)
    (b : Nat) (hb : 2 ≤ b ∧ b ≤ 36) (hnr : ∀ n, Spec.parse t ws s b ≠ .range n) :
    toIntegerNC t ws s b = .ok (TIRes.ofSpec (Spec.parse t ws s b)) := by
  apply toIntegerNC_of t ws s b _ (toInteger_eq t h8 ws s hbytes b hb)
  cases h : Spec.parse t ws s b with
  | ok v n => simp [TIRes.ofSpec]
  | invalid => simp [TIRes.ofSpec, TIRes.mkErr]
  | range n => exact absurd h (hnr n)

/-- the same with base 0 -/
theorem toInteger_unchecked_auto_eq (t : IntTy) (h8 : 8 ≤ t.bits) (ws : Bool) (s : List Nat)
    (hbytes : ∀ c ∈ s, c < 256) (hnr : ∀ n, Spec.parseAuto t ws s ≠ .range n) :
    toIntegerNC t ws s 0 = .ok (TIRes.ofSpec (Spec.parseAuto t ws s)) := by
  apply toIntegerNC_of t ws s 0 _ (toInteger_auto_eq t h8 ws s hbytes)
  cases h : Spec.parseAuto t ws s with
  | ok v n => simp [TIRes.ofSpec]
  | invalid => simp [TIRes.ofSpec, TIRes.mkErr]
  | range n => exact absurd h (hnr n)

/-- non-vacuity: `"-128"` as `int8_t` and `" 0x7fffffff"` with base 0 as `int` satisfy the hypothesis -/
example : (∀ n, Spec.parse ⟨8, true⟩ false [45, 49, 50, 56] 10 ≠ .range n) ∧
    toIntegerNC ⟨8, true⟩ false [45, 49, 50, 56] 10 = .ok ⟨4, .none, -128⟩ := by
  refine ⟨?_, by rfl⟩
  have e : Spec.parse ⟨8, true⟩ false [45, 49, 50, 56] 10 = .ok (-128) 4 := by rfl
  intro n h; rw [e] at h; cases h
example : toIntegerNC ⟨32, true⟩ true [32, 48, 120, 55, 102, 102, 102, 102, 102, 102, 102] 0
    = .ok ⟨11, .none, 2147483647⟩ := by rfl

/-- outside the class nothing is promised: `"256"` as `uint8_t` wraps to 0 (the checked configuration reports
    `overflow`), `"2147483648"` as `int` is a signed overflow (undefined behaviour: the model's `.error`) -/
theorem toInteger_unchecked_outside :
    Spec.parse ⟨8, false⟩ false [50, 53, 54] 10 = .range 3 ∧
    toIntegerNC ⟨8, false⟩ false [50, 53, 54] 10 = .ok ⟨3, .none, 0⟩ ∧
    toInteger ⟨8, false⟩ false [50, 53, 54] 10 = .ok (.mkErr .overflow) ∧
    Spec.parse ⟨32, true⟩ false [50, 49, 52, 55, 52, 56, 51, 54, 52, 57] 10 = .range 10 ∧
    toIntegerNC ⟨32, true⟩ false [50, 49, 52, 55, 52, 56, 51, 54, 52, 57] 10 = .error (.pre "signed integer overflow") := by
  refine ⟨by rfl, by rfl, by rfl, by rfl, by rfl⟩

/-- `from_chars` for every input whose digits denote a representable value or that has no digits:
    value, `ptr` and `ec` are those of [charconv.from.chars].  The excluded class
    (`Spec.parse = .range _`) is finding F-C10-from-chars-ptr-on-overflow. -/
theorem fromChars_eq_partial (t : IntTy) (h8 : 8 ≤ t.bits) (s : List Nat) (hbytes : ∀ c ∈ s, c < 256)
    (b : Nat) (hb : 2 ≤ b ∧ b ≤ 36) (hnr : ∀ n, Spec.parse t false s b ≠ .range n) :
    fromChars t s b = .ok (match Spec.parse t false s b with
      | .ok v n => .ok v n
      | .invalid => .invalid 0
      | .range n => .range n) := by
  unfold fromChars
  rw [toInteger_eq t h8 false s hbytes b hb]
  cases h : Spec.parse t false s b with
  | ok v n => rfl
  | invalid => rfl
  | range n => exact absurd h (hnr n)

example : ∀ n, Spec.parse ⟨16, false⟩ false [55, 102, 70, 33] 16 ≠ .range n := by
  intro n h
  have e : Spec.parse ⟨16, false⟩ false [55, 102, 70, 33] 16 = .ok 2047 3 := by rfl
  rw [e] at h; cases h

/-- In the excluded class the error class is still exact (`result_out_of_range`); only `ptr` deviates:
    the model (like the code) returns `first`. -/
theorem fromChars_range (t : IntTy) (h8 : 8 ≤ t.bits) (s : List Nat) (hbytes : ∀ c ∈ s, c < 256)
    (b : Nat) (hb : 2 ≤ b ∧ b ≤ 36) (n : Nat) (h : Spec.parse t false s b = .range n) :
    fromChars t s b = .ok (.range 0) := by
  unfold fromChars
  rw [toInteger_eq t h8 false s hbytes b hb, h]
  rfl

/-- the class contains a failing input: `"128"` as `int8_t` — the standard requires `ptr = first + 3` -/
theorem fromChars_ptr_counterexample :
    fromChars ⟨8, true⟩ [49, 50, 56] 10 = .ok (.range 0) ∧
    Spec.parse ⟨8, true⟩ false [49, 50, 56] 10 = .range 3 := by
  constructor <;> rfl

/-! ## round trip -/

/-- Formatting a value into any buffer that is large enough and parsing the written characters returns
    the value and consumes exactly what was written — for every type, value and base. -/
theorem round_trip (t : IntTy) (h8 : 8 ≤ t.bits) (v : Int) (hv : t.inRange v = true) (b : Nat)
    (hb : 2 ≤ b ∧ b ≤ 36) (buf : List Nat) (hfit : (Spec.render v b).length ≤ buf.length) :
    ∃ out p, toChars t v buf b = .ok (.ok out p) ∧ fromChars t (out.take p) b = .ok (.ok v p) := by
  refine ⟨Spec.render v b ++ buf.drop (Spec.render v b).length, (Spec.render v b).length, ?_, ?_⟩
  · rw [toChars_eq t v buf b hb hv]
    simp [Spec.toChars, hfit]
  · have htake : (Spec.render v b ++ buf.drop (Spec.render v b).length).take (Spec.render v b).length
        = Spec.render v b := by simp
    rw [htake]
    have hp := parse_render t v hv b hb
    rw [fromChars_eq_partial t h8 _ (render_bytes v b hb) b hb (by rw [hp]; intro n h; cases h), hp]

example : toChars ⟨32, true⟩ (-255) (List.replicate 3 0) 16 = .ok (.ok [45, 102, 102] 3) := by rfl
example : fromChars ⟨32, true⟩ [45, 102, 102] 16 = .ok (.ok (-255) 3) := by rfl

/-! ## the `strto*` / `sto*` / `ato*` family

`strtol`, `strtoll`, `strtoul`, `strtoull`, `atoi`, `atol`, `atoll`, `stoi` … `stoull` are
`strings::detail::strto_integer` on the C string / view: white space, one sign `+`/`-`, a `0x`/`0X` prefix in
base 16 (base 0 is detected by `to_integer`), the digits converted by `to_integer` in the unsigned type, negation
in the unsigned type, saturation at the limits.  The reference is the C grammar `Spec.strto` (C17 7.22.1.4).
`errno = ERANGE` is outside the model (a freestanding library has no `errno`): the theorems are about the value
and the end pointer / `*pos`; `Spec.StrtoRes.erange` is only used by the run to mask `ato*` (undefined behaviour
in C when the value is not representable) and to recognise where `std::sto*` throw. -/

/-- value and end pointer / `*pos` equal the C library's for EVERY text and every base 0, 2..36: a leading `+`,
    `-` with an unsigned result type (negation modulo `2^bits`), a `0x`/`0X` prefix with base 16 or 0, saturation
    to `max()` / `min()` with the end behind the digits.  (Before the repairs F-C10-cstdlib-plus-sign,
    F-C10-strtoul-minus, F-C10-cstdlib-base-prefix and F-C10-cstdlib-range this held only outside those four
    input classes: `strto_eq_partial`.)  Every read is inside the text (`.ok`). -/
theorem strto_eq (t : IntTy) (h8 : 8 ≤ t.bits) (s : List Nat) (hbytes : ∀ c ∈ s, c < 256)
    (b : Nat) (hb : b = 0 ∨ (2 ≤ b ∧ b ≤ 36)) :
    strto t s b = .ok ((Spec.strto t s b).value, (Spec.strto t s b).endPos) :=
  strto_spec t h8 s hbytes b hb

/-- non-vacuity / the witnesses of the four repaired findings: `" +12"`, `"0x1f"` in base 16, eleven `9`s as `int`
    (saturation, end behind the digits), `"-1"` as `unsigned long` -/
example : strto ⟨64, true⟩ [32, 43, 49, 50] 10 = .ok (12, 4) ∧
    Spec.strto ⟨64, true⟩ [32, 43, 49, 50] 10 = ⟨12, 4, false⟩ := by refine ⟨by rfl, by rfl⟩
example : strto ⟨64, true⟩ [48, 120, 49, 102] 16 = .ok (31, 4) ∧
    Spec.strto ⟨64, true⟩ [48, 120, 49, 102] 16 = ⟨31, 4, false⟩ := by refine ⟨by rfl, by rfl⟩
example : strto ⟨32, true⟩ [57, 57, 57, 57, 57, 57, 57, 57, 57, 57, 57] 10 = .ok (2147483647, 11) ∧
    Spec.strto ⟨32, true⟩ [57, 57, 57, 57, 57, 57, 57, 57, 57, 57, 57] 10 = ⟨2147483647, 11, true⟩ := by
  refine ⟨by rfl, by rfl⟩
example : strto ⟨64, false⟩ [45, 49] 10 = .ok (18446744073709551615, 2) ∧
    Spec.strto ⟨64, false⟩ [45, 49] 10 = ⟨18446744073709551615, 2, false⟩ := by refine ⟨by rfl, by rfl⟩
/-- further samples: `"  -7fz"` in base 16; base 0: `"\t-0x1Fg"`, `"0755 "`, the lone `"0x"`; `LONG_MIN` exactly and
    one below (saturates); twenty-one `9`s as `unsigned long` with a `-` (saturates to `ULONG_MAX`) -/
example : strto ⟨64, true⟩ [32, 32, 45, 55, 102, 122] 16 = .ok (-127, 5) := by rfl
example : strto ⟨64, true⟩ [9, 45, 48, 120, 49, 70, 103] 0 = .ok (-31, 6) ∧
    Spec.strto ⟨64, true⟩ [9, 45, 48, 120, 49, 70, 103] 0 = ⟨-31, 6, false⟩ := by refine ⟨by rfl, by rfl⟩
example : strto ⟨64, false⟩ [48, 55, 53, 53, 32] 0 = .ok (493, 4) := by rfl
example : strto ⟨64, true⟩ [48, 120] 0 = .ok (0, 1) ∧ strto ⟨64, true⟩ [48, 120] 16 = .ok (0, 1) := by
  refine ⟨by rfl, by rfl⟩
example : strto ⟨8, true⟩ [45, 49, 50, 56] 10 = .ok (-128, 4) ∧ strto ⟨8, true⟩ [45, 49, 50, 57] 10 = .ok (-128, 4) := by
  refine ⟨by rfl, by rfl⟩
example : strto ⟨8, false⟩ [45, 57, 57, 57] 10 = .ok (255, 4) := by rfl

/-- `strtol`, `strtoll`, `strtoul`, `strtoull` on a `char const*`, base 0 or 2..36: nothing at or after the first
    NUL is read (the conversion runs on `cstrOf s`), and value and end pointer are the C library's -/
theorem cstrto_eq (t : IntTy) (h8 : 8 ≤ t.bits) (s : List Nat) (hbytes : ∀ c ∈ s, c < 256)
    (b : Nat) (hb : b = 0 ∨ (2 ≤ b ∧ b ≤ 36)) :
    cstrto t s b = .ok ((Spec.strto t (cstrOf s) b).value, (Spec.strto t (cstrOf s) b).endPos) := by
  unfold cstrto
  exact strto_eq t h8 (cstrOf s) (fun c hc => hbytes c ((List.takeWhile_sublist _).subset hc)) b hb

/-- non-vacuity: `"0x10\0 9"` with base 0 — the text after the NUL is not part of the number -/
example : cstrto ⟨64, true⟩ [48, 120, 49, 48, 0, 32, 57] 0 = .ok (16, 4) ∧
    Spec.strto ⟨64, true⟩ (cstrOf [48, 120, 49, 48, 0, 32, 57]) 0 = ⟨16, 4, false⟩ := by
  refine ⟨by rfl, by rfl⟩

/-- `atoi`/`atol`/`atoll`: the value of `strtol(str, nullptr, 10)` converted in the result type, for every text
    (C leaves the behaviour undefined when the value is not representable; here it is the saturated value) -/
theorem ato_eq (t : IntTy) (h8 : 8 ≤ t.bits) (s : List Nat) (hbytes : ∀ c ∈ s, c < 256) :
    ato t s = .ok (Spec.strto t (cstrOf s) 10).value := by
  unfold ato
  have h := strto_eq t h8 (cstrOf s) (fun c hc => hbytes c ((List.takeWhile_sublist _).subset hc)) 10 (Or.inr (by omega))
  have e : ((10 : Nat) : Int) = (10 : Int) := rfl
  rw [e] at h
  rw [h]
  rfl

/-- non-vacuity: `" -12x\\0 9"` is -12, `"+7"` is 7 -/
example : ato ⟨32, true⟩ [32, 45, 49, 50, 120, 0, 57] = .ok (-12) ∧ ato ⟨32, true⟩ [43, 55] = .ok 7 := by
  refine ⟨by rfl, by rfl⟩

/-! ## the reference itself -/

/-- the digit list of the spec is the standard positional representation (Mathlib `Nat.digits`,
    which is least significant first) -/
theorem spec_digits_standard (b : Nat) (hb : 2 ≤ b) (n : Nat) :
    Spec.digits b n = (Nat.digits b n).reverse := digits_eq_natDigits hb n

example : Spec.digits 16 255 = [15, 15] ∧ Spec.render (-255) 16 = [45, 102, 102] := by
  constructor <;> simp [Spec.digits, Spec.render, Spec.digitChar]

/-- the value function of the spec inverts the digit list of the spec -/
theorem spec_value_of_digits (b : Nat) (hb : 2 ≤ b ∧ b ≤ 36) (n : Nat) :
    Spec.valueOf b ((Spec.digits b n).map Spec.digitChar) = n := valueOf_digits hb n

end Tetl.C10.Props
