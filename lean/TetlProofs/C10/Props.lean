import TetlProofs.C10.Lemmas
namespace Tetl.C10.Props
open Tetl Tetl.C10

/-- placeholder while the pipeline is brought up -/
theorem wr_length (buf : List Nat) (i x : Nat) (b : List Nat) (h : wr buf i x = .ok b) : b.length = buf.length := by
  unfold wr at h
  split at h
  · cases h; simp
  · cases h

end Tetl.C10.Props
