/-
C10 — the `strto*`/`sto*`/`ato*` family against the C grammar, outside the recorded deviations.
-/
import TetlProofs.C10.Parse
namespace Tetl.C10
open Tetl

/-- Outside the four input classes of the recorded deviations the C grammar (`Spec.strto`) and the
    `from_chars` grammar with white space (`Spec.parse … true`) denote the same value and end. -/
theorem strto_spec_eq (t : IntTy) (s : List Nat) (b : Nat) (hb : 2 ≤ b ∧ b ≤ 36)
    (h1 : Spec.plusSign s = false) (h2 : Spec.basePrefix s b = false)
    (h3 : Spec.unsignedMinus t s = false) (h4 : (Spec.strto t s b).erange = false) :
    (TIRes.ofSpec (Spec.parse t true s b)).value = (Spec.strto t s b).value ∧
    (TIRes.ofSpec (Spec.parse t true s b)).endPos = (Spec.strto t s b).endPos := by
  unfold Spec.plusSign at h1
  unfold Spec.basePrefix at h2
  unfold Spec.unsignedMinus at h3
  unfold Spec.strto at h4 ⊢
  unfold Spec.parse
  simp only [if_true] at *
  generalize s.dropWhile Spec.isSpace = s1 at *
  have hb0 : (b == 0) = false := by simp; omega
  cases s1 with
  | nil => simp [TIRes.ofSpec, TIRes.mkErr, Spec.hexPrefix]
  | cons c r =>
    simp only [List.head?_cons] at *
    have hc43 : (some c == some 43) = false := h1
    by_cases hc : c = 45
    · subst hc
      have hs : t.signed = true := by
        cases hsg : t.signed with
        | true => rfl
        | false => simp [hsg] at h3
      simp only [beq_self_eq_true, Bool.true_or, if_true, List.drop_succ_cons, List.drop_zero, hs, Bool.and_self,
        hb0, Bool.false_or] at h2 h4 ⊢
      have hhex : ((b == 16) && Spec.hexPrefix r) = false := h2
      simp only [hhex, Bool.false_eq_true, if_false] at h4 ⊢
      cases hemp : (List.takeWhile (Spec.isDigitOf b) r).isEmpty with
      | true => simp [TIRes.ofSpec, TIRes.mkErr]
      | false =>
        simp only [hemp, Bool.false_eq_true, if_false] at h4 ⊢
        generalize Spec.valueOf b (List.takeWhile (Spec.isDigitOf b) r) = m at *
        by_cases hgt : -(m : Int) > t.maxV
        · simp [hgt] at h4
        · by_cases hlt : -(m : Int) < t.minV
          · simp [hgt, hlt] at h4
          · have hr : t.inRange (-(m : Int)) = true := by rw [IntTy.inRange_iff]; omega
            simp [hgt, hlt, hr, TIRes.ofSpec]
    · have hc45 : (some c == some 45) = false := by simp [hc]
      simp only [hc45, hc43, Bool.and_false, Bool.or_self, Bool.false_eq_true, if_false, hb0, Bool.false_or] at h2 h4 ⊢
      have hhex : ((b == 16) && Spec.hexPrefix (c :: r)) = false := h2
      simp only [hhex, Bool.false_eq_true, if_false] at h4 ⊢
      cases hemp : (List.takeWhile (Spec.isDigitOf b) (c :: r)).isEmpty with
      | true => simp [TIRes.ofSpec, TIRes.mkErr]
      | false =>
        simp only [hemp, Bool.false_eq_true, if_false] at h4 ⊢
        generalize Spec.valueOf b (List.takeWhile (Spec.isDigitOf b) (c :: r)) = m at *
        have hmin := t.minV_nonpos
        cases hsg : t.signed with
        | true =>
          simp only [hsg, if_true] at h4 ⊢
          by_cases hgt : (m : Int) > t.maxV
          · simp [hgt] at h4
          · have hlt : ¬ (m : Int) < t.minV := by omega
            have hr : t.inRange (m : Int) = true := by rw [IntTy.inRange_iff]; omega
            simp [hgt, hlt, hr, TIRes.ofSpec]
        | false =>
          simp only [hsg, Bool.false_eq_true, if_false] at h4 ⊢
          by_cases hgt : (m : Int) > t.maxV
          · simp [hgt] at h4
          · have hr : t.inRange (m : Int) = true := by rw [IntTy.inRange_iff]; omega
            simp [hgt, hr, TIRes.ofSpec]

end Tetl.C10
