/-
C10 — the `strto*`/`sto*`/`ato*` family against the C grammar, outside the recorded deviations.
-/
import TetlProofs.C10.Parse
import TetlProofs.C10.Auto
namespace Tetl.C10
open Tetl

/-- Outside the four input classes of the recorded deviations the C grammar (`Spec.strto`) and the
    `from_chars` grammar with white space (`Spec.parse … true`) denote the same value and end. -/
theorem strto_spec_eq (t : IntTy) (s : List Nat) (b : Nat) (hb : 2 ≤ b ∧ b ≤ 36)
    (h1 : Spec.plusSign s = false) (h2 : Spec.basePrefix s b = false)
    (h3 : Spec.unsignedMinus t s = false) (h4 : (Spec.strto t s b).erange = false) :
    (TIRes.ofSpec (Spec.parse t true s b)).value = (Spec.strto t s b).value ∧
    (TIRes.ofSpec (Spec.parse t true s b)).endPos = (Spec.strto t s b).endPos := by
  unfold Spec.plusSign at h1
  unfold Spec.basePrefix at h2
  unfold Spec.unsignedMinus at h3
  unfold Spec.strto at h4 ⊢
  unfold Spec.parse
  simp only [if_true] at *
  generalize s.dropWhile Spec.isSpace = s1 at *
  have hb0 : (b == 0) = false := by simp; omega
  cases s1 with
  | nil => simp [TIRes.ofSpec, TIRes.mkErr, Spec.hexPrefix]
  | cons c r =>
    simp only [List.head?_cons] at *
    have hc43 : (some c == some 43) = false := h1
    by_cases hc : c = 45
    · subst hc
      have hs : t.signed = true := by
        cases hsg : t.signed with
        | true => rfl
        | false => simp [hsg] at h3
      simp only [beq_self_eq_true, Bool.true_or, if_true, List.drop_succ_cons, List.drop_zero, hs, Bool.and_self,
        hb0, Bool.false_or] at h2 h4 ⊢
      have hhex : ((b == 16) && Spec.hexPrefix r) = false := h2
      simp only [hhex, Bool.false_eq_true, if_false] at h4 ⊢
      cases hemp : (List.takeWhile (Spec.isDigitOf b) r).isEmpty with
      | true => simp [TIRes.ofSpec, TIRes.mkErr]
      | false =>
        simp only [hemp, Bool.false_eq_true, if_false] at h4 ⊢
        generalize Spec.valueOf b (List.takeWhile (Spec.isDigitOf b) r) = m at *
        by_cases hgt : -(m : Int) > t.maxV
        · simp [hgt] at h4
        · by_cases hlt : -(m : Int) < t.minV
          · simp [hgt, hlt] at h4
          · have hr : t.inRange (-(m : Int)) = true := by rw [IntTy.inRange_iff]; omega
            simp [hgt, hlt, hr, TIRes.ofSpec]
    · have hc45 : (some c == some 45) = false := by simp [hc]
      simp only [hc45, hc43, Bool.and_false, Bool.or_self, Bool.false_eq_true, if_false, hb0, Bool.false_or] at h2 h4 ⊢
      have hhex : ((b == 16) && Spec.hexPrefix (c :: r)) = false := h2
      simp only [hhex, Bool.false_eq_true, if_false] at h4 ⊢
      cases hemp : (List.takeWhile (Spec.isDigitOf b) (c :: r)).isEmpty with
      | true => simp [TIRes.ofSpec, TIRes.mkErr]
      | false =>
        simp only [hemp, Bool.false_eq_true, if_false] at h4 ⊢
        generalize Spec.valueOf b (List.takeWhile (Spec.isDigitOf b) (c :: r)) = m at *
        have hmin := t.minV_nonpos
        cases hsg : t.signed with
        | true =>
          simp only [hsg, if_true] at h4 ⊢
          by_cases hgt : (m : Int) > t.maxV
          · simp [hgt] at h4
          · have hlt : ¬ (m : Int) < t.minV := by omega
            have hr : t.inRange (m : Int) = true := by rw [IntTy.inRange_iff]; omega
            simp [hgt, hlt, hr, TIRes.ofSpec]
        | false =>
          simp only [hsg, Bool.false_eq_true, if_false] at h4 ⊢
          by_cases hgt : (m : Int) > t.maxV
          · simp [hgt] at h4
          · have hr : t.inRange (m : Int) = true := by rw [IntTy.inRange_iff]; omega
            simp [hgt, hr, TIRes.ofSpec]

/-- The same with base 0: the C grammar with auto-detected base and `Spec.parseAuto` with white space denote
    the same value and end outside the three classes that remain (`Spec.basePrefix` needs base 16). -/
theorem strto_spec_eq_auto (t : IntTy) (s : List Nat)
    (h1 : Spec.plusSign s = false) (h3 : Spec.unsignedMinus t s = false)
    (h4 : (Spec.strto t s 0).erange = false) :
    (TIRes.ofSpec (Spec.parseAuto t true s)).value = (Spec.strto t s 0).value ∧
    (TIRes.ofSpec (Spec.parseAuto t true s)).endPos = (Spec.strto t s 0).endPos := by
  unfold Spec.plusSign at h1
  unfold Spec.unsignedMinus at h3
  unfold Spec.strto at h4 ⊢
  unfold Spec.parseAuto
  simp only [if_true] at *
  generalize s.dropWhile Spec.isSpace = s1 at *
  have hb0 : ((0 : Nat) == 0) = true := rfl
  have hb16 : ((0 : Nat) == 16) = false := rfl
  simp only [hb0, hb16, Bool.or_false, Bool.true_and, if_true] at h4 ⊢
  -- both sides share sign handling, base, prefix and digit run: name them
  have fin : ∀ (neg : Bool) (s2 : List Nat), (neg = true → t.signed = true) →
      (let hex := Spec.hexPrefix s2
       let b := if hex then 16 else if s2.head? == some 48 then 8 else 10
       let s3 := if hex then s2.drop 2 else s2
       let ds := s3.takeWhile (Spec.isDigitOf b)
       (if ds.isEmpty then (⟨0, 0, false⟩ : Spec.StrtoRes)
        else
          let n := s.length - s3.length + ds.length
          let m : Int := Spec.valueOf b ds
          if t.signed then
            let v := if neg then -m else m
            if v > t.maxV then ⟨t.maxV, n, true⟩
            else if v < t.minV then ⟨t.minV, n, true⟩
            else ⟨v, n, false⟩
          else if m > t.maxV then ⟨t.maxV, n, true⟩
          else ⟨if neg then t.wrap (-m) else m, n, false⟩).erange = false →
       (TIRes.ofSpec
          (if ds.isEmpty then Spec.PRes.invalid
           else
             let v : Int := if neg then -(Spec.valueOf b ds : Int) else (Spec.valueOf b ds : Int)
             let n := s.length - s3.length + ds.length
             if t.inRange v then .ok v n else .range n)).value =
         (if ds.isEmpty then (⟨0, 0, false⟩ : Spec.StrtoRes)
          else
            let n := s.length - s3.length + ds.length
            let m : Int := Spec.valueOf b ds
            if t.signed then
              let v := if neg then -m else m
              if v > t.maxV then ⟨t.maxV, n, true⟩
              else if v < t.minV then ⟨t.minV, n, true⟩
              else ⟨v, n, false⟩
            else if m > t.maxV then ⟨t.maxV, n, true⟩
            else ⟨if neg then t.wrap (-m) else m, n, false⟩).value ∧
       (TIRes.ofSpec
          (if ds.isEmpty then Spec.PRes.invalid
           else
             let v : Int := if neg then -(Spec.valueOf b ds : Int) else (Spec.valueOf b ds : Int)
             let n := s.length - s3.length + ds.length
             if t.inRange v then .ok v n else .range n)).endPos =
         (if ds.isEmpty then (⟨0, 0, false⟩ : Spec.StrtoRes)
          else
            let n := s.length - s3.length + ds.length
            let m : Int := Spec.valueOf b ds
            if t.signed then
              let v := if neg then -m else m
              if v > t.maxV then ⟨t.maxV, n, true⟩
              else if v < t.minV then ⟨t.minV, n, true⟩
              else ⟨v, n, false⟩
            else if m > t.maxV then ⟨t.maxV, n, true⟩
            else ⟨if neg then t.wrap (-m) else m, n, false⟩).endPos) := by
    intro neg s2 hneg
    dsimp only
    generalize (if Spec.hexPrefix s2 then 16 else if s2.head? == some 48 then 8 else 10) = b
    generalize (if Spec.hexPrefix s2 then s2.drop 2 else s2) = s3
    cases hemp : (List.takeWhile (Spec.isDigitOf b) s3).isEmpty with
    | true => intro _; simp [TIRes.ofSpec, TIRes.mkErr]
    | false =>
      simp only [Bool.false_eq_true, if_false]
      generalize Spec.valueOf b (List.takeWhile (Spec.isDigitOf b) s3) = m
      have hmin := t.minV_nonpos
      cases hsg : t.signed with
      | true =>
        simp only [if_true]
        intro h4
        by_cases hgt : (if neg = true then -(m : Int) else (m : Int)) > t.maxV
        · simp [hgt] at h4
        · by_cases hlt : (if neg = true then -(m : Int) else (m : Int)) < t.minV
          · simp [hgt, hlt] at h4
          · have hr : t.inRange (if neg = true then -(m : Int) else (m : Int)) = true := by
              rw [IntTy.inRange_iff]; omega
            simp [hgt, hlt, hr, TIRes.ofSpec]
      | false =>
        have hnn : neg = false := by
          cases neg with
          | false => rfl
          | true => have := hneg rfl; rw [hsg] at this; cases this
        subst hnn
        simp only [Bool.false_eq_true, if_false]
        intro h4
        by_cases hgt : (m : Int) > t.maxV
        · simp [hgt] at h4
        · have hr : t.inRange (m : Int) = true := by rw [IntTy.inRange_iff]; omega
          simp [hgt, hr, TIRes.ofSpec]
  cases s1 with
  | nil => simp [TIRes.ofSpec, TIRes.mkErr, Spec.hexPrefix]
  | cons c r =>
    simp only [List.head?_cons] at *
    have hc43 : (some c == some 43) = false := h1
    by_cases hc : c = 45
    · subst hc
      have hs : t.signed = true := by
        cases hsg : t.signed with
        | true => rfl
        | false => simp [hsg] at h3
      simp only [beq_self_eq_true, Bool.true_or, if_true, List.drop_succ_cons, List.drop_zero, hs, Bool.and_self]
        at h4 ⊢
      have := fin true r (fun _ => hs)
      simp only [hs, if_true] at this
      exact this h4
    · have hc45 : (some c == some 45) = false := by simp [hc]
      simp only [hc45, hc43, Bool.and_false, Bool.or_self, Bool.false_eq_true, if_false] at h4 ⊢
      have := fin false (c :: r) (fun h => by cases h)
      simp only [Bool.false_eq_true, if_false, List.head?_cons] at this
      exact this h4

end Tetl.C10
