/-
C10 — the `strto*`/`sto*`/`ato*` family (`strings::detail::strto_integer`) against the C grammar
(C17 7.22.1.4, `Spec.strto`): every text, every base `0, 2..36`.
-/
import TetlProofs.C10.Parse
import TetlProofs.C10.Auto
import TetlProofs.C10.UncheckedEnd
namespace Tetl.C10
open Tetl

/-! ### conversions between `Int` and `UInt` -/

theorem two_pow_split (bits : Nat) (h : 1 ≤ bits) : (2 : Int) ^ bits = 2 * 2 ^ (bits - 1) := by
  have e : bits = (bits - 1) + 1 := by omega
  conv => lhs; rw [e, Int.pow_succ]
  omega

theorem two_pow_pos' (n : Nat) : (0 : Int) < 2 ^ n := Int.pow_pos (by decide)

/-- a value of the type is unchanged by the conversion to the type -/
theorem IntTy.wrap_of_inRange {t : IntTy} (h1 : 1 ≤ t.bits) {x : Int} (hx : t.inRange x = true) : t.wrap x = x := by
  rw [IntTy.inRange_iff] at hx
  unfold IntTy.wrap
  have hsplit := two_pow_split t.bits h1
  have hP := two_pow_pos' (t.bits - 1)
  unfold IntTy.minV IntTy.maxV at hx
  cases hs : t.signed with
  | false =>
    simp only [hs, Bool.false_eq_true, if_false, Bool.false_and] at hx ⊢
    exact Int.emod_eq_of_lt hx.1 (by omega)
  | true =>
    simp only [hs, if_true, Bool.true_and] at hx ⊢
    generalize (2 : Int) ^ (t.bits - 1) = P at *
    rw [hsplit]
    by_cases hneg : x < 0
    · have e : x % (2 * P) = x + 2 * P := by
        have : (x + 2 * P) % (2 * P) = x % (2 * P) := by
          rw [Int.add_emod_right]
        rw [← this]
        exact Int.emod_eq_of_lt (by omega) (by omega)
      rw [e]
      have : decide (x + 2 * P ≥ P) = true := by simp; omega
      simp only [this, if_true]
      omega
    · have e : x % (2 * P) = x := Int.emod_eq_of_lt (by omega) (by omega)
      rw [e]
      have : decide (x ≥ P) = false := by simp; omega
      simp only [this, Bool.false_eq_true, if_false]

/-- `static_cast<Int>(UInt{0} - magnitude)` is `-magnitude` for every magnitude up to `|min()|` -/
theorem wrap_neg_signed {t : IntTy} (h1 : 1 ≤ t.bits) (hs : t.signed = true) {m : Int} (h0 : 0 ≤ m)
    (hm : m ≤ t.maxV + 1) : t.wrap ((⟨t.bits, false⟩ : IntTy).wrap (0 - m)) = -m := by
  unfold IntTy.wrap
  have hsplit := two_pow_split t.bits h1
  have hP := two_pow_pos' (t.bits - 1)
  unfold IntTy.maxV at hm
  simp only [hs, if_true, Bool.true_and, Bool.false_and, Bool.false_eq_true, if_false] at hm ⊢
  rw [Int.emod_emod_of_dvd _ (Int.dvd_refl _)]
  generalize (2 : Int) ^ (t.bits - 1) = P at *
  rw [hsplit]
  by_cases hz : m = 0
  · subst hz
    simp
    omega
  · have e : (0 - m) % (2 * P) = 2 * P - m := by
      have : (0 - m + 2 * P) % (2 * P) = (0 - m) % (2 * P) := by rw [Int.add_emod_right]
      rw [← this]
      have : 0 - m + 2 * P = 2 * P - m := by omega
      rw [this]
      exact Int.emod_eq_of_lt (by omega) (by omega)
    rw [e]
    have : decide (2 * P - m ≥ P) = true := by simp; omega
    simp only [this, if_true]
    omega

/-- for an unsigned type `UInt` is the type itself -/
theorem wrap_wrap_unsigned {t : IntTy} (hs : t.signed = false) (x : Int) :
    t.wrap ((⟨t.bits, false⟩ : IntTy).wrap x) = t.wrap x := by
  unfold IntTy.wrap
  simp only [hs, Bool.false_and, Bool.false_eq_true, if_false]
  rw [Int.emod_emod_of_dvd _ (Int.dvd_refl _)]

/-! ### from the digits on -/

/-- the value the C grammar assigns to magnitude `m` with sign `neg` in the type `t`: saturation at the limits,
    negation modulo `2^bits` for unsigned types (the value part of `Spec.strto`) -/
def Spec.strtoValue (t : IntTy) (neg : Bool) (m : Nat) : Int :=
  if t.signed then
    let v : Int := if neg then -(m : Int) else m
    if v > t.maxV then t.maxV else if v < t.minV then t.minV else v
  else if (m : Int) > t.maxV then t.maxV
  else if neg then t.wrap (-(m : Int)) else m

theorem inRange_unsigned_iff (bits : Nat) (m : Nat) :
    (⟨bits, false⟩ : IntTy).inRange (m : Int) = true ↔ (m : Int) ≤ 2 ^ bits - 1 := by
  rw [IntTy.inRange_iff]
  simp only [IntTy.minV, IntTy.maxV, Bool.false_eq_true, if_false]
  omega

theorem maxV_le_umax (t : IntTy) (h1 : 1 ≤ t.bits) : t.maxV ≤ 2 ^ t.bits - 1 ∧ t.maxV + 1 ≤ 2 ^ t.bits - 1 ∨ t.signed = false := by
  cases hs : t.signed with
  | false => right; rfl
  | true =>
    left
    have hsplit := two_pow_split t.bits h1
    have hP : (1 : Int) ≤ 2 ^ (t.bits - 1) := two_pow_pos' _
    simp only [IntTy.maxV, hs, if_true]
    omega

/-- `strto_integer` from the digits on, given what the checked conversion of the digits returns (`hchk`) and
    where the unchecked one ends (`hnc`) -/
theorem strtoDigits_spec (t : IntTy) (h8 : 8 ≤ t.bits) (negative : Bool) (pos : Nat) (digits : List Nat) (base : Int)
    (b off : Nat) (s3 : List Nat)
    (hchk : toInteger ⟨t.bits, false⟩ false digits base
      = .ok (TIRes.ofSpec (Spec.digitsOutcome ⟨t.bits, false⟩ b false off s3)))
    (hnc : ∀ n, Spec.digitsOutcome ⟨t.bits, false⟩ b false off s3 = .range n →
      ∃ r, toIntegerNC ⟨t.bits, false⟩ false digits base = .ok r ∧ r.endPos = n) :
    strtoDigits t negative pos digits base =
      .ok (if (s3.takeWhile (Spec.isDigitOf b)).isEmpty then (0, 0)
           else (Spec.strtoValue t negative (Spec.valueOf b (s3.takeWhile (Spec.isDigitOf b))),
                 pos + (off + (s3.takeWhile (Spec.isDigitOf b)).length))) := by
  unfold strtoDigits
  dsimp only
  rw [hchk]
  simp only [ok_bind]
  have h1 : 1 ≤ t.bits := by omega
  cases hemp : (s3.takeWhile (Spec.isDigitOf b)).isEmpty with
  | true =>
    have hout : Spec.digitsOutcome ⟨t.bits, false⟩ b false off s3 = .invalid := by
      simp only [Spec.digitsOutcome, hemp, if_true]
    rw [hout]
    simp [TIRes.ofSpec, TIRes.mkErr]
  | false =>
    simp only [Bool.false_eq_true, if_false]
    have hsplit := two_pow_split t.bits h1
    have hP : (1 : Int) ≤ 2 ^ (t.bits - 1) := two_pow_pos' _
    cases hin : (⟨t.bits, false⟩ : IntTy).inRange (Spec.valueOf b (s3.takeWhile (Spec.isDigitOf b)) : Int) with
    | false =>
      -- the digits overflow `UInt`: second pass, saturated value
      have hout : Spec.digitsOutcome ⟨t.bits, false⟩ b false off s3
          = .range (off + (s3.takeWhile (Spec.isDigitOf b)).length) := by
        simp only [Spec.digitsOutcome, hemp, Bool.false_eq_true, if_false, hin]
      obtain ⟨r, hr, hre⟩ := hnc _ hout
      rw [hout]
      generalize Spec.valueOf b (s3.takeWhile (Spec.isDigitOf b)) = m at *
      generalize (s3.takeWhile (Spec.isDigitOf b)).length = k at *
      have hbig : ¬ (m : Int) ≤ 2 ^ t.bits - 1 := by
        rw [← inRange_unsigned_iff]; simp [hin]
      simp only [TIRes.ofSpec, TIRes.mkErr, hr, ok_bind, hre]
      congr 2
      unfold Spec.strtoValue IntTy.maxV IntTy.minV
      cases hs : t.signed with
      | true =>
        cases negative with
        | true =>
          simp only [if_true]
          rw [if_neg (by omega), if_pos (by omega)]
        | false =>
          simp only [if_true, Bool.false_eq_true, if_false]
          rw [if_pos (by omega)]
      | false =>
        simp only [Bool.false_eq_true, if_false]
        rw [if_pos (by omega)]
    | true =>
      have hout : Spec.digitsOutcome ⟨t.bits, false⟩ b false off s3
          = .ok (Spec.valueOf b (s3.takeWhile (Spec.isDigitOf b)) : Int) (off + (s3.takeWhile (Spec.isDigitOf b)).length) := by
        simp only [Spec.digitsOutcome, hemp, Bool.false_eq_true, if_false, hin, if_true]
      rw [hout]
      generalize Spec.valueOf b (s3.takeWhile (Spec.isDigitOf b)) = m at *
      generalize (s3.takeWhile (Spec.isDigitOf b)).length = k at *
      have hsmall : (m : Int) ≤ 2 ^ t.bits - 1 := (inRange_unsigned_iff _ _).mp hin
      simp only [TIRes.ofSpec]
      unfold Spec.strtoValue
      cases hs : t.signed with
      | true =>
        have hmaxV : t.maxV = 2 ^ (t.bits - 1) - 1 := by simp [IntTy.maxV, hs]
        have hminV : t.minV = -(2 ^ (t.bits - 1)) := by simp [IntTy.minV, hs]
        simp only [Bool.true_and, if_true]
        cases negative with
        | true =>
          simp only [if_true]
          by_cases hgt : (m : Int) > t.maxV + 1
          · rw [if_pos (by simpa using hgt), if_neg (by omega), if_pos (by omega)]
          · rw [if_neg (by simpa using hgt), if_neg (by omega), if_neg (by omega)]
            rw [wrap_neg_signed h1 hs (by omega) (by omega)]
        | false =>
          simp only [Bool.false_eq_true, if_false, Int.add_zero]
          by_cases hgt : (m : Int) > t.maxV
          · rw [if_pos (by simpa using hgt), if_pos hgt]
          · rw [if_neg (by simpa using hgt), if_neg hgt, if_neg (by omega)]
            rw [IntTy.wrap_of_inRange h1 (by rw [IntTy.inRange_iff]; omega)]
      | false =>
        have hmaxV : t.maxV = 2 ^ t.bits - 1 := by simp [IntTy.maxV, hs]
        simp only [Bool.false_and, Bool.false_eq_true, if_false]
        rw [if_neg (show ¬ (m : Int) > t.maxV by omega)]
        cases negative with
        | true =>
          simp only [if_true]
          rw [wrap_wrap_unsigned hs]
          congr 3
          omega
        | false =>
          simp only [Bool.false_eq_true, if_false]
          rw [IntTy.wrap_of_inRange h1 (by rw [IntTy.inRange_iff]; simp only [IntTy.minV, hs, Bool.false_eq_true, if_false]; omega)]

/-! ### sign and prefix -/

theorem isxdigit_spec {d : Nat} (hd : d < 256) : isxdigit (toInt d) = Spec.isDigitOf 16 d := by
  have key : isxdigit (toInt d) = true ↔ (48 ≤ d ∧ d ≤ 57) ∨ (97 ≤ d ∧ d ≤ 102) ∨ (65 ≤ d ∧ d ≤ 70) := by
    unfold isxdigit toInt
    simp only [Bool.or_eq_true, Bool.and_eq_true, decide_eq_true_eq]
    split <;> omega
  rw [Bool.eq_iff_iff, key]
  unfold Spec.isDigitOf
  by_cases h1 : 48 ≤ d ∧ d ≤ 57
  · have hdv : Spec.digitVal d = some (d - 48) := by simp [Spec.digitVal, h1]
    rw [hdv]; simp only [decide_eq_true_eq]; omega
  · by_cases h2 : 97 ≤ d ∧ d ≤ 122
    · have hdv : Spec.digitVal d = some (d - 87) := by simp [Spec.digitVal, h1, h2]
      rw [hdv]; simp only [decide_eq_true_eq]; omega
    · by_cases h3 : 65 ≤ d ∧ d ≤ 90
      · have hdv : Spec.digitVal d = some (d - 55) := by simp [Spec.digitVal, h1, h2, h3]
        rw [hdv]; simp only [decide_eq_true_eq]; omega
      · have hdv : Spec.digitVal d = none := by simp [Spec.digitVal, h1, h2, h3]
        rw [hdv]; simp only [Bool.false_eq_true, iff_false]; omega

/-- number of characters of the optional sign -/
def Spec.signLen (s1 : List Nat) : Nat := if s1.head? == some 45 || s1.head? == some 43 then 1 else 0

theorem strtoSign_spec (pre s1 : List Nat) :
    strtoSign (pre ++ s1) pre.length = .ok (s1.head? == some 45, pre.length + Spec.signLen s1) := by
  unfold strtoSign Spec.signLen
  cases s1 with
  | nil => simp
  | cons c r =>
    have hne : (pre.length != (pre ++ c :: r).length) = true := by simp
    simp only [hne, if_true, rd_append, ok_bind, List.head?_cons]
    by_cases h45 : c = 45
    · subst h45; simp
    · by_cases h43 : c = 43
      · subst h43; simp
      · simp [h45, h43]

theorem signLen_drop (s1 : List Nat) :
    s1.drop (Spec.signLen s1) = (if s1.head? == some 45 || s1.head? == some 43 then s1.drop 1 else s1) := by
  unfold Spec.signLen
  split <;> simp

theorem signLen_le (s1 : List Nat) : Spec.signLen s1 ≤ s1.length := by
  unfold Spec.signLen
  cases s1 with
  | nil => simp
  | cons c r => simp only [List.length_cons]; split <;> omega

theorem hexPrefix_length {s2 : List Nat} (h : Spec.hexPrefix s2 = true) : 3 ≤ s2.length := by
  match s2, h with
  | _ :: _ :: _ :: _, _ => simp
  | [], h => simp [Spec.hexPrefix] at h
  | [_], h => simp [Spec.hexPrefix] at h
  | [_, _], h => simp [Spec.hexPrefix] at h

theorem strtoPrefix_spec (pre s2 : List Nat) (hbytes : ∀ c ∈ s2, c < 256) (base : Int) :
    strtoPrefix (pre ++ s2) base pre.length =
      .ok (pre.length + (if (base == 16 && Spec.hexPrefix s2) = true then 2 else 0)) := by
  unfold strtoPrefix
  cases hb : (base == 16) with
  | false => simp
  | true =>
    simp only [Bool.true_and]
    match s2, hbytes with
    | [], _ => simp [Spec.hexPrefix]
    | [_], _ => simp [Spec.hexPrefix]
    | [_, _], _ => simp [Spec.hexPrefix]
    | c0 :: x :: d :: r4, hbytes =>
      have hd : d < 256 := hbytes d (by simp)
      have hlen : (pre ++ c0 :: x :: d :: r4).length - pre.length > 2 := by
        simp only [List.length_append, List.length_cons]; omega
      have r1 : rd (pre ++ c0 :: x :: d :: r4) (pre.length + 1) = .ok x := by
        rw [rd_append_add]; rfl
      have r2 : rd (pre ++ c0 :: x :: d :: r4) (pre.length + 2) = .ok d := by
        rw [rd_append_add]; rfl
      simp only [hlen, decide_true, if_true, rd_append, ok_bind, r1, r2, isxdigit_spec hd]
      by_cases h48 : c0 = 48
      · subst h48
        simp only [beq_self_eq_true, if_true, Spec.hexPrefix]
        cases hx : (x == 120 || x == 88) with
        | false => simp
        | true =>
          simp only [if_true, Bool.true_and]
          cases Spec.isDigitOf 16 d <;> simp
      · have hne : (c0 == 48) = false := by simp [h48]
        have hhex : Spec.hexPrefix (c0 :: x :: d :: r4) = false := by
          unfold Spec.hexPrefix
          split
          · rename_i heq; simp at heq; exact absurd heq.1 h48
          · rfl
        simp [hne, hhex]

/-! ### the C grammar, rearranged -/

/-- the base the digits are read in, as a function of the text after the sign -/
def Spec.strtoBase (s2 : List Nat) (base : Nat) : Nat :=
  if ((base == 0 || base == 16) && Spec.hexPrefix s2) = true then 16
  else if (base == 0) = true then (if s2.head? == some 48 then 8 else 10) else base

/-- the text after the prefix -/
def Spec.strtoRest (s2 : List Nat) (base : Nat) : List Nat :=
  if ((base == 0 || base == 16) && Spec.hexPrefix s2) = true then s2.drop 2 else s2

/-- value and end of `Spec.strto`, with the pieces named: `s1` = text after the white space, `len` = length of
    the whole text -/
theorem strto_fields (t : IntTy) (s0 : List Nat) (base : Nat) :
    ((Spec.strto t s0 base).value, (Spec.strto t s0 base).endPos) =
      (let s1 := s0.dropWhile Spec.isSpace
       let s2 := s1.drop (Spec.signLen s1)
       let b := Spec.strtoBase s2 base
       let s3 := Spec.strtoRest s2 base
       let ds := s3.takeWhile (Spec.isDigitOf b)
       if ds.isEmpty then (0, 0)
       else (Spec.strtoValue t (s1.head? == some 45) (Spec.valueOf b ds), s0.length - s3.length + ds.length)) := by
  unfold Spec.strto Spec.strtoBase Spec.strtoRest Spec.strtoValue
  dsimp only
  rw [signLen_drop]
  generalize (if ((s0.dropWhile Spec.isSpace).head? == some 45 || (s0.dropWhile Spec.isSpace).head? == some 43) = true
    then (s0.dropWhile Spec.isSpace).drop 1 else s0.dropWhile Spec.isSpace) = s2
  generalize ((s0.dropWhile Spec.isSpace).head? == some 45) = neg
  generalize (if ((base == 0 || base == 16) && Spec.hexPrefix s2) = true then s2.drop 2 else s2) = s3
  generalize (if ((base == 0 || base == 16) && Spec.hexPrefix s2) = true then 16
    else if (base == 0) = true then if (s2.head? == some 48) = true then 8 else 10 else base) = b
  cases hemp : (s3.takeWhile (Spec.isDigitOf b)).isEmpty with
  | true => simp
  | false =>
    simp only [Bool.false_eq_true, if_false]
    cases t.signed with
    | true =>
      simp only [if_true]
      repeat' split
      all_goals rfl
    | false =>
      simp only [Bool.false_eq_true, if_false]
      repeat' split
      all_goals rfl

/-! ### `strto_integer` = the C grammar -/

theorem drop_add_append (pre s : List Nat) (k : Nat) : (pre ++ s).drop (pre.length + k) = s.drop k := by
  rw [List.drop_append]; simp

theorem cast_beq16 (b : Nat) : ((b : Int) == 16) = (b == 16) := by
  rw [Bool.eq_iff_iff, beq_iff_eq, beq_iff_eq]; omega

/-- after the white space: sign, prefix, digits -/
theorem strtoAt_spec (t : IntTy) (h8 : 8 ≤ t.bits) (pre s1 : List Nat) (hbytes : ∀ c ∈ s1, c < 256)
    (b : Nat) (hb : b = 0 ∨ (2 ≤ b ∧ b ≤ 36)) :
    strtoAt t (pre ++ s1) b pre.length =
      .ok (let s2 := s1.drop (Spec.signLen s1)
           let bb := Spec.strtoBase s2 b
           let s3 := Spec.strtoRest s2 b
           let ds := s3.takeWhile (Spec.isDigitOf bb)
           if ds.isEmpty then (0, 0)
           else (Spec.strtoValue t (s1.head? == some 45) (Spec.valueOf bb ds),
                 (pre ++ s1).length - s3.length + ds.length)) := by
  unfold strtoAt
  rw [strtoSign_spec]
  simp only [ok_bind]
  have hsl := signLen_le s1
  have e : pre ++ s1 = (pre ++ s1.take (Spec.signLen s1)) ++ s1.drop (Spec.signLen s1) := by
    rw [List.append_assoc, List.take_append_drop]
  have el : pre.length + Spec.signLen s1 = (pre ++ s1.take (Spec.signLen s1)).length := by
    simp only [List.length_append, List.length_take]; omega
  have hb2 : ∀ c ∈ s1.drop (Spec.signLen s1), c < 256 := fun c hc => hbytes c ((List.drop_sublist _ _).subset hc)
  rw [e, el]
  generalize s1.drop (Spec.signLen s1) = s2 at *
  generalize (s1.head? == some 45) = neg
  generalize pre ++ s1.take (Spec.signLen s1) = pre2
  rw [strtoPrefix_spec pre2 s2 hb2]
  simp only [ok_bind]
  have u8 : 8 ≤ (⟨t.bits, false⟩ : IntTy).bits := h8
  rcases hb with hb0 | hbr
  · -- base 0: `to_integer` detects the base
    subst hb0
    have e0 : ((0 : Nat) : Int) = 0 := rfl
    have e16 : (((0 : Int) == 16) && Spec.hexPrefix s2) = false := by simp
    rw [e0]
    simp only [e16, Bool.false_eq_true, if_false, Nat.add_zero]
    have hle : pre2.length ≤ (pre2 ++ s2).length := by simp
    rw [if_pos hle, List.drop_left]
    have hchk := toInteger_auto ⟨t.bits, false⟩ u8 false s2 hb2
    rw [parseAuto_unsigned _ rfl] at hchk
    unfold Spec.autoOutcome at hchk
    have hnc : ∀ n, Spec.digitsOutcome ⟨t.bits, false⟩ (Spec.autoBase s2) false (0 + if Spec.hexPrefix s2 then 2 else 0)
        (if Spec.hexPrefix s2 then s2.drop 2 else s2) = .range n →
        ∃ r, toIntegerNC ⟨t.bits, false⟩ false s2 0 = .ok r ∧ r.endPos = n := by
      intro n hn
      apply toIntegerNC_auto_end ⟨t.bits, false⟩ rfl u8 s2 hb2 n
      rw [parseAuto_unsigned _ rfl]
      exact hn
    rw [strtoDigits_spec t h8 neg pre2.length s2 0 _ _ _ hchk hnc]
    have hB : Spec.strtoBase s2 0 = Spec.autoBase s2 := by
      unfold Spec.strtoBase Spec.autoBase; simp
    have hR : Spec.strtoRest s2 0 = (if Spec.hexPrefix s2 then s2.drop 2 else s2) := by
      unfold Spec.strtoRest; simp
    rw [hB, hR]
    cases hhex : Spec.hexPrefix s2 with
    | false => simp
    | true =>
      have := hexPrefix_length hhex
      simp only [if_true, List.length_append, List.length_drop]
      congr 3
      omega
  · -- explicit base: the prefix is skipped here when the base is 16
    have hb0 : (b == 0) = false := by simp; omega
    have hB : Spec.strtoBase s2 b = b := by
      unfold Spec.strtoBase
      simp only [hb0, Bool.false_or, Bool.false_eq_true, if_false]
      split
      · rename_i h; simp at h; exact h.1.symm
      · rfl
    have hR : Spec.strtoRest s2 b = s2.drop (if ((b == 16) && Spec.hexPrefix s2) = true then 2 else 0) := by
      unfold Spec.strtoRest
      simp only [hb0, Bool.false_or]
      split <;> simp
    rw [hB, hR, cast_beq16]
    generalize hpl : (if ((b == 16) && Spec.hexPrefix s2) = true then 2 else 0) = pl
    have hpl2 : pl ≤ s2.length := by
      subst hpl
      split
      · rename_i h; simp at h; have := hexPrefix_length h.2; omega
      · omega
    have hle : pre2.length + pl ≤ (pre2 ++ s2).length := by simp; omega
    rw [if_pos hle, drop_add_append]
    have hb3 : ∀ c ∈ s2.drop pl, c < 256 := fun c hc => hb2 c ((List.drop_sublist _ _).subset hc)
    have hchk := toInteger_spec ⟨t.bits, false⟩ u8 false (s2.drop pl) hb3 b hbr
    rw [parse_unsigned _ rfl] at hchk
    have hnc : ∀ n, Spec.digitsOutcome ⟨t.bits, false⟩ b false 0 (s2.drop pl) = .range n →
        ∃ r, toIntegerNC ⟨t.bits, false⟩ false (s2.drop pl) b = .ok r ∧ r.endPos = n := by
      intro n hn
      apply toIntegerNC_end ⟨t.bits, false⟩ rfl u8 (s2.drop pl) hb3 b hbr n
      rw [parse_unsigned _ rfl]
      exact hn
    rw [strtoDigits_spec t h8 neg (pre2.length + pl) (s2.drop pl) b _ _ _ hchk hnc]
    simp only [List.length_append, List.length_drop, Nat.zero_add]
    congr 3
    omega

/-- `strto_integer` on any text with base 0 or 2..36: every read is inside the text, nothing overflows, and value
    and end are those of the C grammar -/
theorem strto_spec (t : IntTy) (h8 : 8 ≤ t.bits) (s : List Nat) (hbytes : ∀ c ∈ s, c < 256)
    (b : Nat) (hb : b = 0 ∨ (2 ≤ b ∧ b ≤ 36)) :
    strto t s b = .ok ((Spec.strto t s b).value, (Spec.strto t s b).endPos) := by
  unfold strto
  have hbase : (((b : Int) != 0) && (decide ((b : Int) < 2) || decide ((b : Int) > 36))) = false := by
    rcases hb with hb | hb
    · subst hb; rfl
    · have : (decide ((b : Int) < 2) || decide ((b : Int) > 36)) = false := by
        simp only [Bool.or_eq_false_iff, decide_eq_false_iff_not]; omega
      rw [this, Bool.and_false]
  simp only [hbase, Bool.false_eq_true, if_false]
  have hsk := skipWs_spec s [] hbytes
  simp only [List.nil_append, List.length_nil, Nat.zero_add] at hsk
  rw [hsk]
  simp only [ok_bind]
  have h := strtoAt_spec t h8 (s.takeWhile Spec.isSpace) (s.dropWhile Spec.isSpace)
    (fun c hc => hbytes c ((List.dropWhile_sublist _).subset hc)) b hb
  rw [List.takeWhile_append_dropWhile] at h
  rw [h, strto_fields]

end Tetl.C10
