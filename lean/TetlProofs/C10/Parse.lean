/-
C10 — helper lemmas for `to_integer`: character classification on bytes, exactness of the
overflow checkers, the digit loop as a fold over the digit run.
-/
import TetlProofs.C10.Lemmas
namespace Tetl.C10
open Tetl

/-! ### bytes -/

theorem isspace_toInt {c : Nat} (hc : c < 256) : isspace (toInt c) = Spec.isSpace c := by
  unfold isspace toInt Spec.isSpace
  rw [Bool.eq_iff_iff]
  simp only [Bool.or_eq_true, Bool.and_eq_true, beq_iff_eq, decide_eq_true_eq]
  split <;> omega

theorem minus_toInt {c : Nat} (hc : c < 256) : (toInt c == 45) = (c == 45) := by
  unfold toInt
  rw [Bool.eq_iff_iff]
  simp only [beq_iff_eq]
  split <;> omega

theorem maxV_ge (t : IntTy) (h8 : 8 ≤ t.bits) : 127 ≤ t.maxV := by
  have h1 : (2 : Nat) ^ 7 ≤ 2 ^ (t.bits - 1) := Nat.pow_le_pow_right (by decide) (by omega)
  have h2 : (2 : Nat) ^ 7 ≤ 2 ^ t.bits := Nat.pow_le_pow_right (by decide) (by omega)
  have e1 : ((2 : Int) ^ (t.bits - 1)) = (((2 : Nat) ^ (t.bits - 1) : Nat) : Int) := by simp
  have e2 : ((2 : Int) ^ t.bits) = (((2 : Nat) ^ t.bits : Nat) : Int) := by simp
  unfold IntTy.maxV
  split
  · rw [e1]; omega
  · rw [e2]; omega

theorem isdigit_iff {c : Nat} (hc : c < 256) : isdigit (toInt c) = true ↔ 48 ≤ c ∧ c ≤ 57 := by
  unfold isdigit toInt
  simp only [Bool.and_eq_true, decide_eq_true_eq]
  split <;> omega

theorem isupper_iff {c : Nat} (hc : c < 256) : isupper (toInt c) = true ↔ 65 ≤ c ∧ c ≤ 90 := by
  unfold isupper toInt
  simp only [Bool.and_eq_true, decide_eq_true_eq]
  split <;> omega

theorem isalpha_iff {c : Nat} (hc : c < 256) :
    isalpha (toInt c) = true ↔ (97 ≤ c ∧ c ≤ 122) ∨ (65 ≤ c ∧ c ≤ 90) := by
  unfold isalpha toInt
  simp only [Bool.and_eq_true, Bool.or_eq_true, decide_eq_true_eq]
  split <;> omega

theorem toInt_small {c : Nat} (hc : c < 128) : toInt c = (c : Int) := by simp [toInt, hc]

/-- `parseDigit` on a byte is the digit value of the spec, or the sentinel `max` -/
theorem parseDigit_spec (t : IntTy) {c : Nat} (hc : c < 256) :
    match Spec.digitVal c with
    | some d => parseDigit t (toInt c) = (d : Int) ∧ d < 36
    | none => parseDigit t (toInt c) = t.maxV := by
  unfold parseDigit tolower
  by_cases h1 : 48 ≤ c ∧ c ≤ 57
  · have hd : Spec.digitVal c = some (c - 48) := by simp [Spec.digitVal, h1]
    rw [hd, if_pos ((isdigit_iff hc).mpr h1), toInt_small (by omega)]
    simp only []
    omega
  · rw [if_neg (fun h => h1 ((isdigit_iff hc).mp h))]
    by_cases h2 : 97 ≤ c ∧ c ≤ 122
    · have hd : Spec.digitVal c = some (c - 87) := by simp [Spec.digitVal, h1, h2]
      rw [hd, if_pos ((isalpha_iff hc).mpr (Or.inl h2)),
        if_neg (fun h => by have := (isupper_iff hc).mp h; omega), toInt_small (by omega)]
      simp only []
      omega
    · by_cases h3 : 65 ≤ c ∧ c ≤ 90
      · have hd : Spec.digitVal c = some (c - 55) := by simp [Spec.digitVal, h1, h2, h3]
        rw [hd, if_pos ((isalpha_iff hc).mpr (Or.inr h3)), if_pos ((isupper_iff hc).mpr h3), toInt_small (by omega)]
        simp only []
        omega
      · have hd : Spec.digitVal c = none := by simp [Spec.digitVal, h1, h2, h3]
        rw [hd, if_neg (fun h => by have := (isalpha_iff hc).mp h; omega)]

/-! ### the bound of the accumulating direction -/

/-- `|min|` for signed types (the accumulator runs through the negative numbers), `max` for unsigned ones -/
def IntTy.bound (t : IntTy) : Nat := if t.signed then 2 ^ (t.bits - 1) else 2 ^ t.bits - 1

theorem pow_cast (n : Nat) : ((2 : Int) ^ n) = (((2 : Nat) ^ n : Nat) : Int) := by simp

theorem minV_signed {t : IntTy} (hs : t.signed = true) : t.minV = -(t.bound : Int) := by
  simp [IntTy.minV, IntTy.bound, hs]

theorem maxV_signed {t : IntTy} (hs : t.signed = true) : t.maxV = (t.bound : Int) - 1 := by
  simp [IntTy.maxV, IntTy.bound, hs]

theorem minV_unsigned {t : IntTy} (hs : t.signed = false) : t.minV = 0 := by
  simp [IntTy.minV, hs]

theorem maxV_unsigned {t : IntTy} (hs : t.signed = false) : t.maxV = (t.bound : Int) := by
  have h1 : 1 ≤ (2 : Nat) ^ t.bits := Nat.one_le_two_pow
  simp only [IntTy.maxV, IntTy.bound, hs, Bool.false_eq_true, if_false, pow_cast]
  omega

theorem bound_pos (t : IntTy) (h8 : 8 ≤ t.bits) : 127 ≤ t.bound := by
  have h1 : (2 : Nat) ^ 7 ≤ 2 ^ (t.bits - 1) := Nat.pow_le_pow_right (by decide) (by omega)
  have h2 : (2 : Nat) ^ 7 ≤ 2 ^ t.bits := Nat.pow_le_pow_right (by decide) (by omega)
  unfold IntTy.bound
  split <;> omega

theorem inRange_sgn {t : IntTy} {a : Nat} (ha : a ≤ t.bound) : t.inRange (sgn t.signed a) = true := by
  rw [IntTy.inRange_iff]
  cases hs : t.signed with
  | true =>
    have hb : 1 ≤ t.bound := by simp [IntTy.bound, hs]; exact Nat.one_le_two_pow
    rw [minV_signed hs, maxV_signed hs]; simp only [sgn, if_true]; omega
  | false => rw [minV_unsigned hs, maxV_unsigned hs]; simp only [sgn, Bool.false_eq_true, if_false]; omega

/-! ### exactness of the overflow checkers -/

theorem checker_exact (M a b d : Nat) (hb : 0 < b) (hd : d < b) :
    (a > M / b ∨ (a = M / b ∧ d > M % b)) ↔ a * b + d > M := by
  have hdm := Nat.div_add_mod M b
  have hml := Nat.mod_lt M hb
  rw [Nat.mul_comm] at hdm
  constructor
  · rintro (h | ⟨h, h2⟩)
    · have := Nat.mul_le_mul_right b (Nat.succ_le_of_lt h)
      rw [Nat.succ_mul] at this
      omega
    · subst h; omega
  · intro h
    by_cases h1 : a > M / b
    · left; exact h1
    · by_cases h2 : a = M / b
      · right; subst h2; exact ⟨rfl, by omega⟩
      · exfalso
        have h3 : a + 1 ≤ M / b := by omega
        have := Nat.mul_le_mul_right b h3
        rw [Nat.succ_mul] at this
        omega

/-- both checkers answer exactly "the next accumulation step leaves the type" -/
theorem wouldOverflow_exact (t : IntTy) (a b d : Nat) (hb : 0 < b) (hd : d < b) :
    wouldOverflow t b (sgn t.signed a) d = decide (a * b + d > t.bound) := by
  rw [Bool.eq_iff_iff, decide_eq_true_eq, ← checker_exact t.bound a b d hb hd]
  unfold wouldOverflow
  cases hs : t.signed with
  | true =>
    simp only [if_true, minV_signed hs, Int.neg_tdiv, Int.neg_tmod, ← Int.ofNat_tdiv, ← Int.ofNat_tmod,
      Int.natAbs_neg, Int.natAbs_natCast, sgn, Bool.or_eq_true, Bool.and_eq_true, decide_eq_true_eq, beq_iff_eq]
    generalize t.bound / b = q
    generalize t.bound % b = r
    omega
  | false =>
    simp only [Bool.false_eq_true, if_false, maxV_unsigned hs, ← Int.ofNat_tdiv, ← Int.ofNat_tmod,
      sgn, Bool.or_eq_true, Bool.and_eq_true, decide_eq_true_eq, beq_iff_eq]
    generalize t.bound / b = q
    generalize t.bound % b = r
    omega

/-! ### value of a digit run with a start value -/

def valueAcc (b : Nat) (acc : Nat) (ds : List Nat) : Nat :=
  ds.foldl (fun acc c => match Spec.digitVal c with | some d => acc * b + d | none => acc) acc

theorem valueOf_eq (b : Nat) (ds : List Nat) : Spec.valueOf b ds = valueAcc b 0 ds := rfl

theorem valueAcc_nil (b a : Nat) : valueAcc b a [] = a := rfl

theorem valueAcc_cons {b a c d : Nat} {ds : List Nat} (h : Spec.digitVal c = some d) :
    valueAcc b a (c :: ds) = valueAcc b (a * b + d) ds := by
  simp [valueAcc, h]

theorem valueAcc_ge (b : Nat) (hb : 0 < b) (ds : List Nat) : ∀ a, a ≤ valueAcc b a ds := by
  induction ds with
  | nil => intro a; exact Nat.le_refl a
  | cons c ds ih =>
    intro a
    cases h : Spec.digitVal c with
    | none =>
      have : valueAcc b a (c :: ds) = valueAcc b a ds := by simp [valueAcc, h]
      rw [this]; exact ih a
    | some d =>
      rw [valueAcc_cons h]
      have h1 := ih (a * b + d)
      have h2 : a ≤ a * b := Nat.le_mul_of_pos_right a hb
      omega

/-! ### the loops of `to_integer` -/

theorem skipWs_spec : ∀ (rest pre : List Nat), (∀ c ∈ rest, c < 256) →
    skipWs (pre ++ rest) rest.length pre.length = .ok (pre.length + (rest.takeWhile Spec.isSpace).length) := by
  intro rest
  induction rest with
  | nil => intro pre _; simp [skipWs]
  | cons c rest ih =>
    intro pre hbytes
    have hc : c < 256 := hbytes c (List.mem_cons_self)
    simp only [List.length_cons, skipWs, rd_append, ok_bind, isspace_toInt hc]
    cases hsp : Spec.isSpace c with
    | false => simp [List.takeWhile_cons, hsp]
    | true =>
      simp only [if_true, List.takeWhile_cons, hsp, List.length_cons]
      have e1 : pre ++ c :: rest = (pre ++ [c]) ++ rest := by simp
      have e2 : pre.length + 1 = (pre ++ [c]).length := by simp
      rw [e1, e2, ih (pre ++ [c]) (fun x hx => hbytes x (List.mem_cons_of_mem _ hx))]
      simp only [List.length_append, List.length_cons, List.length_nil]
      congr 1; omega

/-- The digit loop consumes exactly the run of digits of the base and accumulates its value on top of
    the start value; it reports overflow exactly when that value exceeds the type's bound.  Every read
    is inside the string, no intermediate overflows. -/
theorem tiLoop_spec (t : IntTy) (h8 : 8 ≤ t.bits) (b : Nat) (hb : 2 ≤ b ∧ b ≤ 36) :
    ∀ (rest pre : List Nat) (a : Nat), (∀ c ∈ rest, c < 256) → a ≤ t.bound →
      tiLoop t b (pre ++ rest) rest.length pre.length (sgn t.signed a) =
        .ok (if valueAcc b a (rest.takeWhile (Spec.isDigitOf b)) ≤ t.bound
             then some (sgn t.signed (valueAcc b a (rest.takeWhile (Spec.isDigitOf b))),
                        pre.length + (rest.takeWhile (Spec.isDigitOf b)).length)
             else none) := by
  intro rest
  induction rest with
  | nil => intro pre a _ ha; simp [tiLoop, valueAcc_nil, ha]
  | cons c rest ih =>
    intro pre a hbytes ha
    have hc : c < 256 := hbytes c (List.mem_cons_self)
    have hmax := maxV_ge t h8
    have hpd := parseDigit_spec t hc
    simp only [List.length_cons, tiLoop, rd_append, ok_bind]
    have stop : ∀ (hge : parseDigit t (toInt c) ≥ (b : Int)) (hnd : Spec.isDigitOf b c = false),
        (if parseDigit t (toInt c) ≥ (b : Int) then (Except.ok (some (sgn t.signed a, pre.length)) : Except Err _)
          else if wouldOverflow t b (sgn t.signed a) (parseDigit t (toInt c)) = true then Except.ok none
          else do
            let value ← t.arith (if t.signed = true then sgn t.signed a * b - parseDigit t (toInt c)
              else sgn t.signed a * b + parseDigit t (toInt c))
            tiLoop t b (pre ++ c :: rest) rest.length (pre.length + 1) value) =
        .ok (if valueAcc b a ((c :: rest).takeWhile (Spec.isDigitOf b)) ≤ t.bound
             then some (sgn t.signed (valueAcc b a ((c :: rest).takeWhile (Spec.isDigitOf b))),
                        pre.length + ((c :: rest).takeWhile (Spec.isDigitOf b)).length)
             else none) := by
      intro hge hnd
      rw [if_pos hge]
      simp [List.takeWhile_cons, hnd, valueAcc_nil, ha]
    cases hdv : Spec.digitVal c with
    | none =>
      rw [hdv] at hpd
      simp only [] at hpd
      exact stop (by rw [hpd]; omega) (by simp [Spec.isDigitOf, hdv])
    | some d =>
      rw [hdv] at hpd
      simp only [] at hpd
      obtain ⟨hpdv, hd36⟩ := hpd
      by_cases hdb : d < b
      · -- a digit of the base
        have hdig : Spec.isDigitOf b c = true := by simp [Spec.isDigitOf, hdv, hdb]
        have hnge : ¬ parseDigit t (toInt c) ≥ (b : Int) := by rw [hpdv]; omega
        rw [if_neg hnge, hpdv, wouldOverflow_exact t a b d (by omega) hdb]
        simp only [List.takeWhile_cons, hdig, if_true, valueAcc_cons hdv, List.length_cons]
        by_cases hov : a * b + d > t.bound
        · have hge := valueAcc_ge b (by omega) (rest.takeWhile (Spec.isDigitOf b)) (a * b + d)
          rw [if_pos (by simpa using hov), if_neg (by omega)]
        · rw [if_neg (by simpa using hov)]
          have hstep : (if t.signed = true then sgn t.signed a * (b : Int) - (d : Int)
              else sgn t.signed a * (b : Int) + (d : Int)) = sgn t.signed (a * b + d) := by
            cases hs : t.signed with
            | true => simp only [sgn, if_true]; push_cast; rw [Int.neg_mul]; omega
            | false => simp only [sgn, Bool.false_eq_true, if_false]; push_cast; rfl
          rw [hstep, IntTy.arith_of_inRange (inRange_sgn (by omega))]
          simp only [ok_bind]
          have e1 : pre ++ c :: rest = (pre ++ [c]) ++ rest := by simp
          have e2 : pre.length + 1 = (pre ++ [c]).length := by simp
          rw [e1, e2, ih (pre ++ [c]) (a * b + d) (fun x hx => hbytes x (List.mem_cons_of_mem _ hx)) (by omega)]
          simp only [List.length_append, List.length_cons, List.length_nil, Nat.add_assoc, Nat.add_comm 1]
      · exact stop (by rw [hpdv]; omega) (by simp [Spec.isDigitOf, hdv, hdb])

/-! ### from the first digit on -/

/-- what `to_integer` returns for an outcome of the reference parser: on both errors `end = begin`
    and `value = 0` (the contract its own tests assert) -/
def TIRes.ofSpec : Spec.PRes → TIRes
  | .ok v n => ⟨n, .none, v⟩
  | .invalid => .mkErr .invalid
  | .range _ => .mkErr .overflow

/-- the reference outcome for a digit string that starts at offset `off`, with the sign already known -/
def Spec.digitsOutcome (t : IntTy) (b : Nat) (neg : Bool) (off : Nat) (s2 : List Nat) : Spec.PRes :=
  let ds := s2.takeWhile (Spec.isDigitOf b)
  if ds.isEmpty then .invalid
  else
    let v : Int := if neg then -(Spec.valueOf b ds : Int) else (Spec.valueOf b ds : Int)
    if t.inRange v then .ok v (off + ds.length) else .range (off + ds.length)

theorem inRange_neg_maxV (t : IntTy) (hs : t.signed = true) : t.inRange (-t.maxV) = true := by
  rw [IntTy.inRange_iff, minV_signed hs, maxV_signed hs]
  have : 1 ≤ t.bound := by simp [IntTy.bound, hs]; exact Nat.one_le_two_pow
  omega

theorem toIntegerDigits_spec (t : IntTy) (h8 : 8 ≤ t.bits) (b : Nat) (hb : 2 ≤ b ∧ b ≤ 36)
    (neg : Bool) (hneg : neg = true → t.signed = true) (pre : List Nat) (c1 : Nat) (r2 : List Nat)
    (hbytes : ∀ c ∈ c1 :: r2, c < 256) :
    toIntegerDigits t (pre ++ c1 :: r2) b neg pre.length =
      .ok (TIRes.ofSpec (Spec.digitsOutcome t b neg pre.length (c1 :: r2))) := by
  have hc : c1 < 256 := hbytes c1 (List.mem_cons_self)
  have hbytes2 : ∀ c ∈ r2, c < 256 := fun x hx => hbytes x (List.mem_cons_of_mem _ hx)
  have hmax := maxV_ge t h8
  have hbound := bound_pos t h8
  have hpd := parseDigit_spec t hc
  unfold toIntegerDigits
  simp only [rd_append, ok_bind]
  -- the first character is not a digit of the base: `invalid`
  have stop : ∀ (x : Int), (x = t.maxV ∨ ∃ d : Nat, x = d ∧ b ≤ d ∧ d < 36) → parseDigit t (toInt c1) = x →
      Spec.isDigitOf b c1 = false →
      (do
        let value ← firstValue t (parseDigit t (toInt c1))
        if (if value < 0 then -value else value) ≥ (b : Int) then Except.ok (TIRes.mkErr TIErr.invalid)
        else do
          match ← tiLoop t b (pre ++ c1 :: r2) ((pre ++ c1 :: r2).length - (pre.length + 1)) (pre.length + 1) value with
          | none => Except.ok (TIRes.mkErr TIErr.overflow)
          | some (value, pos) =>
            if (t.signed && !neg) = true then
              if (value == t.minV) = true then Except.ok (TIRes.mkErr TIErr.overflow)
              else do
                let v ← t.arith (value * (-1))
                Except.ok ⟨pos, TIErr.none, v⟩
            else Except.ok ⟨pos, TIErr.none, value⟩) =
      .ok (TIRes.ofSpec (Spec.digitsOutcome t b neg pre.length (c1 :: r2))) := by
    intro x hx hpx hnd
    have hout : Spec.digitsOutcome t b neg pre.length (c1 :: r2) = .invalid := by
      simp [Spec.digitsOutcome, List.takeWhile_cons, hnd]
    rw [hout, hpx]
    have hxr : t.signed = true → t.inRange (-x) = true := by
      intro hs
      rcases hx with hx | ⟨d, hx, _, hd⟩
      · rw [hx]; exact inRange_neg_maxV t hs
      · rw [hx, IntTy.inRange_iff, minV_signed hs, maxV_signed hs]; omega
    have hxb : x ≥ (b : Int) := by
      rcases hx with hx | ⟨d, hx, hd, _⟩ <;> omega
    unfold firstValue
    cases hs : t.signed with
    | true =>
      simp only [if_true, IntTy.arith_of_inRange (hxr hs), ok_bind]
      have : (if -x < 0 then - -x else -x) ≥ (b : Int) := by split <;> omega
      rw [if_pos this]; rfl
    | false =>
      simp only [Bool.false_eq_true, if_false, ok_bind]
      have : (if x < 0 then -x else x) ≥ (b : Int) := by split <;> omega
      rw [if_pos this]; rfl
  cases hdv : Spec.digitVal c1 with
  | none =>
    rw [hdv] at hpd
    simp only [] at hpd
    exact stop t.maxV (Or.inl rfl) hpd (by simp [Spec.isDigitOf, hdv])
  | some d =>
    rw [hdv] at hpd
    simp only [] at hpd
    obtain ⟨hpdv, hd36⟩ := hpd
    by_cases hdb : d < b
    · -- first digit accepted: the loop runs over the rest
      have hdig : Spec.isDigitOf b c1 = true := by simp [Spec.isDigitOf, hdv, hdb]
      have hval : firstValue t (parseDigit t (toInt c1)) = .ok (sgn t.signed d) := by
        unfold firstValue
        cases hs : t.signed with
        | true =>
          have := @inRange_sgn t d (by omega)
          rw [hs] at this
          simp only [if_true, hpdv]
          rw [show (-(d : Int)) = sgn true d from by simp [sgn]]
          exact IntTy.arith_of_inRange this
        | false => simp [hpdv, sgn]
      rw [hval]
      simp only [ok_bind]
      have habs : ¬ (if sgn t.signed d < 0 then -sgn t.signed d else sgn t.signed d) ≥ (b : Int) := by
        cases t.signed <;> simp only [sgn, if_true, Bool.false_eq_true, if_false] <;> split <;> omega
      rw [if_neg habs]
      have e1 : pre ++ c1 :: r2 = (pre ++ [c1]) ++ r2 := by simp
      have e2 : pre.length + 1 = (pre ++ [c1]).length := by simp
      have e3 : (pre ++ c1 :: r2).length - (pre.length + 1) = r2.length := by
        simp only [List.length_append, List.length_cons]; omega
      rw [e3, e1, e2, tiLoop_spec t h8 b hb r2 (pre ++ [c1]) d hbytes2 (by omega)]
      -- the reference outcome in terms of the accumulated value
      have hN : Spec.valueOf b ((c1 :: r2).takeWhile (Spec.isDigitOf b))
          = valueAcc b d (r2.takeWhile (Spec.isDigitOf b)) := by
        rw [valueOf_eq, List.takeWhile_cons, hdig]
        simp only [if_true]
        rw [valueAcc_cons hdv]; simp
      have hout : Spec.digitsOutcome t b neg pre.length (c1 :: r2) =
          (if t.inRange (if neg then -(valueAcc b d (r2.takeWhile (Spec.isDigitOf b)) : Int)
                else (valueAcc b d (r2.takeWhile (Spec.isDigitOf b)) : Int))
           then .ok (if neg then -(valueAcc b d (r2.takeWhile (Spec.isDigitOf b)) : Int)
                else (valueAcc b d (r2.takeWhile (Spec.isDigitOf b)) : Int))
              (pre.length + ((r2.takeWhile (Spec.isDigitOf b)).length + 1))
           else .range (pre.length + ((r2.takeWhile (Spec.isDigitOf b)).length + 1))) := by
        unfold Spec.digitsOutcome
        dsimp only
        rw [hN]
        simp [List.takeWhile_cons, hdig]
      rw [hout]
      generalize valueAcc b d (r2.takeWhile (Spec.isDigitOf b)) = N
      generalize (r2.takeWhile (Spec.isDigitOf b)).length = k
      simp only [List.length_append, List.length_cons, List.length_nil, Nat.zero_add]
      have hpos : pre.length + 1 + k = pre.length + (k + 1) := by omega
      cases hs : t.signed with
      | true =>
        have hb1 : 1 ≤ t.bound := by omega
        by_cases hN : N ≤ t.bound
        · rw [if_pos hN]
          simp only [ok_bind, sgn, if_true]
          cases neg with
          | true =>
            have hr : t.inRange (-(N : Int)) = true := by
              rw [IntTy.inRange_iff, minV_signed hs, maxV_signed hs]; omega
            simp [hr, TIRes.ofSpec, hpos]
          | false =>
            simp only [Bool.not_false, Bool.and_self, if_true, Bool.false_eq_true, if_false]
            by_cases hmin : N = t.bound
            · have hr : t.inRange (N : Int) = false := by
                rw [Bool.eq_false_iff, Ne, IntTy.inRange_iff, minV_signed hs, maxV_signed hs]; omega
              have : (-(N : Int) == t.minV) = true := by rw [minV_signed hs]; simp [hmin]
              rw [if_pos this]
              simp [hr, TIRes.ofSpec]
            · have hr : t.inRange (N : Int) = true := by
                rw [IntTy.inRange_iff, minV_signed hs, maxV_signed hs]; omega
              have : ¬ (-(N : Int) == t.minV) = true := by rw [minV_signed hs]; simp; omega
              rw [if_neg this]
              have e : -(N : Int) * -1 = (N : Int) := by omega
              rw [e, IntTy.arith_of_inRange hr]
              simp [hr, TIRes.ofSpec, hpos]
        · rw [if_neg hN]
          simp only [ok_bind]
          have hr : t.inRange (if neg = true then -(N : Int) else (N : Int)) = false := by
            rw [Bool.eq_false_iff, Ne, IntTy.inRange_iff, minV_signed hs, maxV_signed hs]
            split <;> omega
          simp [hr, TIRes.ofSpec]
      | false =>
        have hnn : neg = false := by
          cases neg with
          | false => rfl
          | true => have := hneg rfl; rw [hs] at this; cases this
        subst hnn
        simp only [Bool.false_eq_true, if_false, sgn, Bool.false_and]
        by_cases hN : N ≤ t.bound
        · have hr : t.inRange (N : Int) = true := by
            rw [IntTy.inRange_iff, minV_unsigned hs, maxV_unsigned hs]; omega
          rw [if_pos hN]
          simp [hr, TIRes.ofSpec, hpos]
        · have hr : t.inRange (N : Int) = false := by
            rw [Bool.eq_false_iff, Ne, IntTy.inRange_iff, minV_unsigned hs, maxV_unsigned hs]; omega
          rw [if_neg hN]
          simp [hr, TIRes.ofSpec]
    · exact stop d (Or.inr ⟨d, rfl, by omega, hd36⟩) hpdv (by simp [Spec.isDigitOf, hdv, hdb])

/-! ### sign, white space -/

/-- the reference outcome after the white space: optional `-` (signed types), then digits -/
def Spec.signOutcome (t : IntTy) (b : Nat) (off : Nat) (s1 : List Nat) : Spec.PRes :=
  let neg := t.signed && (s1.head? == some 45)
  Spec.digitsOutcome t b neg (off + if neg then 1 else 0) (if neg then s1.drop 1 else s1)

theorem toIntegerAt_spec (t : IntTy) (h8 : 8 ≤ t.bits) (b : Nat) (hb : 2 ≤ b ∧ b ≤ 36)
    (pre s1 : List Nat) (hbytes : ∀ c ∈ s1, c < 256) :
    toIntegerAt t (pre ++ s1) b pre.length = .ok (TIRes.ofSpec (Spec.signOutcome t b pre.length s1)) := by
  unfold toIntegerAt
  have hb0 : ((b : Int) == 0) = false := by
    rw [Bool.eq_false_iff, Ne, beq_iff_eq]; omega
  cases s1 with
  | nil => simp [Spec.signOutcome, Spec.digitsOutcome, TIRes.ofSpec]
  | cons c0 r1 =>
    have hc0 : c0 < 256 := hbytes c0 (List.mem_cons_self)
    have hne : (pre.length == (pre ++ c0 :: r1).length) = false := by simp
    simp only [hne, Bool.false_eq_true, if_false, rd_append, ok_bind, minus_toInt hc0]
    cases hneg : (t.signed && (c0 == 45)) with
    | true =>
      have hs : t.signed = true := by simp at hneg; exact hneg.1
      have hsig : Spec.signOutcome t b pre.length (c0 :: r1) = Spec.digitsOutcome t b true (pre.length + 1) r1 := by
        have hc45 : c0 = 45 := by simp at hneg; exact hneg.2
        simp [Spec.signOutcome, hs, hc45]
      rw [hsig]
      simp only [if_true, Bool.true_and]
      cases r1 with
      | nil => simp [Spec.digitsOutcome, TIRes.ofSpec]
      | cons c1 r2 =>
        have hne2 : (pre.length + 1 == (pre ++ c0 :: c1 :: r2).length) = false := by simp
        simp only [hne2, hb0, Bool.false_eq_true, if_false]
        have e1 : pre ++ c0 :: c1 :: r2 = (pre ++ [c0]) ++ c1 :: r2 := by simp
        have e2 : pre.length + 1 = (pre ++ [c0]).length := by simp
        rw [e1, e2]
        exact toIntegerDigits_spec t h8 b hb true (fun _ => hs) (pre ++ [c0]) c1 r2
          (fun x hx => hbytes x (List.mem_cons_of_mem _ hx))
    | false =>
      have hsig : Spec.signOutcome t b pre.length (c0 :: r1) = Spec.digitsOutcome t b false pre.length (c0 :: r1) := by
        have hn : ¬(t.signed = true ∧ c0 = 45) := by simpa using hneg
        simp [Spec.signOutcome, hneg, hn]
      rw [hsig]
      simp only [hb0, Bool.false_eq_true, if_false, Bool.false_and]
      exact toIntegerDigits_spec t h8 b hb false (fun h => by cases h) pre c0 r1 hbytes

/-- `Spec.parse` = white space (optional), then `signOutcome` at that offset -/
theorem parse_eq (t : IntTy) (ws : Bool) (s : List Nat) (b : Nat) :
    Spec.parse t ws s b =
      Spec.signOutcome t b (if ws then (s.takeWhile Spec.isSpace).length else 0)
        (if ws then s.dropWhile Spec.isSpace else s) := by
  have hlen : s.length = (s.takeWhile Spec.isSpace).length + (s.dropWhile Spec.isSpace).length := by
    rw [← List.length_append, List.takeWhile_append_dropWhile]
  unfold Spec.parse Spec.signOutcome Spec.digitsOutcome
  cases ws with
  | false =>
    simp only [Bool.false_eq_true, if_false]
    cases s with
    | nil => simp
    | cons c r =>
      cases hneg : (t.signed && ((c :: r).head? == some 45)) <;>
        simp [hneg] <;> (congr 1 <;> omega)
  | true =>
    simp only [if_true]
    generalize hpre : (s.takeWhile Spec.isSpace).length = p at *
    generalize s.dropWhile Spec.isSpace = s1 at *
    cases s1 with
    | nil => simp
    | cons c r =>
      simp only [List.length_cons] at hlen
      rw [hlen]
      have e1 : p + (r.length + 1) - r.length = p + 1 := by omega
      have e2 : p + (r.length + 1) - (r.length + 1) = p := by omega
      cases hneg : (t.signed && ((c :: r).head? == some 45)) <;> simp [hneg, e1, e2]

/-! ### parsing the rendered text -/

/-- `to_integer` with an explicit base, every input (the statement of `Props.toInteger_eq`) -/
theorem toInteger_spec (t : IntTy) (h8 : 8 ≤ t.bits) (ws : Bool) (s : List Nat) (hbytes : ∀ c ∈ s, c < 256)
    (b : Nat) (hb : 2 ≤ b ∧ b ≤ 36) :
    toInteger t ws s b = .ok (TIRes.ofSpec (Spec.parse t ws s b)) := by
  unfold toInteger
  have hbase : (((b : Int) != 0) && (decide ((b : Int) < 2) || decide ((b : Int) > 36))) = false := by
    have : (decide ((b : Int) < 2) || decide ((b : Int) > 36)) = false := by
      simp only [Bool.or_eq_false_iff, decide_eq_false_iff_not]; omega
    rw [this, Bool.and_false]
  simp only [hbase, Bool.false_eq_true, if_false]
  rw [parse_eq]
  cases ws with
  | false =>
    simp only [Bool.false_eq_true, if_false, ok_bind]
    exact toIntegerAt_spec t h8 b hb [] s hbytes
  | true =>
    simp only [if_true]
    have hsk := skipWs_spec s [] hbytes
    simp only [List.nil_append, List.length_nil, Nat.zero_add] at hsk
    rw [hsk]
    simp only [ok_bind]
    have h := toIntegerAt_spec t h8 b hb (s.takeWhile Spec.isSpace) (s.dropWhile Spec.isSpace)
      (fun c hc => hbytes c ((List.dropWhile_sublist _).subset hc))
    rw [List.takeWhile_append_dropWhile] at h
    exact h

theorem takeWhile_all {α} (p : α → Bool) : ∀ (l : List α), (∀ x ∈ l, p x = true) → l.takeWhile p = l := by
  intro l
  induction l with
  | nil => intro _; rfl
  | cons x l ih =>
    intro h
    rw [List.takeWhile_cons, h x (List.mem_cons_self)]
    simp only [if_true]
    rw [ih (fun y hy => h y (List.mem_cons_of_mem _ hy))]

theorem digits_lt {b : Nat} (hb : 2 ≤ b) (n : Nat) : ∀ d ∈ Spec.digits b n, d < b := by
  induction n using Spec.digits.induct b with
  | case1 x h =>
    rcases h with h | h
    · subst h; rw [digits_zero]; intro d hd; cases hd
    · omega
  | case2 x h ih =>
    have hx : x ≠ 0 := by omega
    rw [digits_pos hb hx]
    intro d hd
    rcases List.mem_append.mp hd with hd | hd
    · exact ih d hd
    · simp at hd; subst hd; exact Nat.mod_lt _ (by omega)

theorem digitVal_digitChar {d : Nat} (hd : d < 36) : Spec.digitVal (Spec.digitChar d) = some d := by
  unfold Spec.digitChar Spec.digitVal
  by_cases h : d < 10
  · have h1 : 48 ≤ 48 + d ∧ 48 + d ≤ 57 := by omega
    simp only [h, if_true, h1, and_self]
    congr 1; omega
  · have h1 : ¬(48 ≤ 87 + d ∧ 87 + d ≤ 57) := by omega
    have h2 : 97 ≤ 87 + d ∧ 87 + d ≤ 122 := by omega
    simp only [h, if_false, h1, h2, and_self, if_true]
    congr 1; omega

theorem digitChar_bounds {d : Nat} (hd : d < 36) : Spec.digitChar d < 256 ∧ Spec.digitChar d ≠ 45 := by
  unfold Spec.digitChar; split <;> omega

theorem valueOf_append_digit (b : Nat) (l : List Nat) {d : Nat} (hd : d < 36) :
    Spec.valueOf b (l ++ [Spec.digitChar d]) = Spec.valueOf b l * b + d := by
  simp [Spec.valueOf, List.foldl_append, digitVal_digitChar hd]

theorem valueOf_digits {b : Nat} (hb : 2 ≤ b ∧ b ≤ 36) (n : Nat) :
    Spec.valueOf b ((Spec.digits b n).map Spec.digitChar) = n := by
  induction n using Spec.digits.induct b with
  | case1 x h =>
    rcases h with h | h
    · subst h; rw [digits_zero]; rfl
    · omega
  | case2 x h ih =>
    have hx : x ≠ 0 := by omega
    rw [digits_pos hb.1 hx, List.map_append, List.map_cons, List.map_nil,
      valueOf_append_digit b _ (by have := Nat.mod_lt x (show 0 < b by omega); omega), ih]
    have := Nat.div_add_mod x b
    rw [Nat.mul_comm] at this
    exact this

/-- Parsing the text that the reference formatter produces gives the value back and consumes all of it. -/
theorem parse_render (t : IntTy) (v : Int) (hv : t.inRange v = true) (b : Nat) (hb : 2 ≤ b ∧ b ≤ 36) :
    Spec.parse t false (Spec.render v b) b = .ok v (Spec.render v b).length := by
  rw [parse_eq]
  simp only [Bool.false_eq_true, if_false]
  by_cases h0 : v = 0
  · subst h0
    have hd : Spec.isDigitOf b 48 = true := by
      have : Spec.digitVal 48 = some 0 := by decide
      simp [Spec.isDigitOf, this]; omega
    have hr : t.inRange 0 = true := hv
    simp [Spec.render, Spec.signOutcome, Spec.digitsOutcome, List.takeWhile_cons, hd, Spec.valueOf,
      show Spec.digitVal 48 = some 0 from by decide, hr]
  · have hn : v.natAbs ≠ 0 := by omega
    have hlt := digits_lt hb.1 v.natAbs
    have hall : ∀ x ∈ (Spec.digits b v.natAbs).map Spec.digitChar, Spec.isDigitOf b x = true := by
      intro x hx
      obtain ⟨d, hd, rfl⟩ := List.mem_map.mp hx
      have := hlt d hd
      simp [Spec.isDigitOf, digitVal_digitChar (show d < 36 by omega), this]
    have hne : (Spec.digits b v.natAbs).map Spec.digitChar ≠ [] := by
      intro h
      have := digits_ne_nil hb.1 hn
      simp at h
      simp [h] at this
    have hval := valueOf_digits hb v.natAbs
    by_cases hneg : v < 0
    · have hs : t.signed = true := by
        cases hsg : t.signed with
        | true => rfl
        | false => have := IntTy.nonneg_of_unsigned hsg hv; omega
      have hvv : -((v.natAbs : Nat) : Int) = v := by omega
      have hemp : ((Spec.digits b v.natAbs).map Spec.digitChar).isEmpty = false := by
        cases h : (Spec.digits b v.natAbs).map Spec.digitChar with
        | nil => exact absurd h hne
        | cons _ _ => rfl
      simp only [Spec.render, h0, hneg, if_true, if_false, Spec.signOutcome, List.cons_append, List.nil_append,
        List.head?_cons, hs, Bool.true_and, beq_self_eq_true, List.drop_succ_cons, List.drop_zero,
        Spec.digitsOutcome, takeWhile_all _ _ hall, hemp, Bool.false_eq_true, hval, hvv, hv, List.length_cons,
        Nat.zero_add]
      congr 1; omega
    · have hvv : ((v.natAbs : Nat) : Int) = v := by omega
      have hhead : (((Spec.digits b v.natAbs).map Spec.digitChar).head? == some 45) = false := by
        cases h : (Spec.digits b v.natAbs).map Spec.digitChar with
        | nil => rfl
        | cons x l =>
          have hx : x ∈ (Spec.digits b v.natAbs).map Spec.digitChar := by rw [h]; exact List.mem_cons_self
          obtain ⟨d, hd, rfl⟩ := List.mem_map.mp hx
          have := (digitChar_bounds (show d < 36 by have := hlt d hd; omega)).2
          simp [this]
      have hemp : ((Spec.digits b v.natAbs).map Spec.digitChar).isEmpty = false := by
        cases h : (Spec.digits b v.natAbs).map Spec.digitChar with
        | nil => exact absurd h hne
        | cons _ _ => rfl
      simp only [Spec.render, h0, hneg, if_false, Spec.signOutcome, List.nil_append, hhead, Bool.and_false,
        Bool.false_eq_true, Spec.digitsOutcome, takeWhile_all _ _ hall, hemp, hval, hvv, hv, if_true,
        Nat.zero_add, Nat.add_zero]

theorem render_bytes (v : Int) (b : Nat) (hb : 2 ≤ b ∧ b ≤ 36) : ∀ c ∈ Spec.render v b, c < 256 := by
  intro c hc
  unfold Spec.render at hc
  split at hc
  · simp at hc; omega
  · rcases List.mem_append.mp hc with h | h
    · split at h
      · simp at h; omega
      · cases h
    · obtain ⟨d, hd, rfl⟩ := List.mem_map.mp h
      have := digits_lt hb.1 _ d hd
      exact (digitChar_bounds (show d < 36 by omega)).1

end Tetl.C10
