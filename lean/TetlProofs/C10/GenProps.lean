/-
C10, tie T — theorems over the GENERATED overflow checkers and `parseDigit` lambdas of `strings::to_integer`
(Tetl/C10/Gen.lean, regenerated from the clang AST of include/etl/_strings/to_integer.hpp on every run).

For each of the 15 integral types the library can instantiate `to_integer` with:
  * `gen_<checker>_eq`    the translated functor (constructor `base`, call `value digit`) is the hand model
                          `wouldOverflow` and none of its undefined-behaviour obligations fails (division by zero,
                          `min / -1`, signed overflow of the promoted arithmetic, `-input` inside `etl::abs`),
                          for every base in `[2, 36]` and all values of the type;
  * `gen_<checker>_exact` composed with `wouldOverflow_exact`: the answer is `true` exactly when the next accumulation
                          step (`value * base - digit` for signed types, which accumulate through the negative numbers,
                          `value * base + digit` for unsigned ones) leaves the type;
  * `gen_parseDigit_<ty>_eq` the translated lambda is the hand model `parseDigit` and has no UB, for EVERY `int` argument.
The bodies differ only in constants and conversion widths: one generic lemma per signedness over a "shape" whose
conversions are parameters (`sShape_eq`, `uShape_eq`, `pdShape_eq`); every instance is that lemma plus `rfl`-matching.
-/
import TetlProofs.C10.GenLemmas
namespace Tetl.C10.GenProps
open Tetl Tetl.C10 Tetl.CSem

/-! ### the generated checkers -/

theorem gen_schk_i8_eq (base value digit : Int) (hb : 2 ≤ base ∧ base ≤ 36)
    (hv : (⟨8, true⟩ : IntTy).inRange value = true) (hd : (⟨8, true⟩ : IntTy).inRange digit = true) :
    Gen.schk_i8 base value digit = wouldOverflow ⟨8, true⟩ base value digit ∧ Gen.schk_i8_ub base value digit = true :=
  sShape_eq ⟨8, true⟩ rfl (by decide) (wrapS 8) (wrapS 32) Gen.abs_i8 32 Gen.abs_i8_ub (-128) (-2147483648) (by decide)
    (wrapS_of_signed _ rfl (by decide) (by decide)) (wrapS_of_signed _ rfl (by decide) (by decide)) (inRangeS_of_signed _ rfl (by decide)) (absN_ok 8 32 (by decide) (by decide)) base value digit hb hv hd

/-- `true` exactly when `value * base - digit` is below `numeric_limits<Int>::min()` -/
theorem gen_schk_i8_exact (base value digit : Int) (hb : 2 ≤ base ∧ base ≤ 36) (hv : -128 ≤ value ∧ value ≤ 0)
    (hd : 0 ≤ digit ∧ digit < base) : Gen.schk_i8 base value digit = decide (value * base - digit < -128) :=
  signed_exact ⟨8, true⟩ rfl (by decide) Gen.schk_i8 (fun b v d h1 h2 h3 => (gen_schk_i8_eq b v d h1 h2 h3).1)
    base value digit hb hv hd

example : Gen.schk_i8 10 (-12) 8 = false ∧ Gen.schk_i8 10 (-12) 9 = true ∧
    Gen.schk_i8_ub 10 (-12) 8 = true :=
  ⟨by rw [gen_schk_i8_exact _ _ _ (by decide) (by decide) (by decide)]; decide,
   by rw [gen_schk_i8_exact _ _ _ (by decide) (by decide) (by decide)]; decide,
   (gen_schk_i8_eq _ _ _ (by decide) (by decide) (by decide)).2⟩

theorem gen_schk_i16_eq (base value digit : Int) (hb : 2 ≤ base ∧ base ≤ 36)
    (hv : (⟨16, true⟩ : IntTy).inRange value = true) (hd : (⟨16, true⟩ : IntTy).inRange digit = true) :
    Gen.schk_i16 base value digit = wouldOverflow ⟨16, true⟩ base value digit ∧ Gen.schk_i16_ub base value digit = true :=
  sShape_eq ⟨16, true⟩ rfl (by decide) (wrapS 16) (wrapS 32) Gen.abs_i16 32 Gen.abs_i16_ub (-32768) (-2147483648) (by decide)
    (wrapS_of_signed _ rfl (by decide) (by decide)) (wrapS_of_signed _ rfl (by decide) (by decide)) (inRangeS_of_signed _ rfl (by decide)) (absN_ok 16 32 (by decide) (by decide)) base value digit hb hv hd

/-- `true` exactly when `value * base - digit` is below `numeric_limits<Int>::min()` -/
theorem gen_schk_i16_exact (base value digit : Int) (hb : 2 ≤ base ∧ base ≤ 36) (hv : -32768 ≤ value ∧ value ≤ 0)
    (hd : 0 ≤ digit ∧ digit < base) : Gen.schk_i16 base value digit = decide (value * base - digit < -32768) :=
  signed_exact ⟨16, true⟩ rfl (by decide) Gen.schk_i16 (fun b v d h1 h2 h3 => (gen_schk_i16_eq b v d h1 h2 h3).1)
    base value digit hb hv hd

example : Gen.schk_i16 10 (-3276) 8 = false ∧ Gen.schk_i16 10 (-3276) 9 = true ∧
    Gen.schk_i16_ub 10 (-3276) 8 = true :=
  ⟨by rw [gen_schk_i16_exact _ _ _ (by decide) (by decide) (by decide)]; decide,
   by rw [gen_schk_i16_exact _ _ _ (by decide) (by decide) (by decide)]; decide,
   (gen_schk_i16_eq _ _ _ (by decide) (by decide) (by decide)).2⟩

theorem gen_schk_i32_eq (base value digit : Int) (hb : 2 ≤ base ∧ base ≤ 36)
    (hv : (⟨32, true⟩ : IntTy).inRange value = true) (hd : (⟨32, true⟩ : IntTy).inRange digit = true) :
    Gen.schk_i32 base value digit = wouldOverflow ⟨32, true⟩ base value digit ∧ Gen.schk_i32_ub base value digit = true :=
  sShape_eq ⟨32, true⟩ rfl (by decide) id id Gen.abs_i32 32 Gen.abs_i32_ub (-2147483648) (-2147483648) (by decide)
    (fun _ _ => rfl) (fun _ _ => rfl) (inRangeS_of_signed _ rfl (by decide)) abs_i32_ok base value digit hb hv hd

/-- `true` exactly when `value * base - digit` is below `numeric_limits<Int>::min()` -/
theorem gen_schk_i32_exact (base value digit : Int) (hb : 2 ≤ base ∧ base ≤ 36) (hv : -2147483648 ≤ value ∧ value ≤ 0)
    (hd : 0 ≤ digit ∧ digit < base) : Gen.schk_i32 base value digit = decide (value * base - digit < -2147483648) :=
  signed_exact ⟨32, true⟩ rfl (by decide) Gen.schk_i32 (fun b v d h1 h2 h3 => (gen_schk_i32_eq b v d h1 h2 h3).1)
    base value digit hb hv hd

example : Gen.schk_i32 10 (-214748364) 8 = false ∧ Gen.schk_i32 10 (-214748364) 9 = true ∧
    Gen.schk_i32_ub 10 (-214748364) 8 = true :=
  ⟨by rw [gen_schk_i32_exact _ _ _ (by decide) (by decide) (by decide)]; decide,
   by rw [gen_schk_i32_exact _ _ _ (by decide) (by decide) (by decide)]; decide,
   (gen_schk_i32_eq _ _ _ (by decide) (by decide) (by decide)).2⟩

theorem gen_schk_i64_eq (base value digit : Int) (hb : 2 ≤ base ∧ base ≤ 36)
    (hv : (⟨64, true⟩ : IntTy).inRange value = true) (hd : (⟨64, true⟩ : IntTy).inRange digit = true) :
    Gen.schk_i64 base value digit = wouldOverflow ⟨64, true⟩ base value digit ∧ Gen.schk_i64_ub base value digit = true :=
  sShape_eq ⟨64, true⟩ rfl (by decide) id id Gen.abs_i64 64 Gen.abs_i64_ub (-9223372036854775808) (-9223372036854775808) (by decide)
    (fun _ _ => rfl) (fun _ _ => rfl) (inRangeS_of_signed _ rfl (by decide)) abs_i64_ok base value digit hb hv hd

/-- `true` exactly when `value * base - digit` is below `numeric_limits<Int>::min()` -/
theorem gen_schk_i64_exact (base value digit : Int) (hb : 2 ≤ base ∧ base ≤ 36) (hv : -9223372036854775808 ≤ value ∧ value ≤ 0)
    (hd : 0 ≤ digit ∧ digit < base) : Gen.schk_i64 base value digit = decide (value * base - digit < -9223372036854775808) :=
  signed_exact ⟨64, true⟩ rfl (by decide) Gen.schk_i64 (fun b v d h1 h2 h3 => (gen_schk_i64_eq b v d h1 h2 h3).1)
    base value digit hb hv hd

example : Gen.schk_i64 10 (-922337203685477580) 8 = false ∧ Gen.schk_i64 10 (-922337203685477580) 9 = true ∧
    Gen.schk_i64_ub 10 (-922337203685477580) 8 = true :=
  ⟨by rw [gen_schk_i64_exact _ _ _ (by decide) (by decide) (by decide)]; decide,
   by rw [gen_schk_i64_exact _ _ _ (by decide) (by decide) (by decide)]; decide,
   (gen_schk_i64_eq _ _ _ (by decide) (by decide) (by decide)).2⟩

theorem gen_schk_ill_eq (base value digit : Int) (hb : 2 ≤ base ∧ base ≤ 36)
    (hv : (⟨64, true⟩ : IntTy).inRange value = true) (hd : (⟨64, true⟩ : IntTy).inRange digit = true) :
    Gen.schk_ill base value digit = wouldOverflow ⟨64, true⟩ base value digit ∧ Gen.schk_ill_ub base value digit = true :=
  sShape_eq ⟨64, true⟩ rfl (by decide) id id Gen.abs_ill 64 Gen.abs_ill_ub (-9223372036854775808) (-9223372036854775808) (by decide)
    (fun _ _ => rfl) (fun _ _ => rfl) (inRangeS_of_signed _ rfl (by decide)) abs_ill_ok base value digit hb hv hd

/-- `true` exactly when `value * base - digit` is below `numeric_limits<Int>::min()` -/
theorem gen_schk_ill_exact (base value digit : Int) (hb : 2 ≤ base ∧ base ≤ 36) (hv : -9223372036854775808 ≤ value ∧ value ≤ 0)
    (hd : 0 ≤ digit ∧ digit < base) : Gen.schk_ill base value digit = decide (value * base - digit < -9223372036854775808) :=
  signed_exact ⟨64, true⟩ rfl (by decide) Gen.schk_ill (fun b v d h1 h2 h3 => (gen_schk_ill_eq b v d h1 h2 h3).1)
    base value digit hb hv hd

example : Gen.schk_ill 16 (-576460752303423488) 0 = false ∧ Gen.schk_ill 16 (-576460752303423488) 1 = true ∧
    Gen.schk_ill_ub 16 (-576460752303423488) 0 = true :=
  ⟨by rw [gen_schk_ill_exact _ _ _ (by decide) (by decide) (by decide)]; decide,
   by rw [gen_schk_ill_exact _ _ _ (by decide) (by decide) (by decide)]; decide,
   (gen_schk_ill_eq _ _ _ (by decide) (by decide) (by decide)).2⟩

theorem gen_schk_c8_eq (base value digit : Int) (hb : 2 ≤ base ∧ base ≤ 36)
    (hv : (⟨8, true⟩ : IntTy).inRange value = true) (hd : (⟨8, true⟩ : IntTy).inRange digit = true) :
    Gen.schk_c8 base value digit = wouldOverflow ⟨8, true⟩ base value digit ∧ Gen.schk_c8_ub base value digit = true :=
  sShape_eq ⟨8, true⟩ rfl (by decide) (wrapS 8) (wrapS 32) Gen.abs_c8 32 Gen.abs_c8_ub (-128) (-2147483648) (by decide)
    (wrapS_of_signed _ rfl (by decide) (by decide)) (wrapS_of_signed _ rfl (by decide) (by decide)) (inRangeS_of_signed _ rfl (by decide)) (absN_ok 8 32 (by decide) (by decide)) base value digit hb hv hd

/-- `true` exactly when `value * base - digit` is below `numeric_limits<Int>::min()` -/
theorem gen_schk_c8_exact (base value digit : Int) (hb : 2 ≤ base ∧ base ≤ 36) (hv : -128 ≤ value ∧ value ≤ 0)
    (hd : 0 ≤ digit ∧ digit < base) : Gen.schk_c8 base value digit = decide (value * base - digit < -128) :=
  signed_exact ⟨8, true⟩ rfl (by decide) Gen.schk_c8 (fun b v d h1 h2 h3 => (gen_schk_c8_eq b v d h1 h2 h3).1)
    base value digit hb hv hd

example : Gen.schk_c8 36 (-3) 20 = false ∧ Gen.schk_c8 36 (-3) 21 = true ∧
    Gen.schk_c8_ub 36 (-3) 20 = true :=
  ⟨by rw [gen_schk_c8_exact _ _ _ (by decide) (by decide) (by decide)]; decide,
   by rw [gen_schk_c8_exact _ _ _ (by decide) (by decide) (by decide)]; decide,
   (gen_schk_c8_eq _ _ _ (by decide) (by decide) (by decide)).2⟩

theorem gen_schk_wc_eq (base value digit : Int) (hb : 2 ≤ base ∧ base ≤ 36)
    (hv : (⟨32, true⟩ : IntTy).inRange value = true) (hd : (⟨32, true⟩ : IntTy).inRange digit = true) :
    Gen.schk_wc base value digit = wouldOverflow ⟨32, true⟩ base value digit ∧ Gen.schk_wc_ub base value digit = true :=
  sShape_eq ⟨32, true⟩ rfl (by decide) (wrapS 32) (wrapS 32) Gen.abs_wc 32 Gen.abs_wc_ub (-2147483648) (-2147483648) (by decide)
    (wrapS_of_signed _ rfl (by decide) (by decide)) (wrapS_of_signed _ rfl (by decide) (by decide)) (inRangeS_of_signed _ rfl (by decide)) (absN_ok 32 32 (by decide) (by decide)) base value digit hb hv hd

/-- `true` exactly when `value * base - digit` is below `numeric_limits<Int>::min()` -/
theorem gen_schk_wc_exact (base value digit : Int) (hb : 2 ≤ base ∧ base ≤ 36) (hv : -2147483648 ≤ value ∧ value ≤ 0)
    (hd : 0 ≤ digit ∧ digit < base) : Gen.schk_wc base value digit = decide (value * base - digit < -2147483648) :=
  signed_exact ⟨32, true⟩ rfl (by decide) Gen.schk_wc (fun b v d h1 h2 h3 => (gen_schk_wc_eq b v d h1 h2 h3).1)
    base value digit hb hv hd

example : Gen.schk_wc 10 (-214748364) 8 = false ∧ Gen.schk_wc 10 (-214748364) 9 = true ∧
    Gen.schk_wc_ub 10 (-214748364) 8 = true :=
  ⟨by rw [gen_schk_wc_exact _ _ _ (by decide) (by decide) (by decide)]; decide,
   by rw [gen_schk_wc_exact _ _ _ (by decide) (by decide) (by decide)]; decide,
   (gen_schk_wc_eq _ _ _ (by decide) (by decide) (by decide)).2⟩

theorem gen_uchk_u8_eq (base value digit : Int) (hb : 2 ≤ base ∧ base ≤ 36)
    (hv : (⟨8, false⟩ : IntTy).inRange value = true) (hd : (⟨8, false⟩ : IntTy).inRange digit = true) :
    Gen.uchk_u8 base value digit = wouldOverflow ⟨8, false⟩ base value digit ∧ Gen.uchk_u8_ub base value digit = true :=
  ⟨uShape_eq ⟨8, false⟩ rfl (by decide) (wrapU 8) (wrapS 32) cdiv cmod (255) (by decide)
    (wrapU_of_unsigned _ rfl (by decide)) (wrapS_of_unsigned _ rfl (by decide)) (fun _ _ => ⟨rfl, rfl⟩) base value digit hb hv hd,
   uShapeUbP_ok ⟨8, false⟩ rfl (by decide) (by decide) (wrapS 32) (255) (by decide) (wrapS_of_unsigned _ rfl (by decide)) base hb⟩

/-- `true` exactly when `value * base + digit` is above `numeric_limits<Int>::max()` -/
theorem gen_uchk_u8_exact (base value digit : Int) (hb : 2 ≤ base ∧ base ≤ 36) (hv : 0 ≤ value ∧ value ≤ 255)
    (hd : 0 ≤ digit ∧ digit < base) : Gen.uchk_u8 base value digit = decide (value * base + digit > 255) :=
  unsigned_exact ⟨8, false⟩ rfl (by decide) Gen.uchk_u8 (fun b v d h1 h2 h3 => (gen_uchk_u8_eq b v d h1 h2 h3).1)
    base value digit hb hv hd

example : Gen.uchk_u8 10 25 5 = false ∧ Gen.uchk_u8 10 25 6 = true ∧
    Gen.uchk_u8_ub 10 25 5 = true :=
  ⟨by rw [gen_uchk_u8_exact _ _ _ (by decide) (by decide) (by decide)]; decide,
   by rw [gen_uchk_u8_exact _ _ _ (by decide) (by decide) (by decide)]; decide,
   (gen_uchk_u8_eq _ _ _ (by decide) (by decide) (by decide)).2⟩

theorem gen_uchk_u16_eq (base value digit : Int) (hb : 2 ≤ base ∧ base ≤ 36)
    (hv : (⟨16, false⟩ : IntTy).inRange value = true) (hd : (⟨16, false⟩ : IntTy).inRange digit = true) :
    Gen.uchk_u16 base value digit = wouldOverflow ⟨16, false⟩ base value digit ∧ Gen.uchk_u16_ub base value digit = true :=
  ⟨uShape_eq ⟨16, false⟩ rfl (by decide) (wrapU 16) (wrapS 32) cdiv cmod (65535) (by decide)
    (wrapU_of_unsigned _ rfl (by decide)) (wrapS_of_unsigned _ rfl (by decide)) (fun _ _ => ⟨rfl, rfl⟩) base value digit hb hv hd,
   uShapeUbP_ok ⟨16, false⟩ rfl (by decide) (by decide) (wrapS 32) (65535) (by decide) (wrapS_of_unsigned _ rfl (by decide)) base hb⟩

/-- `true` exactly when `value * base + digit` is above `numeric_limits<Int>::max()` -/
theorem gen_uchk_u16_exact (base value digit : Int) (hb : 2 ≤ base ∧ base ≤ 36) (hv : 0 ≤ value ∧ value ≤ 65535)
    (hd : 0 ≤ digit ∧ digit < base) : Gen.uchk_u16 base value digit = decide (value * base + digit > 65535) :=
  unsigned_exact ⟨16, false⟩ rfl (by decide) Gen.uchk_u16 (fun b v d h1 h2 h3 => (gen_uchk_u16_eq b v d h1 h2 h3).1)
    base value digit hb hv hd

example : Gen.uchk_u16 10 6553 5 = false ∧ Gen.uchk_u16 10 6553 6 = true ∧
    Gen.uchk_u16_ub 10 6553 5 = true :=
  ⟨by rw [gen_uchk_u16_exact _ _ _ (by decide) (by decide) (by decide)]; decide,
   by rw [gen_uchk_u16_exact _ _ _ (by decide) (by decide) (by decide)]; decide,
   (gen_uchk_u16_eq _ _ _ (by decide) (by decide) (by decide)).2⟩

theorem gen_uchk_u32_eq (base value digit : Int) (hb : 2 ≤ base ∧ base ≤ 36)
    (hv : (⟨32, false⟩ : IntTy).inRange value = true) (hd : (⟨32, false⟩ : IntTy).inRange digit = true) :
    Gen.uchk_u32 base value digit = wouldOverflow ⟨32, false⟩ base value digit ∧ Gen.uchk_u32_ub base value digit = true :=
  ⟨uShape_eq ⟨32, false⟩ rfl (by decide) id id (· / ·) (· % ·) (4294967295) (by decide)
    (fun _ _ => rfl) (fun _ _ => rfl) (fun b hb => by have h := tdiv_max_bounds (4294967295) b (by decide) hb; exact ⟨h.2.2.2.2.1.symm, h.2.2.2.2.2.symm⟩) base value digit hb hv hd,
   uShapeUbN_ok ⟨32, false⟩ rfl (by decide) id (fun _ _ => rfl) base hb⟩

/-- `true` exactly when `value * base + digit` is above `numeric_limits<Int>::max()` -/
theorem gen_uchk_u32_exact (base value digit : Int) (hb : 2 ≤ base ∧ base ≤ 36) (hv : 0 ≤ value ∧ value ≤ 4294967295)
    (hd : 0 ≤ digit ∧ digit < base) : Gen.uchk_u32 base value digit = decide (value * base + digit > 4294967295) :=
  unsigned_exact ⟨32, false⟩ rfl (by decide) Gen.uchk_u32 (fun b v d h1 h2 h3 => (gen_uchk_u32_eq b v d h1 h2 h3).1)
    base value digit hb hv hd

example : Gen.uchk_u32 10 429496729 5 = false ∧ Gen.uchk_u32 10 429496729 6 = true ∧
    Gen.uchk_u32_ub 10 429496729 5 = true :=
  ⟨by rw [gen_uchk_u32_exact _ _ _ (by decide) (by decide) (by decide)]; decide,
   by rw [gen_uchk_u32_exact _ _ _ (by decide) (by decide) (by decide)]; decide,
   (gen_uchk_u32_eq _ _ _ (by decide) (by decide) (by decide)).2⟩

theorem gen_uchk_u64_eq (base value digit : Int) (hb : 2 ≤ base ∧ base ≤ 36)
    (hv : (⟨64, false⟩ : IntTy).inRange value = true) (hd : (⟨64, false⟩ : IntTy).inRange digit = true) :
    Gen.uchk_u64 base value digit = wouldOverflow ⟨64, false⟩ base value digit ∧ Gen.uchk_u64_ub base value digit = true :=
  ⟨uShape_eq ⟨64, false⟩ rfl (by decide) id id (· / ·) (· % ·) (18446744073709551615) (by decide)
    (fun _ _ => rfl) (fun _ _ => rfl) (fun b hb => by have h := tdiv_max_bounds (18446744073709551615) b (by decide) hb; exact ⟨h.2.2.2.2.1.symm, h.2.2.2.2.2.symm⟩) base value digit hb hv hd,
   uShapeUbN_ok ⟨64, false⟩ rfl (by decide) id (fun _ _ => rfl) base hb⟩

/-- `true` exactly when `value * base + digit` is above `numeric_limits<Int>::max()` -/
theorem gen_uchk_u64_exact (base value digit : Int) (hb : 2 ≤ base ∧ base ≤ 36) (hv : 0 ≤ value ∧ value ≤ 18446744073709551615)
    (hd : 0 ≤ digit ∧ digit < base) : Gen.uchk_u64 base value digit = decide (value * base + digit > 18446744073709551615) :=
  unsigned_exact ⟨64, false⟩ rfl (by decide) Gen.uchk_u64 (fun b v d h1 h2 h3 => (gen_uchk_u64_eq b v d h1 h2 h3).1)
    base value digit hb hv hd

example : Gen.uchk_u64 10 1844674407370955161 5 = false ∧ Gen.uchk_u64 10 1844674407370955161 6 = true ∧
    Gen.uchk_u64_ub 10 1844674407370955161 5 = true :=
  ⟨by rw [gen_uchk_u64_exact _ _ _ (by decide) (by decide) (by decide)]; decide,
   by rw [gen_uchk_u64_exact _ _ _ (by decide) (by decide) (by decide)]; decide,
   (gen_uchk_u64_eq _ _ _ (by decide) (by decide) (by decide)).2⟩

theorem gen_uchk_ull_eq (base value digit : Int) (hb : 2 ≤ base ∧ base ≤ 36)
    (hv : (⟨64, false⟩ : IntTy).inRange value = true) (hd : (⟨64, false⟩ : IntTy).inRange digit = true) :
    Gen.uchk_ull base value digit = wouldOverflow ⟨64, false⟩ base value digit ∧ Gen.uchk_ull_ub base value digit = true :=
  ⟨uShape_eq ⟨64, false⟩ rfl (by decide) id id (· / ·) (· % ·) (18446744073709551615) (by decide)
    (fun _ _ => rfl) (fun _ _ => rfl) (fun b hb => by have h := tdiv_max_bounds (18446744073709551615) b (by decide) hb; exact ⟨h.2.2.2.2.1.symm, h.2.2.2.2.2.symm⟩) base value digit hb hv hd,
   uShapeUbN_ok ⟨64, false⟩ rfl (by decide) id (fun _ _ => rfl) base hb⟩

/-- `true` exactly when `value * base + digit` is above `numeric_limits<Int>::max()` -/
theorem gen_uchk_ull_exact (base value digit : Int) (hb : 2 ≤ base ∧ base ≤ 36) (hv : 0 ≤ value ∧ value ≤ 18446744073709551615)
    (hd : 0 ≤ digit ∧ digit < base) : Gen.uchk_ull base value digit = decide (value * base + digit > 18446744073709551615) :=
  unsigned_exact ⟨64, false⟩ rfl (by decide) Gen.uchk_ull (fun b v d h1 h2 h3 => (gen_uchk_ull_eq b v d h1 h2 h3).1)
    base value digit hb hv hd

example : Gen.uchk_ull 36 512409557603043100 15 = false ∧ Gen.uchk_ull 36 512409557603043100 16 = true ∧
    Gen.uchk_ull_ub 36 512409557603043100 15 = true :=
  ⟨by rw [gen_uchk_ull_exact _ _ _ (by decide) (by decide) (by decide)]; decide,
   by rw [gen_uchk_ull_exact _ _ _ (by decide) (by decide) (by decide)]; decide,
   (gen_uchk_ull_eq _ _ _ (by decide) (by decide) (by decide)).2⟩

theorem gen_uchk_c8u_eq (base value digit : Int) (hb : 2 ≤ base ∧ base ≤ 36)
    (hv : (⟨8, false⟩ : IntTy).inRange value = true) (hd : (⟨8, false⟩ : IntTy).inRange digit = true) :
    Gen.uchk_c8u base value digit = wouldOverflow ⟨8, false⟩ base value digit ∧ Gen.uchk_c8u_ub base value digit = true :=
  ⟨uShape_eq ⟨8, false⟩ rfl (by decide) (wrapU 8) (wrapS 32) cdiv cmod (255) (by decide)
    (wrapU_of_unsigned _ rfl (by decide)) (wrapS_of_unsigned _ rfl (by decide)) (fun _ _ => ⟨rfl, rfl⟩) base value digit hb hv hd,
   uShapeUbP_ok ⟨8, false⟩ rfl (by decide) (by decide) (wrapS 32) (255) (by decide) (wrapS_of_unsigned _ rfl (by decide)) base hb⟩

/-- `true` exactly when `value * base + digit` is above `numeric_limits<Int>::max()` -/
theorem gen_uchk_c8u_exact (base value digit : Int) (hb : 2 ≤ base ∧ base ≤ 36) (hv : 0 ≤ value ∧ value ≤ 255)
    (hd : 0 ≤ digit ∧ digit < base) : Gen.uchk_c8u base value digit = decide (value * base + digit > 255) :=
  unsigned_exact ⟨8, false⟩ rfl (by decide) Gen.uchk_c8u (fun b v d h1 h2 h3 => (gen_uchk_c8u_eq b v d h1 h2 h3).1)
    base value digit hb hv hd

example : Gen.uchk_c8u 36 7 3 = false ∧ Gen.uchk_c8u 36 7 4 = true ∧
    Gen.uchk_c8u_ub 36 7 3 = true :=
  ⟨by rw [gen_uchk_c8u_exact _ _ _ (by decide) (by decide) (by decide)]; decide,
   by rw [gen_uchk_c8u_exact _ _ _ (by decide) (by decide) (by decide)]; decide,
   (gen_uchk_c8u_eq _ _ _ (by decide) (by decide) (by decide)).2⟩

theorem gen_uchk_c16_eq (base value digit : Int) (hb : 2 ≤ base ∧ base ≤ 36)
    (hv : (⟨16, false⟩ : IntTy).inRange value = true) (hd : (⟨16, false⟩ : IntTy).inRange digit = true) :
    Gen.uchk_c16 base value digit = wouldOverflow ⟨16, false⟩ base value digit ∧ Gen.uchk_c16_ub base value digit = true :=
  ⟨uShape_eq ⟨16, false⟩ rfl (by decide) (wrapU 16) (wrapS 32) cdiv cmod (65535) (by decide)
    (wrapU_of_unsigned _ rfl (by decide)) (wrapS_of_unsigned _ rfl (by decide)) (fun _ _ => ⟨rfl, rfl⟩) base value digit hb hv hd,
   uShapeUbP_ok ⟨16, false⟩ rfl (by decide) (by decide) (wrapS 32) (65535) (by decide) (wrapS_of_unsigned _ rfl (by decide)) base hb⟩

/-- `true` exactly when `value * base + digit` is above `numeric_limits<Int>::max()` -/
theorem gen_uchk_c16_exact (base value digit : Int) (hb : 2 ≤ base ∧ base ≤ 36) (hv : 0 ≤ value ∧ value ≤ 65535)
    (hd : 0 ≤ digit ∧ digit < base) : Gen.uchk_c16 base value digit = decide (value * base + digit > 65535) :=
  unsigned_exact ⟨16, false⟩ rfl (by decide) Gen.uchk_c16 (fun b v d h1 h2 h3 => (gen_uchk_c16_eq b v d h1 h2 h3).1)
    base value digit hb hv hd

example : Gen.uchk_c16 10 6553 5 = false ∧ Gen.uchk_c16 10 6553 6 = true ∧
    Gen.uchk_c16_ub 10 6553 5 = true :=
  ⟨by rw [gen_uchk_c16_exact _ _ _ (by decide) (by decide) (by decide)]; decide,
   by rw [gen_uchk_c16_exact _ _ _ (by decide) (by decide) (by decide)]; decide,
   (gen_uchk_c16_eq _ _ _ (by decide) (by decide) (by decide)).2⟩

theorem gen_uchk_c32_eq (base value digit : Int) (hb : 2 ≤ base ∧ base ≤ 36)
    (hv : (⟨32, false⟩ : IntTy).inRange value = true) (hd : (⟨32, false⟩ : IntTy).inRange digit = true) :
    Gen.uchk_c32 base value digit = wouldOverflow ⟨32, false⟩ base value digit ∧ Gen.uchk_c32_ub base value digit = true :=
  ⟨uShape_eq ⟨32, false⟩ rfl (by decide) (wrapU 32) (wrapU 32) (· / ·) (· % ·) (4294967295) (by decide)
    (wrapU_of_unsigned _ rfl (by decide)) (wrapU_of_unsigned _ rfl (by decide)) (fun b hb => by have h := tdiv_max_bounds (4294967295) b (by decide) hb; exact ⟨h.2.2.2.2.1.symm, h.2.2.2.2.2.symm⟩) base value digit hb hv hd,
   uShapeUbN_ok ⟨32, false⟩ rfl (by decide) (wrapU 32) (wrapU_of_unsigned _ rfl (by decide)) base hb⟩

/-- `true` exactly when `value * base + digit` is above `numeric_limits<Int>::max()` -/
theorem gen_uchk_c32_exact (base value digit : Int) (hb : 2 ≤ base ∧ base ≤ 36) (hv : 0 ≤ value ∧ value ≤ 4294967295)
    (hd : 0 ≤ digit ∧ digit < base) : Gen.uchk_c32 base value digit = decide (value * base + digit > 4294967295) :=
  unsigned_exact ⟨32, false⟩ rfl (by decide) Gen.uchk_c32 (fun b v d h1 h2 h3 => (gen_uchk_c32_eq b v d h1 h2 h3).1)
    base value digit hb hv hd

example : Gen.uchk_c32 10 429496729 5 = false ∧ Gen.uchk_c32 10 429496729 6 = true ∧
    Gen.uchk_c32_ub 10 429496729 5 = true :=
  ⟨by rw [gen_uchk_c32_exact _ _ _ (by decide) (by decide) (by decide)]; decide,
   by rw [gen_uchk_c32_exact _ _ _ (by decide) (by decide) (by decide)]; decide,
   (gen_uchk_c32_eq _ _ _ (by decide) (by decide) (by decide)).2⟩

/-! the generated lambdas: equal to the hand model and free of UB for every `int` argument (no hypothesis on `ch`) -/

theorem gen_parseDigit_i8_eq (ch : Int) :
    Gen.parseDigit_i8 ch = parseDigit ⟨8, true⟩ ch ∧ Gen.parseDigit_i8_ub ch = true :=
  ⟨pdShape_eq ⟨8, true⟩ (wrapS 8) (wrapS 8) id (wrapS 32) (wrapS 8) (127) (by decide) (keeps_wrapS (by decide)) (keeps_wrapS (by decide)) keeps_id (keeps_wrapS (by decide)) (keeps_wrapS (by decide)) ch,
   pdShapeUbA_ok (wrapS 32) (wrapS 8) 32 (by decide) (keeps_wrapS (by decide)) (keeps_wrapS (by decide)) ch⟩

theorem gen_parseDigit_i16_eq (ch : Int) :
    Gen.parseDigit_i16 ch = parseDigit ⟨16, true⟩ ch ∧ Gen.parseDigit_i16_ub ch = true :=
  ⟨pdShape_eq ⟨16, true⟩ (wrapS 16) (wrapS 16) id (wrapS 32) (wrapS 16) (32767) (by decide) (keeps_wrapS (by decide)) (keeps_wrapS (by decide)) keeps_id (keeps_wrapS (by decide)) (keeps_wrapS (by decide)) ch,
   pdShapeUbA_ok (wrapS 32) (wrapS 16) 32 (by decide) (keeps_wrapS (by decide)) (keeps_wrapS (by decide)) ch⟩

theorem gen_parseDigit_i32_eq (ch : Int) :
    Gen.parseDigit_i32 ch = parseDigit ⟨32, true⟩ ch ∧ Gen.parseDigit_i32_ub ch = true :=
  ⟨pdShape_eq ⟨32, true⟩ id id id id id (2147483647) (by decide) keeps_id keeps_id keeps_id keeps_id keeps_id ch,
   pdShapeUbA_ok id id 32 (by decide) keeps_id keeps_id ch⟩

theorem gen_parseDigit_i64_eq (ch : Int) :
    Gen.parseDigit_i64 ch = parseDigit ⟨64, true⟩ ch ∧ Gen.parseDigit_i64_ub ch = true :=
  ⟨pdShape_eq ⟨64, true⟩ (wrapS 64) id id id (wrapS 64) (9223372036854775807) (by decide) (keeps_wrapS (by decide)) keeps_id keeps_id keeps_id (keeps_wrapS (by decide)) ch,
   pdShapeUbA_ok id (wrapS 64) 64 (by decide) keeps_id (keeps_wrapS (by decide)) ch⟩

theorem gen_parseDigit_ill_eq (ch : Int) :
    Gen.parseDigit_ill ch = parseDigit ⟨64, true⟩ ch ∧ Gen.parseDigit_ill_ub ch = true :=
  ⟨pdShape_eq ⟨64, true⟩ (wrapS 64) id id id (wrapS 64) (9223372036854775807) (by decide) (keeps_wrapS (by decide)) keeps_id keeps_id keeps_id (keeps_wrapS (by decide)) ch,
   pdShapeUbA_ok id (wrapS 64) 64 (by decide) keeps_id (keeps_wrapS (by decide)) ch⟩

theorem gen_parseDigit_c8_eq (ch : Int) :
    Gen.parseDigit_c8 ch = parseDigit ⟨8, true⟩ ch ∧ Gen.parseDigit_c8_ub ch = true :=
  ⟨pdShape_eq ⟨8, true⟩ (wrapS 8) (wrapS 8) id (wrapS 32) (wrapS 8) (127) (by decide) (keeps_wrapS (by decide)) (keeps_wrapS (by decide)) keeps_id (keeps_wrapS (by decide)) (keeps_wrapS (by decide)) ch,
   pdShapeUbA_ok (wrapS 32) (wrapS 8) 32 (by decide) (keeps_wrapS (by decide)) (keeps_wrapS (by decide)) ch⟩

theorem gen_parseDigit_wc_eq (ch : Int) :
    Gen.parseDigit_wc ch = parseDigit ⟨32, true⟩ ch ∧ Gen.parseDigit_wc_ub ch = true :=
  ⟨pdShape_eq ⟨32, true⟩ (wrapS 32) (wrapS 32) id (wrapS 32) (wrapS 32) (2147483647) (by decide) (keeps_wrapS (by decide)) (keeps_wrapS (by decide)) keeps_id (keeps_wrapS (by decide)) (keeps_wrapS (by decide)) ch,
   pdShapeUbA_ok (wrapS 32) (wrapS 32) 32 (by decide) (keeps_wrapS (by decide)) (keeps_wrapS (by decide)) ch⟩

theorem gen_parseDigit_u8_eq (ch : Int) :
    Gen.parseDigit_u8 ch = parseDigit ⟨8, false⟩ ch ∧ Gen.parseDigit_u8_ub ch = true :=
  ⟨pdShape_eq ⟨8, false⟩ (wrapU 8) (wrapU 8) id (wrapS 32) (wrapU 8) (255) (by decide) (keeps_wrapU (by decide)) (keeps_wrapU (by decide)) keeps_id (keeps_wrapS (by decide)) (keeps_wrapU (by decide)) ch,
   pdShapeUbA_ok (wrapS 32) (wrapU 8) 32 (by decide) (keeps_wrapS (by decide)) (keeps_wrapU (by decide)) ch⟩

theorem gen_parseDigit_u16_eq (ch : Int) :
    Gen.parseDigit_u16 ch = parseDigit ⟨16, false⟩ ch ∧ Gen.parseDigit_u16_ub ch = true :=
  ⟨pdShape_eq ⟨16, false⟩ (wrapU 16) (wrapU 16) id (wrapS 32) (wrapU 16) (65535) (by decide) (keeps_wrapU (by decide)) (keeps_wrapU (by decide)) keeps_id (keeps_wrapS (by decide)) (keeps_wrapU (by decide)) ch,
   pdShapeUbA_ok (wrapS 32) (wrapU 16) 32 (by decide) (keeps_wrapS (by decide)) (keeps_wrapU (by decide)) ch⟩

theorem gen_parseDigit_u32_eq (ch : Int) :
    Gen.parseDigit_u32 ch = parseDigit ⟨32, false⟩ ch ∧ Gen.parseDigit_u32_ub ch = true :=
  ⟨pdShape_eq ⟨32, false⟩ (wrapU 32) (wrapU 32) (wrapU 32) id (wrapU 32) (4294967295) (by decide) (keeps_wrapU (by decide)) (keeps_wrapU (by decide)) (keeps_wrapU (by decide)) keeps_id (keeps_wrapU (by decide)) ch,
   pdShapeUbB_ok ch⟩

theorem gen_parseDigit_u64_eq (ch : Int) :
    Gen.parseDigit_u64 ch = parseDigit ⟨64, false⟩ ch ∧ Gen.parseDigit_u64_ub ch = true :=
  ⟨pdShape_eq ⟨64, false⟩ (wrapU 64) (wrapU 64) (wrapU 64) id (wrapU 64) (18446744073709551615) (by decide) (keeps_wrapU (by decide)) (keeps_wrapU (by decide)) (keeps_wrapU (by decide)) keeps_id (keeps_wrapU (by decide)) ch,
   pdShapeUbB_ok ch⟩

theorem gen_parseDigit_ull_eq (ch : Int) :
    Gen.parseDigit_ull ch = parseDigit ⟨64, false⟩ ch ∧ Gen.parseDigit_ull_ub ch = true :=
  ⟨pdShape_eq ⟨64, false⟩ (wrapU 64) (wrapU 64) (wrapU 64) id (wrapU 64) (18446744073709551615) (by decide) (keeps_wrapU (by decide)) (keeps_wrapU (by decide)) (keeps_wrapU (by decide)) keeps_id (keeps_wrapU (by decide)) ch,
   pdShapeUbB_ok ch⟩

theorem gen_parseDigit_c8u_eq (ch : Int) :
    Gen.parseDigit_c8u ch = parseDigit ⟨8, false⟩ ch ∧ Gen.parseDigit_c8u_ub ch = true :=
  ⟨pdShape_eq ⟨8, false⟩ (wrapU 8) (wrapU 8) id (wrapS 32) (wrapU 8) (255) (by decide) (keeps_wrapU (by decide)) (keeps_wrapU (by decide)) keeps_id (keeps_wrapS (by decide)) (keeps_wrapU (by decide)) ch,
   pdShapeUbA_ok (wrapS 32) (wrapU 8) 32 (by decide) (keeps_wrapS (by decide)) (keeps_wrapU (by decide)) ch⟩

theorem gen_parseDigit_c16_eq (ch : Int) :
    Gen.parseDigit_c16 ch = parseDigit ⟨16, false⟩ ch ∧ Gen.parseDigit_c16_ub ch = true :=
  ⟨pdShape_eq ⟨16, false⟩ (wrapU 16) (wrapU 16) id (wrapS 32) (wrapU 16) (65535) (by decide) (keeps_wrapU (by decide)) (keeps_wrapU (by decide)) keeps_id (keeps_wrapS (by decide)) (keeps_wrapU (by decide)) ch,
   pdShapeUbA_ok (wrapS 32) (wrapU 16) 32 (by decide) (keeps_wrapS (by decide)) (keeps_wrapU (by decide)) ch⟩

theorem gen_parseDigit_c32_eq (ch : Int) :
    Gen.parseDigit_c32 ch = parseDigit ⟨32, false⟩ ch ∧ Gen.parseDigit_c32_ub ch = true :=
  ⟨pdShape_eq ⟨32, false⟩ (wrapU 32) (fun x => wrapU 32 (wrapU 32 x)) (wrapU 32) (wrapU 32) (wrapU 32) (4294967295) (by decide) (keeps_wrapU (by decide)) (keeps_comp (keeps_wrapU (by decide)) (keeps_wrapU (by decide))) (keeps_wrapU (by decide)) (keeps_wrapU (by decide)) (keeps_wrapU (by decide)) ch,
   pdShapeUbB_ok ch⟩

example : Gen.parseDigit_i32 90 = 35 ∧ Gen.parseDigit_u8 (-1) = 255 ∧ Gen.parseDigit_i64 55 = 7 ∧ Gen.parseDigit_c32 103 = 16 := by decide

end Tetl.C10.GenProps
