/-
C10 — `to_integer` with base 0 (the auto-detection of `strtol`): the detection block reads inside the
string and selects the base / skips the prefix exactly as `Spec.parseAuto` says.
-/
import TetlProofs.C10.Parse
namespace Tetl.C10
open Tetl

theorem rd_append_add {α} (pre l : List α) (k : Nat) : rd (pre ++ l) (pre.length + k) = rd l k := by
  simp [rd, List.getElem?_append_right]

/-- `parseDigit(ch) < Int(16)` is "a hexadecimal digit" -/
theorem parseDigit_lt16 (t : IntTy) (h8 : 8 ≤ t.bits) {c : Nat} (hc : c < 256) :
    decide (parseDigit t (toInt c) < 16) = Spec.isDigitOf 16 c := by
  have hpd := parseDigit_spec t hc
  have hmax := maxV_ge t h8
  unfold Spec.isDigitOf
  cases hdv : Spec.digitVal c with
  | none =>
    rw [hdv] at hpd
    simp only [] at hpd
    rw [hpd]
    simp only [decide_eq_false_iff_not]
    omega
  | some d =>
    rw [hdv] at hpd
    simp only [] at hpd
    rw [hpd.1, Bool.eq_iff_iff]
    simp only [decide_eq_true_eq]
    omega

/-- the base that base 0 stands for, as a function of the text after the sign -/
def Spec.autoBase (s2 : List Nat) : Nat :=
  if Spec.hexPrefix s2 then 16 else if s2.head? == some 48 then 8 else 10

theorem Spec.autoBase_range (s2 : List Nat) : 2 ≤ Spec.autoBase s2 ∧ Spec.autoBase s2 ≤ 36 := by
  unfold Spec.autoBase; split
  · omega
  · split <;> omega

/-- the detection block: every read is inside the string; the result is the base of C17 7.22.1.4 and the
    position after the `0x` prefix (when there is one) -/
theorem detectBase_spec (t : IntTy) (h8 : 8 ≤ t.bits) (pre : List Nat) (c1 : Nat) (r2 : List Nat)
    (hbytes : ∀ c ∈ c1 :: r2, c < 256) :
    detectBase t (pre ++ c1 :: r2) pre.length =
      .ok ((Spec.autoBase (c1 :: r2) : Int), pre.length + (if Spec.hexPrefix (c1 :: r2) then 2 else 0)) := by
  unfold detectBase Spec.autoBase
  simp only [rd_append, ok_bind, List.head?_cons]
  by_cases h48 : c1 = 48
  · subst h48
    simp only [beq_self_eq_true, if_true]
    cases r2 with
    | nil => simp [Spec.hexPrefix]
    | cons x r3 =>
      cases r3 with
      | nil => simp [Spec.hexPrefix]
      | cons d r4 =>
        have hd : d < 256 := hbytes d (by simp)
        have hlen : (pre ++ 48 :: x :: d :: r4).length - pre.length > 2 := by
          simp only [List.length_append, List.length_cons]; omega
        have r1 : rd (pre ++ 48 :: x :: d :: r4) (pre.length + 1) = .ok x := by
          rw [rd_append_add]; rfl
        have r2' : rd (pre ++ 48 :: x :: d :: r4) (pre.length + 2) = .ok d := by
          rw [rd_append_add]; rfl
        rw [if_pos hlen, r1]
        simp only [ok_bind, r2']
        cases hx : (x == 120 || x == 88) with
        | false => simp [Spec.hexPrefix, hx]
        | true =>
          simp only [if_true, Spec.hexPrefix, hx, Bool.true_and]
          have := parseDigit_lt16 t h8 hd
          cases hdg : Spec.isDigitOf 16 d with
          | true =>
            rw [hdg, decide_eq_true_eq] at this
            simp [this]
          | false =>
            rw [hdg, decide_eq_false_iff_not] at this
            simp [this]
  · have hne : (c1 == 48) = false := by simp [h48]
    have hhex : Spec.hexPrefix (c1 :: r2) = false := by
      unfold Spec.hexPrefix
      split
      · rename_i heq; simp at heq; exact absurd heq.1 h48
      · rfl
    simp [hne, hhex]

/-- the reference outcome after the sign with base 0 -/
def Spec.autoOutcome (t : IntTy) (neg : Bool) (off : Nat) (s2 : List Nat) : Spec.PRes :=
  Spec.digitsOutcome t (Spec.autoBase s2) neg (off + if Spec.hexPrefix s2 then 2 else 0)
    (if Spec.hexPrefix s2 then s2.drop 2 else s2)

/-- detection followed by the digits, for a non-empty rest `c1 :: r2` after the sign -/
theorem detectThenDigits_spec (t : IntTy) (h8 : 8 ≤ t.bits) (neg : Bool) (hneg : neg = true → t.signed = true)
    (pre : List Nat) (c1 : Nat) (r2 : List Nat) (hbytes : ∀ c ∈ c1 :: r2, c < 256) :
    (do let (b, p) ← detectBase t (pre ++ c1 :: r2) pre.length
        toIntegerDigits t (pre ++ c1 :: r2) b neg p) =
      .ok (TIRes.ofSpec (Spec.autoOutcome t neg pre.length (c1 :: r2))) := by
  rw [detectBase_spec t h8 pre c1 r2 hbytes]
  simp only [ok_bind]
  unfold Spec.autoOutcome
  have hb := Spec.autoBase_range (c1 :: r2)
  cases hhex : Spec.hexPrefix (c1 :: r2) with
  | false =>
    simp only [Bool.false_eq_true, if_false, Nat.add_zero]
    exact toIntegerDigits_spec t h8 _ hb neg hneg pre c1 r2 hbytes
  | true =>
    simp only [if_true]
    -- the text is `0 x d ...`
    match r2, hhex, hbytes with
    | x :: d :: r4, _, hbytes =>
      have e1 : pre ++ c1 :: x :: d :: r4 = (pre ++ [c1, x]) ++ d :: r4 := by simp
      have e2 : pre.length + 2 = (pre ++ [c1, x]).length := by simp
      have e3 : (c1 :: x :: d :: r4).drop 2 = d :: r4 := rfl
      rw [e3, e1, e2]
      exact toIntegerDigits_spec t h8 _ hb neg hneg (pre ++ [c1, x]) d r4
        (fun c hc => hbytes c (by simp at hc ⊢; rcases hc with h | h <;> simp [h]))
    | [], hhex, _ => simp [Spec.hexPrefix] at hhex
    | [_], hhex, _ => simp [Spec.hexPrefix] at hhex

/-- the reference outcome after the white space with base 0: optional `-` (signed types), detection, digits -/
def Spec.signOutcomeAuto (t : IntTy) (off : Nat) (s1 : List Nat) : Spec.PRes :=
  let neg := t.signed && (s1.head? == some 45)
  Spec.autoOutcome t neg (off + if neg then 1 else 0) (if neg then s1.drop 1 else s1)

theorem toIntegerAt_auto_spec (t : IntTy) (h8 : 8 ≤ t.bits) (pre s1 : List Nat) (hbytes : ∀ c ∈ s1, c < 256) :
    toIntegerAt t (pre ++ s1) 0 pre.length = .ok (TIRes.ofSpec (Spec.signOutcomeAuto t pre.length s1)) := by
  unfold toIntegerAt
  have hb0 : ((0 : Int) == 0) = true := rfl
  cases s1 with
  | nil => simp [Spec.signOutcomeAuto, Spec.autoOutcome, Spec.hexPrefix, Spec.digitsOutcome, TIRes.ofSpec]
  | cons c0 r1 =>
    have hc0 : c0 < 256 := hbytes c0 (List.mem_cons_self)
    have hne : (pre.length == (pre ++ c0 :: r1).length) = false := by simp
    simp only [hne, Bool.false_eq_true, if_false, rd_append, ok_bind, minus_toInt hc0]
    cases hneg : (t.signed && (c0 == 45)) with
    | true =>
      have hs : t.signed = true := by simp at hneg; exact hneg.1
      have hsig : Spec.signOutcomeAuto t pre.length (c0 :: r1) = Spec.autoOutcome t true (pre.length + 1) r1 := by
        have hc45 : c0 = 45 := by simp at hneg; exact hneg.2
        simp [Spec.signOutcomeAuto, hs, hc45]
      rw [hsig]
      simp only [if_true, Bool.true_and]
      cases r1 with
      | nil => simp [Spec.autoOutcome, Spec.hexPrefix, Spec.digitsOutcome, TIRes.ofSpec]
      | cons c1 r2 =>
        have hne2 : (pre.length + 1 == (pre ++ c0 :: c1 :: r2).length) = false := by simp
        simp only [hne2, hb0, Bool.false_eq_true, if_false, if_true]
        have e1 : pre ++ c0 :: c1 :: r2 = (pre ++ [c0]) ++ c1 :: r2 := by simp
        have e2 : pre.length + 1 = (pre ++ [c0]).length := by simp
        rw [e1, e2]
        exact detectThenDigits_spec t h8 true (fun _ => hs) (pre ++ [c0]) c1 r2
          (fun x hx => hbytes x (List.mem_cons_of_mem _ hx))
    | false =>
      have hsig : Spec.signOutcomeAuto t pre.length (c0 :: r1) = Spec.autoOutcome t false pre.length (c0 :: r1) := by
        simp [Spec.signOutcomeAuto, hneg]
      rw [hsig]
      simp only [hb0, Bool.false_eq_true, if_false, if_true, Bool.false_and]
      exact detectThenDigits_spec t h8 false (fun h => by cases h) pre c0 r1 hbytes

/-- `Spec.parseAuto` = white space (optional), then `signOutcomeAuto` at that offset -/
theorem parseAuto_eq (t : IntTy) (ws : Bool) (s : List Nat) :
    Spec.parseAuto t ws s =
      Spec.signOutcomeAuto t (if ws then (s.takeWhile Spec.isSpace).length else 0)
        (if ws then s.dropWhile Spec.isSpace else s) := by
  have hlen : s.length = (s.takeWhile Spec.isSpace).length + (s.dropWhile Spec.isSpace).length := by
    rw [← List.length_append, List.takeWhile_append_dropWhile]
  have key : ∀ (p : Nat) (s1 : List Nat), s.length = p + s1.length →
      (let neg := t.signed && (s1.head? == some 45)
       let s2 := if neg then s1.drop 1 else s1
       let hex := Spec.hexPrefix s2
       let b := if hex then 16 else if s2.head? == some 48 then 8 else 10
       let s3 := if hex then s2.drop 2 else s2
       let ds := s3.takeWhile (Spec.isDigitOf b)
       if ds.isEmpty then Spec.PRes.invalid
       else
         let v : Int := if neg then -(Spec.valueOf b ds : Int) else (Spec.valueOf b ds : Int)
         let n := s.length - s3.length + ds.length
         if t.inRange v then .ok v n else .range n) = Spec.signOutcomeAuto t p s1 := by
    intro p s1 hl
    unfold Spec.signOutcomeAuto Spec.autoOutcome Spec.digitsOutcome Spec.autoBase
    dsimp only
    generalize hnegdef : (t.signed && (s1.head? == some 45)) = neg
    have hl2 : s.length - (if neg then s1.drop 1 else s1).length = p + (if neg then 1 else 0) := by
      cases neg with
      | false => simp only [Bool.false_eq_true, if_false]; omega
      | true =>
        cases s1 with
        | nil => simp at hnegdef
        | cons c r => simp only [if_true, List.drop_succ_cons, List.drop_zero, List.length_cons] at hl ⊢; omega
    have hl1 : (if neg then s1.drop 1 else s1).length ≤ s.length := by
      cases neg <;> simp <;> omega
    generalize (if neg then s1.drop 1 else s1) = s2 at hl2 hl1
    cases hhex : Spec.hexPrefix s2 with
    | false =>
      simp only [Bool.false_eq_true, if_false, Nat.add_zero]
      rw [hl2]
    | true =>
      have h2 : 2 ≤ s2.length := by
        match s2, hhex with
        | _ :: _ :: _ :: _, _ => simp
        | [], h => simp [Spec.hexPrefix] at h
        | [_], h => simp [Spec.hexPrefix] at h
        | [_, _], h => simp [Spec.hexPrefix] at h
      have hl3 : s.length - (s2.drop 2).length = p + (if neg then 1 else 0) + 2 := by
        simp only [List.length_drop]; omega
      simp only [if_true]
      rw [hl3]
  unfold Spec.parseAuto
  cases ws with
  | false =>
    simp only [Bool.false_eq_true, if_false]
    exact key 0 s (by omega)
  | true =>
    simp only [if_true]
    exact key _ _ hlen

/-- `to_integer` with base 0, every input: reads stay inside the string, no intermediate overflows, and the
    outcome is that of the reference pattern with the base taken from the text (`Spec.parseAuto`) -/
theorem toInteger_auto (t : IntTy) (h8 : 8 ≤ t.bits) (ws : Bool) (s : List Nat) (hbytes : ∀ c ∈ s, c < 256) :
    toInteger t ws s 0 = .ok (TIRes.ofSpec (Spec.parseAuto t ws s)) := by
  unfold toInteger
  have hbase : (((0 : Int) != 0) && (decide ((0 : Int) < 2) || decide ((0 : Int) > 36))) = false := by decide
  simp only [hbase, Bool.false_eq_true, if_false]
  rw [parseAuto_eq]
  cases ws with
  | false =>
    simp only [Bool.false_eq_true, if_false, ok_bind]
    exact toIntegerAt_auto_spec t h8 [] s hbytes
  | true =>
    simp only [if_true]
    have hsk := skipWs_spec s [] hbytes
    simp only [List.nil_append, List.length_nil, Nat.zero_add] at hsk
    rw [hsk]
    simp only [ok_bind]
    have h := toIntegerAt_auto_spec t h8 (s.takeWhile Spec.isSpace) (s.dropWhile Spec.isSpace)
      (fun c hc => hbytes c ((List.dropWhile_sublist _).subset hc))
    rw [List.takeWhile_append_dropWhile] at h
    exact h

end Tetl.C10
