/-
C10 — `to_integer` with `check_overflow = false` on an UNSIGNED type: the pass never fails (unsigned
arithmetic wraps) and stops exactly behind the digit run, also when the digits denote a value that
is outside the type.
-/
import TetlProofs.C10.Unchecked
namespace Tetl.C10
open Tetl

/-- unsigned arithmetic wraps: never an error -/
theorem arith_unsigned {t : IntTy} (hs : t.signed = false) (x : Int) : ∃ v, t.arith x = .ok v := by
  unfold IntTy.arith
  split
  · exact ⟨_, rfl⟩
  · rw [hs]
    simp only [Bool.false_and, Bool.false_eq_true, if_false]
    exact ⟨_, rfl⟩

/-- a digit of the base: `parseDigit` is its value -/
theorem parseDigit_of_digit (t : IntTy) {b c : Nat} (hc : c < 256) (hd : Spec.isDigitOf b c = true) :
    ∃ d : Nat, parseDigit t (toInt c) = (d : Int) ∧ d < b := by
  have hpd := parseDigit_spec t hc
  unfold Spec.isDigitOf at hd
  cases hdv : Spec.digitVal c with
  | none => rw [hdv] at hd; cases hd
  | some d =>
    rw [hdv] at hpd hd
    simp only [decide_eq_true_eq] at hd
    simp only [] at hpd
    exact ⟨d, hpd.1, hd⟩

/-- not a digit of the base: `parseDigit` is at least the base -/
theorem parseDigit_of_nondigit (t : IntTy) (h8 : 8 ≤ t.bits) {b c : Nat} (hb : b ≤ 36) (hc : c < 256)
    (hd : Spec.isDigitOf b c = false) : parseDigit t (toInt c) ≥ (b : Int) := by
  have hpd := parseDigit_spec t hc
  have hmax := maxV_ge t h8
  unfold Spec.isDigitOf at hd
  cases hdv : Spec.digitVal c with
  | none =>
    rw [hdv] at hpd
    simp only [] at hpd
    rw [hpd]; omega
  | some d =>
    rw [hdv] at hpd hd
    simp only [decide_eq_false_iff_not] at hd
    simp only [] at hpd
    rw [hpd.1]; omega

/-- the unchecked digit loop of an unsigned type never fails and stops exactly behind the digit run -/
theorem tiLoopNC_end (t : IntTy) (hs : t.signed = false) (h8 : 8 ≤ t.bits) (b : Nat) (hb : 2 ≤ b ∧ b ≤ 36) :
    ∀ (rest pre : List Nat) (value : Int), (∀ c ∈ rest, c < 256) →
      ∃ v, tiLoopNC t b (pre ++ rest) rest.length pre.length value =
        .ok (v, pre.length + (rest.takeWhile (Spec.isDigitOf b)).length) := by
  intro rest
  induction rest with
  | nil => intro pre value _; exact ⟨value, by simp [tiLoopNC]⟩
  | cons c rest ih =>
    intro pre value hbytes
    have hc : c < 256 := hbytes c (List.mem_cons_self)
    simp only [List.length_cons, tiLoopNC, rd_append, ok_bind]
    cases hdig : Spec.isDigitOf b c with
    | true =>
      obtain ⟨d, hpd, hdb⟩ := parseDigit_of_digit t hc hdig
      have hnge : ¬ parseDigit t (toInt c) ≥ (b : Int) := by rw [hpd]; omega
      rw [if_neg hnge]
      obtain ⟨v, hv⟩ := arith_unsigned hs
        (if t.signed = true then value * (b : Int) - parseDigit t (toInt c)
          else value * (b : Int) + parseDigit t (toInt c))
      rw [hv]
      simp only [ok_bind]
      have e1 : pre ++ c :: rest = (pre ++ [c]) ++ rest := by simp
      have e2 : pre.length + 1 = (pre ++ [c]).length := by simp
      obtain ⟨v', hv'⟩ := ih (pre ++ [c]) v (fun x hx => hbytes x (List.mem_cons_of_mem _ hx))
      refine ⟨v', ?_⟩
      rw [e1, e2, hv']
      simp only [List.takeWhile_cons, hdig, if_true, List.length_append, List.length_cons, List.length_nil,
        Nat.add_assoc, Nat.add_comm 1]
    | false =>
      have hge := parseDigit_of_nondigit t h8 hb.2 hc hdig
      rw [if_pos hge]
      exact ⟨value, by simp [hdig]⟩

/-- from the first digit on (unsigned: no sign, no `min` check): no error, `end` behind the digit run -/
theorem toIntegerDigitsNC_end (t : IntTy) (hs : t.signed = false) (h8 : 8 ≤ t.bits) (b : Nat) (hb : 2 ≤ b ∧ b ≤ 36)
    (pre : List Nat) (c1 : Nat) (r2 : List Nat) (hbytes : ∀ c ∈ c1 :: r2, c < 256)
    (hdig : Spec.isDigitOf b c1 = true) :
    ∃ v, toIntegerDigitsNC t (pre ++ c1 :: r2) b false pre.length =
      .ok ⟨pre.length + ((c1 :: r2).takeWhile (Spec.isDigitOf b)).length, .none, v⟩ := by
  have hc : c1 < 256 := hbytes c1 (List.mem_cons_self)
  have hbytes2 : ∀ c ∈ r2, c < 256 := fun x hx => hbytes x (List.mem_cons_of_mem _ hx)
  obtain ⟨d, hpd, hdb⟩ := parseDigit_of_digit t hc hdig
  unfold toIntegerDigitsNC
  simp only [rd_append, ok_bind]
  have hfv : firstValue t (parseDigit t (toInt c1)) = .ok (d : Int) := by
    unfold firstValue
    rw [hs, hpd]
    simp only [Bool.false_eq_true, if_false]
  rw [hfv]
  simp only [ok_bind]
  have habs : ¬ (if (d : Int) < 0 then -(d : Int) else (d : Int)) ≥ (b : Int) := by split <;> omega
  rw [if_neg habs]
  have e1 : pre ++ c1 :: r2 = (pre ++ [c1]) ++ r2 := by simp
  have e2 : pre.length + 1 = (pre ++ [c1]).length := by simp
  have e3 : (pre ++ c1 :: r2).length - (pre.length + 1) = r2.length := by
    simp only [List.length_append, List.length_cons]; omega
  obtain ⟨v, hv⟩ := tiLoopNC_end t hs h8 b hb r2 (pre ++ [c1]) d hbytes2
  refine ⟨v, ?_⟩
  rw [e3, e1, e2, hv]
  simp only [ok_bind, hs, Bool.false_and, Bool.false_eq_true, if_false, List.takeWhile_cons, hdig, if_true,
    List.length_append, List.length_cons, List.length_nil, Nat.add_assoc, Nat.add_comm 1]

/-- a non-`invalid` reference outcome: the digit run is not empty and the count is its length -/
theorem digitsOutcome_count (t : IntTy) (b off : Nat) (s2 : List Nat) (n : Nat)
    (h : Spec.digitsOutcome t b false off s2 = .range n ∨ ∃ v, Spec.digitsOutcome t b false off s2 = .ok v n) :
    ∃ c1 r2, s2 = c1 :: r2 ∧ Spec.isDigitOf b c1 = true ∧
      n = off + (s2.takeWhile (Spec.isDigitOf b)).length := by
  unfold Spec.digitsOutcome at h
  cases s2 with
  | nil => simp at h
  | cons c1 r2 =>
    cases hdig : Spec.isDigitOf b c1 with
    | false => simp [hdig] at h
    | true =>
      refine ⟨c1, r2, rfl, hdig, ?_⟩
      simp only [List.takeWhile_cons, hdig, if_true, List.isEmpty_cons, Bool.false_eq_true, if_false] at h ⊢
      rcases h with h | ⟨v, h⟩
      · split at h
        · cases h
        · cases h; rfl
      · split at h
        · cases h; rfl
        · cases h

/-- unsigned types have no sign -/
theorem parse_unsigned (t : IntTy) (hs : t.signed = false) (s : List Nat) (b : Nat) :
    Spec.parse t false s b = Spec.digitsOutcome t b false 0 s := by
  rw [parse_eq]
  simp [Spec.signOutcome, hs]

theorem parseAuto_unsigned (t : IntTy) (hs : t.signed = false) (s : List Nat) :
    Spec.parseAuto t false s = Spec.autoOutcome t false 0 s := by
  rw [parseAuto_eq]
  simp [Spec.signOutcomeAuto, hs]

/-- the stronger form: whenever the digit run is not empty -/
theorem toIntegerNC_end' (t : IntTy) (hs : t.signed = false) (h8 : 8 ≤ t.bits) (s : List Nat)
    (hbytes : ∀ c ∈ s, c < 256) (b : Nat) (hb : 2 ≤ b ∧ b ≤ 36) (n : Nat)
    (h : Spec.parse t false s b = .range n ∨ ∃ v, Spec.parse t false s b = .ok v n) :
    ∃ r, toIntegerNC t false s b = .ok r ∧ r.endPos = n ∧ r.err = .none := by
  rw [parse_unsigned t hs] at h
  obtain ⟨c1, r2, rfl, hdig, hn⟩ := digitsOutcome_count t b 0 _ n h
  unfold toIntegerNC
  have hbase : (((b : Int) != 0) && (decide ((b : Int) < 2) || decide ((b : Int) > 36))) = false := by
    have : (decide ((b : Int) < 2) || decide ((b : Int) > 36)) = false := by
      simp only [Bool.or_eq_false_iff, decide_eq_false_iff_not]; omega
    rw [this, Bool.and_false]
  have hb0 : ((b : Int) == 0) = false := by
    rw [Bool.eq_false_iff, Ne, beq_iff_eq]; omega
  simp only [hbase, Bool.false_eq_true, if_false, ok_bind]
  unfold toIntegerAtNC
  have hne : (0 == (c1 :: r2).length) = false := by simp
  have hrd : rd (c1 :: r2) 0 = .ok c1 := rd_append [] r2 c1
  simp only [hne, hrd, hs, hb0, Bool.false_eq_true, if_false, ok_bind, Bool.false_and]
  obtain ⟨v, hv⟩ := toIntegerDigitsNC_end t hs h8 b hb [] c1 r2 hbytes hdig
  simp only [List.nil_append, List.length_nil] at hv
  exact ⟨_, hv, by rw [hn], rfl⟩

/-- explicit base -/
theorem toIntegerNC_end (t : IntTy) (hs : t.signed = false) (h8 : 8 ≤ t.bits) (s : List Nat)
    (hbytes : ∀ c ∈ s, c < 256) (b : Nat) (hb : 2 ≤ b ∧ b ≤ 36) (n : Nat)
    (h : Spec.parse t false s b = .range n) :
    ∃ r, toIntegerNC t false s b = .ok r ∧ r.endPos = n := by
  obtain ⟨r, h1, h2, _⟩ := toIntegerNC_end' t hs h8 s hbytes b hb n (Or.inl h)
  exact ⟨r, h1, h2⟩

example : Spec.parse ⟨8, false⟩ false [50, 53, 54, 120] 10 = .range 3 := by decide
example : ∃ r, toIntegerNC ⟨8, false⟩ false [50, 53, 54, 120] (10 : Nat) = .ok r ∧ r.endPos = 3 :=
  toIntegerNC_end ⟨8, false⟩ rfl (by decide) [50, 53, 54, 120] (by decide) 10 (by decide) 3 (by decide)

/-- the stronger form with base 0 -/
theorem toIntegerNC_auto_end' (t : IntTy) (hs : t.signed = false) (h8 : 8 ≤ t.bits) (s : List Nat)
    (hbytes : ∀ c ∈ s, c < 256) (n : Nat)
    (h : Spec.parseAuto t false s = .range n ∨ ∃ v, Spec.parseAuto t false s = .ok v n) :
    ∃ r, toIntegerNC t false s 0 = .ok r ∧ r.endPos = n ∧ r.err = .none := by
  rw [parseAuto_unsigned t hs] at h
  unfold Spec.autoOutcome at h
  obtain ⟨d1, r3, hs3, hdig, hn⟩ := digitsOutcome_count t _ _ _ n h
  have hbr := Spec.autoBase_range s
  unfold toIntegerNC
  have hbase : (((0 : Int) != 0) && (decide ((0 : Int) < 2) || decide ((0 : Int) > 36))) = false := by decide
  simp only [hbase, Bool.false_eq_true, if_false, ok_bind]
  unfold toIntegerAtNC
  cases s with
  | nil =>
    have : Spec.hexPrefix [] = false := rfl
    simp [this] at hs3
  | cons c0 r1 =>
    have hne : (0 == (c0 :: r1).length) = false := by simp
    have hrd : rd (c0 :: r1) 0 = .ok c0 := rd_append [] r1 c0
    have hb0 : ((0 : Int) == 0) = true := rfl
    have hdb := detectBase_spec t h8 [] c0 r1 hbytes
    simp only [List.nil_append, List.length_nil, Nat.zero_add] at hdb
    simp only [hne, hrd, hs, hb0, Bool.false_eq_true, if_false, if_true, ok_bind, Bool.false_and, hdb]
    cases hhex : Spec.hexPrefix (c0 :: r1) with
    | false =>
      simp only [hhex, Bool.false_eq_true, if_false, Nat.add_zero] at hs3 hn ⊢
      cases hs3
      obtain ⟨v, hv⟩ := toIntegerDigitsNC_end t hs h8 _ hbr [] d1 r3 hbytes hdig
      simp only [List.nil_append, List.length_nil] at hv
      exact ⟨_, hv, by rw [hn], rfl⟩
    | true =>
      simp only [hhex, if_true] at hs3 hn ⊢
      match r1, hhex, hbytes, hs3, hn, hbr, hdig with
      | x :: d :: r4, hhex, hbytes, hs3, hn, hbr, hdig =>
        simp only [List.drop_succ_cons, List.drop_zero] at hs3 hn
        cases hs3
        obtain ⟨v, hv⟩ := toIntegerDigitsNC_end t hs h8 _ hbr [c0, x] d1 r3
          (fun c hc => hbytes c (by simp at hc ⊢; rcases hc with h | h <;> simp [h])) hdig
        have e1 : [c0, x] ++ d1 :: r3 = c0 :: x :: d1 :: r3 := rfl
        have e2 : [c0, x].length = 2 := rfl
        rw [e1, e2] at hv
        exact ⟨_, hv, by rw [hn], rfl⟩
      | [], hhex, _, _, _, _, _ => simp [Spec.hexPrefix] at hhex
      | [_], hhex, _, _, _, _, _ => simp [Spec.hexPrefix] at hhex

/-- base 0 (auto-detection) -/
theorem toIntegerNC_auto_end (t : IntTy) (hs : t.signed = false) (h8 : 8 ≤ t.bits) (s : List Nat)
    (hbytes : ∀ c ∈ s, c < 256) (n : Nat)
    (h : Spec.parseAuto t false s = .range n) :
    ∃ r, toIntegerNC t false s 0 = .ok r ∧ r.endPos = n := by
  obtain ⟨r, h1, h2, _⟩ := toIntegerNC_auto_end' t hs h8 s hbytes n (Or.inl h)
  exact ⟨r, h1, h2⟩

example : Spec.parseAuto ⟨8, false⟩ false [48, 120, 49, 50, 51, 122] = .range 5 := by decide
example : ∃ r, toIntegerNC ⟨8, false⟩ false [48, 120, 49, 50, 51, 122] 0 = .ok r ∧ r.endPos = 5 :=
  toIntegerNC_auto_end ⟨8, false⟩ rfl (by decide) [48, 120, 49, 50, 51, 122] (by decide) 5 (by decide)

end Tetl.C10
