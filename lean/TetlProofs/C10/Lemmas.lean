/-
C10 — helper lemmas: integer types, the digit-writing loop of `from_integer`.
-/
import Tetl.C10.Model
import Tetl.C10.Spec
namespace Tetl.C10
open Tetl

@[simp] theorem ok_bind {ε α β} (a : α) (f : α → Except ε β) : (Except.ok a >>= f) = f a := rfl
@[simp] theorem error_bind {ε α β} (e : ε) (f : α → Except ε β) : (Except.error e >>= f) = Except.error e := rfl
@[simp] theorem pure_eq_ok {ε α} (a : α) : (pure a : Except ε α) = Except.ok a := rfl

/-! ### integer types -/

namespace IntTy

theorem inRange_iff (t : IntTy) (x : Int) : t.inRange x = true ↔ t.minV ≤ x ∧ x ≤ t.maxV := by
  simp [inRange]

theorem arith_of_inRange {t : IntTy} {x : Int} (h : t.inRange x = true) : t.arith x = .ok x := by
  simp [arith, h]

theorem minV_nonpos (t : IntTy) : t.minV ≤ 0 := by
  unfold minV
  split
  · have : (0 : Int) < 2 ^ (t.bits - 1) := Int.pow_pos (by decide)
    omega
  · exact Int.le_refl 0

theorem maxV_nonneg (t : IntTy) : 0 ≤ t.maxV := by
  unfold maxV
  split
  · have : (0 : Int) < 2 ^ (t.bits - 1) := Int.pow_pos (by decide)
    omega
  · have : (0 : Int) < 2 ^ t.bits := Int.pow_pos (by decide)
    omega

/-- a value between 0 and a representable value is representable -/
theorem inRange_between {t : IntTy} {x y : Int} (hx : t.inRange x = true)
    (h : (0 ≤ y ∧ y ≤ x) ∨ (x ≤ y ∧ y ≤ 0)) : t.inRange y = true := by
  rw [inRange_iff] at *
  have h1 := t.minV_nonpos
  have h2 := t.maxV_nonneg
  omega

theorem nonneg_of_unsigned {t : IntTy} {x : Int} (hs : t.signed = false) (hx : t.inRange x = true) : 0 ≤ x := by
  rw [inRange_iff] at hx
  simp [minV, hs] at hx
  exact hx.1

end IntTy

/-! ### checked access on `pre ++ rest` -/

theorem wr_append (pre rest : List Nat) (r x : Nat) :
    wr (pre ++ r :: rest) pre.length x = .ok (pre ++ x :: rest) := by
  simp [wr]

theorem rd_append {α} (pre rest : List α) (c : α) : rd (pre ++ c :: rest) pre.length = .ok c := by
  simp [rd]

theorem revRange_append (pre mid post : List Nat) :
    revRange (pre ++ mid ++ post) pre.length (pre.length + mid.length) = .ok (pre ++ mid.reverse ++ post) := by
  unfold revRange
  have h1 : pre.length ≤ pre.length + mid.length ∧ pre.length + mid.length ≤ (pre ++ mid ++ post).length := by
    simp
  rw [if_pos h1]
  simp [List.drop_append]

theorem digitChar_eq (d : Nat) : digitChar d = Spec.digitChar d := by
  unfold digitChar Spec.digitChar
  split <;> split <;> omega

/-! ### digits -/

theorem digits_zero (b : Nat) : Spec.digits b 0 = [] := by
  rw [Spec.digits]; simp

theorem digits_pos {b n : Nat} (hb : 2 ≤ b) (hn : n ≠ 0) : Spec.digits b n = Spec.digits b (n / b) ++ [n % b] := by
  rw [Spec.digits]
  have : ¬(n = 0 ∨ b < 2) := by omega
  simp [this]

/-! ### the digit loop of `from_integer` -/

/-- `num = ±n` (as `Int`) -/
def sgn (neg : Bool) (n : Nat) : Int := if neg then -(n : Int) else n

/-- truncating division of `±n` by a positive base is `±(n / b)`, the remainder `±(n % b)` -/
theorem tdiv_tmod_signed (n b : Nat) (neg : Bool) :
    (sgn neg n).tdiv b = sgn neg (n / b) ∧ (sgn neg n).tmod b = sgn neg (n % b) := by
  cases neg
  · exact ⟨(Int.ofNat_tdiv n b).symm, (Int.ofNat_tmod n b).symm⟩
  · simp only [sgn, if_true, Int.neg_tdiv, Int.neg_tmod]
    exact ⟨by rw [Int.ofNat_tdiv], by rw [Int.ofNat_tmod]⟩

theorem sgn_natAbs (neg : Bool) (n : Nat) : (sgn neg n).natAbs = n := by
  cases neg <;> simp [sgn]

theorem sgn_between (neg : Bool) {m n : Nat} (h : m ≤ n) :
    (0 ≤ sgn neg m ∧ sgn neg m ≤ sgn neg n) ∨ (sgn neg n ≤ sgn neg m ∧ sgn neg m ≤ 0) := by
  cases neg
  · simp only [sgn, Bool.false_eq_true, if_false]; omega
  · simp only [sgn, if_true]; omega

theorem sgn_eq_zero_iff {neg : Bool} {n : Nat} : sgn neg n = 0 ↔ n = 0 := by
  cases neg <;> simp [sgn] <;> omega

/-- The loop writes the digits of `n`, least significant first, after `pre`, if they (and the
    reserved terminator byte) fit into `rest`; otherwise it reports overflow.  No write is out of
    bounds, no arithmetic overflows, the fuel suffices. -/
theorem fiLoop_spec (t : IntTy) (b : Nat) (hb : 2 ≤ b) (res : Nat) (neg : Bool) :
    ∀ (fuel n : Nat) (pre rest : List Nat) (len : Nat), n < fuel → len = pre.length + rest.length →
      t.inRange (sgn neg n) = true →
      fiLoop t b res len fuel (sgn neg n) (pre ++ rest) pre.length =
        .ok (if (Spec.digits b n).length = 0 ∨ (Spec.digits b n).length + res ≤ rest.length
             then some (pre ++ ((Spec.digits b n).reverse.map digitChar) ++ rest.drop (Spec.digits b n).length,
                        pre.length + (Spec.digits b n).length)
             else none) := by
  intro fuel
  induction fuel with
  | zero => intro n _ _ _ h; omega
  | succ f ih =>
    intro n pre rest len hf hlen hr
    unfold fiLoop
    by_cases hn : n = 0
    · subst hn
      simp [sgn_eq_zero_iff, digits_zero]
    · have hne : (sgn neg n == 0) = false := by simp [sgn_eq_zero_iff, hn]
      simp only [hne, Bool.false_eq_true, if_false]
      have hd := digits_pos hb hn
      have hk : (Spec.digits b n).length = (Spec.digits b (n / b)).length + 1 := by simp [hd]
      obtain ⟨hq', hm'⟩ := tdiv_tmod_signed n b neg
      have hbpos : 0 < b := by omega
      have hdivle : n / b ≤ n := Nat.div_le_self n b
      have hmodle : n % b ≤ n := Nat.mod_le n b
      have hrq : t.inRange (sgn neg (n / b)) = true := IntTy.inRange_between hr (sgn_between neg hdivle)
      have hrm : t.inRange (sgn neg (n % b)) = true := IntTy.inRange_between hr (sgn_between neg hmodle)
      by_cases hfit : len < pre.length + 1 + res
      · -- no room for this digit
        simp only [hfit, if_true]
        have : ¬((Spec.digits b n).length = 0 ∨ (Spec.digits b n).length + res ≤ rest.length) := by omega
        rw [if_neg this]
      · simp only [hfit, if_false]
        rw [hq', hm', IntTy.arith_of_inRange hrq, IntTy.arith_of_inRange hrm]
        simp only [ok_bind, sgn_natAbs]
        cases rest with
        | nil => simp only [List.length_nil] at hlen; omega
        | cons r rest' =>
          rw [wr_append]
          simp only [ok_bind]
          have hdl : n / b < f := by
            have : n / b < n := Nat.div_lt_self (by omega) (by omega)
            omega
          have e1 : pre ++ digitChar (n % b) :: rest' = (pre ++ [digitChar (n % b)]) ++ rest' := by simp
          have e2 : pre.length + 1 = (pre ++ [digitChar (n % b)]).length := by simp
          have hlen' : len = (pre ++ [digitChar (n % b)]).length + rest'.length := by
            simp only [List.length_cons, List.length_append, List.length_nil] at hlen ⊢; omega
          rw [e1, e2, ih (n / b) (pre ++ [digitChar (n % b)]) rest' len hdl hlen' hrq]
          simp only [List.length_cons] at hlen
          by_cases hc : (Spec.digits b (n / b)).length = 0 ∨ (Spec.digits b (n / b)).length + res ≤ rest'.length
          · have hc2 : (Spec.digits b n).length = 0 ∨ (Spec.digits b n).length + res ≤ (r :: rest').length := by
              simp only [List.length_cons]; omega
            rw [if_pos hc, if_pos hc2, hk, hd]
            simp [List.reverse_append]
            omega
          · have hc2 : ¬((Spec.digits b n).length = 0 ∨ (Spec.digits b n).length + res ≤ (r :: rest').length) := by
              simp only [List.length_cons]; omega
            rw [if_neg hc, if_neg hc2]

theorem digits_ne_nil {b n : Nat} (hb : 2 ≤ b) (hn : n ≠ 0) : (Spec.digits b n).length ≠ 0 := by
  rw [digits_pos hb hn]; simp

/-- after the optional sign: digits most significant first, optional terminator, rest untouched -/
theorem fiBody_spec (t : IntTy) (b : Nat) (hb : 2 ≤ b) (term neg : Bool) (n : Nat) (hn : n ≠ 0)
    (pre rest : List Nat) (hpre : pre.length = if neg then 1 else 0) (hr : t.inRange (sgn neg n) = true) :
    fiBody t term b (sgn neg n) (pre ++ rest) neg pre.length =
      .ok (if (Spec.digits b n).length + (if term then 1 else 0) ≤ rest.length
           then .done (pre ++ (Spec.digits b n).map digitChar ++ (if term then [0] else [])
                        ++ rest.drop ((Spec.digits b n).length + (if term then 1 else 0)))
                      (pre.length + (Spec.digits b n).length)
           else .overflow) := by
  unfold fiBody
  rw [sgn_natAbs, List.length_append,
    fiLoop_spec t b hb (if term then 1 else 0) neg (n + 1) n pre rest _ (by omega) rfl hr]
  have hk := digits_ne_nil hb hn
  by_cases hfit : (Spec.digits b n).length + (if term then 1 else 0) ≤ rest.length
  · rw [if_pos (Or.inr hfit), if_pos hfit]
    simp only [ok_bind]
    have hmid : (Spec.digits b n).length = ((Spec.digits b n).reverse.map digitChar).length := by simp
    rw [← hpre]
    conv => lhs; arg 1; rw [hmid]
    rw [revRange_append]
    simp only [ok_bind, List.map_reverse, List.reverse_reverse, List.length_reverse, List.length_map]
    cases term with
    | false => simp
    | true =>
      simp only [if_true] at hfit ⊢
      have hlt : (Spec.digits b n).length < rest.length := by omega
      rw [List.drop_eq_getElem_cons hlt]
      have e : pre.length + (Spec.digits b n).length = (pre ++ (Spec.digits b n).map digitChar).length := by simp
      rw [e, wr_append]
      simp
  · have : ¬((Spec.digits b n).length = 0 ∨ (Spec.digits b n).length + (if term then 1 else 0) ≤ rest.length) := by
      omega
    rw [if_neg this, if_neg hfit]
    rfl

/-- `Spec.fromInteger` for a non-zero value, in the shape the model produces -/
theorem spec_fromInteger_nonzero (term : Bool) (v : Int) (b : Nat) (buf : List Nat) (hv0 : v ≠ 0) :
    Spec.fromInteger term v b buf =
      (if (if v < 0 then 1 else 0) + (Spec.digits b v.natAbs).length + (if term then 1 else 0) ≤ buf.length
       then .done ((if v < 0 then [45] else []) ++ (Spec.digits b v.natAbs).map Spec.digitChar
                    ++ (if term then [0] else [])
                    ++ buf.drop ((if v < 0 then 1 else 0) + (Spec.digits b v.natAbs).length + (if term then 1 else 0)))
                  ((if v < 0 then 1 else 0) + (Spec.digits b v.natAbs).length)
       else .overflow) := by
  unfold Spec.fromInteger Spec.render
  simp only [hv0, if_false]
  by_cases hneg : v < 0 <;> cases term <;> simp [hneg, Nat.add_comm, Nat.add_assoc, Nat.add_left_comm]

theorem map_digitChar (l : List Nat) : l.map digitChar = l.map Spec.digitChar :=
  List.map_congr_left (fun d _ => digitChar_eq d)

end Tetl.C10
